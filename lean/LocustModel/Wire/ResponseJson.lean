import LocustModel.Wire.Response
/-
  Model of the JSON response path of the HTTP server (C17), as functions to an abstract JSON value:

    src/server/mod.rs
      query (handler), the `json!({"colnames": …, "rows": …})` part   → `queryRowsJson`
      query_output_to_json_cols                                        → `queryOutputToJsonCols`, `jsonCol`, `jsonVal`
    serde_json
      `json!(f64)` = `Value::from(f64)` = `Number::from_f64(f).map_or(Value::Null, Value::Number)`  → `jsonF64`
      (a non-finite float has no JSON number and becomes `null`); `json!(i64)` is an exact integer number;
      `json!(usize)` (a `BasicTypeColumn::Null(n)` column!) is the bare number `n`.

  Number *texts* are not modelled: an integer number is its value, a float number is its 64-bit pattern
  (serde_json prints the shortest text that reads back to the same double; the harness reads it with Rust std).
  The `stats` member (timings) is not part of the model.
  Core-only imports: this file is linked into the driver.
-/
namespace LM.Wire.Response
open LM

/-- A JSON scalar as it appears in a result cell. -/
inductive JScalar where
  | null
  | int (i : Int)          -- integer number, exact
  | float (bits : Nat)     -- non-integer-typed number, as the bits of the double it denotes
  | str (s : String)
  deriving DecidableEq, Repr

/-- A JSON value in column position: an array of scalars, or a bare number. -/
inductive JCol where
  | arr (xs : List JScalar)
  | num (n : Nat)
  deriving DecidableEq, Repr

/-- `{"colnames": [...], "cols": {name: column, …}}` (object keys unique; order of keys is not observable). -/
structure JColsResp where
  colnames : List String
  cols : List (String × JCol)
  deriving DecidableEq, Repr

/-- `{"colnames": [...], "rows": [[...], …]}`. -/
structure JRowsResp where
  colnames : List String
  rows : List (List JScalar)
  deriving DecidableEq, Repr

/-- `f64::is_finite` on the bit pattern: the exponent field is not all ones. -/
def isFinite (bits : Nat) : Bool := (bits / 2 ^ 52) % 2048 != 2047

/-- `json!(f)` for an `f64`. -/
def jsonF64 (bits : Nat) : JScalar := if isFinite bits then .float bits else .null

/-- The `match val { Value::Int(int) => json!(int), Value::Str(str) => json!(str), Value::Null => json!(null),
    Value::Float(float) => json!(float.0) }` that both JSON renderings use. -/
def jsonVal : Val → JScalar
  | .int i => .int i
  | .str s => .str s
  | .null => .null
  | .float b => jsonF64 b

/-- The `match data { … }` of `query_output_to_json_cols`. -/
def jsonCol : BCol → JCol
  | .int xs => .arr (xs.map .int)
  | .float xs => .arr (xs.map jsonF64)
  | .str xs => .arr (xs.map .str)
  | .null n => .num n                                  -- `json!(xs)` with `xs: usize`
  | .mixed xs => .arr (xs.map jsonVal)

/-- `for (colname, data) in result.columns { cols.insert(colname, json_data); }`. -/
def jsonColsMap (columns : List (String × BCol)) : List (String × JCol) :=
  columns.foldl (fun m nc => insertKV nc.1 (jsonCol nc.2) m) []

/-- `fn query_output_to_json_cols(result: QueryOutput) -> serde_json::Value`. -/
def queryOutputToJsonCols (colnames : List String) (columns : List (String × BCol)) : JColsResp :=
  { colnames := colnames, cols := jsonColsMap columns }

/-- The response body of `/query`. -/
def queryRowsJson (colnames : List String) (rows : List (List Val)) : JRowsResp :=
  { colnames := colnames, rows := rows.map fun r => r.map jsonVal }

/-! ### readers -/

/-- A typed reader (serde_json into `i64` / `f64` / `String` / `Option`): numbers keep their kind. -/
def readScalar : JScalar → Val
  | .null => .null
  | .int i => .int i
  | .float b => .float b
  | .str s => .str s

/-- A reader that has only doubles for numbers (JavaScript `JSON.parse`): an integer number is rounded to the
    nearest double (`i64AsF64`, ties to even). -/
def jsReadScalar : JScalar → Val
  | .null => .null
  | .int i => .float (LM.Wire.EventBuffer.i64AsF64 i)
  | .float b => .float b
  | .str s => .str s

/-- Cells of a JSON column: a bare number `n` stands for `n` NULLs. -/
def readCol : JCol → List Val
  | .arr xs => xs.map readScalar
  | .num n => List.replicate n .null

/-- What the property allows JSON to do to a cell: a non-finite float cannot be represented and reads as NULL. -/
def finiteOrNull : Val → Val
  | .float b => if isFinite b then .float b else .null
  | v => v

end LM.Wire.Response
