import LocustModel.Wire.ResponseServer
/-
  Specification for C17: what a client must see, stated on logical cells, independent of `encode_column`.

  Binary responses (`specView`, `CellKeeps`):
    a column whose cells are floats and NULLs with at least one float is shown as a float column in which NULL
    appears as the reserved NaN `xor_float::NULL` (the wire format has no other way to say NULL in a float
    vector); every other column is shown cell for cell.  With xor compression and a reduced mantissa `m` the
    float cells agree on the bits the mask keeps (sign, exponent, `m` leading mantissa bits).
  JSON responses (`finiteOrNull`): every cell exact, except that a non-finite float reads as `null`;
    `colnames` is the embedded `colnames` in order; every result column is found under its name.
  Errors: every failing query yields a 4xx/5xx status; every request of a history gets an outcome and none is
    `dropped` (`Agrees`).
  Core-only imports: this file is linked into the driver.
-/
namespace LM.Wire.Response
open LM LM.Gen.Status

/-- Two lists of the same length related element by element (core has no `Forall₂`). -/
inductive Zip2 {α β : Type} (R : α → β → Prop) : List α → List β → Prop where
  | nil : Zip2 R [] []
  | cons {a : α} {b : β} {as : List α} {bs : List β} : R a b → Zip2 R as bs → Zip2 R (a :: as) (b :: bs)

/-- NULL written as the reserved NaN. -/
def nanNull : Val → Val
  | .null => .float NULL_BITS
  | v => v

def isFloatOrNull : Val → Bool
  | .float _ => true
  | .null => true
  | _ => false

def isFloat : Val → Bool
  | .float _ => true
  | _ => false

/-- Cells are floats and NULLs, at least one float. -/
def floatish (cells : List Val) : Bool := cells.all isFloatOrNull && cells.any isFloat

/-- What the client of a binary response must see for an embedded column. -/
def specView (col : BCol) : List Val :=
  if floatish col.cells then col.cells.map nanNull else col.cells

/-- Agreement of a client cell `y` with the specified cell `x` under a mantissa mask. -/
def CellKeeps (mask : Nat) (y x : Val) : Prop :=
  match y, x with
  | .float a, .float b => LM.Wire.XorFloat.Keeps mask a b
  | y, x => y = x

instance (mask : Nat) (y x : Val) : Decidable (CellKeeps mask y x) := by
  unfold CellKeeps LM.Wire.XorFloat.Keeps; split <;> exact inferInstance

/-- All 64 bits. -/
def ALL_ONES : Nat := LM.Wire.XorFloat.U64 - 1

/-- The mask in effect for one `encode_column` call: the mantissa setting only matters under xor compression. -/
def effMask (o : Opts) : Nat := if o.xor then LM.Wire.XorFloat.maskOf o.mantissa else ALL_ONES

/-- The column is inside the domain of the wire format: float patterns are 64-bit, the length fits the u64 header. -/
def WfCol (col : BCol) : Prop :=
  (∀ v ∈ col.cells, ∀ b, v = .float b → b < LM.Wire.XorFloat.U64) ∧ col.cells.length < LM.Wire.XorFloat.U64

/-- Integer columns of the response survive the wire (this is C16's layout theorem, as a hypothesis). -/
def IntsOk (col : BCol) : Prop := ∀ xs : List Int, col.cells = xs.map .int → LM.Wire.ApiInts.roundtrip xs = .ok xs

/-- Every integer cell is an i64. -/
def IntsInRange (col : BCol) : Prop := ∀ v ∈ col.cells, ∀ i, v = .int i → inI64 i

/-- No float cell carries the reserved NaN pattern (the engine's documented value domain). -/
def NoSentinel (cells : List Val) : Prop := ∀ v ∈ cells, v ≠ .float NULL_BITS

/-- The client-side reading of the reserved NaN. -/
def unNanNull : Val → Val
  | .float b => if b = NULL_BITS then .null else .float b
  | v => v

/-! ### JSON -/

/-- `lookup` in a JSON object / response map. -/
def lookupKV (k : String) : List (String × α) → Option α
  | [] => none
  | (k', v) :: rest => if k' = k then some v else lookupKV k rest

/-- Equal names carry equal columns (always true when the names are distinct). -/
def ConsistentNames (columns : List (String × α)) : Prop :=
  ∀ n c₁ c₂, (n, c₁) ∈ columns → (n, c₂) ∈ columns → c₁ = c₂

/-- A `/query_cols`-shaped JSON response agrees with an embedded result. -/
def JsonColsAgree (o : QOut) (j : JColsResp) : Prop :=
  j.colnames = o.colnames ∧
  (∀ n c, (n, c) ∈ o.columns → ∃ jc, lookupKV n j.cols = some jc ∧ readCol jc = c.cells.map finiteOrNull) ∧
  (∀ n jc, (n, jc) ∈ j.cols → ∃ c, (n, c) ∈ o.columns)

/-- A `/query` JSON response agrees with an embedded result. -/
def JsonRowsAgree (o : QOut) (j : JRowsResp) : Prop :=
  j.colnames = o.colnames ∧ j.rows.map (fun r => r.map readScalar) = o.rows.map (fun r => r.map finiteOrNull)

/-- One column of a binary response, as delivered to the caller of `multi_query`, agrees with the embedded column. -/
def BinColAgree (o : Opts) (col : BCol) (w : WCol) : Prop :=
  ∃ c ys, deliver w = .ok c ∧ c.cells = some ys ∧ Zip2 (CellKeeps (effMask o)) ys (specView col)

/-- A binary response for one query agrees with the embedded result. -/
def BinAgree (eo : EncodingOpts) (o : QOut) (r : List (String × WCol)) : Prop :=
  (∀ n c, (n, c) ∈ o.columns → ∃ w, lookupKV n r = some w ∧ BinColAgree (optsFor eo n) c w) ∧
  (∀ n w, (n, w) ∈ r → ∃ c, (n, c) ∈ o.columns)

/-- An error status. -/
def IsErrorStatus (s : Nat) : Prop := 400 ≤ s ∧ s < 600
instance (s : Nat) : Decidable (IsErrorStatus s) := by unfold IsErrorStatus; exact inferInstance

/-- The HTTP outcome of a request agrees with the embedded outcome of the same request. -/
def Agrees (opts : Option EncodingOpts) : Emb → Resp → Prop
  | .inserted, .inserted => True
  | .one (.ok o), .rows j => JsonRowsAgree o j
  | .one (.ok o), .cols j => JsonColsAgree o j
  | .one (.error _), .error s => IsErrorStatus s
  | .many rs, .multiJson js => ∃ os : List QOut, rs = os.map .ok ∧ Zip2 JsonColsAgree os js
  | .many rs, .multiBin bs => ∃ (os : List QOut) (eo : EncodingOpts), opts = some eo ∧ rs = os.map .ok ∧ Zip2 (BinAgree eo) os bs
  | .many rs, .error s => (∃ e, .error e ∈ rs) ∧ IsErrorStatus s
  | _, _ => False

/-- The `encoding_opts` of a request (for `Agrees`). -/
def Req.opts : Req Batch → Option EncodingOpts
  | .multi _ o => o
  | _ => none

end LM.Wire.Response
