import LocustModel.Query.Combine
import LocustModel.Lemmas.C02Agg
/-
  Helper lemmas for C02: liveness of `Combine.schedule` — when every partition is handed to exactly one worker exactly
  once, the merging of `QueryTask` ends with exactly one entry, and it covers all partitions.

  Invariant of every map of partial results (`Chain`): entries in key order, row ranges non-empty, within the table and
  pairwise disjoint (`a.hi ≤ b.lo` for a before b).  The number of partitions covered (`total`) is preserved by every
  merge.  After the last `push_result` the shared map is a chain that covers `n` partitions inside `[0, n)`: it has no
  gaps (`Tiling`), so with `require_same_level = false` every neighbouring pair is eligible until one entry is left.
-/
namespace LM.C02L
open LM LM.Combine

def Chain {α : Type} (n : Nat) (s : List (Seg α)) : Prop :=
  (∀ x ∈ s, x.lo < x.hi ∧ x.hi ≤ n) ∧ s.Pairwise (fun a b => a.hi ≤ b.lo)

def total {α : Type} (s : List (Seg α)) : Nat := (s.map fun x => x.hi - x.lo).sum

def Disj {α : Type} (x y : Seg α) : Prop := x.hi ≤ y.lo ∨ y.hi ≤ x.lo

def Covered {α : Type} (s : List (Seg α)) (j : Nat) : Prop := ∃ x ∈ s, x.lo ≤ j ∧ j < x.hi

def Tiling {α : Type} : Nat → Nat → List (Seg α) → Prop
  | lo, hi, [] => lo = hi
  | lo, hi, a :: rest => a.lo = lo ∧ a.lo < a.hi ∧ Tiling a.hi hi rest

theorem total_cons {α : Type} (a : Seg α) (rest : List (Seg α)) : total (a :: rest) = (a.hi - a.lo) + total rest := by
  simp [total]

theorem chain_nil {α : Type} (n : Nat) : Chain n ([] : List (Seg α)) := ⟨by simp, List.Pairwise.nil⟩

theorem mem_insertSeg_iff {α : Type} (x y : Seg α) (s : List (Seg α)) :
    y ∈ insertSeg x s ↔ y = x ∨ y ∈ s := by
  induction s with
  | nil => simp [insertSeg]
  | cons z zs ih =>
    simp only [insertSeg]
    split
    · simp
    · simp only [List.mem_cons, ih]
      constructor
      · rintro (h | h | h) <;> simp [h]
      · rintro (h | h | h) <;> simp [h]

theorem total_insertSeg {α : Type} (x : Seg α) (s : List (Seg α)) :
    total (insertSeg x s) = (x.hi - x.lo) + total s := by
  induction s with
  | nil => simp [insertSeg, total]
  | cons z zs ih =>
    simp only [insertSeg]
    split
    · simp [total]
    · simp only [total, List.map_cons, List.sum_cons] at ih ⊢
      omega

theorem insertSeg_chain {α : Type} (n : Nat) (x : Seg α) (s : List (Seg α)) (hs : Chain n s)
    (hx : x.lo < x.hi ∧ x.hi ≤ n) (hd : ∀ y ∈ s, Disj x y) : Chain n (insertSeg x s) := by
  refine ⟨?_, ?_⟩
  · intro y hy
    rcases (mem_insertSeg_iff x y s).mp hy with h | h
    · subst h; exact hx
    · exact hs.1 y h
  · induction s with
    | nil => simp [insertSeg]
    | cons z zs ih =>
      have hp := List.pairwise_cons.mp hs.2
      simp only [insertSeg]
      split
      · rename_i hlt
        refine List.pairwise_cons.mpr ⟨?_, hs.2⟩
        intro w hw
        have hzw : z.lo ≤ w.lo := by
          rcases List.mem_cons.mp hw with h | h
          · subst h; exact Nat.le_refl _
          · have := hp.1 w h
            have := (hs.1 z (by simp)).1
            omega
        rcases hd w hw with h | h
        · exact h
        · have := (hs.1 w hw).1
          omega
      · rename_i hge
        refine List.pairwise_cons.mpr ⟨?_, ?_⟩
        · intro w hw
          rcases (mem_insertSeg_iff x w zs).mp hw with h | h
          · subst h
            rcases hd z (by simp) with h | h
            · have := hx.1; omega
            · exact h
          · exact hp.1 w h
        · exact ih ⟨fun y hy => hs.1 y (List.mem_cons_of_mem z hy), hp.2⟩
            (fun y hy => hd y (List.mem_cons_of_mem z hy))

theorem covered_insertSeg {α : Type} (x : Seg α) (s : List (Seg α)) (j : Nat) :
    Covered (insertSeg x s) j → (x.lo ≤ j ∧ j < x.hi) ∨ Covered s j := by
  rintro ⟨y, hy, hj⟩
  rcases (mem_insertSeg_iff x y s).mp hy with h | h
  · subst h; exact Or.inl hj
  · exact Or.inr ⟨y, h, hj⟩

/-- One merge of `combine_results` on a chain. -/
theorem mergeFirst_chain {α : Type} (f : α → α → α) (n : Nat) (sl : Bool) (s s' : List (Seg α))
    (hs : Chain n s) (hm : mergeFirst f sl s = some s') :
    Chain n s' ∧ total s' = total s ∧ (∀ z ∈ s', ∃ y ∈ s, y.lo = z.lo) ∧ (∀ j, Covered s' j → Covered s j) := by
  induction s generalizing s' with
  | nil => simp [mergeFirst] at hm
  | cons a rest ih =>
    cases rest with
    | nil => simp [mergeFirst] at hm
    | cons b rest =>
      simp only [mergeFirst] at hm
      have hpa := List.pairwise_cons.mp hs.2
      have hpb := List.pairwise_cons.mp hpa.2
      have ha := hs.1 a (by simp)
      have hb := hs.1 b (by simp)
      split at hm
      · rename_i hc
        simp only [Option.some.injEq] at hm
        subst hm
        have hadj : a.hi = b.lo := by
          simp only [Bool.and_eq_true, decide_eq_true_eq] at hc
          exact hc.2
        refine ⟨⟨?_, ?_⟩, ?_, ?_, ?_⟩
        · intro x hx
          rcases List.mem_cons.mp hx with h | h
          · subst h; exact ⟨by simp only; omega, hb.2⟩
          · exact hs.1 x (by simp [h])
        · exact List.pairwise_cons.mpr ⟨fun w hw => hpb.1 w hw, hpb.2⟩
        · simp only [total, List.map_cons, List.sum_cons]; omega
        · intro z hz
          rcases List.mem_cons.mp hz with h | h
          · subst h; exact ⟨a, by simp, rfl⟩
          · exact ⟨z, by simp [h], rfl⟩
        · rintro j ⟨x, hx, hj⟩
          rcases List.mem_cons.mp hx with h | h
          · subst h
            simp only at hj
            rcases Nat.lt_or_ge j a.hi with h1 | h1
            · exact ⟨a, by simp, hj.1, h1⟩
            · exact ⟨b, by simp, by omega, hj.2⟩
          · exact ⟨x, by simp [h], hj⟩
      · cases hr : mergeFirst f sl (b :: rest) with
        | none => simp [hr] at hm
        | some r =>
          simp only [hr, Option.map_some, Option.some.injEq] at hm
          subst hm
          obtain ⟨hc, ht, hlo, hcov⟩ :=
            ih r ⟨fun y hy => hs.1 y (List.mem_cons_of_mem a hy), hpa.2⟩ hr
          refine ⟨⟨?_, ?_⟩, ?_, ?_, ?_⟩
          · intro x hx
            rcases List.mem_cons.mp hx with h | h
            · subst h; exact ha
            · exact hc.1 x h
          · refine List.pairwise_cons.mpr ⟨?_, hc.2⟩
            intro w hw
            obtain ⟨y, hy, hyw⟩ := hlo w hw
            have := hpa.1 y hy
            omega
          · simp only [total, List.map_cons, List.sum_cons] at ht ⊢
            omega
          · intro z hz
            rcases List.mem_cons.mp hz with h | h
            · subst h; exact ⟨z, by simp, rfl⟩
            · obtain ⟨y, hy, hyz⟩ := hlo z h
              exact ⟨y, List.mem_cons_of_mem a hy, hyz⟩
          · rintro j ⟨x, hx, hj⟩
            rcases List.mem_cons.mp hx with h | h
            · subst h; exact ⟨x, by simp, hj⟩
            · obtain ⟨y, hy, hyj⟩ := hcov j ⟨x, h, hj⟩
              exact ⟨y, List.mem_cons_of_mem a hy, hyj⟩

theorem combineResults_chain {α : Type} (f : α → α → α) (n : Nat) (req : Bool) (fuel : Nat) (s : List (Seg α))
    (hs : Chain n s) :
    Chain n (combineResults f req fuel s) ∧ total (combineResults f req fuel s) = total s ∧
      (∀ j, Covered (combineResults f req fuel s) j → Covered s j) := by
  induction fuel generalizing s with
  | zero => simp [combineResults, hs]
  | succ k ih =>
    simp only [combineResults]
    cases h1 : mergeFirst f true s with
    | some s' =>
      obtain ⟨hc, ht, _, hcov⟩ := mergeFirst_chain f n true s s' hs h1
      obtain ⟨hc2, ht2, hcov2⟩ := ih s' hc
      exact ⟨hc2, ht2.trans ht, fun j hj => hcov j (hcov2 j hj)⟩
    | none =>
      simp only
      split
      · exact ⟨hs, rfl, fun _ h => h⟩
      · cases h2 : mergeFirst f false s with
        | some s' =>
          obtain ⟨hc, ht, _, hcov⟩ := mergeFirst_chain f n false s s' hs h2
          obtain ⟨hc2, ht2, hcov2⟩ := ih s' hc
          exact ⟨hc2, ht2.trans ht, fun j hj => hcov j (hcov2 j hj)⟩
        | none => exact ⟨hs, rfl, fun _ h => h⟩

/-- A worker that completes the partitions `is` (distinct, none of them done before): its map stays a chain, covers
    only partitions it has completed, and accounts for every one of them. -/
theorem worker_chain {α : Type} (f : α → α → α) (parts : List α) (is : List Nat) (done : List Nat) (s : List (Seg α))
    (hs : Chain parts.length s) (hcov : ∀ j, Covered s j → j ∈ done) (ht : total s = done.length)
    (hlt : ∀ i ∈ is, i < parts.length) (hnd : is.Nodup) (hnew : ∀ i ∈ is, i ∉ done) :
    Chain parts.length (worker f parts is s) ∧ (∀ j, Covered (worker f parts is s) j → j ∈ done ++ is) ∧
      total (worker f parts is s) = done.length + is.length := by
  induction is generalizing done s with
  | nil => simp [worker, hs, ht]; exact hcov
  | cons i is ih =>
    have hi : i < parts.length := hlt i (by simp)
    simp only [worker, List.getElem?_eq_getElem hi]
    have hnd' := List.nodup_cons.mp hnd
    -- the new leaf
    have hleaf : Chain parts.length (insertSeg ⟨i, i + 1, 0, parts[i]⟩ s) := by
      apply insertSeg_chain _ _ _ hs
      · simp only; omega
      · intro y hy
        rcases Nat.lt_or_ge i y.lo with h | h
        · left; simp only; omega
        · rcases Nat.lt_or_ge i y.hi with h2 | h2
          · exact absurd (hcov i ⟨y, hy, h, h2⟩) (hnew i (by simp))
          · right; simp only; omega
    obtain ⟨hc2, ht2, hcov2⟩ :=
      combineResults_chain f parts.length true (insertSeg ⟨i, i + 1, 0, parts[i]⟩ s).length _ hleaf
    have := ih (done ++ [i]) _ hc2
      (by
        intro j hj
        rcases covered_insertSeg _ _ _ (hcov2 j hj) with h | h
        · simp only at h
          have : j = i := by omega
          simp [this]
        · simp [hcov j h])
      (by rw [ht2, total_insertSeg]; simp only [List.length_append, List.length_singleton]; omega)
      (fun k hk => hlt k (List.mem_cons_of_mem i hk)) hnd'.2
      (by
        intro k hk hmem
        rcases List.mem_append.mp hmem with h | h
        · exact hnew k (List.mem_cons_of_mem i hk) h
        · simp only [List.mem_singleton] at h
          subst h
          exact hnd'.1 hk)
    simpa [List.append_assoc, Nat.add_assoc, Nat.add_comm 1] using this

theorem total_append {α : Type} (a b : List (Seg α)) : total (a ++ b) = total a + total b := by
  simp [total]

theorem total_flatten {α : Type} (L : List (List (Seg α))) : total L.flatten = (L.map total).sum := by
  induction L with
  | nil => simp [total]
  | cons l ls ih => simp [total_append, ih]

theorem disj_symm {α : Type} {x y : Seg α} (h : Disj x y) : Disj y x := Or.symm h

/-- `push_result` of a list of pairwise disjoint entries into the shared map. -/
theorem foldl_insertSeg_chain {α : Type} (n : Nat) (L acc : List (Seg α)) (hacc : Chain n acc)
    (hL : ∀ x ∈ L, x.lo < x.hi ∧ x.hi ≤ n) (hp : L.Pairwise Disj) (hd : ∀ x ∈ L, ∀ y ∈ acc, Disj x y) :
    Chain n (L.foldl (fun acc x => insertSeg x acc) acc) ∧
      total (L.foldl (fun acc x => insertSeg x acc) acc) = total acc + total L := by
  induction L generalizing acc with
  | nil => simp [hacc, total]
  | cons x xs ih =>
    have hpx := List.pairwise_cons.mp hp
    simp only [List.foldl_cons]
    obtain ⟨h1, h2⟩ := ih (insertSeg x acc)
      (insertSeg_chain n x acc hacc (hL x (by simp)) (hd x (by simp)))
      (fun y hy => hL y (List.mem_cons_of_mem x hy)) hpx.2
      (by
        intro y hy z hz
        rcases (mem_insertSeg_iff x z acc).mp hz with h | h
        · subst h; exact disj_symm (hpx.1 y hy)
        · exact hd y (List.mem_cons_of_mem x hy) z h)
    refine ⟨h1, ?_⟩
    rw [h2, total_insertSeg]
    simp only [total, List.map_cons, List.sum_cons]
    omega

/-! ### a chain without room for gaps is a tiling -/

theorem chain_total_le {α : Type} (n l : Nat) (s : List (Seg α)) (hs : Chain n s) (hl : ∀ x ∈ s, l ≤ x.lo)
    (hln : l ≤ n) : total s ≤ n - l := by
  induction s generalizing l with
  | nil => simp [total]
  | cons a rest ih =>
    have hp := List.pairwise_cons.mp hs.2
    have ha := hs.1 a (by simp)
    have h1 := ih a.hi ⟨fun y hy => hs.1 y (List.mem_cons_of_mem a hy), hp.2⟩ hp.1 ha.2
    have h2 := hl a (by simp)
    rw [total_cons]
    omega

theorem chain_tiling {α : Type} (n l : Nat) (s : List (Seg α)) (hs : Chain n s) (hl : ∀ x ∈ s, l ≤ x.lo)
    (hln : l ≤ n) (ht : total s = n - l) : Tiling l n s := by
  induction s generalizing l with
  | nil => simp only [total, List.map_nil, List.sum_nil] at ht; simp only [Tiling]; omega
  | cons a rest ih =>
    have hp := List.pairwise_cons.mp hs.2
    have ha := hs.1 a (by simp)
    have hrest : Chain n rest := ⟨fun y hy => hs.1 y (List.mem_cons_of_mem a hy), hp.2⟩
    have hle := chain_total_le n a.hi rest hrest hp.1 ha.2
    have hla := hl a (by simp)
    rw [total_cons] at ht
    exact ⟨by omega, ha.1, ih a.hi hrest hp.1 ha.2 (by omega)⟩

theorem tiling_mergeFirst {α : Type} (f : α → α → α) (sl : Bool) (lo hi : Nat) (s s' : List (Seg α))
    (ht : Tiling lo hi s) (hm : mergeFirst f sl s = some s') :
    Tiling lo hi s' ∧ s'.length + 1 = s.length ∧ s' ≠ [] := by
  induction s generalizing s' lo with
  | nil => simp [mergeFirst] at hm
  | cons a rest ih =>
    cases rest with
    | nil => simp [mergeFirst] at hm
    | cons b rest =>
      simp only [mergeFirst] at hm
      obtain ⟨ha1, ha2, hb1, hb2, hrest⟩ := ht
      split at hm
      · simp only [Option.some.injEq] at hm
        subst hm
        exact ⟨⟨ha1, by simp only; omega, hrest⟩, by simp, by simp⟩
      · cases hr : mergeFirst f sl (b :: rest) with
        | none => simp [hr] at hm
        | some r =>
          simp only [hr, Option.map_some, Option.some.injEq] at hm
          subst hm
          obtain ⟨h1, h2, _⟩ := ih a.hi r ⟨hb1, hb2, hrest⟩ hr
          exact ⟨⟨ha1, ha2, h1⟩, by simp only [List.length_cons] at h2 ⊢; omega, by simp⟩

theorem tiling_mergeFirst_none {α : Type} (f : α → α → α) (lo hi : Nat) (s : List (Seg α))
    (ht : Tiling lo hi s) (hm : mergeFirst f false s = none) : s.length ≤ 1 := by
  cases s with
  | nil => simp
  | cons a rest =>
    cases rest with
    | nil => simp
    | cons b rest =>
      obtain ⟨_, _, hb1, _, _⟩ := ht
      simp [mergeFirst, hb1] at hm

/-- The final `combine_results(.., require_same_level = false)` on a tiling leaves exactly one entry. -/
theorem combineResults_tiling {α : Type} (f : α → α → α) (lo hi fuel : Nat) (s : List (Seg α))
    (ht : Tiling lo hi s) (hne : s ≠ []) (hf : s.length ≤ fuel + 1) :
    ∃ x, combineResults f false fuel s = [x] ∧ x.lo = lo ∧ x.hi = hi := by
  induction fuel generalizing s with
  | zero =>
    cases s with
    | nil => exact absurd rfl hne
    | cons x rest =>
      cases rest with
      | nil =>
        obtain ⟨h1, _, h3⟩ := ht
        exact ⟨x, by simp [combineResults], h1, h3⟩
      | cons _ _ => simp at hf
  | succ k ih =>
    simp only [combineResults]
    cases h1 : mergeFirst f true s with
    | some s' =>
      obtain ⟨t1, t2, t3⟩ := tiling_mergeFirst f true lo hi s s' ht h1
      exact ih s' t1 t3 (by omega)
    | none =>
      simp only [Bool.false_eq_true, if_false]
      cases h2 : mergeFirst f false s with
      | some s' =>
        obtain ⟨t1, t2, t3⟩ := tiling_mergeFirst f false lo hi s s' ht h2
        exact ih s' t1 t3 (by omega)
      | none =>
        have := tiling_mergeFirst_none f lo hi s ht h2
        cases s with
        | nil => exact absurd rfl hne
        | cons x rest =>
          cases rest with
          | nil =>
            obtain ⟨h1', _, h3⟩ := ht
            exact ⟨x, rfl, h1', h3⟩
          | cons _ _ => simp at this

/-- **Liveness of the schedule.**  Every partition handed to exactly one worker exactly once ⇒ one entry, full range. -/
theorem schedule_live {α : Type} (f : α → α → α) (parts : List α) (assignment : List (List Nat))
    (hne : parts ≠ []) (hperm : assignment.flatten.Perm (List.range parts.length)) :
    ∃ x, schedule f parts assignment = [x] ∧ x.lo = 0 ∧ x.hi = parts.length := by
  have hnd : assignment.flatten.Nodup := hperm.nodup_iff.mpr List.nodup_range
  have hlt : ∀ is ∈ assignment, ∀ i ∈ is, i < parts.length := by
    intro is his i hi
    have : i ∈ assignment.flatten := List.mem_flatten.mpr ⟨is, his, hi⟩
    exact List.mem_range.mp (hperm.mem_iff.mp this)
  have hlen : assignment.flatten.length = parts.length := by rw [hperm.length_eq, List.length_range]
  unfold List.Nodup at hnd
  rw [List.pairwise_flatten] at hnd
  -- every worker's map
  have hw : ∀ is ∈ assignment, Chain parts.length (worker f parts is []) ∧
      (∀ j, Covered (worker f parts is []) j → j ∈ is) ∧ total (worker f parts is []) = is.length := by
    intro is his
    have := worker_chain f parts is [] [] (chain_nil _) (by rintro j ⟨x, hx, _⟩; simp at hx) (by simp [total])
      (hlt is his) (hnd.1 is his) (by simp)
    simpa using this
  unfold schedule finish
  -- the shared map after all push_result calls
  have hall := foldl_insertSeg_chain parts.length (assignment.map fun is => worker f parts is []).flatten []
    (chain_nil _)
    (by
      intro x hx
      obtain ⟨l, hl, hxl⟩ := List.mem_flatten.mp hx
      obtain ⟨is, his, rfl⟩ := List.mem_map.mp hl
      exact (hw is his).1.1 x hxl)
    (by
      rw [List.pairwise_flatten]
      refine ⟨?_, ?_⟩
      · intro l hl
        obtain ⟨is, his, rfl⟩ := List.mem_map.mp hl
        exact (hw is his).1.2.imp (fun h => Or.inl h)
      · rw [List.pairwise_map]
        refine hnd.2.imp_of_mem ?_
        intro is1 is2 h1 h2 hdis x hx y hy
        -- two entries of different workers cover disjoint sets of partitions
        have hx1 := (hw is1 h1).1.1 x hx
        have hy1 := (hw is2 h2).1.1 y hy
        rcases Nat.lt_or_ge x.lo y.hi with ha | ha
        · rcases Nat.lt_or_ge y.lo x.hi with hb | hb
          · exfalso
            have hjx : Covered (worker f parts is1 []) (max x.lo y.lo) := ⟨x, hx, by omega, by omega⟩
            have hjy : Covered (worker f parts is2 []) (max x.lo y.lo) := ⟨y, hy, by omega, by omega⟩
            exact hdis _ ((hw is1 h1).2.1 _ hjx) _ ((hw is2 h2).2.1 _ hjy) rfl
          · exact Or.inl hb
        · exact Or.inr ha)
    (by simp)
  have htot : total (assignment.map fun is => worker f parts is []).flatten = parts.length := by
    rw [total_flatten, List.map_map, ← hlen, List.length_flatten]
    congr 1
    apply List.map_congr_left
    intro is his
    exact (hw is his).2.2
  obtain ⟨hchain, htotal⟩ := hall
  rw [htot] at htotal
  simp only [total, List.map_nil, List.sum_nil, Nat.zero_add] at htotal
  have hpos : 0 < parts.length := List.length_pos_iff.mpr hne
  have htil := chain_tiling parts.length 0 _ hchain (by simp) (Nat.zero_le _) (by simpa [total] using htotal)
  refine combineResults_tiling f 0 parts.length _ _ htil ?_ (by omega)
  intro hnil
  rw [hnil] at htotal
  simp at htotal
  omega

end LM.C02L
