import LocustModel.Lemmas.C09Reach
/-
  C09 helper lemmas, part 6: every `remove_file` of a flush / a recovery finds its file (`delete(..).unwrap()` cannot fail),
  in every interleaving.  (The second symptom of finding C09-wal-temp was exactly such a failing delete.)
-/
namespace LM.Crash

/-- Every `remove p` of the trace is applied to a file system in which `p` exists. -/
def RemovesExist (fs : FS) (tr : List Eff) : Prop :=
  ∀ pre p post, tr = pre ++ Eff.remove p :: post → applyEffs fs pre p ≠ none

theorem RemovesExist.of_none {fs : FS} {tr : List Eff} (h : ∀ p, Eff.remove p ∉ tr) : RemovesExist fs tr := by
  intro pre p post he
  exact absurd (by rw [he]; simp) (h p)

theorem RemovesExist.append {fs : FS} {a b : List Eff} (ha : RemovesExist fs a) (hb : RemovesExist (applyEffs fs a) b) :
    RemovesExist fs (a ++ b) := by
  intro pre p post he
  rcases List.append_eq_append_iff.1 he with ⟨a', rfl, hb'⟩ | ⟨c', rfl, hc'⟩
  · -- the remove lies in `b`
    rw [applyEffs_append]
    exact hb a' p post hb'
  · cases c' with
    | nil =>
        have hb0 : b = [] ++ Eff.remove p :: post := by simpa using hc'.symm
        have := hb [] p post hb0
        simpa using this
    | cons x c' =>
        simp only [List.cons_append, List.cons.injEq] at hc'
        obtain ⟨rfl, rfl⟩ := hc'
        exact ha pre p c' rfl

theorem Shuffle.perm {α : Type} {l1 l2 tr : List α} (h : Shuffle l1 l2 tr) : tr.Perm (l1 ++ l2) := by
  induction h with
  | nil => exact .refl _
  | left _ ih => exact .cons _ ih
  | @right a l1 l2 tr _ ih => exact (List.Perm.cons a ih).trans (List.perm_middle.symm)

theorem PoolTrace.perm : ∀ {tasks : List Task} {tr : List Eff}, PoolTrace tasks tr → tr.Perm (tasks.flatMap (·.effs))
  | [], tr, h => by simp only [PoolTrace] at h; subst h; exact .refl _
  | t :: ts, tr, ⟨tr', h1, h2⟩ => by
      simp only [List.flatMap_cons]
      exact h2.perm.trans (List.Perm.append_left _ (PoolTrace.perm h1))

theorem count_remove_flatMap (p : Path) : ∀ (ps : List Path),
    ((ps.map removeTask).flatMap (·.effs)).count (Eff.remove p) = ps.count p
  | [] => rfl
  | q :: ps => by
      simp only [List.map_cons, List.flatMap_cons, removeTask, removeEffs, List.count_append, List.count_cons,
        List.count_nil, count_remove_flatMap p ps]
      by_cases h : q = p
      · subst h; simp; omega
      · have : ¬ Eff.remove q = Eff.remove p := by simpa using h
        simp [h, this]

/-- A trace of deletions leaves alone every file it has no `remove` for. -/
theorem removals_keep : ∀ (es : List Eff) (fs : FS) (q : Path), (∀ e ∈ es, ∃ p, e = .rmBegin p ∨ e = .remove p) →
    Eff.remove q ∉ es → applyEffs fs es q = fs q
  | [], _, _, _, _ => rfl
  | e :: es, fs, q, hes, hq => by
      simp only [applyEffs_cons]
      rw [removals_keep es _ q (fun e' he' => hes e' (by simp [he'])) (fun h => hq (by simp [h]))]
      obtain ⟨p, he⟩ := hes e (by simp)
      rcases he with rfl | rfl
      · rfl
      · have : q ≠ p := by intro h; subst h; exact hq (by simp)
        simp [applyEff, FS.set, this]

/-- A pool of deletions of distinct existing files: every `remove` finds its file, in every interleaving. -/
theorem RemovesExist.pool {fs : FS} {ps : List Path} {tr : List Eff} (htr : PoolTrace (ps.map removeTask) tr)
    (hn : ps.Nodup) (hex : ∀ p ∈ ps, fs p ≠ none) : RemovesExist fs tr := by
  intro pre p post he
  have honly : ∀ e ∈ tr, ∃ q, q ∈ ps ∧ (e = .rmBegin q ∨ e = .remove q) := by
    intro e hm
    obtain ⟨t, ht, he'⟩ := htr.mem e hm
    obtain ⟨q, hq, rfl⟩ := List.mem_map.1 ht
    simp only [removeTask, removeEffs, List.mem_cons, List.not_mem_nil, or_false] at he'
    exact ⟨q, hq, he'⟩
  have hp : p ∈ ps := by
    obtain ⟨q, hq, h⟩ := honly (.remove p) (by rw [he]; simp)
    rcases h with h | h
    · cases h
    · cases h; exact hq
  have hcount : tr.count (Eff.remove p) = 1 := by
    rw [htr.perm.count_eq, count_remove_flatMap, hn.count, if_pos hp]
  have hnot : Eff.remove p ∉ pre := by
    intro hm
    rw [he, List.count_append, List.count_cons_self] at hcount
    have := List.count_pos_iff.2 hm
    omega
  rw [removals_keep pre fs p (fun e hm => by obtain ⟨q, _, h⟩ := honly e (by rw [he]; simp [hm]); exact ⟨q, h⟩) hnot]
  exact hex p hp

theorem applyEffs_other_all : ∀ (es : List Eff) (fs : FS) (p : Path), (∀ e ∈ es, e.base ≠ p.base) → applyEffs fs es p = fs p
  | [], _, _, _ => rfl
  | e :: es, fs, p, h => by
      simp only [applyEffs_cons]
      rw [applyEffs_other_all es _ p (fun e' he' => h e' (by simp [he'])), applyEff_other fs e p (h e (by simp))]

theorem no_remove_store_pool {items : List MPart} {tr : List Eff} (htr : PoolTrace (items.map partTask) tr) :
    ∀ p, Eff.remove p ∉ tr := by
  intro p hm
  obtain ⟨t, ht, he⟩ := htr.mem _ hm
  obtain ⟨q, _, rfl⟩ := List.mem_map.1 ht
  simp [partTask, storeTask, storeEffs] at he

/-- **Every delete of a flush finds its file**: the merged-away partition files exist when `delete_orphaned_partitions`
    runs, the segments `cursor..nextWal` exist when `delete_wal_segments` runs, in every interleaving. -/
theorem Dur.flush_removes {fs : FS} {log : List Req} {m : Mem} (h : Dur fs log m) {comp : List (Tbl × List Nat)}
    {phs : List Phase} {m' : Mem} (hp : flushPlan m comp = some (phs, m')) {tr : List Eff} (htr : PhasesTrace phs tr) :
    RemovesExist fs tr := by
  simp only [flushPlan] at hp
  split at hp
  · cases hp
  · rename_i news olds parts2 hca
    simp only [Option.some.injEq, Prod.mk.injEq] at hp
    obtain ⟨rfl, rfl⟩ := hp
    obtain ⟨a1, r1, ht1, htr, rfl⟩ := htr
    obtain ⟨a2, r2, ht2, htr, rfl⟩ := htr
    obtain ⟨a3, r3, ht3, htr, rfl⟩ := htr
    obtain ⟨a4, r4, ht4, htr, rfl⟩ := htr
    obtain ⟨a5, r5, ht5, htr, rfl⟩ := htr
    simp only [PhasesTrace] at htr
    subst htr
    have ha3 := PoolTrace.single ht3
    simp only [storeTask] at ha3
    subst ha3
    have S := compactAll_spec comp hca
    have F1 : ∀ p ∈ batchParts m.parts m.pending, partBase p ∉ bases m.parts :=
      fun p hp => fresh_not_mem_bases (batchParts_fresh _ _ p hp)
    have F2 := batchParts_nodup m.parts m.pending
    have F3 : (bases (m.parts ++ batchParts m.parts m.pending)).Nodup := by
      simp only [bases, List.map_append]
      rw [List.nodup_append]
      refine ⟨h.keys, F2, ?_⟩
      intro a ha b hb hab
      subst hab
      obtain ⟨p, hp, rfl⟩ := List.mem_map.1 hb
      exact F1 p hp ha
    have F4 : ∀ n ∈ news, partBase n ∉ bases m.parts ∧ partBase n ∉ bases (batchParts m.parts m.pending) := by
      intro n hn
      have := fresh_not_mem_bases (S.fresh n hn)
      simp only [bases, List.map_append, List.mem_append, not_or] at this
      exact this
    -- partition files in place after the first two phases
    have H1 := Has.of_pool fs F2 ht1
    have H2n := Has.of_pool (applyEffs fs a1) S.newsNodup ht2
    have H2p : Has (applyEffs (applyEffs fs a1) a2) (batchParts m.parts m.pending) := by
      refine H1.steps a2 (fun e he => Or.inr ?_)
      obtain ⟨t, ht, he'⟩ := ht2.mem e he
      obtain ⟨p, hp, rfl⟩ := List.mem_map.1 ht
      rw [partTask_base p e he']
      exact (F4 p hp).2
    have H2m : Has (applyEffs (applyEffs fs a1) a2) m.parts := by
      have h0 : Has fs m.parts := h.parts
      have h1 : Has (applyEffs fs a1) m.parts := by
        refine h0.steps a1 (fun e he => Or.inr ?_)
        obtain ⟨t, ht, he'⟩ := ht1.mem e he
        obtain ⟨p, hp, rfl⟩ := List.mem_map.1 ht
        rw [partTask_base p e he']
        exact F1 p hp
      refine h1.steps a2 (fun e he => Or.inr ?_)
      obtain ⟨t, ht, he'⟩ := ht2.mem e he
      obtain ⟨p, hp, rfl⟩ := List.mem_map.1 ht
      rw [partTask_base p e he']
      exact (F4 p hp).1
    have Holds2 : Has (applyEffs (applyEffs fs a1) a2) olds := by
      intro o ho
      rcases S.oldsMem o ho with hm | hm
      · rcases List.mem_append.1 hm with hm | hm
        · exact H2m o hm
        · exact H2p o hm
      · exact H2n o hm
    have Holds3 : Has (applyEffs (applyEffs (applyEffs fs a1) a2)
        (storeEffs .catalogue (.catalogue m.nextWal (parts2.map (·.pm))))) olds := by
      refine Holds2.steps _ (fun e he => Or.inr ?_)
      rw [storeEffs_base _ _ e he]
      intro hm
      obtain ⟨o, _, ho⟩ := List.mem_map.1 hm
      simp [partBase] at ho
    -- the segments are untouched by the first four phases
    have hwal : ∀ k, applyEffs (applyEffs (applyEffs (applyEffs fs a1) a2)
        (storeEffs .catalogue (.catalogue m.nextWal (parts2.map (·.pm))))) a4 (finP (.wal k)) = fs (finP (.wal k)) := by
      intro k
      rw [applyEffs_other_all a4, applyEffs_other_all _ _ _ (fun e he => by rw [storeEffs_base _ _ e he]; simp [finP]),
        applyEffs_other_all a2, applyEffs_other_all a1]
      · intro e he
        obtain ⟨t, ht, he'⟩ := ht1.mem e he
        obtain ⟨p, hp, rfl⟩ := List.mem_map.1 ht
        rw [partTask_base p e he']; simp [partBase, finP]
      · intro e he
        obtain ⟨t, ht, he'⟩ := ht2.mem e he
        obtain ⟨p, hp, rfl⟩ := List.mem_map.1 ht
        rw [partTask_base p e he']; simp [partBase, finP]
      · intro e he
        obtain ⟨t, ht, he'⟩ := ht4.mem e he
        obtain ⟨p, hp, rfl⟩ := List.mem_map.1 ht
        rw [removeEffs_base _ e he']; simp [partBase, finP]
    refine RemovesExist.append (RemovesExist.of_none (no_remove_store_pool ht1)) ?_
    refine RemovesExist.append (RemovesExist.of_none (no_remove_store_pool ht2)) ?_
    refine RemovesExist.append (RemovesExist.of_none (fun p hm => by simp [storeEffs] at hm)) ?_
    have ht4' : PoolTrace ((olds.map fun p => finP (partBase p)).map removeTask) a4 := by
      rw [List.map_map]; exact ht4
    have ht5' : PoolTrace (((List.range' m.cursor (m.nextWal - m.cursor)).map fun k => finP (.wal k)).map removeTask) a5 := by
      rw [List.map_map]; exact ht5
    refine RemovesExist.append (RemovesExist.pool ht4' ?_ ?_) ?_
    · have := S.oldsNodup F3
      simp only [bases] at this
      have h2 : (olds.map fun p => finP (partBase p)) = (olds.map partBase).map finP := by rw [List.map_map]; rfl
      rw [h2]
      exact List.pairwise_map.2 (this.imp (fun hne he => hne (finP_inj.1 he)))
    · intro p hp
      obtain ⟨o, ho, rfl⟩ := List.mem_map.1 hp
      rw [Holds3 o ho]; simp
    · simp only [List.append_nil]
      refine RemovesExist.pool ht5' ?_ ?_
      · refine List.pairwise_map.2 ((List.nodup_range' (step := 1) (by omega)).imp ?_)
        intro a b hne he
        exact hne (by simpa [finP] using he)
      · intro p hp
        obtain ⟨k, hk, rfl⟩ := List.mem_map.1 hp
        rw [hwal k]
        obtain ⟨i, hi, rfl⟩ := List.mem_range'.1 hk
        have hn := h.next
        have hi' : i < m.pending.length := by omega
        have := h.walLive i hi'
        simp only [Nat.one_mul] at *
        rw [this]; simp

/-- **Every delete of a recovery finds its file.** -/
theorem Dur.recover_removes {fs : FS} {log : List Req} {m0 : Mem} (hd : Dur fs log m0) {ls : List Path} (hls : Listing fs ls)
    {m : Mem} {dels : List Path} (hr : LM.Crash.recover fs ls = .ok (m, dels)) {tr : List Eff}
    (htr : PoolTrace (recoverPhase dels).tasks tr) : RemovesExist fs tr := by
  obtain ⟨dels0, hr0, hchar, hnd⟩ := hd.recover hls
  rw [hr0] at hr
  simp only [Except.ok.injEq, Prod.mk.injEq] at hr
  obtain ⟨rfl, rfl⟩ := hr
  exact RemovesExist.pool htr hnd (fun p hp => ((hls.2 p).1 ((hchar p).1 hp).1).2)

end LM.Crash
