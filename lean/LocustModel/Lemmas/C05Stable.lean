import LocustModel.Lemmas.C05Sort
import LocustModel.Query.Order
/-
  Stable-sort theory for C05: a list sorted by `le` is determined by its tie classes
  (`filter (eqv le x)` for every `x`); the reference sort keeps every class in input order; the
  stable merge of two sorted lists is the stable sort of their concatenation; successive stable sorts
  are one lexicographic stable sort.
-/
namespace LM.OrderSpec
open LM LM.Order

variable {α : Type}

theorem filter_eqv_insertLe {le : α → α → Bool} (h : TotalPre le) (x a : α) (S : List α) :
    (insertLe le a S).filter (eqv le x) = (a :: S).filter (eqv le x) := by
  induction S with
  | nil => simp [insertLe]
  | cons y ys ih =>
    simp only [insertLe]
    split
    · rfl
    · rename_i hay
      rw [List.filter_cons, ih]
      by_cases hy : eqv le x y = true
      · by_cases ha : eqv le x a = true
        · -- a ≈ x ≈ y contradicts ¬ le a y
          have := eqv_trans h (eqv_symm ha) hy
          simp [eqv] at this
          exact absurd this.1 hay
        · simp [List.filter_cons, hy, ha]
      · simp [List.filter_cons, hy]

/-- The reference sort is stable: every tie class keeps its input order. -/
theorem filter_eqv_isort {le : α → α → Bool} (h : TotalPre le) (x : α) (l : List α) :
    (isort le l).filter (eqv le x) = l.filter (eqv le x) := by
  induction l with
  | nil => simp [isort]
  | cons a l ih =>
    simp only [isort]
    rw [filter_eqv_insertLe h, List.filter_cons, List.filter_cons, ih]

/-- A sorted list is determined by its tie classes. -/
theorem sorted_unique {le : α → α → Bool} (h : TotalPre le) :
    ∀ (s₁ s₂ : List α), Sorted le s₁ → Sorted le s₂ →
      (∀ x, s₁.filter (eqv le x) = s₂.filter (eqv le x)) → s₁ = s₂
  | [], [], _, _, _ => rfl
  | [], b :: t₂, _, _, hf => by
    have := hf b
    simp [List.filter_cons, eqv_refl h b] at this
  | a :: t₁, [], _, _, hf => by
    have := hf a
    simp [List.filter_cons, eqv_refl h a] at this
  | a :: t₁, b :: t₂, h₁, h₂, hf => by
    have h₁' := List.pairwise_cons.mp h₁
    have h₂' := List.pairwise_cons.mp h₂
    have hab : le a b = true := by
      have hb := hf b
      have : b ∈ (a :: t₁).filter (eqv le b) := by
        rw [hb]; simp [List.filter_cons, eqv_refl h b]
      have hm := List.mem_filter.mp this
      rcases List.mem_cons.mp hm.1 with hba | hbt
      · subst hba; rcases h.total b b with h1 | h1 <;> exact h1
      · exact h₁'.1 b hbt
    have hba : le b a = true := by
      have ha := hf a
      have : a ∈ (b :: t₂).filter (eqv le a) := by
        rw [← ha]; simp [List.filter_cons, eqv_refl h a]
      have hm := List.mem_filter.mp this
      rcases List.mem_cons.mp hm.1 with hab' | hat
      · subst hab'; rcases h.total a a with h1 | h1 <;> exact h1
      · exact h₂'.1 a hat
    have he : eqv le a b = true := by simp [eqv, hab, hba]
    have heq : a = b := by
      have ha := hf a
      simp [List.filter_cons, eqv_refl h a, he] at ha
      exact ha.1
    subst heq
    congr 1
    apply sorted_unique h t₁ t₂ h₁'.2 h₂'.2
    intro x
    have hx := hf x
    simp only [List.filter_cons] at hx
    split at hx
    · exact (List.cons.inj hx).2
    · exact hx

/-- Characterisation of the stable sort. -/
theorem eq_isort {le : α → α → Bool} (h : TotalPre le) (s l : List α) (hs : Sorted le s)
    (hf : ∀ x, s.filter (eqv le x) = l.filter (eqv le x)) : s = isort le l :=
  sorted_unique h s (isort le l) hs (isort_sorted h l) (fun x => by rw [hf x, filter_eqv_isort h])

theorem isort_of_sorted {le : α → α → Bool} (h : TotalPre le) (l : List α) (hs : Sorted le l) : isort le l = l :=
  (eq_isort h l l hs (fun _ => rfl)).symm

/-! ### merge -/

theorem merge_fst_eq_take (le : α → α → Bool) (l r : List α) (n : Nat) :
    (merge le l r n).1 = (mergeAll le l r).take n := by
  fun_induction merge le l r n <;> simp_all [mergeAll]

theorem merge_ops_length (le : α → α → Bool) (l r : List α) (n : Nat) :
    (merge le l r n).2.length = (merge le l r n).1.length := by
  fun_induction merge le l r n <;> simp_all

theorem mergeKeep_left_tail {β : Type} (l r : List β) (n : Nat) :
    mergeKeep ((l.take n).map fun _ => 1) l r = some (l.take n) := by
  induction l generalizing n with
  | nil => simp [mergeKeep]
  | cons a l ih =>
    cases n with
    | zero => simp [mergeKeep]
    | succ n => simp [mergeKeep]; rw [← List.map_take]; exact ih n

theorem mergeKeep_right_tail {β : Type} (l r : List β) (n : Nat) :
    mergeKeep ((r.take n).map fun _ => 0) l r = some (r.take n) := by
  induction r generalizing n with
  | nil => simp [mergeKeep]
  | cons b r ih =>
    cases n with
    | zero => simp [mergeKeep]
    | succ n => simp [mergeKeep]; rw [← List.map_take]; exact ih n

theorem mergeKeep_merge (le : α → α → Bool) (l r : List α) (n : Nat) :
    mergeKeep (merge le l r n).2 l r = some (merge le l r n).1 := by
  fun_induction merge le l r n
  · simp [mergeKeep]
  · exact mergeKeep_right_tail _ _ _
  · exact mergeKeep_left_tail _ _ _
  · simp_all [mergeKeep]
  · simp_all [mergeKeep]

theorem mergeAll_perm (le : α → α → Bool) (l r : List α) : (mergeAll le l r).Perm (l ++ r) := by
  fun_induction mergeAll le l r
  · simp
  · simp
  · rename_i a l b r h ih
    exact List.Perm.cons a ih
  · rename_i a l b r h ih
    have : (b :: mergeAll le (a :: l) r).Perm (b :: (a :: l ++ r)) := List.Perm.cons b ih
    exact this.trans (List.perm_middle.symm)

theorem mergeAll_sorted {le : α → α → Bool} (h : TotalPre le) (l r : List α)
    (hl : Sorted le l) (hr : Sorted le r) : Sorted le (mergeAll le l r) := by
  fun_induction mergeAll le l r
  · exact hr
  · exact hl
  · rename_i a l b r hab ih
    have hl' := List.pairwise_cons.mp hl
    refine List.pairwise_cons.mpr ⟨?_, ih hl'.2 hr⟩
    intro x hx
    have := (mergeAll_perm le l (b :: r)).mem_iff.mp hx
    rcases List.mem_append.mp this with h1 | h1
    · exact hl'.1 x h1
    · have hr' := List.pairwise_cons.mp hr
      rcases List.mem_cons.mp h1 with h2 | h2
      · subst h2; exact hab
      · exact h.trans _ _ _ hab (hr'.1 x h2)
  · rename_i a l b r hab ih
    have hba : le b a = true := by
      rcases h.total a b with h1 | h1
      · exact absurd h1 hab
      · exact h1
    have hr' := List.pairwise_cons.mp hr
    refine List.pairwise_cons.mpr ⟨?_, ih hl hr'.2⟩
    intro x hx
    have := (mergeAll_perm le (a :: l) r).mem_iff.mp hx
    rcases List.mem_append.mp this with h1 | h1
    · have hl' := List.pairwise_cons.mp hl
      rcases List.mem_cons.mp h1 with h2 | h2
      · subst h2; exact hba
      · exact h.trans _ _ _ hba (hl'.1 x h2)
    · exact hr'.1 x h1

/-- The stable merge keeps, in every tie class, the left rows before the right rows. -/
theorem filter_eqv_mergeAll {le : α → α → Bool} (h : TotalPre le) (x : α) (l r : List α) (hl : Sorted le l) :
    (mergeAll le l r).filter (eqv le x) = l.filter (eqv le x) ++ r.filter (eqv le x) := by
  fun_induction mergeAll le l r
  · simp
  · simp
  · rename_i a l b r hab ih
    have hl' := List.pairwise_cons.mp hl
    rw [List.filter_cons, ih hl'.2]
    by_cases hxa : eqv le x a = true <;> simp [List.filter_cons, hxa]
  · rename_i a l b r hab ih
    rw [List.filter_cons, ih hl]
    by_cases hb : eqv le x b = true
    · -- every row of a :: l is strictly after b, hence not in the class of x
      have hnone : (a :: l).filter (eqv le x) = [] := by
        apply List.filter_eq_nil_iff.mpr
        intro y hy hxy
        have hl' := List.pairwise_cons.mp hl
        have hay : le a y = true := by
          rcases List.mem_cons.mp hy with rfl | hy'
          · rcases h.total y y with h1 | h1 <;> exact h1
          · exact hl'.1 y hy'
        have hyb := eqv_trans h (eqv_symm hxy) hb
        simp [eqv] at hyb
        exact hab (h.trans _ _ _ hay hyb.1)
      simp [hnone, List.filter_cons, hb]
    · simp [List.filter_cons, hb]

/-- The stable merge of two sorted lists is the stable sort of their concatenation. -/
theorem mergeAll_eq_isort {le : α → α → Bool} (h : TotalPre le) (l r : List α)
    (hl : Sorted le l) (hr : Sorted le r) : mergeAll le l r = isort le (l ++ r) :=
  eq_isort h _ _ (mergeAll_sorted h l r hl hr) (fun x => by rw [filter_eqv_mergeAll h x l r hl, List.filter_append])

/-- Truncating the inputs to at least `n` rows does not change the first `n` rows of the merge. -/
theorem take_mergeAll_take (le : α → α → Bool) : ∀ (n : Nat) (a b : List α) (ka kb : Nat), n ≤ ka → n ≤ kb →
    (mergeAll le (a.take ka) (b.take kb)).take n = (mergeAll le a b).take n
  | 0, _, _, _, _, _, _ => by simp
  | n + 1, [], b, ka, kb, ha, hb => by
    simp [mergeAll, List.take_take]; omega
  | n + 1, x :: a, [], ka, kb, ha, hb => by
    have h1 : mergeAll le ((x :: a).take ka) [] = (x :: a).take ka := by
      cases h : (x :: a).take ka <;> simp [mergeAll]
    have h2 : mergeAll le (x :: a) [] = x :: a := by simp [mergeAll]
    rw [List.take_nil, h1, h2, List.take_take]
    congr 1; omega
  | n + 1, x :: a, y :: b, ka + 1, kb + 1, ha, hb => by
    simp only [List.take_succ_cons, mergeAll]
    split
    · simp only [List.take_succ_cons]
      congr 1
      have := take_mergeAll_take le n a (y :: b) ka (kb + 1) (by omega) (by omega)
      simpa using this
    · simp only [List.take_succ_cons]
      congr 1
      have := take_mergeAll_take le n (x :: a) b (ka + 1) kb (by omega) (by omega)
      simpa using this
  | n + 1, _ :: _, _ :: _, 0, _, ha, _ => by omega
  | n + 1, _ :: _, _ :: _, _ + 1, 0, _, hb => by omega

/-! ### successive stable sorts = one lexicographic stable sort -/

theorem lexOf_totalPre {β : Type} : ∀ (cmps : List (β → β → Bool)), (∀ c ∈ cmps, TotalPre c) → TotalPre (lexOf cmps)
  | [], _ => ⟨fun _ _ => Or.inl rfl, fun _ _ _ _ _ => rfl⟩
  | c :: cs, hc => by
    have hv : TotalPre c := hc c (by simp)
    have ih := lexOf_totalPre cs (fun c' hc' => hc c' (by simp [hc']))
    constructor
    · intro a b
      simp only [lexOf]
      have ht := ih.total a b
      rcases hv.total a b with h1 | h1 <;> cases h2 : c b a <;> cases h3 : c a b <;> simp_all
    · intro x y z h1 h2
      simp only [lexOf] at h1 h2 ⊢
      cases hab : c x y
      · simp [hab] at h1
      · cases hbc : c y z
        · simp [hbc] at h2
        · have hac := hv.trans _ _ _ hab hbc
          simp only [hab, hbc, hac, if_true] at h1 h2 ⊢
          cases hca : c z x
          · simp
          · have hcb := hv.trans _ _ _ hca hab
            have hba := hv.trans _ _ _ hbc hca
            simp only [hcb, hba, if_true] at h1 h2 ⊢
            exact ih.trans _ _ _ h1 h2

theorem eqv_lexOf_cons {β : Type} (c : β → β → Bool) (cs : List (β → β → Bool)) (a b : β) :
    eqv (lexOf (c :: cs)) a b = (eqv c a b && eqv (lexOf cs) a b) := by
  simp only [eqv, lexOf]
  cases c a b <;> cases c b a <;> simp

/-- If every tie class of `c` is (as a sublist) sorted by `R`, then tied rows are `R`-related in order. -/
theorem pairwise_of_classes {β : Type} {c : β → β → Bool} (hc : TotalPre c) {R : β → β → Prop} :
    ∀ (L : List β), (∀ x, (L.filter (eqv c x)).Pairwise R) → L.Pairwise (fun a b => eqv c a b = true → R a b)
  | [], _ => List.Pairwise.nil
  | a :: L, hcl => by
    refine List.pairwise_cons.mpr ⟨?_, pairwise_of_classes hc L ?_⟩
    · intro b hb hab
      have := hcl a
      rw [List.filter_cons, if_pos (eqv_refl hc a)] at this
      exact (List.pairwise_cons.mp this).1 b (List.mem_filter.mpr ⟨hb, hab⟩)
    · intro x
      have := hcl x
      rw [List.filter_cons] at this
      split at this
      · exact (List.pairwise_cons.mp this).2
      · exact this

/-- One more stable sort by `c` on top of a list stably sorted by `lexOf cs`. -/
theorem isort_isort_lex {β : Type} (c : β → β → Bool) (cs : List (β → β → Bool)) (hc : TotalPre c)
    (hcs : TotalPre (lexOf cs)) (rows : List β) :
    isort c (isort (lexOf cs) rows) = isort (lexOf (c :: cs)) rows := by
  have hlex : TotalPre (lexOf (c :: cs)) := by
    constructor
    · intro a b
      simp only [lexOf]
      have ht := hcs.total a b
      rcases hc.total a b with h1 | h1 <;> cases h2 : c b a <;> cases h3 : c a b <;> simp_all
    · intro x y z h1 h2
      simp only [lexOf] at h1 h2 ⊢
      cases hab : c x y
      · simp [hab] at h1
      · cases hbc : c y z
        · simp [hbc] at h2
        · have hac := hc.trans _ _ _ hab hbc
          simp only [hab, hbc, hac, if_true] at h1 h2 ⊢
          cases hca : c z x
          · simp
          · have hcb := hc.trans _ _ _ hca hab
            have hba := hc.trans _ _ _ hbc hca
            simp only [hcb, hba, if_true] at h1 h2 ⊢
            exact hcs.trans _ _ _ h1 h2
  let X := isort (lexOf cs) rows
  apply eq_isort hlex
  · -- sorted lexicographically
    have hsc : Sorted c (isort c X) := isort_sorted hc X
    have hcl : ∀ x, ((isort c X).filter (eqv c x)).Pairwise (fun a b => lexOf cs a b = true) := by
      intro x
      rw [filter_eqv_isort hc]
      exact List.Pairwise.sublist List.filter_sublist (isort_sorted hcs rows)
    have h2 := pairwise_of_classes hc (isort c X) hcl
    have h3 := List.Pairwise.and hsc h2
    refine List.Pairwise.imp ?_ h3
    intro a b hab
    simp only [lexOf]
    cases hba : c b a
    · simp [hab.1]
    · have : eqv c a b = true := by simp [eqv, hab.1, hba]
      simp [hab.1, hab.2 this]
  · -- every lexicographic tie class in input order
    intro x
    have hfun : eqv (lexOf (c :: cs)) x = fun b => (eqv c x b && eqv (lexOf cs) x b) := by
      funext b; exact eqv_lexOf_cons c cs x b
    have key : ∀ (L : List β), L.filter (fun b => eqv c x b && eqv (lexOf cs) x b)
        = (L.filter (eqv c x)).filter (eqv (lexOf cs) x) := by
      intro L; rw [List.filter_filter]; congr 1; funext b; exact Bool.and_comm _ _
    have comm : ∀ (L : List β), (L.filter (eqv c x)).filter (eqv (lexOf cs) x)
        = (L.filter (eqv (lexOf cs) x)).filter (eqv c x) := by
      intro L; rw [List.filter_filter, List.filter_filter]; congr 1; funext b; exact Bool.and_comm _ _
    rw [hfun, key, key, filter_eqv_isort hc, comm, filter_eqv_isort hcs, comm]

theorem sortSucc_eq_isort_lex {β : Type} : ∀ (cmps : List (β → β → Bool)), (∀ c ∈ cmps, TotalPre c) →
    ∀ rows : List β, sortSucc cmps rows = isort (lexOf cmps) rows
  | [], _, rows => by
    simp only [sortSucc, List.foldr]
    exact (isort_of_sorted ⟨fun _ _ => Or.inl rfl, fun _ _ _ _ _ => rfl⟩ rows
      (List.pairwise_of_forall (by intros; rfl))).symm
  | c :: cs, hc, rows => by
    have ih := sortSucc_eq_isort_lex cs (fun c' hc' => hc c' (by simp [hc'])) rows
    have : sortSucc (c :: cs) rows = isort c (sortSucc cs rows) := rfl
    rw [this, ih]
    exact isort_isort_lex c cs (hc c (by simp)) (lexOf_totalPre cs (fun c' hc' => hc c' (by simp [hc']))) rows

end LM.OrderSpec
