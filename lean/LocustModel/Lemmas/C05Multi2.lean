import LocustModel.Lemmas.C05Multi
import LocustModel.Lemmas.C05Tree
/-
  C05, multi-key combination, part 2: subpartition as refinement, merge_partitioned and its flags,
  the limit accounting of partition, and the assembly.
-/
namespace LM.OrderSpec
open LM LM.Order

variable {β : Type}

/-- The groups stay inside the two columns. -/
def Fits (G : List (Nat × Nat)) (l r : List β) : Prop := sumL G ≤ l.length ∧ sumR G ≤ r.length

/-- Every group's two slices are sorted by `le`. -/
def GSorted (le : β → β → Bool) : List (Nat × Nat) → List β → List β → Prop
  | [], _, _ => True
  | (gl, gr) :: gs, l, r => Sorted le (l.take gl) ∧ Sorted le (r.take gr) ∧ GSorted le gs (l.drop gl) (r.drop gr)

/-- subpartition.rs without the bounds check. -/
def refine (c : β → β → Bool) : List (Nat × Nat) → List β → List β → List (Nat × Nat)
  | [], _, _ => []
  | (gl, gr) :: gs, l, r => runs c (l.take gl) (r.take gr) ++ refine c gs (l.drop gl) (r.drop gr)

theorem subpartition_eq (c : β → β → Bool) : ∀ (G : List (Nat × Nat)) (l r : List β), Fits G l r →
    subpartition c G l r = some (refine c G l r)
  | [], _, _, _ => by simp [subpartition, refine]
  | (gl, gr) :: gs, l, r, h => by
    simp only [Fits, sumL, sumR] at h
    have ih := subpartition_eq c gs (l.drop gl) (r.drop gr) (by
      simp only [Fits, List.length_drop]; omega)
    simp only [subpartition, refine]
    rw [if_pos (by omega), ih]; rfl

theorem refine_sums {c : β → β → Bool} (hc : TotalPre c) : ∀ (G : List (Nat × Nat)) (l r : List β), Fits G l r →
    sumL (refine c G l r) = sumL G ∧ sumR (refine c G l r) = sumR G
  | [], _, _, _ => by simp [refine, sumL, sumR]
  | (gl, gr) :: gs, l, r, h => by
    simp only [Fits, sumL, sumR] at h
    have ih := refine_sums hc gs (l.drop gl) (r.drop gr) (by simp only [Fits, List.length_drop]; omega)
    have hr := runs_sums hc (l.take gl) (r.take gr)
    simp only [refine, sumL_append, sumR_append, sumL, sumR, ih.1, ih.2, hr.1, hr.2, List.length_take]
    omega

theorem fits_refine {c : β → β → Bool} (hc : TotalPre c) (G : List (Nat × Nat)) (l r : List β) (h : Fits G l r) :
    Fits (refine c G l r) l r := by
  have := refine_sums hc G l r h
  simp only [Fits] at h ⊢; omega

/-! ### GSorted bookkeeping -/

theorem gsorted_append (le : β → β → Bool) : ∀ (G₁ G₂ : List (Nat × Nat)) (l r : List β),
    GSorted le (G₁ ++ G₂) l r ↔ GSorted le G₁ l r ∧ GSorted le G₂ (l.drop (sumL G₁)) (r.drop (sumR G₁))
  | [], G₂, l, r => by simp [GSorted, sumL, sumR]
  | (gl, gr) :: gs, G₂, l, r => by
    simp only [List.cons_append, GSorted, sumL, sumR]
    rw [gsorted_append le gs G₂, List.drop_drop, List.drop_drop]
    constructor
    · rintro ⟨h1, h2, h3, h4⟩; exact ⟨⟨h1, h2, h3⟩, h4⟩
    · rintro ⟨⟨h1, h2, h3⟩, h4⟩; exact ⟨h1, h2, h3, h4⟩

theorem gsorted_prefix (le : β → β → Bool) : ∀ (G : List (Nat × Nat)) (l₁ l₂ r₁ r₂ : List β),
    sumL G ≤ l₁.length → sumR G ≤ r₁.length → (GSorted le G (l₁ ++ l₂) (r₁ ++ r₂) ↔ GSorted le G l₁ r₁)
  | [], _, _, _, _, _, _ => by simp [GSorted]
  | (gl, gr) :: gs, l₁, l₂, r₁, r₂, hl, hr => by
    simp only [sumL, sumR] at hl hr
    simp only [GSorted]
    rw [List.take_append_of_le_length (by omega), List.take_append_of_le_length (by omega)]
    rw [List.drop_append_of_le_length (by omega), List.drop_append_of_le_length (by omega)]
    rw [gsorted_prefix le gs _ _ _ _ (by simp [List.length_drop]; omega) (by simp [List.length_drop]; omega)]

/-- Sorted by `c :: K` and all tied on `c`: sorted by `K`. -/
theorem sorted_lex_tail {c : β → β → Bool} (hc : TotalPre c) (K : List (β → β → Bool)) (e : β) (S : List β)
    (hs : Sorted (lexOf (c :: K)) S) (he : ∀ x ∈ S, eqv c e x = true) : Sorted (lexOf K) S := by
  refine List.Pairwise.imp_of_mem ?_ hs
  intro a b ha hb hab
  rw [lexOf_cons_of_eqv c K a b (eqv_trans hc (eqv_symm (he a ha)) (he b hb))] at hab
  exact hab

theorem gsorted_runsAux {c : β → β → Bool} (hc : TotalPre c) (K : List (β → β → Bool)) :
    ∀ (fuel : Nat) (l r : List β), Sorted (lexOf (c :: K)) l → Sorted (lexOf (c :: K)) r →
      GSorted (lexOf K) (runsAux c fuel l r) l r
  | 0, _, _, _, _ => by simp [runsAux, GSorted]
  | fuel + 1, [], [], _, _ => by simp [runsAux, GSorted]
  | fuel + 1, a :: l, [], hl, hr => by
    simp only [runsAux, GSorted]
    refine ⟨?_, by simp [Sorted], ?_⟩
    · exact sorted_lex_tail hc K a _ (Sorted.sublist (List.take_sublist _ _) hl) (runLen_take _ _)
    · simpa using gsorted_runsAux hc K fuel _ [] (Sorted.sublist (List.drop_sublist _ _) hl) hr
  | fuel + 1, [], b :: r, hl, hr => by
    simp only [runsAux, GSorted]
    refine ⟨by simp [Sorted], ?_, ?_⟩
    · exact sorted_lex_tail hc K b _ (Sorted.sublist (List.take_sublist _ _) hr) (runLen_take _ _)
    · simpa using gsorted_runsAux hc K fuel [] _ hl (Sorted.sublist (List.drop_sublist _ _) hr)
  | fuel + 1, a :: l, b :: r, hl, hr => by
    simp only [runsAux, GSorted]
    refine ⟨?_, ?_, ?_⟩
    · exact sorted_lex_tail hc K _ _ (Sorted.sublist (List.take_sublist _ _) hl) (runLen_take _ _)
    · exact sorted_lex_tail hc K _ _ (Sorted.sublist (List.take_sublist _ _) hr) (runLen_take _ _)
    · exact gsorted_runsAux hc K fuel _ _ (Sorted.sublist (List.drop_sublist _ _) hl)
        (Sorted.sublist (List.drop_sublist _ _) hr)

theorem gsorted_refine {c : β → β → Bool} (hc : TotalPre c) (K : List (β → β → Bool)) :
    ∀ (G : List (Nat × Nat)) (l r : List β), Fits G l r → GSorted (lexOf (c :: K)) G l r →
      GSorted (lexOf K) (refine c G l r) l r
  | [], _, _, _, _ => by simp [refine, GSorted]
  | (gl, gr) :: gs, l, r, hf, hs => by
    simp only [Fits, sumL, sumR] at hf
    simp only [GSorted] at hs
    simp only [refine]
    have hsum := runs_sums hc (l.take gl) (r.take gr)
    rw [gsorted_append, hsum.1, hsum.2]
    have hlt : (l.take gl).length = gl := by simp [List.length_take]; omega
    have hrt : (r.take gr).length = gr := by simp [List.length_take]; omega
    rw [hlt, hrt]
    refine ⟨?_, gsorted_refine hc K gs _ _ (by simp only [Fits, List.length_drop]; omega) hs.2.2⟩
    have h1 := gsorted_runsAux hc K ((l.take gl).length + (r.take gr).length) _ _ hs.1 hs.2.1
    have := (gsorted_prefix (lexOf K) (runs c (l.take gl) (r.take gr)) (l.take gl) (l.drop gl) (r.take gr) (r.drop gr)
      (by omega) (by omega)).mpr h1
    rwa [List.take_append_drop, List.take_append_drop] at this

theorem gmerge_refine {c : β → β → Bool} (hc : TotalPre c) (K : List (β → β → Bool)) :
    ∀ (G : List (Nat × Nat)) (l r : List β), Fits G l r → GSorted (lexOf (c :: K)) G l r →
      gmerge (lexOf K) (refine c G l r) l r = gmerge (lexOf (c :: K)) G l r
  | [], _, _, _, _ => by simp [refine, gmerge]
  | (gl, gr) :: gs, l, r, hf, hs => by
    simp only [Fits, sumL, sumR] at hf
    simp only [GSorted] at hs
    simp only [refine, gmerge]
    have hsum := runs_sums hc (l.take gl) (r.take gr)
    have hlt : (l.take gl).length = gl := by simp [List.length_take]; omega
    have hrt : (r.take gr).length = gr := by simp [List.length_take]; omega
    rw [gmerge_append, hsum.1, hsum.2, hlt, hrt]
    rw [gmerge_refine hc K gs _ _ (by simp only [Fits, List.length_drop]; omega) hs.2.2]
    congr 1
    have := gmerge_prefix (lexOf K) (runs c (l.take gl) (r.take gr)) (l.take gl) (l.drop gl) (r.take gr) (r.drop gr)
      (by omega) (by omega)
    rw [List.take_append_drop, List.take_append_drop] at this
    rw [this]
    exact gmerge_runs hc K _ _ hs.1 hs.2.1

/-! ### merge_partitioned: rows and flags -/

def gflags (le : β → β → Bool) : List (Nat × Nat) → List β → List β → List Nat
  | [], _, _ => []
  | (gl, gr) :: gs, l, r => (mergeAllF le (l.take gl) (r.take gr)).2 ++ gflags le gs (l.drop gl) (r.drop gr)

theorem mergeGroups_eq (le : β → β → Bool) : ∀ (G : List (Nat × Nat)) (l r : List β), Fits G l r →
    mergeGroups le G l r = some (gmerge le G l r, gflags le G l r)
  | [], _, _, _ => by simp [mergeGroups, gmerge, gflags]
  | (gl, gr) :: gs, l, r, h => by
    simp only [Fits, sumL, sumR] at h
    have ih := mergeGroups_eq le gs (l.drop gl) (r.drop gr) (by simp only [Fits, List.length_drop]; omega)
    simp only [mergeGroups, gmerge, gflags]
    rw [if_pos (by omega), ih, merge_eq_mergeAllF le _ _ _ (by simp [List.length_take]; omega)]
    simp [mergeAllF_fst]

theorem mergeKeep_zeros {γ : Type} (os : List Nat) : ∀ (sr l r' : List γ),
    mergeKeep (sr.map (fun _ => 0) ++ os) l (sr ++ r') = (mergeKeep os l r').map (sr ++ ·)
  | [], l, r' => by simp
  | b :: sr, l, r' => by
    simp only [List.map_cons, List.cons_append, mergeKeep]
    rw [if_neg (by simp), mergeKeep_zeros os sr l r']
    cases mergeKeep os l r' <;> simp

theorem mergeKeep_ones {γ : Type} (os : List Nat) : ∀ (sl l' r : List γ),
    mergeKeep (sl.map (fun _ => 1) ++ os) (sl ++ l') r = (mergeKeep os l' r).map (sl ++ ·)
  | [], l', r => by simp
  | a :: sl, l', r => by
    simp only [List.map_cons, List.cons_append, mergeKeep]
    rw [if_pos trivial, mergeKeep_ones os sl l' r]
    cases mergeKeep os l' r <;> simp

/-- Replaying the flags of one group consumes exactly the group's slices. -/
theorem mergeKeep_mergeAllF_append (le : β → β → Bool) (os : List Nat) (l' r' : List β) : ∀ (sl sr : List β),
    mergeKeep ((mergeAllF le sl sr).2 ++ os) (sl ++ l') (sr ++ r') = (mergeKeep os l' r').map (mergeAll le sl sr ++ ·) := by
  intro sl sr
  fun_induction mergeAllF le sl sr
  · rename_i r
    simpa [mergeAll] using mergeKeep_zeros os r l' r'
  · rename_i l _
    have := mergeKeep_ones os l l' r'
    simpa [mergeAll_nil_right] using this
  · rename_i a l b r hab m o hmo ih
    simp only [hmo] at ih
    simp only [List.cons_append, mergeKeep, mergeAll, hab, if_true]
    simp only [List.cons_append] at ih
    rw [ih]
    cases mergeKeep os l' r' <;> simp
  · rename_i a l b r hab m o hmo ih
    simp only [hmo] at ih
    have hab' : le a b = false := by simpa using hab
    simp only [List.cons_append, mergeKeep, mergeAll, hab']
    simp only [List.cons_append] at ih
    rw [if_neg (by simp), ih]
    cases mergeKeep os l' r' <;> simp

theorem mergeKeep_gflags (le : β → β → Bool) : ∀ (G : List (Nat × Nat)) (l r : List β), Fits G l r →
    mergeKeep (gflags le G l r) l r = some (gmerge le G l r)
  | [], _, _, _ => by simp [gflags, gmerge, mergeKeep]
  | (gl, gr) :: gs, l, r, h => by
    simp only [Fits, sumL, sumR] at h
    have ih := mergeKeep_gflags le gs (l.drop gl) (r.drop gr) (by simp only [Fits, List.length_drop]; omega)
    simp only [gflags, gmerge]
    have := mergeKeep_mergeAllF_append le (gflags le gs (l.drop gl) (r.drop gr)) (l.drop gl) (r.drop gr)
      (l.take gl) (r.take gr)
    rw [List.take_append_drop, List.take_append_drop] at this
    rw [this, ih]; rfl

theorem mergeKeep_take {γ : Type} : ∀ (ops : List Nat) (l r m : List γ) (n : Nat),
    mergeKeep ops l r = some m → mergeKeep (ops.take n) l r = some (m.take n)
  | _, _, _, _, 0, _ => by simp [mergeKeep]
  | [], _, _, m, n + 1, h => by simp [mergeKeep] at h; subst h; simp [mergeKeep]
  | o :: ops, l, r, m, n + 1, h => by
    simp only [mergeKeep] at h
    simp only [List.take_succ_cons, mergeKeep]
    split at h
    · rename_i ho
      rw [if_pos ho]
      cases l with
      | nil => simp at h
      | cons a l' =>
        simp only at h ⊢
        cases hm : mergeKeep ops l' r with
        | none => simp [hm] at h
        | some m' =>
          simp [hm] at h; subst h
          simp [mergeKeep_take ops l' r m' n hm]
    · rename_i ho
      rw [if_neg ho]
      cases r with
      | nil => simp at h
      | cons b r' =>
        simp only at h ⊢
        cases hm : mergeKeep ops l r' with
        | none => simp [hm] at h
        | some m' =>
          simp [hm] at h; subst h
          simp [mergeKeep_take ops l r' m' n hm]

/-! ### the limit accounting of partition -/

theorem limitRuns_prefix : ∀ (R : List (Nat × Nat)) (lim me : Nat),
    ∃ Q, R = limitRuns R lim me ++ Q ∧ (Q = [] ∨ lim ≤ me + sumL (limitRuns R lim me) + sumR (limitRuns R lim me))
  | [], _, _ => ⟨[], by simp [limitRuns], Or.inl rfl⟩
  | g :: gs, lim, me => by
    simp only [limitRuns]
    split
    · obtain ⟨Q, hq, hor⟩ := limitRuns_prefix gs lim (me + max g.1 g.2)
      refine ⟨Q, by simp [← hq], ?_⟩
      rcases hor with h | h
      · exact Or.inl h
      · right; simp only [sumL, sumR]; omega
    · exact ⟨g :: gs, by simp, Or.inr (by simp [sumL, sumR]; omega)⟩

theorem gmerge_length (le : β → β → Bool) : ∀ (G : List (Nat × Nat)) (l r : List β), Fits G l r →
    (gmerge le G l r).length = sumL G + sumR G
  | [], _, _, _ => by simp [gmerge, sumL, sumR]
  | (gl, gr) :: gs, l, r, h => by
    simp only [Fits, sumL, sumR] at h
    have ih := gmerge_length le gs (l.drop gl) (r.drop gr) (by simp only [Fits, List.length_drop]; omega)
    simp only [gmerge, List.length_append, ih, (mergeAll_perm le _ _).length_eq, List.length_take, sumL, sumR]
    omega

/-! ### assembly -/

theorem foldl_subpartition (a b : List β) (last : β → β → Bool) :
    ∀ (mid : List (β → β → Bool)) (G : List (Nat × Nat)), (∀ c ∈ mid, TotalPre c) → Fits G a b →
      GSorted (lexOf (mid ++ [last])) G a b →
      ∃ G', subpartitionAll a b mid G = some G' ∧ Fits G' a b ∧
        gmerge last G' a b = gmerge (lexOf (mid ++ [last])) G a b
  | [], G, _, hf, _ => ⟨G, rfl, hf, by simp [lexOf_single]⟩
  | c :: mid, G, hc, hf, hs => by
    have hcc : TotalPre c := hc c (by simp)
    have hs' : GSorted (lexOf (c :: (mid ++ [last]))) G a b := by simpa using hs
    obtain ⟨G', h1, h2, h3⟩ := foldl_subpartition a b last mid (refine c G a b)
      (fun c' hc' => hc c' (by simp [hc'])) (fits_refine hcc G a b hf) (gsorted_refine hcc _ G a b hf hs')
    refine ⟨G', ?_, h2, ?_⟩
    · simp only [subpartitionAll, subpartition_eq c G a b hf]
      exact h1
    · rw [h3, gmerge_refine hcc _ G a b hf hs']; simp

theorem lexOf_totalPre' {β : Type} (cmps : List (β → β → Bool)) (h : ∀ c ∈ cmps, TotalPre c) : TotalPre (lexOf cmps) :=
  lexOf_totalPre cmps h

/-- `merge_partitioned ∘ subpartition* ∘ partition`, then `merge_keep`, on two lists sorted lexicographically by
    `c₁ :: mid ++ [last]` (fewer than 2^32 - 1 rows: the `Premerge` counters are u32) = the limited stable
    lexicographic merge. -/
theorem combineSortedN_eq (c₁ : β → β → Bool) (mid : List (β → β → Bool)) (last : β → β → Bool)
    (hc₁ : TotalPre c₁) (hmid : ∀ c ∈ mid, TotalPre c) (a b : List β) (n : Nat)
    (hlen : a.length + b.length < U32_MAX)
    (ha : Sorted (lexOf (c₁ :: (mid ++ [last]))) a) (hb : Sorted (lexOf (c₁ :: (mid ++ [last]))) b) :
    combineSortedN c₁ mid last a b n = some ((mergeAll (lexOf (c₁ :: (mid ++ [last]))) a b).take n) := by
  let K := mid ++ [last]
  let R := runs c₁ a b
  have hRs := runs_sums hc₁ a b
  obtain ⟨Q, hRQ, hor⟩ := limitRuns_prefix R (min n U32_MAX) 0
  have hP : partition c₁ a b n = limitRuns R (min n U32_MAX) 0 := rfl
  generalize hPdef : limitRuns R (min n U32_MAX) 0 = P at hRQ hor hP
  have hsumP : sumL P + sumL Q = a.length ∧ sumR P + sumR Q = b.length := by
    have h1 := hRs.1; have h2 := hRs.2
    change sumL R = _ at h1; change sumR R = _ at h2
    rw [hRQ, sumL_append] at h1; rw [hRQ, sumR_append] at h2
    exact ⟨h1, h2⟩
  have hfP : Fits P a b := by simp only [Fits]; omega
  have hgsR : GSorted (lexOf K) R a b := gsorted_runsAux hc₁ K _ a b ha hb
  have hgsP : GSorted (lexOf K) P a b := by
    rw [hRQ] at hgsR; exact ((gsorted_append _ P Q a b).mp hgsR).1
  obtain ⟨G', hfold, hfG', hgm⟩ := foldl_subpartition a b last mid P hmid hfP hgsP
  -- rows of the groups = a prefix of the full lexicographic merge
  have hfull : gmerge (lexOf K) R a b = mergeAll (lexOf (c₁ :: K)) a b := gmerge_runs hc₁ K a b ha hb
  have hpre : gmerge (lexOf K) R a b = gmerge (lexOf K) P a b ++ gmerge (lexOf K) Q (a.drop (sumL P)) (b.drop (sumR P)) := by
    rw [hRQ]; exact gmerge_append _ P Q a b
  have hlenP : (gmerge (lexOf K) P a b).length = sumL P + sumR P := gmerge_length _ P a b hfP
  have hcut : (gmerge (lexOf K) P a b).take n = (mergeAll (lexOf (c₁ :: K)) a b).take n := by
    rw [← hfull, hpre]
    rcases hor with hq | hq
    · subst hq; simp [gmerge]
    · have hn : n ≤ (gmerge (lexOf K) P a b).length := by
        rw [hlenP]
        have : sumL P + sumR P < U32_MAX := by omega
        omega
      rw [List.take_append_of_le_length hn]
  have hmk := mergeKeep_gflags last G' a b hfG'
  unfold combineSortedN
  rw [hP]
  simp only [hfold, mergePartitioned, mergeGroups_eq last G' a b hfG', Option.map_some]
  by_cases hn0 : n = 0
  · subst hn0
    -- limit 0: partition yields no group at all
    have hP0 : P = [] := by
      rw [← hPdef]; cases R <;> simp [limitRuns]
    subst hP0
    simp only [if_true]
    rw [hmk, hgm]; simp [gmerge]
  · simp only [hn0, if_false]
    rw [mergeKeep_take _ _ _ _ n hmk, hgm, hcut]

end LM.OrderSpec
