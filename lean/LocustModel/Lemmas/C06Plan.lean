import LocustModel.Query.ArithPlan
import LocustModel.Lemmas.C06Shell
/-
  Helper lemmas: the planner-level implementation model (`ArithPlan.evalPart`: registry lookup on operand types,
  operator shells on data vectors + presence bitmaps, NULL forwarding) computes, on one partition, exactly the
  column-lifted row-at-a-time model (`colSem`, built from `rowsEval`/`cellT`), on the supported fragment.
-/
namespace LM.ArithPlan
open LM LM.Arith LM.ArithTree LM.ArithShell LM.Gen.Registry

/-- The cells of a column in a partition of `len` rows (absent ⇒ all NULL). -/
def colCells (len : Nat) (c : Option PCol) : List (Option Int) :=
  match c with
  | none => List.replicate len none
  | some c => c.cells

/-- Row-at-a-time semantics of an expression, lifted to the partition's columns: cells and "some row flagged". -/
def colSem (len : Nat) (cols : Nat → Option PCol) : Expr → List (Option Int) × Bool
  | .col i => (colCells len (cols i), false)
  | .const k => (List.replicate len (some k), false)
  | .nullConst => (List.replicate len none, false)
  | .bin op l r =>
      let a := colSem len cols l
      let b := colSem len cols r
      let c := rowsEval op a.1 b.1
      (c.1, a.2 || b.2 || c.2)

def isConst : Expr → Bool
  | .const _ => true
  | _ => false

/-- The supported fragment: no NULL literal (NotImplemented), no operator applied to two constants (FatalError:
    the planner does not fold constants). -/
def Supported : Expr → Prop
  | .col _ => True
  | .const _ => True
  | .nullConst => False
  | .bin _ l r => Supported l ∧ Supported r ∧ ¬ (isConst l = true ∧ isConst r = true)

-- lengths ------------------------------------------------------------------------------------------------------

theorem rowsEval_length (op : Op) (n : Nat) (as bs : List (Option Int)) (ha : as.length = n) (hb : bs.length = n) :
    (rowsEval op as bs).1.length = n := by
  induction n generalizing as bs with
  | zero => cases as <;> cases bs <;> simp_all [rowsEval]
  | succ n ih =>
    match as, bs, ha, hb with
    | a :: as, b :: bs, ha, hb => simp [rowsEval, ih as bs (by simpa using ha) (by simpa using hb)]

-- NULL operands --------------------------------------------------------------------------------------------------

theorem rowsEval_none_left (op : Op) (n : Nat) (bs : List (Option Int)) (hb : bs.length = n) :
    rowsEval op (List.replicate n none) bs = (List.replicate n none, false) := by
  induction n generalizing bs with
  | zero => cases bs <;> simp_all [rowsEval]
  | succ n ih =>
    match bs, hb with
    | b :: bs, hb => simp [List.replicate_succ, rowsEval, cellT, ih bs (by simpa using hb)]

theorem rowsEval_none_right (op : Op) (n : Nat) (as : List (Option Int)) (ha : as.length = n) :
    rowsEval op as (List.replicate n none) = (List.replicate n none, false) := by
  induction n generalizing as with
  | zero => cases as <;> simp_all [rowsEval]
  | succ n ih =>
    match as, ha with
    | a :: as, ha =>
      simp only [List.replicate_succ, rowsEval, ih as (by simpa using ha)]
      cases a <;> simp [cellT]

theorem view_all_false (n : Nat) (d : List Int) (hd : d.length = n) :
    view d (some (List.replicate n false)) = List.replicate n none := by
  induction n generalizing d with
  | zero => cases d <;> simp_all [view]
  | succ n ih =>
    match d, hd with
    | x :: d, hd =>
      have := ih d (by simpa using hd)
      simp only [view] at this ⊢
      simp [List.replicate_succ, this]

theorem and_false_left (n : Nat) (q : List Bool) (hq : q.length = n) :
    combineNullMaps (List.replicate n false) q = List.replicate n false := by
  induction n generalizing q with
  | zero => cases q <;> simp_all [combineNullMaps]
  | succ n ih =>
    match q, hq with
    | b :: q, hq =>
      have := ih q (by simpa using hq)
      simp only [combineNullMaps] at this ⊢
      simp [List.replicate_succ, this]

-- registry lookups (the generated table, by cases) ----------------------------------------------------------------------

theorem lookup_int_int (op : Op) (tl tr : Ty) (hl : tl.basic = .integer) (hr : tr.basic = .integer) :
    ∃ e, lookup op tl tr = some e ∧ interp e.factory = .checked op := by
  simp only [lookup, hl, hr]
  cases op <;> exact ⟨_, rfl, rfl⟩

theorem lookup_null_int (op : Op) (tl tr : Ty) (hl : tl.basic = .null) (hr : tr.basic = .integer) :
    ∃ e, lookup op tl tr = some e ∧ (interp e.factory = .forwardLeft ∨ interp e.factory = .castNullMul) := by
  simp only [lookup, hl, hr]
  cases op
  · exact ⟨_, rfl, Or.inl rfl⟩
  · exact ⟨_, rfl, Or.inl rfl⟩
  · exact ⟨_, rfl, Or.inr rfl⟩
  · exact ⟨_, rfl, Or.inl rfl⟩
  · exact ⟨_, rfl, Or.inl rfl⟩

theorem lookup_int_null (op : Op) (tl tr : Ty) (hl : tl.basic = .integer) (hr : tr.basic = .null) :
    ∃ e, lookup op tl tr = some e ∧ interp e.factory = .forwardRight := by
  simp only [lookup, hl, hr]
  cases op <;> exact ⟨_, rfl, rfl⟩

theorem lookup_null_null (op : Op) (tl tr : Ty) (hl : tl.basic = .null) (hr : tr.basic = .null) :
    ∃ e, lookup op tl tr = some e ∧ interp e.factory = .forwardLeft := by
  simp only [lookup, hl, hr]
  cases op <;> exact ⟨_, rfl, rfl⟩

-- the invariant ----------------------------------------------------------------------------------------------------------

/-- A compiled sub-expression denotes the column of cells `cells` (and `flag` = some row raised an overflow flag). -/
def ValOk (n : Nat) (v : Val) (cells : List (Option Int)) (flag : Bool) : Prop :=
  v.fatal = false ∧ v.fault = none ∧ v.unmodelled = false ∧ v.overflow = flag ∧ cells.length = n ∧
  match v.ty with
  | .scalar => ∃ k, v.data = [k] ∧ cells = List.replicate n (some k)
  | .int nb => v.data.length = n ∧ (∀ ps, v.present = some ps → ps.length = n) ∧ view v.data v.present = cells ∧
               nb = v.present.isSome
  | .null => cells = List.replicate n none

theorem colVal_ok (len : Nat) (c : Option PCol) (hc : ∀ x, c = some x → x.cells.length = len) :
    ValOk len (colVal len c) (colCells len c) false := by
  cases c with
  | none => simp [ValOk, colVal, colCells]
  | some x =>
    have hx := hc x rfl
    simp only [colVal, colCells]
    by_cases h1 : x.allNull = true
    · rw [if_pos h1]
      refine ⟨rfl, rfl, rfl, rfl, hx, ?_⟩
      dsimp only
      -- every cell is NULL
      simp only [PCol.allNull, List.all_eq_true] at h1
      apply List.ext_getElem (by simp [hx])
      intro i hi _
      have := h1 (x.cells[i]) (List.getElem_mem hi)
      cases hci : x.cells[i] with
      | none => simp
      | some y => simp [hci] at this
    · rw [if_neg h1]
      by_cases h2 : x.anyNull = true
      · rw [if_pos h2]
        refine ⟨rfl, rfl, rfl, rfl, hx, ?_⟩
        dsimp only
        refine ⟨by simp [hx], by intro ps hps; cases hps; simp [hx], ?_, by simp⟩
        simp only [view]
        apply List.ext_getElem (by simp)
        intro i hi _
        simp at hi
        cases hci : x.cells[i] <;> simp [hci]
      · rw [if_neg h2]
        refine ⟨rfl, rfl, rfl, rfl, hx, ?_⟩
        dsimp only
        refine ⟨by simp [hx], ?_, ?_, by simp⟩
        · intro ps hps; cases hps
        simp only [view]
        apply List.ext_getElem (by simp)
        intro i hi _
        simp at hi
        simp only [PCol.anyNull, Bool.not_eq_true, List.any_eq_false] at h2
        have := h2 (x.cells[i]) (List.getElem_mem hi)
        cases hci : x.cells[i] with
        | none => simp [hci] at this
        | some y => simp [hci]

/-- Operand well-formedness and view from the invariant (non-NULL types). -/
theorem operand_of_ok (n : Nat) (v : Val) (cells : List (Option Int)) (flag : Bool) (h : ValOk n v cells flag)
    (hn : v.ty ≠ .null) :
    (match v.operand with
      | .scalar _ => True
      | .vec d p => d.length = n ∧ ∀ ps, p = some ps → ps.length = n) ∧
    (match v.operand with
      | .scalar k => List.replicate n (some k)
      | .vec d p => view d p) = cells ∧
    (v.ty = .scalar ↔ ∃ k, v.operand = .scalar k) := by
  obtain ⟨_, _, _, _, _, hty⟩ := h
  cases hv : v.ty with
  | null => exact absurd hv hn
  | scalar =>
    simp only [hv] at hty
    obtain ⟨k, hk, hc⟩ := hty
    simp [Val.operand, hv, hk, hc]
  | int nb =>
    simp only [hv] at hty
    obtain ⟨h1, h2, h3, _⟩ := hty
    simp [Val.operand, hv, h1, h3]
    exact h2

-- one node ----------------------------------------------------------------------------------------------------------------

theorem ty_basic_null {t : Ty} : t.basic = .null ↔ t = .null := by
  cases t <;> simp [Ty.basic]

theorem ty_basic_int {t : Ty} : t.basic = .integer ↔ t ≠ .null := by
  cases t <;> simp [Ty.basic]

/-- `evalNode` on operands that denote `ca` / `cb`: the result denotes the row-wise result, provided the operands
    are not both constants. -/
theorem evalNode_ok (op : Op) (n : Nat) (l r : Val) (ca cb : List (Option Int)) (fa fb : Bool)
    (hl : ValOk n l ca fa) (hr : ValOk n r cb fb) (hns : ¬ (l.ty = .scalar ∧ r.ty = .scalar)) :
    ∃ v, evalNode op n l r = .ok v ∧ v.ty ≠ .scalar ∧
      ValOk n v (rowsEval op ca cb).1 (fa || fb || (rowsEval op ca cb).2) := by
  have hla := hl; have hra := hr
  obtain ⟨lf, lflt, lun, lov, lca, lty⟩ := hl
  obtain ⟨rf, rflt, run, rov, rcb, rty⟩ := hr
  have hlen : (rowsEval op ca cb).1.length = n := rowsEval_length op n ca cb lca rcb
  by_cases hln : l.ty = .null
  · -- left operand is NULL everywhere
    simp only [hln] at lty
    subst lty
    have hrow : rowsEval op (List.replicate n none) cb = (List.replicate n none, false) := rowsEval_none_left op n cb rcb
    by_cases hrn : r.ty = .null
    · obtain ⟨e, he, hi⟩ := lookup_null_null op l.ty r.ty (ty_basic_null.mpr hln) (ty_basic_null.mpr hrn)
      refine ⟨_, by simp only [evalNode, he, hi]; rfl, by simp [hln], ?_⟩
      simp only [hrow]
      refine ⟨by simp [lf, rf], by simp [orFault, lflt, rflt], by simp [lun, run], by simp [lov, rov], by simp, ?_⟩
      simp [hln]
    · obtain ⟨e, he, hi⟩ := lookup_null_int op l.ty r.ty (ty_basic_null.mpr hln) (ty_basic_int.mpr hrn)
      rcases hi with hi | hi
      · refine ⟨_, by simp only [evalNode, he, hi]; rfl, by simp [hln], ?_⟩
        simp only [hrow]
        refine ⟨by simp [lf, rf], by simp [orFault, lflt, rflt], by simp [lun, run], by simp [lov, rov], by simp, ?_⟩
        simp [hln]
      · refine ⟨_, by simp only [evalNode, he, hi]; rfl, by simp, ?_⟩
        simp only [hrow]
        refine ⟨by simp [lf, rf], by simp [orFault, lflt, rflt], by simp [lun, run], by simp [lov, rov], by simp, ?_⟩
        dsimp only
        -- the present bitmap is all-false (combined with the right operand's, if it has one)
        cases hrt : r.ty with
        | null => exact absurd hrt hrn
        | scalar =>
          simp only [combineNulls2]
          exact ⟨by simp, by intro ps hps; cases hps; simp, view_all_false n _ (by simp), by simp⟩
        | int nb =>
          simp only [hrt] at rty
          obtain ⟨_, rp, _, _⟩ := rty
          cases hp : r.present with
          | none =>
            simp only [combineNulls2]
            exact ⟨by simp, by intro ps hps; cases hps; simp, view_all_false n _ (by simp), by simp⟩
          | some q =>
            have hq := rp q hp
            simp only [combineNulls2, and_false_left n q hq]
            exact ⟨by simp, by intro ps hps; cases hps; simp, view_all_false n _ (by simp), by simp⟩
  · by_cases hrn : r.ty = .null
    · -- right operand is NULL everywhere
      simp only [hrn] at rty
      subst rty
      have hrow : rowsEval op ca (List.replicate n none) = (List.replicate n none, false) := rowsEval_none_right op n ca lca
      obtain ⟨e, he, hi⟩ := lookup_int_null op l.ty r.ty (ty_basic_int.mpr hln) (ty_basic_null.mpr hrn)
      refine ⟨_, by simp only [evalNode, he, hi]; rfl, by simp [hrn], ?_⟩
      simp only [hrow]
      refine ⟨by simp [lf, rf], by simp [orFault, lflt, rflt], by simp [lun, run], by simp [lov, rov], by simp, ?_⟩
      simp [hrn]
    · -- two integer operands, not both constants: the checked operator of `op` through its shell
      obtain ⟨e, he, hi⟩ := lookup_int_int op l.ty r.ty (ty_basic_int.mpr hln) (ty_basic_int.mpr hrn)
      obtain ⟨wl, vl, sl⟩ := operand_of_ok n l ca fa hla hln
      obtain ⟨wr, vr, sr⟩ := operand_of_ok n r cb fb hra hrn
      have hwl : WfOperand n l.operand := by cases hop : l.operand <;> simp_all [WfOperand]
      have hwr : WfOperand n r.operand := by cases hop : r.operand <;> simp_all [WfOperand]
      have hvl : operandView n l.operand = ca := by cases hop : l.operand <;> simp_all [operandView]
      have hvr : operandView n r.operand = cb := by cases hop : r.operand <;> simp_all [operandView]
      have hv : (∃ d p, l.operand = .vec d p) ∨ (∃ d p, r.operand = .vec d p) := by
        cases hlo : l.operand with
        | vec d p => exact Or.inl ⟨d, p, rfl⟩
        | scalar k =>
          cases hro : r.operand with
          | vec d p => exact Or.inr ⟨d, p, rfl⟩
          | scalar k' => exact absurd ⟨sl.mpr ⟨k, hlo⟩, sr.mpr ⟨k', hro⟩⟩ hns
      obtain ⟨d, p, o, hd, ⟨hdl, hpl⟩, hview⟩ := dispatch_rowwise op n l.operand r.operand hwl hwr hv
      rw [hvl, hvr] at hview
      refine ⟨_, by simp only [evalNode, he, hi, hd]; rfl, by simp, ?_⟩
      have h1 : view d p = (rowsEval op ca cb).1 := congrArg Prod.fst hview
      have h2 : o = (rowsEval op ca cb).2 := congrArg Prod.snd hview
      refine ⟨by simp [lf, rf], by simp [orFault, lflt, rflt], by simp [lun, run], by simp [lov, rov, h2], hlen, ?_⟩
      dsimp only
      exact ⟨hdl, hpl, h1, rfl⟩

/-- **The planner-level implementation model refines the row-level model**: on the supported fragment, compiling
    and executing an expression on one partition (registry lookups, shells, NULL forwarding, whatever data lies
    under NULL slots) yields exactly the column-lifted row-at-a-time semantics, and its error flag is the
    disjunction of the rows' flags. -/
theorem evalPart_colSem (len : Nat) (cols : Nat → Option PCol)
    (hcols : ∀ i x, cols i = some x → x.cells.length = len) (e : Expr) (hs : Supported e) :
    ∃ v, evalPart len cols e = .ok v ∧ ValOk len v (colSem len cols e).1 (colSem len cols e).2 ∧
      (v.ty = .scalar ↔ isConst e = true) := by
  induction e with
  | col i =>
    refine ⟨_, rfl, colVal_ok len (cols i) (hcols i), ?_⟩
    simp only [isConst, Bool.false_eq_true, iff_false]
    cases hc : cols i with
    | none => simp [colVal]
    | some x => simp only [colVal]; split <;> (try split) <;> simp
  | const k =>
    exact ⟨_, rfl, ⟨rfl, rfl, rfl, rfl, by simp [colSem], ⟨k, rfl, rfl⟩⟩, by simp [isConst]⟩
  | nullConst => exact absurd hs (by simp [Supported])
  | bin op l r ihl ihr =>
    obtain ⟨sl, sr, hcc⟩ := hs
    obtain ⟨lv, hle, hlok, hlt⟩ := ihl sl
    obtain ⟨rv, hre, hrok, hrt⟩ := ihr sr
    have hns : ¬ (lv.ty = .scalar ∧ rv.ty = .scalar) := fun ⟨a, b⟩ => hcc ⟨hlt.mp a, hrt.mp b⟩
    obtain ⟨v, hv, hvt, hvok⟩ := evalNode_ok op len lv rv _ _ _ _ hlok hrok hns
    refine ⟨v, by simp only [evalPart, hle, hre, hv], by simpa [colSem] using hvok, ?_⟩
    simp only [isConst, Bool.false_eq_true, iff_false]
    exact hvt

-- rows -------------------------------------------------------------------------------------------------------------------

/-- The row-level model as a total function (`ArithTree.evalRowModel` never faults). -/
def rowT : Expr → Row → Option Int × Bool
  | .col i, row => (row.getD i none, false)
  | .const v, _ => (some v, false)
  | .nullConst, _ => (none, false)
  | .bin op l r, row =>
      ((cellT op (rowT l row).1 (rowT r row).1).1,
       (rowT l row).2 || (rowT r row).2 || (cellT op (rowT l row).1 (rowT r row).1).2)

theorem evalRowModel_eq_rowT (e : Expr) (row : Row) : evalRowModel e row = .ok (rowT e row) := by
  induction e with
  | col i => rfl
  | const v => rfl
  | nullConst => rfl
  | bin op l r ihl ihr => simp [evalRowModel, ihl, ihr, cell_eq_cellT, rowT]

/-- Row `j` of a partition with `ncols` columns. -/
def rowOf (len ncols : Nat) (cols : Nat → Option PCol) (j : Nat) : Row :=
  (List.range ncols).map fun i => (colCells len (cols i)).getD j none

theorem rowsEval_getD (op : Op) (n : Nat) (as bs : List (Option Int)) (ha : as.length = n) (hb : bs.length = n)
    (j : Nat) (hj : j < n) :
    (rowsEval op as bs).1.getD j none = (cellT op (as.getD j none) (bs.getD j none)).1 := by
  induction n generalizing as bs j with
  | zero => omega
  | succ n ih =>
    match as, bs, ha, hb with
    | a :: as, b :: bs, ha, hb =>
      cases j with
      | zero => simp [rowsEval]
      | succ j =>
        have := ih as bs (by simpa using ha) (by simpa using hb) j (by omega)
        simpa [rowsEval] using this

theorem rowsEval_flag_iff (op : Op) (n : Nat) (as bs : List (Option Int)) (ha : as.length = n) (hb : bs.length = n) :
    (rowsEval op as bs).2 = true ↔ ∃ j, j < n ∧ (cellT op (as.getD j none) (bs.getD j none)).2 = true := by
  induction n generalizing as bs with
  | zero => cases as <;> cases bs <;> simp_all [rowsEval]
  | succ n ih =>
    match as, bs, ha, hb with
    | a :: as, b :: bs, ha, hb =>
      have := ih as bs (by simpa using ha) (by simpa using hb)
      simp only [rowsEval, Bool.or_eq_true, this]
      constructor
      · rintro (h | ⟨j, hj, h⟩)
        · exact ⟨0, by omega, by simpa using h⟩
        · exact ⟨j + 1, by omega, by simpa using h⟩
      · rintro ⟨j, hj, h⟩
        cases j with
        | zero => left; simpa using h
        | succ j => right; exact ⟨j, by omega, by simpa using h⟩

theorem colSem_length (len : Nat) (cols : Nat → Option PCol)
    (hcols : ∀ i x, cols i = some x → x.cells.length = len) (e : Expr) : (colSem len cols e).1.length = len := by
  induction e with
  | col i =>
    simp only [colSem, colCells]
    cases hc : cols i with
    | none => simp
    | some x => exact hcols i x hc
  | const k => simp [colSem]
  | nullConst => simp [colSem]
  | bin op l r ihl ihr => exact rowsEval_length op len _ _ ihl ihr

/-- **Column-lifted semantics = the row model on every row.** Cell `j` of `colSem` is the row-level model's cell for
    row `j`, and the partition's flag is up iff some row's flag is. -/
theorem colSem_rows (len ncols : Nat) (cols : Nat → Option PCol)
    (hcols : ∀ i x, cols i = some x → x.cells.length = len) (hn : ∀ i, ncols ≤ i → cols i = none) (e : Expr) :
    (∀ j, j < len → (colSem len cols e).1.getD j none = (rowT e (rowOf len ncols cols j)).1) ∧
    ((colSem len cols e).2 = true ↔ ∃ j, j < len ∧ (rowT e (rowOf len ncols cols j)).2 = true) := by
  induction e with
  | col i =>
    refine ⟨?_, by simp [colSem, rowT]⟩
    intro j hj
    simp only [colSem, rowT, rowOf]
    by_cases hi : i < ncols
    · simp [List.getD, hi]
    · have := hn i (by omega)
      simp [List.getD, hi, this, colCells, hj]
  | const k => exact ⟨by intro j hj; simp [colSem, rowT, List.getD, hj], by simp [colSem, rowT]⟩
  | nullConst => exact ⟨by intro j hj; simp [colSem, rowT, List.getD, hj], by simp [colSem, rowT]⟩
  | bin op l r ihl ihr =>
    obtain ⟨l1, l2⟩ := ihl
    obtain ⟨r1, r2⟩ := ihr
    have hla := colSem_length len cols hcols l
    have hra := colSem_length len cols hcols r
    constructor
    · intro j hj
      simp only [colSem, rowT]
      rw [rowsEval_getD op len _ _ hla hra j hj, l1 j hj, r1 j hj]
    · simp only [colSem, rowT, Bool.or_eq_true, l2, r2, rowsEval_flag_iff op len _ _ hla hra]
      constructor
      · rintro ((⟨j, hj, h⟩ | ⟨j, hj, h⟩) | ⟨j, hj, h⟩)
        · exact ⟨j, hj, Or.inl (Or.inl h)⟩
        · exact ⟨j, hj, Or.inl (Or.inr h)⟩
        · exact ⟨j, hj, Or.inr (by rw [← l1 j hj, ← r1 j hj]; exact h)⟩
      · rintro ⟨j, hj, (h | h) | h⟩
        · exact Or.inl (Or.inl ⟨j, hj, h⟩)
        · exact Or.inl (Or.inr ⟨j, hj, h⟩)
        · exact Or.inr ⟨j, hj, by rw [l1 j hj, r1 j hj]; exact h⟩

end LM.ArithPlan
