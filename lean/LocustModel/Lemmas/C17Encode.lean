import LocustModel.Wire.ResponseSpec
import LocustModel.Lemmas.C16Xor
/-
  Lemmas for C17 (binary responses): the 4-bit type signature as a set of value kinds, the three extraction
  loops of `encode_column` never reach `unreachable!()` under the signature test that guards them, and the
  float path (plain / xor / reduced mantissa) through C16's coder.
-/
namespace LM.Wire.Response
open LM LM.Wire.XorFloat

/-! ### type signature -/

theorem sigBit_lt (v : Val) : sigBit v < 2 ^ 4 := by cases v <;> simp [sigBit]

theorem sigLoop_acc (xs : List Val) (s : Nat) :
    xs.foldl (fun s v => s ||| sigBit v) s = s ||| typeSignature xs := by
  induction xs generalizing s with
  | nil => simp [typeSignature]
  | cons v vs ih =>
    simp only [typeSignature, List.foldl_cons]
    rw [ih (s ||| sigBit v), ih (0 ||| sigBit v), Nat.zero_or, Nat.or_assoc]

theorem typeSignature_nil : typeSignature [] = 0 := rfl

theorem typeSignature_cons (v : Val) (vs : List Val) :
    typeSignature (v :: vs) = sigBit v ||| typeSignature vs := by
  simp only [typeSignature, List.foldl_cons]
  rw [sigLoop_acc vs (0 ||| sigBit v), Nat.zero_or]
  rfl

theorem typeSignature_lt (xs : List Val) : typeSignature xs < 2 ^ 4 := by
  induction xs with
  | nil => simp [typeSignature]
  | cons v vs ih => rw [typeSignature_cons]; exact Nat.or_lt_two_pow (sigBit_lt v) ih

/-- Every value's kind bit is contained in the signature. -/
theorem sig_absorb {xs : List Val} {v : Val} (h : v ∈ xs) : sigBit v ||| typeSignature xs = typeSignature xs := by
  induction xs with
  | nil => cases h
  | cons w ws ih =>
    rw [typeSignature_cons]
    rcases List.mem_cons.mp h with rfl | hm
    · rw [← Nat.or_assoc, Nat.or_self]
    · rw [← Nat.or_assoc, Nat.or_comm (sigBit v), Nat.or_assoc, ih hm]

/-- The signature contains nothing but the kind bits of the values. -/
theorem sig_subset {xs : List Val} (m : Nat) (h : ∀ v ∈ xs, sigBit v ||| m = m) : typeSignature xs ||| m = m := by
  induction xs with
  | nil => simp [typeSignature]
  | cons w ws ih =>
    rw [typeSignature_cons, Nat.or_assoc, ih (fun v hv => h v (List.mem_cons_of_mem _ hv))]
    exact h w (List.mem_cons_self)

theorem sig2_all_str {xs : List Val} (h : typeSignature xs = 2) : ∀ v ∈ xs, ∃ s, v = .str s := by
  intro v hv
  have := sig_absorb hv
  rw [h] at this
  cases v <;> simp [sigBit] at this ⊢

theorem sig1_all_int {xs : List Val} (h : typeSignature xs = 1) : ∀ v ∈ xs, ∃ i, v = .int i := by
  intro v hv
  have := sig_absorb hv
  rw [h] at this
  cases v <;> simp [sigBit] at this ⊢

theorem sig4_all_null {xs : List Val} (h : typeSignature xs = 4) : ∀ v ∈ xs, v = .null := by
  intro v hv
  have := sig_absorb hv
  rw [h] at this
  cases v <;> simp [sigBit] at this ⊢

theorem sig8_12_float_or_null {xs : List Val} (h : typeSignature xs = 8 ∨ typeSignature xs = 12) :
    ∀ v ∈ xs, isFloatOrNull v = true := by
  intro v hv
  have := sig_absorb hv
  rcases h with h | h <;> rw [h] at this <;> cases v <;> simp [sigBit, isFloatOrNull] at this ⊢

theorem fin16_cases : ∀ s, s < 2 ^ 4 → s ||| 12 = 12 → 8 ||| s = s → s = 8 ∨ s = 12 := by decide

theorem fin16_no8 : ∀ s, s < 2 ^ 4 → s ||| 7 = 7 → ¬ (s = 8 ∨ s = 12) := by decide

/-- `floatish` is exactly "signature 8 or 12". -/
theorem floatish_iff_sig (xs : List Val) : floatish xs = true ↔ (typeSignature xs = 8 ∨ typeSignature xs = 12) := by
  constructor
  · intro h
    simp only [floatish, Bool.and_eq_true, List.all_eq_true, List.any_eq_true] at h
    obtain ⟨hall, w, hw, hf⟩ := h
    have hsub : typeSignature xs ||| 12 = 12 :=
      sig_subset 12 (fun v hv => by have := hall v hv; cases v <;> simp [isFloatOrNull, sigBit] at this ⊢)
    have habs := sig_absorb hw
    have hw8 : sigBit w = 8 := by cases w <;> simp [isFloat, sigBit] at hf ⊢
    rw [hw8] at habs
    exact fin16_cases _ (typeSignature_lt xs) hsub habs
  · intro h
    simp only [floatish, Bool.and_eq_true, List.all_eq_true, List.any_eq_true]
    refine ⟨sig8_12_float_or_null h, ?_⟩
    -- some value is a float: otherwise the signature would stay below 8
    refine Classical.byContradiction fun hno => ?_
    have hsub : typeSignature xs ||| 7 = 7 :=
      sig_subset 7 (fun v hv => by
        have : isFloat v ≠ true := fun hf => hno ⟨v, hv, hf⟩
        cases v <;> simp [isFloat, sigBit] at this ⊢)
    exact fin16_no8 _ (typeSignature_lt xs) hsub h

/-! ### extraction loops -/

theorem allStrs_ok {xs : List Val} (h : ∀ v ∈ xs, ∃ s, v = .str s) : ∃ ss, allStrs xs = .ok ss ∧ ss.map .str = xs := by
  induction xs with
  | nil => exact ⟨[], rfl, rfl⟩
  | cons v vs ih =>
    obtain ⟨s, rfl⟩ := h v (List.mem_cons_self)
    obtain ⟨ss, e, m⟩ := ih (fun v hv => h v (List.mem_cons_of_mem _ hv))
    exact ⟨s :: ss, by simp [allStrs, e], by simp [m]⟩

theorem allInts_ok {xs : List Val} (h : ∀ v ∈ xs, ∃ i, v = .int i) : ∃ is, allInts xs = .ok is ∧ is.map .int = xs := by
  induction xs with
  | nil => exact ⟨[], rfl, rfl⟩
  | cons v vs ih =>
    obtain ⟨i, rfl⟩ := h v (List.mem_cons_self)
    obtain ⟨is, e, m⟩ := ih (fun v hv => h v (List.mem_cons_of_mem _ hv))
    exact ⟨i :: is, by simp [allInts, e], by simp [m]⟩

theorem floatsOrNull_ok {xs : List Val} (h : ∀ v ∈ xs, isFloatOrNull v = true) :
    ∃ fs, floatsOrNull xs = .ok fs ∧ fs.map .float = xs.map nanNull := by
  induction xs with
  | nil => exact ⟨[], rfl, rfl⟩
  | cons v vs ih =>
    obtain ⟨fs, e, m⟩ := ih (fun v hv => h v (List.mem_cons_of_mem _ hv))
    have hv := h v (List.mem_cons_self)
    cases v with
    | float b => exact ⟨b :: fs, by simp [floatsOrNull, e], by simp [m, nanNull]⟩
    | null => exact ⟨NULL_BITS :: fs, by simp [floatsOrNull, e], by simp [m, nanNull]⟩
    | int i => simp [isFloatOrNull] at hv
    | str s => simp [isFloatOrNull] at hv

theorem all_null_replicate {xs : List Val} (h : ∀ v ∈ xs, v = .null) : List.replicate xs.length EventBuffer.Val.null = xs := by
  induction xs with
  | nil => rfl
  | cons v vs ih =>
    rw [h v (List.mem_cons_self)]
    simp only [List.length_cons, List.replicate_succ]
    rw [ih (fun v hv => h v (List.mem_cons_of_mem _ hv))]

theorem map_nanNull_floats (fs : List Nat) : (fs.map EventBuffer.Val.float).map nanNull = fs.map EventBuffer.Val.float := by
  induction fs with
  | nil => rfl
  | cons f fs ih => simp [nanNull]

theorem specView_plain {col : BCol} (h : floatish col.cells = false) : specView col = col.cells := by
  simp [specView, h]

theorem specView_floatish {col : BCol} (h : floatish col.cells = true) : specView col = col.cells.map nanNull := by
  simp [specView, h]

/-! ### agreement relation -/

theorem NULL_BITS_lt : NULL_BITS < U64 := by decide

theorem cellKeeps_refl (mask : Nat) (v : Val) (h : ∀ b, v = .float b → b < U64) : CellKeeps mask v v := by
  cases v with
  | float b => exact ⟨rfl, h b rfl⟩
  | null => rfl
  | int i => rfl
  | str s => rfl

theorem zip2_refl (mask : Nat) (xs : List Val) (h : ∀ v ∈ xs, ∀ b, v = .float b → b < U64) :
    Zip2 (CellKeeps mask) xs xs := by
  induction xs with
  | nil => exact .nil
  | cons v vs ih =>
    exact .cons (cellKeeps_refl mask v (h v (List.mem_cons_self))) (ih (fun w hw => h w (List.mem_cons_of_mem _ hw)))

theorem zip2_of_pointwise {mask : Nat} {ys xs : List Nat} (h : Pointwise (Keeps mask) ys xs) :
    Zip2 (CellKeeps mask) (ys.map EventBuffer.Val.float) (xs.map EventBuffer.Val.float) := by
  induction h with
  | nil => exact .nil
  | cons hk _ ih => exact .cons hk ih

theorem and_allOnes {a : Nat} (h : a < U64) : a &&& ALL_ONES = a := by
  have e : ALL_ONES = 2 ^ 64 - 1 := by decide
  have e2 : U64 = 2 ^ 64 := by decide
  rw [e, Nat.and_two_pow_sub_one_eq_mod]
  exact Nat.mod_eq_of_lt (e2 ▸ h)

theorem cellKeeps_allOnes {y x : Val} (h : CellKeeps ALL_ONES y x) (hx : ∀ b, x = .float b → b < U64) : y = x := by
  cases y with
  | float a =>
    cases x with
    | float b =>
      obtain ⟨h1, h2⟩ := h
      rw [and_allOnes h2, and_allOnes (hx b rfl)] at h1
      rw [h1]
    | null => exact h
    | int i => exact h
    | str s => exact h
  | null => cases x <;> exact h
  | int i => cases x <;> exact h
  | str s => cases x <;> exact h

/-- With all 64 bits kept, agreement is equality. -/
theorem zip2_allOnes_eq {ys xs : List Val} (h : Zip2 (CellKeeps ALL_ONES) ys xs)
    (hx : ∀ v ∈ xs, ∀ b, v = .float b → b < U64) : ys = xs := by
  induction h with
  | nil => rfl
  | @cons y x ys xs hk _ ih =>
    rw [cellKeeps_allOnes hk (hx x (List.mem_cons_self)), ih (fun w hw => hx w (List.mem_cons_of_mem _ hw))]

/-! ### the float path -/

/-- `floatColumn` followed by wire and client, for any float vector inside the coder's domain. -/
theorem floatColumn_deliver (fs : List Nat) (o : Opts) (hfs : ∀ x ∈ fs, x < U64) (hlen : fs.length < U64)
    (hm : o.xor = true → mantissaTooLarge o.mantissa = false) :
    ∃ w ys, floatColumn fs o = .ok w ∧ deliver w = .ok (.float ys) ∧
      Zip2 (CellKeeps (effMask o)) (ys.map EventBuffer.Val.float) (fs.map EventBuffer.Val.float) := by
  by_cases hx : o.xor = true
  · obtain ⟨bytes, ys, e, d, hk⟩ := encode_decode fs hfs hlen 100 (by decide) o.mantissa (hm hx)
    refine ⟨.xor bytes, ys, by simp [floatColumn, hx, e], by simp [deliver, transmit, clientDecode, d], ?_⟩
    simp only [effMask, hx, if_true]
    exact zip2_of_pointwise hk
  · have hx' : o.xor = false := by cases h : o.xor <;> simp_all
    refine ⟨.float fs, fs, by simp [floatColumn, hx'], by simp [deliver, transmit, clientDecode], ?_⟩
    exact zip2_refl _ _ (fun v hv b hb => by
      obtain ⟨x, hxm, hxe⟩ := List.mem_map.mp hv
      rw [hb] at hxe
      exact (EventBuffer.Val.float.inj hxe) ▸ hfs x hxm)

/-! ### `encode_column`, all column kinds and signatures -/


/-- `encode_column` is faithful, for every column kind, all 16 signatures of a Mixed column, and both float
    encodings: it never reaches an `unreachable!()`, and what the caller of `multi_query` holds after wire and
    client decoding agrees cell by cell with the specified view of the embedded column under the mask in effect
    (all 64 bits unless xor compression with a reduced mantissa was asked for). -/
theorem encode_column_faithful (col : BCol) (o : Opts) (hwf : WfCol col)
    (hm : o.xor = true → mantissaTooLarge o.mantissa = false) (hi : IntsOk col) :
    ∃ w, encodeColumn col o = .ok w ∧ BinColAgree o col w := by
  obtain ⟨hfl, hlen⟩ := hwf
  have hrefl : ∀ l : List Val, l = col.cells → Zip2 (CellKeeps (effMask o)) l l := fun l hl =>
    zip2_refl _ _ (fun v hv b hb => hfl v (hl ▸ hv) b hb)
  have transmit_int : ∀ xs : List Int, col.cells = xs.map .int → deliver (.int xs) = .ok (.int xs) := by
    intro xs hx
    have h : ApiInts.roundtrip xs = .ok xs := hi xs hx
    unfold ApiInts.roundtrip at h
    simp only [deliver, transmit]
    cases he : ApiInts.encode xs with
    | error f => simp [he] at h
    | ok l => simp [he] at h; simp [h, clientDecode]
  cases col with
  | int xs =>
    refine ⟨.int xs, rfl, .int xs, xs.map .int, transmit_int xs rfl, rfl, ?_⟩
    rw [specView_plain (col := .int xs) (by simp [BCol.cells, floatish, isFloat])]
    exact hrefl _ rfl
  | str xs =>
    refine ⟨.str xs, rfl, .str xs, xs.map .str, by simp [deliver, transmit, clientDecode], rfl, ?_⟩
    rw [specView_plain (col := .str xs) (by simp [BCol.cells, floatish, isFloat])]
    exact hrefl _ rfl
  | null n =>
    refine ⟨.null n, rfl, .null n, List.replicate n .null, by simp [deliver, transmit, clientDecode], rfl, ?_⟩
    rw [specView_plain (col := .null n) (by simp [BCol.cells, floatish, isFloat])]
    exact hrefl _ rfl
  | float xs =>
    have hfs : ∀ x ∈ xs, x < U64 := fun x hx => hfl (.float x) (by simp [BCol.cells, hx]) x rfl
    have hl : xs.length < U64 := by simpa [BCol.cells] using hlen
    obtain ⟨w, ys, e, d, z⟩ := floatColumn_deliver xs o hfs hl hm
    refine ⟨w, e, .float ys, ys.map .float, d, rfl, ?_⟩
    have : specView (.float xs) = xs.map .float := by
      cases hf : floatish (BCol.float xs).cells with
      | true => rw [specView_floatish hf]; exact map_nanNull_floats xs
      | false => rw [specView_plain hf]; rfl
    rw [this]; exact z
  | mixed xs =>
    simp only [BCol.cells] at hfl hlen hrefl transmit_int
    simp only [encodeColumn]
    by_cases h2 : typeSignature xs = 2
    · obtain ⟨ss, e, m⟩ := allStrs_ok (sig2_all_str h2)
      have nf : floatish xs = false := by
        cases hf : floatish xs with
        | false => rfl
        | true => have := (floatish_iff_sig xs).mp hf; omega
      refine ⟨.str ss, by simp [h2, e], .str ss, ss.map .str, by simp [deliver, transmit, clientDecode], rfl, ?_⟩
      rw [specView_plain (col := .mixed xs) nf, m]; exact hrefl _ rfl
    · by_cases h1 : typeSignature xs = 1
      · obtain ⟨is, e, m⟩ := allInts_ok (sig1_all_int h1)
        have nf : floatish xs = false := by
          cases hf : floatish xs with
          | false => rfl
          | true => have := (floatish_iff_sig xs).mp hf; omega
        refine ⟨.int is, by simp [h1, e], .int is, is.map .int, transmit_int is m.symm, rfl, ?_⟩
        rw [specView_plain (col := .mixed xs) nf, m]; exact hrefl _ rfl
      · by_cases h4 : typeSignature xs = 4
        · have nf : floatish xs = false := by
            cases hf : floatish xs with
            | false => rfl
            | true => have := (floatish_iff_sig xs).mp hf; omega
          refine ⟨.null xs.length, by simp [h4], .null xs.length, List.replicate xs.length .null,
            by simp [deliver, transmit, clientDecode], rfl, ?_⟩
          rw [specView_plain (col := .mixed xs) nf, all_null_replicate (sig4_all_null h4)]; exact hrefl _ rfl
        · by_cases h8 : typeSignature xs = 8 ∨ typeSignature xs = 12
          · obtain ⟨fs, e, m⟩ := floatsOrNull_ok (sig8_12_float_or_null h8)
            have hfs : ∀ x ∈ fs, x < U64 := by
              intro x hx
              have : EventBuffer.Val.float x ∈ xs.map nanNull := m ▸ List.mem_map.mpr ⟨x, hx, rfl⟩
              obtain ⟨v, hv, hvx⟩ := List.mem_map.mp this
              cases v with
              | float b => simp [nanNull] at hvx; subst hvx; exact hfl _ hv b rfl
              | null => simp [nanNull] at hvx; subst hvx; exact NULL_BITS_lt
              | int i => simp [nanNull] at hvx
              | str s => simp [nanNull] at hvx
            have hl : fs.length < U64 := by
              have : fs.length = xs.length := by
                have := congrArg List.length m
                simpa using this
              omega
            obtain ⟨w, ys, e2, d, z⟩ := floatColumn_deliver fs o hfs hl hm
            have hf : floatish xs = true := (floatish_iff_sig xs).mpr h8
            refine ⟨w, by simp [h2, h1, h4, h8, e, e2], .float ys, ys.map .float, d, rfl, ?_⟩
            rw [specView_floatish (col := .mixed xs) hf]
            show Zip2 _ _ (xs.map nanNull)
            rw [← m]; exact z
          · have nf : floatish xs = false := by
              cases hf : floatish xs with
              | false => rfl
              | true => exact absurd ((floatish_iff_sig xs).mp hf) h8
            refine ⟨.mixed xs, by simp [h2, h1, h4, h8], .mixed xs, xs, by simp [deliver, transmit, clientDecode], rfl, ?_⟩
            rw [specView_plain (col := .mixed xs) nf]
            exact hrefl _ rfl


end LM.Wire.Response
