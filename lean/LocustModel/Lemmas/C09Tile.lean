import LocustModel.Lemmas.C09Reach
/-
  C09 helper lemmas, part 7: the row ranges `[offset, offset+len)` of the partitions of a table tile `[0, n)` and `len` is the
  number of rows — kept by `Table::batch` (offset = `next_partition_offset`) and by compaction (offset of the first merged
  partition, a suffix is merged).  (DESIGN Appendix B, invariant clause 2.)
-/
namespace LM.Crash

def TiledFrom : Nat → List MPart → Prop
  | _, [] => True
  | off, p :: rest => p.pm.offset = off ∧ p.pm.len = p.rows.length ∧ TiledFrom (off + p.pm.len) rest

def total (l : List MPart) : Nat := (l.map (·.pm.len)).sum

/-- Per table, in list order: first partition at offset 0, each next one where the previous ends, lengths = row counts. -/
def Tiled (ps : List MPart) : Prop := ∀ t, TiledFrom 0 (partsOf ps t)

theorem tiledFrom_append : ∀ (a b : List MPart) (off : Nat),
    TiledFrom off (a ++ b) ↔ TiledFrom off a ∧ TiledFrom (off + total a) b
  | [], b, off => by simp [TiledFrom, total]
  | p :: a, b, off => by
      simp only [List.cons_append, TiledFrom, tiledFrom_append a b (off + p.pm.len), total, List.map_cons, List.sum_cons]
      constructor
      · rintro ⟨h1, h2, h3, h4⟩; exact ⟨⟨h1, h2, h3⟩, by simpa [total, Nat.add_assoc] using h4⟩
      · rintro ⟨⟨h1, h2, h3⟩, h4⟩; exact ⟨h1, h2, h3, by simpa [total, Nat.add_assoc] using h4⟩

theorem foldl_off_tiled : ∀ (l : List MPart) (off : Nat), TiledFrom off l →
    l.foldl (fun n p => max n (p.pm.offset + p.pm.len)) off = off + total l
  | [], off, _ => by simp [total]
  | p :: l, off, h => by
      obtain ⟨h1, _, h3⟩ := h
      simp only [List.foldl_cons, total, List.map_cons, List.sum_cons]
      have : max off (p.pm.offset + p.pm.len) = off + p.pm.len := by rw [h1]; omega
      rw [this, foldl_off_tiled l _ h3]; simp [total]; omega

theorem nextOff_tiled {ps : List MPart} (h : Tiled ps) (t : Tbl) : nextOff ps t = total (partsOf ps t) := by
  have := foldl_off_tiled (partsOf ps t) 0 (h t)
  simpa [nextOff] using this

/-- Of the partitions created by one `batch` round, at most one belongs to table `t`. -/
theorem partsOf_filterMap (f : Tbl → Option MPart) (hf : ∀ t p, f t = some p → p.pm.table = t) (t : Tbl) :
    ∀ (ts : List Tbl), ts.Nodup → partsOf (ts.filterMap f) t = if t ∈ ts then (f t).toList else []
  | [], _ => by simp [partsOf]
  | t0 :: ts, hn => by
      rw [List.nodup_cons] at hn
      have ih := partsOf_filterMap f hf t ts hn.2
      by_cases h0 : t = t0
      · subst h0
        have hrest : partsOf (ts.filterMap f) t = [] := by rw [ih]; simp [hn.1]
        cases hft : f t with
        | none => simp [hft, hrest]
        | some p =>
            have hp := hf t p hft
            simp only [List.filterMap_cons, hft, List.mem_cons, true_or, if_true, Option.toList]
            show partsOf (p :: ts.filterMap f) t = [p]
            have : partsOf (p :: ts.filterMap f) t = p :: partsOf (ts.filterMap f) t := by simp [partsOf, hp]
            rw [this, hrest]
      · have hne : ¬ t0 = t := fun h => h0 h.symm
        cases hft : f t0 with
        | none => simp [hft, ih, h0]
        | some p =>
            have hp := hf t0 p hft
            have : partsOf (p :: ts.filterMap f) t = partsOf (ts.filterMap f) t := by simp [partsOf, hp, hne]
            simp only [List.filterMap_cons, hft, this, ih, List.mem_cons, h0, false_or]

theorem batchParts_tiled {ps : List MPart} (h : Tiled ps) (pending : List Req) : Tiled (ps ++ batchParts ps pending) := by
  intro t
  rw [partsOf_append, tiledFrom_append]
  refine ⟨h t, ?_⟩
  simp only [batchParts]
  rw [partsOf_filterMap _ ?_ t (tablesOfReqs pending) (nodup_dedup _)]
  · split
    · split
      · simp [TiledFrom]
      · simp only [Option.toList, TiledFrom, and_true]
        rw [nextOff_tiled h t]; simp
    · simp [TiledFrom]
  · intro t' p hp
    split at hp
    · cases hp
    · cases hp; rfl

/-- The shape of a compaction's result inside its table. -/
theorem compactOne_shape {ps : List MPart} {t : Tbl} {ids : List Nat} {new : MPart} {ps' : List MPart}
    (h : compactOne ps t ids = some (new, ps')) :
    ∃ kept merged first, partsOf ps t = kept ++ first :: merged ∧ partsOf ps' t = kept ++ [new] ∧
      new.pm.offset = first.pm.offset ∧ new.pm.len = new.rows.length ∧
      new.rows = (first :: merged).flatMap (·.rows) := by
  have hs := compactOne_spec h
  simp only [compactOne] at h
  split at h
  · cases h
  · rename_i hc
    simp only [not_or, Decidable.not_not] at hc
    obtain ⟨hne, hsplit, _⟩ := hc
    simp only [Option.some.injEq, Prod.mk.injEq] at h
    obtain ⟨hnew, hps'⟩ := h
    cases hm : (partsOf ps t).filter (fun p => p.pm.id ∈ ids) with
    | nil => exact absurd hm hne
    | cons first merged =>
        refine ⟨(partsOf ps t).filter (fun p => ¬ p.pm.id ∈ ids), merged, first, ?_, ?_, ?_, ?_, ?_⟩
        · rw [← hm]; exact hsplit
        · rw [← hps', partsOf_append, partsOf_filter_same]
          have : partsOf [new] t = [new] := by simp [partsOf, hs.table]
          rw [hnew, this]
        · rw [← hnew]; simp [hm]
        · rw [← hnew]
        · rw [← hnew, hm]

theorem total_eq_rows : ∀ (l : List MPart) (off : Nat), TiledFrom off l → total l = (l.flatMap (·.rows)).length
  | [], _, _ => rfl
  | p :: l, off, ⟨_, h2, h3⟩ => by
      simp only [total, List.map_cons, List.sum_cons, List.flatMap_cons, List.length_append]
      have := total_eq_rows l _ h3
      simp only [total] at this
      rw [this, h2]

theorem compactOne_tiled {ps : List MPart} {t : Tbl} {ids : List Nat} {new : MPart} {ps' : List MPart}
    (h : compactOne ps t ids = some (new, ps')) (ht : Tiled ps) : Tiled ps' := by
  have hs := compactOne_spec h
  intro t'
  by_cases htt : t' = t
  · subst htt
    obtain ⟨kept, merged, first, h1, h2, h3, h4, _⟩ := compactOne_shape h
    have := ht t'
    rw [h1, tiledFrom_append] at this
    rw [h2, tiledFrom_append]
    refine ⟨this.1, ?_⟩
    simp only [TiledFrom, and_true]
    exact ⟨by rw [h3]; exact this.2.1, h4⟩
  · rw [hs.other t' htt]; exact ht t'

theorem compactAll_tiled : ∀ (comp : List (Tbl × List Nat)) {ps news olds ps'' : List MPart},
    compactAll ps comp = some (news, olds, ps'') → Tiled ps → Tiled ps''
  | [], ps, news, olds, ps'', h, ht => by
      simp only [compactAll, Option.some.injEq, Prod.mk.injEq] at h
      obtain ⟨_, _, rfl⟩ := h
      exact ht
  | (t, ids) :: rest, ps, news, olds, ps'', h, ht => by
      simp only [compactAll] at h
      split at h
      · cases h
      · rename_i new ps' h1
        split at h
        · cases h
        · rename_i news' olds' ps2 h2
          simp only [Option.some.injEq, Prod.mk.injEq] at h
          obtain ⟨_, _, rfl⟩ := h
          exact compactAll_tiled rest h2 (compactOne_tiled h1 ht)

/-- Every planned operation keeps the tiling. -/
theorem plan_tiled (m : Mem) (op : Op) (phs : List Phase) (m' : Mem) (new : List Req) (ht : Tiled m.parts)
    (hp : op.plan m = some (phs, m', new)) : Tiled m'.parts := by
  cases op with
  | ingest r =>
      obtain ⟨_, rfl, _⟩ := Op.plan_ingest hp
      exact ht
  | flush comp =>
      obtain ⟨hf, _⟩ := Op.plan_flush hp
      simp only [flushPlan] at hf
      split at hf
      · cases hf
      · rename_i news olds parts2 hca
        simp only [Option.some.injEq, Prod.mk.injEq] at hf
        obtain ⟨_, rfl⟩ := hf
        exact compactAll_tiled comp hca (batchParts_tiled ht m.pending)

theorem tiled_fresh : Tiled Mem.fresh.parts := fun t => by simp [Mem.fresh, partsOf, TiledFrom]

end LM.Crash
