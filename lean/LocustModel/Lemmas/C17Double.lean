import LocustModel.Wire.ResponseJson
/-
  Lemmas for C17 (JSON integers and a reader that only has doubles): `i as f64` (`natAsF64` / `i64AsF64` of
  `Wire/EventBuffer.lean`, round to nearest even) denotes the integer itself whenever |i| ≤ 2^53.
-/
namespace LM.Wire.Response
open LM LM.Wire.EventBuffer

def P52 : Nat := 4503599627370496          -- 2^52
def P53 : Nat := 9007199254740992          -- 2^53
def P63 : Nat := 9223372036854775808       -- 2^63

/-- The integer a double denotes, if it denotes one: sign bit, 11-bit exponent field, 52-bit fraction field;
    `(2^52 + frac) · 2^(exp - 1023) / 2^52` when that is integral (exponents 0 … 63), `±0` for the zero patterns. -/
def f64IntValue? (bits : Nat) : Option Int :=
  let sign := bits / P63
  let exp := (bits / P52) % 2048
  let frac := bits % P52
  let mag : Option Nat :=
    if exp = 0 ∧ frac = 0 then some 0
    else if 1023 ≤ exp ∧ exp ≤ 1086 then
      let v := (P52 + frac) * 2 ^ (exp - 1023)
      if v % P52 = 0 then some (v / P52) else none
    else none
  mag.map fun m => if sign = 1 then -(m : Int) else (m : Int)

theorem p52_eq : (2 : Nat) ^ 52 = P52 := by decide
theorem p53_eq : (2 : Nat) ^ 53 = P53 := by decide

/-- Shape of `natAsF64 n` for `0 < n ≤ 2^53`: exponent `e = ⌊log2 n⌋ ≤ 53`, fraction `m`, value exactly `n`. -/
theorem natAsF64_shape (n : Nat) (h0 : 0 < n) (h : n ≤ P53) :
    ∃ e m, e ≤ 53 ∧ m < P52 ∧ natAsF64 n = (e + 1023) * P52 + m ∧ (P52 + m) * 2 ^ e = n * P52 := by
  have hn : n ≠ 0 := by omega
  have hlo : 2 ^ n.log2 ≤ n := Nat.log2_self_le hn
  have hhi : n < 2 ^ (n.log2 + 1) := Nat.lt_log2_self
  by_cases he : n.log2 ≤ 52
  · -- exact: the mantissa is n shifted left
    have key : 2 ^ n.log2 * 2 ^ (52 - n.log2) = P52 := by
      rw [← Nat.pow_add, ← p52_eq]; congr 1; omega
    have key2 : 2 ^ (n.log2 + 1) * 2 ^ (52 - n.log2) = P53 := by
      rw [← Nat.pow_add, ← p53_eq]; congr 1; omega
    have hA : P52 ≤ n * 2 ^ (52 - n.log2) := by
      rw [← key]; exact Nat.mul_le_mul_right _ hlo
    have hB : n * 2 ^ (52 - n.log2) < P53 := by
      rw [← key2]; exact Nat.mul_lt_mul_of_pos_right hhi (Nat.pow_pos (by decide))
    refine ⟨n.log2, n * 2 ^ (52 - n.log2) - P52, by omega, by unfold P52 P53 at *; omega, ?_, ?_⟩
    · simp only [natAsF64, hn, if_false, he, if_true, p52_eq]
    · have : P52 + (n * 2 ^ (52 - n.log2) - P52) = n * 2 ^ (52 - n.log2) := by omega
      rw [this, Nat.mul_assoc, Nat.mul_comm (2 ^ (52 - n.log2)), key]
  · -- n.log2 ≥ 53 and n ≤ 2^53: n = 2^53
    have h53 : P53 ≤ n := by
      have : 2 ^ 53 ≤ 2 ^ n.log2 := Nat.pow_le_pow_right (by decide) (by omega)
      rw [p53_eq] at this; omega
    have : n = P53 := by omega
    subst this
    exact ⟨53, 0, by omega, by decide, by decide, by decide⟩

theorem f64IntValue_natAsF64 (n : Nat) (h : n ≤ P53) : f64IntValue? (natAsF64 n) = some (n : Int) := by
  by_cases h0 : n = 0
  · subst h0; decide
  · obtain ⟨e, m, he, hm, hb, hv⟩ := natAsF64_shape n (by omega) h
    have hdiv : natAsF64 n / P52 = e + 1023 := by rw [hb]; unfold P52 at *; omega
    have hmod : natAsF64 n % P52 = m := by rw [hb]; unfold P52 at *; omega
    have hsign : natAsF64 n / P63 = 0 := by rw [hb]; unfold P52 P63 at *; omega
    simp only [f64IntValue?, hdiv, hmod, hsign]
    have hexp : (e + 1023) % 2048 = e + 1023 := by omega
    rw [hexp]
    have h1 : ¬ (e + 1023 = 0 ∧ m = 0) := by omega
    have h2 : 1023 ≤ e + 1023 ∧ e + 1023 ≤ 1086 := by omega
    have h3 : e + 1023 - 1023 = e := by omega
    simp only [h1, if_false, h2, and_self, if_true, h3, hv, Nat.mul_mod_left]
    have hp : 0 < P52 := by decide
    simp [Nat.mul_div_cancel _ hp]

/-- A double-only reader gets every integer of magnitude at most 2^53 back exactly. -/
theorem f64IntValue_i64AsF64 (i : Int) (h : i.natAbs ≤ P53) : f64IntValue? (i64AsF64 i) = some i := by
  by_cases hneg : i < 0
  · have hpos : 0 < i.natAbs := by omega
    obtain ⟨e, m, he, hm, hb, hv⟩ := natAsF64_shape i.natAbs hpos h
    have hx := f64IntValue_natAsF64 i.natAbs h
    -- same fields, sign bit set
    have e63 : (2 : Nat) ^ 63 = P63 := by decide
    have hbits : i64AsF64 i = P63 + natAsF64 i.natAbs := by simp [i64AsF64, hneg, e63]
    have hdiv : (P63 + natAsF64 i.natAbs) / P52 = 2048 + (e + 1023) := by rw [hb]; unfold P52 P63 at *; omega
    have hmod : (P63 + natAsF64 i.natAbs) % P52 = m := by rw [hb]; unfold P52 P63 at *; omega
    have hsign : (P63 + natAsF64 i.natAbs) / P63 = 1 := by rw [hb]; unfold P52 P63 at *; omega
    rw [hbits]
    simp only [f64IntValue?, hdiv, hmod, hsign]
    have hexp : (2048 + (e + 1023)) % 2048 = e + 1023 := by omega
    rw [hexp]
    have h1 : ¬ (e + 1023 = 0 ∧ m = 0) := by omega
    have h2 : 1023 ≤ e + 1023 ∧ e + 1023 ≤ 1086 := by omega
    have h3 : e + 1023 - 1023 = e := by omega
    simp only [h1, if_false, h2, and_self, if_true, h3, hv, Nat.mul_mod_left]
    have hp : 0 < P52 := by decide
    simp [Nat.mul_div_cancel _ hp]
    omega
  · have hbits : i64AsF64 i = natAsF64 i.natAbs := by simp [i64AsF64, hneg]
    rw [hbits, f64IntValue_natAsF64 i.natAbs h]
    congr 1; omega

end LM.Wire.Response
