import LocustModel.Store.CrashSpec
/-
  C09 helper lemmas, part 1: primitive effects are local to the names of one file; traces of pools of tasks.
-/
namespace LM.Crash

/-! ### paths -/

theorem finP_ne_tmpP (a b : Base) : finP a ≠ tmpP b := by simp [finP, tmpP]
theorem tmpP_ne_finP (a b : Base) : tmpP a ≠ finP b := by simp [finP, tmpP]
theorem finP_inj {a b : Base} : finP a = finP b ↔ a = b := by simp [finP]
theorem tmpP_inj {a b : Base} : tmpP a = tmpP b ↔ a = b := by simp [tmpP]

@[simp] theorem FS.set_same (fs : FS) (p : Path) (v : Option File) : fs.set p v p = v := by simp [FS.set]
theorem FS.set_other (fs : FS) (p q : Path) (v : Option File) (h : q ≠ p) : fs.set p v q = fs q := by simp [FS.set, h]

/-! ### one effect -/

/-- Effects that never change a final name. -/
def Eff.soft : Eff → Bool
  | .mkdir _ | .sync _ | .rmBegin _ | .create _ | .write _ _ => true
  | _ => false

theorem applyEff_fin_soft (fs : FS) (e : Eff) (b : Base) (h : e.soft = true) : applyEff fs e (finP b) = fs (finP b) := by
  cases e <;> simp_all [Eff.soft, applyEff, FS.set, finP, tmpP]

/-- An effect changes only names of its own file. -/
theorem applyEff_other (fs : FS) (e : Eff) (p : Path) (h : e.base ≠ p.base) : applyEff fs e p = fs p := by
  cases e with
  | mkdir b => rfl
  | sync b => rfl
  | rmBegin q => rfl
  | create b =>
      have : p ≠ tmpP b := by intro hp; subst hp; exact h rfl
      simp [applyEff, FS.set, this]
  | write b f =>
      have : p ≠ tmpP b := by intro hp; subst hp; exact h rfl
      simp [applyEff, FS.set, this]
  | rename b =>
      have h1 : p ≠ tmpP b := by intro hp; subst hp; exact h rfl
      have h2 : p ≠ finP b := by intro hp; subst hp; exact h rfl
      simp only [applyEff]
      cases fs (tmpP b) <;> simp [FS.set, h1, h2]
  | remove q =>
      have : p ≠ q := by intro hp; subst hp; exact h rfl
      simp [applyEff, FS.set, this]

theorem applyEff_fin_other (fs : FS) (e : Eff) (b : Base) (h : e.base ≠ b) : applyEff fs e (finP b) = fs (finP b) :=
  applyEff_other fs e (finP b) (by simpa [finP] using h)

/-- Two file systems that agree on the names of file `b`. -/
def Agree (b : Base) (fs1 fs2 : FS) : Prop := ∀ q : Path, q.base = b → fs1 q = fs2 q

theorem Agree.refl (b : Base) (fs : FS) : Agree b fs fs := fun _ _ => rfl

theorem applyEff_agree {b : Base} {fs1 fs2 : FS} (h : Agree b fs1 fs2) (e : Eff) :
    Agree b (applyEff fs1 e) (applyEff fs2 e) := by
  intro q hq
  by_cases he : e.base = q.base
  · cases e with
    | mkdir b' => exact h q hq
    | sync b' => exact h q hq
    | rmBegin p => exact h q hq
    | create b' => simp only [applyEff, FS.set]; split <;> simp [h q hq]
    | write b' f => simp only [applyEff, FS.set]; split <;> simp [h q hq]
    | remove p => simp only [applyEff, FS.set]; split <;> simp [h q hq]
    | rename b' =>
        have hb : b' = b := by simpa [Eff.base, hq] using he
        have ht : fs1 (tmpP b') = fs2 (tmpP b') := h _ (by simp [tmpP, hb])
        simp only [applyEff, ht]
        cases fs2 (tmpP b') with
        | none => exact h q hq
        | some f => simp only [FS.set]; split <;> (try rfl); split <;> (try rfl); exact h q hq
  · rw [applyEff_other fs1 e q he, applyEff_other fs2 e q he]; exact h q hq

theorem applyEff_agree_other {b : Base} (fs : FS) (e : Eff) (h : e.base ≠ b) : Agree b (applyEff fs e) fs := by
  intro q hq; exact applyEff_other fs e q (by rw [hq]; exact h)

/-! ### sequences of effects -/

@[simp] theorem applyEffs_nil (fs : FS) : applyEffs fs [] = fs := rfl
@[simp] theorem applyEffs_cons (fs : FS) (e : Eff) (es : List Eff) : applyEffs fs (e :: es) = applyEffs (applyEff fs e) es := rfl
theorem applyEffs_append (fs : FS) (a b : List Eff) : applyEffs fs (a ++ b) = applyEffs (applyEffs fs a) b := by
  simp [applyEffs, List.foldl_append]

/-- What a trace does to the names of file `b` is what its effects on `b` do. -/
theorem applyEffs_proj (b : Base) : ∀ (es : List Eff) (fs1 fs2 : FS), Agree b fs1 fs2 →
    Agree b (applyEffs fs1 es) (applyEffs fs2 (es.filter (fun e => decide (e.base = b))))
  | [], _, _, h => h
  | e :: es, fs1, fs2, h => by
      by_cases he : e.base = b
      · simp only [applyEffs_cons, List.filter_cons, he, decide_true, if_true]
        exact applyEffs_proj b es _ _ (applyEff_agree h e)
      · simp only [applyEffs_cons, List.filter_cons, he, decide_false]
        refine applyEffs_proj b es _ _ ?_
        intro q hq
        rw [applyEff_agree_other fs1 e he q hq]; exact h q hq

theorem applyEffs_fin_proj (fs : FS) (es : List Eff) (b : Base) :
    applyEffs fs es (finP b) = applyEffs fs (es.filter (fun e => decide (e.base = b))) (finP b) :=
  applyEffs_proj b es fs fs (Agree.refl b fs) (finP b) rfl

/-- An invariant kept by every effect of a trace holds after every prefix of it. -/
theorem applyEffs_inv {I : FS → Prop} {P : Eff → Prop} (hstep : ∀ fs e, I fs → P e → I (applyEff fs e)) :
    ∀ (es : List Eff) (fs : FS), I fs → (∀ e ∈ es, P e) → I (applyEffs fs es)
  | [], _, h, _ => h
  | e :: es, fs, h, hp => by
      simp only [applyEffs_cons]
      exact applyEffs_inv hstep es _ (hstep fs e h (hp e (by simp))) (fun e' he' => hp e' (by simp [he']))

theorem mem_of_prefix {α : Type} {pre tr : List α} (h : pre <+: tr) {x : α} (hx : x ∈ pre) : x ∈ tr := by
  obtain ⟨s, rfl⟩ := h; simp [hx]

theorem prefix_append_cases {α : Type} : ∀ {pre a b : List α}, pre <+: a ++ b → pre <+: a ∨ ∃ pre', pre = a ++ pre' ∧ pre' <+: b
  | pre, [], b, h => Or.inr ⟨pre, by simp, by simpa using h⟩
  | [], x :: a, b, _ => Or.inl (List.nil_prefix)
  | y :: pre, x :: a, b, h => by
      have h' : y :: pre <+: x :: (a ++ b) := by simpa using h
      rw [List.prefix_cons_iff] at h'
      rcases h' with h' | ⟨t, ht, htt⟩
      · cases h'
      · cases ht
        rcases prefix_append_cases htt with h1 | ⟨pre', h1, h2⟩
        · left; exact List.prefix_cons_inj y |>.mpr h1
        · right; exact ⟨pre', by simp [h1], h2⟩

/-! ### the effects of one store / one delete -/

theorem storeEffs_base (b : Base) (f : File) : ∀ e ∈ storeEffs b f, e.base = b := by
  intro e he; simp [storeEffs] at he; rcases he with h | h | h | h | h <;> subst h <;> rfl

theorem removeEffs_base (p : Path) : ∀ e ∈ removeEffs p, e.base = p.base := by
  intro e he; simp [removeEffs] at he; rcases he with h | h <;> subst h <;> rfl

/-- A completed store leaves the data under the final name (and no temp file). -/
theorem applyEffs_store_fin (fs : FS) (b : Base) (f : File) : applyEffs fs (storeEffs b f) (finP b) = some f := by
  simp [storeEffs, applyEff, FS.set, finP, tmpP]

theorem applyEffs_store_tmp (fs : FS) (b : Base) (f : File) : applyEffs fs (storeEffs b f) (tmpP b) = none := by
  simp [storeEffs, applyEff, FS.set, finP, tmpP]

/-- Just before the rename the temp file holds the complete data. -/
theorem applyEffs_store4_tmp (fs : FS) (b : Base) (f : File) :
    applyEffs fs [.mkdir b, .create b, .write b f, .sync b] (tmpP b) = some f := by
  simp [applyEff, FS.set, tmpP]

/-- The proper prefixes of a store consist of soft effects only. -/
theorem store_prefix_cases {b : Base} {f : File} {pre : List Eff} (h : pre <+: storeEffs b f) :
    pre = storeEffs b f ∨ (∀ e ∈ pre, e.soft = true) := by
  simp only [storeEffs] at h ⊢
  rw [List.prefix_cons_iff] at h
  rcases h with rfl | ⟨t1, rfl, h⟩
  · right; simp
  rw [List.prefix_cons_iff] at h
  rcases h with rfl | ⟨t2, rfl, h⟩
  · right; simp [Eff.soft]
  rw [List.prefix_cons_iff] at h
  rcases h with rfl | ⟨t3, rfl, h⟩
  · right; simp [Eff.soft]
  rw [List.prefix_cons_iff] at h
  rcases h with rfl | ⟨t4, rfl, h⟩
  · right; simp [Eff.soft]
  rw [List.prefix_cons_iff] at h
  rcases h with rfl | ⟨t5, rfl, h⟩
  · right; simp [Eff.soft]
  · left; simp at h; simp [h]

/-! ### shuffles and pools -/

theorem Shuffle.nil_right {α : Type} : ∀ {l tr : List α}, Shuffle l [] tr → tr = l := by
  intro l tr h
  generalize hr : ([] : List α) = r at h
  induction h with
  | nil => rfl
  | left _ ih => rw [ih hr]
  | right _ _ => cases hr

theorem Shuffle.nil_left {α : Type} : ∀ {l tr : List α}, Shuffle [] l tr → tr = l := by
  intro l tr h
  generalize hr : ([] : List α) = r at h
  induction h with
  | nil => rfl
  | left _ _ => cases hr
  | right _ ih => rw [ih hr]

theorem Shuffle.mem {α : Type} {l1 l2 tr : List α} (h : Shuffle l1 l2 tr) : ∀ x, x ∈ tr ↔ x ∈ l1 ∨ x ∈ l2 := by
  induction h with
  | nil => simp
  | left _ ih => intro x; simp [ih x, or_assoc]
  | right _ ih => intro x; simp [ih x]; constructor <;> (intro h; rcases h with h | h | h <;> simp [h])

theorem Shuffle.filter {α : Type} (q : α → Bool) {l1 l2 tr : List α} (h : Shuffle l1 l2 tr) :
    Shuffle (l1.filter q) (l2.filter q) (tr.filter q) := by
  induction h with
  | nil => exact .nil
  | @left a l1 l2 tr _ ih =>
      by_cases ha : q a = true
      · simp only [List.filter_cons, ha, if_true]; exact .left ih
      · simp only [List.filter_cons, ha]; exact ih
  | @right a l1 l2 tr _ ih =>
      by_cases ha : q a = true
      · simp only [List.filter_cons, ha, if_true]; exact .right ih
      · simp only [List.filter_cons, ha]; exact ih

/-- The sequential schedule is an interleaving. -/
theorem Shuffle.append {α : Type} : ∀ (l1 l2 : List α), Shuffle l1 l2 (l1 ++ l2)
  | [], [] => .nil
  | [], b :: l2 => .right (Shuffle.append [] l2)
  | a :: l1, l2 => .left (Shuffle.append l1 l2)

theorem PoolTrace.single {t : Task} {tr : List Eff} (h : PoolTrace [t] tr) : tr = t.effs := by
  obtain ⟨tr', h1, h2⟩ := h
  simp only [PoolTrace] at h1
  subst h1
  exact h2.nil_right

theorem PoolTrace.mem : ∀ {tasks : List Task} {tr : List Eff}, PoolTrace tasks tr → ∀ e ∈ tr, ∃ t ∈ tasks, e ∈ t.effs
  | [], tr, h, e, he => by simp only [PoolTrace] at h; subst h; cases he
  | t :: ts, tr, ⟨tr', h1, h2⟩, e, he => by
      rcases (h2.mem e).1 he with h | h
      · exact ⟨t, by simp, h⟩
      · obtain ⟨t', ht', he'⟩ := PoolTrace.mem h1 e h
        exact ⟨t', by simp [ht'], he'⟩

theorem PoolTrace.mem_of_task : ∀ {tasks : List Task} {tr : List Eff}, PoolTrace tasks tr →
    ∀ t ∈ tasks, ∀ e ∈ t.effs, e ∈ tr
  | [], _, _, t, ht, _, _ => by cases ht
  | t0 :: ts, tr, ⟨tr', h1, h2⟩, t, ht, e, he => by
      rcases List.mem_cons.1 ht with rfl | ht
      · exact (h2.mem e).2 (Or.inl he)
      · exact (h2.mem e).2 (Or.inr (PoolTrace.mem_of_task h1 t ht e he))

/-- Running the tasks one after the other is a pool trace. -/
theorem PoolTrace.seq : ∀ (tasks : List Task), PoolTrace tasks (tasks.flatMap (·.effs))
  | [] => rfl
  | t :: ts => ⟨ts.flatMap (·.effs), PoolTrace.seq ts, by simpa using Shuffle.append t.effs (ts.flatMap (·.effs))⟩

/-- Running the phases, and the tasks of each, one after the other is a trace of the phases. -/
theorem PhasesTrace.seq : ∀ (phs : List Phase), PhasesTrace phs (phs.flatMap (fun ph => ph.tasks.flatMap (·.effs)))
  | [] => rfl
  | ph :: rest => ⟨_, _, PoolTrace.seq ph.tasks, PhasesTrace.seq rest, by simp⟩

/-- In a pool whose tasks work on different files, the effects on the file of task `t` are exactly `t`'s, in order. -/
theorem PoolTrace.filter_base : ∀ {tasks : List Task} {tr : List Eff}, PoolTrace tasks tr →
    (∀ t ∈ tasks, ∀ e ∈ t.effs, e.base = t.base) → (tasks.map (·.base)).Nodup →
    ∀ t ∈ tasks, tr.filter (fun e => decide (e.base = t.base)) = t.effs
  | [], _, _, _, _, t, ht => by cases ht
  | t0 :: ts, tr, ⟨tr', h1, h2⟩, hb, hn, t, ht => by
      have hsh := h2.filter (fun e => decide (e.base = t.base))
      simp only [List.map_cons, List.nodup_cons] at hn
      rcases List.mem_cons.1 ht with rfl | ht'
      · -- effects of the other tasks are on other files
        have hrest : tr'.filter (fun e => decide (e.base = t.base)) = [] := by
          rw [List.filter_eq_nil_iff]
          intro e he
          obtain ⟨t', ht', he'⟩ := PoolTrace.mem h1 e he
          have : e.base = t'.base := hb t' (by simp [ht']) e he'
          simp only [decide_eq_true_eq, this]
          intro hEq
          exact hn.1 (hEq ▸ List.mem_map_of_mem ht')
        have hme : t.effs.filter (fun e => decide (e.base = t.base)) = t.effs := by
          rw [List.filter_eq_self]
          intro e he; simp [hb t (by simp) e he]
        rw [hrest, hme] at hsh
        exact hsh.nil_right
      · have hme : t0.effs.filter (fun e => decide (e.base = t.base)) = [] := by
          rw [List.filter_eq_nil_iff]
          intro e he
          simp only [decide_eq_true_eq, hb t0 (by simp) e he]
          intro hEq
          exact hn.1 (hEq ▸ List.mem_map_of_mem ht')
        rw [hme] at hsh
        rw [hsh.nil_left]
        exact PoolTrace.filter_base h1 (fun t' ht' => hb t' (by simp [ht'])) hn.2 t ht'

/-- After a pool of stores on different files has completed, every file holds its data under its final name. -/
theorem PoolTrace.store_complete {items : List (Base × File)} {tr : List Eff} (fs : FS)
    (h : PoolTrace (items.map fun x => storeTask x.1 x.2) tr) (hn : (items.map (·.1)).Nodup) :
    ∀ x ∈ items, applyEffs fs tr (finP x.1) = some x.2 := by
  intro x hx
  have hb : ∀ t ∈ items.map (fun x => storeTask x.1 x.2), ∀ e ∈ t.effs, e.base = t.base := by
    intro t ht e he
    obtain ⟨y, _, rfl⟩ := List.mem_map.1 ht
    exact storeEffs_base y.1 y.2 e he
  have hn' : ((items.map fun x => storeTask x.1 x.2).map (·.base)).Nodup := by
    simpa [List.map_map, Function.comp_def, storeTask] using hn
  have := PoolTrace.filter_base h hb hn' (storeTask x.1 x.2) (List.mem_map_of_mem hx)
  rw [applyEffs_fin_proj fs tr x.1]
  simp only [storeTask] at this
  exact (congrArg (fun l => applyEffs fs l (finP x.1)) this).trans (applyEffs_store_fin fs x.1 x.2)

end LM.Crash
