import LocustModel.Wire.ResponseSpec
/-
  Lemmas for C17 (JSON responses and response maps): reading back a rendered cell / column, and the
  `HashMap` fold (`insert` per column, later entries win) as a lookup table.
-/
namespace LM.Wire.Response
open LM

/-! ### cells -/

theorem readScalar_jsonVal (v : Val) : readScalar (jsonVal v) = finiteOrNull v := by
  cases v with
  | null => rfl
  | int i => rfl
  | str s => rfl
  | float b =>
    simp only [jsonVal, jsonF64, finiteOrNull]
    split <;> rfl

theorem readScalar_jsonF64 (b : Nat) : readScalar (jsonF64 b) = finiteOrNull (.float b) := readScalar_jsonVal (.float b)

theorem readCol_jsonCol (c : BCol) : readCol (jsonCol c) = c.cells.map finiteOrNull := by
  cases c with
  | int xs => simp [jsonCol, readCol, BCol.cells, List.map_map, Function.comp_def, readScalar, finiteOrNull]
  | float xs =>
    simp only [jsonCol, readCol, BCol.cells, List.map_map]
    exact List.map_congr_left (fun b _ => readScalar_jsonF64 b)
  | str xs => simp [jsonCol, readCol, BCol.cells, List.map_map, Function.comp_def, readScalar, finiteOrNull]
  | null n => simp [jsonCol, readCol, BCol.cells, finiteOrNull]
  | mixed xs =>
    simp only [jsonCol, readCol, BCol.cells, List.map_map]
    exact List.map_congr_left (fun v _ => readScalar_jsonVal v)

theorem finiteOrNull_id_of_finite {v : Val} (h : ∀ b, v = .float b → isFinite b = true) : finiteOrNull v = v := by
  cases v with
  | float b => simp [finiteOrNull, h b rfl]
  | null => rfl
  | int i => rfl
  | str s => rfl

/-! ### response maps -/

theorem lookup_insertKV_same (k : String) (v : α) (m : List (String × α)) : lookupKV k (insertKV k v m) = some v := by
  induction m with
  | nil => simp [insertKV, lookupKV]
  | cons kv rest ih =>
    obtain ⟨k', v'⟩ := kv
    by_cases h : k' = k
    · simp [insertKV, h, lookupKV]
    · simp [insertKV, h, lookupKV, ih]

theorem lookup_insertKV_other {k k' : String} (h : k' ≠ k) (v : α) (m : List (String × α)) :
    lookupKV k' (insertKV k v m) = lookupKV k' m := by
  induction m with
  | nil => simp [insertKV, lookupKV, Ne.symm h]
  | cons kv rest ih =>
    obtain ⟨k₂, v₂⟩ := kv
    by_cases h2 : k₂ = k
    · subst h2
      simp [insertKV, lookupKV, Ne.symm h]
    · by_cases h3 : k₂ = k'
      · subst h3
        simp [insertKV, h2, lookupKV]
      · simp [insertKV, h2, lookupKV, h3, ih]

theorem mem_insertKV {k n : String} {v x : α} {m : List (String × α)} (h : (n, x) ∈ insertKV k v m) :
    (n, x) = (k, v) ∨ (n, x) ∈ m := by
  induction m with
  | nil => simp [insertKV] at h; exact Or.inl (by simp [h])
  | cons kv rest ih =>
    obtain ⟨k₂, v₂⟩ := kv
    by_cases h2 : k₂ = k
    · simp only [insertKV, h2, if_true, List.mem_cons] at h
      rcases h with h | h
      · exact Or.inl h
      · exact Or.inr (List.mem_cons_of_mem _ h)
    · simp only [insertKV, h2, if_false, List.mem_cons] at h
      rcases h with h | h
      · exact Or.inr (by simp [h])
      · rcases ih h with h | h
        · exact Or.inl h
        · exact Or.inr (List.mem_cons_of_mem _ h)

/-- The `HashMap` fold with a per-value transformation `f`, from an initial map `m`. -/
def foldIns (f : β → γ) (m : List (String × γ)) (kvs : List (String × β)) : List (String × γ) :=
  kvs.foldl (fun m kv => insertKV kv.1 (f kv.2) m) m

theorem foldIns_cons (f : β → γ) (m : List (String × γ)) (kv : String × β) (rest : List (String × β)) :
    foldIns f m (kv :: rest) = foldIns f (insertKV kv.1 (f kv.2) m) rest := rfl

theorem lookup_foldIns_notin (f : β → γ) (n : String) (kvs : List (String × β)) (m : List (String × γ))
    (h : ∀ kv ∈ kvs, kv.1 ≠ n) : lookupKV n (foldIns f m kvs) = lookupKV n m := by
  induction kvs generalizing m with
  | nil => rfl
  | cons kv rest ih =>
    rw [foldIns_cons, ih _ (fun kv' hkv => h kv' (List.mem_cons_of_mem _ hkv))]
    exact lookup_insertKV_other (Ne.symm (h kv (List.mem_cons_self))) _ _

theorem lookup_foldIns_mem (f : β → γ) (n : String) (c : β) (kvs : List (String × β)) (m : List (String × γ))
    (hc : ConsistentNames kvs) (h : (n, c) ∈ kvs) : lookupKV n (foldIns f m kvs) = some (f c) := by
  induction kvs generalizing m with
  | nil => cases h
  | cons kv rest ih =>
    rw [foldIns_cons]
    have hcr : ConsistentNames rest := fun n c₁ c₂ h1 h2 => hc n c₁ c₂ (List.mem_cons_of_mem _ h1) (List.mem_cons_of_mem _ h2)
    by_cases hex : ∃ c', (n, c') ∈ rest
    · obtain ⟨c', hc'⟩ := hex
      have : c' = c := hc n c' c (List.mem_cons_of_mem _ hc') h
      exact ih _ hcr (this ▸ hc')
    · have hhead : kv = (n, c) := by
        rcases List.mem_cons.mp h with h | h
        · exact h.symm
        · exact absurd ⟨c, h⟩ hex
      subst hhead
      rw [lookup_foldIns_notin f n rest _ (fun kv' hkv hn => hex ⟨kv'.2, by rw [← hn]; exact hkv⟩)]
      exact lookup_insertKV_same _ _ _

theorem mem_foldIns (f : β → γ) {n : String} {x : γ} (kvs : List (String × β)) (m : List (String × γ))
    (h : (n, x) ∈ foldIns f m kvs) : (n, x) ∈ m ∨ ∃ c, (n, c) ∈ kvs ∧ x = f c := by
  induction kvs generalizing m with
  | nil => exact Or.inl h
  | cons kv rest ih =>
    rw [foldIns_cons] at h
    rcases ih _ h with h | ⟨c, h, hx⟩
    · rcases mem_insertKV h with h | h
      · exact Or.inr ⟨kv.2, by
          have h1 : n = kv.1 := congrArg Prod.fst h
          rw [h1]; exact List.mem_cons_self, congrArg Prod.snd h⟩
      · exact Or.inl h
    · exact Or.inr ⟨c, List.mem_cons_of_mem _ h, hx⟩

theorem jsonColsMap_eq (columns : List (String × BCol)) : jsonColsMap columns = foldIns jsonCol [] columns := rfl

theorem collectMap_eq (kvs : List (String × α)) : collectMap kvs = foldIns id [] kvs := rfl

/-- `query_output_to_json_cols` agrees with the embedded result whenever equal names carry equal columns. -/
theorem jsonCols_agree (o : QOut) (hc : ConsistentNames o.columns) :
    JsonColsAgree o (queryOutputToJsonCols o.colnames o.columns) := by
  refine ⟨rfl, ?_, ?_⟩
  · intro n c hm
    exact ⟨jsonCol c, by rw [queryOutputToJsonCols, jsonColsMap_eq]; exact lookup_foldIns_mem jsonCol n c _ [] hc hm,
      readCol_jsonCol c⟩
  · intro n jc hm
    rw [queryOutputToJsonCols, jsonColsMap_eq] at hm
    rcases mem_foldIns jsonCol _ [] hm with h | ⟨c, h, _⟩
    · cases h
    · exact ⟨c, h⟩

theorem jsonRows_agree (o : QOut) : JsonRowsAgree o (queryRowsJson o.colnames o.rows) := by
  refine ⟨rfl, ?_⟩
  simp only [queryRowsJson, List.map_map]
  apply List.map_congr_left
  intro r _
  simp only [Function.comp_def, List.map_map]
  exact List.map_congr_left (fun v _ => readScalar_jsonVal v)

theorem consistent_of_nodup {kvs : List (String × α)} (h : (kvs.map (·.1)).Nodup) : ConsistentNames kvs := by
  induction kvs with
  | nil => intro n c₁ c₂ h1; cases h1
  | cons kv rest ih =>
    simp only [List.map_cons, List.nodup_cons] at h
    obtain ⟨hn, hr⟩ := h
    intro n c₁ c₂ h1 h2
    rcases List.mem_cons.mp h1 with e1 | m1 <;> rcases List.mem_cons.mp h2 with e2 | m2
    · have := e1.trans e2.symm
      exact (Prod.mk.inj this).2
    · exact absurd (List.mem_map.mpr ⟨(n, c₂), m2, by rw [← e1]⟩) hn
    · exact absurd (List.mem_map.mpr ⟨(n, c₁), m1, by rw [← e2]⟩) hn
    · exact ih hr n c₁ c₂ m1 m2

end LM.Wire.Response
