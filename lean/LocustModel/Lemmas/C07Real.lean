import LocustModel.Lemmas.C07Builders
import LocustModel.Lemmas.C07Env
/-
  C07 ∘ C01: an `Env` whose builder IS C01's model of the real column builders
  (`ColBuf.applyAll` → `ColBuf.finalize` → `compress`) wherever C01's refinement theorem applies, satisfies `BuildOk`
  — so `C07_history` holds for it without a builder hypothesis.
-/
namespace LM.C07M
open LM LM.Codec LM.D2 LM.Rebuild

/-- the call ingestion issues on the `ColumnBuffer` for one cell (C01 covers every other chunking as well) -/
def opOf : Cell → Codec.Op
  | .null => .nulls 1
  | .int i => .ints [i]
  | .float f => .floats [f]
  | .str s => .strs [s]

def opsOf (cs : List Cell) : List Codec.Op := cs.map opOf

def hasValue (cs : List Cell) : Bool := cs.any (· != .null)

/-- `c` is C01's builder applied to the cells `cs` (section 0 compressed iff `use` and the column is not all-NULL),
    `v` what a query reads from it -/
def RealImg (cv : Conv) (cp : Compressor) (use : Bool) (cs : List Cell) (c : Col) (v : SVal) : Prop :=
  ∃ cb q, ColBuf.applyAll cv {} (opsOf cs) = .ok cb ∧ cb.finalize cv = .ok q ∧
    c.toQ = compress cp (use && hasValue cs) q ∧ Img cp.dec c v ∧ cellsOf v = cs ∧
    (hasValue cs = false → valKind v = none)

open Classical in
/-- C01's builder where it is defined (`RealImg`), the small builder of `C07Env` elsewhere (out-of-domain cells:
    integers outside i64, strings of 2^24 bytes or more, zero rows) -/
noncomputable def realBuild (cv : Conv) (cp : Compressor) (use : Bool) (cs : List Cell) : Col :=
  if h : ∃ c v, RealImg cv cp use cs c v then Classical.choose h else demoBuild cs

noncomputable def realEnv (cv : Conv) (cp : Compressor) (use : Bool) : Env :=
  { dec := cp.dec, build := realBuild cv cp use }

/-! ### kinds -/

theorem img_valKind {dec : Section → Section} {c : Col} {v : SVal} (h : Img dec c v) :
    valKind v = none ∨ valKind v = some .int ∨ valKind v = some .float ∨ valKind v = some .str := by
  cases h with
  | plain h => cases h <;> simp [valKind]
  | lz4 h t ht n p tag hdec => cases h <;> simp [valKind]
  | pco h t ht n fp p tag hdec => cases h <;> simp [valKind]

theorem mem_maskFrom {bm : List Nat} {x : Cell} (cs : List Cell) : ∀ (i : Nat), x ∈ maskFrom bm i cs → x = .null ∨ x ∈ cs := by
  induction cs with
  | nil => intro i h; simp [maskFrom] at h
  | cons c cs ih =>
    intro i h
    simp only [maskFrom, List.mem_cons] at h
    cases h with
    | inl h => split at h <;> simp [h]
    | inr h => cases ih (i + 1) h with
      | inl h' => exact Or.inl h'
      | inr h' => exact Or.inr (by simp [h'])

theorem hasValue_mem {cs : List Cell} (h : hasValue cs = true) : ∃ c ∈ cs, c ≠ .null := by
  simp only [hasValue, List.any_eq_true] at h
  obtain ⟨c, hc, hne⟩ := h
  exact ⟨c, hc, by simpa using hne⟩

theorem valKind_of_cells {dec : Section → Section} {c : Col} {v : SVal} {k : Kind} {cs : List Cell}
    (himg : Img dec c v) (hc : cellsOf v = cs) (hu : Uniform k cs) (hv : hasValue cs = true) : valKind v = some k := by
  obtain ⟨c0, hmem, hne⟩ := hasValue_mem hv
  have hk0 := hu c0 hmem
  rw [← hc] at hmem
  have hd : c0 ∈ dataCells v.data := by
    unfold cellsOf at hmem
    cases hp : v.present with
    | none => simpa [hp] using hmem
    | some bm =>
      rw [hp] at hmem
      cases mem_maskFrom _ 0 hmem with
      | inl h => exact absurd h hne
      | inr h => exact h
  have hvk := img_valKind himg
  obtain ⟨data, present⟩ := v
  cases data with
  | i64 d =>
    simp only [dataCells, List.mem_map] at hd
    obtain ⟨i, _, rfl⟩ := hd
    cases hk0 with
    | inl h => simp [cellKind] at h
    | inr h => simp only [cellKind, Option.some.injEq] at h; subst h; rfl
  | f64 d =>
    simp only [dataCells, List.mem_map] at hd
    obtain ⟨i, _, rfl⟩ := hd
    cases hk0 with
    | inl h => simp [cellKind] at h
    | inr h => simp only [cellKind, Option.some.injEq] at h; subst h; rfl
  | str d =>
    simp only [dataCells, List.mem_map] at hd
    obtain ⟨i, _, rfl⟩ := hd
    cases hk0 with
    | inl h => simp [cellKind] at h
    | inr h => simp only [cellKind, Option.some.injEq] at h; subst h; rfl
  | null n =>
    simp only [dataCells, List.mem_replicate] at hd
    exact absurd hd.2 hne
  | nat w d => cases present <;> simp [valKind] at hvk
  | bits d => cases present <;> simp [valKind] at hvk
  | raw s => cases present <;> simp [valKind] at hvk

/-- **`BuildOk` without a builder hypothesis**: holds for `realEnv` for every conversion / compression parameter. -/
theorem realEnv_ok (cv : Conv) (cp : Compressor) (use : Bool) : BuildOk (realEnv cv cp use) := by
  intro k cs hk hu
  by_cases h : ∃ c v, RealImg cv cp use cs c v
  · obtain ⟨v, cb, q, _, _, _, himg, hcells, hnull⟩ := Classical.choose_spec h
    have hb : (realEnv cv cp use).build cs = Classical.choose h := by simp [realEnv, realBuild, h]
    refine ⟨v, by rw [hb]; exact himg, hcells, ?_⟩
    cases hv : hasValue cs with
    | false => exact Or.inl (hnull hv)
    | true => exact Or.inr (valKind_of_cells himg hcells hu hv)
  · have hb : (realEnv cv cp use).build cs = demoBuild cs := by simp [realEnv, realBuild, h]
    rw [hb]
    exact demoBuild_ok cp.dec k cs hk hu

/-! ### `realBuild` is C01's builder on C01's domain -/

def CellOk : Cell → Prop
  | .int i => inI64 i
  | .str s => s.length < 2 ^ 24
  | _ => True

def specTyOf : Kind → SpecTy
  | .int => .int
  | .float => .float
  | .str => .str
  | _ => .none

theorem map_toStrCell_uniform (cv : Conv) (acc : List Cell) (h : Uniform .str acc) : acc.map (toStrCell cv) = acc := by
  induction acc with
  | nil => rfl
  | cons c cs ih =>
    have hc := h c (by simp)
    simp only [List.map_cons, ih (fun x hx => h x (by simp [hx]))]
    cases c <;> simp_all [toStrCell, cellKind]

theorem foldl_opsOf (cv : Conv) (k : Kind) (hk : TypedK k) (cs : List Cell) :
    ∀ (st : SpecTy) (acc : List Cell), (st = .none ∨ st = specTyOf k) → Uniform k acc → Uniform k cs →
      ((opsOf cs).foldl (specStep cv) (st, acc)).2 = acc ++ cs := by
  induction cs with
  | nil => intro st acc _ _ _; simp [opsOf]
  | cons c cs ih =>
    intro st acc hst hacc hu
    have hc := hu c (by simp)
    have hu' : Uniform k cs := fun x hx => hu x (by simp [hx])
    simp only [opsOf, List.map_cons, List.foldl_cons]
    cases c with
    | null =>
      have := ih st (acc ++ [.null]) hst (uniform_append hacc (by intro x hx; simp at hx; subst hx; exact Or.inl rfl)) hu'
      simpa [opOf, specStep, opsOf] using this
    | int i =>
      have hki : k = .int := by
        cases hc with
        | inl h => simp [cellKind] at h
        | inr h => simp only [cellKind, Option.some.injEq] at h; exact h.symm
      subst hki
      have hacc' : Uniform .int (acc ++ [.int i]) :=
        uniform_append hacc (by intro x hx; simp at hx; subst hx; exact Or.inr rfl)
      have := ih .int (acc ++ [.int i]) (Or.inr rfl) hacc' hu'
      rcases hst with h | h <;> subst h <;> simpa [opOf, specStep, opsOf, specTyOf] using this
    | float f =>
      have hki : k = .float := by
        cases hc with
        | inl h => simp [cellKind] at h
        | inr h => simp only [cellKind, Option.some.injEq] at h; exact h.symm
      subst hki
      have hacc' : Uniform .float (acc ++ [.float f]) :=
        uniform_append hacc (by intro x hx; simp at hx; subst hx; exact Or.inr rfl)
      have := ih .float (acc ++ [.float f]) (Or.inr rfl) hacc' hu'
      rcases hst with h | h <;> subst h <;> simpa [opOf, specStep, opsOf, specTyOf] using this
    | str s =>
      have hki : k = .str := by
        cases hc with
        | inl h => simp [cellKind] at h
        | inr h => simp only [cellKind, Option.some.injEq] at h; exact h.symm
      subst hki
      have hacc' : Uniform .str (acc ++ [.str s]) :=
        uniform_append hacc (by intro x hx; simp at hx; subst hx; exact Or.inr rfl)
      have := ih .str (acc ++ [.str s]) (Or.inr rfl) hacc' hu'
      simpa [opOf, specStep, opsOf, specTyOf, map_toStrCell_uniform cv acc hacc] using this

theorem spec_opsOf (cv : Conv) (k : Kind) (hk : TypedK k) (cs : List Cell) (hu : Uniform k cs) :
    specColumn cv (opsOf cs) = cs := by
  have := foldl_opsOf cv k hk cs .none [] (Or.inl rfl) (by intro x hx; cases hx) hu
  simpa [specColumn] using this

theorem applyAll_nulls (cv : Conv) (ops : List Codec.Op) (hops : ∀ op ∈ ops, ∃ n, op = .nulls n) :
    ∀ (cb cb' : ColBuf), cb.buffer = .empty → cb.applyAll cv ops = .ok cb' → cb'.buffer = .empty := by
  induction ops with
  | nil => intro cb cb' he h; simp [ColBuf.applyAll] at h; subst h; exact he
  | cons op ops ih =>
    intro cb cb' he h
    obtain ⟨n, rfl⟩ := hops op (by simp)
    simp only [ColBuf.applyAll, ColBuf.apply, Codec.bind_ok] at h
    exact ih (fun o ho => hops o (by simp [ho])) (cb.pushNulls n) cb' (by simp [ColBuf.pushNulls, he]) h

theorem opsOf_nulls {cs : List Cell} (h : hasValue cs = false) : ∀ op ∈ opsOf cs, ∃ n, op = Codec.Op.nulls n := by
  intro op hop
  simp only [opsOf, List.mem_map] at hop
  obtain ⟨c, hc, rfl⟩ := hop
  have : c = .null := by
    simp only [hasValue, List.any_eq_false] at h
    simpa using h c hc
  subst this
  exact ⟨1, rfl⟩

/-- On C01's domain (i64 integers, strings shorter than 2^24 bytes, at least one row, `ConvOk`, `CompOk`) the image
    `realBuild` stores for single-typed cells IS the one C01's model of the real builders produces. -/
theorem realImg_exists (cv : Conv) (hcv : ConvOk cv) (cp : Compressor) (hcp : CompOk cp) (use : Bool) (k : Kind)
    (hk : TypedK k) (cs : List Cell) (hu : Uniform k cs) (hne : cs ≠ []) (hok : ∀ c ∈ cs, CellOk c) :
    ∃ c v, RealImg cv cp use cs c v := by
  have hspec := spec_opsOf cv k hk cs hu
  have hops : ∀ op ∈ opsOf cs, OpOk op := by
    intro op hop
    simp only [opsOf, List.mem_map] at hop
    obtain ⟨c, hc, rfl⟩ := hop
    have := hok c hc
    cases c <;> simp_all [opOf, OpOk, CellOk]
  obtain ⟨cb, q, c, v, h1, h2, h3, h4, h5, _⟩ := builder_reads_back cv hcv cp hcp (use && hasValue cs) (opsOf cs) hops
    (by rw [hspec]; exact hne)
    (by
      intro huse
      rw [hspec]
      have : hasValue cs = true := by
        cases hh : hasValue cs <;> simp [hh] at huse ⊢
      exact hasValue_mem this)
  rw [hspec] at h5
  refine ⟨c, v, cb, q, h1, h2, h3, h4, h5, ?_⟩
  intro hnv
  -- all cells NULL: the buffer stays `Empty`, `finalize` returns `Column::null`
  have hbuf := applyAll_nulls cv (opsOf cs) (opsOf_nulls hnv) {} cb rfl h1
  have hq : q = nullColumn cb.length := by
    simp [ColBuf.finalize, hbuf] at h2; exact h2.symm
  have hd := decodeQ_img h4
  simp only [decodeQ, h3, hnv, Bool.and_false] at hd
  rw [hq] at hd
  simp [compress, Codec.decode, nullColumn, runOps, ofSection] at hd
  subst hd
  rfl

theorem realBuild_is_c01 (cv : Conv) (hcv : ConvOk cv) (cp : Compressor) (hcp : CompOk cp) (use : Bool) (k : Kind)
    (hk : TypedK k) (cs : List Cell) (hu : Uniform k cs) (hne : cs ≠ []) (hok : ∀ c ∈ cs, CellOk c) :
    ∃ v, RealImg cv cp use cs (realBuild cv cp use cs) v := by
  have h := realImg_exists cv hcv cp hcp use k hk cs hu hne hok
  have hb : realBuild cv cp use cs = Classical.choose h := by simp [realBuild, h]
  rw [hb]
  exact Classical.choose_spec h

end LM.C07M
