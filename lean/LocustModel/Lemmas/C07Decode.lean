import LocustModel.Codec.Decode2
/-
  C07 helper lemmas: the free `decode` (`D2.decode2`) against the query path (`D2.decodeQ`) on builder images.
-/
namespace LM.D2
open LM LM.Codec

/-! ### base (uncompressed) images -/

/-- The query path reads `v` from a base image (all shapes, all lengths, all contents). -/
theorem decodeQ_base {dec : Section → Section} {c : Col} {v : SVal} (h : ImgBase c v) :
    decodeQ dec c = .ok v := by
  cases h <;> simp_all [decodeQ, Codec.decode, Col.toQ, Op.toQ, runOps, step, ofSection, natsOf, natsToInts]

theorem unhexAll_eq {u : Bool} {total used : Nat} {es : List (List Nat)} {r : List Bytes}
    (h : unhexAll u total used es = .ok r) : r = hexAll u es := by
  induction es generalizing used r with
  | nil => simp [unhexAll] at h; simp [hexAll, h]
  | cons e es ih =>
    simp only [unhexAll] at h
    split at h
    · cases hr : unhexAll u total (used + (hexEncode u e).length) es with
      | error f => simp [hr] at h
      | ok r' =>
        simp only [hr] at h
        cases h
        simp [hexAll, ih hr] 
    · cases h

/-- The free `decode` reads the same `v` from every base image. -/
theorem decode2_base {dec : Section → Section} {c : Col} {v : SVal} (h : ImgBase c v) :
    decode2 dec c = .ok v := by
  cases h with
  | intCast n w hw d => cases w <;> simp_all [intWidth, decode2, run2, step2, arm2, ofSection, castNat]
  | intAdd n w hw x d r h => cases w <;> simp_all [intWidth, decode2, run2, step2, arm2, ofSection, castNat]
  | intDelta n w hw d r h => cases w <;> simp_all [intWidth, decode2, run2, step2, arm2, ofSection, castNat]
  | intAddDelta n w hw x d r1 r h1 h =>
      cases w <;> simp_all [intWidth, decode2, run2, step2, arm2, ofSection, castNat, castI64]
  | intCastN n w hw d bm =>
      cases w <;> simp_all [intWidth, decode2, run2, step2, arm2, ofSection, castNat, makeNullable]
  | intAddN n w hw x d bm r h =>
      cases w <;> simp_all [intWidth, decode2, run2, step2, arm2, ofSection, castNat, makeNullable]
  | intDeltaN n w hw d bm r h =>
      cases w <;> simp_all [intWidth, decode2, run2, step2, arm2, ofSection, castNat, makeNullable]
  | intAddDeltaN n w hw x d bm r1 r h1 h =>
      cases w <;> simp_all [intWidth, decode2, run2, step2, arm2, ofSection, castNat, castI64, makeNullable]
  | i64Plain n d => simp [decode2, run2, ofSection]
  | i64Delta n d r h => simp_all [decode2, run2, step2, arm2, ofSection, castI64]
  | i64N n d bm => simp [decode2, run2, step2, arm2, ofSection, castNat, makeNullable]
  | i64DeltaN n d r bm h => simp_all [decode2, run2, step2, arm2, ofSection, castNat, castI64, makeNullable]
  | f64Plain n d => simp [decode2, run2, ofSection]
  | f64N n d bm => simp [decode2, run2, step2, arm2, ofSection, castNat, makeNullable]
  | dict n w hw ix ranges data r h =>
      cases w <;> simp_all [intWidth, decode2, run2, step2, arm2, ofSection, castNat]
  | dictN n w hw ix ranges data bm r h =>
      cases w <;> simp_all [intWidth, decode2, run2, step2, arm2, ofSection, castNat, makeNullable]
  | packed n d r h => simp_all [decode2, run2, step2, arm2, ofSection, castNat]
  | packedN n d bm r h => simp_all [decode2, run2, step2, arm2, ofSection, castNat, makeNullable]
  | hex n u total d es r h1 h =>
      have := unhexAll_eq h
      simp_all [decode2, run2, step2, arm2, ofSection, castNat]
  | hexN n u total d bm es r h1 h =>
      have := unhexAll_eq h
      simp_all [decode2, run2, step2, arm2, ofSection, castNat, makeNullable]
  | null n k => simp [decode2, run2, ofSection]

/-! ### section 0 is only read through the stack -/

theorem step2_sec0 (dec : Section → Section) (a b : Section) (rest : List Section) (op : Op) (st : List SVal)
    (h2 : op ≠ .push 0) :
    step2 dec (a :: rest) op st = step2 dec (b :: rest) op st := by
  cases op with
  | push i => cases i with
    | zero => exact absurd rfl h2
    | succ k => simp [step2]
  | _ => rfl

theorem run2_sec0 (dec : Section → Section) (a b : Section) (rest : List Section) (ops : List Op)
    (h : ∀ op ∈ ops, op ≠ .push 0) (st : List SVal) :
    run2 dec (a :: rest) ops st = run2 dec (b :: rest) ops st := by
  induction ops generalizing st with
  | nil => rfl
  | cons op ops ih =>
    have hop := h op (by simp)
    simp only [run2, step2_sec0 dec a b rest op st hop]
    cases step2 dec (b :: rest) op st with
    | error e => rfl
    | ok st' => exact ih (fun o ho => h o (by simp [ho])) st'

theorem stepQ_sec0 (dec : Section → Section) (a b : Section) (rest : List Section) (op : CodecOp) (st : List SVal)
    (h2 : op ≠ .push 0) :
    Codec.step dec (a :: rest) op st = Codec.step dec (b :: rest) op st := by
  cases op with
  | push i => cases i with
    | zero => exact absurd rfl h2
    | succ k => simp [Codec.step]
  | nullable => rcases st with _ | ⟨x, _ | ⟨y, r⟩⟩ <;> rfl
  | add t x => rcases st with _ | ⟨x, r⟩ <;> rfl
  | delta t => rcases st with _ | ⟨x, r⟩ <;> rfl
  | toI64 t => rcases st with _ | ⟨x, r⟩ <;> rfl
  | dict t => rcases st with _ | ⟨x, _ | ⟨y, _ | ⟨z, r⟩⟩⟩ <;> rfl
  | decomp => rcases st with _ | ⟨x, r⟩ <;> rfl
  | unpack => rcases st with _ | ⟨x, r⟩ <;> rfl
  | unhex u n => rcases st with _ | ⟨x, r⟩ <;> rfl

theorem runQ_sec0 (dec : Section → Section) (a b : Section) (rest : List Section) (ops : List CodecOp)
    (h : ∀ op ∈ ops, op ≠ .push 0) (st : List SVal) :
    runOps dec (a :: rest) ops st = runOps dec (b :: rest) ops st := by
  induction ops generalizing st with
  | nil => rfl
  | cons op ops ih =>
    have hop := h op (by simp)
    simp only [runOps, stepQ_sec0 dec a b rest op st hop]
    cases Codec.step dec (b :: rest) op st with
    | error e => rfl
    | ok st' => exact ih (fun o ho => h o (by simp [ho])) st'

theorem base_no_push0 {c : Col} {v : SVal} (h : ImgBase c v) : ∀ op ∈ c.ops, op ≠ .push 0 := by
  cases h <;> simp

theorem asType_of_secET {s : Section} {t : ET} (h : secET s = some t) : asType t s = .ok (ofSection s) := by
  cases s with
  | nat w d => cases w <;> simp [secET] at h <;> subst h <;> simp [asType, ofSection]
  | i64 d => simp [secET] at h; subst h; simp [asType, ofSection]
  | f64 d => simp [secET] at h; subst h; simp [asType, ofSection]
  | null n => simp [secET] at h
  | bitvec d => simp [secET] at h
  | comp p o => simp [secET] at h

theorem stepQ_decomp (dec : Section → Section) (secs : List Section) (p : List Nat) (tag : Nat) :
    Codec.step dec secs .decomp [ofSection (.comp p tag)] = .ok [ofSection (dec (.comp p tag))] := rfl

/-- the query path through a compressed image = the query path through the uncompressed one -/
theorem decodeQ_comp {dec : Section → Section} {len : Nat} {ops : List Op} {s0 : Section} {rest : List Section}
    (hp : ∀ op ∈ ops, op ≠ .push 0) (front : Op) (hf : front.toQ = .decomp) (p : List Nat) (tag : Nat)
    (hdec : dec (.comp p tag) = s0) :
    decodeQ dec ⟨len, front :: ops, .comp p tag :: rest⟩ = decodeQ dec ⟨len, ops, s0 :: rest⟩ := by
  have hq : ∀ op ∈ ops.map Op.toQ, op ≠ CodecOp.push 0 := by
    intro op hop
    obtain ⟨o, ho, rfl⟩ := List.mem_map.mp hop
    have := hp o ho
    cases o <;> simp [Op.toQ] at this ⊢ <;> exact this
  have hrun : runOps dec (.comp p tag :: rest) (front.toQ :: ops.map Op.toQ) [ofSection (.comp p tag)]
      = runOps dec (s0 :: rest) (ops.map Op.toQ) [ofSection s0] := by
    rw [hf]
    simp only [runOps, stepQ_decomp, hdec, Codec.bind_ok]
    exact runQ_sec0 dec (.comp p tag) s0 rest _ hq _
  simp only [decodeQ, Codec.decode, Col.toQ, List.map_cons, hrun]

theorem decode2_lz4 {dec : Section → Section} {len : Nat} {ops : List Op} {s0 : Section} {rest : List Section}
    (hp : ∀ op ∈ ops, op ≠ .push 0) (t : ET) (ht : secET s0 = some t)
    (n : Nat) (p : List Nat) (tag : Nat) (hdec : dec (.comp p tag) = s0) :
    decode2 dec ⟨len, .lz4 t n :: ops, .comp p tag :: rest⟩ = decode2 dec ⟨len, ops, s0 :: rest⟩ := by
  have hs : step2 dec (.comp p tag :: rest) (.lz4 t n) [ofSection (.comp p tag)] = .ok [ofSection s0] := by
    simp [step2, arm2, ofSection, decompress, hdec, asType_of_secET ht]
  simp only [decode2, run2, hs]
  rw [run2_sec0 dec (.comp p tag) s0 rest ops hp]

theorem decode2_pco {dec : Section → Section} {len : Nat} {ops : List Op} {s0 : Section} {rest : List Section}
    (hp : ∀ op ∈ ops, op ≠ .push 0) (t : ET) (ht : secET s0 = some t)
    (n : Nat) (fp : Bool) (p : List Nat) (tag : Nat) (hdec : dec (.comp p tag) = s0) :
    decode2 dec ⟨len, .pco t n fp :: ops, .comp p tag :: rest⟩ = decode2 dec ⟨len, ops, s0 :: rest⟩ := by
  have hs : step2 dec (.comp p tag :: rest) (.pco t n fp) [ofSection (.comp p tag)] = .ok [ofSection s0] := by
    simp [step2, arm2, ofSection, decompress, hdec, asType_of_secET ht]
  simp only [decode2, run2, hs]
  rw [run2_sec0 dec (.comp p tag) s0 rest ops hp]

/-! ### all builder images -/

theorem decodeQ_img {dec : Section → Section} {c : Col} {v : SVal} (h : Img dec c v) : decodeQ dec c = .ok v := by
  cases h with
  | plain h => exact decodeQ_base h
  | lz4 h t ht n p tag hdec =>
      rw [decodeQ_comp (base_no_push0 h) (.lz4 t n) rfl p tag hdec]; exact decodeQ_base h
  | pco h t ht n fp p tag hdec =>
      rw [decodeQ_comp (base_no_push0 h) (.pco t n fp) rfl p tag hdec]; exact decodeQ_base h

/-- The free `decode` agrees with the query path on every builder image:
    all shapes × {plain, lz4, pco}, all lengths, all contents. -/
theorem decode2_img {dec : Section → Section} {c : Col} {v : SVal} (h : Img dec c v) : decode2 dec c = .ok v := by
  cases h with
  | plain h => exact decode2_base h
  | lz4 h t ht n p tag hdec =>
      rw [decode2_lz4 (base_no_push0 h) t ht n p tag hdec]
      exact decode2_base h
  | pco h t ht n fp p tag hdec =>
      rw [decode2_pco (base_no_push0 h) t ht n fp p tag hdec]
      exact decode2_base h

end LM.D2
