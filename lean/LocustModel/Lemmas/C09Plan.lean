import LocustModel.Store.CrashSpec
/-
  C09 helper lemmas, part 2: what a flush plan does to the list of partitions — `batchParts` adds exactly the open buffers
  under fresh file names, `compactOne` / `compactAll` keep the content of every table and never reuse a file name.
-/
namespace LM.Crash

/-! ### dedup -/

theorem mem_dedup (l : List Tbl) (x : Tbl) : x ∈ dedup l ↔ x ∈ l := by
  induction l with
  | nil => simp [dedup]
  | cons a l ih =>
      have : dedup (a :: l) = a :: (dedup l).filter (fun b => b ≠ a) := rfl
      rw [this]
      by_cases hx : x = a
      · simp [hx]
      · simp [hx, ih]

theorem nodup_dedup (l : List Tbl) : (dedup l).Nodup := by
  induction l with
  | nil => simp [dedup]
  | cons a l ih =>
      have : dedup (a :: l) = a :: (dedup l).filter (fun b => b ≠ a) := rfl
      rw [this, List.nodup_cons]
      exact ⟨by simp, ih.sublist List.filter_sublist⟩

/-! ### rows of requests -/

theorem rowsOfReqs_append (a b : List Req) (t : Tbl) : rowsOfReqs (a ++ b) t = rowsOfReqs a t ++ rowsOfReqs b t := by
  simp [rowsOfReqs]

theorem rowsOfReqs_nil (t : Tbl) : rowsOfReqs [] t = [] := rfl

theorem rowsOfReqs_single (r : Req) (t : Tbl) : rowsOfReqs [r] t = r.rowsOf t := by simp [rowsOfReqs]

/-- A table no request mentions has no rows. -/
theorem rowsOfReqs_not_mem (rs : List Req) (t : Tbl) (h : t ∉ tablesOfReqs rs) : rowsOfReqs rs t = [] := by
  simp only [tablesOfReqs, mem_dedup, List.mem_flatMap, List.mem_map, not_exists, not_and] at h
  simp only [rowsOfReqs, List.flatMap_eq_nil_iff, Req.rowsOf]
  intro r hr s hs
  simp only [List.mem_filter, decide_eq_true_eq] at hs
  exact absurd hs.2 (h r hr s hs.1)

/-! ### partitions of one table, ids -/

theorem partsOf_append (a b : List MPart) (t : Tbl) : partsOf (a ++ b) t = partsOf a t ++ partsOf b t := by
  simp [partsOf]

theorem pcontent_append (a b : List MPart) (t : Tbl) : pcontent (a ++ b) t = pcontent a t ++ pcontent b t := by
  simp [pcontent, partsOf_append]

theorem foldl_max_ge {α : Type} (f : α → Nat) : ∀ (l : List α) (n : Nat), n ≤ l.foldl (fun n p => max n (f p)) n
  | [], n => Nat.le_refl n
  | a :: l, n => Nat.le_trans (Nat.le_max_left n (f a)) (foldl_max_ge f l (max n (f a)))

theorem foldl_max_mem {α : Type} (f : α → Nat) : ∀ (l : List α) (n : Nat) (x : α), x ∈ l → f x ≤ l.foldl (fun n p => max n (f p)) n
  | a :: l, n, x, hx => by
      rcases List.mem_cons.1 hx with rfl | hx
      · exact Nat.le_trans (Nat.le_max_right n (f x)) (foldl_max_ge f l _)
      · exact foldl_max_mem f l _ x hx

/-- Every partition of table `t` has an id below `nextId`. -/
theorem id_lt_nextId {ps : List MPart} {p : MPart} (hp : p ∈ ps) : p.pm.id < nextId ps p.pm.table := by
  have : p ∈ partsOf ps p.pm.table := by simp [partsOf, hp]
  have := foldl_max_mem (fun p : MPart => p.pm.id + 1) (partsOf ps p.pm.table) 0 p this
  simp only [nextId]; omega

theorem fresh_not_mem_bases {ps : List MPart} {n : MPart} (h : nextId ps n.pm.table ≤ n.pm.id) : partBase n ∉ bases ps := by
  intro hm
  simp only [bases, List.mem_map] at hm
  obtain ⟨p, hp, he⟩ := hm
  simp only [partBase, Base.part.injEq] at he
  have := id_lt_nextId hp
  rw [he.1, he.2] at this
  omega

/-! ### batchParts -/

private theorem batch_aux (ps : List MPart) (pending : List Req) (ts : List Tbl) :
    let f : Tbl → Option MPart := fun t =>
      let rows := rowsOfReqs pending t
      if rows = [] then none else some ⟨⟨t, nextId ps t, nextOff ps t, rows.length⟩, rows⟩
    (∀ p ∈ ts.filterMap f, p.pm.table ∈ ts ∧ p.pm.id = nextId ps p.pm.table) ∧
    (ts.Nodup → (bases (ts.filterMap f)).Nodup) ∧
    (ts.Nodup → ∀ t, pcontent (ts.filterMap f) t = if t ∈ ts then rowsOfReqs pending t else []) := by
  intro f
  have hf : ∀ t p, f t = some p → p.pm.table = t ∧ p.pm.id = nextId ps t ∧ p.rows = rowsOfReqs pending t := by
    intro t p h
    simp only [f] at h
    split at h
    · cases h
    · cases h; exact ⟨rfl, rfl, rfl⟩
  have hnone : ∀ t, f t = none → rowsOfReqs pending t = [] := by
    intro t h
    simp only [f] at h
    split at h
    · assumption
    · cases h
  have h1 : ∀ (ts : List Tbl), ∀ p ∈ ts.filterMap f, p.pm.table ∈ ts ∧ p.pm.id = nextId ps p.pm.table := by
    intro ts p hp
    obtain ⟨t, ht, hft⟩ := List.mem_filterMap.1 hp
    obtain ⟨a, b, _⟩ := hf t p hft
    exact ⟨a ▸ ht, by rw [a]; exact b⟩
  refine ⟨h1 ts, ?_, ?_⟩
  · intro hn
    induction ts with
    | nil => simp [bases]
    | cons t ts ih =>
        rw [List.nodup_cons] at hn
        cases hft : f t with
        | none => simpa [List.filterMap_cons, hft] using ih hn.2
        | some p =>
            simp only [List.filterMap_cons, hft, bases, List.map_cons, List.nodup_cons]
            refine ⟨?_, ih hn.2⟩
            intro hm
            obtain ⟨q, hq, he⟩ := List.mem_map.1 hm
            simp only [partBase, Base.part.injEq] at he
            have := (h1 ts q hq).1
            rw [he.1, (hf t p hft).1] at this
            exact hn.1 this
  · intro hn t
    induction ts with
    | nil => simp [pcontent, partsOf]
    | cons t0 ts ih =>
        rw [List.nodup_cons] at hn
        have ih := ih hn.2
        cases hft : f t0 with
        | none =>
            simp only [List.filterMap_cons, hft, ih, List.mem_cons]
            by_cases h0 : t = t0
            · subst h0; simp [hn.1, hnone t hft]
            · simp [h0]
        | some p =>
            obtain ⟨a, _, c⟩ := hf t0 p hft
            have hc : pcontent (p :: ts.filterMap f) t = (if p.pm.table = t then p.rows else []) ++ pcontent (ts.filterMap f) t := by
              simp only [pcontent, partsOf, List.filter_cons]
              by_cases h : p.pm.table = t <;> simp [h]
            simp only [List.filterMap_cons, hft, hc, ih, List.mem_cons, a]
            by_cases h0 : t = t0
            · subst h0; simp [hn.1, c]
            · have : ¬ t0 = t := fun h => h0 h.symm
              simp [h0, this]

/-- The partitions `Table::batch` creates get ids that are not in use. -/
theorem batchParts_fresh (ps : List MPart) (pending : List Req) :
    ∀ p ∈ batchParts ps pending, nextId ps p.pm.table ≤ p.pm.id := by
  intro p hp
  have := (batch_aux ps pending (tablesOfReqs pending)).1 p hp
  omega

theorem batchParts_nodup (ps : List MPart) (pending : List Req) : (bases (batchParts ps pending)).Nodup :=
  (batch_aux ps pending (tablesOfReqs pending)).2.1 (nodup_dedup _)

/-- They contain exactly the open buffers. -/
theorem batchParts_content (ps : List MPart) (pending : List Req) (t : Tbl) :
    pcontent (batchParts ps pending) t = rowsOfReqs pending t := by
  have := (batch_aux ps pending (tablesOfReqs pending)).2.2 (nodup_dedup _) t
  simp only [batchParts] at this ⊢
  rw [this]
  split
  · rfl
  · rename_i h; exact (rowsOfReqs_not_mem pending t h).symm

/-! ### compactOne -/

theorem partsOf_filter_other (ps : List MPart) (t t' : Tbl) (ids : List Nat) (h : t' ≠ t) :
    partsOf (ps.filter (fun p => ¬ (p.pm.table = t ∧ p.pm.id ∈ ids))) t' = partsOf ps t' := by
  simp only [partsOf, List.filter_filter]
  apply List.filter_congr
  intro p _
  by_cases hp : p.pm.table = t'
  · simp [hp, h]
  · simp [hp]

theorem partsOf_filter_same (ps : List MPart) (t : Tbl) (ids : List Nat) :
    partsOf (ps.filter (fun p => ¬ (p.pm.table = t ∧ p.pm.id ∈ ids))) t = (partsOf ps t).filter (fun p => ¬ p.pm.id ∈ ids) := by
  simp only [partsOf, List.filter_filter]
  apply List.filter_congr
  intro p _
  by_cases hp : p.pm.table = t <;> simp [hp]

structure CompactOneSpec (ps : List MPart) (t : Tbl) (ids : List Nat) (new : MPart) (ps' : List MPart) : Prop where
  table : new.pm.table = t
  id : new.pm.id = nextId ps t
  mem : ∀ p ∈ ps', (p ∈ ps ∧ ¬ (p.pm.table = t ∧ p.pm.id ∈ ids)) ∨ p = new
  new_mem : new ∈ ps'
  keep : ∀ p ∈ ps, ¬ (p.pm.table = t ∧ p.pm.id ∈ ids) → p ∈ ps'
  content : ∀ t', pcontent ps' t' = pcontent ps t'
  other : ∀ t', t' ≠ t → partsOf ps' t' = partsOf ps t'
  keys : (bases ps).Nodup → (bases ps').Nodup

theorem compactOne_spec {ps : List MPart} {t : Tbl} {ids : List Nat} {new : MPart} {ps' : List MPart}
    (h : compactOne ps t ids = some (new, ps')) : CompactOneSpec ps t ids new ps' := by
  simp only [compactOne] at h
  split at h
  · cases h
  · rename_i hc
    simp only [not_or, Decidable.not_not] at hc
    obtain ⟨_, hsplit, _⟩ := hc
    simp only [Option.some.injEq, Prod.mk.injEq] at h
    obtain ⟨hnew, hps'⟩ := h
    have htable : new.pm.table = t := by rw [← hnew]
    have hid : new.pm.id = nextId ps t := by rw [← hnew]
    have hrows : new.rows = ((partsOf ps t).filter (fun p => p.pm.id ∈ ids)).flatMap (·.rows) := by rw [← hnew]
    rw [hnew] at hps'
    clear hnew
    subst hps'
    have hnew_same : partsOf [new] t = [new] := by simp [partsOf, htable]
    have hnew_other : ∀ t', t' ≠ t → partsOf [new] t' = [] := by
      intro t' ht'; simp only [partsOf, List.filter_cons, htable]
      have : ¬ t = t' := fun h => ht' h.symm
      simp [this]
    refine ⟨htable, hid, ?_, ?_, ?_, ?_, ?_, ?_⟩
    · intro p hp
      simp only [List.mem_append, List.mem_filter, List.mem_singleton, decide_eq_true_eq] at hp
      rcases hp with hp | hp
      · exact Or.inl hp
      · exact Or.inr hp
    · simp
    · intro p hp hk
      simp only [List.mem_append, List.mem_filter, List.mem_singleton, decide_eq_true_eq]
      exact Or.inl ⟨hp, hk⟩
    · intro t'
      by_cases ht' : t' = t
      · subst ht'
        simp only [pcontent, partsOf_append, partsOf_filter_same, List.flatMap_append, hnew_same]
        conv => rhs; rw [hsplit]
        simp [List.flatMap_append, hrows]
      · simp only [pcontent, partsOf_append, partsOf_filter_other ps t t' ids ht', hnew_other t' ht']
        simp
    · intro t' ht'
      simp only [partsOf_append, partsOf_filter_other ps t t' ids ht', hnew_other t' ht']
      simp
    · intro hn
      have hfresh : partBase new ∉ bases ps := fresh_not_mem_bases (by rw [htable, hid]; exact Nat.le_refl _)
      have hsub : (bases (ps.filter (fun p => ¬ (p.pm.table = t ∧ p.pm.id ∈ ids)))).Sublist (bases ps) :=
        List.Sublist.map _ List.filter_sublist
      simp only [bases, List.map_append, List.map_cons, List.map_nil] at hsub ⊢
      rw [List.nodup_append]
      refine ⟨hn.sublist hsub, by simp, ?_⟩
      intro a ha b hb
      simp only [List.mem_singleton] at hb
      subst hb
      intro hab; subst hab
      exact hfresh (hsub.subset ha)

theorem nextId_congr {ps ps' : List MPart} {t : Tbl} (h : partsOf ps' t = partsOf ps t) : nextId ps' t = nextId ps t := by
  simp [nextId, h]

theorem CompactOneSpec.mono {ps : List MPart} {t : Tbl} {ids : List Nat} {new : MPart} {ps' : List MPart}
    (h : CompactOneSpec ps t ids new ps') : ∀ t', nextId ps t' ≤ nextId ps' t' := by
  intro t'
  by_cases ht' : t' = t
  · subst ht'
    have := id_lt_nextId h.new_mem
    rw [h.table, h.id] at this
    omega
  · rw [nextId_congr (h.other t' ht')]; exact Nat.le_refl _

theorem CompactOneSpec.strict {ps : List MPart} {t : Tbl} {ids : List Nat} {new : MPart} {ps' : List MPart}
    (h : CompactOneSpec ps t ids new ps') : nextId ps t < nextId ps' t := by
  have := id_lt_nextId h.new_mem
  rw [h.table, h.id] at this
  exact this

/-! ### compactAll -/

structure CompactAllSpec (ps news olds ps'' : List MPart) : Prop where
  mem : ∀ p ∈ ps'', p ∈ ps ∨ p ∈ news
  fresh : ∀ n ∈ news, nextId ps n.pm.table ≤ n.pm.id
  newsNodup : (bases news).Nodup
  keys : (bases ps).Nodup → (bases ps'').Nodup
  oldsGone : ∀ o ∈ olds, partBase o ∉ bases ps''
  oldsMem : ∀ o ∈ olds, o ∈ ps ∨ o ∈ news
  oldsNodup : (bases ps).Nodup → (bases olds).Nodup
  content : ∀ t, pcontent ps'' t = pcontent ps t
  mono : ∀ t, nextId ps t ≤ nextId ps'' t

/-- A partition merged away by one compaction shares its file name with nothing that exists or is created afterwards. -/
theorem merged_name_unique {ps : List MPart} {t : Tbl} {ids : List Nat} {new : MPart} {ps' : List MPart}
    (s1 : CompactOneSpec ps t ids new ps') {o : MPart} (ho : o ∈ (partsOf ps t).filter (fun p => p.pm.id ∈ ids))
    {q : MPart} (hq : q ∈ ps' ∨ nextId ps' q.pm.table ≤ q.pm.id) : partBase q ≠ partBase o := by
  simp only [List.mem_filter, decide_eq_true_eq] at ho
  obtain ⟨homem, hoid⟩ := ho
  simp only [partsOf, List.mem_filter, decide_eq_true_eq] at homem
  intro he
  simp only [partBase, Base.part.injEq] at he
  have holt := id_lt_nextId homem.1
  rw [homem.2] at holt
  rcases hq with h | h
  · rcases s1.mem q h with h | h
    · exact h.2 ⟨he.1.trans homem.2, he.2 ▸ hoid⟩
    · have := s1.id; rw [← h, he.2] at this; omega
  · have h4 := s1.mono t
    rw [he.1, he.2, homem.2] at h
    omega

theorem compactAll_spec : ∀ (comp : List (Tbl × List Nat)) {ps news olds ps'' : List MPart},
    compactAll ps comp = some (news, olds, ps'') → CompactAllSpec ps news olds ps''
  | [], ps, news, olds, ps'', h => by
      simp only [compactAll, Option.some.injEq, Prod.mk.injEq] at h
      obtain ⟨rfl, rfl, rfl⟩ := h
      exact ⟨fun p hp => Or.inl hp, by simp, by simp [bases], id, by simp, by simp, fun _ => by simp [bases], fun _ => rfl,
        fun _ => Nat.le_refl _⟩
  | (t, ids) :: rest, ps, news, olds, ps'', h => by
      simp only [compactAll] at h
      split at h
      · cases h
      · rename_i new ps' h1
        split at h
        · cases h
        · rename_i news' olds' ps2 h2
          simp only [Option.some.injEq, Prod.mk.injEq] at h
          obtain ⟨rfl, rfl, rfl⟩ := h
          have s1 := compactOne_spec h1
          have s2 := compactAll_spec rest h2
          refine ⟨?_, ?_, ?_, ?_, ?_, ?_, ?_, ?_, ?_⟩
          · intro p hp
            rcases s2.mem p hp with h | h
            · rcases s1.mem p h with h | h
              · exact Or.inl h.1
              · exact Or.inr (by simp [h])
            · exact Or.inr (by simp [h])
          · intro n hn
            rcases List.mem_cons.1 hn with rfl | hn
            · rw [s1.table, s1.id]; exact Nat.le_refl _
            · exact Nat.le_trans (s1.mono _) (s2.fresh n hn)
          · simp only [bases, List.map_cons, List.nodup_cons]
            refine ⟨?_, s2.newsNodup⟩
            intro hm
            obtain ⟨n, hn, he⟩ := List.mem_map.1 hm
            simp only [partBase, Base.part.injEq] at he
            have h3 := s2.fresh n hn
            have h4 := s1.strict
            rw [he.1, he.2, s1.table, s1.id] at h3
            omega
          · intro hn; exact s2.keys (s1.keys hn)
          · intro o ho
            rcases List.mem_append.1 ho with ho | ho
            · intro hm
              obtain ⟨p, hp, he⟩ := List.mem_map.1 hm
              refine merged_name_unique s1 ho ?_ he
              rcases s2.mem p hp with h | h
              · exact Or.inl h
              · exact Or.inr (s2.fresh p h)
            · exact s2.oldsGone o ho
          · intro o ho
            rcases List.mem_append.1 ho with ho | ho
            · simp only [List.mem_filter, partsOf] at ho
              exact Or.inl ho.1.1
            · rcases s2.oldsMem o ho with h | h
              · rcases s1.mem o h with h | h
                · exact Or.inl h.1
                · exact Or.inr (by simp [h])
              · exact Or.inr (by simp [h])
          · intro hn
            simp only [bases, List.map_append]
            rw [List.nodup_append]
            refine ⟨?_, s2.oldsNodup (s1.keys hn), ?_⟩
            · have hsub : (((partsOf ps t).filter (fun p => p.pm.id ∈ ids)).map partBase).Sublist (ps.map partBase) :=
                List.Sublist.map _ (List.filter_sublist.trans List.filter_sublist)
              exact hn.sublist hsub
            · intro a ha b hb hab
              subst hab
              obtain ⟨o, ho, rfl⟩ := List.mem_map.1 ha
              obtain ⟨q, hq, he⟩ := List.mem_map.1 hb
              refine merged_name_unique s1 ho ?_ he
              rcases s2.oldsMem q hq with h | h
              · exact Or.inl h
              · exact Or.inr (s2.fresh q h)
          · intro t'; rw [s2.content, s1.content]
          · intro t'; exact Nat.le_trans (s1.mono t') (s2.mono t')

end LM.Crash
