import LocustModel.Disk.Segment
/- Helper lemmas for C14: element-wise round trips, `mapM` over lists, hash-map insertion of distinct keys. -/
namespace LM.Segment
open LM LM.Routing LM.Gen.SegmentTables

theorem enc_roundtrip (t : Enc) (c : CapEnc) (h : encodingTypeToCapnp t = some c) : deserializeType c = t := by
  cases t <;> simp [encodingTypeToCapnp] at h <;> subst h <;> rfl

theorem encToCap_ok (t : Enc) (c : CapEnc) (h : encToCap t = .ok c) : deserializeType c = t := by
  unfold encToCap at h
  split at h
  · rename_i c' hc; simp at h; subst h; exact enc_roundtrip t c' hc
  · simp at h

theorem bind_encToCap (t : Enc) (f : CapEnc → CapOp) (c : CapOp)
    (h : (do let x ← encToCap t; pure (f x) : Except Fault CapOp) = .ok c) :
    ∃ c', encToCap t = .ok c' ∧ c = f c' := by
  cases ht : encToCap t with
  | error e => simp [ht, bind, Except.bind] at h
  | ok c' =>
    simp [ht, bind, Except.bind, pure, Except.pure] at h
    exact ⟨c', rfl, h.symm⟩

theorem op_roundtrip (op : CodecOp) (c : CapOp) (h : serOp op = .ok c) : deserOp c = op := by
  cases op with
  | nullable => simp only [serOp] at h; cases h; rfl
  | pushDataSection n => simp only [serOp] at h; cases h; rfl
  | unpackStrings => simp only [serOp] at h; cases h; rfl
  | unhexpackStrings u n => simp only [serOp] at h; cases h; rfl
  | unknown => simp only [serOp] at h; cases h
  | add t a =>
    obtain ⟨c', hc, rfl⟩ := bind_encToCap t (fun x => CapOp.add x a) c h
    simp [deserOp, encToCap_ok t c' hc]
  | delta t =>
    obtain ⟨c', hc, rfl⟩ := bind_encToCap t (fun x => CapOp.delta x) c h
    simp [deserOp, encToCap_ok t c' hc]
  | toI64 t =>
    obtain ⟨c', hc, rfl⟩ := bind_encToCap t (fun x => CapOp.toI64 x) c h
    simp [deserOp, encToCap_ok t c' hc]
  | dictLookup t =>
    obtain ⟨c', hc, rfl⟩ := bind_encToCap t (fun x => CapOp.dictLookup x) c h
    simp [deserOp, encToCap_ok t c' hc]
  | lz4 t n =>
    obtain ⟨c', hc, rfl⟩ := bind_encToCap t (fun x => CapOp.lz4 x n) c h
    simp [deserOp, encToCap_ok t c' hc]
  | pco t n b =>
    obtain ⟨c', hc, rfl⟩ := bind_encToCap t (fun x => CapOp.pco x n b) c h
    simp [deserOp, encToCap_ok t c' hc]

theorem section_roundtrip (s : DataSection) : deserSection (serSection s) = s := by
  cases s <;> rfl

theorem mapM_ok_of_all {α β} (f : α → Except Fault β) (g : β → α) (l : List α)
    (hok : ∀ a ∈ l, (f a).isOk = true) (hg : ∀ a b, f a = .ok b → g b = a) :
    ∃ bs, l.mapM f = .ok bs ∧ bs.map g = l := by
  induction l with
  | nil => exact ⟨[], rfl, rfl⟩
  | cons a as ih =>
    obtain ⟨bs, hbs, hmap⟩ := ih (fun x hx => hok x (List.mem_cons_of_mem _ hx))
    cases hfa : f a with
    | error e => have := hok a (by simp); rw [hfa] at this; simp [Except.isOk, Except.toBool] at this
    | ok b =>
      refine ⟨b :: bs, ?_, ?_⟩
      · rw [List.mapM_cons, hfa, hbs]; rfl
      · simp [hg a b hfa, hmap]

theorem mapM_ok_pointwise {α β} (f : α → Except Fault β) (l : List α) (bs : List β)
    (h : ∀ p ∈ l.zip bs, f p.1 = .ok p.2) (hl : l.length = bs.length) : l.mapM f = .ok bs := by
  induction l generalizing bs with
  | nil => cases bs with
    | nil => rfl
    | cons b bs => simp at hl
  | cons a as ih =>
    cases bs with
    | nil => simp at hl
    | cons b bs =>
      have h1 := h (a, b) (by simp)
      simp only at h1
      rw [List.mapM_cons, h1, ih bs (fun p hp => h p (by simp [hp])) (by simpa using hl)]
      rfl

theorem columnNew_ok_eq (c c' : Column) (h : columnNew c = .ok c') : c' = c := by
  unfold columnNew at h
  split at h
  · split at h
    · cases h
    · split at h
      · cases h; rfl
      · cases h
  · cases ho : outputType c.codec (c.data.map (·.encodingType)) with
    | error e => simp [ho, bind, Except.bind] at h
    | ok t => simp [ho, bind, Except.bind, pure, Except.pure] at h; exact h.symm

/-! ### hash maps with distinct keys -/

theorem mapInsert_fresh {β} (m : List (Name × β)) (k : Name) (v : β) (h : k ∉ m.map (·.1)) :
    mapInsert m k v = m ++ [(k, v)] := by
  induction m with
  | nil => rfl
  | cons e rest ih =>
    obtain ⟨k', v'⟩ := e
    simp only [List.map_cons, List.mem_cons, not_or] at h
    have hne : ¬ k' = k := fun e => h.1 e.symm
    simp [mapInsert, hne, ih h.2]

theorem foldl_mapInsert {β} (acc l : List (Name × β)) (h : ((acc ++ l).map (·.1)).Nodup) :
    l.foldl (fun m e => mapInsert m e.1 e.2) acc = acc ++ l := by
  induction l generalizing acc with
  | nil => simp
  | cons e rest ih =>
    simp only [List.foldl_cons]
    have hfresh : e.1 ∉ acc.map (·.1) := by
      simp only [List.map_append, List.map_cons] at h
      rw [List.nodup_append] at h
      intro hm
      exact h.2.2 e.1 hm e.1 (by simp) rfl
    rw [mapInsert_fresh acc e.1 e.2 hfresh]
    have : (acc ++ [(e.1, e.2)]) ++ rest = acc ++ e :: rest := by simp
    rw [ih (acc ++ [(e.1, e.2)]) (by rw [this]; exact h), this]

theorem mapOfList_id {β} (l : List (Name × β)) (h : keysNodup l) : mapOfList l = l := by
  unfold mapOfList
  have := foldl_mapInsert [] l (by simpa [keysNodup] using h)
  simpa using this

theorem zip_map_fst_snd {α β} (xs : List (α × β)) : (xs.map (·.1)).zip (xs.map (·.2)) = xs := by
  induction xs with
  | nil => rfl
  | cons x xs ih => simp [ih]

theorem colData_roundtrip (d : ColumnData) : deserColData (serColData d) = d := by
  cases d <;> simp [serColData, deserColData, zip_map_fst_snd]

/-! ### catalogue -/

theorem partInsert_fresh (m : List PartitionMetadata) (p : PartitionMetadata)
    (h : (p.tablename, p.id) ∉ m.map (fun q => (q.tablename, q.id))) : partInsert m p = m ++ [p] := by
  induction m with
  | nil => rfl
  | cons q rest ih =>
    simp only [List.map_cons, List.mem_cons, not_or] at h
    have hne : ¬ (q.tablename = p.tablename ∧ q.id = p.id) := by
      intro ⟨h1, h2⟩; exact h.1 (by rw [h1, h2])
    simp [partInsert, hne, ih h.2]

theorem foldl_partInsert (acc l : List PartitionMetadata)
    (h : ((acc ++ l).map (fun q => (q.tablename, q.id))).Nodup) : l.foldl partInsert acc = acc ++ l := by
  induction l generalizing acc with
  | nil => simp
  | cons p rest ih =>
    simp only [List.foldl_cons]
    have hfresh : (p.tablename, p.id) ∉ acc.map (fun q => (q.tablename, q.id)) := by
      simp only [List.map_append, List.map_cons] at h
      rw [List.nodup_append] at h
      intro hm
      exact h.2.2 _ hm _ (by simp) rfl
    rw [partInsert_fresh acc p hfresh]
    have : (acc ++ [p]) ++ rest = acc ++ p :: rest := by simp
    rw [ih (acc ++ [p]) (by rw [this]; exact h), this]

end LM.Segment
