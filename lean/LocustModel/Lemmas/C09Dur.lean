import LocustModel.Lemmas.C09Fs
import LocustModel.Lemmas.C09Plan
/-
  C09 helper lemmas, part 3: the invariant `Dur` — kept by safe effects, moved forward by the two commit points (rename of a
  WAL segment, rename of the catalogue), and read back exactly by `recover`.
-/
namespace LM.Crash

theorem Mem.content_eq (m : Mem) (t : Tbl) : m.content t = pcontent m.parts t ++ rowsOfReqs m.pending t := rfl

/-! ### safe effects keep the durable state -/

/-- `Dur` looks only at the final names of the catalogue, of the referenced partitions and of the segments. -/
theorem Dur.congr {fs fs' : FS} {log : List Req} {m : Mem} (h : Dur fs log m)
    (hc : fs' (finP .catalogue) = fs (finP .catalogue))
    (hp : ∀ p ∈ m.parts, fs' (finP (partBase p)) = fs (finP (partBase p)))
    (hw : ∀ k, fs' (finP (.wal k)) = fs (finP (.wal k)) ∨ (k < m.cursor ∧ fs' (finP (.wal k)) = none)) : Dur fs' log m := by
  refine ⟨by rw [hc]; exact h.cat, fun p hp' => by rw [hp p hp']; exact h.parts p hp', h.keys, h.next, ?_, ?_, ?_, h.content⟩
  · intro i hi
    rcases hw (m.cursor + i) with h1 | h1
    · rw [h1]; exact h.walLive i hi
    · omega
  · intro k hk
    rcases hw k with h1 | h1
    · rw [h1]; exact h.walAbove k hk
    · exact h1.2
  · intro k hk
    rcases hw k with h1 | h1
    · rw [h1]; exact h.walBelow k hk
    · exact Or.inl h1.2

theorem Dur.safe {fs : FS} {log : List Req} {m : Mem} (h : Dur fs log m) {e : Eff} (hs : Safe m e) :
    Dur (applyEff fs e) log m := by
  cases e with
  | mkdir b => exact h
  | sync b => exact h
  | rmBegin p => exact h
  | create b => exact h.congr (applyEff_fin_soft _ _ _ rfl) (fun _ _ => applyEff_fin_soft _ _ _ rfl) (fun _ => Or.inl (applyEff_fin_soft _ _ _ rfl))
  | write b f => exact h.congr (applyEff_fin_soft _ _ _ rfl) (fun _ _ => applyEff_fin_soft _ _ _ rfl) (fun _ => Or.inl (applyEff_fin_soft _ _ _ rfl))
  | rename b =>
      obtain ⟨⟨t, id, rfl⟩, hnot⟩ := hs
      refine h.congr (applyEff_fin_other _ _ _ (by simp [Eff.base])) ?_ (fun k => Or.inl (applyEff_fin_other _ _ _ (by simp [Eff.base])))
      intro p hp
      apply applyEff_fin_other
      intro he
      exact hnot (by simp only [Eff.base] at he; rw [he]; exact List.mem_map_of_mem hp)
  | remove p =>
      rcases hs with hs | ⟨k, hk, hlt⟩ | ⟨⟨t, id, hb⟩, hnot⟩
      · have hne : ∀ b, finP b ≠ p := by intro b hb; rw [← hb] at hs; simp [finP] at hs
        have hfin : ∀ b, applyEff fs (.remove p) (finP b) = fs (finP b) := by
          intro b; simp [applyEff, FS.set, hne b]
        exact h.congr (hfin _) (fun _ _ => hfin _) (fun _ => Or.inl (hfin _))
      · refine h.congr (applyEff_fin_other _ _ _ (by simp [Eff.base, hk])) ?_ ?_
        · intro q _; exact applyEff_fin_other _ _ _ (by simp [Eff.base, hk, partBase])
        · intro k'
          by_cases hkk : k' = k
          · subst hkk
            by_cases hp : p = finP (.wal k')
            · right; exact ⟨hlt, by simp [applyEff, hp]⟩
            · left; simp only [applyEff]; exact FS.set_other _ _ _ _ (fun h => hp h.symm)
          · left; exact applyEff_fin_other _ _ _ (by simp [Eff.base, hk]; exact fun h => hkk h.symm)
      · refine h.congr (applyEff_fin_other _ _ _ (by simp [Eff.base, hb])) ?_ (fun k => Or.inl (applyEff_fin_other _ _ _ (by simp [Eff.base, hb])))
        intro q hq
        apply applyEff_fin_other
        intro he
        exact hnot (by simp only [Eff.base] at he; rw [he]; exact List.mem_map_of_mem hq)

/-- `Dur` holds after every sequence of safe effects. -/
theorem Dur.safe_effs {log : List Req} {m : Mem} : ∀ (es : List Eff) {fs : FS}, Dur fs log m → (∀ e ∈ es, Safe m e) →
    Dur (applyEffs fs es) log m := fun es _ h hs =>
  applyEffs_inv (I := fun fs => Dur fs log m) (P := Safe m) (fun _ _ hI hP => hI.safe hP) es _ h hs

theorem Safe.of_soft {m : Mem} {e : Eff} (h : e.soft = true) : Safe m e := by
  cases e <;> simp_all [Eff.soft, Safe]

/-- After any prefix of any interleaving of a pool of safe tasks. -/
theorem Dur.pool {fs : FS} {log : List Req} {m : Mem} (h : Dur fs log m) {tasks : List Task}
    (hs : ∀ t ∈ tasks, ∀ e ∈ t.effs, Safe m e) {tr pre : List Eff} (htr : PoolTrace tasks tr) (hpre : pre <+: tr) :
    Dur (applyEffs fs pre) log m :=
  h.safe_effs pre fun e he => by
    obtain ⟨t, ht, he'⟩ := htr.mem e (mem_of_prefix hpre he)
    exact hs t ht e he'

/-! ### partition files present -/

/-- Every partition of `ps` has its complete file under its final name. -/
def Has (fs : FS) (ps : List MPart) : Prop := ∀ p ∈ ps, fs (finP (partBase p)) = some (.part p.rows)

theorem Has.step {fs : FS} {ps : List MPart} (h : Has fs ps) {e : Eff} (he : e.soft = true ∨ e.base ∉ bases ps) :
    Has (applyEff fs e) ps := by
  intro p hp
  rcases he with he | he
  · rw [applyEff_fin_soft _ _ _ he]; exact h p hp
  · rw [applyEff_fin_other _ _ _ (fun hb => he (hb ▸ List.mem_map_of_mem hp))]; exact h p hp

theorem Has.steps {ps : List MPart} : ∀ (es : List Eff) {fs : FS}, Has fs ps → (∀ e ∈ es, e.soft = true ∨ e.base ∉ bases ps) →
    Has (applyEffs fs es) ps := fun es _ h hs =>
  applyEffs_inv (I := fun fs => Has fs ps) (P := fun e => e.soft = true ∨ e.base ∉ bases ps) (fun _ _ hI hP => hI.step hP) es _ h hs

/-- A completed pool of partition stores on distinct names. -/
theorem Has.of_pool (fs : FS) {ps : List MPart} (hn : (bases ps).Nodup) {tr : List Eff}
    (htr : PoolTrace (ps.map partTask) tr) : Has (applyEffs fs tr) ps := by
  intro p hp
  have h1 : PoolTrace ((ps.map fun p => (partBase p, File.part p.rows)).map fun x => storeTask x.1 x.2) tr := by
    rw [List.map_map]; exact htr
  have h2 : ((ps.map fun p => (partBase p, File.part p.rows)).map (·.1)).Nodup := by
    simpa [List.map_map, Function.comp_def, bases] using hn
  exact PoolTrace.store_complete fs h1 h2 (partBase p, File.part p.rows) (List.mem_map_of_mem hp)

/-! ### the two commit points -/

/-- Rename of the segment of the in-flight request: the request becomes durable, whole. -/
theorem Dur.commit_wal {fs : FS} {log : List Req} {m : Mem} (h : Dur fs log m) (r : Req)
    (htmp : fs (tmpP (.wal m.nextWal)) = some (.wal m.nextWal r)) :
    Dur (applyEff fs (.rename (.wal m.nextWal))) (log ++ [r]) (ingestPlan m r).2 := by
  have hfin : ∀ b, b ≠ Base.wal m.nextWal → applyEff fs (.rename (.wal m.nextWal)) (finP b) = fs (finP b) :=
    fun b hb => applyEff_fin_other _ _ _ (by simpa [Eff.base] using fun h => hb h.symm)
  have hnew : applyEff fs (.rename (.wal m.nextWal)) (finP (.wal m.nextWal)) = some (.wal m.nextWal r) := by
    simp only [applyEff, htmp]; simp [FS.set, finP, tmpP]
  have hnext := h.next
  refine ⟨?_, ?_, h.keys, ?_, ?_, ?_, ?_, ?_⟩
  · rw [hfin _ (by simp)]; exact h.cat
  · intro p hp; rw [hfin _ (by simp [partBase])]; exact h.parts p hp
  · simp [ingestPlan]; omega
  · intro i hi
    simp only [ingestPlan, List.length_append, List.length_singleton] at hi ⊢
    by_cases hlast : i = m.pending.length
    · subst hlast
      rw [← hnext, hnew]; simp
    · have hi' : i < m.pending.length := by omega
      rw [hfin _ (by simp; omega), h.walLive i hi']
      simp [List.getElem_append_left hi']
  · intro k hk
    simp only [ingestPlan] at hk
    rw [hfin _ (by simp; omega)]; exact h.walAbove k (by omega)
  · intro k hk
    simp only [ingestPlan] at hk
    rw [hfin _ (by simp; omega)]; exact h.walBelow k hk
  · intro t
    simp only [ingestPlan, Mem.content_eq, ackedRows, rowsOfReqs_append]
    have := h.content t
    simp only [Mem.content_eq, ackedRows] at this
    rw [← this]; simp

/-- Rename of the new catalogue: the flush becomes durable.  All partition files it references must be there already. -/
theorem Dur.commit_catalogue {fs : FS} {log : List Req} {m : Mem} (h : Dur fs log m) (ps' : List MPart)
    (htmp : fs (tmpP .catalogue) = some (.catalogue m.nextWal (ps'.map (·.pm))))
    (hhas : Has fs ps') (hkeys : (bases ps').Nodup) (hcontent : ∀ t, pcontent ps' t = m.content t) :
    Dur (applyEff fs (.rename .catalogue)) log ⟨m.nextWal, m.nextWal, ps', []⟩ := by
  have hfin : ∀ b, b ≠ Base.catalogue → applyEff fs (.rename .catalogue) (finP b) = fs (finP b) :=
    fun b hb => applyEff_fin_other _ _ _ (by simpa [Eff.base] using fun h => hb h.symm)
  have hnext := h.next
  refine ⟨?_, ?_, hkeys, by simp, ?_, ?_, ?_, ?_⟩
  · left; simp only [applyEff, htmp]; simp [FS.set, finP, tmpP]
  · intro p hp; rw [hfin _ (by simp [partBase])]; exact hhas p hp
  · intro i hi; simp at hi
  · intro k hk; rw [hfin _ (by simp)]; exact h.walAbove k hk
  · intro k hk
    simp only at hk
    rw [hfin _ (by simp)]
    by_cases hc : k < m.cursor
    · exact h.walBelow k hc
    · right
      have hi : k - m.cursor < m.pending.length := by omega
      have := h.walLive (k - m.cursor) hi
      have hk' : m.cursor + (k - m.cursor) = k := by omega
      rw [hk'] at this
      exact ⟨_, this⟩
  · intro t
    simp only [Mem.content_eq, rowsOfReqs_nil, List.append_nil]
    rw [hcontent t]; exact h.content t

/-! ### recovery reads the durable state back -/

theorem mapM_ok {α β : Type} (f : α → Except Outcome β) (g : α → β) :
    ∀ (l : List α), (∀ x ∈ l, f x = .ok (g x)) → l.mapM f = .ok (l.map g)
  | [], _ => rfl
  | a :: l, h => by
      rw [List.mapM_cons, h a (by simp), mapM_ok f g l (fun x hx => h x (by simp [hx]))]
      rfl

/-- The segments `canon c rs`: ids `c, c+1, …`, each under its final name. -/
def canon : Nat → List Req → List Seg
  | _, [] => []
  | c, r :: rs => ⟨finP (.wal c), c, r⟩ :: canon (c + 1) rs

theorem canon_req : ∀ (c : Nat) (rs : List Req), (canon c rs).map (·.req) = rs
  | _, [] => rfl
  | c, r :: rs => by simp [canon, canon_req (c + 1) rs]

theorem mem_canon : ∀ (c : Nat) (rs : List Req) (s : Seg),
    s ∈ canon c rs ↔ ∃ i, ∃ h : i < rs.length, s = ⟨finP (.wal (c + i)), c + i, rs[i]⟩
  | _, [], s => by simp [canon]
  | c, r :: rs, s => by
      simp only [canon, List.mem_cons, mem_canon (c + 1) rs s]
      constructor
      · rintro (h | ⟨i, hi, h⟩)
        · exact ⟨0, by simp, by simpa using h⟩
        · exact ⟨i + 1, by simp; omega, by rw [h]; simp [Nat.add_assoc, Nat.add_comm 1 i]⟩
      · rintro ⟨i, hi, h⟩
        cases i with
        | zero => left; simpa using h
        | succ i => right; exact ⟨i, by simpa using hi, by rw [h]; simp [Nat.add_assoc, Nat.add_comm 1 i]⟩

theorem canon_id_ge : ∀ (c : Nat) (rs : List Req), ∀ s ∈ canon c rs, c ≤ s.id := by
  intro c rs s hs
  obtain ⟨i, _, rfl⟩ := (mem_canon c rs s).1 hs
  simp

theorem canon_sorted : ∀ (c : Nat) (rs : List Req), (canon c rs).Pairwise (fun a b => a.id < b.id)
  | _, [] => by simp [canon]
  | c, r :: rs => by
      simp only [canon, List.pairwise_cons]
      exact ⟨fun s hs => by have := canon_id_ge (c + 1) rs s hs; simp; omega, canon_sorted (c + 1) rs⟩

theorem canon_contiguous : ∀ (c : Nat) (rs : List Req), contiguous ((canon c rs).map (·.id)) = true
  | _, [] => rfl
  | _, [_] => rfl
  | c, r :: r' :: rs => by
      have := canon_contiguous (c + 1) (r' :: rs)
      simp only [canon, List.map_cons, contiguous] at this ⊢
      simp [this]

theorem canon_next : ∀ (c : Nat) (rs : List Req), (canon c rs).foldl (fun n s => max n (s.id + 1)) c = c + rs.length
  | _, [] => rfl
  | c, r :: rs => by
      simp only [canon, List.foldl_cons, List.length_cons]
      have : max c (c + 1) = c + 1 := by omega
      rw [this, canon_next (c + 1) rs]; omega

/-- What a file name of `wal/` holds, as a segment (used for names that do hold a segment). -/
def segAt (fs : FS) (p : Path) : Seg :=
  match fs p with
  | some (.wal id r) => ⟨p, id, r⟩
  | _ => ⟨p, 0, ⟨[]⟩⟩

def partAt (fs : FS) (pm : PartMeta) : MPart :=
  match fs (finP (.part pm.table pm.id)) with
  | some (.part rows) => ⟨pm, rows⟩
  | _ => ⟨pm, []⟩

/-- Under `Dur`, every final name in `wal/` that exists holds a complete segment carrying the id of its name. -/
theorem Dur.wal_final {fs : FS} {log : List Req} {m : Mem} (h : Dur fs log m) (k : Nat) (hk : fs (finP (.wal k)) ≠ none) :
    (k < m.cursor ∧ ∃ r, fs (finP (.wal k)) = some (.wal k r)) ∨
    (∃ i, ∃ hi : i < m.pending.length, k = m.cursor + i ∧ fs (finP (.wal k)) = some (.wal k m.pending[i])) := by
  by_cases h1 : k < m.cursor
  · rcases h.walBelow k h1 with h2 | h2
    · exact absurd h2 hk
    · exact Or.inl ⟨h1, h2⟩
  · by_cases h2 : m.nextWal ≤ k
    · exact absurd (h.walAbove k h2) hk
    · have hn := h.next
      have hi : k - m.cursor < m.pending.length := by omega
      have := h.walLive (k - m.cursor) hi
      have hk' : m.cursor + (k - m.cursor) = k := by omega
      rw [hk'] at this
      exact Or.inr ⟨k - m.cursor, hi, hk'.symm, this⟩

/-- **Recovery reads back exactly the durable state**, whatever else lies in the directory and in whatever order the
    directory is listed; what it deletes are stale temp files of `wal/` and segments below the cursor — safe effects. -/
theorem Dur.recover {fs : FS} {log : List Req} {m : Mem} (h : Dur fs log m) {ls : List Path} (hls : Listing fs ls) :
    ∃ dels, recover fs ls = .ok (m, dels) ∧
      (∀ p, p ∈ dels ↔ p ∈ ls ∧ (p.tmp = true ∨ ∃ k, p = finP (.wal k) ∧ k < m.cursor)) ∧ dels.Nodup := by
  -- catalogue
  have hmeta : loadMeta fs = .ok (m.cursor, m.parts.map (·.pm)) := by
    rcases h.cat with hc | ⟨hc, h0, hp⟩
    · simp [loadMeta, hc]
    · simp [loadMeta, hc, h0, hp]
  -- the final names listed
  have hfinal : ∀ p ∈ ls.filter scanFilter, ∃ k, p = finP (.wal k) ∧ fs (finP (.wal k)) ≠ none := by
    intro p hp
    simp only [List.mem_filter, scanFilter, Bool.not_eq_true'] at hp
    have := (hls.2 p).1 hp.1
    obtain ⟨b, tmp⟩ := p
    simp only at hp
    cases b with
    | wal k => exact ⟨k, by simp [finP, hp.2], by simpa [finP, hp.2] using this.2⟩
    | catalogue => simp [inWalDir] at this
    | part t id => simp [inWalDir] at this
  have hload : ∀ p ∈ ls.filter scanFilter, loadSeg fs p = .ok (segAt fs p) := by
    intro p hp
    obtain ⟨k, rfl, hk⟩ := hfinal p hp
    rcases h.wal_final k hk with ⟨_, r, hr⟩ | ⟨i, hi, _, hr⟩ <;> simp [loadSeg, segAt, hr]
  have hsegs := mapM_ok (loadSeg fs) (segAt fs) _ hload
  -- partitions
  have hparts : (m.parts.map (·.pm)).mapM (loadPart fs) = .ok m.parts := by
    have h1 : ∀ pm ∈ m.parts.map (·.pm), loadPart fs pm = .ok (partAt fs pm) := by
      intro pm hpm
      obtain ⟨p, hp, rfl⟩ := List.mem_map.1 hpm
      have := h.parts p hp
      simp only [partBase] at this
      simp [loadPart, partAt, this]
    rw [mapM_ok (loadPart fs) (partAt fs) _ h1, List.map_map]
    congr 1
    conv => rhs; rw [← List.map_id m.parts]
    apply List.map_congr_left
    intro p hp
    have := h.parts p hp
    simp only [partBase] at this
    simp [partAt, this]
  -- the live segments, sorted, are the canonical ones
  let segs := (ls.filter scanFilter).map (segAt fs)
  have hlive : (segs.filter (fun s => ¬ s.id < m.cursor)).mergeSort (fun a b => a.id ≤ b.id) = canon m.cursor m.pending := by
    have hnd : (segs.filter (fun s => ¬ s.id < m.cursor)).Nodup := by
      refine List.Nodup.sublist List.filter_sublist ?_
      refine List.pairwise_map.2 ((hls.1.sublist List.filter_sublist).imp ?_)
      intro a b hne hab
      have ha : (segAt fs a).path = a := by simp only [segAt]; split <;> rfl
      have hb : (segAt fs b).path = b := by simp only [segAt]; split <;> rfl
      exact hne (by rw [← ha, ← hb, hab])
    have hcn : (canon m.cursor m.pending).Nodup := by
      refine (canon_sorted m.cursor m.pending).imp ?_
      intro a b hab he; subst he; omega
    have hmem : ∀ s, s ∈ segs.filter (fun s => ¬ s.id < m.cursor) ↔ s ∈ canon m.cursor m.pending := by
      intro s
      rw [mem_canon]
      simp only [segs, List.mem_filter, List.mem_map, decide_eq_true_eq]
      constructor
      · rintro ⟨⟨p, hp, rfl⟩, hge⟩
        obtain ⟨k, rfl, hk⟩ := hfinal p (by simpa [List.mem_filter] using hp)
        rcases h.wal_final k hk with ⟨hlt, r, hr⟩ | ⟨i, hi, hki, hr⟩
        · simp [segAt, hr] at hge; omega
        · subst hki; exact ⟨i, hi, by simp [segAt, hr]⟩
      · rintro ⟨i, hi, rfl⟩
        have hf := h.walLive i hi
        refine ⟨⟨finP (.wal (m.cursor + i)), ⟨?_, by simp [scanFilter, finP]⟩, by simp [segAt, hf]⟩, by simp⟩
        exact (hls.2 _).2 ⟨by simp [inWalDir, finP], by simp [hf]⟩
    have hperm : ((segs.filter (fun s => ¬ s.id < m.cursor)).mergeSort (fun a b => a.id ≤ b.id)).Perm (canon m.cursor m.pending) :=
      (List.mergeSort_perm _ _).trans ((List.perm_ext_iff_of_nodup hnd hcn).2 hmem)
    refine List.Perm.eq_of_pairwise (le := fun a b => a.id ≤ b.id) ?_ ?_ ?_ hperm
    · intro a b ha hb hab hba
      have ha' : a ∈ canon m.cursor m.pending := hperm.subset ha
      obtain ⟨i, _, rfl⟩ := (mem_canon _ _ _).1 ha'
      obtain ⟨j, _, rfl⟩ := (mem_canon _ _ _).1 hb
      have : i = j := by simp at hab hba; omega
      subst this; rfl
    · have := List.pairwise_mergeSort (le := fun (a b : Seg) => decide (a.id ≤ b.id))
        (fun a b c hab hbc => by simp at *; omega) (fun a b => by simp; omega)
        (segs.filter (fun s => ¬ s.id < m.cursor))
      exact this.imp (by simp)
    · exact (canon_sorted _ _).imp (fun h => Nat.le_of_lt h)
  have hpath : ∀ p, (segAt fs p).path = p := by intro p; simp only [segAt]; split <;> rfl
  refine ⟨ls.filter (fun p => !scanFilter p) ++ (segs.filter (fun s => s.id < m.cursor)).map (·.path), ?_, ?_, ?_⟩
  rotate_left 2
  · rw [List.nodup_append]
    refine ⟨hls.1.sublist List.filter_sublist, ?_, ?_⟩
    · have hsub : ((segs.filter (fun s => s.id < m.cursor)).map (·.path)).Sublist (segs.map (·.path)) :=
        List.Sublist.map _ List.filter_sublist
      refine List.Nodup.sublist hsub ?_
      have : segs.map (·.path) = ls.filter scanFilter := by
        simp only [segs, List.map_map]
        conv => rhs; rw [← List.map_id (ls.filter scanFilter)]
        exact List.map_congr_left (fun p _ => hpath p)
      rw [this]
      exact hls.1.sublist List.filter_sublist
    · intro a ha b hb hab
      subst hab
      simp only [List.mem_filter, Bool.not_eq_true', scanFilter, Bool.not_eq_false'] at ha
      obtain ⟨s, hs, rfl⟩ := List.mem_map.1 hb
      simp only [segs, List.mem_filter, List.mem_map] at hs
      obtain ⟨⟨q, hq, rfl⟩, _⟩ := hs
      rw [hpath] at ha
      simp [scanFilter, ha.2] at hq
  · simp only [LM.Crash.recover, hmeta, hsegs, hparts, bind, Except.bind]
    simp only [segs] at hlive
    rw [hlive, canon_contiguous, canon_next, canon_req]
    simp only [if_true]
    have hn := h.next
    cases m
    simp_all [segs]
  · intro p
    constructor
    · intro hp
      rcases List.mem_append.1 hp with hp | hp
      · simp only [List.mem_filter, scanFilter, Bool.not_not] at hp
        exact ⟨hp.1, Or.inl hp.2⟩
      · obtain ⟨s, hs, rfl⟩ := List.mem_map.1 hp
        simp only [segs, List.mem_filter, List.mem_map, decide_eq_true_eq] at hs
        obtain ⟨⟨q, hq, rfl⟩, hlt⟩ := hs
        obtain ⟨k, rfl, hk⟩ := hfinal q (by simpa [List.mem_filter] using hq)
        have hql : finP (.wal k) ∈ ls := hq.1
        rcases h.wal_final k hk with ⟨hlt', r, hr⟩ | ⟨i, hi, hki, hr⟩
        · simp only [segAt, hr]; exact ⟨hql, Or.inr ⟨k, rfl, hlt'⟩⟩
        · simp [segAt, hr] at hlt; omega
    · rintro ⟨hpl, hkind⟩
      rcases hkind with htmp | ⟨k, rfl, hk⟩
      · exact List.mem_append.2 (Or.inl (by simp [List.mem_filter, hpl, scanFilter, htmp]))
      · refine List.mem_append.2 (Or.inr ?_)
        have hne : fs (finP (.wal k)) ≠ none := ((hls.2 _).1 hpl).2
        rcases h.wal_final k hne with ⟨_, r, hr⟩ | ⟨i, hi, hki, hr⟩
        · refine List.mem_map.2 ⟨segAt fs (finP (.wal k)), ?_, by simp [segAt, hr]⟩
          simp only [segs, List.mem_filter, List.mem_map, decide_eq_true_eq]
          exact ⟨⟨finP (.wal k), ⟨hpl, by simp [scanFilter, finP]⟩, rfl⟩, by simp [segAt, hr, hk]⟩
        · omega

end LM.Crash
