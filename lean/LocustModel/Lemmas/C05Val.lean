import LocustModel.Lemmas.C05Sort
/-
  The concrete ORDER BY comparators (`valLe`, `keysLe`, `itemLe`) are total preorders.
-/
namespace LM.OrderSpec
open LM LM.Sql

theorem bytesLt_asymm : ∀ (a b : List UInt8), bytesLt a b = true → bytesLt b a = false
  | [], [], h => by simp [bytesLt] at h
  | [], _ :: _, _ => by simp [bytesLt]
  | _ :: _, [], h => by simp [bytesLt] at h
  | x :: a, y :: b, h => by
    simp only [bytesLt] at h ⊢
    by_cases h1 : x < y
    · have h2 : ¬ y < x := by rw [UInt8.lt_iff_toNat_lt] at *; omega
      simp [h1, h2]
    · by_cases h2 : y < x
      · simp [h1, h2] at h
      · simp [h1, h2] at h ⊢
        exact bytesLt_asymm a b h

theorem bytesLt_negtrans : ∀ (a b c : List UInt8), bytesLt b a = false → bytesLt c b = false → bytesLt c a = false
  | [], _, c, _, _ => by cases c <;> simp [bytesLt]
  | _ :: _, [], _, h1, _ => by simp [bytesLt] at h1
  | _ :: _, _ :: _, [], _, h2 => by simp [bytesLt] at h2
  | x :: a, y :: b, z :: c, h1, h2 => by
    simp only [bytesLt] at h1 h2 ⊢
    by_cases hyx : y < x
    · simp [hyx] at h1
    · by_cases hxy : x < y
      · -- x < y, so z ≥ y > x
        by_cases hzy : z < y
        · simp [hzy] at h2
        · have hzx : ¬ z < x := by rw [UInt8.lt_iff_toNat_lt] at *; omega
          have hxz : x < z := by rw [UInt8.lt_iff_toNat_lt] at *; omega
          simp [hzx, hxz]
      · simp [hyx, hxy] at h1
        have hxy' : x = y := by
          apply UInt8.toNat_inj.mp
          rw [UInt8.lt_iff_toNat_lt] at *; omega
        subst hxy'
        by_cases hzx : z < x
        · simp [hzx] at h2
        · by_cases hxz : x < z
          · simp [hzx, hxz]
          · simp [hzx, hxz] at h2 ⊢
            exact bytesLt_negtrans a b c h1 h2

theorem valLt_asymm (a b : Val) (h : valLt a b = true) : valLt b a = false := by
  cases a <;> cases b <;> simp [valLt, valRank] at h ⊢ <;> try omega
  exact bytesLt_asymm _ _ h

theorem valLt_negtrans (a b c : Val) (h1 : valLt b a = false) (h2 : valLt c b = false) :
    valLt c a = false := by
  cases a <;> cases b <;> cases c <;> simp [valLt, valRank] at h1 h2 ⊢ <;> try omega
  exact bytesLt_negtrans _ _ _ h1 h2

theorem valLe_totalPre (d : Bool) : TotalPre (valLe d) := by
  constructor
  · intro a b
    cases d <;> simp only [valLe, Bool.false_eq_true, if_false, if_true, Bool.not_eq_true']
    · cases h : valLt b a
      · exact Or.inl rfl
      · exact Or.inr (valLt_asymm _ _ h)
    · cases h : valLt a b
      · exact Or.inl rfl
      · exact Or.inr (valLt_asymm _ _ h)
  · intro a b c
    cases d <;> simp only [valLe, Bool.false_eq_true, if_false, if_true, Bool.not_eq_true']
    · intro h1 h2; exact valLt_negtrans a b c h1 h2
    · intro h1 h2; exact valLt_negtrans c b a h2 h1

theorem keysLe_cons (d : Bool) (ds : List Bool) (a b : List Val) :
    keysLe (d :: ds) a b =
      (if valLe d (a.headD .null) (b.headD .null) then
        (if valLe d (b.headD .null) (a.headD .null) then keysLe ds a.tail b.tail else true) else false) := rfl

theorem keysLe_totalPre : ∀ (dirs : List Bool), TotalPre (keysLe dirs)
  | [] => ⟨fun _ _ => Or.inl rfl, fun _ _ _ _ _ => rfl⟩
  | d :: ds => by
    have hv := valLe_totalPre d
    have ih := keysLe_totalPre ds
    constructor
    · intro a b
      rw [keysLe_cons, keysLe_cons]
      generalize a.headD Val.null = x
      generalize b.headD Val.null = y
      have ht := ih.total a.tail b.tail
      rcases hv.total x y with h1 | h1 <;> cases h2 : valLe d y x <;> cases h3 : valLe d x y <;> simp_all
    · intro a b c
      rw [keysLe_cons, keysLe_cons, keysLe_cons]
      generalize a.headD Val.null = x
      generalize b.headD Val.null = y
      generalize c.headD Val.null = z
      intro h1 h2
      cases hab : valLe d x y
      · simp [hab] at h1
      · cases hbc : valLe d y z
        · simp [hbc] at h2
        · have hac := hv.trans _ _ _ hab hbc
          simp only [hab, hbc, hac, if_true] at h1 h2 ⊢
          cases hca : valLe d z x
          · simp
          · have hcb := hv.trans _ _ _ hca hab
            have hba := hv.trans _ _ _ hbc hca
            simp only [hcb, hba, if_true] at h1 h2 ⊢
            exact ih.trans _ _ _ h1 h2

/-- The judge's comparator is the negation of the shared specification's strict order `Sql.keysLt` on key tuples
    of the right length. -/
theorem keysLe_eq_not_keysLt : ∀ (dirs : List Bool) (a b : List Val), a.length = dirs.length → b.length = dirs.length →
    keysLe dirs a b = !keysLt (b.zip dirs) (a.zip dirs)
  | [], a, b, ha, hb => by
    have : a = [] := List.eq_nil_of_length_eq_zero (by simpa using ha)
    have : b = [] := List.eq_nil_of_length_eq_zero (by simpa using hb)
    subst_vars; simp [keysLe, keysLt]
  | d :: ds, [], _, ha, _ => by simp at ha
  | d :: ds, _ :: _, [], _, hb => by simp at hb
  | d :: ds, x :: a, y :: b, ha, hb => by
    have ih := keysLe_eq_not_keysLt ds a b (by simpa using ha) (by simpa using hb)
    rw [keysLe_cons]
    simp only [List.headD_cons, List.tail_cons, List.zip_cons_cons, keysLt, valLe]
    rw [ih]
    cases d <;> by_cases h1 : valLt x y = true <;> by_cases h2 : valLt y x = true <;> simp [h1, h2]

theorem itemLe_totalPre (dirs : List Bool) : TotalPre (itemLe dirs) :=
  ⟨fun a b => (keysLe_totalPre dirs).total a.1 b.1,
   fun a b c => (keysLe_totalPre dirs).trans a.1 b.1 c.1⟩

end LM.OrderSpec
