import LocustModel.Query.StreamOps
import LocustModel.Lemmas.C02Agg
/-
  Helper lemmas for C02: the chunk law for the operators of Query/StreamOps.lean.
-/
namespace LM.C02L
open LM LM.Combine LM.StreamOps

theorem presentIdx_append {α : Type} (a b : List (α × Bool)) :
    presentIdx (a ++ b) = presentIdx a ++ (presentIdx b).map (· + a.length) := by
  unfold presentIdx
  rw [enumFrom_append, List.filter_append, List.map_append]
  congr 1
  have := enumFrom_shift 0 a.length b
  rw [this, List.filter_map, List.map_map, List.map_map]
  apply List.map_congr_left
  intro p _
  simp [Function.comp]

theorem bufferStreamOp_lawful {α : Type} : (bufferStreamOp (α := α)).Lawful := by
  constructor <;> intros <;> simp [bufferStreamOp]

theorem bufferNullOp_lawful {α : Type} : (bufferNullOp (α := α)).Lawful := by
  constructor
  · intro s; simp [bufferNullOp]
  · intro s a b; simp [bufferNullOp]; omega

theorem bufferNullableOp_lawful {α : Type} : (bufferNullableOp (α := α)).Lawful := by
  constructor
  · intro s; simp [bufferNullableOp, presentIdx, enumFrom]
  · intro s a b
    simp only [bufferNullableOp, List.append_nil]
    refine Prod.ext (Prod.ext ?_ ?_) rfl
    · simp
    · simp only [presentIdx_append, List.map_append, List.map_map, List.append_assoc, List.length_append,
        List.length_map]
      congr 2
      apply List.map_congr_left
      intro i _
      simp only [Function.comp]
      omega

theorem valToNullableOp_lawful : valToNullableOp.Lawful := by
  constructor
  · intro s
    have := bufferNullableOp_lawful (α := Int) |>.1 s
    simpa [valToNullableOp] using this
  · intro s a b
    have := (bufferNullableOp_lawful (α := Int)).2 s (a.map fun v => (v.getD 0, v.isSome)) (b.map fun v => (v.getD 0, v.isSome))
    simpa [valToNullableOp, List.map_append] using this

theorem selectOp_lawful {α : Type} (data : List α) : (selectOp data).Lawful := by
  constructor <;> intros <;> simp [selectOp]

theorem selectBlockOp_lawful {α : Type} (data : List α) : (selectBlockOp data).Lawful := by
  constructor <;> intros <;> simp [selectBlockOp]

theorem selectNullableOp_lawful {α : Type} (data : List (α × Bool)) : (selectNullableOp data).Lawful := by
  constructor <;> intros <;> simp [selectNullableOp]

theorem compactOp_lawful {α : Type} : (compactOp (α := α)).Lawful := by
  constructor <;> intros <;> simp [compactOp]

theorem mergeKeepGo_append {α : Type} (left right : List α) (s : Nat × Nat) (a b : List Bool) :
    mergeKeepGo left right s (a ++ b)
      = ((mergeKeepGo left right (mergeKeepGo left right s a).1 b).1,
         (mergeKeepGo left right s a).2 ++ (mergeKeepGo left right (mergeKeepGo left right s a).1 b).2) := by
  induction a generalizing s with
  | nil => simp [mergeKeepGo]
  | cons f fs ih =>
    cases f <;> simp [mergeKeepGo, ih]

theorem mergeKeepOp_lawful {α : Type} (left right : List α) : (mergeKeepOp left right).Lawful := by
  constructor
  · intro s; simp [mergeKeepOp, mergeKeepGo]
  · intro s a b; exact mergeKeepGo_append left right s a b

/-- Compact on whole buffers = the chunk operator on the zipped input. -/
theorem compact_eq_step {α : Type} (data : List α) (select : List Int) :
    compact data select = (compactOp.step () (data.zip select)).2 := rfl

/-! ### what the buffered bitmap says -/

theorem mem_enumFrom {α : Type} (s : Nat) (c : List α) (k : Nat) (x : α) :
    (k, x) ∈ enumFrom s c ↔ s ≤ k ∧ c[k - s]? = some x := by
  induction c generalizing s with
  | nil => simp [enumFrom]
  | cons y ys ih =>
    simp only [enumFrom, List.mem_cons, Prod.mk.injEq, ih]
    constructor
    · rintro (⟨rfl, rfl⟩ | ⟨h1, h2⟩)
      · simp
      · refine ⟨by omega, ?_⟩
        have : k - s = (k - (s + 1)) + 1 := by omega
        rw [this, List.getElem?_cons_succ]; exact h2
    · rintro ⟨h1, h2⟩
      rcases Nat.eq_or_lt_of_le h1 with h | h
      · left; subst h; simpa using h2.symm
      · right
        refine ⟨by omega, ?_⟩
        have : k - s = (k - (s + 1)) + 1 := by omega
        rw [this, List.getElem?_cons_succ] at h2; exact h2

/-- Bit `i` is in the model bitmap of a chunk exactly when element `i` exists and is present. -/
theorem mem_presentIdx {α : Type} (c : List (α × Bool)) (i : Nat) :
    i ∈ presentIdx c ↔ ∃ x, c[i]? = some (x, true) := by
  unfold presentIdx
  simp only [List.mem_map, List.mem_filter]
  constructor
  · rintro ⟨⟨k, x, b⟩, ⟨hm, hb⟩, rfl⟩
    have := (mem_enumFrom 0 c k (x, b)).mp hm
    simp only at hb
    subst hb
    exact ⟨x, by simpa using this.2⟩
  · rintro ⟨x, hx⟩
    exact ⟨(i, x, true), ⟨(mem_enumFrom 0 c i (x, true)).mpr ⟨by omega, by simpa using hx⟩, rfl⟩, rfl⟩

end LM.C02L
