import LocustModel.Lemmas.StoreExample
/-
  A concrete history for the non-vacuity `example` of `C13_valueless_column_catalogued`: column 9 of table 1 FIRST appears
  in a batch that has no value for it (two rows, both NULL); a flush and a restart later a batch brings a value; then a
  flush, a restart (reversed replay order), a batch that does not mention the column, a COMPACTING flush and a restart.
-/
namespace LM.Store.Ex
open LM.Store

def n1 : Request Nat Nat := [(.user 1, ⟨2, [(.user 7, [.val 1, .val 2]), (.user 9, [.null, .null])]⟩)]
def n2 : Request Nat Nat := [(.user 1, ⟨1, [(.user 7, [.val 3]), (.user 9, [.val 7])]⟩)]
def n3 : Request Nat Nat := [(.user 1, ⟨1, [(.user 7, [.val 4])]⟩)]

def opsN : List (Op Nat Nat) :=
  [.ingest n1 10, .flush fiPlain, .restart idOrder, .ingest n2 5, .flush fiPlain, .restart revOrder, .ingest n3 5,
   .flush fiCompact, .restart idOrder]

theorem n1_wf : ReqWF n1 := ⟨by simp [n1], by intro sh h; simp [n1] at h; subst h; simp [Batch.names]⟩
theorem n2_wf : ReqWF n2 := ⟨by simp [n2], by intro sh h; simp [n2] at h; subst h; simp [Batch.names]⟩
theorem n3_wf : ReqWF n3 := ⟨by simp [n3], by intro sh h; simp [n3] at h; subst h; simp [Batch.names]⟩

theorem opsN_wf : HistWF opsN := by
  intro op h
  simp only [opsN, List.mem_cons, List.mem_nil_iff, or_false] at h
  rcases h with rfl | rfl | rfl | rfl | rfl | rfl | rfl | rfl | rfl
  · exact n1_wf
  · exact fiPlain_wf
  · exact idOrder_perm
  · exact n2_wf
  · exact fiPlain_wf
  · exact revOrder_perm
  · exact n3_wf
  · exact fiCompact_wf
  · exact idOrder_perm

end LM.Store.Ex
