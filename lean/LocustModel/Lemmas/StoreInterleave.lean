import LocustModel.Lemmas.StoreDurableTotal
import LocustModel.Store.Interleave
/-
  Invariant `IDurable` of the INTERLEAVED storage machine (`Store/Interleave.lean`): `wal_flush` in its real steps with
  ingestion in between.
    * quiescent (no flush in flight):   `Durable`
    * after the freeze block:           `StageA` (Lemmas/StoreDurableFlush.lean): as if not frozen, frozen buffers = share
                                        of the captured segments, open buffers = share of the segments written since
    * after batching / persist_metastore / delete_orphaned_partitions:  COMPLETING the flush (the remaining steps are
      deterministic and touch only the cursor, the catalogue file, files scheduled for deletion and the CAPTURED
      segments) gives a `Durable` world.
  Ingestion preserves each clause because it COMMUTES with `unfreeze` and with the remaining steps of the flush
  (`ingest_unfreeze`, `ingest_persistMeta`, `ingest_deleteOrphans`, `ingest_deleteWal` — the last one needs
  `hi ≤ next_wal_id`: the new segment is outside the captured range).
-/
namespace LM.Store
set_option linter.unusedSectionVars false
set_option linter.unusedSimpArgs false
set_option linter.unusedVariables false

variable {ν κ : Type} [DecidableEq ν]

-- ------------------------------------------------------------------------------------------------ ingest commutes with unfreeze

def unfreezeTabs (T : Tables ν κ) : Tables ν κ := fun t => (T t).map unfreezeT

def unfreezeAcc (acc : PreAcc ν κ) : PreAcc ν κ := { acc with tables := unfreezeTabs acc.tables }

theorem foldE_map {σ α : Type} (f : σ → α → Except Fault σ) (g : σ → σ)
    (hfg : ∀ s a, f (g s) a = (f s a).map g) : ∀ (l : List α) (s : σ), foldE f l (g s) = (foldE f l s).map g := by
  intro l
  induction l with
  | nil => intro s; rfl
  | cons a as ih =>
    intro s
    simp only [foldE, hfg]
    cases f s a with
    | error e => rfl
    | ok s' => simp only [Except.map]; exact ih s'

theorem tableBatches_unfreezeT (tm : TableMem ν κ) : tableBatches (unfreezeT tm) = tableBatches tm := by
  simp only [tableBatches, unfreezeT]
  cases partsRows tm.parts 0 <;> simp [List.append_assoc]

theorem queryColumnNames_unfreeze (T : Tables ν κ) (n : ν) : queryColumnNames (unfreezeTabs T) n = queryColumnNames T n := by
  unfold queryColumnNames
  cases h : T (.metaCols n) with
  | none => simp [unfreezeTabs, h]
  | some tm => simp [unfreezeTabs, h, tableBatches_unfreezeT]

theorem setTable_unfreeze (T : Tables ν κ) (t : TName ν) (tm : TableMem ν κ) :
    unfreezeTabs (setTable T t tm) = setTable (unfreezeTabs T) t (unfreezeT tm) := by
  funext t'
  simp only [unfreezeTabs, setTable]
  split <;> simp

theorem ensureNames_unfreeze (T : Tables ν κ) (n : ν) :
    ensureNames (unfreezeTabs T) n = (ensureNames T n).map (fun x => (unfreezeTabs x.1, x.2)) := by
  unfold ensureNames
  cases h : T (.user n) with
  | none => simp [unfreezeTabs, h, Except.map]
  | some tm =>
    have h' : unfreezeTabs T (.user n) = some (unfreezeT tm) := by simp [unfreezeTabs, h]
    simp only [h']
    cases hc : tm.colNames with
    | some s =>
      have : (unfreezeT tm).colNames = some s := hc
      simp [this, Except.map]
    | none =>
      have : (unfreezeT tm).colNames = none := hc
      simp only [this, queryColumnNames_unfreeze]
      cases queryColumnNames T n with
      | error e => simp [Except.map]
      | ok s =>
        simp only [Except.map, setTable_unfreeze]
        rfl

theorem createIfEmpty_unfreeze (P : Params ν κ) (T : Tables ν κ) (t : TName ν) :
    createIfEmpty P (unfreezeTabs T) t = (unfreezeTabs (createIfEmpty P T t).1, (createIfEmpty P T t).2) := by
  unfold createIfEmpty
  cases h : T t with
  | some tm => simp [unfreezeTabs, h]
  | none =>
    have h' : unfreezeTabs T t = none := by simp [unfreezeTabs, h]
    simp only [h', setTable_unfreeze]
    have e : unfreezeT (newTable P t (some [])) = newTable P t (some []) := by
      cases t <;> simp [unfreezeT, newTable]
    rw [e]

theorem ingestPre1_unfreeze (P : Params ν κ) (acc : PreAcc ν κ) (sh : Share ν κ) :
    ingestPre1 P (unfreezeAcc acc) sh = (ingestPre1 P acc sh).map unfreezeAcc := by
  unfold ingestPre1
  split
  · rename_i n hn
    simp only [unfreezeAcc, createIfEmpty_unfreeze, ensureNames_unfreeze]
    cases ensureNames (createIfEmpty P (createIfEmpty P acc.tables (.user n)).1 (.metaCols n)).1 n with
    | error e => simp [Except.map]
    | ok x => cases x; simp [Except.map, unfreezeAcc]
  · simp [Except.map]

theorem ingestHomogeneous_unfreeze (tm : TableMem ν κ) (b : Batch ν κ) :
    ingestHomogeneous (unfreezeT tm) b = (ingestHomogeneous tm b).map unfreezeT := by
  unfold ingestHomogeneous
  have : (unfreezeT tm).colNames = tm.colNames := rfl
  rw [this]
  cases tm.colNames with
  | none => simp [Except.map]
  | some s =>
    simp only
    split
    · simp [Except.map]
    · simp [Except.map, unfreezeT, List.append_assoc]

theorem applyShare_unfreeze (T : Tables ν κ) (sh : Share ν κ) :
    applyShare (unfreezeTabs T) sh = (applyShare T sh).map unfreezeTabs := by
  unfold applyShare
  cases h : T sh.1 with
  | none => simp [unfreezeTabs, h, Except.map]
  | some tm =>
    have h' : unfreezeTabs T sh.1 = some (unfreezeT tm) := by simp [unfreezeTabs, h]
    simp only [h', ingestHomogeneous_unfreeze]
    cases ingestHomogeneous tm sh.2 with
    | error e => simp [Except.map]
    | ok tm' => simp [Except.map, setTable_unfreeze]

/-- Ingestion does not see whether the older rows of a table sit in the frozen or in the open buffer. -/
theorem ingest_unfreeze (P : Params ν κ) (w : World ν κ) (r : Request ν κ) (bytes : Nat) :
    ingest P (unfreeze w) r bytes = (ingest P w r bytes).map unfreeze := by
  unfold ingest
  have h0 : ({ tables := (unfreeze w).mem.tables, metaRows := [], colRows := [] } : PreAcc ν κ)
      = unfreezeAcc { tables := w.mem.tables, metaRows := [], colRows := [] } := rfl
  rw [h0, foldE_map (ingestPre1 P) unfreezeAcc (ingestPre1_unfreeze P)]
  cases foldE (ingestPre1 P) r { tables := w.mem.tables, metaRows := [], colRows := [] } with
  | error e => simp [Except.map]
  | ok acc =>
    simp only [Except.map]
    have h1 : augment r (unfreezeAcc acc) = augment r acc := rfl
    have h2 : (unfreezeAcc acc).tables = unfreezeTabs acc.tables := rfl
    rw [h1, h2, foldE_map applyShare unfreezeTabs applyShare_unfreeze]
    cases foldE applyShare (augment r acc) acc.tables with
    | error e => simp [Except.map]
    | ok T' =>
      simp only [Except.map, unfreeze]
      simp [List.sum_append]
      rfl

-- ------------------------------------------------------------------------------------------------ ingest keeps the frozen buffers

/-- Frozen buffers of existing tables are untouched; new tables have an empty one. -/
def FrozenKeep (T T' : Tables ν κ) : Prop :=
  (∀ t tm, T t = some tm → ∃ tm', T' t = some tm' ∧ tm'.frozen = tm.frozen) ∧
  (∀ t tm', T t = none → T' t = some tm' → tm'.frozen = [])

theorem FrozenKeep.refl (T : Tables ν κ) : FrozenKeep T T :=
  ⟨fun t tm h => ⟨tm, h, rfl⟩, fun t tm' h h' => by rw [h] at h'; cases h'⟩

theorem FrozenKeep.trans {T T' T'' : Tables ν κ} (h1 : FrozenKeep T T') (h2 : FrozenKeep T' T'') : FrozenKeep T T'' := by
  constructor
  · intro t tm ht
    obtain ⟨tm', ht', e1⟩ := h1.1 t tm ht
    obtain ⟨tm'', ht'', e2⟩ := h2.1 t tm' ht'
    exact ⟨tm'', ht'', e2.trans e1⟩
  · intro t tm'' ht ht''
    cases ht' : T' t with
    | none => exact h2.2 t tm'' ht' ht''
    | some tm' =>
      have e1 := h1.2 t tm' ht ht'
      obtain ⟨tm2, ht2, e2⟩ := h2.1 t tm' ht'
      rw [ht''] at ht2; cases ht2
      rw [e2, e1]

theorem FrozenKeep.set {T : Tables ν κ} {t : TName ν} {tm tm' : TableMem ν κ} (h : T t = some tm) (e : tm'.frozen = tm.frozen) :
    FrozenKeep T (setTable T t tm') := by
  constructor
  · intro t' x hx
    by_cases ht : t' = t
    · subst ht; rw [h] at hx; cases hx; exact ⟨tm', by simp [setTable], e⟩
    · exact ⟨x, by simp [setTable, ht, hx], rfl⟩
  · intro t' x hx hx'
    by_cases ht : t' = t
    · subst ht; rw [h] at hx; cases hx
    · simp [setTable, ht, hx] at hx'

theorem FrozenKeep.create (P : Params ν κ) (T : Tables ν κ) (t : TName ν) : FrozenKeep T (createIfEmpty P T t).1 := by
  unfold createIfEmpty
  cases h : T t with
  | some tm => exact FrozenKeep.refl T
  | none =>
    constructor
    · intro t' x hx
      have ht : t' ≠ t := by intro e; subst e; rw [h] at hx; cases hx
      exact ⟨x, by simp [setTable, ht, hx], rfl⟩
    · intro t' x hx hx'
      by_cases ht : t' = t
      · subst ht
        simp only [setTable, if_true, Option.some.injEq] at hx'
        subst hx'
        cases t' <;> rfl
      · simp [setTable, ht, hx] at hx'

theorem FrozenKeep.ensure {T T' : Tables ν κ} {n : ν} {s : List (CName ν)} (h : ensureNames T n = .ok (T', s)) : FrozenKeep T T' := by
  unfold ensureNames at h
  split at h
  · cases h
  · rename_i tm htm
    split at h
    · cases h; exact FrozenKeep.refl T
    · split at h
      · cases h; exact FrozenKeep.set htm rfl
      · cases h

theorem FrozenKeep.pre1 {P : Params ν κ} {acc acc' : PreAcc ν κ} {sh : Share ν κ} (h : ingestPre1 P acc sh = .ok acc') :
    FrozenKeep acc.tables acc'.tables := by
  unfold ingestPre1 at h
  split at h
  · rename_i n hn
    simp only at h
    split at h
    · cases h
    · rename_i T3 names he
      cases h
      exact ((FrozenKeep.create P acc.tables (.user n)).trans (FrozenKeep.create P _ (.metaCols n))).trans (FrozenKeep.ensure he)
  · cases h

theorem FrozenKeep.preFold {P : Params ν κ} : ∀ (r : Request ν κ) (acc acc' : PreAcc ν κ),
    foldE (ingestPre1 P) r acc = .ok acc' → FrozenKeep acc.tables acc'.tables := by
  intro r
  induction r with
  | nil => intro acc acc' h; simp [foldE] at h; subst h; exact FrozenKeep.refl _
  | cons sh r ih =>
    intro acc acc' h
    simp only [foldE] at h
    split at h
    · rename_i acc1 h1
      exact (FrozenKeep.pre1 h1).trans (ih acc1 acc' h)
    · cases h

theorem FrozenKeep.apply {T T' : Tables ν κ} {sh : Share ν κ} (h : applyShare T sh = .ok T') : FrozenKeep T T' := by
  unfold applyShare at h
  split at h
  · cases h
  · rename_i tm htm
    split at h
    · rename_i tm' hi
      cases h
      apply FrozenKeep.set htm
      unfold ingestHomogeneous at hi
      split at hi
      · cases hi
      · split at hi
        · cases hi
        · cases hi; rfl
    · cases h

theorem FrozenKeep.applyFold : ∀ (evs : Request ν κ) (T T' : Tables ν κ), foldE applyShare evs T = .ok T' → FrozenKeep T T' := by
  intro evs
  induction evs with
  | nil => intro T T' h; simp [foldE] at h; subst h; exact FrozenKeep.refl _
  | cons sh evs ih =>
    intro T T' h
    simp only [foldE] at h
    split at h
    · rename_i T1 h1
      exact (FrozenKeep.apply h1).trans (ih T1 T' h)
    · cases h

/-- What `ingest_efficient` changes: the tables (frozen buffers untouched), one more segment with the next id, the
    accounted size, the ghost log.  Nothing else. -/
theorem ingest_shape (P : Params ν κ) (w w' : World ν κ) (r : Request ν κ) (bytes : Nat) (h : ingest P w r bytes = .ok w') :
    ∃ ev T', FrozenKeep w.mem.tables T' ∧
      w' = { mem := { tables := T', cat := { w.mem.cat with nextWal := w.mem.cat.nextWal + 1 }, walSize := w.mem.walSize + bytes },
             disk := { w.disk with wal := w.disk.wal ++ [⟨w.mem.cat.nextWal, ev, bytes⟩] },
             log := w.log ++ [ev], lossy := w.lossy } := by
  unfold ingest at h
  split at h
  · cases h
  · rename_i acc hacc
    simp only at h
    split at h
    · cases h
    · rename_i T' hT'
      cases h
      exact ⟨augment r acc, T', (FrozenKeep.preFold r _ acc hacc).trans (FrozenKeep.applyFold _ _ T' hT'), rfl⟩

-- ------------------------------------------------------------------------------------------------ ingest after the freeze block

theorem logOf_eq_nil_of_append {t : TName ν} {a b c : List (Request ν κ)} (h : logOf t ((a ++ b) ++ c) = []) : logOf t b = [] := by
  rw [logOf_append, logOf_append] at h
  exact (List.append_eq_nil_iff.mp (List.append_eq_nil_iff.mp h).1).2

/-- An ingestion that runs after the freeze block of a flush (before its batching ended): its segment joins the
    segments written since the freeze, its rows go to the open buffers. -/
theorem StageA.ingest {P : Params ν κ} {w w' : World ν κ} {r : Request ν κ} {bytes : Nat} {lo hi pre midF postF}
    (ha : StageA w lo hi pre midF postF) (hwf : ReqWF r) (h : ingest P w r bytes = .ok w') :
    ∃ ev, StageA w' lo hi pre midF (postF ++ [⟨w.mem.cat.nextWal, ev, bytes⟩]) := by
  have hu : LM.Store.ingest P (unfreeze w) r bytes = .ok (unfreeze w') := by rw [ingest_unfreeze, h]; rfl
  have hd' := ha.dur.ingest hwf hu
  obtain ⟨ev, T', hfk, rfl⟩ := ingest_shape P w w' r bytes h
  refine ⟨ev, ?_⟩
  constructor
  · exact hd'
  · simp only [ha.split, List.append_assoc]
  · exact ha.midIds
  · exact ha.lo_eq
  · exact ha.lo_le
  · have := ha.hi_le; simp only; omega
  · intro t tm' htm'
    simp only at htm'
    cases hw : w.mem.tables t with
    | some tm =>
      obtain ⟨tm2, h2, e2⟩ := hfk.1 t tm hw
      rw [htm'] at h2; cases h2
      rw [e2]; exact ha.frozen t tm hw
    | none =>
      rw [hfk.2 t tm' hw htm']
      have := (ha.dur.absent t (by simp [unfreeze, hw])).2.1
      have e : (unfreeze w).log = w.log := rfl
      rw [e, ha.log] at this
      exact (logOf_eq_nil_of_append this).symm
  · simp [ha.size, List.sum_append]

-- ------------------------------------------------------------------------------------------------ ingest commutes with the rest of a flush

theorem ingest_persistMeta (P : Params ν κ) (w : World ν κ) (r : Request ν κ) (bytes c : Nat) :
    ingest P (persistMeta w c) r bytes = (ingest P w r bytes).map (fun x => persistMeta x c) := by
  unfold ingest
  have e : (persistMeta w c).mem.tables = w.mem.tables := rfl
  rw [e]
  cases foldE (ingestPre1 P) r { tables := w.mem.tables, metaRows := [], colRows := [] } with
  | error e => simp [Except.map]
  | ok acc =>
    simp only
    cases foldE applyShare (augment r acc) acc.tables with
    | error e => simp [Except.map]
    | ok T' => simp [Except.map, persistMeta]

theorem ingest_deleteOrphans (P : Params ν κ) (w : World ν κ) (r : Request ν κ) (bytes : Nat) (toDel : TName ν → List (Nat × String)) :
    ingest P (deleteOrphans w toDel) r bytes = (ingest P w r bytes).map (fun x => deleteOrphans x toDel) := by
  unfold ingest
  have e : (deleteOrphans w toDel).mem.tables = w.mem.tables := rfl
  rw [e]
  cases foldE (ingestPre1 P) r { tables := w.mem.tables, metaRows := [], colRows := [] } with
  | error e => simp [Except.map]
  | ok acc =>
    simp only
    cases foldE applyShare (augment r acc) acc.tables with
    | error e => simp [Except.map]
    | ok T' => simp [Except.map, deleteOrphans]

/-- The new segment's id is outside the captured range `lo..hi` as soon as `hi ≤ next_wal_id`. -/
theorem ingest_deleteWal (P : Params ν κ) (w : World ν κ) (r : Request ν κ) (bytes lo hi : Nat) (hhi : hi ≤ w.mem.cat.nextWal) :
    ingest P (deleteWal w lo hi) r bytes = (ingest P w r bytes).map (fun x => deleteWal x lo hi) := by
  unfold ingest
  have e : (deleteWal w lo hi).mem.tables = w.mem.tables := rfl
  rw [e]
  cases foldE (ingestPre1 P) r { tables := w.mem.tables, metaRows := [], colRows := [] } with
  | error e => simp [Except.map]
  | ok acc =>
    simp only
    cases foldE applyShare (augment r acc) acc.tables with
    | error e => simp [Except.map]
    | ok T' =>
      simp [Except.map, deleteWal, List.filter_append]
      rw [List.filter_cons_of_pos (by simp; omega)]
      rfl

theorem Except.map_map' {ε α β γ : Type} (x : Except ε α) (g : α → β) (h : β → γ) : (x.map g).map h = x.map (fun a => h (g a)) := by
  cases x <;> rfl

-- ------------------------------------------------------------------------------------------------ the invariant

/-- What the remaining steps of the flight do to the world (they are deterministic once batching is over). -/
def finishFrom (f : Flight ν) (w : World ν κ) : World ν κ :=
  match f.stage with
  | .frozen => w
  | .batched => deleteWal (deleteOrphans (persistMeta w f.hi) f.toDel) f.lo f.hi
  | .persisted => deleteWal (deleteOrphans w f.toDel) f.lo f.hi
  | .swept => deleteWal w f.lo f.hi
  | .wiped => w

theorem ingest_finishFrom (P : Params ν κ) (f : Flight ν) (w : World ν κ) (r : Request ν κ) (bytes : Nat)
    (hhi : f.hi ≤ w.mem.cat.nextWal) :
    ingest P (finishFrom f w) r bytes = (ingest P w r bytes).map (finishFrom f) := by
  unfold finishFrom
  cases f.stage with
  | frozen => cases ingest P w r bytes <;> rfl
  | batched =>
    simp only
    rw [ingest_deleteWal P _ r bytes f.lo f.hi (by simpa [deleteOrphans, persistMeta] using hhi), ingest_deleteOrphans,
      ingest_persistMeta, Except.map_map', Except.map_map']
  | persisted =>
    simp only
    rw [ingest_deleteWal P _ r bytes f.lo f.hi (by simpa [deleteOrphans] using hhi), ingest_deleteOrphans, Except.map_map']
  | swept =>
    simp only
    rw [ingest_deleteWal P _ r bytes f.lo f.hi hhi]
  | wiped => cases ingest P w r bytes <;> rfl

/-- Invariant of the interleaved machine. -/
def IDurable (iw : IWorld ν κ) : Prop :=
  match iw.fl with
  | none => Durable iw.w
  | some f =>
    match f.stage with
    | .frozen => ∃ pre midF postF, StageA iw.w f.lo f.hi pre midF postF
    | _ => (∃ pre, DurableAt (finishFrom f iw.w) pre) ∧ f.hi ≤ iw.w.mem.cat.nextWal

/-- Well-formed inputs of one step (as `OpWF`). -/
def IOpWF : IOp ν κ → Prop
  | .ingest r _ => ReqWF r
  | .flushBatch fi => FlushWF fi
  | .restart order => ∀ id r, (order id r).Perm r
  | _ => True

def IHistWF (ops : List (IOp ν κ)) : Prop := ∀ op ∈ ops, IOpWF op

theorem liftW_ok {iw iw' : IWorld ν κ} {x : Except Fault (World ν κ)} (h : liftW iw x = .ok iw') :
    ∃ w', x = .ok w' ∧ iw' = { iw with w := w' } := by
  cases x with
  | error e => cases h
  | ok w' => cases h; exact ⟨w', rfl, rfl⟩

theorem idurable_init (P : Params ν κ) : IDurable (iinit P) := durable_init P

theorem idurable_step (P : Params ν κ) (hP : ParamsOk P) (iw iw' : IWorld ν κ) (op : IOp ν κ) (hop : IOpWF op)
    (hd : IDurable iw) (h : istep P iw op = .ok iw') : IDurable iw' := by
  cases op with
  | ingest r bytes =>
    obtain ⟨w', hi, rfl⟩ := liftW_ok h
    unfold IDurable at hd ⊢
    cases hfl : iw.fl with
    | none =>
      simp only [hfl] at hd ⊢
      exact durable_ingest P iw.w w' r bytes hd hop hi
    | some f =>
      simp only [hfl] at hd ⊢
      cases hst : f.stage with
      | frozen =>
        simp only [hst] at hd ⊢
        obtain ⟨pre, midF, postF, ha⟩ := hd
        obtain ⟨ev, ha'⟩ := ha.ingest hop hi
        exact ⟨pre, midF, _, ha'⟩
      | batched =>
        simp only [hst] at hd ⊢
        obtain ⟨⟨pre, hda⟩, hhi⟩ := hd
        have hc : ingest P (finishFrom f iw.w) r bytes = .ok (finishFrom f w') := by rw [ingest_finishFrom P f iw.w r bytes hhi, hi]; rfl
        obtain ⟨ev, T', _, rfl⟩ := ingest_shape P iw.w w' r bytes hi
        exact ⟨⟨pre, hda.ingest hop hc⟩, by simp only; omega⟩
      | persisted =>
        simp only [hst] at hd ⊢
        obtain ⟨⟨pre, hda⟩, hhi⟩ := hd
        have hc : ingest P (finishFrom f iw.w) r bytes = .ok (finishFrom f w') := by rw [ingest_finishFrom P f iw.w r bytes hhi, hi]; rfl
        obtain ⟨ev, T', _, rfl⟩ := ingest_shape P iw.w w' r bytes hi
        exact ⟨⟨pre, hda.ingest hop hc⟩, by simp only; omega⟩
      | swept =>
        simp only [hst] at hd ⊢
        obtain ⟨⟨pre, hda⟩, hhi⟩ := hd
        have hc : ingest P (finishFrom f iw.w) r bytes = .ok (finishFrom f w') := by rw [ingest_finishFrom P f iw.w r bytes hhi, hi]; rfl
        obtain ⟨ev, T', _, rfl⟩ := ingest_shape P iw.w w' r bytes hi
        exact ⟨⟨pre, hda.ingest hop hc⟩, by simp only; omega⟩
      | wiped =>
        simp only [hst] at hd ⊢
        obtain ⟨⟨pre, hda⟩, hhi⟩ := hd
        have hc : ingest P (finishFrom f iw.w) r bytes = .ok (finishFrom f w') := by rw [ingest_finishFrom P f iw.w r bytes hhi, hi]; rfl
        obtain ⟨ev, T', _, rfl⟩ := ingest_shape P iw.w w' r bytes hi
        exact ⟨⟨pre, hda.ingest hop hc⟩, by simp only; omega⟩
  | forceReq =>
    simp only [istep] at h
    cases h
    exact hd
  | flushBegin k =>
    simp only [istep] at h
    cases hfl : iw.fl with
    | some f => rw [hfl] at h; cases h
    | none =>
      rw [hfl] at h
      cases h
      unfold IDurable at hd ⊢
      simp only [hfl] at hd
      obtain ⟨pre, hda⟩ := hd
      exact ⟨pre, _, _, StageA.begin hda⟩
  | flushBatch fi =>
    simp only [istep] at h
    cases hfl : iw.fl with
    | none => rw [hfl] at h; cases h
    | some f =>
      rw [hfl] at h
      simp only at h
      split at h
      · rename_i hst
        split at h
        · rename_i w3 toDel hb
          cases h
          unfold IDurable at hd ⊢
          simp only [hfl, hst] at hd
          obtain ⟨pre, midF, postF, ha⟩ := hd
          obtain ⟨hd', _, _, hn, _, _⟩ := ha.batch hP.reencode hop hb
          simp only
          exact ⟨⟨_, hd'⟩, by rw [hn]; exact ha.hi_le⟩
        · cases h
      · cases h
  | flushMeta =>
    simp only [istep] at h
    cases hfl : iw.fl with
    | none => rw [hfl] at h; cases h
    | some f =>
      rw [hfl] at h
      simp only at h
      split at h
      · rename_i hst
        cases h
        unfold IDurable at hd ⊢
        simp only [hfl, hst] at hd
        simp only
        exact ⟨by simpa [finishFrom, hst] using hd.1, by simpa [persistMeta] using hd.2⟩
      · cases h
  | flushGcParts =>
    simp only [istep] at h
    cases hfl : iw.fl with
    | none => rw [hfl] at h; cases h
    | some f =>
      rw [hfl] at h
      simp only at h
      split at h
      · rename_i hst
        cases h
        unfold IDurable at hd ⊢
        simp only [hfl, hst] at hd
        simp only
        exact ⟨by simpa [finishFrom, hst] using hd.1, by simpa [deleteOrphans] using hd.2⟩
      · cases h
  | flushGcWal =>
    simp only [istep] at h
    cases hfl : iw.fl with
    | none => rw [hfl] at h; cases h
    | some f =>
      rw [hfl] at h
      simp only at h
      split at h
      · rename_i hst
        cases h
        unfold IDurable at hd ⊢
        simp only [hfl, hst] at hd
        simp only
        exact ⟨by simpa [finishFrom, hst] using hd.1, by simpa [deleteWal] using hd.2⟩
      · cases h
  | flushAnswer =>
    simp only [istep] at h
    cases hfl : iw.fl with
    | none => rw [hfl] at h; cases h
    | some f =>
      rw [hfl] at h
      simp only at h
      split at h
      · rename_i hst
        cases h
        unfold IDurable at hd ⊢
        simp only [hfl, hst] at hd
        simp only
        obtain ⟨⟨pre, hda⟩, _⟩ := hd
        exact ⟨pre, by simpa [finishFrom, hst] using hda⟩
      · cases h
  | restart order =>
    simp only [istep] at h
    cases hfl : iw.fl with
    | some f => rw [hfl] at h; cases h
    | none =>
      rw [hfl] at h
      cases hp : iw.pending with
      | cons q qs => rw [hp] at h; cases h
      | nil =>
        rw [hp] at h
        simp only at h
        obtain ⟨w', hr, rfl⟩ := liftW_ok h
        unfold IDurable at hd ⊢
        simp only [hfl] at hd ⊢
        exact durable_recover P iw.w w' order hP.init hop hd hr

theorem idurable_fold (P : Params ν κ) (hP : ParamsOk P) : ∀ (ops : List (IOp ν κ)) (iw iw' : IWorld ν κ), IHistWF ops →
    IDurable iw → ifold P ops iw = .ok iw' → IDurable iw' := by
  intro ops
  induction ops with
  | nil => intro iw iw' _ hd h; simp [ifold] at h; subst h; exact hd
  | cons op ops ih =>
    intro iw iw' hwf hd h
    simp only [ifold] at h
    split at h
    · rename_i iw1 h1
      exact ih iw1 iw' (fun o ho => hwf o (List.mem_cons_of_mem _ ho))
        (idurable_step P hP iw iw1 op (hwf op (List.mem_cons_self ..)) hd h1) h
    · cases h

/-- The invariant holds after every interleaved history. -/
theorem idurable_run (P : Params ν κ) (hP : ParamsOk P) (ops : List (IOp ν κ)) (hwf : IHistWF ops) (iw : IWorld ν κ)
    (h : irun P ops = .ok iw) : IDurable iw :=
  idurable_fold P hP ops _ iw hwf (idurable_init P) h

-- ------------------------------------------------------------------------------------------------ content and ghost log

theorem content_unfreeze (w : World ν κ) (t : TName ν) : content (unfreeze w) t = content w t := by
  unfold content
  cases h : w.mem.tables t with
  | none => simp [unfreeze, h]
  | some tm => simp [unfreeze, h, tableBatches_unfreezeT]

theorem finishFrom_tables (f : Flight ν) (w : World ν κ) : (finishFrom f w).mem.tables = w.mem.tables := by
  unfold finishFrom; cases f.stage <;> rfl

theorem finishFrom_log (f : Flight ν) (w : World ν κ) : (finishFrom f w).log = w.log := by
  unfold finishFrom; cases f.stage <;> rfl

theorem content_finishFrom (f : Flight ν) (w : World ν κ) (t : TName ν) : content (finishFrom f w) t = content w t := by
  unfold content; rw [finishFrom_tables]

/-- At EVERY state of an interleaved history (also in the middle of a flush) a query sees, for every table, exactly
    its share of the ghost log. -/
theorem IDurable.content {iw : IWorld ν κ} (hd : IDurable iw) (t : TName ν) : content iw.w t = .ok (logOf t iw.w.log) := by
  unfold IDurable at hd
  cases hfl : iw.fl with
  | none =>
    simp only [hfl] at hd
    obtain ⟨pre, hda⟩ := hd
    exact hda.content t
  | some f =>
    simp only [hfl] at hd
    cases hst : f.stage with
    | frozen =>
      simp only [hst] at hd
      obtain ⟨pre, midF, postF, ha⟩ := hd
      have := ha.dur.content t
      rw [content_unfreeze] at this
      exact this
    | batched =>
      simp only [hst] at hd
      obtain ⟨⟨pre, hda⟩, _⟩ := hd
      have := hda.content t
      rw [content_finishFrom, finishFrom_log] at this
      exact this
    | persisted =>
      simp only [hst] at hd
      obtain ⟨⟨pre, hda⟩, _⟩ := hd
      have := hda.content t
      rw [content_finishFrom, finishFrom_log] at this
      exact this
    | swept =>
      simp only [hst] at hd
      obtain ⟨⟨pre, hda⟩, _⟩ := hd
      have := hda.content t
      rw [content_finishFrom, finishFrom_log] at this
      exact this
    | wiped =>
      simp only [hst] at hd
      obtain ⟨⟨pre, hda⟩, _⟩ := hd
      have := hda.content t
      rw [content_finishFrom, finishFrom_log] at this
      exact this

theorem IDurable.logcat {iw : IWorld ν κ} (hd : IDurable iw) : LogCatAll iw.w.log := by
  unfold IDurable at hd
  cases hfl : iw.fl with
  | none =>
    simp only [hfl] at hd
    obtain ⟨pre, hda⟩ := hd
    exact hda.logcat
  | some f =>
    simp only [hfl] at hd
    cases hst : f.stage with
    | frozen =>
      simp only [hst] at hd
      obtain ⟨pre, midF, postF, ha⟩ := hd
      exact ha.dur.logcat
    | batched =>
      simp only [hst] at hd
      obtain ⟨⟨pre, hda⟩, _⟩ := hd
      have := hda.logcat
      rw [finishFrom_log] at this
      exact this
    | persisted =>
      simp only [hst] at hd
      obtain ⟨⟨pre, hda⟩, _⟩ := hd
      have := hda.logcat
      rw [finishFrom_log] at this
      exact this
    | swept =>
      simp only [hst] at hd
      obtain ⟨⟨pre, hda⟩, _⟩ := hd
      have := hda.logcat
      rw [finishFrom_log] at this
      exact this
    | wiped =>
      simp only [hst] at hd
      obtain ⟨⟨pre, hda⟩, _⟩ := hd
      have := hda.logcat
      rw [finishFrom_log] at this
      exact this

theorem IDurable.quiescent {iw : IWorld ν κ} (hd : IDurable iw) (hq : iw.fl = none) : Durable iw.w := by
  unfold IDurable at hd
  simp only [hq] at hd
  exact hd

theorem flushBatchW_same (P : Params ν κ) (w w3 : World ν κ) (toDel : TName ν → List (Nat × String)) (fi : FlushIn ν)
    (h : flushBatchW P w fi = .ok (w3, toDel)) : SameLog w w3 := by
  unfold flushBatchW at h
  simp only at h
  have := foldE_compact_sameLog P fi _ _ _ _ h
  obtain ⟨s1, s2, s3, s4, s5, s6⟩ := this
  exact ⟨s1, s2, s3, s4, s5, s6⟩

theorem iacked_cons_ingest (r : Request ν κ) (bytes : Nat) (ops : List (IOp ν κ)) (t : TName ν) :
    iacked (IOp.ingest r bytes :: ops) t = shareOf t r ++ iacked ops t := by
  simp [iacked, iuserRequests, logOf]

/-- The ghost log changes only by ingestion. -/
theorem istep_log (P : Params ν κ) (iw iw' : IWorld ν κ) (op : IOp ν κ) (h : istep P iw op = .ok iw') (n : ν) :
    logOf (.user n) iw'.w.log ++ iacked ([] : List (IOp ν κ)) (.user n) = logOf (.user n) iw.w.log ++ iacked [op] (.user n) := by
  have hnil : iacked ([] : List (IOp ν κ)) (.user n) = [] := rfl
  rw [hnil, List.append_nil]
  cases op with
  | ingest r bytes =>
    obtain ⟨w', hi, rfl⟩ := liftW_ok h
    obtain ⟨acc, hl⟩ := ingest_log P iw.w w' r bytes hi
    simp only
    rw [hl, logOf_snoc, augment_user, iacked_cons_ingest, hnil, List.append_nil]
  | forceReq => simp only [istep] at h; cases h; simp [iacked, iuserRequests, logOf]
  | flushBegin k =>
    simp only [istep] at h
    split at h
    · cases h
    · cases h; simp [iacked, iuserRequests, logOf, freeze]
  | flushBatch fi =>
    simp only [istep] at h
    split at h
    · split at h
      · split at h
        · rename_i w3 toDel hb
          cases h
          have := (flushBatchW_same P _ _ _ _ hb).2.2.2.2.2
          simp [iacked, iuserRequests, logOf, this]
        · cases h
      · cases h
    · cases h
  | flushMeta =>
    simp only [istep] at h
    split at h
    · split at h
      · cases h; simp [iacked, iuserRequests, logOf, persistMeta]
      · cases h
    · cases h
  | flushGcParts =>
    simp only [istep] at h
    split at h
    · split at h
      · cases h; simp [iacked, iuserRequests, logOf, deleteOrphans]
      · cases h
    · cases h
  | flushGcWal =>
    simp only [istep] at h
    split at h
    · split at h
      · cases h; simp [iacked, iuserRequests, logOf, deleteWal]
      · cases h
    · cases h
  | flushAnswer =>
    simp only [istep] at h
    split at h
    · split at h
      · cases h; simp [iacked, iuserRequests, logOf]
      · cases h
    · cases h
  | restart order =>
    simp only [istep] at h
    split at h
    · obtain ⟨w', hr, rfl⟩ := liftW_ok h
      simp only
      rw [recover_log P _ _ _ order w' hr]
      simp [iacked, iuserRequests, logOf]
    · cases h

theorem iacked_cons (op : IOp ν κ) (ops : List (IOp ν κ)) (t : TName ν) : iacked (op :: ops) t = iacked [op] t ++ iacked ops t := by
  cases op <;> simp [iacked, iuserRequests, logOf]

theorem ifold_log_user (P : Params ν κ) (n : ν) : ∀ (ops : List (IOp ν κ)) (iw iw' : IWorld ν κ), ifold P ops iw = .ok iw' →
    logOf (.user n) iw'.w.log = logOf (.user n) iw.w.log ++ iacked ops (.user n) := by
  intro ops
  induction ops with
  | nil => intro iw iw' h; simp [ifold] at h; subst h; simp [iacked, iuserRequests, logOf]
  | cons op ops ih =>
    intro iw iw' h
    simp only [ifold] at h
    split at h
    · rename_i iw1 h1
      have h2 := istep_log P iw iw1 op h1 n
      have hnil : iacked ([] : List (IOp ν κ)) (.user n) = [] := rfl
      rw [hnil, List.append_nil] at h2
      rw [ih iw1 iw' h, h2, iacked_cons op ops, List.append_assoc]
    · cases h

/-- The share of user table `n` in the ghost log = the shares of the history's ingestion calls, in the order they returned. -/
theorem irun_log_user (P : Params ν κ) (n : ν) (ops : List (IOp ν κ)) (iw : IWorld ν κ) (h : irun P ops = .ok iw) :
    logOf (.user n) iw.w.log = iacked ops (.user n) := by
  have := ifold_log_user P n ops _ iw h
  simpa [iinit, initWorld, logOf] using this

theorem ifold_append (P : Params ν κ) (a b : List (IOp ν κ)) : ∀ (iw : IWorld ν κ),
    ifold P (a ++ b) iw = match ifold P a iw with | .ok iw1 => ifold P b iw1 | .error e => .error e := by
  induction a with
  | nil => intro iw; rfl
  | cons op a ih =>
    intro iw
    simp only [List.cons_append, ifold]
    cases istep P iw op with
    | error e => rfl
    | ok iw1 => exact ih iw1

theorem irun_snoc (P : Params ν κ) (ops : List (IOp ν κ)) (op : IOp ν κ) (iw' : IWorld ν κ) (h : irun P (ops ++ [op]) = .ok iw') :
    ∃ iw, irun P ops = .ok iw ∧ istep P iw op = .ok iw' := by
  unfold irun at h ⊢
  rw [ifold_append] at h
  cases h1 : ifold P ops (iinit P) with
  | error e => rw [h1] at h; cases h
  | ok iw =>
    rw [h1] at h
    simp only [ifold] at h
    cases h2 : istep P iw op with
    | error e => rw [h2] at h; cases h
    | ok iw2 => rw [h2] at h; cases h; exact ⟨iw, rfl, h2⟩

-- ------------------------------------------------------------------------------------------------ cursor / counter / request bookkeeping

def sfStep (n : Nat) (op : IOp ν κ) : Nat :=
  match op with
  | .ingest _ _ => n + 1
  | .flushBegin _ => 0
  | _ => n

theorem sinceFreeze_eq (ops : List (IOp ν κ)) : sinceFreeze ops = ops.foldl sfStep 0 := rfl

/-- Arithmetic of the cursor, the captured range, the number of segments written since the last freeze (`n`) and the
    force_flush requests. -/
structure Frame (n : Nat) (iw : IWorld ν κ) : Prop where
  quiet : iw.fl = none → iw.w.mem.cat.nextWal = iw.w.mem.cat.earliest + n
  flight : ∀ f, iw.fl = some f → iw.w.mem.cat.nextWal = f.hi + n ∧ f.lo ≤ f.hi ∧ (∀ q ∈ f.served, q ≤ f.hi) ∧
      ((f.stage = .frozen ∨ f.stage = .batched) → iw.w.mem.cat.earliest = f.lo) ∧
      ((f.stage = .persisted ∨ f.stage = .swept ∨ f.stage = .wiped) → iw.w.mem.cat.earliest = f.hi ∧ iw.w.disk.metaFile.isSome = true)
  pend : ∀ q ∈ iw.pending, q ≤ iw.w.mem.cat.nextWal
  done : ∀ q ∈ iw.done, q ≤ iw.w.mem.cat.earliest

theorem frame_init (P : Params ν κ) : Frame 0 (iinit P) := by
  constructor
  · intro _; rfl
  · intro f h; cases h
  · intro q h; cases h
  · intro q h; cases h

theorem frame_step (P : Params ν κ) (n : Nat) (iw iw' : IWorld ν κ) (op : IOp ν κ) (hf : Frame n iw) (hd : IDurable iw)
    (h : istep P iw op = .ok iw') : Frame (sfStep n op) iw' := by
  cases op with
  | ingest r bytes =>
    obtain ⟨w', hi, rfl⟩ := liftW_ok h
    obtain ⟨ev, T', _, rfl⟩ := ingest_shape P iw.w w' r bytes hi
    constructor
    · intro hq; have := hf.quiet hq; simp only [sfStep]; omega
    · intro f hfl
      obtain ⟨h1, h2, h3, h4, h5⟩ := hf.flight f hfl
      exact ⟨by simp only [sfStep]; omega, h2, h3, h4, h5⟩
    · intro q hq; have := hf.pend q hq; simp only; omega
    · exact hf.done
  | forceReq =>
    simp only [istep] at h
    cases h
    constructor
    · exact hf.quiet
    · exact hf.flight
    · intro q hq
      simp only [List.mem_append, List.mem_singleton] at hq
      rcases hq with hq | rfl
      · exact hf.pend q hq
      · exact Nat.le_refl _
    · exact hf.done
  | flushBegin k =>
    simp only [istep] at h
    cases hfl : iw.fl with
    | some f => rw [hfl] at h; cases h
    | none =>
      rw [hfl] at h
      cases h
      have hq := hf.quiet hfl
      constructor
      · intro hx; cases hx
      · intro f hx
        simp only [Option.some.injEq] at hx
        subst hx
        refine ⟨by simp [sfStep, freeze], by simp only; omega, ?_, fun _ => by simp [freeze], ?_⟩
        · intro q hq'; exact hf.pend q (List.mem_of_mem_take hq')
        · intro hx; rcases hx with hx | hx | hx <;> cases hx
      · intro q hq'; exact hf.pend q (List.mem_of_mem_drop hq')
      · exact hf.done
  | flushBatch fi =>
    simp only [istep] at h
    cases hfl : iw.fl with
    | none => rw [hfl] at h; cases h
    | some f =>
      rw [hfl] at h
      simp only at h
      split at h
      · rename_i hst
        split at h
        · rename_i w3 toDel hb
          cases h
          obtain ⟨s1, s2, s3, s4, s5, s6⟩ := flushBatchW_same P _ _ _ _ hb
          obtain ⟨h1, h2, h3, h4, h5⟩ := hf.flight f hfl
          constructor
          · intro hx; cases hx
          · intro f' hx
            simp only [Option.some.injEq] at hx
            subst hx
            refine ⟨by simp only [sfStep, s2]; exact h1, h2, h3, fun _ => by simp only [s1]; exact h4 (Or.inl hst), ?_⟩
            intro hx; rcases hx with hx | hx | hx <;> cases hx
          · intro q hq; simp only [s2]; exact hf.pend q hq
          · intro q hq; simp only [s1]; exact hf.done q hq
        · cases h
      · cases h
  | flushMeta =>
    simp only [istep] at h
    cases hfl : iw.fl with
    | none => rw [hfl] at h; cases h
    | some f =>
      rw [hfl] at h
      simp only at h
      split at h
      · rename_i hst
        cases h
        obtain ⟨h1, h2, h3, h4, h5⟩ := hf.flight f hfl
        have he := h4 (Or.inr hst)
        constructor
        · intro hx; cases hx
        · intro f' hx
          simp only [Option.some.injEq] at hx
          subst hx
          refine ⟨by simpa [sfStep, persistMeta] using h1, h2, h3, ?_, fun _ => by simp [persistMeta]⟩
          intro hx; rcases hx with hx | hx <;> cases hx
        · intro q hq; simpa [persistMeta] using hf.pend q hq
        · intro q hq
          have := hf.done q hq
          simp only [persistMeta]; omega
      · cases h
  | flushGcParts =>
    simp only [istep] at h
    cases hfl : iw.fl with
    | none => rw [hfl] at h; cases h
    | some f =>
      rw [hfl] at h
      simp only at h
      split at h
      · rename_i hst
        cases h
        obtain ⟨h1, h2, h3, h4, h5⟩ := hf.flight f hfl
        have he := h5 (Or.inl hst)
        constructor
        · intro hx; cases hx
        · intro f' hx
          simp only [Option.some.injEq] at hx
          subst hx
          refine ⟨by simpa [sfStep, deleteOrphans] using h1, h2, h3, ?_, fun _ => by simpa [deleteOrphans] using he⟩
          intro hx; rcases hx with hx | hx <;> cases hx
        · intro q hq; simpa [deleteOrphans] using hf.pend q hq
        · intro q hq; simpa [deleteOrphans] using hf.done q hq
      · cases h
  | flushGcWal =>
    simp only [istep] at h
    cases hfl : iw.fl with
    | none => rw [hfl] at h; cases h
    | some f =>
      rw [hfl] at h
      simp only at h
      split at h
      · rename_i hst
        cases h
        obtain ⟨h1, h2, h3, h4, h5⟩ := hf.flight f hfl
        have he := h5 (Or.inr (Or.inl hst))
        constructor
        · intro hx; cases hx
        · intro f' hx
          simp only [Option.some.injEq] at hx
          subst hx
          refine ⟨by simpa [sfStep, deleteWal] using h1, h2, h3, ?_, fun _ => by simpa [deleteWal] using he⟩
          intro hx; rcases hx with hx | hx <;> cases hx
        · intro q hq; simpa [deleteWal] using hf.pend q hq
        · intro q hq; simpa [deleteWal] using hf.done q hq
      · cases h
  | flushAnswer =>
    simp only [istep] at h
    cases hfl : iw.fl with
    | none => rw [hfl] at h; cases h
    | some f =>
      rw [hfl] at h
      simp only at h
      split at h
      · rename_i hst
        cases h
        obtain ⟨h1, h2, h3, h4, h5⟩ := hf.flight f hfl
        have he := (h5 (Or.inr (Or.inr hst))).1
        constructor
        · intro _; show iw.w.mem.cat.nextWal = iw.w.mem.cat.earliest + n; omega
        · intro f' hx; cases hx
        · exact hf.pend
        · intro q hq
          simp only [List.mem_append] at hq
          show q ≤ iw.w.mem.cat.earliest
          rcases hq with hq | hq
          · exact hf.done q hq
          · have := h3 q hq; omega
      · cases h
  | restart order =>
    simp only [istep] at h
    cases hfl : iw.fl with
    | some f => rw [hfl] at h; cases h
    | none =>
      rw [hfl] at h
      cases hp : iw.pending with
      | cons q qs => rw [hp] at h; cases h
      | nil =>
        rw [hp] at h
        simp only at h
        obtain ⟨w', hr, rfl⟩ := liftW_ok h
        obtain ⟨pre, hda⟩ := hd.quiescent hfl
        obtain ⟨_, _, e1, e2, _⟩ := walInv_recover P iw.w w' order hda.wal hr
        constructor
        · intro _; simp only [sfStep, e1, e2]; exact hf.quiet hfl
        · intro f hx; simp only [hfl] at hx; cases hx
        · intro q hq; simp only [hp] at hq; cases hq
        · intro q hq; simp only [e1]; exact hf.done q hq

theorem frame_fold (P : Params ν κ) (hP : ParamsOk P) : ∀ (ops : List (IOp ν κ)) (n : Nat) (iw iw' : IWorld ν κ), IHistWF ops →
    IDurable iw → Frame n iw → ifold P ops iw = .ok iw' → Frame (ops.foldl sfStep n) iw' := by
  intro ops
  induction ops with
  | nil => intro n iw iw' _ _ hf h; simp [ifold] at h; subst h; exact hf
  | cons op ops ih =>
    intro n iw iw' hwf hd hf h
    simp only [ifold] at h
    split at h
    · rename_i iw1 h1
      simp only [List.foldl_cons]
      exact ih (sfStep n op) iw1 iw' (fun o ho => hwf o (List.mem_cons_of_mem _ ho))
        (idurable_step P hP iw iw1 op (hwf op (List.mem_cons_self ..)) hd h1) (frame_step P n iw iw1 op hf hd h1) h
    · cases h

theorem frame_run (P : Params ν κ) (hP : ParamsOk P) (ops : List (IOp ν κ)) (hwf : IHistWF ops) (iw : IWorld ν κ)
    (h : irun P ops = .ok iw) : Frame (sinceFreeze ops) iw :=
  frame_fold P hP ops 0 _ iw hwf (idurable_init P) (frame_init P) h

-- ------------------------------------------------------------------------------------------------ no step faults

def IOpOk : IOp ν κ → Prop
  | .ingest r _ => ReqOk r
  | _ => True

theorem ok_of_map_ok {α β : Type} {x : Except Fault α} {g : α → β} {v : β} (h : x.map g = .ok v) : ∃ a, x = .ok a := by
  cases x with
  | error e => cases h
  | ok a => exact ⟨a, rfl⟩

/-- `ingest_efficient` of a well-formed request cannot fail in ANY state of an interleaved history (quiescent or in the
    middle of a flush). -/
theorem IDurable.ingest_total {P : Params ν κ} {iw : IWorld ν κ} {r : Request ν κ} {bytes : Nat}
    (hd : IDurable iw) (hwf : ReqWF r) (hok : ReqOk r) : ∃ w', LM.Store.ingest P iw.w r bytes = .ok w' := by
  unfold IDurable at hd
  cases hfl : iw.fl with
  | none =>
    simp only [hfl] at hd
    obtain ⟨pre, hda⟩ := hd
    exact hda.ingest_total hwf hok
  | some f =>
    simp only [hfl] at hd
    cases hst : f.stage with
    | frozen =>
      simp only [hst] at hd
      obtain ⟨pre, midF, postF, ha⟩ := hd
      obtain ⟨v, hv⟩ := ha.dur.ingest_total (P := P) (bytes := bytes) hwf hok
      rw [ingest_unfreeze] at hv
      exact ok_of_map_ok hv
    | batched =>
      simp only [hst] at hd
      obtain ⟨⟨pre, hda⟩, hhi⟩ := hd
      obtain ⟨v, hv⟩ := hda.ingest_total (P := P) (bytes := bytes) hwf hok
      rw [ingest_finishFrom P f iw.w r bytes hhi] at hv
      exact ok_of_map_ok hv
    | persisted =>
      simp only [hst] at hd
      obtain ⟨⟨pre, hda⟩, hhi⟩ := hd
      obtain ⟨v, hv⟩ := hda.ingest_total (P := P) (bytes := bytes) hwf hok
      rw [ingest_finishFrom P f iw.w r bytes hhi] at hv
      exact ok_of_map_ok hv
    | swept =>
      simp only [hst] at hd
      obtain ⟨⟨pre, hda⟩, hhi⟩ := hd
      obtain ⟨v, hv⟩ := hda.ingest_total (P := P) (bytes := bytes) hwf hok
      rw [ingest_finishFrom P f iw.w r bytes hhi] at hv
      exact ok_of_map_ok hv
    | wiped =>
      simp only [hst] at hd
      obtain ⟨⟨pre, hda⟩, hhi⟩ := hd
      obtain ⟨v, hv⟩ := hda.ingest_total (P := P) (bytes := bytes) hwf hok
      rw [ingest_finishFrom P f iw.w r bytes hhi] at hv
      exact ok_of_map_ok hv

/-- No step of the interleaved machine hits an assert / unwrap / expect: a step either happens or is not enabled. -/
theorem istep_no_fault (P : Params ν κ) (hP : ParamsOk P) (iw : IWorld ν κ) (op : IOp ν κ) (hop : IOpWF op) (hok : IOpOk op)
    (hd : IDurable iw) : (∃ iw', istep P iw op = .ok iw') ∨ istep P iw op = .error .disabled := by
  cases op with
  | ingest r bytes =>
    obtain ⟨w', hw'⟩ := hd.ingest_total (P := P) (bytes := bytes) hop hok
    exact Or.inl ⟨_, by simp only [istep, hw', liftW]; rfl⟩
  | forceReq => exact Or.inl ⟨_, rfl⟩
  | flushBegin k =>
    cases hfl : iw.fl with
    | none => exact Or.inl ⟨_, by simp only [istep, hfl]; rfl⟩
    | some f => exact Or.inr (by simp only [istep, hfl])
  | flushBatch fi =>
    cases hfl : iw.fl with
    | none => exact Or.inr (by simp only [istep, hfl])
    | some f =>
      by_cases hst : f.stage = .frozen
      · unfold IDurable at hd
        simp only [hfl, hst] at hd
        obtain ⟨pre, midF, postF, ha⟩ := hd
        obtain ⟨⟨w3, toDel⟩, hb⟩ := ha.batch_total (P := P) hP.reencode hop
        exact Or.inl ⟨_, by simp only [istep, hfl, hst, if_true, hb]; rfl⟩
      · exact Or.inr (by simp only [istep, hfl, hst, if_false])
  | flushMeta =>
    cases hfl : iw.fl with
    | none => exact Or.inr (by simp only [istep, hfl])
    | some f =>
      by_cases hst : f.stage = .batched
      · exact Or.inl ⟨_, by simp only [istep, hfl, hst, if_true]; rfl⟩
      · exact Or.inr (by simp only [istep, hfl, hst, if_false])
  | flushGcParts =>
    cases hfl : iw.fl with
    | none => exact Or.inr (by simp only [istep, hfl])
    | some f =>
      by_cases hst : f.stage = .persisted
      · exact Or.inl ⟨_, by simp only [istep, hfl, hst, if_true]; rfl⟩
      · exact Or.inr (by simp only [istep, hfl, hst, if_false])
  | flushGcWal =>
    cases hfl : iw.fl with
    | none => exact Or.inr (by simp only [istep, hfl])
    | some f =>
      by_cases hst : f.stage = .swept
      · exact Or.inl ⟨_, by simp only [istep, hfl, hst, if_true]; rfl⟩
      · exact Or.inr (by simp only [istep, hfl, hst, if_false])
  | flushAnswer =>
    cases hfl : iw.fl with
    | none => exact Or.inr (by simp only [istep, hfl])
    | some f =>
      by_cases hst : f.stage = .wiped
      · exact Or.inl ⟨_, by simp only [istep, hfl, hst, if_true]; rfl⟩
      · exact Or.inr (by simp only [istep, hfl, hst, if_false])
  | restart order =>
    cases hfl : iw.fl with
    | some f => exact Or.inr (by simp only [istep, hfl])
    | none =>
      cases hp : iw.pending with
      | cons q qs => exact Or.inr (by simp only [istep, hfl, hp])
      | nil =>
        obtain ⟨pre, hda⟩ := hd.quiescent hfl
        obtain ⟨w', hw'⟩ := hda.recover_total (P := P) hP.init hop
        exact Or.inl ⟨_, by simp only [istep, hfl, hp, hw', liftW]; rfl⟩

/-- The flush thread can always complete the flush in flight (no fault), and doing so changes neither the accounted
    log size nor the pending requests. -/
theorem flight_completes (P : Params ν κ) (hP : ParamsOk P) (iw : IWorld ν κ) (f : Flight ν) (fi : FlushIn ν) (hfi : FlushWF fi)
    (hd : IDurable iw) (hfl : iw.fl = some f) :
    ∃ iw', ifold P (finishOps f.stage fi) iw = .ok iw' ∧ iw'.fl = none ∧ iw'.w.mem.walSize = iw.w.mem.walSize ∧
      iw'.pending = iw.pending := by
  cases hst : f.stage with
  | frozen =>
    unfold IDurable at hd
    simp only [hfl, hst] at hd
    obtain ⟨pre, midF, postF, ha⟩ := hd
    obtain ⟨⟨w3, toDel⟩, hb⟩ := ha.batch_total (P := P) hP.reencode hfi
    have hs := (flushBatchW_same P _ _ _ _ hb).2.2.2.2.1
    have h1 : ifold P (finishOps Stage.frozen fi) iw =
        .ok ⟨deleteWal (deleteOrphans (persistMeta w3 f.hi) toDel) f.lo f.hi, none, iw.pending, iw.done ++ f.served⟩ := by
      simp only [finishOps, ifold, istep, hfl, hst, if_true, hb]
    exact ⟨_, h1, rfl, by simpa [deleteWal, deleteOrphans, persistMeta] using hs, rfl⟩
  | batched =>
    have h1 : ifold P (finishOps Stage.batched fi) iw =
        .ok ⟨deleteWal (deleteOrphans (persistMeta iw.w f.hi) f.toDel) f.lo f.hi, none, iw.pending, iw.done ++ f.served⟩ := by
      simp only [finishOps, ifold, istep, hfl, hst, if_true]
    exact ⟨_, h1, rfl, by simp [deleteWal, deleteOrphans, persistMeta], rfl⟩
  | persisted =>
    have h1 : ifold P (finishOps Stage.persisted fi) iw =
        .ok ⟨deleteWal (deleteOrphans iw.w f.toDel) f.lo f.hi, none, iw.pending, iw.done ++ f.served⟩ := by
      simp only [finishOps, ifold, istep, hfl, hst, if_true]
    exact ⟨_, h1, rfl, by simp [deleteWal, deleteOrphans], rfl⟩
  | swept =>
    have h1 : ifold P (finishOps Stage.swept fi) iw =
        .ok ⟨deleteWal iw.w f.lo f.hi, none, iw.pending, iw.done ++ f.served⟩ := by
      simp only [finishOps, ifold, istep, hfl, hst, if_true]
    exact ⟨_, h1, rfl, by simp [deleteWal], rfl⟩
  | wiped =>
    have h1 : ifold P (finishOps Stage.wiped fi) iw = .ok ⟨iw.w, none, iw.pending, iw.done ++ f.served⟩ := by
      simp only [finishOps, ifold, istep, hfl, hst, if_true]
    exact ⟨_, h1, rfl, rfl, rfl⟩

-- ------------------------------------------------------------------------------------------------ sequential histories are interleaved histories

theorem ifold_flushOps (P : Params ν κ) (w w' : World ν κ) (fi : FlushIn ν) (d : List Nat) (h : flush P w fi = .ok w') :
    ifold P (flushOps fi) ⟨w, none, [], d⟩ = .ok ⟨w', none, [], d⟩ := by
  rw [flush_eq_steps] at h
  split at h
  · cases h
  · rename_i w3 toDel hb
    cases h
    simp [flushOps, ifold, istep, hb]

/-- Every sequential history is an interleaved history (with every flush run without anything in between), with the
    same final world: the theorems about interleaved histories contain those about sequential ones. -/
theorem embed_run (P : Params ν κ) : ∀ (ops : List (Op ν κ)) (w w' : World ν κ) (d : List Nat), run P ops w = .ok w' →
    ifold P (embed ops) ⟨w, none, [], d⟩ = .ok ⟨w', none, [], d⟩ := by
  intro ops
  induction ops with
  | nil => intro w w' d h; simp [run, foldE] at h; subst h; rfl
  | cons op ops ih =>
    intro w w' d h
    simp only [run, foldE] at h
    split at h
    · rename_i w1 h1
      have h2 := ih w1 w' d h
      cases op with
      | ingest r bytes =>
        simp only [step] at h1
        simp only [embed, ifold, istep, h1, liftW]
        exact h2
      | flush fi =>
        simp only [step] at h1
        simp only [embed]
        rw [ifold_append, ifold_flushOps P w w1 fi d h1]
        exact h2
      | restart order =>
        simp only [step] at h1
        simp only [embed, ifold, istep, h1, liftW]
        exact h2
    · cases h

theorem iuserRequests_append (a b : List (IOp ν κ)) : iuserRequests (a ++ b) = iuserRequests a ++ iuserRequests b := by
  induction a with
  | nil => rfl
  | cons op a ih => cases op <;> simp [iuserRequests, ih]

theorem iuserRequests_embed : ∀ (ops : List (Op ν κ)), iuserRequests (embed ops) = userRequests ops := by
  intro ops
  induction ops with
  | nil => rfl
  | cons op ops ih =>
    cases op with
    | ingest r b => simp [embed, iuserRequests, userRequests, ih]
    | flush fi => simp [embed, iuserRequests_append, flushOps, iuserRequests, userRequests, ih]
    | restart o => simp [embed, iuserRequests, userRequests, ih]

theorem iacked_embed (ops : List (Op ν κ)) (t : TName ν) : iacked (embed ops) t = acked ops t := by
  simp [iacked, acked, iuserRequests_embed]

theorem sinceFreeze_snoc (ops : List (IOp ν κ)) (op : IOp ν κ) : sinceFreeze (ops ++ [op]) = sfStep (sinceFreeze ops) op := by
  simp [sinceFreeze_eq, List.foldl_append]

-- ------------------------------------------------------------------------------------------------ the model and the source

/-- The machine whose two protocol choices are parameters, with both set as the code sets them, is `istep`. -/
theorem istepVar_ff (P : Params ν κ) (iw : IWorld ν κ) (op : IOp ν κ) : istepVar false false P iw op = istep P iw op := by
  cases op <;> simp only [istepVar, istep, Bool.false_eq_true, if_false]

/-- The ingestion gate and the size trigger of the flush thread, as found in the source, agree on the boundary:
    whenever an ingestion call waits, the flush thread's condition holds. -/
theorem gate_implies_trigger (a b : Nat) :
    LM.Gen.WalProtocol.ingestGate.holds a b = true → LM.Gen.WalProtocol.flushTriggerSize.holds a b = true := by
  simp [LM.Gen.WalProtocol.ingestGate, LM.Gen.WalProtocol.flushTriggerSize, LM.Gen.WalProtocol.Cmp.holds]

/-- … and an accounted size of zero never makes ingestion wait, whatever the limit (0 included). -/
theorem gate_open_at_zero (b : Nat) : LM.Gen.WalProtocol.ingestGate.holds 0 b = false := by
  simp [LM.Gen.WalProtocol.ingestGate, LM.Gen.WalProtocol.Cmp.holds]

end LM.Store
