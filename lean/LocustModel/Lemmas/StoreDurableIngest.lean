import LocustModel.Lemmas.StoreDurable
/-
  Invariant `Durable`, part 2: `ingest` (InnerLocustDB::ingest_efficient) preserves it.
    * `applyFold`     what the second loop (Table::ingest_homogeneous per share) does to every table
    * `PreRel`        what the first loop (create_if_empty_no_ingest, lazy init_column_names) does to every table
    * `PreOut`        what the first loop accumulates: `_meta_tables` rows = the tables it created (each once),
                      `_meta_columns_<t>` rows = names of the share that the table's name set does not contain
-/
namespace LM.Store
set_option linter.unusedSectionVars false
set_option linter.unusedSimpArgs false
set_option linter.unusedVariables false

variable {ν κ : Type} [DecidableEq ν]

theorem nodup_map_inj {α β : Type} (f : α → β) (hf : ∀ a b, f a = f b → a = b) {l : List α} (h : l.Nodup) : (l.map f).Nodup :=
  List.Pairwise.map f (fun a b hab e => hab (hf a b e)) h

theorem nodup_filter {α : Type} (p : α → Bool) {l : List α} (h : l.Nodup) : (l.filter p).Nodup :=
  List.Nodup.sublist List.filter_sublist h

-- ------------------------------------------------------------------------------------------------ second loop

/-- `ingest_homogeneous` of several batches. -/
def appendTo (tm : TableMem ν κ) (bs : List (Batch ν κ)) : TableMem ν κ :=
  { tm with buffer := tm.buffer ++ bs, colNames := tm.colNames.map (· ++ namesIn bs) }

theorem appendTo_nil (tm : TableMem ν κ) : appendTo tm [] = tm := by
  cases tm with
  | mk b f p ni no cn => cases cn <;> simp [appendTo, namesIn]

theorem appendTo_append (tm : TableMem ν κ) (a b : List (Batch ν κ)) :
    appendTo (appendTo tm a) b = appendTo tm (a ++ b) := by
  cases tm with
  | mk bf f p ni no cn => cases cn <;> simp [appendTo, namesIn]

theorem setTable_same (T : Tables ν κ) (t : TName ν) (tm : TableMem ν κ) : setTable T t tm t = some tm := by
  simp [setTable]

theorem setTable_other (T : Tables ν κ) (t t' : TName ν) (tm : TableMem ν κ) (h : t' ≠ t) : setTable T t tm t' = T t' := by
  simp [setTable, h]

theorem shareOf_cons_same (sh : Share ν κ) (r : Request ν κ) : shareOf sh.1 (sh :: r) = sh.2 :: shareOf sh.1 r := by
  simp [shareOf]

theorem shareOf_cons_other (t : TName ν) (sh : Share ν κ) (r : Request ν κ) (h : sh.1 ≠ t) : shareOf t (sh :: r) = shareOf t r := by
  simp [shareOf, h]

theorem ingestHomogeneous_ok (tm tm' : TableMem ν κ) (b : Batch ν κ) (h : ingestHomogeneous tm b = .ok tm') :
    ∃ s, tm.colNames = some s ∧ b.nrows ≠ 0 ∧ b.cols ≠ [] ∧ tm' = appendTo tm [b] := by
  unfold ingestHomogeneous at h
  split at h
  · cases h
  · rename_i s hs
    split at h
    · cases h
    · rename_i hne
      simp only [not_or] at hne
      cases h
      refine ⟨s, hs, hne.1, ?_, ?_⟩
      · intro hc; exact hne.2 (by simp [hc])
      · simp [appendTo, hs, namesIn]

theorem applyShare_ok (T T1 : Tables ν κ) (sh : Share ν κ) (h : applyShare T sh = .ok T1) :
    ∃ tm s, T sh.1 = some tm ∧ tm.colNames = some s ∧ sh.2.nrows ≠ 0 ∧ sh.2.cols ≠ [] ∧
      T1 = setTable T sh.1 (appendTo tm [sh.2]) := by
  unfold applyShare at h
  split at h
  · cases h
  · rename_i tm htm
    split at h
    · rename_i tm' htm'
      cases h
      obtain ⟨s, hs, hn, hc, rfl⟩ := ingestHomogeneous_ok tm tm' sh.2 htm'
      exact ⟨tm, s, htm, hs, hn, hc, rfl⟩
    · cases h

/-- The second loop of `ingest_efficient`: every table gets its shares appended, in order; a table that gets a
    share existed with an initialised name set, and every share passed the asserts of `push_typed_cols`. -/
theorem applyFold (evs : Request ν κ) : ∀ (T T' : Tables ν κ), foldE applyShare evs T = .ok T' →
    (∀ t, T' t = (T t).map (fun tm => appendTo tm (shareOf t evs))) ∧
    (∀ t, shareOf t evs ≠ [] → ∃ tm s, T t = some tm ∧ tm.colNames = some s) ∧
    (∀ sh ∈ evs, sh.2.nrows ≠ 0 ∧ sh.2.cols ≠ []) := by
  induction evs with
  | nil =>
    intro T T' h
    simp [foldE] at h; subst h
    refine ⟨fun t => ?_, fun t h => absurd rfl h, fun sh h => by cases h⟩
    cases T t <;> simp [shareOf, appendTo_nil]
  | cons sh evs ih =>
    intro T T' h
    simp only [foldE] at h
    split at h
    · rename_i T1 h1
      obtain ⟨tm, s, htm, hs, hn, hc, rfl⟩ := applyShare_ok T T1 sh h1
      obtain ⟨ih1, ih2, ih3⟩ := ih _ _ h
      refine ⟨fun t => ?_, fun t hne => ?_, fun x hx => ?_⟩
      · rw [ih1 t]
        by_cases ht : t = sh.1
        · subst ht
          rw [setTable_same, htm, shareOf_cons_same]
          simp only [Option.map_some, appendTo_append]
          rfl
        · rw [setTable_other _ _ _ _ ht, shareOf_cons_other t sh evs (fun h => ht h.symm)]
      · by_cases ht : t = sh.1
        · subst ht; exact ⟨tm, s, htm, hs⟩
        · rw [shareOf_cons_other t sh evs (fun h => ht h.symm)] at hne
          obtain ⟨tm2, s2, h2, h3⟩ := ih2 t hne
          rw [setTable_other _ _ _ _ ht] at h2
          exact ⟨tm2, s2, h2, h3⟩
      · rcases List.mem_cons.mp hx with rfl | hx
        · exact ⟨hn, hc⟩
        · exact ih3 x hx
    · cases h

-- ------------------------------------------------------------------------------------------------ first loop: tables

/-- Same table except possibly the name set. -/
def SameData (tm tm' : TableMem ν κ) : Prop :=
  tm'.buffer = tm.buffer ∧ tm'.frozen = tm.frozen ∧ tm'.parts = tm.parts ∧ tm'.nextId = tm.nextId ∧ tm'.nextOff = tm.nextOff

theorem SameData.refl (tm : TableMem ν κ) : SameData tm tm := ⟨rfl, rfl, rfl, rfl, rfl⟩

theorem SameData.trans {a b c : TableMem ν κ} (h1 : SameData a b) (h2 : SameData b c) : SameData a c := by
  obtain ⟨a1, a2, a3, a4, a5⟩ := h1
  obtain ⟨b1, b2, b3, b4, b5⟩ := h2
  exact ⟨b1.trans a1, b2.trans a2, b3.trans a3, b4.trans a4, b5.trans a5⟩

theorem tableBatches_sameData {tm tm' : TableMem ν κ} (h : SameData tm tm') : tableBatches tm' = tableBatches tm := by
  obtain ⟨h1, h2, h3, _, _⟩ := h
  simp [tableBatches, h1, h2, h3]

theorem queryColumnNames_congr (T T' : Tables ν κ) (n : ν) (a b : TableMem ν κ)
    (ha : T (.metaCols n) = some a) (hb : T' (.metaCols n) = some b) (h : SameData a b) :
    queryColumnNames T' n = queryColumnNames T n := by
  simp [queryColumnNames, ha, hb, tableBatches_sameData h]

theorem queryColumnNames_new (P : Params ν κ) (T : Tables ν κ) (n : ν) (x : Option (List (CName ν)))
    (h : T (.metaCols n) = some (newTable P (.metaCols n) x)) : queryColumnNames T n = .error .assert := by
  simp [queryColumnNames, h, tableBatches, newTable, partsRows, readColumn]

/-- Relation between the tables before `ingest_efficient` and at any point of its first loop. -/
structure PreRel (P : Params ν κ) (T T' : Tables ν κ) : Prop where
  some_ : ∀ t tm, T t = some tm → ∃ tm', T' t = some tm' ∧ SameData tm tm' ∧
      (tm'.colNames = tm.colNames ∨
       (tm.colNames = none ∧ ∃ n s, t = .user n ∧ tm'.colNames = some s ∧ queryColumnNames T n = .ok s))
  none_ : ∀ t, T t = none → T' t = none ∨ T' t = some (newTable P t (some []))

theorem PreRel.refl (P : Params ν κ) (T : Tables ν κ) : PreRel P T T :=
  ⟨fun t tm h => ⟨tm, h, SameData.refl tm, Or.inl rfl⟩, fun t h => Or.inl h⟩

theorem createIfEmpty_none (P : Params ν κ) (T : Tables ν κ) (t : TName ν) (h : T t = none) :
    createIfEmpty P T t = (setTable T t (newTable P t (some [])), true) := by
  simp [createIfEmpty, h]

theorem createIfEmpty_some (P : Params ν κ) (T : Tables ν κ) (t : TName ν) (tm : TableMem ν κ) (h : T t = some tm) :
    createIfEmpty P T t = (T, false) := by
  simp [createIfEmpty, h]

theorem createIfEmpty_flag (P : Params ν κ) (T : Tables ν κ) (t : TName ν) :
    (createIfEmpty P T t).2 = true ↔ T t = none := by
  cases h : T t with
  | none => simp [createIfEmpty_none P T t h]
  | some tm => simp [createIfEmpty_some P T t tm h]

theorem createIfEmpty_at (P : Params ν κ) (T : Tables ν κ) (t : TName ν) :
    (createIfEmpty P T t).1 t = some ((T t).getD (newTable P t (some []))) := by
  cases h : T t with
  | none => simp [createIfEmpty_none P T t h, setTable]
  | some tm => simp [createIfEmpty_some P T t tm h, h]

theorem createIfEmpty_other (P : Params ν κ) (T : Tables ν κ) (t t' : TName ν) (hne : t' ≠ t) :
    (createIfEmpty P T t).1 t' = T t' := by
  cases h : T t with
  | none => simp [createIfEmpty_none P T t h, setTable, hne]
  | some tm => simp [createIfEmpty_some P T t tm h]

theorem PreRel.create {P : Params ν κ} {T T1 : Tables ν κ} (h : PreRel P T T1) (t : TName ν) :
    PreRel P T (createIfEmpty P T1 t).1 := by
  cases h1 : T1 t with
  | some tm => rw [createIfEmpty_some P T1 t tm h1]; exact h
  | none =>
    rw [createIfEmpty_none P T1 t h1]
    constructor
    · intro t' tm ht'
      obtain ⟨tm', h2, h3⟩ := h.some_ t' tm ht'
      have : t' ≠ t := by intro e; subst e; rw [h1] at h2; cases h2
      exact ⟨tm', by simp [setTable, this, h2], h3⟩
    · intro t' ht'
      by_cases e : t' = t
      · subst e; right; simp [setTable]
      · simp only [setTable, e, if_false]; exact h.none_ t' ht'

theorem queryColumnNames_ok_some (T : Tables ν κ) (n : ν) (s : List (CName ν)) (h : queryColumnNames T n = .ok s) :
    ∃ b, T (.metaCols n) = some b := by
  cases hb : T (.metaCols n) with
  | none => simp [queryColumnNames, hb] at h
  | some b => exact ⟨b, rfl⟩

/-- A query of the column catalogue in the middle of the first loop gives what it gives on the tables before the call. -/
theorem PreRel.query {P : Params ν κ} {T T2 : Tables ν κ} (hrel : PreRel P T T2) (n : ν) (s : List (CName ν))
    (h : queryColumnNames T2 n = .ok s) : queryColumnNames T n = .ok s := by
  obtain ⟨b, hb⟩ := queryColumnNames_ok_some T2 n s h
  cases ha : T (.metaCols n) with
  | some a =>
    obtain ⟨a', h1, h2, _⟩ := hrel.some_ _ a ha
    rw [← queryColumnNames_congr T T2 n a a' ha h1 h2]; exact h
  | none =>
    rcases hrel.none_ _ ha with h1 | h1
    · rw [h1] at hb; cases hb
    · rw [queryColumnNames_new P T2 n _ h1] at h; cases h

theorem ensureNames_spec {P : Params ν κ} {T T2 T3 : Tables ν κ} {n : ν} {names : List (CName ν)}
    (hrel : PreRel P T T2) (h : ensureNames T2 n = .ok (T3, names)) :
    PreRel P T T3 ∧ (∀ t, T3 t = none ↔ T2 t = none) ∧
    ((∃ tm, T (.user n) = some tm ∧ tm.colNames = some names) ∨ (T (.user n) = none ∧ names = []) ∨
      queryColumnNames T n = .ok names) := by
  unfold ensureNames at h
  split at h
  · cases h
  · rename_i tm2 htm2
    split at h
    · rename_i s hs
      cases h
      refine ⟨hrel, fun t => Iff.rfl, ?_⟩
      cases hu : T (.user n) with
      | none =>
        rcases hrel.none_ _ hu with h1 | h1
        · rw [h1] at htm2; cases htm2
        · rw [h1] at htm2; cases htm2
          simp [newTable] at hs
          right; left; exact ⟨rfl, hs⟩
      | some tm =>
        obtain ⟨tm', h1, _, h3⟩ := hrel.some_ _ tm hu
        rw [htm2] at h1; cases h1
        rcases h3 with h3 | ⟨_, n', s', e, h4, h5⟩
        · left; exact ⟨tm, rfl, by rw [← h3, hs]⟩
        · cases e
          rw [hs] at h4; cases h4
          right; right; exact h5
    · rename_i hnone
      split at h
      · rename_i s hq
        cases h
        have hqT := hrel.query n names hq
        cases hu : T (.user n) with
        | none =>
          rcases hrel.none_ _ hu with h1 | h1
          · rw [h1] at htm2; cases htm2
          · rw [h1] at htm2; cases htm2
            simp [newTable] at hnone
        | some tm =>
          obtain ⟨tm', h1, h2, h3⟩ := hrel.some_ _ tm hu
          rw [htm2] at h1; cases h1
          have htmnone : tm.colNames = none := by
            rcases h3 with h3 | ⟨h3, _⟩
            · rw [← h3]; exact hnone
            · exact h3
          refine ⟨⟨?_, ?_⟩, ?_, Or.inr (Or.inr hqT)⟩
          · intro t' tm0 ht'
            by_cases e : t' = .user n
            · subst e
              rw [hu] at ht'; cases ht'
              refine ⟨{ tm2 with colNames := some names }, by simp [setTable], ?_, ?_⟩
              · obtain ⟨a1, a2, a3, a4, a5⟩ := h2; exact ⟨a1, a2, a3, a4, a5⟩
              · right; exact ⟨htmnone, n, names, rfl, rfl, hqT⟩
            · obtain ⟨tm0', g1, g2⟩ := hrel.some_ t' tm0 ht'
              exact ⟨tm0', by simp [setTable, e, g1], g2⟩
          · intro t' ht'
            have e : t' ≠ .user n := by intro e; subst e; rw [hu] at ht'; cases ht'
            simp only [setTable, e, if_false]; exact hrel.none_ t' ht'
          · intro t'
            by_cases e : t' = .user n
            · subst e; simp [setTable, htm2]
            · simp [setTable, e]
      · cases h

-- ------------------------------------------------------------------------------------------------ first loop: outputs

/-- `s` is, as a set, the names ever ingested into user table `n`. -/
def NamesRight (log : List (Request ν κ)) (n : ν) (s : List (CName ν)) : Prop :=
  ∀ c, c ∈ s ↔ c ∈ namesIn (logOf (.user n) log)

/-- What the first loop of `ingest_efficient` has accumulated after the shares `done`. -/
structure PreOut (P : Params ν κ) (log : List (Request ν κ)) (T : Tables ν κ) (done : Request ν κ) (acc : PreAcc ν κ) : Prop where
  rel : PreRel P T acc.tables
  allUser : ∀ sh ∈ done, ∃ n, sh.1 = TName.user n
  created : ∀ t, T t = none → acc.tables t ≠ none → ∃ n b, (t = .user n ∨ t = .metaCols n) ∧ (TName.user n, b) ∈ done
  rowsNodup : acc.metaRows.Nodup
  rowsMem : ∀ t, t ∈ acc.metaRows ↔ (T t = none ∧ acc.tables t ≠ none)
  colsNodup : (acc.colRows.map (·.1)).Nodup
  colsSub : ∀ x ∈ acc.colRows, x.2 ≠ [] ∧ ∃ b, (TName.user x.1, b) ∈ done ∧ ∀ c ∈ x.2, c ∈ b.names
  colsOf : ∀ n b, (TName.user n, b) ∈ done → ∃ s, NamesRight log n s ∧
      (acc.colRows.filter (fun x => x.1 = n)).flatMap (·.2) = b.names.filter (fun c => !(s.contains c))

theorem PreOut.init (P : Params ν κ) (log : List (Request ν κ)) (T : Tables ν κ) :
    PreOut P log T [] { tables := T, metaRows := [], colRows := [] } := by
  refine ⟨PreRel.refl P T, ?_, ?_, ?_, ?_, ?_, ?_, ?_⟩
  · intro sh h; cases h
  · intro t h1 h2; exact absurd h1 h2
  · exact List.nodup_nil
  · intro t; simp
  · exact List.nodup_nil
  · intro x h; cases h
  · intro n b h; cases h

theorem PreRel.none_of_none {P : Params ν κ} {T T' : Tables ν κ} (h : PreRel P T T') (t : TName ν) (h' : T' t = none) :
    T t = none := by
  cases ht : T t with
  | none => rfl
  | some tm => obtain ⟨tm', h1, _⟩ := h.some_ t tm ht; rw [h'] at h1; cases h1

/-- One iteration of the first loop. -/
theorem PreOut.step {P : Params ν κ} {log : List (Request ν κ)} {T : Tables ν κ} {done : Request ν κ}
    {acc acc' : PreAcc ν κ} {sh : Share ν κ}
    (hSome : ∀ n tm s, T (.user n) = some tm → tm.colNames = some s → NamesRight log n s)
    (hQuery : ∀ n s, queryColumnNames T n = .ok s → NamesRight log n s)
    (hNone : ∀ n, T (.user n) = none → NamesRight log n [])
    (ho : PreOut P log T done acc) (hnd : ((done ++ [sh]).map (·.1)).Nodup)
    (h : ingestPre1 P acc sh = .ok acc') : PreOut P log T (done ++ [sh]) acc' := by
  unfold ingestPre1 at h
  split at h
  · rename_i n hsh
    simp only at h
    split at h
    · cases h
    · rename_i T3 names hen
      cases h
      have hsh' : sh = (TName.user n, sh.2) := by rw [← hsh]
      have rel1 := ho.rel.create (.user n)
      have rel2 := rel1.create (.metaCols n)
      obtain ⟨rel3, hiff, hsrc⟩ := ensureNames_spec rel2 hen
      have hNR : NamesRight log n names := by
        rcases hsrc with ⟨tm, h1, h2⟩ | ⟨h1, h2⟩ | h1
        · exact hSome n tm names h1 h2
        · rw [h2]; exact hNone n h1
        · exact hQuery n names h1
      -- which tables exist after this iteration
      have hex : ∀ t, T3 t ≠ none ↔ (acc.tables t ≠ none ∨ t = .user n ∨ t = .metaCols n) := by
        intro t
        rw [Ne, hiff t]
        by_cases e2 : t = .metaCols n
        · subst e2; simp [createIfEmpty_at]
        · rw [createIfEmpty_other P _ _ t e2]
          by_cases e1 : t = .user n
          · subst e1; simp [createIfEmpty_at]
          · rw [createIfEmpty_other P _ _ t e1]; simp [e1, e2]
      have hf1 : (createIfEmpty P acc.tables (.user n)).2 = true ↔ acc.tables (.user n) = none := createIfEmpty_flag ..
      have hf2 : (createIfEmpty P (createIfEmpty P acc.tables (.user n)).1 (.metaCols n)).2 = true ↔ acc.tables (.metaCols n) = none := by
        rw [createIfEmpty_flag, createIfEmpty_other P _ _ _ (by simp)]
      have hfresh : ∀ b, (TName.user n, b) ∉ done := by
        intro b hb
        rw [List.map_append, List.nodup_append] at hnd
        have h1 : TName.user n ∈ done.map (·.1) := List.mem_map_of_mem (f := (·.1)) hb
        have h2 : TName.user n ∈ [sh].map (·.1) := by simp [hsh]
        exact hnd.2.2 _ h1 _ h2 rfl
      have hnotin : ∀ x ∈ acc.colRows, x.1 ≠ n := by
        intro x hx e
        obtain ⟨_, b, hb, _⟩ := ho.colsSub x hx
        rw [e] at hb; exact hfresh b hb
      refine ⟨rel3, ?_, ?_, ?_, ?_, ?_, ?_, ?_⟩
      · intro x hx
        rcases List.mem_append.mp hx with hx | hx
        · exact ho.allUser x hx
        · simp at hx; subst hx; exact ⟨n, hsh⟩
      · intro t h1 h2
        rcases (hex t).mp h2 with h3 | h3 | h3
        · obtain ⟨m, b, h4, h5⟩ := ho.created t h1 h3
          exact ⟨m, b, h4, List.mem_append_left _ h5⟩
        · exact ⟨n, sh.2, Or.inl h3, by rw [← hsh']; simp⟩
        · exact ⟨n, sh.2, Or.inr h3, by rw [← hsh']; simp⟩
      · -- metaRows Nodup
        simp only
        by_cases g1 : acc.tables (.user n) = none <;> by_cases g2 : acc.tables (.metaCols n) = none
        all_goals
          have g1' := g1; have g2' := g2
          first | rw [← hf1] at g1' | rw [← hf1, Bool.not_eq_true] at g1'
          first | rw [← hf2] at g2' | rw [← hf2, Bool.not_eq_true] at g2'
          simp only [g1', g2', if_true, if_false, Bool.false_eq_true, List.append_nil]
        · have a1 : TName.user n ∉ acc.metaRows := fun hm => ((ho.rowsMem _).mp hm).2 g1
          have a2 : TName.metaCols n ∉ acc.metaRows := fun hm => ((ho.rowsMem _).mp hm).2 g2
          rw [List.append_assoc, List.nodup_append]
          refine ⟨ho.rowsNodup, by simp, ?_⟩
          intro a ha b hb e
          subst e
          simp at hb
          rcases hb with rfl | rfl
          · exact a1 ha
          · exact a2 ha
        · have a1 : TName.user n ∉ acc.metaRows := fun hm => ((ho.rowsMem _).mp hm).2 g1
          rw [List.nodup_append]
          refine ⟨ho.rowsNodup, by simp, ?_⟩
          intro a ha b hb e
          subst e
          simp at hb
          subst hb
          exact a1 ha
        · have a2 : TName.metaCols n ∉ acc.metaRows := fun hm => ((ho.rowsMem _).mp hm).2 g2
          rw [List.nodup_append]
          refine ⟨ho.rowsNodup, by simp, ?_⟩
          intro a ha b hb e
          subst e
          simp at hb
          subst hb
          exact a2 ha
        · exact ho.rowsNodup
      · -- metaRows membership
        intro t
        simp only [List.mem_append, List.mem_ite_nil_right, List.mem_singleton, hf1, hf2]
        rw [ho.rowsMem t, hex t]
        constructor
        · rintro ((⟨h1, h2⟩ | ⟨h1, h2⟩) | ⟨h1, h2⟩)
          · exact ⟨h1, Or.inl h2⟩
          · subst h2; exact ⟨ho.rel.none_of_none _ h1, Or.inr (Or.inl rfl)⟩
          · subst h2; exact ⟨ho.rel.none_of_none _ h1, Or.inr (Or.inr rfl)⟩
        · rintro ⟨h1, h2⟩
          by_cases g : acc.tables t = none
          · rcases h2 with h2 | h2 | h2
            · exact absurd g h2
            · subst h2; exact Or.inl (Or.inr ⟨g, rfl⟩)
            · subst h2; exact Or.inr ⟨g, rfl⟩
          · exact Or.inl (Or.inl ⟨h1, g⟩)
      · -- colRows Nodup
        simp only
        split
        · simpa using ho.colsNodup
        · rw [List.map_append, List.nodup_append]
          refine ⟨ho.colsNodup, by simp, ?_⟩
          intro a ha b hb e
          subst e
          simp at hb
          obtain ⟨x, hx, rfl⟩ := List.mem_map.mp ha
          exact hnotin x hx hb
      · -- colRows entries
        intro x hx
        simp only at hx
        rcases List.mem_append.mp hx with hx | hx
        · obtain ⟨h1, b, h2, h3⟩ := ho.colsSub x hx
          exact ⟨h1, b, List.mem_append_left _ h2, h3⟩
        · split at hx
          · cases hx
          · rename_i hne
            simp at hx
            subst hx
            refine ⟨?_, sh.2, by rw [← hsh']; simp, ?_⟩
            · intro e; apply hne; simpa using e
            · intro c hc; exact (List.mem_filter.mp hc).1
      · -- the new names recorded for each table of the request
        intro m b hb
        rcases List.mem_append.mp hb with hb | hb
        · obtain ⟨s, h1, h2⟩ := ho.colsOf m b hb
          refine ⟨s, h1, ?_⟩
          have hmn : m ≠ n := by intro e; subst e; exact hfresh b hb
          simp only [List.filter_append]
          rw [List.flatMap_append, h2]
          split
          · simp
          · simp [Ne.symm hmn]
        · simp at hb
          rw [hsh'] at hb
          cases hb
          refine ⟨names, hNR, ?_⟩
          have : acc.colRows.filter (fun x => x.1 = n) = [] := by
            rw [List.filter_eq_nil_iff]; intro x hx; simpa using hnotin x hx
          simp only [List.filter_append, this, List.nil_append]
          split
          · rename_i he
            simp only [List.filter_nil, List.flatMap_nil]
            exact (List.isEmpty_iff.mp he).symm
          · simp
  · cases h

theorem PreOut.fold {P : Params ν κ} {log : List (Request ν κ)} {T : Tables ν κ}
    (hSome : ∀ n tm s, T (.user n) = some tm → tm.colNames = some s → NamesRight log n s)
    (hQuery : ∀ n s, queryColumnNames T n = .ok s → NamesRight log n s)
    (hNone : ∀ n, T (.user n) = none → NamesRight log n []) :
    ∀ (r done : Request ν κ) (acc acc' : PreAcc ν κ), PreOut P log T done acc → ((done ++ r).map (·.1)).Nodup →
      foldE (ingestPre1 P) r acc = .ok acc' → PreOut P log T (done ++ r) acc' := by
  intro r
  induction r with
  | nil => intro done acc acc' ho _ h; simp [foldE] at h; subst h; simpa using ho
  | cons sh r ih =>
    intro done acc acc' ho hnd h
    simp only [foldE] at h
    split at h
    · rename_i acc1 h1
      have hnd1 : ((done ++ [sh]).map (·.1)).Nodup := by
        have : (done ++ sh :: r) = (done ++ [sh]) ++ r := by simp
        rw [this, List.map_append] at hnd
        exact (List.nodup_append.mp hnd).1
      have ho1 := PreOut.step hSome hQuery hNone ho hnd1 h1
      have := ih (done ++ [sh]) acc1 acc' ho1 (by simpa using hnd) h
      simpa using this
    · cases h

-- ------------------------------------------------------------------------------------------------ the augmented request

theorem shareOf_eq_nil_of_forall (t : TName ν) (r : Request ν κ) (h : ∀ sh ∈ r, sh.1 ≠ t) : shareOf t r = [] := by
  simp only [shareOf, List.map_eq_nil_iff, List.filter_eq_nil_iff]
  intro sh hsh; simpa using h sh hsh

theorem shareOf_unique (t : TName ν) (b : Batch ν κ) : ∀ (r : Request ν κ), (r.map (·.1)).Nodup → (t, b) ∈ r → shareOf t r = [b] := by
  intro r
  induction r with
  | nil => intro _ h; cases h
  | cons sh r ih =>
    intro hnd hmem
    simp only [List.map_cons, List.nodup_cons] at hnd
    rcases List.mem_cons.mp hmem with e | hmem
    · subst e
      rw [shareOf_cons_same (t, b) r]
      simp only [List.cons.injEq, true_and]
      apply shareOf_eq_nil_of_forall
      intro x hx e
      exact hnd.1 (by rw [← e]; exact List.mem_map_of_mem (f := (·.1)) hx)
    · have hne : sh.1 ≠ t := by
        intro e
        exact hnd.1 (by rw [e]; exact List.mem_map_of_mem (f := (·.1)) hmem)
      rw [shareOf_cons_other t sh r hne]
      exact ih hnd.2 hmem

theorem shareOf_mem (t : TName ν) (b : Batch ν κ) (r : Request ν κ) : b ∈ shareOf t r ↔ (t, b) ∈ r := by
  simp only [shareOf, List.mem_map, List.mem_filter, decide_eq_true_eq]
  constructor
  · rintro ⟨sh, ⟨h1, h2⟩, h3⟩; cases sh; simp at h2 h3; subst h2; subst h3; exact h1
  · intro h; exact ⟨(t, b), ⟨h, rfl⟩, rfl⟩

def mtPart (acc : PreAcc ν κ) : Request ν κ :=
  if acc.metaRows.isEmpty then [] else [(TName.metaTables, metaTablesBatch acc.metaRows)]

def mcPart (acc : PreAcc ν κ) : Request ν κ :=
  acc.colRows.map (fun nc => (TName.metaCols nc.1, metaColsBatch nc.2))

theorem augment_eq (r : Request ν κ) (acc : PreAcc ν κ) : augment r acc = r ++ mtPart acc ++ mcPart acc := rfl

theorem augment_user (r : Request ν κ) (acc : PreAcc ν κ) (n : ν) :
    shareOf (.user n) (augment r acc) = shareOf (.user n) r := by
  rw [augment_eq, shareOf_append, shareOf_append]
  have h1 : shareOf (TName.user n) (mtPart acc) = [] := by
    apply shareOf_eq_nil_of_forall; intro sh hsh
    unfold mtPart at hsh; split at hsh
    · cases hsh
    · simp at hsh; subst hsh; simp
  have h2 : shareOf (TName.user n) (mcPart acc) = [] := by
    apply shareOf_eq_nil_of_forall; intro sh hsh
    simp only [mcPart, List.mem_map] at hsh
    obtain ⟨x, _, rfl⟩ := hsh; simp
  simp [h1, h2]

theorem augment_metaCols (r : Request ν κ) (acc : PreAcc ν κ) (n : ν) (hr : ∀ sh ∈ r, ∃ m, sh.1 = TName.user m) :
    shareOf (.metaCols n) (augment r acc) = (acc.colRows.filter (fun x => x.1 = n)).map (fun nc => metaColsBatch nc.2) := by
  rw [augment_eq, shareOf_append, shareOf_append]
  have h1 : shareOf (TName.metaCols n) r = [] := by
    apply shareOf_eq_nil_of_forall; intro sh hsh e
    obtain ⟨m, hm⟩ := hr sh hsh; rw [hm] at e; cases e
  have h2 : shareOf (TName.metaCols n) (mtPart acc) = [] := by
    apply shareOf_eq_nil_of_forall; intro sh hsh
    unfold mtPart at hsh; split at hsh
    · cases hsh
    · simp at hsh; subst hsh; simp
  rw [h1, h2]
  simp only [List.nil_append, shareOf, mcPart, List.filter_map, List.map_map]
  congr 1
  apply List.filter_congr
  intro x _
  simp [Function.comp]

theorem augment_metaTables (r : Request ν κ) (acc : PreAcc ν κ) (hr : ∀ sh ∈ r, ∃ m, sh.1 = TName.user m) :
    shareOf .metaTables (augment r acc) = if acc.metaRows.isEmpty then [] else [metaTablesBatch acc.metaRows] := by
  rw [augment_eq, shareOf_append, shareOf_append]
  have h1 : shareOf (TName.metaTables) r = [] := by
    apply shareOf_eq_nil_of_forall; intro sh hsh e
    obtain ⟨m, hm⟩ := hr sh hsh; rw [hm] at e; cases e
  have h2 : shareOf (TName.metaTables) (mcPart acc) = [] := by
    apply shareOf_eq_nil_of_forall; intro sh hsh
    simp only [mcPart, List.mem_map] at hsh
    obtain ⟨x, _, rfl⟩ := hsh; simp
  rw [h1, h2]
  unfold mtPart
  split <;> simp [shareOf]

-- ------------------------------------------------------------------------------------------------ catalogue rows in the log

theorem colCells_metaColsBatch (names : List (CName ν)) :
    colCells (κ := κ) .columnName (metaColsBatch names) = names.map Cell.cname := by
  simp [colCells, metaColsBatch, List.lookup]

theorem colCells_metaTablesBatch (rows : List (TName ν)) :
    colCells (κ := κ) .name (metaTablesBatch rows) = rows.map Cell.tname := by
  have : (CName.name (ν := ν) == CName.timestamp) = false := by
    rw [beq_eq_false_iff_ne]; intro h; cases h
  simp [colCells, metaTablesBatch, List.lookup, this]

theorem readColumn_metaCols (xs : List (ν × List (CName ν))) :
    readColumn (κ := κ) .columnName (xs.map (fun nc => metaColsBatch nc.2)) = (xs.flatMap (·.2)).map Cell.cname := by
  induction xs with
  | nil => rfl
  | cons x xs ih =>
    simp only [List.map_cons, List.flatMap_cons, List.map_append]
    rw [← ih]
    simp [readColumn, colCells_metaColsBatch]

theorem mem_augment (r : Request ν κ) (acc : PreAcc ν κ) (sh : Share ν κ) :
    sh ∈ augment r acc ↔ sh ∈ r ∨ sh ∈ mtPart acc ∨ sh ∈ mcPart acc := by
  rw [augment_eq]; simp [List.mem_append, or_assoc]

theorem names_nonempty_of_cols (b : Batch ν κ) (h : b.cols ≠ []) : b.names ≠ [] := by
  simpa [Batch.names] using h

theorem logOf_snoc (t : TName ν) (log : List (Request ν κ)) (ev : Request ν κ) :
    logOf t (log ++ [ev]) = logOf t log ++ shareOf t ev := by
  rw [logOf_append, logOf_singleton]

theorem logcat_ingest {P : Params ν κ} {log : List (Request ν κ)} {T : Tables ν κ} {r : Request ν κ} {acc : PreAcc ν κ}
    (hlc : LogCat log) (ho : PreOut P log T r acc) (hwf : ReqWF r)
    (hok : ∀ sh ∈ augment r acc, sh.2.nrows ≠ 0 ∧ sh.2.cols ≠ [])
    (hex : ∀ t, shareOf t (augment r acc) ≠ [] → acc.tables t ≠ none)
    (hAbs : ∀ t, T t = none → logOf t log = [] ∧ t ≠ .metaTables)
    (hPres : ∀ t tm, T t = some tm → logOf t log ≠ [] ∨ t = .metaTables) :
    LogCat (log ++ [augment r acc]) := by
  have hU := ho.allUser
  -- entries recorded for a table without a share: none
  have hnoent : ∀ n, (∀ b, (TName.user n, b) ∉ r) → acc.colRows.filter (fun x => x.1 = n) = [] := by
    intro n hn
    rw [List.filter_eq_nil_iff]
    intro x hx
    obtain ⟨_, b, hb, _⟩ := ho.colsSub x hx
    simp only [decide_eq_true_eq]
    intro e; rw [e] at hb; exact hn b hb
  have hmemMt : ∀ sh ∈ mtPart acc, sh = (TName.metaTables, metaTablesBatch acc.metaRows) := by
    intro sh hsh; unfold mtPart at hsh; split at hsh
    · cases hsh
    · simpa using hsh
  have hmemMc : ∀ sh ∈ mcPart acc, ∃ x ∈ acc.colRows, sh = (TName.metaCols x.1, metaColsBatch x.2) := by
    intro sh hsh; simp only [mcPart, List.mem_map] at hsh
    obtain ⟨x, hx, rfl⟩ := hsh; exact ⟨x, hx, rfl⟩
  constructor
  · -- wf: every table once
    intro r' hr'
    rcases List.mem_append.mp hr' with hr' | hr'
    · exact hlc.wf r' hr'
    · simp at hr'; subst hr'
      rw [augment_eq, List.map_append, List.map_append, List.nodup_append, List.nodup_append]
      refine ⟨⟨hwf.1, ?_, ?_⟩, ?_, ?_⟩
      · unfold mtPart; split <;> simp
      · intro a ha b hb e; subst e
        obtain ⟨x, hx, rfl⟩ := List.mem_map.mp ha
        obtain ⟨y, hy, e2⟩ := List.mem_map.mp hb
        obtain ⟨m, hm⟩ := hU x hx
        rw [hmemMt y hy] at e2; simp only at e2; rw [hm] at e2; cases e2
      · simp only [mcPart, List.map_map]
        have : (List.map ((fun x => x.1) ∘ fun (nc : ν × List (CName ν)) => (TName.metaCols (ν := ν) nc.1, metaColsBatch (κ := κ) nc.2)) acc.colRows)
            = (acc.colRows.map (·.1)).map TName.metaCols := by simp [Function.comp]
        rw [this]
        exact nodup_map_inj TName.metaCols (fun a b e => by cases e; rfl) ho.colsNodup
      · intro a ha b hb e; subst e
        obtain ⟨y, hy, e2⟩ := List.mem_map.mp hb
        obtain ⟨z, hz, rfl⟩ := hmemMc y hy
        simp only at e2
        rcases List.mem_append.mp ha with ha | ha
        · obtain ⟨x, hx, e3⟩ := List.mem_map.mp ha
          obtain ⟨m, hm⟩ := hU x hx
          rw [hm] at e3; rw [← e3] at e2; cases e2
        · obtain ⟨x, hx, e3⟩ := List.mem_map.mp ha
          rw [hmemMt x hx] at e3; simp only at e3; rw [← e3] at e2; cases e2
  · -- shareOk
    intro r' hr'
    rcases List.mem_append.mp hr' with hr' | hr'
    · exact hlc.shareOk r' hr'
    · simp at hr'; subst hr'; exact hok
  · -- shapeCols
    intro r' hr' n b hb
    rcases List.mem_append.mp hr' with hr' | hr'
    · exact hlc.shapeCols r' hr' n b hb
    · simp at hr'; subst hr'
      rcases (mem_augment _ _ _).mp hb with h | h | h
      · obtain ⟨m, hm⟩ := hU _ h; cases hm
      · have := hmemMt _ h; cases this
      · obtain ⟨x, _, e⟩ := hmemMc _ h; cases e; rfl
  · -- shapeTabs
    intro r' hr' b hb
    rcases List.mem_append.mp hr' with hr' | hr'
    · exact hlc.shapeTabs r' hr' b hb
    · simp at hr'; subst hr'
      rcases (mem_augment _ _ _).mp hb with h | h | h
      · obtain ⟨m, hm⟩ := hU _ h; cases hm
      · have := hmemMt _ h; cases this; rfl
      · obtain ⟨x, _, e⟩ := hmemMc _ h; cases e
  · -- within
    intro r' hr' n mb hb
    rcases List.mem_append.mp hr' with hr' | hr'
    · exact hlc.within r' hr' n mb hb
    · simp at hr'; subst hr'
      rcases (mem_augment _ _ _).mp hb with h | h | h
      · obtain ⟨m, hm⟩ := hU _ h; cases hm
      · have := hmemMt _ h; cases this
      · obtain ⟨x, hx, e⟩ := hmemMc _ h
        cases e
        obtain ⟨_, b, hb1, hb2⟩ := ho.colsSub x hx
        exact ⟨b, (mem_augment _ _ _).mpr (Or.inl hb1), x.2, colCells_metaColsBatch x.2, hb2⟩
  · -- pair
    intro n
    rw [logOf_snoc, logOf_snoc, augment_user, augment_metaCols r acc n hU]
    simp only [List.append_eq_nil_iff, List.map_eq_nil_iff]
    constructor
    · rintro ⟨h1, h2⟩
      refine ⟨(hlc.pair n).mp h1, hnoent n ?_⟩
      intro b hb
      have := (shareOf_mem (TName.user n) b r).mpr hb
      rw [h2] at this; cases this
    · rintro ⟨h1, h2⟩
      have h1' := (hlc.pair n).mpr h1
      refine ⟨h1', ?_⟩
      cases hs : shareOf (TName.user n) r with
      | nil => rfl
      | cons b bs =>
        exfalso
        have hb : (TName.user n, b) ∈ r := (shareOf_mem _ b r).mp (by rw [hs]; simp)
        obtain ⟨s, hs1, hs2⟩ := ho.colsOf n b hb
        rw [h2] at hs2
        have hsnil : ∀ c, c ∉ s := by
          intro c hc
          have := (hs1 c).mp hc
          rw [h1'] at this; simp [namesIn] at this
        have hne := names_nonempty_of_cols b (hok _ ((mem_augment _ _ _).mpr (Or.inl hb))).2
        have : b.names.filter (fun c => !(s.contains c)) = b.names := by
          rw [List.filter_eq_self]; intro c _; simp [hsnil c]
        rw [this] at hs2
        exact hne (by simpa using hs2.symm)
  · -- cols
    intro n
    obtain ⟨L, hL1, hL2, hL3⟩ := hlc.cols n
    rw [logOf_snoc, logOf_snoc, augment_user, augment_metaCols r acc n hU, readColumn_append, readColumn_metaCols, hL1,
      ← List.map_append, namesIn_append]
    refine ⟨_, rfl, ?_, ?_⟩
    · cases hs : shareOf (TName.user n) r with
      | nil =>
        rw [hnoent n (fun b hb => by have := (shareOf_mem (TName.user n) b r).mpr hb; rw [hs] at this; cases this)]
        simpa using hL2
      | cons b bs =>
        have hb : (TName.user n, b) ∈ r := (shareOf_mem _ b r).mp (by rw [hs]; simp)
        obtain ⟨s, hs1, hs2⟩ := ho.colsOf n b hb
        rw [hs2, List.nodup_append]
        refine ⟨hL2, nodup_filter _ (hwf.2 _ hb), ?_⟩
        intro a ha c hc e; subst e
        have := (List.mem_filter.mp hc).2
        have hin : a ∈ s := (hs1 a).mpr ((hL3 a).mp ha)
        simp [hin] at this
    · intro c
      cases hs : shareOf (TName.user n) r with
      | nil =>
        rw [hnoent n (fun b hb => by have := (shareOf_mem (TName.user n) b r).mpr hb; rw [hs] at this; cases this)]
        simpa [namesIn] using hL3 c
      | cons b bs =>
        have hb : (TName.user n, b) ∈ r := (shareOf_mem _ b r).mp (by rw [hs]; simp)
        have huniq := shareOf_unique _ b r hwf.1 hb
        rw [hs] at huniq; cases huniq
        obtain ⟨s, hs1, hs2⟩ := ho.colsOf n b hb
        rw [hs2]
        simp only [List.mem_append, List.mem_filter, namesIn, List.flatMap_cons, List.flatMap_nil, List.append_nil]
        rw [hL3 c]
        constructor
        · rintro (h | ⟨h, _⟩)
          · exact Or.inl h
          · exact Or.inr h
        · rintro (h | h)
          · exact Or.inl h
          · by_cases hc : c ∈ s
            · exact Or.inl ((hs1 c).mp hc)
            · exact Or.inr ⟨h, by simp [hc]⟩
  · -- tabs
    obtain ⟨L, hL1, hL2, hL3⟩ := hlc.tabs
    refine ⟨L ++ acc.metaRows, ?_, ?_, ?_⟩
    · rw [logOf_snoc, augment_metaTables r acc hU, readColumn_append, hL1, List.map_append]
      congr 1
      split
      · rename_i he; rw [List.isEmpty_iff.mp he]; rfl
      · simp [readColumn, colCells_metaTablesBatch]
    · rw [List.nodup_append]
      refine ⟨hL2, ho.rowsNodup, ?_⟩
      intro a ha b hb e; subst e
      have h1 := ((ho.rowsMem a).mp hb).1
      exact ((hL3 a).mp ha).2 (hAbs a h1).1
    · intro t
      rw [List.mem_append, hL3 t, ho.rowsMem t, logOf_snoc]
      constructor
      · rintro (⟨h1, h2⟩ | ⟨h1, h2⟩)
        · exact ⟨h1, by simp [h2]⟩
        · refine ⟨(hAbs t h1).2, ?_⟩
          obtain ⟨n, b, ht, hb⟩ := ho.created t h1 h2
          have hlog : logOf (TName.user n) log = [] := by
            rcases ht with ht | ht
            · subst ht; exact (hAbs _ h1).1
            · subst ht; exact (hlc.pair n).mpr (hAbs _ h1).1
          rcases ht with ht | ht
          · subst ht
            rw [augment_user, shareOf_unique _ b r hwf.1 hb]; simp
          · subst ht
            rw [augment_metaCols r acc n hU]
            obtain ⟨s, hs1, hs2⟩ := ho.colsOf n b hb
            have hsnil : ∀ c, c ∉ s := by
              intro c hc
              have := (hs1 c).mp hc
              rw [hlog] at this; simp [namesIn] at this
            have hne := names_nonempty_of_cols b (hok _ ((mem_augment _ _ _).mpr (Or.inl hb))).2
            have : b.names.filter (fun c => !(s.contains c)) = b.names := by
              rw [List.filter_eq_self]; intro c _; simp [hsnil c]
            rw [this] at hs2
            intro e
            simp only [List.append_eq_nil_iff, List.map_eq_nil_iff] at e
            rw [e.2] at hs2
            exact hne (by simpa using hs2.symm)
      · rintro ⟨h1, h2⟩
        by_cases hl : logOf t log = []
        · right
          rw [hl, List.nil_append] at h2
          have hT : T t = none := by
            cases hT : T t with
            | none => rfl
            | some tm => rcases hPres t tm hT with h | h
                         · exact absurd hl h
                         · exact absurd h h1
          exact ⟨hT, hex t h2⟩
        · exact Or.inl ⟨h1, hl⟩

-- ------------------------------------------------------------------------------------------------ ingest preserves Durable

theorem allCnames_map (L : List (CName ν)) : allCnames (κ := κ) (L.map Cell.cname) = some L := by
  induction L with
  | nil => rfl
  | cons c cs ih => simp [allCnames, cnameOfCell, ih]

theorem queryColumnNames_eq {T : Tables ν κ} {n : ν} {tmc : TableMem ν κ} {bs : List (Batch ν κ)} {L s : List (CName ν)}
    (h1 : T (.metaCols n) = some tmc) (h2 : tableBatches tmc = .ok bs)
    (h3 : readColumn .columnName bs = L.map Cell.cname) (h : queryColumnNames T n = .ok s) : s = L := by
  simp only [queryColumnNames, h1, h2, h3] at h
  cases L with
  | nil => simp at h
  | cons c cs =>
    have := allCnames_map (κ := κ) (c :: cs)
    simp only [List.map_cons] at this h
    rw [this] at h
    simp at h
    exact h.symm

/-- The catalogue query of a durable world returns exactly the names ever ingested. -/
theorem DurableAt.query {w : World ν κ} {pre} (hd : DurableAt w pre) (n : ν) (s : List (CName ν))
    (h : queryColumnNames w.mem.tables n = .ok s) : NamesRight w.log n s ∧ s.Nodup := by
  obtain ⟨tmc, htmc⟩ := queryColumnNames_ok_some _ n s h
  obtain ⟨L, hL1, hL2, hL3⟩ := hd.logcat.whole.cols n
  have hc := (hd.tabs _ tmc htmc).content
  rw [← hd.log] at hc
  have := queryColumnNames_eq htmc hc hL1 h
  subst this
  exact ⟨hL3, hL2⟩

theorem TableOk.ingest_some {t : TName ν} {tm tm' : TableMem ν κ} {cat files pre post} {ev : Request ν κ}
    (h : TableOk t tm cat files pre post) (hsd : SameData tm tm')
    (hn : tm'.colNames = tm.colNames ∨
          (tm.colNames = none ∧ ∃ n s, t = .user n ∧ tm'.colNames = some s ∧ NamesRight (pre ++ post) n s)) :
    TableOk t (appendTo tm' (shareOf t ev)) cat files pre (post ++ [ev]) := by
  obtain ⟨a1, a2, a3, a4, a5⟩ := hsd
  have hlog : logOf t (pre ++ (post ++ [ev])) = logOf t (pre ++ post) ++ shareOf t ev := by
    rw [← List.append_assoc, logOf_snoc]
  constructor
  · simp [appendTo, a2, h.frozen]
  · simpa [appendTo, a3, a4, a5] using h.parts
  · simpa [appendTo, a3] using h.cat
  · simpa [appendTo, a3] using h.files
  · simpa [appendTo, a3] using h.flushed
  · simp [appendTo, a1, h.buffered, logOf_snoc]
  · rcases h.nonempty with h1 | h1
    · left; rw [hlog]; simp [h1]
    · right; exact h1
  · intro n ht s hs c
    rw [hlog, namesIn_append]
    simp only [appendTo, Option.map_eq_some_iff] at hs
    obtain ⟨s0, hs0, rfl⟩ := hs
    rw [List.mem_append, List.mem_append]
    rcases hn with hn | ⟨_, n', s', ht', hs', hnr⟩
    · rw [hn] at hs0
      rw [h.namesUser n ht s0 hs0 c]
    · rw [hs'] at hs0; cases hs0
      rw [ht] at ht'; cases ht'
      rw [hnr c, ht]
  · intro hcat
    obtain ⟨s0, hs0, hsub⟩ := h.namesCat hcat
    have hcn : tm'.colNames = some s0 := by
      rcases hn with hn | ⟨_, n', _, ht', _⟩
      · rw [hn]; exact hs0
      · exact absurd ht' (hcat n')
    refine ⟨s0 ++ namesIn (shareOf t ev), by simp [appendTo, hcn], ?_⟩
    intro c hc
    rw [hlog, namesIn_append, List.mem_append] at hc
    rcases hc with hc | hc
    · exact List.mem_append_left _ (hsub c hc)
    · exact List.mem_append_right _ hc

theorem TableOk.ingest_new {P : Params ν κ} {t : TName ν} {pre post} {ev : Request ν κ}
    (hlog : logOf t (pre ++ post) = []) (hne : shareOf t ev ≠ []) :
    TableOk t (appendTo (newTable P t (some [])) (shareOf t ev)) [] [] pre (post ++ [ev]) := by
  have hpre : logOf t pre = [] := by rw [logOf_append] at hlog; exact (List.append_eq_nil_iff.mp hlog).1
  have hpost : logOf t post = [] := by rw [logOf_append] at hlog; exact (List.append_eq_nil_iff.mp hlog).2
  have hlog' : logOf t (pre ++ (post ++ [ev])) = shareOf t ev := by
    rw [← List.append_assoc, logOf_snoc, hlog]; rfl
  constructor
  · simp [appendTo, newTable]
  · simp only [appendTo, newTable]
    exact ⟨by simp, by simp, by simp, by simp, rfl, by simp⟩
  · simp [appendTo, newTable]
  · simp [appendTo, newTable]
  · simp [appendTo, newTable, partRows, hpre]
  · simp [appendTo, newTable, logOf_snoc, hpost]
  · left; rw [hlog']; exact hne
  · intro n ht s hs c
    subst ht
    simp [appendTo, newTable] at hs
    subst hs
    rw [hlog']
  · intro hcat
    rw [hlog']
    cases t with
    | user n => exact absurd rfl (hcat n)
    | metaTables =>
      exact ⟨[CName.timestamp, CName.name] ++ namesIn (shareOf .metaTables ev), by simp [appendTo, newTable],
        fun c hc => List.mem_append_right _ hc⟩
    | metaCols n =>
      exact ⟨P.metaColsInit ++ namesIn (shareOf (.metaCols n) ev), by simp [appendTo, newTable],
        fun c hc => List.mem_append_right _ hc⟩

theorem DurableAt.ingest {P : Params ν κ} {w w' : World ν κ} {r : Request ν κ} {bytes : Nat} {pre}
    (hd : DurableAt w pre) (hwf : ReqWF r) (h : ingest P w r bytes = .ok w') : DurableAt w' pre := by
  have hwal := walInv_ingest P w w' r bytes hd.wal h
  unfold LM.Store.ingest at h
  split at h
  · cases h
  · rename_i acc hacc
    simp only at h
    split at h
    · cases h
    · rename_i T' hT'
      cases h
      have hSome : ∀ n tm s, w.mem.tables (.user n) = some tm → tm.colNames = some s → NamesRight w.log n s := by
        intro n tm s h1 h2 c
        rw [hd.log]; exact (hd.tabs _ tm h1).namesUser n rfl s h2 c
      have hQuery : ∀ n s, queryColumnNames w.mem.tables n = .ok s → NamesRight w.log n s :=
        fun n s hq => (hd.query n s hq).1
      have hNone : ∀ n, w.mem.tables (.user n) = none → NamesRight w.log n [] := by
        intro n h1 c
        rw [(hd.absent _ h1).2.1]; simp [namesIn]
      have ho : PreOut P w.log w.mem.tables r acc := by
        have := PreOut.fold hSome hQuery hNone r [] _ acc (PreOut.init P w.log w.mem.tables) (by simpa using hwf.1) hacc
        simpa using this
      obtain ⟨hT1, hT2, hT3⟩ := applyFold _ _ _ hT'
      have hexT : ∀ t, shareOf t (augment r acc) ≠ [] → acc.tables t ≠ none := by
        intro t ht
        obtain ⟨tm, s, h1, _⟩ := hT2 t ht
        rw [h1]; simp
      have hAbs : ∀ t, w.mem.tables t = none → logOf t w.log = [] ∧ t ≠ .metaTables :=
        fun t ht => ⟨(hd.absent t ht).2.1, (hd.absent t ht).1⟩
      have hPres : ∀ t tm, w.mem.tables t = some tm → logOf t w.log ≠ [] ∨ t = .metaTables := by
        intro t tm ht; rw [hd.log]; exact (hd.tabs t tm ht).nonempty
      have hlc := logcat_ingest hd.logcat.whole ho hwf hT3 hexT hAbs hPres
      have hwalreq : (w.disk.wal ++ [(⟨w.mem.cat.nextWal, augment r acc, bytes⟩ : WalFile ν κ)]).map (fun f => f.req)
          = w.disk.wal.map (fun f => f.req) ++ [augment r acc] := by
        simp
      have hlcAll : LogCatAll (w.log ++ [augment r acc]) := by
        intro l1 l2 e
        rcases List.eq_nil_or_concat l2 with h2 | ⟨l2', x, h2⟩
        · subst h2; rw [List.append_nil] at e; rw [← e]; exact hlc
        · subst h2
          rw [List.concat_eq_append, ← List.append_assoc] at e
          have := List.append_inj' e rfl
          exact hd.logcat l1 l2' this.1
      refine ⟨hwal, hd.lossy, hd.metaEq, ?_, ?_, ?_, hlcAll⟩
      · simp only [hwalreq]; rw [hd.log, List.append_assoc]
      · intro t tm' htm'
        simp only [hwalreq]
        simp only at htm'
        rw [hT1 t] at htm'
        cases hacc_t : acc.tables t with
        | none => rw [hacc_t] at htm'; cases htm'
        | some tma =>
          rw [hacc_t] at htm'
          simp only [Option.map_some, Option.some.injEq] at htm'
          subst htm'
          cases hw : w.mem.tables t with
          | some tm =>
            obtain ⟨tm2, h1, h2, h3⟩ := ho.rel.some_ t tm hw
            rw [hacc_t] at h1; cases h1
            apply (hd.tabs t tm hw).ingest_some h2
            rcases h3 with h3 | ⟨h3, n, s, h4, h5, h6⟩
            · exact Or.inl h3
            · right; refine ⟨h3, n, s, h4, h5, ?_⟩
              rw [← hd.log]; exact hQuery n s h6
          | none =>
            rcases ho.rel.none_ t hw with h1 | h1
            · rw [hacc_t] at h1; cases h1
            · rw [hacc_t] at h1; cases h1
              obtain ⟨_, hl, hc, hf⟩ := hd.absent t hw
              rw [hc, hf]
              apply TableOk.ingest_new (by rw [← hd.log]; exact hl)
              -- a table created by this call gets a share
              have hin : t ∈ acc.metaRows := (ho.rowsMem t).mpr ⟨hw, by rw [hacc_t]; simp⟩
              obtain ⟨L, hL1, hL2, hL3⟩ := hlc.tabs
              obtain ⟨L0, hM1, hM2, hM3⟩ := hd.logcat.whole.tabs
              have : logOf t (w.log ++ [augment r acc]) ≠ [] := by
                -- t is listed by the new table catalogue
                have hlisted : Cell.tname t ∈ readColumn (κ := κ) .name (logOf .metaTables (w.log ++ [augment r acc])) := by
                  rw [logOf_snoc, augment_metaTables r acc ho.allUser, readColumn_append]
                  apply List.mem_append_right
                  have hne : acc.metaRows.isEmpty = false := by
                    cases hm : acc.metaRows with
                    | nil => rw [hm] at hin; cases hin
                    | cons a as => rfl
                  simp only [hne, Bool.false_eq_true, if_false, readColumn, List.flatMap_cons, List.flatMap_nil, List.append_nil,
                    colCells_metaTablesBatch]
                  exact List.mem_map_of_mem hin
                rw [hL1] at hlisted
                obtain ⟨t', ht', e⟩ := List.mem_map.mp hlisted
                cases e
                exact ((hL3 t).mp ht').2
              rw [logOf_snoc, hl, List.nil_append] at this
              exact this
      · intro t ht
        simp only at ht
        rw [hT1 t] at ht
        have hacc_t : acc.tables t = none := by
          cases hx : acc.tables t with
          | none => rfl
          | some x => rw [hx] at ht; simp at ht
        have hw : w.mem.tables t = none := ho.rel.none_of_none t hacc_t
        obtain ⟨h1, h2, h3, h4⟩ := hd.absent t hw
        refine ⟨h1, ?_, h3, h4⟩
        simp only
        rw [logOf_snoc, h2, List.nil_append]
        cases hs : shareOf t (augment r acc) with
        | nil => rfl
        | cons b bs =>
          exfalso
          exact hexT t (by rw [hs]; simp) hacc_t

/-- `ingest_efficient` preserves the invariant (for a request that is a map: each table once, each column once). -/
theorem durable_ingest (P : Params ν κ) (w w' : World ν κ) (r : Request ν κ) (bytes : Nat)
    (hd : Durable w) (hwf : ReqWF r) (h : ingest P w r bytes = .ok w') : Durable w' := by
  obtain ⟨pre, hd⟩ := hd
  exact ⟨pre, hd.ingest hwf h⟩

end LM.Store
