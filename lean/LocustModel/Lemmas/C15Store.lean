import LocustModel.Lemmas.C15Route
import LocustModel.Lemmas.C15Names
/- Helper lemmas for C15: the two shapes of `subpartition`, writing and loading files. -/
namespace LM.Routing

theorem subpartition_single {α} (Hn : Name → List UInt8) (U : Nat → Bool) (max : Nat) (cols : List (Col α))
    (g : List (Col α) × Nat) (h : groupGo max (sortCols cols) [] 0 = [g]) :
    subpartition Hn U max cols =
      ([{ key := allKey, sizeBytes := g.2, lastColumn := lastAll (sortCols cols) }], [g.1]) := by
  simp [subpartition, h]

theorem subpartition_multi {α} (Hn : Name → List UInt8) (U : Nat → Bool) (max : Nat) (cols : List (Col α))
    (h : ∀ g, groupGo max (sortCols cols) [] 0 ≠ [g]) :
    subpartition Hn U max cols =
      ((groupGo max (sortCols cols) [] 0).map (mkMeta Hn U), (groupGo max (sortCols cols) [] 0).map (·.1)) := by
  unfold subpartition
  simp only []   -- the match reduces by its second equation, whose side condition is `h`

/-- In the several-groups case there is at least one column. -/
theorem multi_cols_ne_nil {α} (max : Nat) (cols : List (Col α))
    (h : ∀ g, groupGo max (sortCols cols) [] 0 ≠ [g]) : sortCols cols ≠ [] := by
  intro hnil
  rw [hnil] at h
  exact h ([], 0) (by simp [groupGo])

theorem mem_groups_mem_cols {α} (max : Nat) (cols : List (Col α)) :
    ∀ g ∈ groupGo max (sortCols cols) [] 0, ∀ c ∈ g.1, c ∈ cols := by
  intro g hg c hc
  have hfl := groupGo_flatten max (sortCols cols) [] 0
  have : c ∈ ((groupGo max (sortCols cols) [] 0).map (·.1)).flatten := by
    simp only [List.mem_flatten, List.mem_map]
    exact ⟨g.1, ⟨g, hg, rfl⟩, hc⟩
  rw [hfl] at this
  simpa [mem_sortCols] using this

/-! ### files -/

theorem load_store_same {α} (fs : Files α) (p : Name) (d : List (Col α)) : load (store fs p d) p = some d := by
  simp [load, store]

theorem load_store_other {α} (fs : Files α) (p q : Name) (d : List (Col α)) (h : q ≠ p) :
    load (store fs p d) q = load fs q := by
  unfold load store
  have hpq : (p == q) = false := by simp; exact fun e => h e.symm
  rw [List.find?_cons]
  simp only [hpq]
  congr 1
  induction fs with
  | nil => rfl
  | cons e rest ih =>
    simp only [List.filter_cons]
    by_cases he : e.1 = p
    · have h1 : (!(e.1 == p)) = false := by simp [he]
      have h2 : (e.1 == q) = false := by simp [he]; exact fun e => h e.symm
      simp only [h1, List.find?_cons, h2]
      exact ih
    · have h1 : (!(e.1 == p)) = true := by simp [he]
      simp only [h1, if_true, List.find?_cons]
      cases e.1 == q <;> simp [ih]

theorem load_write_other {α} (fs : Files α) (id : Nat) (ms : List SubMeta) (gs : List (List (Col α))) (q : Name)
    (h : ∀ m ∈ ms, q ≠ partitionFilename id m.key) :
    load (writeSubpartitions fs id ms gs) q = load fs q := by
  induction ms generalizing fs gs with
  | nil => simp [writeSubpartitions]
  | cons m ms ih =>
    cases gs with
    | nil => simp [writeSubpartitions]
    | cons g gs =>
      simp only [writeSubpartitions]
      rw [ih _ gs (fun m' hm' => h m' (List.mem_cons_of_mem _ hm'))]
      exact load_store_other fs _ q g (h m (by simp))

/-- With pairwise distinct keys every group is found under its own file name after all writes. -/
theorem load_write_same {α} (fs : Files α) (id : Nat) (ms : List SubMeta) (gs : List (List (Col α)))
    (hk : (ms.map (·.key)).Nodup) :
    ∀ p ∈ ms.zip gs, load (writeSubpartitions fs id ms gs) (partitionFilename id p.1.key) = some p.2 := by
  induction ms generalizing fs gs with
  | nil => simp
  | cons m ms ih =>
    cases gs with
    | nil => simp
    | cons g gs =>
      simp only [List.map_cons, List.nodup_cons] at hk
      intro p hp
      simp only [List.zip_cons_cons, List.mem_cons] at hp
      simp only [writeSubpartitions]
      rcases hp with rfl | hp
      · rw [load_write_other]
        · exact load_store_same fs _ g
        · intro m' hm' heq
          have := (partitionFilename_inj _ _ _ _ heq).2
          exact hk.1 (by rw [this]; exact List.mem_map_of_mem hm')
      · exact ih _ gs hk.2 p hp

/-- Whatever a file of the written partition contains is one of the groups (or was there before). -/
theorem load_write_content {α} (fs : Files α) (id : Nat) (ms : List SubMeta) (gs : List (List (Col α))) (q : Name)
    (d : List (Col α)) (h : load (writeSubpartitions fs id ms gs) q = some d) : d ∈ gs ∨ load fs q = some d := by
  induction ms generalizing fs gs with
  | nil => right; simpa [writeSubpartitions] using h
  | cons m ms ih =>
    cases gs with
    | nil => right; simpa [writeSubpartitions] using h
    | cons g gs =>
      simp only [writeSubpartitions] at h
      rcases ih _ gs h with h' | h'
      · left; exact List.mem_cons_of_mem _ h'
      · by_cases hq : q = partitionFilename id m.key
        · subst hq; rw [load_store_same] at h'; left; simp at h'; simp [h']
        · rw [load_store_other _ _ _ _ hq] at h'; right; exact h'

theorem find_by_name {α} (l : List (Col α)) (c : Col α) (hc : c ∈ l)
    (hd : l.Pairwise (fun a b => a.name ≠ b.name)) : l.find? (fun x => x.name == c.name) = some c := by
  induction l with
  | nil => simp at hc
  | cons x xs ih =>
    rw [List.pairwise_cons] at hd
    rcases List.mem_cons.1 hc with rfl | hc
    · simp
    · have : (x.name == c.name) = false := by simp; exact hd.1 c hc
      rw [List.find?_cons, this]
      exact ih hc hd.2

theorem find_by_name_none {α} (l : List (Col α)) (n : Name) (h : ∀ c ∈ l, c.name ≠ n) :
    l.find? (fun x => x.name == n) = none := by
  simp [List.find?_eq_none]; exact h

end LM.Routing
