import LocustModel.Query.Sum
/-
  Helper lemmas for the SUM part of C06 (Thm/C06.lean states the property theorems).
-/
namespace LM.Sum
open LM LM.Merge

theorem ovfAdd_clear {a x : Int} (h : (ovfAdd a x).2 = false) : (ovfAdd a x).1 = a + x ∧ inI64 (a + x) := by
  simp [ovfAdd] at h
  exact ⟨by simp [ovfAdd, wrap64_id h], h⟩

theorem ovfAdd_set {a x : Int} (h : (ovfAdd a x).2 = true) : ¬ inI64 (a + x) := by
  simpa [ovfAdd] using h

/-- Once raised, the flag stays up. -/
theorem accumulate_flag_mono (xs : List Int) (a : Int) : (accumulate (a, true) xs).2 = true := by
  induction xs generalizing a with
  | nil => simp [accumulate]
  | cons x xs ih => simp [accumulate, ih]

/-- A clear flag at the end means: it was clear at the start, every step was exact, the result is the exact sum. -/
theorem accumulate_exact (xs : List Int) (a : Int) (o : Bool) (v : Int)
    (h : accumulate (a, o) xs = (v, false)) : o = false ∧ v = a + xs.sum ∧ (inI64 a → inI64 v) := by
  induction xs generalizing a o with
  | nil =>
    simp [accumulate] at h
    exact ⟨h.2, by simp [h.1], fun ha => h.1 ▸ ha⟩
  | cons x xs ih =>
    simp only [accumulate] at h
    obtain ⟨ho, hv, hin⟩ := ih _ _ h
    have ho1 : o = false := by cases o <;> simp_all
    have ho2 : (ovfAdd a x).2 = false := by cases o <;> simp_all
    obtain ⟨e1, e2⟩ := ovfAdd_clear ho2
    refine ⟨ho1, ?_, fun _ => hin (e1 ▸ e2)⟩
    rw [hv, e1, List.sum_cons]; omega

/-- A raised flag means some prefix of the exact running sum left i64 (the first such prefix raises it). -/
theorem accumulate_flag_needed (xs : List Int) (a : Int) (ha : inI64 a)
    (h : (accumulate (a, false) xs).2 = true) : ∃ k, k ≤ xs.length ∧ ¬ inI64 (a + (xs.take k).sum) := by
  induction xs generalizing a with
  | nil => simp [accumulate] at h
  | cons x xs ih =>
    simp only [accumulate, Bool.false_or] at h
    cases hf : (ovfAdd a x).2 with
    | true =>
      exact ⟨1, by simp, by simpa using ovfAdd_set hf⟩
    | false =>
      obtain ⟨e1, e2⟩ := ovfAdd_clear hf
      rw [hf, e1] at h
      obtain ⟨k, hk, hbad⟩ := ih (a + x) e2 h
      refine ⟨k + 1, by simp; omega, ?_⟩
      simpa [List.take_succ_cons, List.sum_cons, Int.add_assoc] using hbad

theorem presentVals_append (a b : List (Option Int)) : presentVals (a ++ b) = presentVals a ++ presentVals b := by
  simp [presentVals, List.filterMap_append]

theorem presentVals_inI64 {cells : List (Option Int)} (h : WfCells cells) : ∀ x ∈ presentVals cells, inI64 x := by
  intro x hx
  simp [presentVals] at hx
  exact h x hx

/-- The sum of i64 values … is just an Int; what matters below is only emptiness and the value. -/
theorem exactSum_append (a b : List (Option Int)) :
    exactSum (a ++ b) =
      match exactSum a, exactSum b with
      | none, y => y
      | x, none => x
      | some x, some y => some (x + y) := by
  simp only [exactSum, presentVals_append]
  cases ha : presentVals a with
  | nil => cases hb : presentVals b <;> simp
  | cons x xs =>
    cases hb : presentVals b with
    | nil => simp
    | cons y ys => simp [List.sum_append]; omega

theorem accumulate_fst_flag (xs : List Int) (a : Int) (o : Bool) :
    (accumulate (a, o) xs).1 = (accumulate (a, false) xs).1 := by
  induction xs generalizing a o with
  | nil => simp [accumulate]
  | cons x xs ih => simp only [accumulate]; rw [ih, ih (o := false || (ovfAdd a x).2)]


/-- What a partial result means: the sentinel for "no value", otherwise the exact sum, an i64 other than the sentinel. -/
def Represents (v : Int) (e : Option Int) : Prop :=
  (e = none ∧ v = I64_MAX) ∨ (e = some v ∧ v ≠ I64_MAX ∧ inI64 v)

theorem evalTree_represents (t : PTree) (hs : NoSentinel t) (v : Int) (h : evalTree t = .ok v) :
    Represents v (exactSum (cellsOf t)) := by
  induction t generalizing v with
  | leaf cells =>
    simp only [evalTree, partialSum] at h
    simp only [NoSentinel] at hs
    simp only [cellsOf]
    split at h
    · simp at h
    · rename_i hflag
      split at h
      · rename_i hemp
        simp at h
        left; exact ⟨by simp [exactSum, hemp], h.symm⟩
      · rename_i hne
        simp at h
        have hsum : sumChecked (presentVals cells) = (v, false) := by
          rw [← h]; cases hq : sumChecked (presentVals cells) with
          | mk a b => simp [hq] at hflag ⊢; exact hflag
        obtain ⟨_, e1', e2'⟩ := accumulate_exact _ 0 false v hsum
        have e1 : v = (presentVals cells).sum := by simpa using e1'
        have e2 : inI64 v := e2' (by decide)
        have hex : exactSum cells = some v := by simp [exactSum, hne, e1]
        right; refine ⟨hex, ?_, e2⟩
        intro hmax; apply hs; rw [hex, hmax]
  | node l r ihl ihr =>
    obtain ⟨hsl, hsr, hsn⟩ := hs
    simp only [evalTree] at h
    split at h
    · rename_i a b ha hb
      have ra := ihl hsl a ha
      have rb := ihr hsr b hb
      simp only [cellsOf]
      rw [exactSum_append] at hsn ⊢
      simp only [combine] at h
      rcases ra with ⟨la, hamax⟩ | ⟨la, hane, hain⟩
      · -- left side has no value: the right partial is taken as is
        simp [hamax] at h
        subst h
        simpa [la] using rb
      · rcases rb with ⟨lb, hbmax⟩ | ⟨lb, hbne, hbin⟩
        · simp [hane, hbmax] at h
          subst h
          rw [la, lb]
          right; exact ⟨rfl, hane, hain⟩
        · simp [hane, hbne] at h
          split at h
          · rename_i hfit
            simp at h; subst h
            rw [la, lb] at hsn ⊢
            right; refine ⟨rfl, ?_, hfit⟩
            intro hmax; apply hsn; simp [hmax]
          · simp at h
    · simp at h
    · simp at h


end LM.Sum
