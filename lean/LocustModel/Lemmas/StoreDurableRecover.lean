import LocustModel.Lemmas.StoreDurableFlush
/-
  Invariant `Durable`, part 4: restart (Storage::recover + Table::restore_tables_from_disk + replay in InnerLocustDB::new)
  re-establishes it from the disk alone, for EVERY iteration order of the replayed requests' tables.
    * `restore_ok`   the partitions rebuilt from the catalogue file and the partition files are the partitions that were
                     in memory (same ids, ranges, keys, rows); next id / next offset continue after the maximum
    * `ShareInv`     replay of one log segment, share by share, in any order
    * `replay_ok`    replay of all segments in id order
-/
namespace LM.Store
set_option linter.unusedSectionVars false
set_option linter.unusedSimpArgs false
set_option linter.unusedVariables false

variable {ν κ : Type} [DecidableEq ν]

-- ------------------------------------------------------------------------------------------------ sort of the segments

theorem insertById_lt (f : WalFile ν κ) (l : List (WalFile ν κ)) (h : ∀ g ∈ l, f.id < g.id) : insertById f l = f :: l := by
  cases l with
  | nil => rfl
  | cons g gs => simp [insertById, h g (List.mem_cons_self ..)]

theorem sortById_sorted (l : List (WalFile ν κ)) : ∀ (a k : Nat), l.map (·.id) = List.range' a k → sortById l = l := by
  induction l with
  | nil => intro _ _ _; rfl
  | cons f fs ih =>
    intro a k h
    cases k with
    | zero => simp [List.range'] at h
    | succ k =>
      simp only [List.map_cons, List.range', List.cons.injEq] at h
      obtain ⟨h1, h2⟩ := h
      simp only [sortById, ih (a + 1) k h2]
      apply insertById_lt
      intro g hg
      have := mem_ids_of_range h2 g hg
      omega

-- ------------------------------------------------------------------------------------------------ loading partitions

theorem eq_of_id_eq (ps : List (MemPart ν κ)) (hnd : (ps.map (·.id)).Nodup) (p q : MemPart ν κ) (hp : p ∈ ps) (hq : q ∈ ps)
    (hid : q.id = p.id) : q = p := by
  induction ps with
  | nil => cases hq
  | cons a as ih =>
    simp only [List.map_cons, List.nodup_cons] at hnd
    rcases List.mem_cons.mp hq with rfl | hq' <;> rcases List.mem_cons.mp hp with rfl | hp'
    · rfl
    · exact absurd (by rw [hid]; exact List.mem_map_of_mem (f := (·.id)) hp') hnd.1
    · exact absurd (by rw [← hid]; exact List.mem_map_of_mem (f := (·.id)) hq') hnd.1
    · exact ih hnd.2 hp' hq'

theorem loadRows_ok (ps : List (MemPart ν κ)) (p : MemPart ν κ) (hp : p ∈ ps) (hnd : (ps.map (·.id)).Nodup)
    (hk : p.keys ≠ []) (r : List (Batch ν κ)) (hr : p.rows = some r) :
    loadRows (ps.flatMap filesOf) p.toMeta = some r := by
  unfold loadRows
  have hall : (p.toMeta.keys.all (fun k => (ps.flatMap filesOf).any (fun f => f.id = p.toMeta.id && f.key = k))) = true := by
    rw [List.all_eq_true]
    intro k hkm
    rw [List.any_eq_true]
    refine ⟨⟨p.id, k, p.rows.getD []⟩, ?_, by simp [MemPart.toMeta]⟩
    rw [List.mem_flatMap]
    exact ⟨p, hp, by simp only [filesOf, List.mem_map]; exact ⟨k, hkm, rfl⟩⟩
  rw [if_pos hall]
  -- every file with this id belongs to `p`
  have hfile : ∀ f ∈ ps.flatMap filesOf, f.id = p.id → f.rows = r := by
    intro f hf hid
    obtain ⟨q, hq, hfq⟩ := List.mem_flatMap.mp hf
    simp only [filesOf, List.mem_map] at hfq
    obtain ⟨k, _, rfl⟩ := hfq
    simp only at hid
    have : q = p := eq_of_id_eq ps hnd p q hp hq hid
    subst this
    simp [hr]
  cases hfind : (ps.flatMap filesOf).find? (fun f => f.id = p.toMeta.id) with
  | none =>
    exfalso
    rw [List.find?_eq_none] at hfind
    obtain ⟨k, ks, hks⟩ := List.exists_cons_of_ne_nil hk
    have hmem : (⟨p.id, k, p.rows.getD []⟩ : PartFile ν κ) ∈ ps.flatMap filesOf := by
      rw [List.mem_flatMap]
      exact ⟨p, hp, by simp only [filesOf, List.mem_map]; exact ⟨k, by rw [hks]; simp, rfl⟩⟩
    have := hfind _ hmem
    simp [MemPart.toMeta] at this
  | some f =>
    have h1 := List.mem_of_find?_eq_some hfind
    have h2 := List.find?_some hfind
    simp only [MemPart.toMeta] at h2
    simp only [Option.map_some]
    rw [hfile f h1 (of_decide_eq_true h2)]

/-- `restore_tables_from_disk` for one table: folding `insert_nonresident_partition` over the catalogue entries
    (in offset order) rebuilds the partition list. -/
theorem restore_fold (F : List (PartFile ν κ)) (ps : List (MemPart ν κ)) (hF : F = ps.flatMap filesOf)
    (hnd : (ps.map (·.id)).Nodup) (hk : ∀ p ∈ ps, p.keys ≠ []) (hr : ∀ p ∈ ps, ∃ r, p.rows = some r) (e : Nat) (ht : tiles ps 0 e) :
    ∀ (l2 l1 : List (MemPart ν κ)) (acc : TableMem ν κ), l1 ++ l2 = ps → acc.parts = l1 → tiles l1 0 acc.nextOff →
      (∀ p ∈ l1, p.id < acc.nextId) →
      ∀ res, res = (l2.map MemPart.toMeta).foldl (insertNonresident F) acc →
      res.parts = ps ∧ res.nextOff = e ∧ (∀ p ∈ ps, p.id < res.nextId) ∧
      res.buffer = acc.buffer ∧ res.frozen = acc.frozen ∧ res.colNames = acc.colNames := by
  intro l2
  induction l2 with
  | nil =>
    intro l1 acc hl hacc htl hid res hres
    simp only [List.append_nil] at hl
    subst hl
    simp only [List.map_nil, List.foldl_nil] at hres
    subst hres
    refine ⟨hacc, ?_, hid, rfl, rfl, rfl⟩
    have h1 := tiles_end _ _ _ htl
    have h2 := tiles_end _ _ _ ht
    omega
  | cons p l2 ih =>
    intro l1 acc hl hacc htl hid res hres
    simp only [List.map_cons, List.foldl_cons] at hres
    have hp : p ∈ ps := by rw [← hl]; simp
    obtain ⟨r, hrp⟩ := hr p hp
    have hload : loadRows F p.toMeta = some r := by rw [hF]; exact loadRows_ok ps p hp hnd (hk p hp) r hrp
    have hpe : (⟨p.toMeta.id, p.toMeta.offset, p.toMeta.len, p.toMeta.keys, loadRows F p.toMeta⟩ : MemPart ν κ) = p := by
      rw [hload, ← hrp]; cases p; rfl
    -- where `p` starts
    have hsplit : tiles (l1 ++ p :: l2) 0 e := by rw [hl]; exact ht
    obtain ⟨m, hm1, hm2⟩ := (tiles_append _ _ _ _).mp hsplit
    have hoff : p.offset = m := by simp only [tiles] at hm2; exact hm2.1
    have hm : m = acc.nextOff := by
      have h1 := tiles_end _ _ _ htl
      have h2 := tiles_end _ _ _ hm1
      omega
    have hins : insertByOffset MemPart.offset p acc.parts = l1 ++ [p] := by
      rw [hacc]; exact insertByOffset_parts_end l1 p 0 m hm1 hoff
    have := ih (l1 ++ [p]) (insertNonresident F acc p.toMeta) (by rw [← hl]; simp) ?_ ?_ ?_ res hres
    · simpa [insertNonresident] using this
    · simp only [insertNonresident, hpe, hins]
    · simp only [insertNonresident]
      have : max acc.nextOff (p.toMeta.offset + p.toMeta.len) = m + p.len := by
        simp only [MemPart.toMeta]; omega
      rw [this]
      exact tiles_snoc l1 p 0 m hm1 hoff
    · intro q hq
      simp only [insertNonresident, MemPart.toMeta]
      rcases List.mem_append.mp hq with hq | hq
      · have := hid q hq; omega
      · simp at hq; subst hq; omega

-- ------------------------------------------------------------------------------------------------ replay: one table

theorem TableOk.replay_some {t : TName ν} {tm tm' : TableMem ν κ} {cat files pre post} {ev : Request ν κ}
    (h : TableOk t tm cat files pre post) (hsd : SameData tm tm')
    (hn : tm'.colNames = tm.colNames ∨
          (tm.colNames = none ∧ ∃ n s, t = .user n ∧ tm'.colNames = some s ∧
            (∀ c ∈ namesIn (logOf t (pre ++ post)), c ∈ s) ∧
            (∀ c ∈ s, c ∈ namesIn (logOf t (pre ++ post)) ∨ c ∈ namesIn (shareOf t ev)))) :
    TableOk t (appendTo tm' (shareOf t ev)) cat files pre (post ++ [ev]) := by
  obtain ⟨a1, a2, a3, a4, a5⟩ := hsd
  have hlog : logOf t (pre ++ (post ++ [ev])) = logOf t (pre ++ post) ++ shareOf t ev := by
    rw [← List.append_assoc, logOf_snoc]
  constructor
  · simp [appendTo, a2, h.frozen]
  · simpa [appendTo, a3, a4, a5] using h.parts
  · simpa [appendTo, a3] using h.cat
  · simpa [appendTo, a3] using h.files
  · simpa [appendTo, a3] using h.flushed
  · simp [appendTo, a1, h.buffered, logOf_snoc]
  · rcases h.nonempty with h1 | h1
    · left; rw [hlog]; simp [h1]
    · right; exact h1
  · intro n ht s hs c
    rw [hlog, namesIn_append]
    simp only [appendTo, Option.map_eq_some_iff] at hs
    obtain ⟨s0, hs0, rfl⟩ := hs
    rw [List.mem_append, List.mem_append]
    rcases hn with hn | ⟨_, n', s', ht', hs', hsup, hsub⟩
    · rw [hn] at hs0
      rw [h.namesUser n ht s0 hs0 c]
    · rw [hs'] at hs0; cases hs0
      constructor
      · rintro (hc | hc)
        · rcases hsub c hc with h1 | h1
          · exact Or.inl h1
          · exact Or.inr h1
        · exact Or.inr hc
      · rintro (hc | hc)
        · exact Or.inl (hsup c hc)
        · exact Or.inr hc
  · intro hcat
    obtain ⟨s0, hs0, hsub⟩ := h.namesCat hcat
    have hcn : tm'.colNames = some s0 := by
      rcases hn with hn | ⟨_, n', _, ht', _⟩
      · rw [hn]; exact hs0
      · exact absurd ht' (hcat n')
    refine ⟨s0 ++ namesIn (shareOf t ev), by simp [appendTo, hcn], ?_⟩
    intro c hc
    rw [hlog, namesIn_append, List.mem_append] at hc
    rcases hc with hc | hc
    · exact List.mem_append_left _ (hsub c hc)
    · exact List.mem_append_right _ hc

theorem tableBatches_appendTo {tm tm' : TableMem ν κ} {bs : List (Batch ν κ)} (h : tableBatches tm = .ok bs)
    (hsd : SameData tm tm') (sh : List (Batch ν κ)) : tableBatches (appendTo tm' sh) = .ok (bs ++ sh) := by
  obtain ⟨a1, a2, a3, _, _⟩ := hsd
  simp only [tableBatches, appendTo, a1, a2, a3] at h ⊢
  split at h
  · rename_i rs hrs
    cases h
    simp [hrs]
  · cases h

theorem shareOf_perm (t : TName ν) (l r : Request ν κ) (hp : l.Perm r) (hnd : (r.map (·.1)).Nodup) :
    shareOf t l = shareOf t r := by
  unfold shareOf
  have hperm : (l.filter (fun sh => sh.1 = t)).Perm (r.filter (fun sh => sh.1 = t)) := hp.filter _
  have hsub : ((r.filter (fun sh => decide (sh.1 = t))).map (·.1)).Nodup :=
    List.Nodup.sublist (List.Sublist.map _ List.filter_sublist) hnd
  cases hr : r.filter (fun sh => decide (sh.1 = t)) with
  | nil => rw [hr] at hperm; rw [List.perm_nil.mp hperm]
  | cons x xs =>
    cases xs with
    | nil => rw [hr] at hperm; rw [List.perm_singleton.mp hperm]
    | cons y ys =>
      exfalso
      rw [hr] at hsub
      have hx : x ∈ r.filter (fun sh => decide (sh.1 = t)) := by rw [hr]; simp
      have hy : y ∈ r.filter (fun sh => decide (sh.1 = t)) := by rw [hr]; simp
      have hx1 : x.1 = t := by simpa using (List.mem_filter.mp hx).2
      have hy1 : y.1 = t := by simpa using (List.mem_filter.mp hy).2
      simp only [List.map_cons, List.nodup_cons, List.mem_cons] at hsub
      exact hsub.1 (Or.inl (by rw [hx1, hy1]))

theorem readColumn_cnames (c : CName ν) (Q : CName ν → Prop) (bs : List (Batch ν κ))
    (h : ∀ b ∈ bs, ∃ L : List (CName ν), colCells c b = L.map Cell.cname ∧ ∀ x ∈ L, Q x) :
    ∃ L : List (CName ν), readColumn c bs = L.map Cell.cname ∧ ∀ x ∈ L, Q x := by
  induction bs with
  | nil => exact ⟨[], rfl, fun x hx => by cases hx⟩
  | cons b bs ih =>
    obtain ⟨L1, h1, h2⟩ := h b (List.mem_cons_self ..)
    obtain ⟨L2, h3, h4⟩ := ih (fun b' hb' => h b' (List.mem_cons_of_mem _ hb'))
    refine ⟨L1 ++ L2, ?_, ?_⟩
    · simp only [readColumn, List.flatMap_cons, List.map_append] at h3 ⊢
      rw [h1, h3]
    · intro x hx
      rcases List.mem_append.mp hx with hx | hx
      · exact h2 x hx
      · exact h4 x hx

-- ------------------------------------------------------------------------------------------------ replay: invariants

/-- Invariant of the replay at segment boundaries: `processed` = the requests replayed so far. -/
structure RInv (cat : TName ν → List PartMeta) (files : TName ν → List (PartFile ν κ))
    (pre processed : List (Request ν κ)) (T : Tables ν κ) : Prop where
  tabs : ∀ t tm, T t = some tm → TableOk t tm (cat t) (files t) pre processed
  absent : ∀ t, T t = none → t ≠ .metaTables ∧ logOf t (pre ++ processed) = [] ∧ cat t = [] ∧ files t = []

/-- Invariant inside one segment (request `r`, tables `T0` at its start), after the shares `done` in replay order. -/
structure ShareInv (P : Params ν κ) (pre processed : List (Request ν κ)) (r : Request ν κ) (T0 T : Tables ν κ)
    (done : Request ν κ) : Prop where
  untouched : ∀ t, shareOf t done = [] → T t = T0 t
  some_ : ∀ t tm0, T0 t = some tm0 → ∃ tm', SameData tm0 tm' ∧ T t = some (appendTo tm' (shareOf t done)) ∧
      (tm'.colNames = tm0.colNames ∨ (tm0.colNames = none ∧ ∃ n s, t = .user n ∧ tm'.colNames = some s ∧
          (∀ c ∈ namesIn (logOf t (pre ++ processed)), c ∈ s) ∧
          (∀ c ∈ s, c ∈ namesIn (logOf t (pre ++ processed)) ∨ c ∈ namesIn (shareOf t r))))
  none_ : ∀ t, T0 t = none → shareOf t done ≠ [] → T t = some (appendTo (newTable P t (some [])) (shareOf t done))

theorem ShareInv.init (P : Params ν κ) (pre processed : List (Request ν κ)) (r : Request ν κ) (T0 : Tables ν κ) :
    ShareInv P pre processed r T0 T0 [] := by
  refine ⟨fun _ _ => rfl, ?_, ?_⟩
  · intro t tm0 h
    exact ⟨tm0, SameData.refl tm0, by simp [shareOf, appendTo_nil, h], Or.inl rfl⟩
  · intro t _ h; exact absurd rfl h

/-- What a query of table `t` sees in the middle of a segment. -/
theorem ShareInv.content {P : Params ν κ} {cat files} {pre processed : List (Request ν κ)} {r : Request ν κ} {T0 T : Tables ν κ}
    {done : Request ν κ} (hs : ShareInv P pre processed r T0 T done) (hr : RInv cat files pre processed T0)
    (t : TName ν) (tm : TableMem ν κ) (ht : T t = some tm) :
    tableBatches tm = .ok (logOf t (pre ++ processed) ++ shareOf t done) := by
  cases h0 : T0 t with
  | some tm0 =>
    obtain ⟨tm', hsd, hT, _⟩ := hs.some_ t tm0 h0
    rw [ht] at hT; cases hT
    exact tableBatches_appendTo (hr.tabs t tm0 h0).content hsd _
  | none =>
    cases hd : shareOf t done with
    | nil => rw [hs.untouched t hd, h0] at ht; cases ht
    | cons b bs =>
      have := hs.none_ t h0 (by rw [hd]; simp)
      rw [ht] at this; cases this
      rw [(hr.absent t h0).2.1, ← hd]
      simp [tableBatches, appendTo, newTable, partsRows]

-- ------------------------------------------------------------------------------------------------ replay: one share

theorem newTable_colNames_ne_none (P : Params ν κ) (t : TName ν) : (newTable P t (some [])).colNames ≠ none := by
  cases t <;> simp [newTable]

theorem applyShare_at (T T' : Tables ν κ) (sh : Share ν κ) (tm : TableMem ν κ) (hT : T sh.1 = some tm)
    (h : applyShare T sh = .ok T') : T' = setTable T sh.1 (appendTo tm [sh.2]) := by
  obtain ⟨tm2, s, h1, _, _, _, h2⟩ := applyShare_ok T T' sh h
  rw [hT] at h1; cases h1; exact h2

/-- Outcome of replaying one share. -/
theorem replayShare_ok (P : Params ν κ) (T T' : Tables ν κ) (sh : Share ν κ) (h : replayShare P T sh = .ok T') :
    (∀ t, t ≠ sh.1 → T' t = T t) ∧ ∃ tmA, T' sh.1 = some (appendTo tmA [sh.2]) ∧
      ((T sh.1 = none ∧ tmA = newTable P sh.1 (some [])) ∨
       (∃ tm, T sh.1 = some tm ∧ tm.colNames ≠ none ∧ tmA = tm) ∨
       (∃ tm n s, T sh.1 = some tm ∧ tm.colNames = none ∧ sh.1 = .user n ∧ queryColumnNames T n = .ok s ∧
          tmA = { tm with colNames := some s })) := by
  unfold replayShare at h
  simp only at h
  split at h
  · cases h
  · rename_i tm htm
    split at h
    · rename_i s hs
      -- name set initialised: plain `ingest_homogeneous`
      have := applyShare_at _ T' sh tm htm h
      subst this
      refine ⟨fun t ht => ?_, tm, by simp [setTable], ?_⟩
      · simp only [setTable, ht, if_false]; exact createIfEmpty_other P T sh.1 t ht
      · cases hT : T sh.1 with
        | none =>
          left
          rw [createIfEmpty_at, hT] at htm
          simp only [Option.getD_none, Option.some.injEq] at htm
          exact ⟨rfl, htm.symm⟩
        | some tm0 =>
          right; left
          rw [createIfEmpty_at, hT] at htm
          simp only [Option.getD_some, Option.some.injEq] at htm
          subst htm
          exact ⟨tm0, rfl, by rw [hs]; simp, rfl⟩
    · rename_i hnone
      -- the table existed (a new table has a name set)
      cases hT : T sh.1 with
      | none =>
        rw [createIfEmpty_at, hT] at htm
        simp only [Option.getD_none, Option.some.injEq] at htm
        subst htm
        exact absurd hnone (newTable_colNames_ne_none P sh.1)
      | some tm0 =>
        have hce : (createIfEmpty P T sh.1).1 = T := by rw [createIfEmpty_some P T sh.1 tm0 hT]
        rw [hce] at h htm
        rw [hT] at htm; cases htm
        split at h
        · rename_i n hn
          split at h
          · rename_i T2 names hen
            unfold ensureNames at hen
            rw [← hn, hT] at hen
            simp only [hnone] at hen
            split at hen
            · rename_i s hq
              cases hen
              have hT2 : setTable T sh.1 { tm with colNames := some names } sh.1 = some { tm with colNames := some names } := by
                simp [setTable]
              have := applyShare_at _ T' sh _ (by rw [hn] at hT2 ⊢; exact hT2) h
              subst this
              refine ⟨fun t ht => ?_, { tm with colNames := some names }, by simp [setTable], ?_⟩
              · simp only [setTable, ht, if_false]
              · right; right
                exact ⟨tm, n, names, rfl, hnone, hn, hq, rfl⟩
            · cases hen
          · cases h
        · cases h

theorem shareOf_snoc_same (done : Request ν κ) (sh : Share ν κ) :
    shareOf sh.1 (done ++ [sh]) = shareOf sh.1 done ++ [sh.2] := by
  rw [shareOf_append]; simp [shareOf]

theorem shareOf_snoc_other (t : TName ν) (done : Request ν κ) (sh : Share ν κ) (h : t ≠ sh.1) :
    shareOf t (done ++ [sh]) = shareOf t done := by
  rw [shareOf_append]
  have : shareOf t [sh] = [] := shareOf_eq_nil_of_forall t [sh] (by intro x hx e; simp at hx; subst hx; exact h e.symm)
  rw [this]; simp

theorem ShareInv.step {P : Params ν κ} {cat files} {pre processed : List (Request ν κ)} {r : Request ν κ}
    {T0 T T' : Tables ν κ} {done : Request ν κ} {sh : Share ν κ}
    (hr : RInv cat files pre processed T0) (hlcP : LogCat (pre ++ processed)) (hwfR : (r.map (·.1)).Nodup)
    (hwithin : ∀ n mb, (TName.metaCols n, mb) ∈ r →
      ∃ b, (TName.user n, b) ∈ r ∧ ∃ L : List (CName ν), colCells .columnName mb = L.map Cell.cname ∧ ∀ c ∈ L, c ∈ b.names)
    (hs : ShareInv P pre processed r T0 T done) (hdone : ∀ x ∈ done, x ∈ r) (hsh : sh ∈ r)
    (hfresh : sh.1 ∉ done.map (·.1)) (h : replayShare P T sh = .ok T') :
    ShareInv P pre processed r T0 T' (done ++ [sh]) := by
  obtain ⟨hoth, tmA, hA, hcase⟩ := replayShare_ok P T T' sh h
  have hnil : shareOf sh.1 done = [] := by
    apply shareOf_eq_nil_of_forall
    intro x hx e
    exact hfresh (by rw [← e]; exact List.mem_map_of_mem (f := (·.1)) hx)
  have hT0 : T sh.1 = T0 sh.1 := hs.untouched sh.1 hnil
  constructor
  · intro t ht
    have hne : t ≠ sh.1 := by
      intro e; subst e
      rw [shareOf_snoc_same] at ht; simp at ht
    rw [shareOf_snoc_other t done sh hne] at ht
    rw [hoth t hne]; exact hs.untouched t ht
  · intro t tm0 ht0
    by_cases hne : t = sh.1
    · subst hne
      rw [hT0, ht0] at hcase
      rw [shareOf_snoc_same, hnil, List.nil_append]
      rcases hcase with ⟨h1, _⟩ | ⟨tm, h1, h2, h3⟩ | ⟨tm, n, s, h1, h2, h3, h4, h5⟩
      · cases h1
      · cases h1
        subst h3
        exact ⟨tmA, SameData.refl _, hA, Or.inl rfl⟩
      · cases h1
        subst h5
        refine ⟨{ tm0 with colNames := some s }, ⟨rfl, rfl, rfl, rfl, rfl⟩, hA, Or.inr ⟨h2, n, s, h3, rfl, ?_⟩⟩
        -- the catalogue query in the middle of the segment
        obtain ⟨tmc, htmc⟩ := queryColumnNames_ok_some T n s h4
        have hcont := hs.content hr (.metaCols n) tmc htmc
        obtain ⟨L0, hL1, hL2, hL3⟩ := hlcP.cols n
        have hL1' : ∃ L1 : List (CName ν), readColumn .columnName (shareOf (.metaCols n) done) = L1.map Cell.cname ∧
            ∀ x ∈ L1, x ∈ namesIn (shareOf (.user n) r) := by
          apply readColumn_cnames
          intro mb hmb
          have hin : (TName.metaCols n, mb) ∈ r := hdone _ ((shareOf_mem _ mb done).mp hmb)
          obtain ⟨b, hb, L, hLc, hLs⟩ := hwithin n mb hin
          refine ⟨L, hLc, fun x hx => ?_⟩
          rw [shareOf_unique _ b r hwfR hb]
          simp [namesIn, hLs x hx]
        obtain ⟨L1, hL4, hL5⟩ := hL1'
        have hread : readColumn .columnName (logOf (.metaCols n) (pre ++ processed) ++ shareOf (.metaCols n) done)
            = (L0 ++ L1).map Cell.cname := by
          rw [readColumn_append, hL1, hL4, List.map_append]
        have hseq := queryColumnNames_eq htmc hcont hread h4
        subst hseq
        rw [h3]
        constructor
        · intro c hc; exact List.mem_append_left _ ((hL3 c).mpr hc)
        · intro c hc
          rcases List.mem_append.mp hc with hc | hc
          · exact Or.inl ((hL3 c).mp hc)
          · exact Or.inr (hL5 c hc)
    · obtain ⟨tm', h1, h2, h3⟩ := hs.some_ t tm0 ht0
      rw [shareOf_snoc_other t done sh hne, hoth t hne]
      exact ⟨tm', h1, h2, h3⟩
  · intro t ht0 hne'
    by_cases hne : t = sh.1
    · subst hne
      rw [hT0, ht0] at hcase
      rw [shareOf_snoc_same, hnil, List.nil_append]
      rcases hcase with ⟨_, h2⟩ | ⟨tm, h1, _⟩ | ⟨tm, n, s, h1, _⟩
      · rw [hA, h2]
      · cases h1
      · cases h1
    · rw [shareOf_snoc_other t done sh hne] at hne' ⊢
      rw [hoth t hne]
      exact hs.none_ t ht0 hne'

theorem ShareInv.fold {P : Params ν κ} {cat files} {pre processed : List (Request ν κ)} {r : Request ν κ} {T0 : Tables ν κ}
    (hr : RInv cat files pre processed T0) (hlcP : LogCat (pre ++ processed)) (hwfR : (r.map (·.1)).Nodup)
    (hwithin : ∀ n mb, (TName.metaCols n, mb) ∈ r →
      ∃ b, (TName.user n, b) ∈ r ∧ ∃ L : List (CName ν), colCells .columnName mb = L.map Cell.cname ∧ ∀ c ∈ L, c ∈ b.names) :
    ∀ (l2 done : Request ν κ) (T T' : Tables ν κ), ShareInv P pre processed r T0 T done → (∀ x ∈ done ++ l2, x ∈ r) →
      ((done ++ l2).map (·.1)).Nodup → foldE (replayShare P) l2 T = .ok T' →
      ShareInv P pre processed r T0 T' (done ++ l2) := by
  intro l2
  induction l2 with
  | nil => intro done T T' hs _ _ h; simp [foldE] at h; subst h; simpa using hs
  | cons sh l2 ih =>
    intro done T T' hs hmem hnd h
    simp only [foldE] at h
    split at h
    · rename_i T1 h1
      have hnd' : ((done ++ [sh]) ++ l2).map (·.1) = (done ++ sh :: l2).map (·.1) := by simp
      have hfresh : sh.1 ∉ done.map (·.1) := by
        rw [List.map_append, List.nodup_append] at hnd
        intro hin
        exact hnd.2.2 _ hin sh.1 (by simp) rfl
      have hs1 := hs.step hr hlcP hwfR hwithin (fun x hx => hmem x (List.mem_append_left _ hx))
        (hmem sh (by simp)) hfresh h1
      have := ih (done ++ [sh]) T1 T' hs1 (by intro x hx; exact hmem x (by simpa using hx)) (by rw [hnd']; exact hnd) h
      simpa using this
    · cases h

/-- Replay of one whole segment, in any order of its tables. -/
theorem segment_ok {P : Params ν κ} {cat files} {pre processed : List (Request ν κ)} {r l : Request ν κ} {T0 T' : Tables ν κ}
    (hr : RInv cat files pre processed T0) (hlcP : LogCat (pre ++ processed)) (hlcR : LogCat (pre ++ processed ++ [r]))
    (hperm : l.Perm r) (h : foldE (replayShare P) l T0 = .ok T') :
    RInv cat files pre (processed ++ [r]) T' := by
  have hrmem : r ∈ pre ++ processed ++ [r] := by simp
  have hwfR := hlcR.wf r hrmem
  have hwithin := hlcR.within r hrmem
  have hndl : (l.map (·.1)).Nodup := (List.Perm.nodup_iff (hperm.map _)).mpr hwfR
  have hs := ShareInv.fold hr hlcP hwfR hwithin l [] T0 T' (ShareInv.init P pre processed r T0)
    (by intro x hx; simp at hx; exact hperm.subset hx) (by simpa using hndl) h
  simp only [List.nil_append] at hs
  have hshare : ∀ t, shareOf t l = shareOf t r := fun t => shareOf_perm t l r hperm hwfR
  constructor
  · intro t tm ht
    cases h0 : T0 t with
    | some tm0 =>
      obtain ⟨tm', hsd, hT, hn⟩ := hs.some_ t tm0 h0
      rw [ht, hshare t] at hT; cases hT
      exact (hr.tabs t tm0 h0).replay_some hsd hn
    | none =>
      cases hd : shareOf t l with
      | nil => rw [hs.untouched t hd, h0] at ht; cases ht
      | cons b bs =>
        have := hs.none_ t h0 (by rw [hd]; simp)
        rw [ht, hshare t] at this; cases this
        obtain ⟨_, hl, hc, hf⟩ := hr.absent t h0
        rw [hc, hf]
        exact TableOk.ingest_new hl (by rw [← hshare t, hd]; simp)
  · intro t ht
    cases h0 : T0 t with
    | some tm0 =>
      obtain ⟨tm', _, hT, _⟩ := hs.some_ t tm0 h0
      rw [ht] at hT; cases hT
    | none =>
      obtain ⟨h1, hl, hc, hf⟩ := hr.absent t h0
      refine ⟨h1, ?_, hc, hf⟩
      rw [← List.append_assoc, logOf_snoc, hl, List.nil_append, ← hshare t]
      cases hd : shareOf t l with
      | nil => rfl
      | cons b bs =>
        have := hs.none_ t h0 (by rw [hd]; simp)
        rw [ht] at this; cases this

/-- Replay of all segments on disk, in id order. -/
theorem replay_ok {P : Params ν κ} {cat files} {pre : List (Request ν κ)} (order : Nat → Request ν κ → Request ν κ)
    (hord : ∀ id r, (order id r).Perm r) :
    ∀ (segs : List (WalFile ν κ)) (processed : List (Request ν κ)) (next : Option Nat) (T T' : Tables ν κ),
      RInv cat files pre processed T → LogCatAll (pre ++ processed ++ segs.map (·.req)) →
      replay P order segs next T = .ok T' → RInv cat files pre (processed ++ segs.map (·.req)) T' := by
  intro segs
  induction segs with
  | nil => intro processed next T T' hr _ h; simp [replay] at h; subst h; simpa using hr
  | cons f fs ih =>
    intro processed next T T' hr hlc h
    simp only [replay] at h
    split at h
    · cases h
    · split at h
      · rename_i T1 h1
        have hlcP : LogCat (pre ++ processed) := hlc (pre ++ processed) (List.map (·.req) (f :: fs)) rfl
        have hlcR : LogCat (pre ++ processed ++ [f.req]) := hlc _ (fs.map (·.req)) (by simp)
        have hr1 := segment_ok hr hlcP hlcR (hord f.id f.req) h1
        have := ih (processed ++ [f.req]) (some (f.id + 1)) T1 T' hr1 (by simpa using hlc) h
        simpa using this
      · cases h

-- ------------------------------------------------------------------------------------------------ restart

theorem mem_namesIn_logOf (t : TName ν) (log : List (Request ν κ)) (c : CName ν) (h : c ∈ namesIn (logOf t log)) :
    ∃ r ∈ log, ∃ b, (t, b) ∈ r ∧ c ∈ b.names := by
  simp only [namesIn, logOf, List.mem_flatMap] at h
  obtain ⟨b, ⟨r, hr, hb⟩, hc⟩ := h
  exact ⟨r, hr, b, (shareOf_mem t b r).mp hb, hc⟩

/-- The table rebuilt from the catalogue file and the partition files. -/
theorem restoreTable_ok {P : Params ν κ} {d : Disk ν κ} {t : TName ν} {tm : TableMem ν κ} {cat pre post}
    (hok : TableOk t tm cat (d.parts t) pre post) (hne : tm.parts ≠ []) (hlc : LogCat pre)
    (hInit : CName.columnName ∈ P.metaColsInit) :
    TableOk t (restoreTable P d t (tm.parts.map MemPart.toMeta)) cat (d.parts t) pre [] := by
  have hf := restore_fold (d.parts t) tm.parts hok.files hok.parts.nodup hok.parts.keys
    (fun p hp => by obtain ⟨r, h1, _⟩ := hok.parts.rows p hp; exact ⟨r, h1⟩) tm.nextOff hok.parts.tile
    tm.parts [] (newTable P t none) (by simp) (by simp [newTable]) (by simp [newTable, tiles])
    (by intro p hp; cases hp) (restoreTable P d t (tm.parts.map MemPart.toMeta)) rfl
  obtain ⟨h1, h2, h3, h4, h5, h6⟩ := hf
  have hlogne : logOf t pre ≠ [] := by
    rw [← hok.flushed]
    obtain ⟨p, ps, hps⟩ := List.exists_cons_of_ne_nil hne
    obtain ⟨r, hr1, hr2⟩ := hok.parts.rows p (by rw [hps]; simp)
    exact partRows_ne_nil _ p (by rw [hps]; simp) r hr1 hr2
  constructor
  · rw [h5]; rfl
  · rw [h1, h2]
    exact ⟨hok.parts.rows, hok.parts.keys, hok.parts.nodup, h3, hok.parts.tile, hok.parts.lens⟩
  · rw [h1]; exact hok.cat
  · rw [h1]; exact hok.files
  · rw [h1]; exact hok.flushed
  · rw [h4]; rfl
  · left; simpa using hlogne
  · intro n ht s hs
    subst ht
    rw [h6] at hs; simp [newTable] at hs
  · intro hcat
    simp only [List.append_nil]
    cases t with
    | user n => exact absurd rfl (hcat n)
    | metaTables =>
      refine ⟨[.timestamp, .name], by rw [h6]; rfl, ?_⟩
      intro c hc
      obtain ⟨r, hr, b, hb, hcb⟩ := mem_namesIn_logOf _ _ c hc
      rw [hlc.shapeTabs r hr b hb] at hcb; exact hcb
    | metaCols n =>
      refine ⟨P.metaColsInit, by rw [h6]; rfl, ?_⟩
      intro c hc
      obtain ⟨r, hr, b, hb, hcb⟩ := mem_namesIn_logOf _ _ c hc
      rw [hlc.shapeCols r hr n b hb] at hcb
      simp at hcb; subst hcb; exact hInit

/-- The tables rebuilt from the catalogue file, before any segment is replayed. -/
theorem recover_init_rinv {P : Params ν κ} {w : World ν κ} {pre} (hInit : CName.columnName ∈ P.metaColsInit)
    (hd : DurableAt w pre) :
    RInv w.mem.cat.parts w.disk.parts pre []
      (createIfEmpty P (fun t => if (w.mem.cat.parts t).isEmpty then none
        else some (restoreTable P w.disk t (w.mem.cat.parts t))) .metaTables).1 := by
  have hlcPre : LogCat pre := hd.logcat pre _ hd.log
  constructor
  · intro t tmx htx
    cases hw : w.mem.tables t with
    | none =>
      exfalso
      obtain ⟨h1, _, h3, _⟩ := hd.absent t hw
      rw [createIfEmpty_other P _ _ t h1] at htx
      simp [h3] at htx
    | some tm =>
      have hok := hd.tabs t tm hw
      by_cases hp : tm.parts = []
      · have hcat : w.mem.cat.parts t = [] := by rw [hok.cat, hp]; rfl
        by_cases ht : t = .metaTables
        · subst ht
          rw [createIfEmpty_at] at htx
          simp only [hcat, List.isEmpty_nil, if_true, Option.getD_none, Option.some.injEq] at htx
          subst htx
          have hfl : logOf TName.metaTables pre = [] := by rw [← hok.flushed, hp]; rfl
          constructor
          · rfl
          · exact ⟨by simp [newTable], by simp [newTable], by simp [newTable], by simp [newTable], rfl, by simp [newTable]⟩
          · rw [hcat]; rfl
          · rw [hok.files, hp]; rfl
          · simp [newTable, partRows, hfl]
          · rfl
          · right; rfl
          · intro n e; cases e
          · intro _
            refine ⟨[.timestamp, .name], rfl, ?_⟩
            simp [hfl, namesIn]
        · rw [createIfEmpty_other P _ _ t ht] at htx
          simp [hcat] at htx
      · have hcat : (w.mem.cat.parts t).isEmpty = false := by
          rw [hok.cat]
          cases hq : tm.parts with
          | nil => exact absurd hq hp
          | cons a as => rfl
        have hT0 : (createIfEmpty P (fun t => if (w.mem.cat.parts t).isEmpty then none
            else some (restoreTable P w.disk t (w.mem.cat.parts t))) .metaTables).1 t
            = some (restoreTable P w.disk t (w.mem.cat.parts t)) := by
          by_cases ht : t = .metaTables
          · subst ht
            rw [createIfEmpty_at]; simp [hcat]
          · rw [createIfEmpty_other P _ _ t ht]; simp [hcat]
        rw [hT0] at htx; cases htx
        rw [hok.cat]
        have := restoreTable_ok (P := P) hok hp hlcPre hInit
        rw [← hok.cat] at this ⊢
        exact this
  · intro t ht
    have hne : t ≠ .metaTables := by
      intro e; subst e
      rw [createIfEmpty_at] at ht; cases ht
    rw [createIfEmpty_other P _ _ t hne] at ht
    have hcat : w.mem.cat.parts t = [] := by
      cases hq : w.mem.cat.parts t with
      | nil => rfl
      | cons a as => simp [hq] at ht
    refine ⟨hne, ?_, hcat, ?_⟩
    · simp only [List.append_nil]
      cases hw : w.mem.tables t with
      | none =>
        have := (hd.absent t hw).2.1
        rw [hd.log, logOf_append] at this
        exact (List.append_eq_nil_iff.mp this).1
      | some tm =>
        have hok := hd.tabs t tm hw
        have hp : tm.parts = [] := by
          have := hok.cat; rw [hcat] at this
          exact List.map_eq_nil_iff.mp this.symm
        rw [← hok.flushed, hp]; rfl
    · cases hw : w.mem.tables t with
      | none => exact (hd.absent t hw).2.2.2
      | some tm =>
        have hok := hd.tabs t tm hw
        have hp : tm.parts = [] := by
          have := hok.cat; rw [hcat] at this
          exact List.map_eq_nil_iff.mp this.symm
        rw [hok.files, hp]; rfl

/-- Restart re-establishes the invariant from the disk alone (the log cut `pre` is the same). -/
theorem DurableAt.recover {P : Params ν κ} {w w' : World ν κ} {order : Nat → Request ν κ → Request ν κ} {pre}
    (hInit : CName.columnName ∈ P.metaColsInit) (hord : ∀ id r, (order id r).Perm r)
    (hd : DurableAt w pre) (h : recover P w.disk w.log w.lossy order = .ok w') :
    DurableAt w' pre ∧ w'.disk = w.disk ∧ w'.log = w.log := by
  obtain ⟨hwal', hwaleq, _, _, _⟩ := walInv_recover P w w' order hd.wal h
  obtain ⟨hle, hids, hcur, hsize⟩ := hd.wal
  have hcur' : (w.disk.metaFile.getD ⟨0, fun _ => []⟩).cursor = w.mem.cat.earliest := by
    cases hm : w.disk.metaFile with
    | none => simp [hm] at hcur ⊢; exact hcur
    | some mf => simp [hm] at hcur ⊢; exact hcur
  have hkept : w.disk.wal.filter (fun f => !(decide (f.id < (w.disk.metaFile.getD ⟨0, fun _ => []⟩).cursor))) = w.disk.wal := by
    apply filter_ge_all
    intro f hf
    have := mem_ids_of_range hids f hf
    omega
  have hsorted : sortById w.disk.wal = w.disk.wal := sortById_sorted w.disk.wal _ _ hids
  have hmeta : (w.disk.metaFile.getD ⟨0, fun _ => []⟩).parts = w.mem.cat.parts := hd.metaEq.symm
  have hlcPre : LogCat pre := hd.logcat pre _ hd.log
  unfold LM.Store.recover at h
  simp only [hkept, hsorted, hmeta] at h
  split at h
  · cases h
  · rename_i T hrep
    cases h
    -- the tables before the replay
    have hR0 := recover_init_rinv (P := P) hInit hd
    have hRfin := replay_ok order hord w.disk.wal [] none _ T hR0 (by simpa [← hd.log] using hd.logcat) hrep
    simp only [List.nil_append] at hRfin
    have hdisk : ({ w.disk with wal := w.disk.wal } : Disk ν κ) = w.disk := rfl
    refine ⟨⟨hwal', hd.lossy, ?_, hd.log, ?_, ?_, hd.logcat⟩, rfl, rfl⟩
    · simp only; exact hmeta.symm
    · intro t tm htm
      exact hRfin.tabs t tm htm
    · intro t ht
      obtain ⟨h1, h2, h3, h4⟩ := hRfin.absent t ht
      exact ⟨h1, by rw [hd.log]; exact h2, h3, h4⟩

theorem durable_recover (P : Params ν κ) (w w' : World ν κ) (order : Nat → Request ν κ → Request ν κ)
    (hInit : CName.columnName ∈ P.metaColsInit) (hord : ∀ id r, (order id r).Perm r)
    (hd : Durable w) (h : recover P w.disk w.log w.lossy order = .ok w') : Durable w' := by
  obtain ⟨pre, hd⟩ := hd
  exact ⟨pre, (hd.recover hInit hord h).1⟩

end LM.Store
