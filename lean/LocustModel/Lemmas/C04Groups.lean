import LocustModel.Lemmas.C04Tree
import LocustModel.Lemmas.C04Array
/-
  C04 helper lemmas: exact grouped aggregation of a partition (`xgroup`), its homomorphism property
  (aggregating a concatenation = merging the aggregates), and the array pipeline computing it.
-/
namespace LM.C04L
open LM LM.Merge LM.GroupMerge LM.Group

def toOp : Agg → AggOp
  | .sum => .sum | .count => .count | .max => .max | .min => .min

/-- exact aggregate of the inputs of one group (`none` for no input) -/
def aggExact (op : Agg) : List Int → Option Int
  | [] => none
  | x :: xs => some (match op with
      | .sum => xs.foldl (· + ·) x
      | .count => (xs.length + 1 : Nat)
      | .max => xs.foldl maxStep x
      | .min => xs.foldl minStep x)

theorem foldl_add_start (xs : List Int) (a : Int) : xs.foldl (· + ·) a = a + xs.foldl (· + ·) 0 := by
  induction xs generalizing a with
  | nil => simp
  | cons x xs ih => simp only [List.foldl_cons]; rw [ih (a + x), ih (0 + x)]; omega

theorem foldl_max_start (xs : List Int) (a : Int) : xs.foldl maxStep (maxStep a b) = maxStep a (xs.foldl maxStep b) := by
  induction xs generalizing a b with
  | nil => simp
  | cons x xs ih =>
    simp only [List.foldl_cons]
    have : maxStep (maxStep a b) x = maxStep a (maxStep b x) := by unfold maxStep; repeat' split <;> omega
    rw [this, ih]

theorem foldl_min_start (xs : List Int) (a : Int) : xs.foldl minStep (minStep a b) = minStep a (xs.foldl minStep b) := by
  induction xs generalizing a b with
  | nil => simp
  | cons x xs ih =>
    simp only [List.foldl_cons]
    have : minStep (minStep a b) x = minStep a (minStep b x) := by unfold minStep; repeat' split <;> omega
    rw [this, ih]

/-- aggregating a concatenation = combining the aggregates (the homomorphism behind partition independence) -/
theorem aggExact_append (op : Agg) (xs ys : List Int) :
    aggExact op (xs ++ ys) = combineExact op (aggExact op xs) (aggExact op ys) := by
  cases xs with
  | nil => cases ys <;> simp [aggExact, combineExact]
  | cons x xs =>
    cases ys with
    | nil => simp [aggExact, combineExact]
    | cons y ys =>
      cases op
      · simp only [aggExact, combineExact, List.cons_append, List.foldl_append, List.foldl_cons]
        rw [foldl_add_start ys (List.foldl (· + ·) x xs + y), foldl_add_start ys y]; congr 1; omega
      · simp [aggExact, combineExact]; omega
      · simp only [aggExact, combineExact, List.cons_append, List.foldl_append, List.foldl_cons]
        congr 1
        have := foldl_max_start (b := y) ys (List.foldl maxStep x xs)
        rw [this]; unfold maxStep; rfl
      · simp only [aggExact, combineExact, List.cons_append, List.foldl_append, List.foldl_cons]
        congr 1
        have := foldl_min_start (b := y) ys (List.foldl minStep x xs)
        rw [this]; unfold minStep; rfl


/-- Exact grouped aggregation of one partition's rows (raw key ≤ m, input): ascending distinct keys, each once,
    the aggregate over exactly the inputs of the rows carrying that key. -/
def xgroup (op : Agg) (m : Nat) (rows : List (Nat × Int)) : XPart :=
  ((List.range (m + 1)).filter (fun k => k ∈ rows.map (·.1))).map fun (k : Nat) => ((k : Int), aggExact op (groupVals k rows))

theorem xlook_map_nat (L : List Nat) (g : Nat → Option Int) (j : Nat) :
    xlook (L.map fun (k : Nat) => ((k : Int), g k)) (j : Int) = if j ∈ L then some (g j) else none := by
  induction L with
  | nil => simp [xlook]
  | cons a t ih =>
    simp only [List.map_cons, xlook]
    by_cases h : j = a
    · subst h; simp
    · have : ¬ (j : Int) = (a : Int) := by omega
      simp [this, ih, h]

theorem xlook_map_neg (L : List Nat) (g : Nat → Option Int) (j : Int) (hj : j < 0) :
    xlook (L.map fun (k : Nat) => ((k : Int), g k)) j = none := by
  induction L with
  | nil => simp [xlook]
  | cons a t ih =>
    have : ¬ j = (a : Int) := by omega
    simp [xlook, this, ih]

theorem xgroup_sorted (op : Agg) (m : Nat) (rows : List (Nat × Int)) : XSorted (xgroup op m rows) := by
  unfold XSorted xgroup
  simp only [List.map_map]
  have h1 : (List.range (m + 1)).Pairwise (· < ·) := List.pairwise_lt_range
  have h2 := List.Pairwise.filter (fun k => decide (k ∈ rows.map (·.1))) h1
  refine List.Pairwise.map _ ?_ h2
  intro a b hab
  simp
  omega

theorem groupVals_append {α : Type} (k : Nat) (r1 r2 : List (Nat × α)) :
    groupVals k (r1 ++ r2) = groupVals k r1 ++ groupVals k r2 := by
  simp [groupVals]

theorem groupVals_nil_of_not_mem (k : Nat) (rows : List (Nat × Int)) (h : k ∉ rows.map (·.1)) :
    groupVals k rows = [] := by
  simp only [groupVals, List.map_eq_nil_iff, List.filter_eq_nil_iff]
  intro p hp
  simp at h ⊢
  intro hk
  exact h p.2 (by rw [← hk]; exact hp)

theorem xlook_xgroup (op : Agg) (m : Nat) (rows : List (Nat × Int)) (h : ∀ p ∈ rows, p.1 ≤ m) (j : Nat) :
    xlook (xgroup op m rows) (j : Int) =
      if j ∈ rows.map (·.1) then some (aggExact op (groupVals j rows)) else none := by
  unfold xgroup
  rw [xlook_map_nat]
  by_cases hj : j ∈ rows.map (·.1)
  · have : j ≤ m := by
      simp at hj; obtain ⟨b, hb⟩ := hj; exact h _ hb
    simp [hj]; omega
  · simp [hj]

theorem aggExact_nil (op : Agg) : aggExact op [] = none := rfl
theorem combineExact_none_right (op : Agg) (a : Option Int) : combineExact op a none = a := by
  cases a <;> simp [combineExact]
theorem combineExact_none_left (op : Agg) (a : Option Int) : combineExact op none a = a := by
  simp [combineExact]

/-- **Partition independence, two partitions (exact level).** -/
theorem xgroup_append (op : Agg) (m : Nat) (r1 r2 : List (Nat × Int))
    (h1 : ∀ p ∈ r1, p.1 ≤ m) (h2 : ∀ p ∈ r2, p.1 ≤ m) :
    xmerge op (xgroup op m r1) (xgroup op m r2) = xgroup op m (r1 ++ r2) := by
  have h12 : ∀ p ∈ r1 ++ r2, p.1 ≤ m := by
    intro p hp; simp at hp; rcases hp with hp | hp; exact h1 p hp; exact h2 p hp
  apply xpart_ext
  · exact xmerge_sorted op _ _ (xgroup_sorted op m r1) (xgroup_sorted op m r2)
  · exact xgroup_sorted op m _
  · intro k
    rw [xlook_xmerge op _ _ (xgroup_sorted op m r1) (xgroup_sorted op m r2)]
    by_cases hk : k < 0
    · unfold xgroup
      simp [xlook_map_neg _ _ k hk, joinX]
    · obtain ⟨j, rfl⟩ : ∃ j : Nat, k = (j : Int) := ⟨k.toNat, by omega⟩
      rw [xlook_xgroup op m r1 h1, xlook_xgroup op m r2 h2, xlook_xgroup op m _ h12, groupVals_append, aggExact_append]
      by_cases a1 : j ∈ r1.map (·.1) <;> by_cases a2 : j ∈ r2.map (·.1)
      · simp [a1, a2, joinX]
      · rw [groupVals_nil_of_not_mem j r2 a2, aggExact_nil, combineExact_none_right]
        simp [a1, a2, joinX]
      · rw [groupVals_nil_of_not_mem j r1 a1, aggExact_nil, combineExact_none_left]
        simp [a1, a2, joinX]
      · simp [a1, a2, joinX]

/-- **Partition independence, any number of partitions (exact level).** -/
theorem xunion_xgroup (op : Agg) (m : Nat) (ps : List (List (Nat × Int))) (h : ∀ r ∈ ps, ∀ p ∈ r, p.1 ≤ m) :
    xunion op (ps.map (xgroup op m)) = xgroup op m ps.flatten := by
  induction ps with
  | nil => simp [xunion, xgroup]
  | cons r rest ih =>
    have hrest : ∀ r' ∈ rest, ∀ p ∈ r', p.1 ≤ m := fun r' hr' => h r' (by simp [hr'])
    have := ih hrest
    simp only [xunion, List.map_cons, List.foldr_cons, List.flatten_cons] at this ⊢
    rw [this]
    apply xgroup_append op m r rest.flatten (h r (by simp))
    intro p hp
    simp at hp
    obtain ⟨r', hr', hp'⟩ := hp
    exact hrest r' hr' p hp'


/-! ### the array pipeline computes `xgroup` (in the in-band encoding) -/

theorem fold_unit (op : Agg) (x : Int) (xs : List Int) (hx : inI64 x) :
    (x :: xs).foldl (aggStep (toOp op)) (aggUnit (toOp op)) = encV (aggExact op (x :: xs)) := by
  unfold inI64 I64_MIN I64_MAX at hx
  cases op
  · simp [aggStep, aggUnit, toOp, encV, aggExact]
  · simp only [aggStep, aggUnit, toOp, encV, aggExact, List.foldl_cons]
    have : ∀ (ys : List Int) (a : Int), ys.foldl countStep a = a + ys.length := by
      intro ys; induction ys with
      | nil => simp
      | cons y ys ih => intro a; simp only [List.foldl_cons, ih, countStep, List.length_cons]; omega
    rw [this]; simp [countStep]; omega
  · simp only [aggStep, aggUnit, toOp, encV, aggExact, List.foldl_cons]
    have : maxStep maxUnit x = x := by unfold maxStep maxUnit I64_MIN; split <;> omega
    rw [this]
  · simp only [aggStep, aggUnit, toOp, encV, aggExact, List.foldl_cons]
    have : minStep minUnit x = x := by unfold minStep minUnit I64_MAX; split <;> omega
    rw [this]

theorem sel_closed (m : Nat) (rows : List (Nat × Int)) (h : ∀ p ∈ rows, p.1 ≤ m) :
    ∃ sel, existsOp (List.replicate (m + 1) 0) (rows.map (·.1)) = some sel ∧
      sel = (List.range (m + 1)).map (fun k => if k ∈ rows.map (·.1) then 1 else 0) := by
  have h2 : ∀ g ∈ rows.map (·.1), g < (List.replicate (m + 1) 0).length := by
    intro g hg
    simp at hg
    obtain ⟨b, hb⟩ := hg
    have := h (g, b) hb
    simp; omega
  obtain ⟨sel, hs1, hs2, hs3⟩ := existsOp_spec (rows.map (·.1)) (List.replicate (m + 1) 0) h2
  refine ⟨sel, hs1, ?_⟩
  apply eq_map_range _ _ _ (by simpa using hs2)
  intro k hk
  have hk2 : k < (List.replicate (m + 1) 0).length := by rw [← hs2]; exact hk
  rw [hs3 k hk2 hk]
  simp

theorem acc_closed (op : Agg) (m : Nat) (rows : List (Nat × Int)) (h : ∀ p ∈ rows, p.1 ≤ m)
    (acc : List Int) (ha : arrayAcc (toOp op) m rows = some acc) :
    acc = (List.range (m + 1)).map (fun k => (groupVals k rows).foldl (aggStep (toOp op)) (aggUnit (toOp op))) := by
  have h1 : ∀ u, ∀ p ∈ rows, p.1 < (freshAcc m u).length := by
    intro u p hp; have := h p hp; simp [freshAcc]; omega
  cases op
  · -- sum: CheckedAggregate
    simp only [arrayAcc, toOp] at ha
    obtain ⟨acc', ovf', e1, e2, e3⟩ := accumulateChecked_spec rows (freshAcc m 0) false (h1 0)
    rw [e1] at ha
    cases ovf' with
    | true => simp at ha
    | false =>
      simp at ha; subst ha
      obtain ⟨_, e4⟩ := e3 rfl
      apply eq_map_range _ _ _ (by simpa [freshAcc] using e2)
      intro k hk
      have hk2 : k < (freshAcc m 0).length := by rw [← e2]; exact hk
      rw [e4 k hk2 hk]
      simp [freshAcc, aggStep, aggUnit, toOp]
  all_goals
    simp only [arrayAcc, toOp] at ha
    obtain ⟨acc', e1, e2, e3⟩ := accumulate_spec _ rows (freshAcc m _) (h1 _)
    rw [e1] at ha
    simp at ha; subst ha
    apply eq_map_range _ _ _ (by simpa [freshAcc] using e2)
    intro k hk
    have hk2 := hk
    rw [e2] at hk2
    rw [e3 k hk2 hk]
    simp [freshAcc, toOp]

/-- **Array aggregation is correct.** If the partition's aggregation does not fail, the keys are the distinct raw
    keys ascending, each once, and the values the exact aggregates of the groups (in-band encoded). -/
theorem arrayPartition_eq (op : Agg) (m : Nat) (rows : List (Nat × Int))
    (h : ∀ p ∈ rows, p.1 ≤ m) (hv : ∀ p ∈ rows, inI64 p.2)
    (acc : List Int) (ha : arrayAcc (toOp op) m rows = some acc) :
    ∃ keys vals, arrayPartition (toOp op) m rows = some (keys, vals) ∧
      (⟨[keys.map Int.ofNat], vals⟩ : Part) = encPart (xgroup op m rows) := by
  obtain ⟨sel, hs1, hs2⟩ := sel_closed m rows h
  have hacc := acc_closed op m rows h acc ha
  refine ⟨nonzeroIndices sel, compact acc sel, by simp [arrayPartition, ha, hs1], ?_⟩
  have hk : nonzeroIndices sel = (List.range (m + 1)).filter (fun k => k ∈ rows.map (·.1)) := by
    rw [hs2]
    unfold nonzeroIndices
    rw [List.range_eq_range', nonzero_map 0 (m + 1)]
    congr 1
    funext k
    by_cases hk : k ∈ rows.map (·.1) <;> simp [hk]
  have hc : compact acc sel = ((List.range (m + 1)).filter (fun k => k ∈ rows.map (·.1))).map
      (fun k => (groupVals k rows).foldl (aggStep (toOp op)) (aggUnit (toOp op))) := by
    rw [hacc, hs2, compact_map]
    congr 1
    congr 1
    funext k
    by_cases hk : k ∈ rows.map (·.1) <;> simp [hk]
  rw [hk, hc]
  simp only [encPart, xgroup, List.map_map, Part.mk.injEq]
  refine ⟨by simp [Function.comp_def], ?_⟩
  · apply List.map_congr_left
    intro k hkm
    simp at hkm
    obtain ⟨_, b, hb⟩ := hkm
    -- the group of k is not empty
    have hne : groupVals k rows ≠ [] := by
      intro he
      have : b ∈ groupVals k rows := by
        simp only [groupVals, List.mem_map, List.mem_filter]
        exact ⟨(k, b), ⟨hb, by simp⟩, rfl⟩
      rw [he] at this; simp at this
    cases hg : groupVals k rows with
    | nil => exact absurd hg hne
    | cons x xs =>
      have hx : inI64 x := by
        have : x ∈ groupVals k rows := by rw [hg]; simp
        simp only [groupVals, List.mem_map, List.mem_filter] at this
        obtain ⟨p, ⟨hp, _⟩, rfl⟩ := this
        exact hv p hp
      simp only [Function.comp]
      rw [fold_unit op x xs hx, hg]
/-! ### NULLable aggregate inputs -/

/-- exact grouped aggregation with NULLABLE inputs: NULL inputs are ignored, a group without input is NULL -/
def xgroupN (op : Agg) (m : Nat) (rows : List (Nat × Option Int)) : XPart :=
  ((List.range (m + 1)).filter (fun k => k ∈ rows.map (·.1))).map
    fun (k : Nat) => ((k : Int), aggExact op (presentVals k rows))

theorem xgroupN_sorted (op : Agg) (m : Nat) (rows : List (Nat × Option Int)) : XSorted (xgroupN op m rows) := by
  unfold XSorted xgroupN
  simp only [List.map_map]
  have h1 : (List.range (m + 1)).Pairwise (· < ·) := List.pairwise_lt_range
  have h2 := List.Pairwise.filter (fun k => decide (k ∈ rows.map (·.1))) h1
  refine List.Pairwise.map _ ?_ h2
  intro a b hab
  simp
  omega

theorem presentVals_append (k : Nat) (r1 r2 : List (Nat × Option Int)) :
    presentVals k (r1 ++ r2) = presentVals k r1 ++ presentVals k r2 := by
  simp [presentVals, groupVals]

theorem presentVals_nil_of_not_mem (k : Nat) (rows : List (Nat × Option Int)) (h : k ∉ rows.map (·.1)) :
    presentVals k rows = [] := by
  have : groupVals k rows = [] := by
    simp only [groupVals, List.map_eq_nil_iff, List.filter_eq_nil_iff]
    intro p hp
    simp at h ⊢
    intro hk
    exact h p.2 (by rw [← hk]; exact hp)
  simp [presentVals, this]

theorem xlook_xgroupN (op : Agg) (m : Nat) (rows : List (Nat × Option Int)) (h : ∀ p ∈ rows, p.1 ≤ m) (j : Nat) :
    xlook (xgroupN op m rows) (j : Int) =
      if j ∈ rows.map (·.1) then some (aggExact op (presentVals j rows)) else none := by
  unfold xgroupN
  rw [xlook_map_nat]
  by_cases hj : j ∈ rows.map (·.1)
  · have : j ≤ m := by
      simp at hj; obtain ⟨b, hb⟩ := hj; exact h _ hb
    simp [hj]; omega
  · simp [hj]

theorem xgroupN_append (op : Agg) (m : Nat) (r1 r2 : List (Nat × Option Int))
    (h1 : ∀ p ∈ r1, p.1 ≤ m) (h2 : ∀ p ∈ r2, p.1 ≤ m) :
    xmerge op (xgroupN op m r1) (xgroupN op m r2) = xgroupN op m (r1 ++ r2) := by
  have h12 : ∀ p ∈ r1 ++ r2, p.1 ≤ m := by
    intro p hp; simp at hp; rcases hp with hp | hp; exact h1 p hp; exact h2 p hp
  apply xpart_ext
  · exact xmerge_sorted op _ _ (xgroupN_sorted op m r1) (xgroupN_sorted op m r2)
  · exact xgroupN_sorted op m _
  · intro k
    rw [xlook_xmerge op _ _ (xgroupN_sorted op m r1) (xgroupN_sorted op m r2)]
    by_cases hk : k < 0
    · unfold xgroupN
      simp [xlook_map_neg _ _ k hk, joinX]
    · obtain ⟨j, rfl⟩ : ∃ j : Nat, k = (j : Int) := ⟨k.toNat, by omega⟩
      rw [xlook_xgroupN op m r1 h1, xlook_xgroupN op m r2 h2, xlook_xgroupN op m _ h12, presentVals_append,
        aggExact_append]
      by_cases a1 : j ∈ r1.map (·.1) <;> by_cases a2 : j ∈ r2.map (·.1)
      · simp [a1, a2, joinX]
      · rw [presentVals_nil_of_not_mem j r2 a2, aggExact_nil, combineExact_none_right]
        simp [a1, a2, joinX]
      · rw [presentVals_nil_of_not_mem j r1 a1, aggExact_nil, combineExact_none_left]
        simp [a1, a2, joinX]
      · simp [a1, a2, joinX]

theorem xunion_xgroupN (op : Agg) (m : Nat) (ps : List (List (Nat × Option Int))) (h : ∀ r ∈ ps, ∀ p ∈ r, p.1 ≤ m) :
    xunion op (ps.map (xgroupN op m)) = xgroupN op m ps.flatten := by
  induction ps with
  | nil => simp [xunion, xgroupN]
  | cons r rest ih =>
    have hrest : ∀ r' ∈ rest, ∀ p ∈ r', p.1 ≤ m := fun r' hr' => h r' (by simp [hr'])
    have := ih hrest
    simp only [xunion, List.map_cons, List.foldr_cons, List.flatten_cons] at this ⊢
    rw [this]
    apply xgroupN_append op m r rest.flatten (h r (by simp))
    intro p hp
    simp at hp
    obtain ⟨r', hr', hp'⟩ := hp
    exact hrest r' hr' p hp'

theorem fuseNulls_map (L : List Nat) (A : Nat → Int) (P : Nat → Bool) :
    fuseNulls (L.map A) (L.map P) = L.map (fun k => if P k then A k else I64_MAX) := by
  induction L with
  | nil => rfl
  | cons x xs ih => simp [fuseNulls, ih]

/-- **Array aggregation with NULLable inputs is correct** (AggregateNullable + Exists + NonzeroIndices +
    CompactNullable + FuseNulls): keys ascending, each once; value = exact aggregate of the PRESENT inputs, NULL (in-band)
    for a group without any. -/
theorem arrayPartitionNullable_eq (op : Agg) (m : Nat) (rows : List (Nat × Option Int))
    (h : ∀ p ∈ rows, p.1 ≤ m) (hv : ∀ p ∈ rows, ∀ v, p.2 = some v → inI64 v) :
    ∃ keys vals, arrayPartitionNullable (toOp op) m rows = some (keys, vals) ∧
      (⟨[keys.map Int.ofNat], vals⟩ : Part) = encPart (xgroupN op m rows) := by
  have h1 : ∀ p ∈ rows, p.1 < (freshAcc m (aggUnit (toOp op))).length := by
    intro p hp; have := h p hp; simp [freshAcc]; omega
  obtain ⟨acc, pres, e1, e2, e3, e4⟩ := accumulateNullable_spec (aggStep (toOp op)) rows
    (freshAcc m (aggUnit (toOp op))) (List.replicate (m + 1) false) (by simp [freshAcc]) h1
  have hsel : ∃ sel, existsOp (List.replicate (m + 1) 0) (rows.map (·.1)) = some sel ∧
      sel = (List.range (m + 1)).map (fun k => if k ∈ rows.map (·.1) then 1 else 0) := by
    have h2 : ∀ g ∈ rows.map (·.1), g < (List.replicate (m + 1) 0).length := by
      intro g hg
      simp at hg
      obtain ⟨b, hb⟩ := hg
      have := h (g, b) hb
      simp; omega
    obtain ⟨sel, hs1, hs2, hs3⟩ := existsOp_spec (rows.map (·.1)) (List.replicate (m + 1) 0) h2
    refine ⟨sel, hs1, ?_⟩
    apply eq_map_range _ _ _ (by simpa using hs2)
    intro k hk
    have hk2 : k < (List.replicate (m + 1) 0).length := by rw [← hs2]; exact hk
    rw [hs3 k hk2 hk]
    simp
  obtain ⟨sel, hs1, hs2⟩ := hsel
  have hlen : acc.length = m + 1 := by simpa [freshAcc] using e2
  have hplen : pres.length = m + 1 := by simpa [freshAcc] using e3
  have hacc : acc = (List.range (m + 1)).map
      (fun k => (presentVals k rows).foldl (aggStep (toOp op)) (aggUnit (toOp op))) := by
    apply eq_map_range _ _ _ hlen
    intro k hk
    have := (e4 k (by simpa [freshAcc] using (hlen ▸ hk)) hk (by simp; omega) (by omega)).1
    simpa [freshAcc] using this
  have hpres : pres = (List.range (m + 1)).map (fun k => !(presentVals k rows).isEmpty) := by
    apply eq_map_range _ _ _ hplen
    intro k hk
    have := (e4 k (by simp [freshAcc]; omega) (by omega) (by simp; omega) hk).2
    simpa using this
  refine ⟨nonzeroIndices sel, fuseNulls (compact acc sel) (compact pres sel),
    by simp [arrayPartitionNullable, e1, hs1, compactNullable], ?_⟩
  have hk : nonzeroIndices sel = (List.range (m + 1)).filter (fun k => k ∈ rows.map (·.1)) := by
    rw [hs2]
    unfold nonzeroIndices
    rw [List.range_eq_range', nonzero_map 0 (m + 1)]
    congr 1
    funext k
    by_cases hk : k ∈ rows.map (·.1) <;> simp [hk]
  have hfilt : ∀ {α : Type} (A : Nat → α), compact ((List.range (m + 1)).map A) sel =
      ((List.range (m + 1)).filter (fun k => k ∈ rows.map (·.1))).map A := by
    intro α A
    rw [hs2, compact_map]
    congr 1
    congr 1
    funext k
    by_cases hk : k ∈ rows.map (·.1) <;> simp [hk]
  rw [hk, hacc, hpres, hfilt, hfilt, fuseNulls_map]
  simp only [encPart, xgroupN, List.map_map, Part.mk.injEq]
  refine ⟨by simp [Function.comp_def], ?_⟩
  apply List.map_congr_left
  intro k _
  simp only [Function.comp]
  cases hg : presentVals k rows with
  | nil => simp [aggExact, encV]
  | cons x xs =>
    have hx : inI64 x := by
      have : x ∈ presentVals k rows := by rw [hg]; simp
      simp only [presentVals, groupVals, List.mem_filterMap, List.mem_map, List.mem_filter] at this
      obtain ⟨o, ⟨p, ⟨hp, _⟩, rfl⟩, ho⟩ := this
      exact hv p hp x (by simpa using ho)
    simp only [List.isEmpty_cons, Bool.not_false, if_true]
    exact fold_unit op x xs hx
end LM.C04L
