import LocustModel.Disk.Routing
/- Helper lemmas for C15: the order on names, sorting, grouping. -/
namespace LM.Routing

theorem nameLe_refl (a : Name) : nameLe a a = true := by
  induction a with
  | nil => rfl
  | cons x xs ih => simp [nameLe, ih]

theorem nameLe_total (a b : Name) : (nameLe a b || nameLe b a) = true := by
  induction a generalizing b with
  | nil => simp [nameLe]
  | cons x xs ih =>
    cases b with
    | nil => simp [nameLe]
    | cons y ys =>
      simp only [nameLe]
      have := ih ys
      by_cases h1 : x < y
      · simp [h1]
      · by_cases h2 : y < x
        · simp [h2]
        · have : x = y := by omega
          subst this
          simpa using ih ys

theorem nameLe_trans (a b c : Name) : nameLe a b = true → nameLe b c = true → nameLe a c = true := by
  induction a generalizing b c with
  | nil => intros; simp [nameLe]
  | cons x xs ih =>
    cases b with
    | nil => simp [nameLe]
    | cons y ys =>
      cases c with
      | nil => simp [nameLe]
      | cons z zs =>
        simp only [nameLe, Bool.or_eq_true, decide_eq_true_eq, Bool.and_eq_true, beq_iff_eq]
        intro h1 h2
        rcases h1 with h1 | ⟨h1, h1'⟩
        · rcases h2 with h2 | ⟨h2, _⟩
          · left; omega
          · left; omega
        · rcases h2 with h2 | ⟨h2, h2'⟩
          · left; omega
          · right; exact ⟨by omega, ih ys zs h1' h2'⟩

theorem nameLe_antisymm (a b : Name) : nameLe a b = true → nameLe b a = true → a = b := by
  induction a generalizing b with
  | nil => cases b <;> simp [nameLe]
  | cons x xs ih =>
    cases b with
    | nil => simp [nameLe]
    | cons y ys =>
      simp only [nameLe, Bool.or_eq_true, decide_eq_true_eq, Bool.and_eq_true, beq_iff_eq]
      intro h1 h2
      rcases h1 with h1 | ⟨h1, h1'⟩
      · rcases h2 with h2 | ⟨h2, _⟩ <;> omega
      · rcases h2 with h2 | ⟨_, h2'⟩
        · omega
        · rw [h1, ih ys h1' h2']

theorem nameLt_iff (a b : Name) : nameLt a b = true ↔ (nameLe a b = true ∧ a ≠ b) := by
  simp [nameLt]

/-- `a < b` excludes `b ≤ a`. -/
theorem not_le_of_lt {a b : Name} (h : nameLt a b = true) : nameLe b a = false := by
  rw [nameLt_iff] at h
  cases hb : nameLe b a with
  | false => rfl
  | true => exact absurd (nameLe_antisymm a b h.1 hb) h.2

theorem nameLt_irrefl (a : Name) : nameLt a a = false := by simp [nameLt]

theorem nameLt_trans {a b c : Name} (h1 : nameLt a b = true) (h2 : nameLt b c = true) : nameLt a c = true := by
  rw [nameLt_iff] at *
  refine ⟨nameLe_trans a b c h1.1 h2.1, ?_⟩
  intro h; subst h
  exact h1.2 (nameLe_antisymm a b h1.1 h2.1)

theorem nameLt_of_le_of_lt {a b c : Name} (h1 : nameLe a b = true) (h2 : nameLt b c = true) : nameLt a c = true := by
  rw [nameLt_iff] at *
  refine ⟨nameLe_trans a b c h1 h2.1, ?_⟩
  intro h; subst h
  exact h2.2 (nameLe_antisymm b a h2.1 h1)

theorem le_of_lt {a b : Name} (h : nameLt a b = true) : nameLe a b = true := ((nameLt_iff a b).1 h).1

/-! ### sorting -/

/-- Names of a list of columns. -/
def names {α} (cols : List (Col α)) : List Name := cols.map (·.name)

theorem sortCols_perm {α} (cols : List (Col α)) : (sortCols cols).Perm cols :=
  List.mergeSort_perm _ _

theorem mem_sortCols {α} (cols : List (Col α)) (c : Col α) : c ∈ sortCols cols ↔ c ∈ cols :=
  (sortCols_perm cols).mem_iff

theorem sortCols_sorted {α} (cols : List (Col α)) :
    (sortCols cols).Pairwise (fun a b => nameLe a.name b.name = true) :=
  List.pairwise_mergeSort (fun a b c => nameLe_trans a.name b.name c.name) (fun a b => nameLe_total a.name b.name) cols

/-- With pairwise distinct names the sorted list is strictly increasing. -/
theorem sortCols_strict {α} (cols : List (Col α)) (hnd : (names cols).Nodup) :
    (sortCols cols).Pairwise (fun a b => nameLt a.name b.name = true) := by
  have hs := sortCols_sorted cols
  have hnd' : (names (sortCols cols)).Nodup := by
    have : (names (sortCols cols)).Perm (names cols) := (sortCols_perm cols).map _
    exact this.nodup_iff.2 hnd
  unfold names at hnd'
  rw [List.nodup_iff_pairwise_ne, List.pairwise_map] at hnd'
  have := hs.and hnd'
  exact this.imp (fun ⟨h1, h2⟩ => by rw [nameLt_iff]; exact ⟨h1, h2⟩)

/-! ### grouping -/

theorem groupGo_flatten {α} (max : Nat) (rest cur : List (Col α)) (b : Nat) :
    ((groupGo max rest cur b).map (·.1)).flatten = cur ++ rest := by
  induction rest generalizing cur b with
  | nil => simp [groupGo]
  | cons c cs ih =>
    simp only [groupGo]
    split
    · simp [ih]
    · simp [ih]

theorem groupGo_nonempty {α} (max : Nat) (rest cur : List (Col α)) (b : Nat) (h : cur ≠ []) :
    ∀ g ∈ groupGo max rest cur b, g.1 ≠ [] := by
  induction rest generalizing cur b with
  | nil => simp [groupGo, h]
  | cons c cs ih =>
    simp only [groupGo]
    split
    · intro g hg
      rcases List.mem_cons.1 hg with rfl | hg
      · exact h
      · exact ih [c] c.size (by simp) g hg
    · exact ih (cur ++ [c]) _ (by simp)

/-- From the initial state every emitted group is non-empty as soon as there is at least one column
    (so `column_names.last().unwrap()` cannot fail). -/
theorem groupGo_top_nonempty {α} (max : Nat) (cols : List (Col α)) (h : cols ≠ []) :
    ∀ g ∈ groupGo max cols [] 0, g.1 ≠ [] := by
  cases cols with
  | nil => exact absurd rfl h
  | cons c cs =>
    simp only [groupGo]
    have : ¬ (0 + c.size > max ∧ ([] : List (Col α)) ≠ []) := by simp
    rw [if_neg this]
    exact groupGo_nonempty max cs _ _ (by simp)

/-- Each group respects the size limit unless it consists of a single (oversized) column. -/
theorem groupGo_sizes {α} (max : Nat) (rest cur : List (Col α)) (b : Nat)
    (hb : b = (cur.map (·.size)).sum) (hc : b ≤ max ∨ cur.length ≤ 1) :
    ∀ g ∈ groupGo max rest cur b, g.2 = (g.1.map (·.size)).sum ∧ (g.2 ≤ max ∨ g.1.length ≤ 1) := by
  induction rest generalizing cur b with
  | nil => simp [groupGo, hb]; subst hb; exact hc
  | cons c cs ih =>
    simp only [groupGo]
    split
    · intro g hg
      rcases List.mem_cons.1 hg with rfl | hg
      · exact ⟨hb, hc⟩
      · exact ih [c] c.size (by simp) (Or.inr (by simp)) g hg
    · rename_i hn
      apply ih (cur ++ [c]) (b + c.size) (by simp [hb])
      by_cases hcur : cur = []
      · subst hcur; right; simp
      · left
        have : ¬ (b + c.size > max) := fun h => hn ⟨h, hcur⟩
        omega

/-- The running maximum dominates every column name. -/
theorem foldl_last_ge {α} (cols : List (Col α)) (init : Name) :
    nameLe init (cols.foldl (fun l c => if nameLt l c.name then c.name else l) init) = true ∧
    ∀ c ∈ cols, nameLe c.name (cols.foldl (fun l c => if nameLt l c.name then c.name else l) init) = true := by
  induction cols generalizing init with
  | nil => simp [nameLe_refl]
  | cons c cs ih =>
    simp only [List.foldl_cons]
    by_cases h : nameLt init c.name = true
    · rw [if_pos h]
      obtain ⟨h1, h2⟩ := ih c.name
      refine ⟨nameLe_trans _ _ _ (le_of_lt h) h1, ?_⟩
      intro d hd
      rcases List.mem_cons.1 hd with rfl | hd
      · exact h1
      · exact h2 d hd
    · rw [if_neg h]
      obtain ⟨h1, h2⟩ := ih init
      refine ⟨h1, ?_⟩
      intro d hd
      rcases List.mem_cons.1 hd with rfl | hd
      · -- ¬ init < c  ⇒  c ≤ init
        have hle : nameLe d.name init = true := by
          rcases (Bool.or_eq_true_iff.1 (nameLe_total d.name init)) with h' | h'
          · exact h'
          · by_cases he : init = d.name
            · rw [he]; exact nameLe_refl _
            · exact absurd ((nameLt_iff _ _).2 ⟨h', he⟩) h
        exact nameLe_trans _ _ _ hle h1
      · exact h2 d hd

theorem lastAll_ge {α} (cols : List (Col α)) : ∀ c ∈ cols, nameLe c.name (lastAll cols) = true :=
  (foldl_last_ge cols []).2

/-- The running maximum is `""` or one of the names. -/
theorem lastAll_mem {α} (cols : List (Col α)) (init : Name) :
    (cols.foldl (fun l c => if nameLt l c.name then c.name else l) init) = init ∨
    (cols.foldl (fun l c => if nameLt l c.name then c.name else l) init) ∈ names cols := by
  induction cols generalizing init with
  | nil => simp
  | cons c cs ih =>
    simp only [List.foldl_cons, names, List.map_cons, List.mem_cons]
    by_cases h : nameLt init c.name = true
    · rw [if_pos h]
      rcases ih c.name with h' | h'
      · right; left; exact h'
      · right; right; exact h'
    · rw [if_neg h]
      rcases ih init with h' | h'
      · left; exact h'
      · right; right; exact h'

end LM.Routing
