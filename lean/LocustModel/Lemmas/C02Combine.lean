import LocustModel.Query.Combine
import LocustModel.Query.OrderSpec
/-
  Helper lemmas for C02 (select and sort branch of `combine`, bracketings).
-/
namespace LM.C02L
open LM LM.Combine LM.OrderSpec

/-! ### take / drop arithmetic -/

theorem take_append_take {ρ : Type} (n : Nat) (a b : List ρ) :
    (a ++ b.take (n - a.length)).take n = (a ++ b).take n := by
  rw [List.take_append, List.take_append, List.take_take]
  congr 2
  omega

theorem combineSel_eq {ρ : Type} (limit : Nat) (a b : List ρ) :
    combineSel limit a b = a ++ b.take (limit - a.length) := by
  unfold combineSel
  by_cases h : a.length ≥ limit
  · have : limit - a.length = 0 := by omega
    simp [h, this]
  · simp only [h, if_false]
    congr 1
    rw [List.take_eq_take_min (i := limit - a.length), Nat.min_comm]

theorem take_combineSel {ρ : Type} (limit : Nat) (a b : List ρ) :
    (combineSel limit a b).take limit = (a ++ b).take limit := by
  rw [combineSel_eq, take_append_take]

/-- `take n (a ++ b)` only depends on `take n a` and `take n b`. -/
theorem take_append_congr {ρ : Type} (n : Nat) {a a' b b' : List ρ}
    (ha : a.take n = a'.take n) (hb : b.take n = b'.take n) :
    (a ++ b).take n = (a' ++ b').take n := by
  have key : ∀ (x y : List ρ), (x ++ y).take n = (x.take n ++ y.take n).take n := by
    intro x y
    rw [List.take_append, List.take_append, List.take_take, List.take_take, List.length_take]
    congr 1
    · simp
    · by_cases h : x.length ≥ n
      · have h1 : n - x.length = 0 := by omega
        have h2 : n - min n x.length = 0 := by omega
        simp [h1, h2]
      · have h2 : min n x.length = x.length := by omega
        rw [h2]
        congr 1
        omega
  rw [key a b, key a' b', ha, hb]

theorem outputSlice_eq {ρ : Type} (limit offset : Nat) (full : List ρ) :
    outputSlice limit offset full = (full.drop offset).take limit := by
  unfold outputSlice
  rw [List.take_eq_take_min (l := full.drop offset) (i := limit), List.length_drop]

/-- The answer only depends on the first `limit + offset` rows of the combined result. -/
theorem outputSlice_take {ρ : Type} (limit offset : Nat) (full : List ρ) :
    outputSlice limit offset (full.take (limit + offset)) = outputSlice limit offset full := by
  rw [outputSlice_eq, outputSlice_eq, List.drop_take]
  have : limit + offset - offset = limit := by omega
  rw [this, List.take_take, Nat.min_self]

theorem outputSlice_congr {ρ : Type} (limit offset : Nat) {x y : List ρ}
    (h : x.take (limit + offset) = y.take (limit + offset)) :
    outputSlice limit offset x = outputSlice limit offset y := by
  rw [← outputSlice_take limit offset x, ← outputSlice_take limit offset y, h]

/-! ### select branch over a bracketing -/

theorem evalSel_take {ρ : Type} (limit : Nat) (t : Tree (List ρ)) :
    (t.eval (combineSel limit)).take limit = t.leaves.flatten.take limit := by
  induction t with
  | leaf a => simp [Tree.eval, Tree.leaves]
  | node l r ihl ihr =>
    simp only [Tree.eval, Tree.leaves, List.flatten_append]
    rw [take_combineSel]
    exact take_append_congr limit ihl ihr

/-! ### sort branch -/

theorem mergeLim_eq_take {α : Type} (le : α → α → Bool) (l r : List α) (n : Nat) :
    mergeLim le l r n = (mergeAll le l r).take n := by
  fun_induction mergeLim le l r n <;> simp_all [mergeAll]

theorem mergeAll_nil_right {α : Type} (le : α → α → Bool) (l : List α) : mergeAll le l [] = l := by
  cases l <;> simp [mergeAll]

theorem mergeAll_nil_left {α : Type} (le : α → α → Bool) (r : List α) : mergeAll le [] r = r := by
  simp [mergeAll]

theorem mergeAll_cons_cons {α : Type} (le : α → α → Bool) (a b : α) (l r : List α) :
    mergeAll le (a :: l) (b :: r) =
      if le a b then a :: mergeAll le l (b :: r) else b :: mergeAll le (a :: l) r := by
  simp [mergeAll]

/-- Merging is associative for a total preorder — for ALL lists, sorted or not, and exactly (ties
    included: the earlier list always wins). -/
theorem mergeAll_assoc {α : Type} (le : α → α → Bool) (h : TotalPre le) (a b c : List α) :
    mergeAll le (mergeAll le a b) c = mergeAll le a (mergeAll le b c) := by
  induction a generalizing b c with
  | nil => simp [mergeAll_nil_left]
  | cons x a iha =>
    induction b generalizing c with
    | nil => simp [mergeAll_nil_left, mergeAll_nil_right]
    | cons y b ihb =>
      induction c with
      | nil => simp [mergeAll_nil_right]
      | cons z c ihc =>
        by_cases hxy : le x y = true
        · by_cases hxz : le x z = true
          · -- x first on both sides
            have lhs : mergeAll le (mergeAll le (x :: a) (y :: b)) (z :: c)
                = x :: mergeAll le (mergeAll le a (y :: b)) (z :: c) := by
              rw [mergeAll_cons_cons le x y, if_pos hxy, mergeAll_cons_cons le x z, if_pos hxz]
            have rhs : mergeAll le (x :: a) (mergeAll le (y :: b) (z :: c))
                = x :: mergeAll le a (mergeAll le (y :: b) (z :: c)) := by
              rw [mergeAll_cons_cons le y z]
              by_cases hyz : le y z = true
              · rw [if_pos hyz, mergeAll_cons_cons le x y, if_pos hxy]
              · rw [if_neg hyz, mergeAll_cons_cons le x z, if_pos hxz]
            rw [lhs, rhs, iha]
          · -- z < x ≤ y : z first
            have hyz : ¬ le y z = true := fun hyz => hxz (h.trans x y z hxy hyz)
            have lhs : mergeAll le (mergeAll le (x :: a) (y :: b)) (z :: c)
                = z :: mergeAll le (mergeAll le (x :: a) (y :: b)) c := by
              conv => lhs; rw [mergeAll_cons_cons le x y, if_pos hxy, mergeAll_cons_cons le x z, if_neg hxz]
              rw [mergeAll_cons_cons le x y, if_pos hxy]
            have rhs : mergeAll le (x :: a) (mergeAll le (y :: b) (z :: c))
                = z :: mergeAll le (x :: a) (mergeAll le (y :: b) c) := by
              rw [mergeAll_cons_cons le y z, if_neg hyz, mergeAll_cons_cons le x z, if_neg hxz]
            rw [lhs, rhs, ihc]
        · by_cases hyz : le y z = true
          · -- y < x, y ≤ z : y first
            have lhs : mergeAll le (mergeAll le (x :: a) (y :: b)) (z :: c)
                = y :: mergeAll le (mergeAll le (x :: a) b) (z :: c) := by
              rw [mergeAll_cons_cons le x y, if_neg hxy, mergeAll_cons_cons le y z, if_pos hyz]
            have rhs : mergeAll le (x :: a) (mergeAll le (y :: b) (z :: c))
                = y :: mergeAll le (x :: a) (mergeAll le b (z :: c)) := by
              rw [mergeAll_cons_cons le y z, if_pos hyz, mergeAll_cons_cons le x y, if_neg hxy]
            rw [lhs, rhs, ihb]
          · -- z < y < x : z first
            have hzy : le z y = true := by
              rcases h.total y z with h1 | h1
              · exact absurd h1 hyz
              · exact h1
            have hxz : ¬ le x z = true := fun hxz => hxy (h.trans x z y hxz hzy)
            have lhs : mergeAll le (mergeAll le (x :: a) (y :: b)) (z :: c)
                = z :: mergeAll le (mergeAll le (x :: a) (y :: b)) c := by
              conv => lhs; rw [mergeAll_cons_cons le x y, if_neg hxy, mergeAll_cons_cons le y z, if_neg hyz]
              rw [mergeAll_cons_cons le x y, if_neg hxy]
            have rhs : mergeAll le (x :: a) (mergeAll le (y :: b) (z :: c))
                = z :: mergeAll le (x :: a) (mergeAll le (y :: b) c) := by
              rw [mergeAll_cons_cons le y z, if_neg hyz, mergeAll_cons_cons le x z, if_neg hxz]
            rw [lhs, rhs, ihc]

/-- The first `n` merged elements only depend on the first `n` elements of either input. -/
theorem take_mergeAll_take {α : Type} (le : α → α → Bool) (n : Nat) (l r : List α) :
    (mergeAll le (l.take n) (r.take n)).take n = (mergeAll le l r).take n := by
  induction n generalizing l r with
  | zero => simp
  | succ n ih =>
    cases l with
    | nil => simp [mergeAll_nil_left, List.take_take]
    | cons a l =>
      cases r with
      | nil => simp [mergeAll_nil_right, List.take_take]
      | cons b r =>
        simp only [List.take_succ_cons, mergeAll_cons_cons]
        by_cases hab : le a b = true
        · simp only [hab, if_true, List.take_succ_cons]
          congr 1
          have := ih l (b :: r)
          rw [← this]
          -- take n of merge (take n l) (b :: take n r) vs merge (take n l) (take n (b :: r))
          have h2 := ih (l.take n) (b :: r.take n)
          rw [List.take_take, Nat.min_self] at h2
          rw [← h2]
          congr 2
          cases n with
          | zero => simp
          | succ m =>
            simp only [List.take_succ_cons]
            rw [List.take_take]
            congr 2
            omega
        · simp only [hab, Bool.false_eq_true, if_false, List.take_succ_cons]
          congr 1
          have := ih (a :: l) r
          rw [← this]
          have h2 := ih (a :: l.take n) (r.take n)
          rw [List.take_take, Nat.min_self] at h2
          rw [← h2]
          congr 2
          cases n with
          | zero => simp
          | succ m =>
            simp only [List.take_succ_cons]
            rw [List.take_take]
            congr 2
            omega

theorem mergeList_append {α : Type} (le : α → α → Bool) (h : TotalPre le) (xs ys : List (List α)) :
    mergeList le (xs ++ ys) = mergeAll le (mergeList le xs) (mergeList le ys) := by
  induction xs with
  | nil => simp [mergeList, mergeAll_nil_left]
  | cons x xs ih => simp [mergeList, ih, mergeAll_assoc le h]

theorem evalSort_take {α : Type} (le : α → α → Bool) (h : TotalPre le) (n : Nat) (t : Tree (List α)) :
    (t.eval (combineSort le n)).take n = (mergeList le t.leaves).take n := by
  induction t with
  | leaf a => simp [Tree.eval, Tree.leaves, mergeList, mergeAll_nil_right]
  | node l r ihl ihr =>
    simp only [Tree.eval, Tree.leaves]
    rw [show combineSort le n (Tree.eval (combineSort le n) l) (Tree.eval (combineSort le n) r)
        = mergeLim le (Tree.eval (combineSort le n) l) (Tree.eval (combineSort le n) r) n from rfl]
    rw [mergeLim_eq_take, List.take_take, Nat.min_self, mergeList_append le h,
      ← take_mergeAll_take le n (Tree.eval (combineSort le n) l), ← take_mergeAll_take le n (mergeList le l.leaves)]
    rw [ihl, ihr]

/-! ### merged result of sorted inputs: sorted, and a permutation -/

theorem mergeAll_perm {α : Type} (le : α → α → Bool) (l r : List α) : (mergeAll le l r).Perm (l ++ r) := by
  fun_induction mergeAll le l r
  · simp
  · simp
  · rename_i a l b r h ih
    exact List.Perm.cons a ih
  · rename_i a l b r h ih
    have : (b :: mergeAll le (a :: l) r).Perm (b :: (a :: l ++ r)) := List.Perm.cons b ih
    exact this.trans (List.perm_middle.symm)

theorem mergeAll_sorted {α : Type} (le : α → α → Bool) (h : TotalPre le) (l r : List α)
    (hl : Sorted le l) (hr : Sorted le r) : Sorted le (mergeAll le l r) := by
  unfold Sorted at *
  fun_induction mergeAll le l r
  · exact hr
  · exact hl
  · rename_i a l b r hab ih
    rw [List.pairwise_cons] at hl
    refine List.pairwise_cons.mpr ⟨?_, ih hl.2 hr⟩
    intro x hx
    have := (mergeAll_perm le l (b :: r)).mem_iff.mp hx
    rw [List.mem_append] at this
    rcases this with h1 | h1
    · exact hl.1 x h1
    · rw [List.pairwise_cons] at hr
      rcases List.mem_cons.mp h1 with h2 | h2
      · subst h2; exact hab
      · exact h.trans a b x hab (hr.1 x h2)
  · rename_i a l b r hab ih
    have hba : le b a = true := by
      rcases h.total a b with h1 | h1
      · exact absurd h1 hab
      · exact h1
    rw [List.pairwise_cons] at hr
    refine List.pairwise_cons.mpr ⟨?_, ih hl hr.2⟩
    intro x hx
    have := (mergeAll_perm le (a :: l) r).mem_iff.mp hx
    rw [List.mem_append] at this
    rcases this with h1 | h1
    · rw [List.pairwise_cons] at hl
      rcases List.mem_cons.mp h1 with h2 | h2
      · subst h2; exact hba
      · exact h.trans b a x hba (hl.1 x h2)
    · exact hr.1 x h1

theorem mergeList_perm {α : Type} (le : α → α → Bool) (ls : List (List α)) :
    (mergeList le ls).Perm ls.flatten := by
  induction ls with
  | nil => simp [mergeList]
  | cons l ls ih =>
    simp only [mergeList, List.flatten_cons]
    exact (mergeAll_perm le l _).trans (List.Perm.append_left l ih)

theorem mergeList_sorted {α : Type} (le : α → α → Bool) (h : TotalPre le) (ls : List (List α))
    (hs : ∀ l ∈ ls, Sorted le l) : Sorted le (mergeList le ls) := by
  induction ls with
  | nil => simp [mergeList, Sorted]
  | cons l ls ih =>
    simp only [mergeList]
    exact mergeAll_sorted le h l _ (hs l (by simp)) (ih (fun x hx => hs x (by simp [hx])))

end LM.C02L
