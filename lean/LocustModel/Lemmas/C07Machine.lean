import LocustModel.Store.C07Machine
import LocustModel.Lemmas.C07Decode
import LocustModel.Lemmas.C07Rebuild
/-
  C07 helper lemmas: every maintenance step of `C07M` preserves the content of every column, for a re-encoding
  that is the identity on cells; and the real re-encoding `reencOf env` is that identity where the free `decode`
  and the re-push are right.
-/
namespace LM.C07M
open LM LM.Codec LM.D2 LM.Rebuild

/-! ### small list facts -/

theorem lookup_map {α : Type} (names : List Name) (f : Name → α) (n : Name) :
    lookup n (names.map fun m => (m, f m)) = if n ∈ names then some (f n) else none := by
  induction names with
  | nil => simp [lookup]
  | cons m ms ih =>
    simp only [List.map_cons, lookup, ih, List.mem_cons]
    by_cases h : m = n
    · subst h; simp
    · have : ¬ n = m := fun e => h e.symm
      simp [h, this]

theorem lookup_isSome_mem {α : Type} (n : Name) (l : List (Name × α)) (h : (lookup n l).isSome = true) :
    n ∈ l.map (·.1) := by
  induction l with
  | nil => simp [lookup] at h
  | cons x xs ih =>
    obtain ⟨m, a⟩ := x
    simp only [lookup] at h
    by_cases hm : m = n
    · subst hm; simp
    · simp only [hm, if_false] at h; simp [ih h]

theorem lookup_none_of_not_mem {α : Type} (n : Name) (l : List (Name × α)) (h : n ∉ l.map (·.1)) :
    lookup n l = none := by
  cases hl : lookup n l with
  | none => rfl
  | some a => exact absurd (lookup_isSome_mem n l (by simp [hl])) h

theorem flatMap_replicate_null {α : Type} (l : List α) (len : α → Nat) :
    l.flatMap (fun x => List.replicate (len x) Cell.null) = List.replicate ((l.map len).sum) Cell.null := by
  induction l with
  | nil => rfl
  | cons x xs ih => simp [List.flatMap_cons, ih, List.replicate_append_replicate]

/-! ### invariants -/

def BatchOk (b : Batch) : Prop := ∀ n cs, lookup n b.cols = some cs → cs.length = b.len
def PartOk (p : Part) : Prop := ∀ n cs, lookup n p.cols = some cs → cs.length = p.len

/-- lengths of a re-encoding input are consistent -/
def LenOk (xs : ReencIn) : Prop := ∀ x ∈ xs, ∀ cs, x.2 = some cs → cs.length = x.1

structure TWF (t : Table) : Prop where
  frozenEmpty : t.frozen = []
  bufOk : ∀ b ∈ t.buffer, BatchOk b
  partsOk : ∀ p ∈ t.parts, PartOk p
  namesParts : ∀ p ∈ t.parts, ∀ n, (lookup n p.cols).isSome = true → n ∈ t.colNames
  namesBuf : ∀ b ∈ t.buffer, ∀ n, (lookup n b.cols).isSome = true → n ∈ t.colNames

theorem twf_empty : TWF {} :=
  ⟨rfl, by simp, by simp, by simp, by simp⟩

theorem mem_addNames_left (names new : List Name) (n : Name) (h : n ∈ names) : n ∈ addNames names new := by
  unfold addNames
  induction new generalizing names with
  | nil => exact h
  | cons m ms ih =>
    simp only [List.foldl_cons]
    apply ih
    split
    · exact h
    · simp [h]

theorem mem_addNames_right (names new : List Name) (n : Name) (h : n ∈ new) : n ∈ addNames names new := by
  unfold addNames
  induction new generalizing names with
  | nil => cases h
  | cons m ms ih =>
    simp only [List.foldl_cons]
    cases List.mem_cons.mp h with
    | inl e =>
      subst e
      apply mem_addNames_left
      split
      · assumption
      · simp
    | inr h' => exact ih _ h'

/-! ### content of the pieces -/

theorem batchesCol_length (bs : List Batch) (h : ∀ b ∈ bs, BatchOk b) (n : Name) :
    (batchesCol bs n).length = batchesLen bs := by
  induction bs with
  | nil => rfl
  | cons b bs ih =>
    have hb := h b (by simp)
    have := ih (fun x hx => h x (by simp [hx]))
    simp only [batchesCol, List.flatMap_cons, List.length_append, batchesLen, List.map_cons, List.sum_cons] at *
    rw [this]
    congr 1
    unfold batchCol orNulls
    cases hl : lookup n b.cols with
    | none => simp
    | some cs => exact hb n cs hl

theorem batchesCol_absent (bs : List Batch) (n : Name) (h : n ∉ batchesNames bs) :
    batchesCol bs n = List.replicate (batchesLen bs) .null := by
  have : ∀ b ∈ bs, batchCol b n = List.replicate b.len .null := by
    intro b hb
    have : n ∉ b.cols.map (·.1) := by
      intro hm
      apply h
      simp only [batchesNames, List.mem_flatMap]
      exact ⟨b, hb, hm⟩
    simp [batchCol, orNulls, lookup_none_of_not_mem n b.cols this]
  unfold batchesCol batchesLen
  rw [← flatMap_replicate_null bs (·.len)]
  exact List.flatMap_congr this

/-- the partition made by `batch` reads, for EVERY column name, as the frozen buffer did -/
theorem partCol_batch (frozen : List Batch) (id off : Nat) (n : Name) :
    partCol { id := id, offset := off, len := batchesLen frozen,
              cols := (batchesNames frozen).map fun m => (m, batchesCol frozen m) } n = batchesCol frozen n := by
  simp only [partCol, lookup_map]
  split
  · rfl
  · rename_i h; simp [orNulls, batchesCol_absent frozen n h]

/-! ### compaction with the identity re-encoding -/

theorem rebuildCols_id (re : Reenc) (olds : List Part) (hre : ∀ xs, LenOk xs → re xs = idReenc xs)
    (hok : ∀ p ∈ olds, PartOk p) (names : List Name) :
    rebuildCols re olds names = .ok (names.map fun n => (n, olds.flatMap (partCol · n))) := by
  have hin : ∀ n, LenOk (olds.map fun p => (p.len, lookup n p.cols)) := by
    intro n x hx cs hcs
    obtain ⟨p, hp, rfl⟩ := List.mem_map.mp hx
    exact hok p hp n cs hcs
  induction names with
  | nil => rfl
  | cons n ns ih =>
    simp only [rebuildCols, hre _ (hin n), idReenc, ih, List.map_cons]
    simp [List.flatMap_map, partCol]

theorem sum_take_drop (l : List Nat) (k : Nat) : (l.take k).sum + (l.drop k).sum = l.sum := by
  rw [← List.sum_append, List.take_append_drop]

/-- `C07_compact_preserves`, core: merging the last `k` partitions leaves every column's content unchanged,
    columns absent from a partition contributing NULLs; also for names outside `colNames` (never stored). -/
theorem compact_content (re : Reenc) (hre : ∀ xs, LenOk xs → re xs = idReenc xs) (t : Table) (hwf : TWF t) (k : Nat) :
    ∃ t', compact re t k = .ok t' ∧ TWF t' ∧ (∀ n, content t' n = content t n) ∧ t'.nextOff = t.nextOff ∧
      t'.buffer = t.buffer := by
  unfold compact
  split
  · exact ⟨t, rfl, hwf, fun _ => rfl, rfl, rfl⟩
  · rename_i hk
    have hk' : 0 < k ∧ k ≤ t.parts.length := by omega
    cases holds : t.parts.drop (t.parts.length - k) with
    | nil => exact ⟨t, by simp, hwf, fun _ => rfl, rfl, rfl⟩
    | cons first olds' =>
      have hmem : ∀ p ∈ first :: olds', p ∈ t.parts := by
        intro p hp; rw [← holds] at hp; exact List.mem_of_mem_drop hp
      have hokp : ∀ p ∈ first :: olds', PartOk p := fun p hp => hwf.partsOk p (hmem p hp)
      simp only [rebuildCols_id re (first :: olds') hre hokp]
      refine ⟨_, rfl, ?_, ?_, rfl, rfl⟩
      · refine ⟨hwf.frozenEmpty, hwf.bufOk, ?_, ?_, hwf.namesBuf⟩
        · intro p hp
          simp only [List.mem_append, List.mem_singleton] at hp
          cases hp with
          | inl h => exact hwf.partsOk p (List.mem_of_mem_take h)
          | inr h =>
            subst h
            intro n cs hl
            simp only [lookup_map] at hl
            split at hl
            · cases hl
              -- length of the concatenation = sum of the partition lengths
              have : ∀ (ps : List Part), (∀ p ∈ ps, PartOk p) →
                  (ps.flatMap (partCol · n)).length = (ps.map (·.len)).sum := by
                intro ps hps
                induction ps with
                | nil => rfl
                | cons q qs ih =>
                  simp only [List.flatMap_cons, List.length_append, List.map_cons, List.sum_cons]
                  rw [ih (fun x hx => hps x (by simp [hx]))]
                  congr 1
                  unfold partCol orNulls
                  cases hq : lookup n q.cols with
                  | none => simp
                  | some c => exact hps q (by simp) n c hq
              exact this _ hokp
            · cases hl
        · intro p hp n hn
          simp only [List.mem_append, List.mem_singleton] at hp
          cases hp with
          | inl h => exact hwf.namesParts p (List.mem_of_mem_take h) n hn
          | inr h =>
            subst h
            simp only [lookup_map] at hn
            split at hn
            · assumption
            · cases hn
      · intro n
        simp only [content, List.flatMap_append, List.flatMap_cons, List.flatMap_nil, List.append_nil]
        congr 2
        have hsplit : t.parts = t.parts.take (t.parts.length - k) ++ (first :: olds') := by
          rw [← holds, List.take_append_drop]
        conv => rhs; rw [hsplit]
        simp only [List.flatMap_append]
        congr 1
        simp only [partCol, lookup_map]
        split
        · rfl
        · rename_i hn
          -- a name outside `colNames` is stored nowhere: NULLs before, NULLs after
          have : ∀ p ∈ first :: olds', orNulls p.len (lookup n p.cols) = List.replicate p.len .null := by
            intro p hp
            cases hl : lookup n p.cols with
            | none => rfl
            | some cs => exact absurd (hwf.namesParts p (hmem p hp) n (by simp [hl])) hn
          simp only [orNulls]
          rw [← flatMap_replicate_null (first :: olds') (·.len)]
          exact (List.flatMap_congr this).symm

end LM.C07M
