import LocustModel.Store.C07Machine
import LocustModel.Lemmas.C07Decode
import LocustModel.Lemmas.C07Rebuild
/-
  C07 helper lemmas: every maintenance step of `C07M` preserves the content of every column, for a re-encoding
  that is the identity on cells; and the real re-encoding `reencOf env` is that identity where the free `decode`
  and the re-push are right.
-/
namespace LM.C07M
open LM LM.Codec LM.D2 LM.Rebuild

/-! ### small list facts -/

theorem lookup_map {α : Type} (names : List Name) (f : Name → α) (n : Name) :
    lookup n (names.map fun m => (m, f m)) = if n ∈ names then some (f n) else none := by
  induction names with
  | nil => simp [lookup]
  | cons m ms ih =>
    simp only [List.map_cons, lookup, ih, List.mem_cons]
    by_cases h : m = n
    · subst h; simp
    · have : ¬ n = m := fun e => h e.symm
      simp [h, this]

theorem lookup_isSome_mem {α : Type} (n : Name) (l : List (Name × α)) (h : (lookup n l).isSome = true) :
    n ∈ l.map (·.1) := by
  induction l with
  | nil => simp [lookup] at h
  | cons x xs ih =>
    obtain ⟨m, a⟩ := x
    simp only [lookup] at h
    by_cases hm : m = n
    · subst hm; simp
    · simp only [hm, if_false] at h; simp [ih h]

theorem lookup_none_of_not_mem {α : Type} (n : Name) (l : List (Name × α)) (h : n ∉ l.map (·.1)) :
    lookup n l = none := by
  cases hl : lookup n l with
  | none => rfl
  | some a => exact absurd (lookup_isSome_mem n l (by simp [hl])) h

theorem flatMap_congr' {α β : Type} {l : List α} {f g : α → List β} (h : ∀ a ∈ l, f a = g a) :
    l.flatMap f = l.flatMap g := by
  induction l with
  | nil => rfl
  | cons a as ih =>
    simp only [List.flatMap_cons]
    rw [h a (by simp), ih (fun x hx => h x (by simp [hx]))]

theorem flatMap_replicate_null {α : Type} (l : List α) (len : α → Nat) :
    l.flatMap (fun x => List.replicate (len x) Cell.null) = List.replicate ((l.map len).sum) Cell.null := by
  induction l with
  | nil => rfl
  | cons x xs ih => simp [List.flatMap_cons, ih, List.replicate_append_replicate]

/-! ### invariants -/

def BatchOk (b : Batch) : Prop := ∀ n cs, lookup n b.cols = some cs → cs.length = b.len
def PartOk (p : Part) : Prop := ∀ n cs, lookup n p.cols = some cs → cs.length = p.len

/-- lengths of a re-encoding input are consistent -/
def LenOk (xs : ReencIn) : Prop := ∀ x ∈ xs, ∀ cs, x.2 = some cs → cs.length = x.1

/-- all cells offered to a column re-encoding are NULLs or values of one basic type -/
def XsTyped (xs : ReencIn) : Prop := ∃ k, TypedK k ∧ ∀ x ∈ xs, ∀ cs, x.2 = some cs → Uniform k cs

/-- the re-encoding is the identity on cells for consistent, single-typed inputs -/
def ReId (re : Reenc) : Prop := ∀ xs, LenOk xs → XsTyped xs → re xs = idReenc xs

theorem reId_idReenc : ReId idReenc := fun _ _ _ => rfl

def BatchTyped (ty : Name → Kind) (b : Batch) : Prop := ∀ n cs, lookup n b.cols = some cs → Uniform (ty n) cs
def PartTyped (ty : Name → Kind) (p : Part) : Prop := ∀ n cs, lookup n p.cols = some cs → Uniform (ty n) cs

/-- every stored column is single-typed, of the type the schema `ty` gives to its name -/
structure TTyped (ty : Name → Kind) (t : Table) : Prop where
  kinds : ∀ n, TypedK (ty n)
  partsT : ∀ p ∈ t.parts, PartTyped ty p
  bufT : ∀ b ∈ t.buffer, BatchTyped ty b

theorem uniform_append {k : Kind} {a b : List Cell} (ha : Uniform k a) (hb : Uniform k b) : Uniform k (a ++ b) := by
  intro c hc
  cases List.mem_append.mp hc with
  | inl h => exact ha c h
  | inr h => exact hb c h

theorem uniform_nulls (k : Kind) (n : Nat) : Uniform k (List.replicate n .null) := by
  intro c hc
  rw [List.mem_replicate] at hc
  rw [hc.2]; exact Or.inl rfl

theorem uniform_flatMap {α : Type} {k : Kind} (l : List α) (f : α → List Cell) (h : ∀ a ∈ l, Uniform k (f a)) :
    Uniform k (l.flatMap f) := by
  intro c hc
  obtain ⟨a, ha, hca⟩ := List.mem_flatMap.mp hc
  exact h a ha c hca

theorem uniform_orNulls {k : Kind} (len : Nat) (o : Option (List Cell)) (h : ∀ cs, o = some cs → Uniform k cs) :
    Uniform k (orNulls len o) := by
  cases o with
  | none => exact uniform_nulls k len
  | some cs => exact h cs rfl

structure TWF (t : Table) : Prop where
  frozenEmpty : t.frozen = []
  bufOk : ∀ b ∈ t.buffer, BatchOk b
  partsOk : ∀ p ∈ t.parts, PartOk p
  namesParts : ∀ p ∈ t.parts, ∀ n, (lookup n p.cols).isSome = true → n ∈ t.colNames
  namesBuf : ∀ b ∈ t.buffer, ∀ n, (lookup n b.cols).isSome = true → n ∈ t.colNames

theorem twf_empty : TWF {} :=
  ⟨rfl, by simp, by simp, by simp, by simp⟩

theorem mem_addNames_left (names new : List Name) (n : Name) (h : n ∈ names) : n ∈ addNames names new := by
  unfold addNames
  induction new generalizing names with
  | nil => exact h
  | cons m ms ih =>
    simp only [List.foldl_cons]
    apply ih
    split
    · exact h
    · simp [h]

theorem mem_addNames_right (names new : List Name) (n : Name) (h : n ∈ new) : n ∈ addNames names new := by
  unfold addNames
  induction new generalizing names with
  | nil => cases h
  | cons m ms ih =>
    simp only [List.foldl_cons]
    cases List.mem_cons.mp h with
    | inl e =>
      subst e
      apply mem_addNames_left
      split
      · assumption
      · simp
    | inr h' => exact ih _ h'

/-! ### content of the pieces -/

theorem batchesCol_length (bs : List Batch) (h : ∀ b ∈ bs, BatchOk b) (n : Name) :
    (batchesCol bs n).length = batchesLen bs := by
  induction bs with
  | nil => rfl
  | cons b bs ih =>
    have hb := h b (by simp)
    have := ih (fun x hx => h x (by simp [hx]))
    simp only [batchesCol, List.flatMap_cons, List.length_append, batchesLen, List.map_cons, List.sum_cons] at *
    rw [this]
    congr 1
    unfold batchCol orNulls
    cases hl : lookup n b.cols with
    | none => simp
    | some cs => exact hb n cs hl

theorem batchesCol_absent (bs : List Batch) (n : Name) (h : n ∉ batchesNames bs) :
    batchesCol bs n = List.replicate (batchesLen bs) .null := by
  have : ∀ b ∈ bs, batchCol b n = List.replicate b.len .null := by
    intro b hb
    have : n ∉ b.cols.map (·.1) := by
      intro hm
      apply h
      simp only [batchesNames, List.mem_flatMap]
      exact ⟨b, hb, hm⟩
    simp [batchCol, orNulls, lookup_none_of_not_mem n b.cols this]
  unfold batchesCol batchesLen
  rw [← flatMap_replicate_null bs (·.len)]
  exact flatMap_congr' this

/-- the partition made by `batch` reads, for EVERY column name, as the frozen buffer did -/
theorem partCol_batch (frozen : List Batch) (id off : Nat) (n : Name) :
    partCol { id := id, offset := off, len := batchesLen frozen,
              cols := (batchesNames frozen).map fun m => (m, batchesCol frozen m) } n = batchesCol frozen n := by
  simp only [partCol, lookup_map]
  split
  · rfl
  · rename_i h; simp [orNulls, batchesCol_absent frozen n h]

/-! ### compaction with the identity re-encoding -/

theorem rebuildCols_id (re : Reenc) (olds : List Part) (names : List Name)
    (hre : ∀ n ∈ names, re (olds.map fun p => (p.len, lookup n p.cols)) = idReenc (olds.map fun p => (p.len, lookup n p.cols))) :
    rebuildCols re olds names = .ok (names.map fun n => (n, olds.flatMap (partCol · n))) := by
  induction names with
  | nil => rfl
  | cons n ns ih =>
    simp only [rebuildCols, hre n (by simp), idReenc, ih (fun m hm => hre m (by simp [hm])), List.map_cons]
    simp [List.flatMap_map, partCol]

theorem reencIn_ok (ty : Name → Kind) (olds : List Part) (hok : ∀ p ∈ olds, PartOk p) (hty : ∀ p ∈ olds, PartTyped ty p)
    (hk : ∀ n, TypedK (ty n)) (n : Name) :
    LenOk (olds.map fun p => (p.len, lookup n p.cols)) ∧ XsTyped (olds.map fun p => (p.len, lookup n p.cols)) := by
  constructor
  · intro x hx cs hcs
    obtain ⟨p, hp, rfl⟩ := List.mem_map.mp hx
    exact hok p hp n cs hcs
  · refine ⟨ty n, hk n, ?_⟩
    intro x hx cs hcs
    obtain ⟨p, hp, rfl⟩ := List.mem_map.mp hx
    exact hty p hp n cs hcs

theorem sum_take_drop (l : List Nat) (k : Nat) : (l.take k).sum + (l.drop k).sum = l.sum := by
  rw [← List.sum_append, List.take_append_drop]

/-- `C07_compact_preserves`, core: merging the last `k` partitions leaves every column's content unchanged,
    columns absent from a partition contributing NULLs; also for names outside `colNames` (never stored). -/
theorem compact_content (re : Reenc) (hre : ReId re) (ty : Name → Kind) (t : Table) (hwf : TWF t) (hty : TTyped ty t)
    (k : Nat) :
    ∃ t', compact re t k = .ok t' ∧ TWF t' ∧ TTyped ty t' ∧ (∀ n, content t' n = content t n) ∧
      t'.nextOff = t.nextOff ∧ t'.buffer = t.buffer := by
  unfold compact
  split
  · exact ⟨t, rfl, hwf, hty, fun _ => rfl, rfl, rfl⟩
  · rename_i hk
    have hk' : 0 < k ∧ k ≤ t.parts.length := by omega
    cases holds : t.parts.drop (t.parts.length - k) with
    | nil => exact ⟨t, by simp, hwf, hty, fun _ => rfl, rfl, rfl⟩
    | cons first olds' =>
      have hmem : ∀ p ∈ first :: olds', p ∈ t.parts := by
        intro p hp; rw [← holds] at hp; exact List.mem_of_mem_drop hp
      have hokp : ∀ p ∈ first :: olds', PartOk p := fun p hp => hwf.partsOk p (hmem p hp)
      have htyp : ∀ p ∈ first :: olds', PartTyped ty p := fun p hp => hty.partsT p (hmem p hp)
      have hreN : ∀ n ∈ t.colNames, re ((first :: olds').map fun p => (p.len, lookup n p.cols))
          = idReenc ((first :: olds').map fun p => (p.len, lookup n p.cols)) := by
        intro n _
        obtain ⟨h1, h2⟩ := reencIn_ok ty (first :: olds') hokp htyp hty.kinds n
        exact hre _ h1 h2
      simp only [rebuildCols_id re (first :: olds') t.colNames hreN]
      refine ⟨_, rfl, ?_, ?_, ?_, rfl, rfl⟩
      · refine ⟨hwf.frozenEmpty, hwf.bufOk, ?_, ?_, hwf.namesBuf⟩
        · intro p hp
          simp only [List.mem_append, List.mem_singleton] at hp
          cases hp with
          | inl h => exact hwf.partsOk p (List.mem_of_mem_take h)
          | inr h =>
            subst h
            intro n cs hl
            simp only [lookup_map] at hl
            split at hl
            · cases hl
              -- length of the concatenation = sum of the partition lengths
              have : ∀ (ps : List Part), (∀ p ∈ ps, PartOk p) →
                  (ps.flatMap (partCol · n)).length = (ps.map (·.len)).sum := by
                intro ps hps
                induction ps with
                | nil => rfl
                | cons q qs ih =>
                  simp only [List.flatMap_cons, List.length_append, List.map_cons, List.sum_cons]
                  rw [ih (fun x hx => hps x (by simp [hx]))]
                  congr 1
                  unfold partCol orNulls
                  cases hq : lookup n q.cols with
                  | none => simp
                  | some c => exact hps q (by simp) n c hq
              exact this _ hokp
            · cases hl
        · intro p hp n hn
          simp only [List.mem_append, List.mem_singleton] at hp
          cases hp with
          | inl h => exact hwf.namesParts p (List.mem_of_mem_take h) n hn
          | inr h =>
            subst h
            simp only [lookup_map] at hn
            split at hn
            · assumption
            · cases hn
      · refine ⟨hty.kinds, ?_, hty.bufT⟩
        intro p hp
        simp only [List.mem_append, List.mem_singleton] at hp
        cases hp with
        | inl h => exact hty.partsT p (List.mem_of_mem_take h)
        | inr h =>
          subst h
          intro n cs hl
          simp only [lookup_map] at hl
          split at hl
          · cases hl
            apply uniform_flatMap
            intro q hq
            exact uniform_orNulls q.len _ (fun cs hcs => htyp q hq n cs hcs)
          · cases hl
      · intro n
        simp only [content, List.flatMap_append, List.flatMap_cons, List.flatMap_nil, List.append_nil]
        congr 2
        have hsplit : t.parts = t.parts.take (t.parts.length - k) ++ (first :: olds') := by
          rw [← holds, List.take_append_drop]
        conv => rhs; rw [hsplit]
        simp only [List.flatMap_append]
        congr 1
        simp only [partCol, lookup_map]
        split
        · rfl
        · rename_i hn
          -- a name outside `colNames` is stored nowhere: NULLs before, NULLs after
          have : ∀ p ∈ first :: olds', orNulls p.len (lookup n p.cols) = List.replicate p.len .null := by
            intro p hp
            cases hl : lookup n p.cols with
            | none => rfl
            | some cs => exact absurd (hwf.namesParts p (hmem p hp) n (by simp [hl])) hn
          simp only [orNulls]
          rw [← flatMap_replicate_null (first :: olds') (·.len)]
          exact (flatMap_congr' this).symm

/-! ### the other steps -/

theorem lookup_isSome_of_mem {α : Type} (n : Name) (l : List (Name × α)) (h : n ∈ l.map (·.1)) :
    (lookup n l).isSome = true := by
  induction l with
  | nil => simp at h
  | cons x xs ih =>
    obtain ⟨m, a⟩ := x
    simp only [lookup]
    by_cases hm : m = n
    · simp [hm]
    · simp only [hm, if_false]
      apply ih
      simp only [List.map_cons, List.mem_cons] at h
      cases h with
      | inl e => exact absurd e.symm hm
      | inr h' => exact h'

theorem ingest_twf (t : Table) (hwf : TWF t) (b : Batch) (hb : BatchOk b) : TWF (ingest t b) := by
  refine ⟨hwf.frozenEmpty, ?_, hwf.partsOk, ?_, ?_⟩
  · intro x hx
    simp only [ingest, List.mem_append, List.mem_singleton] at hx
    cases hx with
    | inl h => exact hwf.bufOk x h
    | inr h => subst h; exact hb
  · intro p hp n hn
    exact mem_addNames_left _ _ _ (hwf.namesParts p hp n hn)
  · intro x hx n hn
    simp only [ingest, List.mem_append, List.mem_singleton] at hx
    cases hx with
    | inl h => exact mem_addNames_left _ _ _ (hwf.namesBuf x h n hn)
    | inr h => subst h; exact mem_addNames_right _ _ _ (lookup_isSome_mem n _ hn)

theorem ingest_content (t : Table) (b : Batch) (n : Name) :
    content (ingest t b) n = content t n ++ batchCol b n := by
  simp [content, ingest, batchesCol, List.flatMap_append]

theorem ingest_typed (ty : Name → Kind) (t : Table) (hty : TTyped ty t) (b : Batch) (hb : BatchTyped ty b) :
    TTyped ty (ingest t b) := by
  refine ⟨hty.kinds, hty.partsT, ?_⟩
  intro x hx
  simp only [ingest, List.mem_append, List.mem_singleton] at hx
  cases hx with
  | inl h => exact hty.bufT x h
  | inr h => subst h; exact hb

theorem batchesCol_uniform (ty : Name → Kind) (bs : List Batch) (h : ∀ b ∈ bs, BatchTyped ty b) (n : Name) :
    Uniform (ty n) (batchesCol bs n) := by
  apply uniform_flatMap
  intro b hb
  exact uniform_orNulls b.len _ (fun cs hcs => h b hb n cs hcs)

theorem batchesCol_nil_of_len (bs : List Batch) (h : ∀ b ∈ bs, BatchOk b) (h0 : batchesLen bs = 0) (n : Name) :
    batchesCol bs n = [] := by
  have := batchesCol_length bs h n
  rw [h0] at this
  exact List.eq_nil_of_length_eq_zero this

/-- freeze + batch: the buffered rows become a partition (or nothing happens when the buffer is empty) -/
theorem freeze_batch_content (ty : Name → Kind) (t : Table) (hwf : TWF t) (hty : TTyped ty t) :
    ∃ t1, freeze t = .ok t1 ∧ TWF (batch t1) ∧ TTyped ty (batch t1) ∧ (∀ n, content (batch t1) n = content t n) ∧
      (batch t1).buffer = [] := by
  have hf : batchesLen t.frozen = 0 := by rw [hwf.frozenEmpty]; rfl
  refine ⟨{ t with frozen := t.buffer, buffer := [] }, by simp [freeze, hf], ?_, ?_, ?_, ?_⟩
  · unfold batch
    split
    · exact ⟨rfl, by simp, hwf.partsOk, hwf.namesParts, by simp⟩
    · refine ⟨rfl, by simp, ?_, ?_, by simp⟩
      · intro p hp
        simp only [List.mem_append, List.mem_singleton] at hp
        cases hp with
        | inl h => exact hwf.partsOk p h
        | inr h =>
          subst h
          intro n cs hl
          simp only [lookup_map] at hl
          split at hl
          · cases hl; exact batchesCol_length t.buffer hwf.bufOk n
          · cases hl
      · intro p hp n hn
        simp only [List.mem_append, List.mem_singleton] at hp
        cases hp with
        | inl h => exact hwf.namesParts p h n hn
        | inr h =>
          subst h
          simp only [lookup_map] at hn
          split at hn
          · rename_i hmem
            simp only [batchesNames, List.mem_flatMap] at hmem
            obtain ⟨b, hb, hnb⟩ := hmem
            exact hwf.namesBuf b hb n (lookup_isSome_of_mem n b.cols hnb)
          · cases hn
  · unfold batch
    split
    · exact ⟨hty.kinds, hty.partsT, by simp⟩
    · refine ⟨hty.kinds, ?_, by simp⟩
      intro p hp
      simp only [List.mem_append, List.mem_singleton] at hp
      cases hp with
      | inl h => exact hty.partsT p h
      | inr h =>
        subst h
        intro n cs hl
        simp only [lookup_map] at hl
        split at hl
        · cases hl; exact batchesCol_uniform ty t.buffer hty.bufT n
        · cases hl
  · intro n
    unfold batch
    split
    · rename_i h0
      simp only [content, hwf.frozenEmpty, batchesCol, List.flatMap_nil, List.append_nil]
      have := batchesCol_nil_of_len t.buffer hwf.bufOk h0 n
      simp only [batchesCol] at this
      simp [this]
    · simp only [content, hwf.frozenEmpty, batchesCol, List.flatMap_nil, List.append_nil,
        List.flatMap_append, List.flatMap_cons]
      have := partCol_batch t.buffer t.nextId t.nextOff n
      simp only [batchesCol] at this
      rw [this]
  · unfold batch
    split <;> rfl

theorem flush_content (re : Reenc) (hre : ReId re) (ty : Name → Kind) (t : Table) (hwf : TWF t) (hty : TTyped ty t)
    (k : Nat) :
    ∃ t', flush re t k = .ok t' ∧ TWF t' ∧ TTyped ty t' ∧ (∀ n, content t' n = content t n) := by
  obtain ⟨t1, h1, h2, h2t, h3, _⟩ := freeze_batch_content ty t hwf hty
  obtain ⟨t', g1, g2, g2t, g3, _, _⟩ := compact_content re hre ty (batch t1) h2 h2t k
  exact ⟨t', by simp [flush, h1, g1], g2, g2t, fun n => by rw [g3, h3]⟩

theorem nonresident_typed (ty : Name → Kind) (ps : List Part) (h : ∀ p ∈ ps, PartTyped ty p) :
    ∀ p ∈ ps.map (fun p => { p with resident := false }), PartTyped ty p := by
  intro p hp
  obtain ⟨q, hq, rfl⟩ := List.mem_map.mp hp
  exact h q hq

theorem evict_typed (ty : Name → Kind) (t : Table) (hty : TTyped ty t) : TTyped ty (evict t) :=
  ⟨hty.kinds, nonresident_typed ty t.parts hty.partsT, hty.bufT⟩

theorem restart_typed (ty : Name → Kind) (t : Table) (hwf : TWF t) (hty : TTyped ty t) : TTyped ty (restart t) := by
  refine ⟨hty.kinds, nonresident_typed ty t.parts hty.partsT, ?_⟩
  have hb : (restart t).buffer = t.buffer := by simp [restart, hwf.frozenEmpty]
  rw [hb]; exact hty.bufT

theorem evict_twf (t : Table) (hwf : TWF t) : TWF (evict t) := by
  refine ⟨hwf.frozenEmpty, hwf.bufOk, ?_, ?_, hwf.namesBuf⟩
  · intro p hp
    simp only [evict, List.mem_map] at hp
    obtain ⟨q, hq, rfl⟩ := hp
    exact hwf.partsOk q hq
  · intro p hp
    simp only [evict, List.mem_map] at hp
    obtain ⟨q, hq, rfl⟩ := hp
    exact hwf.namesParts q hq

theorem parts_nonresident_content (ps : List Part) (n : Name) :
    (ps.map fun p => { p with resident := false }).flatMap (partCol · n) = ps.flatMap (partCol · n) := by
  induction ps with
  | nil => rfl
  | cons p ps ih => simp only [List.map_cons, List.flatMap_cons, ih]; rfl

theorem evict_content (t : Table) (n : Name) : content (evict t) n = content t n := by
  simp only [content, evict, parts_nonresident_content]

theorem restart_twf (t : Table) (hwf : TWF t) : TWF (restart t) := by
  have hb : (restart t).buffer = t.buffer := by simp [restart, hwf.frozenEmpty]
  refine ⟨rfl, by rw [hb]; exact hwf.bufOk, ?_, ?_, by rw [hb]; exact hwf.namesBuf⟩
  · intro p hp
    simp only [restart, List.mem_map] at hp
    obtain ⟨q, hq, rfl⟩ := hp
    exact hwf.partsOk q hq
  · intro p hp
    simp only [restart, List.mem_map] at hp
    obtain ⟨q, hq, rfl⟩ := hp
    exact hwf.namesParts q hq

theorem restart_content (t : Table) (hwf : TWF t) (n : Name) : content (restart t) n = content t n := by
  simp only [content, restart, parts_nonresident_content, hwf.frozenEmpty, batchesCol, List.nil_append,
    List.flatMap_nil, List.append_nil]

/-- the batches of a history are well formed: every supplied column has one cell per row and holds NULLs and values
    of the type the schema gives to its name -/
def StepOk (ty : Name → Kind) : Step → Prop
  | .ingest b => BatchOk b ∧ BatchTyped ty b
  | _ => True

theorem step_content (re : Reenc) (hre : ReId re) (ty : Name → Kind) (t : Table) (hwf : TWF t) (hty : TTyped ty t)
    (s : Step) (hs : StepOk ty s) :
    ∃ t', step re t s = .ok t' ∧ TWF t' ∧ TTyped ty t' ∧
      ∀ n, content t' n = content t n ++ batchesCol (ingested [s]) n := by
  cases s with
  | ingest b =>
    refine ⟨ingest t b, rfl, ingest_twf t hwf b hs.1, ingest_typed ty t hty b hs.2, fun n => ?_⟩
    simp [ingest_content, ingested, batchesCol]
  | flush k =>
    obtain ⟨t', h1, h2, h2t, h3⟩ := flush_content re hre ty t hwf hty k
    exact ⟨t', h1, h2, h2t, fun n => by simp [h3, ingested, batchesCol]⟩
  | evict =>
    exact ⟨evict t, rfl, evict_twf t hwf, evict_typed ty t hty, fun n => by simp [evict_content, ingested, batchesCol]⟩
  | restart =>
    exact ⟨restart t, rfl, restart_twf t hwf, restart_typed ty t hwf hty,
      fun n => by simp [restart_content t hwf, ingested, batchesCol]⟩

theorem ingested_cons (s : Step) (ss : List Step) : ingested (s :: ss) = ingested [s] ++ ingested ss := by
  cases s <;> simp [ingested]

theorem run_content (re : Reenc) (hre : ReId re) (ty : Name → Kind) (steps : List Step) :
    ∀ (t : Table), TWF t → TTyped ty t → (∀ s ∈ steps, StepOk ty s) →
    ∃ t', run re t steps = .ok t' ∧ TWF t' ∧ TTyped ty t' ∧
      ∀ n, content t' n = content t n ++ batchesCol (ingested steps) n := by
  induction steps with
  | nil => intro t hwf hty _; exact ⟨t, rfl, hwf, hty, fun n => by simp [ingested, batchesCol]⟩
  | cons s ss ih =>
    intro t hwf hty hs
    obtain ⟨t1, h1, h2, h2t, h3⟩ := step_content re hre ty t hwf hty s (hs s (by simp))
    obtain ⟨t', g1, g2, g2t, g3⟩ := ih t1 h2 h2t (fun x hx => hs x (by simp [hx]))
    refine ⟨t', by simp [run, h1, g1], g2, g2t, fun n => ?_⟩
    rw [g3, h3, ingested_cons s ss]
    simp [batchesCol, List.flatMap_append]

end LM.C07M
