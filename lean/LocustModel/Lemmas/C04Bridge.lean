import LocustModel.Lemmas.C04Groups
import LocustModel.Lemmas.C04Spec
/-
  C04 helper lemmas: the bridge between the specification `specGroupBy` (on `Val` rows) and the exact model
  object `xgroup` (raw integer keys), for `SELECT key, AGG(input)` over integer columns.
-/
namespace LM.C04L
open LM LM.Merge LM.Group LM.GroupMerge LM.Sql LM.GroupSpec

/-- the table row of a (raw key, input) pair: key column 0 decoded with `base`, input column 1 -/
def vrow (base : Int) (p : Nat × Int) : Row := [Val.int ((p.1 : Int) + base), Val.int p.2]

def toFn : Agg → AggFn
  | .sum => .sum | .count => .count | .max => .max | .min => .min

def valOf : Option Int → Val
  | none => .null
  | some v => .int v

theorem keyOf_vrow (base : Int) (p : Nat × Int) : keyOf [0] (vrow base p) = [Val.int ((p.1 : Int) + base)] := rfl

theorem filter_vrow (base : Int) (rows : List (Nat × Int)) (j : Nat) :
    (rows.map (vrow base)).filter (fun r => keyOf [0] r = [Val.int ((j : Int) + base)]) =
      (rows.filter (fun p => p.1 = j)).map (vrow base) := by
  induction rows with
  | nil => rfl
  | cons p t ih =>
    simp only [List.map_cons, List.filter_cons, keyOf_vrow]
    by_cases h : p.1 = j
    · simp only [h, decide_true, if_true, List.map_cons, ih]
    · have : ¬ ([Val.int ((p.1 : Int) + base)] = [Val.int ((j : Int) + base)]) := by
        intro e; simp at e; omega
      simp only [this, h, decide_false, Bool.false_eq_true, if_false, ih]

theorem ints_map (xs : List Int) : ints? (xs.map Val.int) = some xs := by
  induction xs with
  | nil => rfl
  | cons x t ih => simp [ints?, ih]

theorem colCells_vrow (base : Int) (ps : List (Nat × Int)) :
    (colCells 1 (ps.map (vrow base))).filter (· ≠ Val.null) = (ps.map (·.2)).map Val.int := by
  induction ps with
  | nil => rfl
  | cons p t ih =>
    have hc : colCells 1 ((p :: t).map (vrow base)) = Val.int p.2 :: colCells 1 (t.map (vrow base)) := rfl
    rw [hc, List.filter_cons]
    have : (decide (Val.int p.2 ≠ Val.null)) = true := by simp
    rw [this]
    simp only [if_true, List.map_cons, ih]

theorem foldl_min_eq (xs : List Int) (x : Int) :
    xs.foldl (fun a b => if b < a then b else a) x = xs.foldl minStep x := by
  induction xs generalizing x with
  | nil => rfl
  | cons y t ih =>
    simp only [List.foldl_cons]
    have : (if y < x then y else x) = minStep x y := by unfold minStep; split <;> split <;> omega
    rw [this, ih]

theorem foldl_max_eq (xs : List Int) (x : Int) :
    xs.foldl (fun a b => if b > a then b else a) x = xs.foldl maxStep x := by
  induction xs generalizing x with
  | nil => rfl
  | cons y t ih =>
    simp only [List.foldl_cons]
    have : (if y > x then y else x) = maxStep x y := by unfold maxStep; split <;> split <;> omega
    rw [this, ih]

/-- every aggregate of the table fits i64 -/
def InFit (op : Agg) (_m : Nat) (rows : List (Nat × Int)) : Prop :=
  ∀ k v, aggExact op (groupVals k rows) = some v → inI64 v

/-- the specification's aggregate of a (non-empty) group of `vrow`s is the exact aggregate of its inputs -/
theorem aggCell_vrow (op : Agg) (base : Int) (ps : List (Nat × Int)) (hne : ps ≠ [])
    (hfit : ∀ v, aggExact op (ps.map (·.2)) = some v → inI64 v) :
    aggCell ⟨toFn op, 1⟩ (ps.map (vrow base)) = .ok (valOf (aggExact op (ps.map (·.2)))) := by
  cases hx : ps.map (·.2) with
  | nil => simp at hx; exact absurd hx hne
  | cons x xs =>
    cases op
    · -- sum
      have hfit' := hfit _ (by rw [hx]; rfl)
      have e : (x :: xs).foldl (· + ·) 0 = xs.foldl (· + ·) x := by simp
      simp only [aggCell, toFn, colCells_vrow, hx, ints_map, aggInts, List.isEmpty_cons, Bool.false_eq_true,
        if_false, aggExact, valOf]
      simp only at hfit'
      rw [e]
      simp [hfit']
    · -- count
      simp only [aggCell, toFn, colCells_vrow, hx, aggExact, valOf]
      simp
    · -- max
      simp only [aggCell, toFn, colCells_vrow, hx, ints_map, aggInts, aggExact, valOf, foldl_max_eq]
    · -- min
      simp only [aggCell, toFn, colCells_vrow, hx, ints_map, aggInts, aggExact, valOf, foldl_min_eq]

theorem filterRows_none (i2f : Int → Nat) (rows : List Row) : filterRows i2f none rows = .ok rows := by
  induction rows with
  | nil => rfl
  | cons r t ih => simp [filterRows, keep, ih]

/-- `rowsOf` succeeds with the list of the groups' rows when every group's row is defined -/
theorem rowsOf_ok (sel : List SelItem) (G : Groups) (f : List Val × List Row → Row)
    (h : ∀ g ∈ G, rowOf sel g.2 = .ok (f g)) : rowsOf sel G = .ok (G.map f) := by
  induction G with
  | nil => rfl
  | cons g t ih =>
    obtain ⟨k, rs⟩ := g
    have h1 := h (k, rs) (by simp)
    have h2 := ih (fun g hg => h g (by simp [hg]))
    simp only at h1
    simp [rowsOf, h1, h2]

/-- the output row of the group with raw key `j` -/
def specRowOf (op : Agg) (base : Int) (rows : List (Nat × Int)) (j : Nat) : Row :=
  [Val.int ((j : Int) + base), valOf (aggExact op (groupVals j rows))]

/-- **The specification and the exact model agree group by group.**  For a table whose rows are
    (decoded key = raw key + base, input), `specGroupBy` of `SELECT key, AGG(input)` succeeds and its rows are
    exactly the rows `[k + base, a]` for the entries `(k, a)` of `xgroup`. -/
theorem spec_rows_xgroup (i2f : Int → Nat) (op : Agg) (m : Nat) (base : Int) (rows : List (Nat × Int))
    (h : ∀ p ∈ rows, p.1 ≤ m) (hfit : InFit op m rows) :
    ∃ out, specGroupBy i2f [.key 0, .agg ⟨toFn op, 1⟩] none (rows.map (vrow base)) = .ok out ∧
      ∀ row, row ∈ out ↔ ∃ (j : Nat) (a : Option Int), ((j : Int), a) ∈ xgroup op m rows ∧
        row = [Val.int ((j : Int) + base), valOf a] := by
  have hinv := groupRows_inv [0] (rows.map (vrow base))
  obtain ⟨_, hcomp, hexact⟩ := hinv
  -- every group is the group of some raw key j that occurs, with exactly the rows of j
  have hgroup : ∀ g ∈ groupRows [0] (rows.map (vrow base)), ∃ j : Nat, j ∈ rows.map (·.1) ∧
      g.1 = [Val.int ((j : Int) + base)] ∧ g.2 = (rows.filter (fun p => p.1 = j)).map (vrow base) := by
    intro g hg
    obtain ⟨he, hne⟩ := hexact g hg
    cases hg2 : g.2 with
    | nil => exact absurd hg2 hne
    | cons r rest =>
      have hr : r ∈ g.2 := by rw [hg2]; simp
      rw [he, List.mem_filter] at hr
      obtain ⟨hrm, hrk⟩ := hr
      simp only [List.mem_map] at hrm
      obtain ⟨p, hp, rfl⟩ := hrm
      have hrk' : [Val.int ((p.1 : Int) + base)] = g.1 := by
        have := of_decide_eq_true hrk
        rwa [keyOf_vrow] at this
      refine ⟨p.1, by simp only [List.mem_map]; exact ⟨p, hp, rfl⟩, hrk'.symm, ?_⟩
      rw [← hg2, he, ← hrk', filter_vrow]
  -- the row of each group
  have hrow : ∀ g ∈ groupRows [0] (rows.map (vrow base)), ∃ j : Nat, j ∈ rows.map (·.1) ∧
      g.1 = [Val.int ((j : Int) + base)] ∧
      rowOf [.key 0, .agg ⟨toFn op, 1⟩] g.2 = .ok (specRowOf op base rows j) := by
    intro g hg
    obtain ⟨j, hj, hk, hrows⟩ := hgroup g hg
    refine ⟨j, hj, hk, ?_⟩
    have hne : rows.filter (fun p => p.1 = j) ≠ [] := by
      simp only [List.mem_map] at hj
      obtain ⟨p, hp, hpj⟩ := hj
      intro e
      have : p ∈ rows.filter (fun p => p.1 = j) := by simp [List.mem_filter, hp, hpj]
      rw [e] at this; simp at this
    have hagg := aggCell_vrow op base (rows.filter (fun p => p.1 = j)) hne (by
      intro v hv; exact hfit j v (by simpa [groupVals] using hv))
    rw [hrows]
    cases hf : rows.filter (fun p => p.1 = j) with
    | nil => exact absurd hf hne
    | cons p t =>
      have hp1 : p.1 = j := by
        have : p ∈ rows.filter (fun p => p.1 = j) := by rw [hf]; simp
        have := (List.mem_filter.mp this).2
        simpa using this
      rw [hf] at hagg
      have hcell : aggCell ⟨toFn op, 1⟩ (vrow base p :: t.map (vrow base)) =
          .ok (valOf (aggExact op (groupVals j rows))) := by
        simp only [List.map_cons] at hagg
        rw [hagg]
        simp [groupVals, hf]
      simp only [rowOf, List.map_cons, hcell, specRowOf]
      simp [vrow, hp1]
  -- choose the row function
  let f : List Val × List Row → Row := fun g =>
    match g.1 with
    | [Val.int k] => specRowOf op base rows (k - base).toNat
    | _ => []
  have hf : ∀ g ∈ groupRows [0] (rows.map (vrow base)), rowOf [.key 0, .agg ⟨toFn op, 1⟩] g.2 = .ok (f g) := by
    intro g hg
    obtain ⟨j, _, hk, hr⟩ := hrow g hg
    have : f g = specRowOf op base rows j := by
      simp only [f, hk]
      congr 1
      omega
    rw [this]; exact hr
  refine ⟨(groupRows [0] (rows.map (vrow base))).map f, ?_, ?_⟩
  · simp only [specGroupBy, filterRows_none]
    exact rowsOf_ok _ _ f hf
  · intro row
    simp only [List.mem_map]
    constructor
    · rintro ⟨g, hg, rfl⟩
      obtain ⟨j, hj, hk, _⟩ := hrow g hg
      have e : ((j : Int) + base - base).toNat = j := by omega
      have hfg : f g = specRowOf op base rows j := by
        simp only [f, hk, e]
      refine ⟨j, aggExact op (groupVals j rows), ?_, by rw [hfg]; rfl⟩
      simp only [xgroup, List.mem_map, List.mem_filter, List.mem_range]
      have hjm : j ≤ m := by
        simp only [List.mem_map] at hj
        obtain ⟨p, hp, rfl⟩ := hj; exact h p hp
      exact ⟨j, ⟨by omega, by simpa using hj⟩, rfl⟩
    · rintro ⟨j, a, hx, rfl⟩
      simp only [xgroup, List.mem_map, List.mem_filter, List.mem_range] at hx
      obtain ⟨j', ⟨_, hj'⟩, he⟩ := hx
      simp only [Prod.mk.injEq] at he
      obtain ⟨hjj, ha⟩ := he
      have hjj' : j' = j := by omega
      subst hjj'
      have hj : j' ∈ rows.map (·.1) := by simpa using hj'
      -- the group of j' exists
      simp only [List.mem_map] at hj
      obtain ⟨p, hp, hpj⟩ := hj
      have hkm := hcomp (vrow base p) (by simp only [List.mem_map]; exact ⟨p, hp, rfl⟩)
      simp only [List.mem_map] at hkm
      obtain ⟨g, hg, hgk⟩ := hkm
      refine ⟨g, hg, ?_⟩
      have hk : g.1 = [Val.int ((j' : Int) + base)] := by rw [hgk, keyOf_vrow, hpj]
      have e : ((j' : Int) + base - base).toNat = j' := by omega
      simp only [f, hk, specRowOf, ← ha, e]
end LM.C04L
