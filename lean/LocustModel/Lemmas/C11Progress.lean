import LocustModel.Lemmas.C11Sched
/-
  C11 helper lemmas: a termination measure for the worker pool (every `await` / `part` step that does anything
  strictly decreases it) and the invariant "a task that nobody references any more has been answered".
-/
namespace LM.Sched

/-! ### sums over lists of naturals -/

theorem sum_map_le {α : Type} (f g : α → Nat) (l : List α) (h : ∀ x ∈ l, f x ≤ g x) :
    (l.map f).sum ≤ (l.map g).sum := by
  induction l with
  | nil => simp
  | cons a l ih =>
    have h1 := h a (by simp)
    have h2 := ih (fun x hx => h x (by simp [hx]))
    simp; omega

theorem sum_map_lt {α : Type} (f g : α → Nat) (l : List α) (h : ∀ x ∈ l, f x ≤ g x)
    (x : α) (hx : x ∈ l) (hlt : f x < g x) : (l.map f).sum < (l.map g).sum := by
  induction l with
  | nil => simp at hx
  | cons a l ih =>
    have h1 := h a (by simp)
    have h2 := sum_map_le f g l (fun y hy => h y (by simp [hy]))
    simp at hx
    rcases hx with rfl | hx
    · simp; omega
    · have := ih (fun y hy => h y (by simp [hy])) hx
      simp; omega

theorem sum_map_eraseIdx {α : Type} (f : α → Nat) (l : List α) (i : Nat) (h : i < l.length) :
    ((l.eraseIdx i).map f).sum + f l[i] = (l.map f).sum := by
  induction l generalizing i with
  | nil => simp at h
  | cons a l ih =>
    cases i with
    | zero => simp; omega
    | succ i =>
      have := ih i (by simpa using h)
      simp [List.eraseIdx]; omega

/-! ### the measure -/

theorem remOf_le_lenOf (ts : List Task) (id : Nat) : remOf ts id ≤ lenOf ts id := by
  unfold remOf lenOf; split <;> omega

/-- `ts'` is `ts` with some tasks advanced: same partitions, no more work left than before -/
def Shrinks (ts ts' : List Task) : Prop :=
  ts'.length = ts.length ∧ ∀ id, lenOf ts' id = lenOf ts id ∧ remOf ts' id ≤ remOf ts id

theorem Shrinks.refl (ts : List Task) : Shrinks ts ts := ⟨rfl, fun _ => ⟨rfl, Nat.le_refl _⟩⟩

theorem Shrinks.trans {a b c : List Task} (h1 : Shrinks a b) (h2 : Shrinks b c) : Shrinks a c :=
  ⟨h2.1.trans h1.1, fun id => ⟨(h2.2 id).1.trans (h1.2 id).1, Nat.le_trans (h2.2 id).2 (h1.2 id).2⟩⟩

theorem shrinks_set {ts : List Task} {id : Nat} {t t' : Task} (h : ts[id]? = some t)
    (hb : t'.bodies = t.bodies) (hn : t'.bodies.length - t'.next ≤ t.bodies.length - t.next) :
    Shrinks ts (setTask ts id t') := by
  have hid : id < ts.length := (List.getElem?_eq_some_iff.mp h).1
  refine ⟨by simp [setTask], fun j => ?_⟩
  unfold lenOf remOf setTask
  by_cases hj : id = j
  · subst hj
    have ht : ts[id] = t := (List.getElem?_eq_some_iff.mp h).2
    have hl : t'.bodies.length = t.bodies.length := by rw [hb]
    simp [hid, hb, ht]; omega
  · simp [hj]

theorem shrinks_release (ts : List Task) (b q : List (Nat × Nat)) (id : Nat) : Shrinks ts (release ts b q id) := by
  unfold release
  split
  · exact Shrinks.refl _
  · split
    · exact Shrinks.refl _
    · rename_i t h
      exact shrinks_set h (by simp [Task.orphan]) (by simp [Task.orphan])

theorem qSum_shrinks {ts ts' : List Task} (h : Shrinks ts ts') (q : List (Nat × Nat)) : qSum ts' q = qSum ts q := by
  unfold qSum
  congr 1
  apply List.map_congr_left
  intro e _
  simp [qW, (h.2 e.1).1]

theorem bSum_shrinks {ts ts' : List Task} (h : Shrinks ts ts') (b : List (Nat × Nat)) : bSum ts' b ≤ bSum ts b := by
  unfold bSum
  apply sum_map_le
  intro e _
  have := (h.2 e.1).2
  simp [bW]; omega

theorem qW_pos (ts : List Task) (e : Nat × Nat) : 2 ≤ qW ts e := by
  unfold qW
  have : 1 * (2 + lenOf ts e.1) ≤ (e.2 + 1) * (2 + lenOf ts e.1) := Nat.mul_le_mul_right _ (by omega)
  omega

/-- what `popLoop` does to the measure -/
theorem popLoop_measure (busy : List (Nat × Nat)) (ts : List Task) (q : List (Nat × Nat))
    (r : Option Nat) (q' : List (Nat × Nat)) (ts' : List Task) (hp : popLoop busy ts q = (r, q', ts')) :
    Shrinks ts ts' ∧ (r = none → q' = []) ∧
    (∀ id, r = some id → qSum ts q' + (2 + lenOf ts id) ≤ qSum ts q) := by
  fun_induction popLoop busy ts q generalizing r q' ts' with
  | case1 ts =>
    simp at hp; obtain ⟨rfl, rfl, rfl⟩ := hp
    exact ⟨Shrinks.refl _, fun _ => rfl, fun _ h => by simp at h⟩
  | case2 ts id par q h ih =>
    obtain ⟨h1, h2, h3⟩ := ih r q' ts' hp
    refine ⟨h1, h2, fun id' hr => ?_⟩
    have := h3 id' hr
    simp [qSum] at this ⊢; omega
  | case3 ts id par q t h hc ih =>
    have hs := shrinks_release ts busy q id
    obtain ⟨h1, h2, h3⟩ := ih r q' ts' hp
    refine ⟨hs.trans h1, h2, fun id' hr => ?_⟩
    have := h3 id' hr
    rw [qSum_shrinks hs, qSum_shrinks hs, (hs.2 id').1] at this
    simp [qSum] at this ⊢; omega
  | case4 ts id par q t h hc hpar =>
    simp at hp; obtain ⟨rfl, rfl, rfl⟩ := hp
    refine ⟨Shrinks.refl _, fun h => by simp at h, fun id' hr => ?_⟩
    simp at hr; subst hr
    simp only [qSum, List.map_cons, List.sum_cons, qW]
    have e : par - 1 + 1 = par := by omega
    rw [e]
    have : (par + 1) * (2 + lenOf ts id) = par * (2 + lenOf ts id) + (2 + lenOf ts id) := by
      rw [Nat.add_mul]; omega
    omega
  | case5 ts id par q t h hc hpar =>
    simp at hp; obtain ⟨rfl, rfl, rfl⟩ := hp
    refine ⟨Shrinks.refl _, fun h => by simp at h, fun id' hr => ?_⟩
    simp at hr; subst hr
    simp only [qSum, List.map_cons, List.sum_cons, qW]
    have : 1 * (2 + lenOf ts id) ≤ (par + 1) * (2 + lenOf ts id) := Nat.mul_le_mul_right _ (by omega)
    omega

theorem await_measure (p : Pool) (hi : p.idle ≠ 0) (hq : p.queue ≠ []) : measure (await p) < measure p := by
  unfold await
  simp only [hi, if_false]
  rcases hpl : popLoop p.busy p.tasks p.queue with ⟨r, q', ts'⟩
  obtain ⟨hs, hnone, hsome⟩ := popLoop_measure _ _ _ _ _ _ hpl
  have hb := bSum_shrinks hs p.busy
  cases r with
  | none =>
    have : q' = [] := hnone rfl
    subst this
    have hpos : 2 ≤ qSum p.tasks p.queue := by
      cases hq' : p.queue with
      | nil => exact absurd hq' hq
      | cons e q => have := qW_pos p.tasks e; simp [qSum]; omega
    simp [measure, qSum] at *; omega
  | some id =>
    have h1 := hsome id rfl
    have h2 := qSum_shrinks hs q'
    have h3 := (hs.2 id).2
    have h4 := remOf_le_lenOf p.tasks id
    simp only [measure, bSum, List.map_append, List.sum_append, List.map_cons, List.map_nil, List.sum_cons, List.sum_nil, bW] at *
    omega

theorem map_set_same {α β : Type} (f : α → β) (l : List α) (i : Nat) (a : α) (h : i < l.length) (hf : f a = f l[i]) :
    (l.set i a).map f = l.map f := by
  rw [List.map_set, hf]
  apply List.ext_getElem (by simp)
  intro j h1 h2
  by_cases hj : i = j
  · subst hj; simp
  · simp [hj]

theorem finish_measure (cfg : Cfg) (p : Pool) (i id : Nat) (t : Task) (f : Bool) (hi : i < p.busy.length)
    (hs : Shrinks p.tasks (setTask p.tasks id t)) : measure (finish cfg p i id t f) < measure p := by
  have hs2 := hs.trans (shrinks_release (setTask p.tasks id t) (p.busy.eraseIdx i) p.queue id)
  have hq := qSum_shrinks hs2 p.queue
  have hb := bSum_shrinks hs2 (p.busy.eraseIdx i)
  have he := sum_map_eraseIdx (bW p.tasks) p.busy i hi
  have hpos : 1 ≤ bW p.tasks p.busy[i] := by simp [bW]
  unfold finish
  split <;> simp only [measure, bSum] at * <;> omega

theorem pushResults_shape (t : Task) (c : Nat) :
    (pushResults t c).1.bodies = t.bodies ∧
    (pushResults t c).1.bodies.length - (pushResults t c).1.next ≤ t.bodies.length - t.next := by
  unfold pushResults
  split
  · simp
  · split
    · simp
    · split
      · simp
      · simp only []
        split
        · split <;> simp [Task.send]
        · simp

/-- ids in the queue and in `busy` denote existing tasks -/
def WF (p : Pool) : Prop := (∀ e ∈ p.queue, e.1 < p.tasks.length) ∧ (∀ e ∈ p.busy, e.1 < p.tasks.length)

theorem part_measure (cfg : Cfg) (p : Pool) (i : Nat) (hw : WF p) (hi : i < p.busy.length) :
    measure (part cfg p i) < measure p := by
  unfold part
  have hbi : p.busy[i]? = some p.busy[i] := List.getElem?_eq_getElem hi
  rcases hbe : p.busy[i] with ⟨id, c⟩
  rw [hbe] at hbi
  simp only [hbi]
  have hid : id < p.tasks.length := by
    have := hw.2 p.busy[i] (List.getElem_mem hi); rw [hbe] at this; exact this
  have hti : p.tasks[id]? = some p.tasks[id] := List.getElem?_eq_getElem hid
  generalize p.tasks[id] = t0 at hti
  simp only [hti]
  split
  · -- loop ends
    rename_i hk
    have hsh := pushResults_shape { t0 with next := t0.next + 1 } c
    apply finish_measure _ _ _ _ _ _ hi
    apply shrinks_set hti hsh.1
    have := hsh.2
    simp at this ⊢; omega
  · rename_i hk
    have hlt : t0.next < t0.bodies.length := by
      have := (List.getElem?_eq_some_iff.mp hk).1; simpa using this
    split
    · apply finish_measure _ _ _ _ _ _ hi
      exact shrinks_set hti (by simp) (by simp; omega)
    · -- the worker goes on with the next partition
      have hs : Shrinks p.tasks (setTask p.tasks id { t0 with next := t0.next + 1 }) :=
        shrinks_set hti (by simp) (by simp; omega)
      have hq := qSum_shrinks hs p.queue
      have hm : (p.busy.set i (id, c + 1)).map (bW (setTask p.tasks id { t0 with next := t0.next + 1 })) =
          p.busy.map (bW (setTask p.tasks id { t0 with next := t0.next + 1 })) :=
        map_set_same _ _ _ _ hi (by rw [hbe]; simp [bW])
      have hlt2 : (p.busy.map (bW (setTask p.tasks id { t0 with next := t0.next + 1 }))).sum < (p.busy.map (bW p.tasks)).sum := by
        apply sum_map_lt _ _ _ (fun e _ => by have := (hs.2 e.1).2; simp [bW]; omega) p.busy[i] (List.getElem_mem hi)
        rw [hbe]
        have ht0 : p.tasks[id] = t0 := (List.getElem?_eq_some_iff.mp hti).2
        simp [bW, remOf, setTask, hid, ht0]
        omega
      simp only [measure, bSum] at *
      rw [hm]; omega
  · rename_i hk
    have hlt : t0.next < t0.bodies.length := by
      have := (List.getElem?_eq_some_iff.mp hk).1; simpa using this
    split
    · apply finish_measure _ _ _ _ _ _ hi
      exact shrinks_set hti (by simp) (by simp; omega)
    · split
      · apply finish_measure _ _ _ _ _ _ hi
        exact shrinks_set hti (by simp) (by simp; omega)
      · apply finish_measure _ _ _ _ _ _ hi
        exact shrinks_set hti (by simp [Task.send]) (by simp [Task.send])
  · rename_i hk
    apply finish_measure _ _ _ _ _ _ hi
    exact shrinks_set hti (by simp) (by simp; omega)

/-! ### every task that nobody references any more has been answered -/

def Answered (p : Pool) : Prop :=
  ∀ id t, p.tasks[id]? = some t → referenced p.busy p.queue id = true ∨ t.reply.isSome = true

def Inv (p : Pool) : Prop := WF p ∧ Answered p

theorem referenced_iff (b q : List (Nat × Nat)) (j : Nat) :
    referenced b q j = true ↔ (∃ e ∈ b, e.1 = j) ∨ (∃ e ∈ q, e.1 = j) := by
  simp [referenced, List.any_eq_true]

theorem orphan_answered (t : Task) : t.orphan.reply.isSome = true := by
  unfold Task.orphan; cases t.reply <;> simp

theorem release_answered (ts : List Task) (b q : List (Nat × Nat)) (id : Nat)
    (H : ∀ j t, ts[j]? = some t → j ≠ id → referenced b q j = true ∨ t.reply.isSome = true) :
    ∀ j t, (release ts b q id)[j]? = some t → referenced b q j = true ∨ t.reply.isSome = true := by
  intro j t h
  unfold release at h
  split at h
  · by_cases hj : j = id
    · subst hj; left; assumption
    · exact H j t h hj
  · split at h
    · rename_i hn
      by_cases hj : j = id
      · subst hj; rw [hn] at h; cases h
      · exact H j t h hj
    · rename_i t0 h0
      have hid : id < ts.length := (List.getElem?_eq_some_iff.mp h0).1
      by_cases hj : id = j
      · subst hj
        simp [setTask, hid] at h
        subst h; right; exact orphan_answered t0
      · simp [setTask, List.getElem?_set, hj] at h
        exact H j t h (fun e => hj e.symm)

theorem release_length (ts : List Task) (b q : List (Nat × Nat)) (id : Nat) : (release ts b q id).length = ts.length :=
  (shrinks_release ts b q id).1

theorem popLoop_answered (busy : List (Nat × Nat)) (ts : List Task) (q : List (Nat × Nat))
    (r : Option Nat) (q' : List (Nat × Nat)) (ts' : List Task) (hp : popLoop busy ts q = (r, q', ts'))
    (H : ∀ j t, ts[j]? = some t → referenced busy q j = true ∨ t.reply.isSome = true) :
    (∀ j t, ts'[j]? = some t → referenced busy q' j = true ∨ r = some j ∨ t.reply.isSome = true) ∧
    (∀ e ∈ q', ∃ e' ∈ q, e'.1 = e.1) ∧ (∀ id, r = some id → id < ts.length) := by
  fun_induction popLoop busy ts q generalizing r q' ts' with
  | case1 ts =>
    simp at hp; obtain ⟨rfl, rfl, rfl⟩ := hp
    refine ⟨fun j t h => ?_, by simp, by simp⟩
    rcases H j t h with h | h
    · left; exact h
    · right; right; exact h
  | case2 ts id par q h ih =>
    have H' : ∀ j t, ts[j]? = some t → referenced busy q j = true ∨ t.reply.isSome = true := by
      intro j t hj
      rcases H j t hj with h1 | h1
      · rw [referenced_iff] at h1 ⊢
        rcases h1 with h1 | ⟨e, he, hej⟩
        · left; left; exact h1
        · simp at he
          rcases he with rfl | he
          · simp at hej; subst hej; rw [h] at hj; cases hj
          · left; right; exact ⟨e, he, hej⟩
      · right; exact h1
    obtain ⟨h1, h2, h3⟩ := ih r q' ts' hp H'
    refine ⟨h1, fun e he => ?_, h3⟩
    obtain ⟨e', he', hee⟩ := h2 e he
    exact ⟨e', by simp [he'], hee⟩
  | case3 ts id par q t h hc ih =>
    have H' : ∀ j t, (release ts busy q id)[j]? = some t → referenced busy q j = true ∨ t.reply.isSome = true := by
      apply release_answered
      intro j t hj hne
      rcases H j t hj with h1 | h1
      · rw [referenced_iff] at h1 ⊢
        rcases h1 with h1 | ⟨e, he, hej⟩
        · left; left; exact h1
        · simp at he
          rcases he with rfl | he
          · simp at hej; exact absurd hej.symm hne
          · left; right; exact ⟨e, he, hej⟩
      · right; exact h1
    obtain ⟨h1, h2, h3⟩ := ih r q' ts' hp H'
    refine ⟨h1, fun e he => ?_, fun id' hr => ?_⟩
    · obtain ⟨e', he', hee⟩ := h2 e he
      exact ⟨e', by simp [he'], hee⟩
    · have := h3 id' hr; rwa [release_length] at this
  | case4 ts id par q t h hc hpar =>
    simp at hp; obtain ⟨rfl, rfl, rfl⟩ := hp
    refine ⟨fun j t hj => ?_, fun e he => ?_, fun id' hr => ?_⟩
    · rcases H j t hj with h1 | h1
      · left
        rw [referenced_iff] at h1 ⊢
        rcases h1 with h1 | ⟨e, he, hej⟩
        · left; exact h1
        · simp at he
          rcases he with rfl | he
          · right; exact ⟨(id, par - 1), by simp, hej⟩
          · right; exact ⟨e, by simp [he], hej⟩
      · right; right; exact h1
    · simp at he
      rcases he with rfl | he
      · exact ⟨(id, par), by simp, rfl⟩
      · exact ⟨e, by simp [he], rfl⟩
    · simp at hr; subst hr; exact (List.getElem?_eq_some_iff.mp h).1
  | case5 ts id par q t h hc hpar =>
    simp at hp; obtain ⟨rfl, rfl, rfl⟩ := hp
    refine ⟨fun j t hj => ?_, fun e he => ⟨e, by simp [he], rfl⟩, fun id' hr => ?_⟩
    · rcases H j t hj with h1 | h1
      · rw [referenced_iff] at h1
        rcases h1 with h1 | ⟨e, he, hej⟩
        · left; rw [referenced_iff]; left; exact h1
        · simp at he
          rcases he with rfl | he
          · right; left; simp at hej; simp [hej]
          · left; rw [referenced_iff]; right; exact ⟨e, he, hej⟩
      · right; right; exact h1
    · simp at hr; subst hr; exact (List.getElem?_eq_some_iff.mp h).1

theorem popLoop_length (busy : List (Nat × Nat)) (ts : List Task) (q : List (Nat × Nat))
    (r : Option Nat) (q' : List (Nat × Nat)) (ts' : List Task) (hp : popLoop busy ts q = (r, q', ts')) :
    ts'.length = ts.length := (popLoop_measure _ _ _ _ _ _ hp).1.1

theorem init_inv (n : Nat) : Inv (Pool.init n) := by
  refine ⟨⟨by simp [Pool.init], by simp [Pool.init]⟩, ?_⟩
  intro id t h; simp [Pool.init] at h

theorem submit_inv (p : Pool) (b : List Out) (f : Out) (h : Inv p) : Inv (submit p b f) := by
  obtain ⟨⟨hq, hb⟩, ha⟩ := h
  refine ⟨⟨?_, ?_⟩, ?_⟩
  · intro e he
    simp [submit] at he ⊢
    rcases he with he | rfl
    · have := hq e he; omega
    · simp
  · intro e he
    simp [submit] at he ⊢
    have := hb e he; omega
  · intro id t ht
    simp only [submit] at ht ⊢
    by_cases hid : id < p.tasks.length
    · rw [List.getElem?_append_left hid] at ht
      rcases ha id t ht with h1 | h1
      · left
        rw [referenced_iff] at h1 ⊢
        rcases h1 with h1 | ⟨e, he, hej⟩
        · left; exact h1
        · right; exact ⟨e, by simp [he], hej⟩
      · right; exact h1
    · left
      have hlen := (List.getElem?_eq_some_iff.mp ht).1
      simp at hlen
      have : id = p.tasks.length := by omega
      rw [referenced_iff]; right
      exact ⟨(p.tasks.length, b.length), by simp, this.symm⟩

theorem await_inv (p : Pool) (h : Inv p) : Inv (await p) := by
  obtain ⟨⟨hq, hb⟩, ha⟩ := h
  unfold await
  split
  · exact ⟨⟨hq, hb⟩, ha⟩
  · rcases hpl : popLoop p.busy p.tasks p.queue with ⟨r, q', ts'⟩
    obtain ⟨h1, h2, h3⟩ := popLoop_answered _ _ _ _ _ _ hpl ha
    have hlen := popLoop_length _ _ _ _ _ _ hpl
    have hq' : ∀ e ∈ q', e.1 < ts'.length := by
      intro e he
      obtain ⟨e', he', hee⟩ := h2 e he
      have := hq e' he'
      omega
    cases r with
    | none =>
      refine ⟨⟨hq', by simpa [hlen] using hb⟩, ?_⟩
      intro id t ht
      rcases h1 id t ht with h | h | h
      · left; exact h
      · cases h
      · right; exact h
    | some id0 =>
      refine ⟨⟨hq', ?_⟩, ?_⟩
      · intro e he
        simp at he
        rcases he with he | rfl
        · have := hb e he; simp [hlen]; omega
        · have := h3 id0 rfl; simp [hlen]; omega
      · intro id t ht
        simp only at ht ⊢
        rcases h1 id t ht with h | h | h
        · left
          rw [referenced_iff] at h ⊢
          rcases h with ⟨e, he, hej⟩ | h
          · left; exact ⟨e, by simp [he], hej⟩
          · right; exact h
        · left
          simp at h; subst h
          rw [referenced_iff]; left
          exact ⟨(id0, 0), by simp, rfl⟩
        · right; exact h

theorem mem_eraseIdx_of_ne {α : Type} (l : List α) (i : Nat) (hi : i < l.length) (e : α) (he : e ∈ l) (hne : e ≠ l[i]) :
    e ∈ l.eraseIdx i := by
  obtain ⟨k, hk, rfl⟩ := List.mem_iff_getElem.mp he
  rw [List.mem_eraseIdx_iff_getElem]
  refine ⟨k, hk, ?_, rfl⟩
  intro hki; subst hki; exact hne rfl

theorem mem_set_of_ne {α : Type} (l : List α) (i : Nat) (hi : i < l.length) (a e : α) (he : e ∈ l) (hne : e ≠ l[i]) :
    e ∈ l.set i a := by
  obtain ⟨k, hk, rfl⟩ := List.mem_iff_getElem.mp he
  have hki : i ≠ k := by intro h; subst h; exact hne rfl
  exact List.mem_iff_getElem.mpr ⟨k, by simpa using hk, by simp [List.getElem_set, hki]⟩

theorem finish_inv (cfg : Cfg) (p : Pool) (i id : Nat) (t : Task) (f : Bool) (hinv : Inv p)
    (hi : i < p.busy.length) (hbi : p.busy[i].1 = id) : Inv (finish cfg p i id t f) := by
  obtain ⟨⟨hq, hb⟩, ha⟩ := hinv
  have hlen : (release (setTask p.tasks id t) (p.busy.eraseIdx i) p.queue id).length = p.tasks.length := by
    rw [release_length]; simp [setTask]
  have hans : ∀ j tj, (release (setTask p.tasks id t) (p.busy.eraseIdx i) p.queue id)[j]? = some tj →
      referenced (p.busy.eraseIdx i) p.queue j = true ∨ tj.reply.isSome = true := by
    apply release_answered
    intro j tj hj hne
    have hidj : ¬ id = j := fun e => hne e.symm
    have hj' : p.tasks[j]? = some tj := by
      simpa [setTask, List.getElem?_set, hidj] using hj
    rcases ha j tj hj' with h1 | h1
    · left
      rw [referenced_iff] at h1 ⊢
      rcases h1 with ⟨e, he, hej⟩ | h1
      · left
        refine ⟨e, mem_eraseIdx_of_ne _ _ hi e he ?_, hej⟩
        intro h; rw [h, hbi] at hej; exact hne hej.symm
      · right; exact h1
    · right; exact h1
  have hb' : ∀ e ∈ p.busy.eraseIdx i, e.1 < p.tasks.length := fun e he => hb e (List.mem_of_mem_eraseIdx he)
  unfold finish
  split
  · exact ⟨⟨by simpa [hlen] using hq, by simpa [hlen] using hb'⟩, hans⟩
  · exact ⟨⟨by simpa [hlen] using hq, by simpa [hlen] using hb'⟩, hans⟩

theorem part_inv (cfg : Cfg) (p : Pool) (i : Nat) (hinv : Inv p) : Inv (part cfg p i) := by
  unfold part
  split
  · exact hinv
  · rename_i id c hbi
    have hi := busy_lt hbi
    have hbe : p.busy[i] = (id, c) := (List.getElem?_eq_some_iff.mp hbi).2
    have hfst : p.busy[i].1 = id := by rw [hbe]
    split
    · exact hinv
    · rename_i t0 ht0
      simp only []
      split
      · exact finish_inv _ _ _ _ _ _ hinv hi hfst
      · split
        · exact finish_inv _ _ _ _ _ _ hinv hi hfst
        · -- the worker goes on
          obtain ⟨⟨hq, hb⟩, ha⟩ := hinv
          have hid : id < p.tasks.length := (List.getElem?_eq_some_iff.mp ht0).1
          refine ⟨⟨by simpa [setTask] using hq, ?_⟩, ?_⟩
          · intro e he
            simp only [setTask, List.length_set]
            rcases List.mem_or_eq_of_mem_set he with he | rfl
            · exact hb e he
            · exact hid
          · intro j tj hj
            simp only at hj ⊢
            by_cases hjid : id = j
            · subst hjid
              left; rw [referenced_iff]; left
              refine ⟨(id, c + 1), ?_, rfl⟩
              exact List.mem_iff_getElem.mpr ⟨i, by simpa using hi, by simp⟩
            · have hj' : p.tasks[j]? = some tj := by simpa [setTask, List.getElem?_set, hjid] using hj
              rcases ha j tj hj' with h1 | h1
              · left
                rw [referenced_iff] at h1 ⊢
                rcases h1 with ⟨e, he, hej⟩ | h1
                · left
                  refine ⟨e, mem_set_of_ne _ _ hi _ e he ?_, hej⟩
                  intro h; rw [h, hfst] at hej; exact hjid hej
                · right; exact h1
              · right; exact h1
      · split
        · exact finish_inv _ _ _ _ _ _ hinv hi hfst
        · split <;> exact finish_inv _ _ _ _ _ _ hinv hi hfst
      · exact finish_inv _ _ _ _ _ _ hinv hi hfst

theorem step_inv (cfg : Cfg) (p : Pool) (a : Act) (h : Inv p) : Inv (step cfg p a) := by
  cases a with
  | submit b f => exact submit_inv p b f h
  | await => exact await_inv p h
  | part i => exact part_inv cfg p i h

theorem run_inv (cfg : Cfg) (as : List Act) (p : Pool) (h : Inv p) : Inv (run cfg p as) := by
  induction as generalizing p with
  | nil => exact h
  | cons a as ih => exact ih _ (step_inv cfg p a h)

/-- nothing can move: no idle worker has work to take, nobody executes -/
def Quiescent (p : Pool) : Prop := (p.idle = 0 ∨ p.queue = []) ∧ p.busy = []

/-- in a quiescent state in which the queue has been emptied every task ever submitted has its answer -/
theorem answered_of_quiescent (p : Pool) (h : Inv p) (hq : p.queue = []) (hb : p.busy = []) :
    ∀ t ∈ p.tasks, t.reply.isSome = true := by
  intro t ht
  obtain ⟨id, hid⟩ := List.mem_iff_getElem?.mp ht
  rcases h.2 id t hid with h1 | h1
  · rw [referenced_iff, hq, hb] at h1; simp at h1
  · exact h1

/-! ### the canonical scheduler -/

theorem await_tasks_length (p : Pool) : (await p).tasks.length = p.tasks.length := by
  unfold await
  split
  · rfl
  · rcases hpl : popLoop p.busy p.tasks p.queue with ⟨r, q', ts'⟩
    have := popLoop_length _ _ _ _ _ _ hpl
    cases r <;> simpa using this

theorem part_tasks_length (cfg : Cfg) (p : Pool) (i : Nat) : (part cfg p i).tasks.length = p.tasks.length := by
  have fin : ∀ id t f, (finish cfg p i id t f).tasks.length = p.tasks.length := by
    intro id t f; rw [finish_tasks, release_length]; simp [setTask]
  unfold part
  split
  · rfl
  · split
    · rfl
    · simp only []
      split
      · exact fin _ _ _
      · split
        · exact fin _ _ _
        · simp [setTask]
      · split
        · exact fin _ _ _
        · split <;> exact fin _ _ _
      · exact fin _ _ _

theorem quiescent_of_measure_zero (p : Pool) (h : measure p = 0) : Quiescent p := by
  have hq : p.queue = [] := by
    cases hq : p.queue with
    | nil => rfl
    | cons e q => have := qW_pos p.tasks e; simp [measure, qSum, hq] at h; omega
  have hb : p.busy = [] := by
    cases hb : p.busy with
    | nil => rfl
    | cons e b => simp [measure, bSum, hb, bW] at h
  exact ⟨Or.inr hq, hb⟩

theorem drain_spec (cfg : Cfg) (fuel : Nat) (p : Pool) (hinv : Inv p) (hm : measure p ≤ fuel) :
    Inv (drain cfg fuel p) ∧ (drain cfg fuel p).total = p.total ∧
    (cfg.catchTask = true → (drain cfg fuel p).dead = p.dead) ∧
    (drain cfg fuel p).tasks.length = p.tasks.length ∧ Quiescent (drain cfg fuel p) := by
  induction fuel generalizing p with
  | zero =>
    have hd : drain cfg 0 p = p := rfl
    rw [hd]
    exact ⟨hinv, rfl, fun _ => rfl, rfl, quiescent_of_measure_zero p (by omega)⟩
  | succ fuel ih =>
    unfold drain
    split
    · rename_i h
      have hlt := await_measure p h.1 h.2
      obtain ⟨h1, h2, h3, h4, h5⟩ := ih (await p) (await_inv p hinv) (by omega)
      exact ⟨h1, by rw [h2, await_total], fun hc => by rw [h3 hc, await_dead], by rw [h4, await_tasks_length], h5⟩
    · split
      · rename_i h hb
        have hpos : 0 < p.busy.length := by
          cases hbb : p.busy with
          | nil => exact absurd hbb hb
          | cons _ _ => simp
        have hlt := part_measure cfg p 0 hinv.1 hpos
        obtain ⟨h1, h2, h3, h4, h5⟩ := ih (part cfg p 0) (part_inv cfg p 0 hinv) (by omega)
        exact ⟨h1, by rw [h2, part_total], fun hc => by rw [h3 hc, part_dead_catch cfg hc], by rw [h4, part_tasks_length], h5⟩
      · rename_i h hb
        refine ⟨hinv, rfl, fun _ => rfl, rfl, ?_, by simpa using hb⟩
        by_cases hi : p.idle = 0
        · exact Or.inl hi
        · right
          by_cases hq : p.queue = []
          · exact hq
          · exact absurd ⟨hi, hq⟩ h

end LM.Sched
