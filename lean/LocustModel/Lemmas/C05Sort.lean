import LocustModel.Query.OrderSpec
/-
  Helper lemmas for C05: sortedness, the reference stable sort, multiset difference,
  "two sorted arrangements of the same rows agree position by position up to ties".
-/
namespace LM.OrderSpec
open LM

variable {α : Type}

theorem sortedB_iff (le : α → α → Bool) (l : List α) : sortedB le l = true ↔ Sorted le l := by
  induction l with
  | nil => simp [sortedB, Sorted]
  | cons a l ih =>
    simp only [sortedB, Bool.and_eq_true, List.all_eq_true, Sorted, List.pairwise_cons]
    rw [ih]; rfl

theorem Sorted.sublist {le : α → α → Bool} {l₁ l₂ : List α} (h : l₁.Sublist l₂) (hs : Sorted le l₂) :
    Sorted le l₁ := List.Pairwise.sublist h hs

theorem sorted_append {le : α → α → Bool} {l₁ l₂ : List α} :
    Sorted le (l₁ ++ l₂) ↔ Sorted le l₁ ∧ Sorted le l₂ ∧ ∀ a ∈ l₁, ∀ b ∈ l₂, le a b = true := by
  simp [Sorted, List.pairwise_append]

/-! ### insertion sort -/

theorem insertLe_perm (le : α → α → Bool) (x : α) (l : List α) : (insertLe le x l).Perm (x :: l) := by
  induction l with
  | nil => simp [insertLe]
  | cons y ys ih =>
    simp only [insertLe]
    split
    · exact List.Perm.refl _
    · exact (List.Perm.cons y ih).trans (List.Perm.swap x y ys)

theorem isort_perm (le : α → α → Bool) (l : List α) : (isort le l).Perm l := by
  induction l with
  | nil => simp [isort]
  | cons x xs ih => exact (insertLe_perm le x _).trans (List.Perm.cons x ih)

theorem isort_length (le : α → α → Bool) (l : List α) : (isort le l).length = l.length :=
  (isort_perm le l).length_eq

theorem insertLe_sorted {le : α → α → Bool} (h : TotalPre le) (x : α) (l : List α) (hs : Sorted le l) :
    Sorted le (insertLe le x l) := by
  induction l with
  | nil => simp [insertLe, Sorted]
  | cons y ys ih =>
    simp only [insertLe]
    have hs' := List.pairwise_cons.mp hs
    split
    · rename_i hxy
      refine List.pairwise_cons.mpr ⟨?_, hs⟩
      intro z hz
      rcases List.mem_cons.mp hz with rfl | hz
      · exact hxy
      · exact h.trans _ _ _ hxy (hs'.1 z hz)
    · rename_i hxy
      have hyx : le y x = true := by
        rcases h.total x y with h1 | h1
        · exact absurd h1 hxy
        · exact h1
      refine List.pairwise_cons.mpr ⟨?_, ih hs'.2⟩
      intro z hz
      have := (insertLe_perm le x ys).mem_iff.mp hz
      rcases List.mem_cons.mp this with rfl | hz
      · exact hyx
      · exact hs'.1 z hz

theorem isort_sorted {le : α → α → Bool} (h : TotalPre le) (l : List α) : Sorted le (isort le l) := by
  induction l with
  | nil => simp [isort, Sorted]
  | cons x xs ih => exact insertLe_sorted h x _ ih

/-! ### multiset difference -/

theorem msub_some_perm [DecidableEq α] : ∀ (xs l r : List α), msub l xs = some r → l.Perm (xs ++ r)
  | [], l, r, h => by simp [msub] at h; subst h; simp
  | x :: xs, l, r, h => by
    simp only [msub] at h
    split at h
    · rename_i hx
      have ih := msub_some_perm xs (l.erase x) r h
      exact (List.perm_cons_erase hx).trans (List.Perm.cons x ih)
    · simp at h

theorem msub_of_perm [DecidableEq α] : ∀ (xs l r : List α), l.Perm (xs ++ r) → ∃ r', msub l xs = some r' ∧ r'.Perm r
  | [], l, r, h => ⟨l, by simp [msub], by simpa using h⟩
  | x :: xs, l, r, h => by
    have hx : x ∈ l := h.mem_iff.mpr (by simp)
    have h2 : (l.erase x).Perm (xs ++ r) := by
      have := (List.perm_cons_erase hx).symm.trans h
      exact (List.Perm.cons_inv this)
    obtain ⟨r', h3, h4⟩ := msub_of_perm xs (l.erase x) r h2
    exact ⟨r', by simp [msub, hx, h3], h4⟩

/-! ### equivalence classes of a total preorder -/

theorem eqv_refl {le : α → α → Bool} (h : TotalPre le) (a : α) : eqv le a a = true := by
  rcases h.total a a with h1 | h1 <;> simp [eqv, h1]

theorem eqv_symm {le : α → α → Bool} {a b : α} (h : eqv le a b = true) : eqv le b a = true := by
  simp [eqv] at *; exact ⟨h.2, h.1⟩

theorem eqv_trans {le : α → α → Bool} (h : TotalPre le) {a b c : α}
    (h1 : eqv le a b = true) (h2 : eqv le b c = true) : eqv le a c = true := by
  simp [eqv] at *
  exact ⟨h.trans _ _ _ h1.1 h2.1, h.trans _ _ _ h2.2 h1.2⟩

/-- Tied rows are in the same class for every class representative. -/
theorem eqv_congr {le : α → α → Bool} (h : TotalPre le) {a b : α} (hab : eqv le a b = true) (x : α) :
    eqv le x a = eqv le x b := by
  cases h1 : eqv le x a <;> cases h2 : eqv le x b <;> try rfl
  · have := eqv_trans h h2 (eqv_symm hab); simp_all
  · have := eqv_trans h h1 hab; simp_all

/-- Number of rows of `l` that tie with `x`. -/
def classCount (le : α → α → Bool) (x : α) (l : List α) : Nat := (l.filter (eqv le x)).length

theorem classCount_perm (le : α → α → Bool) (x : α) {l₁ l₂ : List α} (h : l₁.Perm l₂) :
    classCount le x l₁ = classCount le x l₂ := (h.filter _).length_eq

theorem classCount_cons (le : α → α → Bool) (x a : α) (l : List α) :
    classCount le x (a :: l) = (if eqv le x a then 1 else 0) + classCount le x l := by
  simp only [classCount, List.filter_cons]; split <;> simp <;> omega

theorem classCount_pos {le : α → α → Bool} {x : α} {l : List α} (h : 0 < classCount le x l) :
    ∃ y ∈ l, eqv le x y = true := by
  unfold classCount at h
  obtain ⟨y, hy⟩ := List.exists_mem_of_length_pos h
  exact ⟨y, (List.mem_filter.mp hy).1, (List.mem_filter.mp hy).2⟩

/-- Position-by-position relation between two lists of the same length. -/
inductive F2 (R : α → α → Prop) : List α → List α → Prop
  | nil : F2 R [] []
  | cons {a b : α} {A B : List α} : R a b → F2 R A B → F2 R (a :: A) (b :: B)

/-- Two sorted lists with the same number of rows in every tie class agree position by position
    up to ties. -/
theorem sorted_forall2 {le : α → α → Bool} (h : TotalPre le) :
    ∀ (A B : List α), Sorted le A → Sorted le B → A.length = B.length →
      (∀ x, classCount le x A = classCount le x B) → F2 (fun a b => eqv le a b = true) A B
  | [], [], _, _, _, _ => F2.nil
  | [], _ :: _, _, _, hl, _ => by simp at hl
  | _ :: _, [], _, _, hl, _ => by simp at hl
  | a :: A, b :: B, hA, hB, hl, hc => by
    have hA' := List.pairwise_cons.mp hA
    have hB' := List.pairwise_cons.mp hB
    -- a ≤ b : some element of a :: A ties with b
    have hab : le a b = true := by
      have : 0 < classCount le b (a :: A) := by
        rw [hc b, classCount_cons]; simp [eqv_refl h b]; omega
      obtain ⟨y, hy, hby⟩ := classCount_pos this
      simp [eqv] at hby
      rcases List.mem_cons.mp hy with rfl | hy
      · exact hby.2
      · exact h.trans _ _ _ (hA'.1 y hy) hby.2
    have hba : le b a = true := by
      have : 0 < classCount le a (b :: B) := by
        rw [← hc a, classCount_cons]; simp [eqv_refl h a]; omega
      obtain ⟨y, hy, hay⟩ := classCount_pos this
      simp [eqv] at hay
      rcases List.mem_cons.mp hy with rfl | hy
      · exact hay.2
      · exact h.trans _ _ _ (hB'.1 y hy) hay.2
    have he : eqv le a b = true := by simp [eqv, hab, hba]
    refine F2.cons he (sorted_forall2 h A B hA'.2 hB'.2 (by simpa using hl) ?_)
    intro x
    have := hc x
    rw [classCount_cons, classCount_cons, eqv_congr h he x] at this
    omega

theorem forall2_take {R : α → α → Prop} : ∀ {A B : List α} (n : Nat), F2 R A B →
    F2 R (A.take n) (B.take n)
  | _, _, 0, _ => by simpa using F2.nil
  | _, _, _ + 1, .nil => by simpa using F2.nil
  | _, _, n + 1, .cons h t => by simpa using F2.cons h (forall2_take n t)

theorem forall2_drop {R : α → α → Prop} : ∀ {A B : List α} (n : Nat), F2 R A B →
    F2 R (A.drop n) (B.drop n)
  | _, _, 0, h => by simpa using h
  | _, _, _ + 1, .nil => by simpa using F2.nil
  | _, _, n + 1, .cons _ t => by simpa using forall2_drop n t

theorem forall2_mem_left {R : α → α → Prop} : ∀ {A B : List α}, F2 R A B →
    ∀ a ∈ A, ∃ b ∈ B, R a b
  | _, _, .nil, a, ha => by simp at ha
  | _, _, .cons h t, a, ha => by
    rcases List.mem_cons.mp ha with rfl | ha
    · exact ⟨_, by simp, h⟩
    · obtain ⟨b, hb, hr⟩ := forall2_mem_left t a ha
      exact ⟨b, by simp [hb], hr⟩

/-- Two sorted arrangements of the same rows agree position by position up to ties. -/
theorem sorted_perm_forall2 {le : α → α → Bool} (h : TotalPre le) {A B : List α}
    (hA : Sorted le A) (hB : Sorted le B) (hp : A.Perm B) :
    F2 (fun a b => eqv le a b = true) A B :=
  sorted_forall2 h A B hA hB hp.length_eq (fun x => classCount_perm le x hp)

end LM.OrderSpec
