import LocustModel.Lemmas.C05Sort
/-
  The executable judge of C05 accepts exactly the outputs that satisfy the declarative property.
-/
namespace LM.OrderSpec
open LM

variable {α : Type}

theorem witness_perm (le : α → α → Bool) (rest out : List α) (m : Nat) :
    (witness le rest out m).Perm (out ++ rest) := by
  unfold witness
  have h1 : ((isort le rest).take m ++ out ++ (isort le rest).drop m).Perm
      (out ++ ((isort le rest).take m ++ (isort le rest).drop m)) := by
    rw [List.append_assoc]
    exact List.perm_append_comm_assoc _ _ _
  rw [List.take_append_drop] at h1
  exact h1.trans (List.Perm.append_left out (isort_perm le rest))

/-- What the judge's arrangement looks like from position `m` on. -/
theorem witness_slice (le : α → α → Bool) (rest out : List α) (n m : Nat)
    (hlen : out.length = min n (out.length + rest.length - m)) :
    ((witness le rest out m).drop m).take n = out := by
  unfold witness
  have hR : (isort le rest).length = rest.length := isort_length le rest
  by_cases hm : m ≤ rest.length
  · have h1 : ((isort le rest).take m).length = m := by simp [List.length_take]; omega
    rw [List.append_assoc, List.drop_left' h1]
    by_cases hn : out.length = n
    · rw [List.take_left' hn]
    · have : (isort le rest).drop m = [] := by
        apply List.eq_nil_of_length_eq_zero
        simp [List.length_drop]; omega
      rw [this, List.append_nil]
      exact List.take_of_length_le (by omega)
  · have ho : out = [] := List.eq_nil_of_length_eq_zero (by omega)
    subst ho
    have h2 : (isort le rest).drop m = [] := List.drop_of_length_le (by omega)
    have h3 : (isort le rest).take m = isort le rest := List.take_of_length_le (by omega)
    simp [h2, h3]

/-- SOUNDNESS: whatever the judge accepts satisfies the property (no comparator hypothesis needed:
    the judge exhibits the sorted arrangement). -/
theorem judge_sound [DecidableEq α] (le : α → α → Bool) (rows out : List α) (n m : Nat)
    (h : judge le rows out n m = .ok) : OrderSpec le rows out n m := by
  unfold judge at h
  split at h
  · simp at h
  · rename_i rest hsub
    split at h
    · simp at h
    · rename_i hlen
      split at h
      · simp at h
      · split at h
        · simp at h
        · rename_i _ hw
          have hperm := msub_some_perm out rows rest hsub
          have hl : rows.length = out.length + rest.length := by
            simpa using hperm.length_eq
          refine ⟨witness le rest out m, (witness_perm le rest out m).trans hperm.symm, ?_, ?_⟩
          · exact (sortedB_iff le _).mp (by simpa using hw)
          · have hlen' : out.length = min n (rows.length - m) := by simpa using hlen
            exact (witness_slice le rest out n m (by rw [← hl]; exact hlen')).symm

theorem take_take_drop_perm (s : List α) (n m : Nat) :
    s.Perm ((s.drop m).take n ++ (s.take m ++ s.drop (m + n))) := by
  have h1 : s = s.take m ++ ((s.drop m).take n ++ (s.drop m).drop n) := by
    rw [List.take_append_drop, List.take_append_drop]
  have h2 : (s.drop m).drop n = s.drop (m + n) := by rw [List.drop_drop]
  rw [h2] at h1
  have h3 : (s.take m ++ ((s.drop m).take n ++ s.drop (m + n))).Perm
      ((s.drop m).take n ++ (s.take m ++ s.drop (m + n))) := List.perm_append_comm_assoc _ _ _
  exact (List.Perm.of_eq h1).trans h3

theorem take_drop_sublist (s : List α) (n m : Nat) : (s.take m ++ s.drop (m + n)).Sublist s := by
  have h1 : (s.take m ++ s.drop (m + n)).Sublist (s.take m ++ s.drop m) := by
    apply List.Sublist.append_left
    rw [← List.drop_drop]
    exact List.drop_sublist _ _
  rwa [List.take_append_drop] at h1

/-- COMPLETENESS: every output that satisfies the property is accepted. -/
theorem judge_complete [DecidableEq α] {le : α → α → Bool} (hle : TotalPre le)
    (rows out : List α) (n m : Nat) (h : OrderSpec le rows out n m) : judge le rows out n m = .ok := by
  obtain ⟨s, hperm, hsorted, hout⟩ := h
  -- the rows not returned
  have hX : rows.Perm (out ++ (s.take m ++ s.drop (m + n))) := by
    rw [hout]; exact hperm.symm.trans (take_take_drop_perm s n m)
  obtain ⟨rest, hsub, hrest⟩ := msub_of_perm out rows _ hX
  have hlen : out.length = min n (rows.length - m) := by
    rw [hout, List.length_take, List.length_drop, hperm.length_eq]
  have hso : Sorted le out := by
    rw [hout]; exact Sorted.sublist ((List.take_sublist _ _).trans (List.drop_sublist _ _)) hsorted
  -- the judge's arrangement is sorted
  have hXs : Sorted le (s.take m ++ s.drop (m + n)) := Sorted.sublist (take_drop_sublist s n m) hsorted
  have hR : Sorted le (isort le rest) := isort_sorted hle rest
  have hRX : (isort le rest).Perm (s.take m ++ s.drop (m + n)) := (isort_perm le rest).trans hrest
  have hF := sorted_perm_forall2 hle hR hXs hRX
  have htakeX : (s.take m ++ s.drop (m + n)).take m = s.take m := by
    by_cases hm : m ≤ s.length
    · have : (s.take m).length = m := by simp [List.length_take]; omega
      rw [List.take_left' this]
    · have h1 : s.take m = s := List.take_of_length_le (by omega)
      have h2 : s.drop (m + n) = [] := List.drop_of_length_le (by omega)
      rw [h1, h2, List.append_nil, h1]
  have hdropX : (s.take m ++ s.drop (m + n)).drop m = s.drop (m + n) := by
    by_cases hm : m ≤ s.length
    · have : (s.take m).length = m := by simp [List.length_take]; omega
      rw [List.drop_left' this]
    · have h1 : s.take m = s := List.take_of_length_le (by omega)
      have h2 : s.drop (m + n) = [] := List.drop_of_length_le (by omega)
      rw [h1, h2, List.append_nil]
      exact List.drop_of_length_le (by omega)
  have hs1 : Sorted le (s.take m ++ s.drop m) := by rw [List.take_append_drop]; exact hsorted
  have hs2 : Sorted le ((s.drop m).take n ++ (s.drop m).drop n) := by
    rw [List.take_append_drop]; exact Sorted.sublist (List.drop_sublist _ _) hsorted
  have hw : Sorted le (witness le rest out m) := by
    unfold witness
    rw [List.append_assoc]
    refine sorted_append.mpr ⟨Sorted.sublist (List.take_sublist _ _) hR, ?_, ?_⟩
    · refine sorted_append.mpr ⟨hso, Sorted.sublist (List.drop_sublist _ _) hR, ?_⟩
      intro o ho q hq
      obtain ⟨q', hq', hqq⟩ := forall2_mem_left (forall2_drop m hF) q hq
      rw [hdropX, ← List.drop_drop] at hq'
      rw [hout] at ho
      have := (sorted_append.mp hs2).2.2 o ho q' hq'
      simp [eqv] at hqq
      exact hle.trans _ _ _ this hqq.2
    · intro p hp x hx
      obtain ⟨p', hp', hpp⟩ := forall2_mem_left (forall2_take m hF) p hp
      rw [htakeX] at hp'
      simp [eqv] at hpp
      rcases List.mem_append.mp hx with ho | hq
      · rw [hout] at ho
        have ho' : x ∈ s.drop m := (List.take_sublist _ _).subset ho
        exact hle.trans _ _ _ hpp.1 ((sorted_append.mp hs1).2.2 p' hp' x ho')
      · have hRR : Sorted le ((isort le rest).take m ++ (isort le rest).drop m) := by
          rw [List.take_append_drop]; exact hR
        exact (sorted_append.mp hRR).2.2 p hp x hq
  unfold judge
  simp only [hsub]
  rw [if_neg (by simpa using hlen)]
  rw [if_neg (by simpa using (sortedB_iff le out).mpr hso)]
  rw [if_neg (by simpa using (sortedB_iff le _).mpr hw)]

end LM.OrderSpec
