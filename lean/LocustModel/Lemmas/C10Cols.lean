import LocustModel.Conc.Cols
/-
  Lemmas about the column-resolution model: a batch-born partition whose only visitors are queries for columns it
  has keeps every handle resident, so the flush thread's `try_get().unwrap()` succeeds.
-/
namespace LM.Conc.Cols
open LM

def AllResident (cols : List (Nat × Handle)) : Prop := ∀ kh ∈ cols, kh.2 = Handle.resident

theorem lookup_mem_map (c : Nat) (cs : List Nat) (h : c ∈ cs) :
    lookup c (cs.map (·, Handle.resident)) = some .resident := by
  induction cs with
  | nil => cases h
  | cons k ks ih =>
    simp only [List.map_cons, lookup]
    split
    · rfl
    · rename_i hne
      cases h with
      | head => exact absurd rfl hne
      | tail _ h' => exact ih h'

theorem lookup_keys_eq {c : Nat} {cols : List (Nat × Handle)} (cs : List Nat)
    (hk : cols.map (·.1) = cs) (hall : AllResident cols) (h : c ∈ cs) : lookup c cols = some .resident := by
  induction cols generalizing cs with
  | nil => simp at hk; subst hk; cases h
  | cons kh rest ih =>
    obtain ⟨k, x⟩ := kh
    simp only [List.map_cons] at hk
    subst hk
    have hx : x = .resident := hall (k, x) (List.mem_cons_self ..)
    subst hx
    simp only [lookup]
    split
    · rfl
    · rename_i hne
      cases h with
      | head => exact absurd rfl hne
      | tail _ h' => exact ih _ rfl (fun kh hkh => hall kh (List.mem_cons_of_mem _ hkh)) h'

/-- Invariant of a batch-born partition visited only by queries for its own columns. -/
structure FreshOk (cs : List Nat) (p : PState) : Prop where
  keys : p.cols.map (·.1) = cs
  allRes : AllResident p.cols
  eph : p.ephemeral = true

theorem FreshOk_born (cs : List Nat) : FreshOk cs (bornByBatch cs) := by
  refine ⟨?_, ?_, rfl⟩
  · simp [bornByBatch, List.map_map, Function.comp_def]
  · intro kh hkh
    simp only [bornByBatch, List.mem_map] at hkh
    obtain ⟨c, _, rfl⟩ := hkh
    rfl

theorem getCols_present {cs : List Nat} {p : PState} (h : FreshOk cs p) {c : Nat} (hc : c ∈ cs) :
    getCols p c = .ok (p, true) := by
  unfold getCols
  rw [lookup_keys_eq cs h.keys h.allRes hc]
  rfl

theorem flushHandlesOld_ok_of_allResident {p : PState} (hp : p.phase = .fresh) (h : AllResident p.cols) :
    flushHandlesOld p = .ok { p with phase := .handlesRead } := by
  unfold flushHandlesOld
  simp only [hp, if_true]
  have : (p.cols.all fun kh => decide (kh.2 = Handle.resident)) = true := by
    simp only [List.all_eq_true, decide_eq_true_eq]
    exact h
  simp [this]

/-! ### What a lookup can change: handles and the loaded flag only -/

theorem getOrLoad_frame {p p' : PState} {c : Nat} {h : Handle} {b : Bool} (hr : getOrLoad p c h = .ok (p', b)) :
    p'.phase = p.phase ∧ p'.ephemeral = p.ephemeral ∧ p'.fileCols = p.fileCols := by
  cases h with
  | empty => simp only [getOrLoad] at hr; injection hr with hr; injection hr with h1 _; subst h1; exact ⟨rfl, rfl, rfl⟩
  | resident => simp only [getOrLoad] at hr; injection hr with hr; injection hr with h1 _; subst h1; exact ⟨rfl, rfl, rfl⟩
  | nonresident =>
    simp only [getOrLoad] at hr
    split at hr
    · cases hr
    · split at hr
      · cases hr
      · split at hr <;> (injection hr with hr; injection hr with h1 _; subst h1; exact ⟨rfl, rfl, rfl⟩)

theorem getCols_frame {p p' : PState} {c : Nat} {b : Bool} (hr : getCols p c = .ok (p', b)) :
    p'.phase = p.phase ∧ p'.ephemeral = p.ephemeral ∧ p'.fileCols = p.fileCols := by
  unfold getCols at hr
  split at hr
  · exact getOrLoad_frame hr
  · split at hr
    · exact getOrLoad_frame (p := { p with cols := setH c .empty p.cols }) hr
    · split at hr
      · cases hr
      · split at hr
        · exact getOrLoad_frame (p := { p with cols := setH c .empty p.cols }) hr
        · exact getOrLoad_frame (p := { p with cols := setH c .nonresident p.cols }) hr

theorem evict_frame (p : PState) (c : Nat) :
    (evict p c).phase = p.phase ∧ (evict p c).ephemeral = p.ephemeral ∧ (evict p c).fileCols = p.fileCols := by
  unfold evict
  split
  · split <;> exact ⟨rfl, rfl, rfl⟩
  · exact ⟨rfl, rfl, rfl⟩

/-- No action of anybody changes the set of columns a partition object was born with. -/
theorem papply_fileCols {p p' : PState} {a : PAct} (h : papply p a = some (.ok p')) : p'.fileCols = p.fileCols := by
  cases a with
  | getCols c =>
    simp only [papply, Option.some.injEq] at h
    cases hg : getCols p c with
    | error f => rw [hg] at h; cases h
    | ok r =>
      rw [hg] at h
      obtain ⟨q, b⟩ := r
      simp only [Except.map] at h
      injection h with h; subst h
      exact (getCols_frame hg).2.2
  | flushHandles =>
    simp only [papply] at h
    split at h
    · simp only [flushHandles, Option.some.injEq] at h
      split at h <;> (injection h with h; subst h; rfl)
    · cases h
  | persist => simp only [papply] at h; split at h <;> first | (injection h with h; injection h with h; subst h; rfl) | cases h
  | remove => simp only [papply] at h; split at h <;> first | (injection h with h; injection h with h; subst h; rfl) | cases h
  | uncatalogue => simp only [papply] at h; split at h <;> first | (injection h with h; injection h with h; subst h; rfl) | cases h
  | deleteFiles => simp only [papply] at h; split at h <;> first | (injection h with h; injection h with h; subst h; rfl) | cases h
  | evict c =>
    simp only [papply, Option.some.injEq] at h
    injection h with h; subst h
    exact (evict_frame p c).2.2

theorem prun_fileCols {p p' : PState} {as : List PAct} (h : prun p as = .ok p') : p'.fileCols = p.fileCols := by
  induction as generalizing p with
  | nil => simp only [prun] at h; injection h with h; subst h; rfl
  | cons a as ih =>
    simp only [prun] at h
    split at h
    · exact ih h
    · rename_i q hq; rw [ih h]; exact papply_fileCols hq
    · cases h

/-! ### Lookups that cannot fault -/

def NoNonresident (cols : List (Nat × Handle)) : Prop := ∀ kh ∈ cols, kh.2 ≠ Handle.nonresident

theorem lookup_mem {c : Nat} {cols : List (Nat × Handle)} {h : Handle} (hl : lookup c cols = some h) : (c, h) ∈ cols := by
  induction cols with
  | nil => simp [lookup] at hl
  | cons kh rest ih =>
    obtain ⟨k, x⟩ := kh
    simp only [lookup] at hl
    split at hl
    · rename_i hk; injection hl with hl; subst hl; subst hk; exact List.mem_cons_self ..
    · exact List.mem_cons_of_mem _ (ih hl)

theorem mem_setH {c : Nat} {h : Handle} {cols : List (Nat × Handle)} {kh : Nat × Handle} (hm : kh ∈ setH c h cols) :
    kh ∈ cols ∨ kh = (c, h) := by
  induction cols with
  | nil => simp [setH] at hm; exact Or.inr hm
  | cons x rest ih =>
    obtain ⟨k, y⟩ := x
    simp only [setH] at hm
    split at hm
    · rename_i hk
      cases hm with
      | head => exact Or.inr (by rw [hk])
      | tail _ h' => exact Or.inl (List.mem_cons_of_mem _ h')
    · cases hm with
      | head => exact Or.inl (List.mem_cons_self ..)
      | tail _ h' =>
        rcases ih h' with h'' | h''
        · exact Or.inl (List.mem_cons_of_mem _ h'')
        · exact Or.inr h''

/-- An ephemeral partition (buffer view, or batch-born) none of whose columns has been evicted answers every lookup,
    and stays that way. -/
theorem getCols_ephemeral_ok {p : PState} (he : p.ephemeral = true) (hn : NoNonresident p.cols) (c : Nat) :
    ∃ p' b, getCols p c = .ok (p', b) ∧ p'.ephemeral = true ∧ NoNonresident p'.cols ∧ p'.phase = p.phase := by
  unfold getCols
  cases hl : lookup c p.cols with
  | some h =>
    cases h with
    | resident => exact ⟨p, true, rfl, he, hn, rfl⟩
    | empty => exact ⟨p, false, rfl, he, hn, rfl⟩
    | nonresident => exact absurd rfl (hn _ (lookup_mem hl))
  | none =>
    simp only [he, if_true]
    refine ⟨_, false, rfl, rfl, ?_, rfl⟩
    intro kh hkh
    rcases mem_setH hkh with h | h
    · exact hn kh h
    · subst h; simp

theorem getColsMany_ephemeral_ok {p : PState} (he : p.ephemeral = true) (hn : NoNonresident p.cols) (cs : List Nat) :
    ∃ p', getColsMany p cs = .ok p' ∧ p'.phase = p.phase := by
  induction cs generalizing p with
  | nil => exact ⟨p, rfl, rfl⟩
  | cons c cs ih =>
    obtain ⟨q, b, hq, he', hn', hph⟩ := getCols_ephemeral_ok he hn c
    obtain ⟨r, hr, hph'⟩ := ih he' hn'
    exact ⟨r, by simp only [getColsMany, hq, hr], by rw [hph', hph]⟩

theorem getOrLoad_catalogued_ok {p : PState} (h1 : p.phase.inCatalogue = true) (h2 : p.phase.filesExist = true)
    (c : Nat) (h : Handle) : ∃ r, getOrLoad p c h = .ok r := by
  cases h with
  | resident => exact ⟨_, rfl⟩
  | empty => exact ⟨_, rfl⟩
  | nonresident =>
    simp only [getOrLoad, h1, h2, Bool.not_true, Bool.false_eq_true, if_false]
    split <;> exact ⟨_, rfl⟩

/-- While the catalogue entry and the files of a partition exist every lookup succeeds. -/
theorem getCols_catalogued_ok {p : PState} (h1 : p.phase.inCatalogue = true) (h2 : p.phase.filesExist = true) (c : Nat) :
    ∃ r, getCols p c = .ok r := by
  unfold getCols
  split
  · exact getOrLoad_catalogued_ok h1 h2 c _
  · split
    · exact ⟨_, rfl⟩
    · simp only [h1, Bool.not_true, Bool.false_eq_true, if_false]
      split
      · exact ⟨_, rfl⟩
      · exact getOrLoad_catalogued_ok (p := { p with cols := setH c .nonresident p.cols }) h1 h2 c _

theorem getColsMany_catalogued_ok {p : PState} (h1 : p.phase.inCatalogue = true) (h2 : p.phase.filesExist = true)
    (cs : List Nat) : ∃ p', getColsMany p cs = .ok p' := by
  induction cs generalizing p with
  | nil => exact ⟨p, rfl⟩
  | cons c cs ih =>
    obtain ⟨⟨q, b⟩, hq⟩ := getCols_catalogued_ok h1 h2 c
    have hph := (getCols_frame hq).1
    obtain ⟨r, hr⟩ := ih (p := q) (by rw [hph]; exact h1) (by rw [hph]; exact h2)
    exact ⟨r, by simp only [getColsMany, hq, hr]⟩

end LM.Conc.Cols
