import LocustModel.Conc.Cols
/-
  Lemmas about the column-resolution model: a batch-born partition whose only visitors are queries for columns it
  has keeps every handle resident, so the flush thread's `try_get().unwrap()` succeeds.
-/
namespace LM.Conc.Cols
open LM

def AllResident (cols : List (Nat × Handle)) : Prop := ∀ kh ∈ cols, kh.2 = Handle.resident

theorem lookup_mem_map (c : Nat) (cs : List Nat) (h : c ∈ cs) :
    lookup c (cs.map (·, Handle.resident)) = some .resident := by
  induction cs with
  | nil => cases h
  | cons k ks ih =>
    simp only [List.map_cons, lookup]
    split
    · rfl
    · rename_i hne
      cases h with
      | head => exact absurd rfl hne
      | tail _ h' => exact ih h'

theorem lookup_keys_eq {c : Nat} {cols : List (Nat × Handle)} (cs : List Nat)
    (hk : cols.map (·.1) = cs) (hall : AllResident cols) (h : c ∈ cs) : lookup c cols = some .resident := by
  induction cols generalizing cs with
  | nil => simp at hk; subst hk; cases h
  | cons kh rest ih =>
    obtain ⟨k, x⟩ := kh
    simp only [List.map_cons] at hk
    subst hk
    have hx : x = .resident := hall (k, x) (List.mem_cons_self ..)
    subst hx
    simp only [lookup]
    split
    · rfl
    · rename_i hne
      cases h with
      | head => exact absurd rfl hne
      | tail _ h' => exact ih _ rfl (fun kh hkh => hall kh (List.mem_cons_of_mem _ hkh)) h'

/-- Invariant of a batch-born partition visited only by queries for its own columns. -/
structure FreshOk (cs : List Nat) (p : PState) : Prop where
  keys : p.cols.map (·.1) = cs
  allRes : AllResident p.cols
  eph : p.ephemeral = true

theorem FreshOk_born (cs : List Nat) : FreshOk cs (bornByBatch cs) := by
  refine ⟨?_, ?_, rfl⟩
  · simp [bornByBatch, List.map_map, Function.comp_def]
  · intro kh hkh
    simp only [bornByBatch, List.mem_map] at hkh
    obtain ⟨c, _, rfl⟩ := hkh
    rfl

theorem getCols_present {cs : List Nat} {p : PState} (h : FreshOk cs p) {c : Nat} (hc : c ∈ cs) :
    getCols p c = .ok (p, true) := by
  unfold getCols
  rw [lookup_keys_eq cs h.keys h.allRes hc]
  rfl

theorem flushHandles_ok_of_allResident {p : PState} (hp : p.phase = .fresh) (h : AllResident p.cols) :
    flushHandles p = .ok { p with phase := .handlesRead } := by
  unfold flushHandles
  simp only [hp, if_true]
  have : (p.cols.all fun kh => decide (kh.2 = Handle.resident)) = true := by
    simp only [List.all_eq_true, decide_eq_true_eq]
    exact h
  simp [this]

end LM.Conc.Cols
