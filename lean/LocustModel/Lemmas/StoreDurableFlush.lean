import LocustModel.Lemmas.StoreDurableIngest
import LocustModel.Store.Interleave
/-
  Invariant `Durable`, part 3: `flush` (InnerLocustDB::wal_flush) preserves it and ends with a clean directory.
    stage 1  freeze + Table::batch + persist_partitions        (`stage1_ok`)
    stage 2  every planned compaction, one table at a time      (`MidInv`, `compactOne_mid`)
    stage 3  persist_metastore, delete_orphaned_partitions, delete_wal_segments   (`DurableAt.flush`)
  Hypotheses on the inputs the model cannot compute (`FlushWF`): at most one compaction per table and flush
  (flush_table_buffer returns an Option), sub-partition key lists are non-empty; `reencode = id` is C07's theorem.
-/
namespace LM.Store
set_option linter.unusedSectionVars false
set_option linter.unusedSimpArgs false
set_option linter.unusedVariables false

variable {ν κ : Type} [DecidableEq ν]

structure FlushWF (fi : FlushIn ν) : Prop where
  once : (fi.compactions.map (·.1)).Nodup
  keysNew : ∀ t, fi.keysNew t ≠ []
  keysCompact : ∀ t, fi.keysCompact t ≠ []

-- ------------------------------------------------------------------------------------------------ stage 1

theorem tiles_snoc (ps : List (MemPart ν κ)) (p : MemPart ν κ) (a e : Nat) (h : tiles ps a e) (hp : p.offset = e) :
    tiles (ps ++ [p]) a (e + p.len) := by
  rw [tiles_append]; exact ⟨e, h, by simp [tiles, hp]⟩

theorem PartsOk.snoc {ps : List (MemPart ν κ)} {nextId nextOff : Nat} (h : PartsOk ps nextId nextOff) (p : MemPart ν κ)
    (hid : p.id = nextId) (hoff : p.offset = nextOff) (hkeys : p.keys ≠ []) (r : List (Batch ν κ)) (hr : p.rows = some r) (hne : r ≠ [])
    (hlen : p.len = rowsLen r) :
    PartsOk (ps ++ [p]) (nextId + 1) (nextOff + p.len) := by
  constructor
  · intro q hq
    rcases List.mem_append.mp hq with hq | hq
    · exact h.rows q hq
    · simp at hq; subst hq; exact ⟨r, hr, hne⟩
  · intro q hq
    rcases List.mem_append.mp hq with hq | hq
    · exact h.keys q hq
    · simp at hq; subst hq; exact hkeys
  · rw [List.map_append, List.nodup_append]
    refine ⟨h.nodup, by simp, ?_⟩
    intro a ha b hb e; subst e
    simp at hb
    obtain ⟨q, hq, e⟩ := List.mem_map.mp ha
    have := h.idlt q hq
    omega
  · intro q hq
    rcases List.mem_append.mp hq with hq | hq
    · have := h.idlt q hq; omega
    · simp at hq; subst hq; omega
  · exact tiles_snoc ps p 0 nextOff h.tile hoff
  · intro q hq r' hr'
    rcases List.mem_append.mp hq with hq | hq
    · exact h.lens q hq r' hr'
    · simp at hq; subst hq; rw [hr] at hr'; cases hr'; exact hlen

theorem PartsOk.mono {ps : List (MemPart ν κ)} {nextId nextOff : Nat} (h : PartsOk ps nextId nextOff) (n : Nat) (hn : nextId ≤ n) :
    PartsOk ps n nextOff :=
  ⟨h.rows, h.keys, h.nodup, fun p hp => Nat.lt_of_lt_of_le (h.idlt p hp) hn, h.tile, h.lens⟩

theorem insertByOffset_parts_end (ps : List (MemPart ν κ)) (p : MemPart ν κ) (a e : Nat) (h : tiles ps a e) (hp : p.offset = e) :
    insertByOffset MemPart.offset p ps = ps ++ [p] := by
  apply insertByOffset_end
  intro q hq
  have := (tiles_offset_le ps a e h q hq).2
  omega

theorem insertByOffset_meta_end (ps : List (MemPart ν κ)) (p : MemPart ν κ) (a e : Nat) (h : tiles ps a e) (hp : p.offset = e) :
    insertByOffset PartMeta.offset p.toMeta (ps.map MemPart.toMeta) = (ps ++ [p]).map MemPart.toMeta := by
  rw [insertByOffset_end]
  · simp
  · intro q hq
    obtain ⟨q', hq', rfl⟩ := List.mem_map.mp hq
    have := (tiles_offset_le ps a e h q' hq').2
    simp only [MemPart.toMeta]
    omega

/-- The catalogue entries and the files of a table (whose buffer is frozen) after batch + persist_partitions. -/
def stage1Cat (keys : List String) (tm : TableMem ν κ) (cat : List PartMeta) : List PartMeta :=
  match newPart? keys tm with
  | none => cat
  | some p => insertByOffset PartMeta.offset p.toMeta cat

def stage1Files (keys : List String) (tm : TableMem ν κ) (files : List (PartFile ν κ)) : List (PartFile ν κ) :=
  match newPart? keys tm with
  | none => files
  | some p => files ++ filesOf p

/-- `flush_table_buffer` on a table whose frozen buffer holds the share `mid` of the log and whose OPEN buffer
    holds the share `post` (requests acknowledged after the freeze): the frozen rows become one new partition, the
    open buffer is untouched.  Stated through `unfreezeT` (the table as it would be without the freeze). -/
theorem stage1_ok {t : TName ν} {tm : TableMem ν κ} {cat files pre mid post} (keys : List String) (choice : Option Nat)
    (h : TableOk t (unfreezeT tm) cat files pre (mid ++ post)) (hfr : tm.frozen = logOf t mid) (hkeys : keys ≠ []) :
    TableOk t (flushTableBuffer keys choice tm).1 (stage1Cat keys tm cat) (stage1Files keys tm files) (pre ++ mid) post ∧
    (∀ cid, (flushTableBuffer keys choice tm).2 = some cid →
      (∀ p ∈ (flushTableBuffer keys choice tm).1.parts, p.id < cid) ∧
      cid < (flushTableBuffer keys choice tm).1.nextId) := by
  have hparts : PartsOk tm.parts tm.nextId tm.nextOff := h.parts
  have hcat : cat = tm.parts.map MemPart.toMeta := h.cat
  have hfiles : files = tm.parts.flatMap filesOf := h.files
  have hflushed : partRows tm.parts = logOf t pre := h.flushed
  have hbuf : tm.buffer = logOf t post := by
    have := h.buffered
    simp only [unfreezeT] at this
    rw [logOf_append, hfr] at this
    exact List.append_cancel_left this
  have hne : logOf t ((pre ++ mid) ++ post) ≠ [] ∨ t = .metaTables := by
    rw [List.append_assoc]; exact h.nonempty
  have hnu : ∀ n, t = .user n → ∀ s, tm.colNames = some s → ∀ c, c ∈ s ↔ c ∈ namesIn (logOf t ((pre ++ mid) ++ post)) := by
    intro n ht s hs c; rw [List.append_assoc]; exact h.namesUser n ht s hs c
  have hnc : (∀ n, t ≠ .user n) → ∃ s, tm.colNames = some s ∧ ∀ c ∈ namesIn (logOf t ((pre ++ mid) ++ post)), c ∈ s := by
    intro hc; rw [List.append_assoc]; exact h.namesCat hc
  -- the table after `batch`
  have hb : ∃ tm1, batchTable keys tm = tm1 ∧
      TableOk t tm1 (stage1Cat keys tm cat) (stage1Files keys tm files) (pre ++ mid) post := by
    cases hfz : tm.frozen with
    | nil =>
      have hnp : newPart? keys tm = none := by simp [newPart?, hfz]
      refine ⟨_, rfl, ?_⟩
      have hmid : logOf t mid = [] := by rw [← hfr, hfz]
      simp only [batchTable, stage1Cat, stage1Files, hnp]
      constructor
      · exact hfz
      · exact hparts
      · exact hcat
      · exact hfiles
      · rw [logOf_append, hmid, List.append_nil]; exact hflushed
      · exact hbuf
      · exact hne
      · exact hnu
      · exact hnc
    | cons b bs =>
      have hnp : newPart? keys tm =
          some { id := tm.nextId, offset := tm.nextOff, len := rowsLen tm.frozen, keys := keys, rows := some tm.frozen } := by
        simp [newPart?, hfz]
      refine ⟨_, rfl, ?_⟩
      have hins := insertByOffset_parts_end tm.parts
        { id := tm.nextId, offset := tm.nextOff, len := rowsLen tm.frozen, keys := keys, rows := some tm.frozen } 0 tm.nextOff hparts.tile rfl
      have hinsm := insertByOffset_meta_end tm.parts
        { id := tm.nextId, offset := tm.nextOff, len := rowsLen tm.frozen, keys := keys, rows := some tm.frozen } 0 tm.nextOff hparts.tile rfl
      simp only [batchTable, stage1Cat, stage1Files, hnp]
      constructor
      · rfl
      · simp only [hins]
        exact hparts.snoc _ rfl rfl hkeys tm.frozen rfl (by rw [hfz]; simp) rfl
      · simp only [hins]; rw [hcat, hinsm]
      · simp only [hins]; rw [hfiles]; simp
      · simp only [hins]
        rw [partRows_append, hflushed, logOf_append, ← hfr]
        simp [partRows]
      · exact hbuf
      · exact hne
      · exact hnu
      · exact hnc
  obtain ⟨tm1, htm1, hok⟩ := hb
  unfold flushTableBuffer
  simp only [htm1]
  cases choice with
  | none => exact ⟨hok, fun cid hc => by cases hc⟩
  | some i =>
    simp only
    split
    · refine ⟨?_, ?_⟩
      · exact { hok with parts := hok.parts.mono _ (Nat.le_succ _) }
      · intro cid hc
        simp only [Option.some.injEq] at hc
        subst hc
        exact ⟨fun p hp => hok.parts.idlt p hp, Nat.lt_succ_self _⟩
    · exact ⟨hok, fun cid hc => by cases hc⟩

-- ------------------------------------------------------------------------------------------------ stage 2: list facts

theorem filter_not_suffix_ids (l1 l2 : List (MemPart ν κ)) (h : ((l1 ++ l2).map (·.id)).Nodup) :
    (l1 ++ l2).filter (fun p => !((l2.map (·.id)).contains p.id)) = l1 := by
  rw [List.map_append, List.nodup_append] at h
  obtain ⟨_, _, hdis⟩ := h
  rw [List.filter_append]
  have h1 : l1.filter (fun p => !((l2.map (·.id)).contains p.id)) = l1 := by
    rw [List.filter_eq_self]
    intro p hp
    have : p.id ∉ l2.map (·.id) := fun hin => hdis p.id (List.mem_map_of_mem (f := (·.id)) hp) p.id hin rfl
    simp [this]
  have h2 : l2.filter (fun p => !((l2.map (·.id)).contains p.id)) = [] := by
    rw [List.filter_eq_nil_iff]
    intro p hp
    have : p.id ∈ l2.map (·.id) := List.mem_map_of_mem (f := (·.id)) hp
    simp [this]
  rw [h1, h2]; simp

theorem filter_meta_not_suffix_ids (l1 l2 : List (MemPart ν κ)) (h : ((l1 ++ l2).map (·.id)).Nodup) :
    ((l1 ++ l2).map MemPart.toMeta).filter (fun m => !((l2.map (·.id)).contains m.id)) = l1.map MemPart.toMeta := by
  rw [List.filter_map]
  have : ((fun (m : PartMeta) => !((l2.map (·.id)).contains m.id)) ∘ MemPart.toMeta) = (fun (p : MemPart ν κ) => !((l2.map (·.id)).contains p.id)) := by
    funext p; rfl
  rw [this, filter_not_suffix_ids l1 l2 h]

theorem project_id (names : List (CName ν)) (b : Batch ν κ) (h : ∀ c ∈ b.names, c ∈ names) : project names b = b := by
  unfold project
  have : b.cols.filter (fun c => names.contains c.1) = b.cols := by
    rw [List.filter_eq_self]
    intro c hc
    have := h c.1 (by simp only [Batch.names]; exact List.mem_map_of_mem (f := (·.1)) hc)
    simp [this]
  rw [this]

theorem map_project_id (names : List (CName ν)) (bs : List (Batch ν κ)) (h : ∀ c ∈ namesIn bs, c ∈ names) :
    bs.map (project names) = bs := by
  induction bs with
  | nil => rfl
  | cons b bs ih =>
    simp only [List.map_cons]
    rw [project_id names b (fun c hc => h c (by simp [namesIn, hc])), ih (fun c hc => h c (by
      simp only [namesIn, List.flatMap_cons, List.mem_append]; right; exact hc))]

theorem coveredBy_true (names : List (CName ν)) (bs : List (Batch ν κ)) (h : ∀ c ∈ namesIn bs, c ∈ names) :
    coveredBy names bs = true := by
  simp only [coveredBy, List.all_eq_true]
  intro b hb c hc
  have : c ∈ names := h c (by simp only [namesIn, List.mem_flatMap]; exact ⟨b, hb, hc⟩)
  simp [this]

theorem namesIn_partRows_sub (l1 l2 : List (MemPart ν κ)) (c : CName ν) (h : c ∈ namesIn (partRows l2)) :
    c ∈ namesIn (partRows (l1 ++ l2)) := by
  rw [partRows_append, namesIn_append]; exact List.mem_append_right _ h

theorem partRows_ne_nil (ps : List (MemPart ν κ)) (p : MemPart ν κ) (hp : p ∈ ps) (r : List (Batch ν κ))
    (hr : p.rows = some r) (hne : r ≠ []) : partRows ps ≠ [] := by
  intro e
  simp only [partRows, List.flatMap_eq_nil_iff] at e
  have := e p hp
  rw [hr] at this
  exact hne this

-- ------------------------------------------------------------------------------------------------ stage 2: name set used by compact

theorem compactNames_spec {T T1 : Tables ν κ} {t : TName ν} {tm : TableMem ν κ} {names : List (CName ν)}
    {cat files} {pre post : List (Request ν κ)}
    (hT : T t = some tm) (hok : TableOk t tm cat files pre post)
    (hq : ∀ n s, queryColumnNames T n = .ok s → NamesRight (pre ++ post) n s)
    (h : compactNames T t tm = .ok (T1, names)) :
    ∃ tm1, T1 t = some tm1 ∧ SameData tm tm1 ∧ TableOk t tm1 cat files pre post ∧ (∀ t', t' ≠ t → T1 t' = T t') ∧
      (∀ c ∈ namesIn (logOf t (pre ++ post)), c ∈ names) := by
  unfold compactNames at h
  split at h
  · rename_i s hs
    cases h
    refine ⟨tm, hT, SameData.refl tm, hok, fun _ _ => rfl, ?_⟩
    intro c hc
    cases t with
    | user n => exact (hok.namesUser n rfl names hs c).mpr hc
    | metaTables =>
      obtain ⟨s', hs', hsub⟩ := hok.namesCat (by intro n e; cases e)
      rw [hs] at hs'; cases hs'; exact hsub c hc
    | metaCols n =>
      obtain ⟨s', hs', hsub⟩ := hok.namesCat (by intro n e; cases e)
      rw [hs] at hs'; cases hs'; exact hsub c hc
  · rename_i hnone
    split at h
    · rename_i n
      unfold ensureNames at h
      rw [hT] at h
      simp only [hnone] at h
      split at h
      · rename_i s hqs
        cases h
        have hnr := hq n names hqs
        refine ⟨{ tm with colNames := some names }, by simp [setTable], ⟨rfl, rfl, rfl, rfl, rfl⟩, ?_, ?_, ?_⟩
        · exact { hok with
            namesUser := by
              intro n' ht s' hs' c
              cases ht
              simp only [Option.some.injEq] at hs'
              subst hs'
              exact hnr c
            namesCat := fun hc => absurd rfl (hc n) }
        · intro t' ht'; simp [setTable, ht']
        · intro c hc; exact (hnr c).mpr hc
      · cases h
    · cases h

-- ------------------------------------------------------------------------------------------------ stage 2: one table slice

theorem not_contains_true {α : Type} [BEq α] [LawfulBEq α] (L : List α) (x : α) (h : x ∉ L) : (!(L.contains x)) = true := by
  simp [h]

theorem not_contains_false {α : Type} [BEq α] [LawfulBEq α] (L : List α) (x : α) (h : x ∈ L) : ¬ ((!(L.contains x)) = true) := by
  simp [h]

/-- `Table::compact` + `prepare_compact` on the slice of one table: the suffix `first :: rest'` of the offset-ordered
    partitions is replaced by ONE partition with a fresh id holding the same rows; the files of the suffix are
    scheduled for deletion; everything else stays. -/
theorem compact_slice {t : TName ν} {tm1 : TableMem ν κ} {cat : List PartMeta} {files : List (PartFile ν κ)}
    {pre post : List (Request ν κ)} {i cid : Nat} {keysC : List String} {names : List (CName ν)}
    {first : MemPart ν κ} {rest' : List (MemPart ν κ)} {oldRows : List (Batch ν κ)}
    (hok : TableOk t tm1 cat files pre post)
    (holds : tm1.parts.drop i = first :: rest') (hall : allRows (first :: rest') = some oldRows)
    (hcover : ∀ c ∈ namesIn (logOf t (pre ++ post)), c ∈ names) (hlt : ∀ p ∈ tm1.parts, p.id < cid) (hcid : cid < tm1.nextId)
    (hk : keysC ≠ []) (hlen : rowsLen oldRows = ((first :: rest').map (·.len)).sum) :
    TableOk t { tm1 with parts := (insertByOffset MemPart.offset (⟨cid, first.offset, rowsLen oldRows, keysC, some oldRows⟩ : MemPart ν κ)
                  (tm1.parts.filter (fun p => !(((first :: rest').map (·.id)).contains p.id)))) }
      (insertByOffset PartMeta.offset (MemPart.toMeta (ν := ν) (κ := κ) ⟨cid, first.offset, rowsLen oldRows, keysC, some oldRows⟩)
        (cat.filter (fun m => !(((first :: rest').map (·.id)).contains m.id))))
      ((files ++ filesOf (⟨cid, first.offset, rowsLen oldRows, keysC, some oldRows⟩ : MemPart ν κ)).filter (fun f =>
        !(((cat.filter (fun m => ((first :: rest').map (·.id)).contains m.id)).flatMap (fun m => m.keys.map (fun k => (m.id, k)))).contains (f.id, f.key))))
      pre post ∧
    oldRows.map (project names) = oldRows ∧ coveredBy names oldRows = true := by
  -- notation
  have hsplit : tm1.parts = tm1.parts.take i ++ (first :: rest') := by rw [← holds, List.take_append_drop]
  have hrowsAll : ∀ p ∈ tm1.parts, ∃ r, p.rows = some r := fun p hp => by
    obtain ⟨r, h1, _⟩ := hok.parts.rows p hp; exact ⟨r, h1⟩
  have hsub2 : ∀ p ∈ (first :: rest'), p ∈ tm1.parts := fun p hp => by rw [hsplit]; exact List.mem_append_right _ hp
  have hsub1 : ∀ p ∈ tm1.parts.take i, p ∈ tm1.parts := fun p hp => List.mem_of_mem_take hp
  have holdRows : oldRows = partRows (first :: rest') := by
    have := allRows_ok (first :: rest') (fun p hp => hrowsAll p (hsub2 p hp))
    rw [hall] at this; exact Option.some.inj this
  have hnd : ((tm1.parts.take i ++ (first :: rest')).map (·.id)).Nodup := by rw [← hsplit]; exact hok.parts.nodup
  have htile : tiles (tm1.parts.take i ++ (first :: rest')) 0 tm1.nextOff := by rw [← hsplit]; exact hok.parts.tile
  obtain ⟨m, ht1, ht2⟩ := (tiles_append _ _ 0 _).mp htile
  have hfo : first.offset = m := by simp only [tiles] at ht2; exact ht2.1
  have hend := tiles_end _ _ _ ht2
  have hcov : ∀ c ∈ namesIn oldRows, c ∈ names := by
    intro c hc
    apply hcover
    rw [logOf_append, namesIn_append]
    apply List.mem_append_left
    rw [← hok.flushed, hsplit]
    exact namesIn_partRows_sub _ _ c (by rw [← holdRows]; exact hc)
  have hne : oldRows ≠ [] := by
    obtain ⟨r, hr1, hr2⟩ := hok.parts.rows first (hsub2 first (List.mem_cons_self ..))
    rw [holdRows]
    exact partRows_ne_nil _ first (List.mem_cons_self ..) r hr1 hr2
  -- the new partition list
  have e1 : tm1.parts.filter (fun p => !(((first :: rest').map (·.id)).contains p.id)) = tm1.parts.take i := by
    conv => lhs; rw [hsplit]
    exact filter_not_suffix_ids _ _ hnd
  have e2 := insertByOffset_parts_end (tm1.parts.take i) ⟨cid, first.offset, rowsLen oldRows, keysC, some oldRows⟩ 0 m ht1 hfo
  have e3 : cat.filter (fun m => !(((first :: rest').map (·.id)).contains m.id)) = (tm1.parts.take i).map MemPart.toMeta := by
    rw [hok.cat]
    conv => lhs; rw [hsplit]
    exact filter_meta_not_suffix_ids _ _ hnd
  have e4 := insertByOffset_meta_end (tm1.parts.take i) ⟨cid, first.offset, rowsLen oldRows, keysC, some oldRows⟩ 0 m ht1 hfo
  -- membership in the deletion list
  have hdel : ∀ x, x ∈ (cat.filter (fun m => ((first :: rest').map (·.id)).contains m.id)).flatMap (fun m => m.keys.map (fun k => (m.id, k))) ↔
      ∃ p ∈ tm1.parts, p.id ∈ (first :: rest').map (·.id) ∧ x.1 = p.id ∧ x.2 ∈ p.keys := by
    intro x
    rw [hok.cat, List.mem_flatMap]
    constructor
    · rintro ⟨m', hm', hx⟩
      obtain ⟨hm1, hm2⟩ := List.mem_filter.mp hm'
      obtain ⟨p, hp, rfl⟩ := List.mem_map.mp hm1
      obtain ⟨k, hk', rfl⟩ := List.mem_map.mp hx
      refine ⟨p, hp, ?_, rfl, hk'⟩
      rw [List.contains_eq_mem, decide_eq_true_eq] at hm2
      exact hm2
    · rintro ⟨p, hp, hin, h1, h2⟩
      refine ⟨p.toMeta, List.mem_filter.mpr ⟨List.mem_map_of_mem hp, ?_⟩, ?_⟩
      · rw [List.contains_eq_mem, decide_eq_true_eq]; exact hin
      · refine List.mem_map.mpr ⟨x.2, h2, ?_⟩
        cases x; simp only at h1; simp [MemPart.toMeta, h1]
  have hidNotOld : ∀ p ∈ tm1.parts.take i, p.id ∉ (first :: rest').map (·.id) := by
    intro p hp hin
    rw [List.map_append, List.nodup_append] at hnd
    exact hnd.2.2 p.id (List.mem_map_of_mem (f := (·.id)) hp) p.id hin rfl
  have hcidNotOld : cid ∉ (first :: rest').map (·.id) := by
    intro hin
    obtain ⟨p, hp, e⟩ := List.mem_map.mp hin
    have := hlt p (hsub2 p hp)
    omega
  have efiles : (files ++ filesOf (⟨cid, first.offset, rowsLen oldRows, keysC, some oldRows⟩ : MemPart ν κ)).filter (fun f =>
        !(((cat.filter (fun m => ((first :: rest').map (·.id)).contains m.id)).flatMap (fun m => m.keys.map (fun k => (m.id, k)))).contains (f.id, f.key)))
      = (tm1.parts.take i ++ [(⟨cid, first.offset, rowsLen oldRows, keysC, some oldRows⟩ : MemPart ν κ)]).flatMap filesOf := by
    generalize (cat.filter (fun m => ((first :: rest').map (·.id)).contains m.id)).flatMap (fun m => m.keys.map (fun k => (m.id, k))) = D at hdel
    rw [hok.files]
    conv => lhs; rw [hsplit]
    rw [List.flatMap_append, List.filter_append, List.filter_append, List.flatMap_append]
    have k1 : ((tm1.parts.take i).flatMap filesOf).filter (fun f => !(D.contains (f.id, f.key)))
        = (tm1.parts.take i).flatMap filesOf := by
      rw [List.filter_eq_self]
      intro f hf
      obtain ⟨p, hp, hfp⟩ := List.mem_flatMap.mp hf
      simp only [filesOf, List.mem_map] at hfp
      obtain ⟨k, _, rfl⟩ := hfp
      apply not_contains_true
      rw [hdel]
      rintro ⟨q, hq, hin, h1, _⟩
      simp only at h1
      exact hidNotOld p hp (by rw [h1]; exact hin)
    have k2 : ((first :: rest').flatMap filesOf).filter (fun f => !(D.contains (f.id, f.key))) = [] := by
      rw [List.filter_eq_nil_iff]
      intro f hf
      obtain ⟨p, hp, hfp⟩ := List.mem_flatMap.mp hf
      simp only [filesOf, List.mem_map] at hfp
      obtain ⟨k, hk', rfl⟩ := hfp
      apply not_contains_false
      rw [hdel]
      exact ⟨p, hsub2 p hp, List.mem_map_of_mem (f := (·.id)) hp, rfl, hk'⟩
    have k3 : (filesOf (⟨cid, first.offset, rowsLen oldRows, keysC, some oldRows⟩ : MemPart ν κ)).filter (fun f => !(D.contains (f.id, f.key)))
        = filesOf (⟨cid, first.offset, rowsLen oldRows, keysC, some oldRows⟩ : MemPart ν κ) := by
      rw [List.filter_eq_self]
      intro f hf
      simp only [filesOf, List.mem_map] at hf
      obtain ⟨k, _, rfl⟩ := hf
      apply not_contains_true
      rw [hdel]
      rintro ⟨q, hq, hin, h1, _⟩
      simp only at h1
      exact hcidNotOld (by rw [h1]; exact hin)
    rw [k1, k2, k3]; simp
  refine ⟨?_, map_project_id names oldRows hcov, coveredBy_true names oldRows hcov⟩
  rw [e1, e2, e3, e4, efiles]
  constructor
  · exact hok.frozen
  · constructor
    · intro p hp
      rcases List.mem_append.mp hp with hp | hp
      · exact hok.parts.rows p (hsub1 p hp)
      · simp at hp; subst hp; exact ⟨oldRows, rfl, hne⟩
    · intro p hp
      rcases List.mem_append.mp hp with hp | hp
      · exact hok.parts.keys p (hsub1 p hp)
      · simp at hp; subst hp; exact hk
    · rw [List.map_append, List.nodup_append]
      refine ⟨?_, by simp, ?_⟩
      · rw [List.map_append, List.nodup_append] at hnd; exact hnd.1
      · intro a ha b hb e; subst e
        simp at hb
        obtain ⟨q, hq, e⟩ := List.mem_map.mp ha
        have := hlt q (hsub1 q hq)
        omega
    · intro p hp
      rcases List.mem_append.mp hp with hp | hp
      · exact hok.parts.idlt p (hsub1 p hp)
      · simp at hp; subst hp; exact hcid
    · rw [tiles_append]
      refine ⟨m, ht1, ?_⟩
      simp only [tiles]
      refine ⟨hfo, ?_⟩
      rw [hlen, hend]
    · intro p hp r' hr'
      rcases List.mem_append.mp hp with hp | hp
      · exact hok.parts.lens p (hsub1 p hp) r' hr'
      · simp at hp; subst hp; simp only [Option.some.injEq] at hr'; subst hr'; rfl
  · rfl
  · rfl
  · simp only
    rw [partRows_append, ← hok.flushed]
    conv => rhs; rw [hsplit, partRows_append]
    rw [holdRows]
    simp [partRows]
  · exact hok.buffered
  · exact hok.nonempty
  · exact hok.namesUser
  · exact hok.namesCat

-- ------------------------------------------------------------------------------------------------ stage 2: the fold over the planned compactions

abbrev FState (ν κ : Type) := World ν κ × (TName ν → List (Nat × String))

/-- Files of table `t` that are not scheduled for deletion. -/
def liveFiles (st : FState ν κ) (t : TName ν) : List (PartFile ν κ) :=
  (st.1.disk.parts t).filter (fun f => !((st.2 t).contains (f.id, f.key)))

/-- Invariant between batching and `persist_metastore`: every table holds its whole share of the log in
    partitions; the catalogue in memory mirrors them; the files not scheduled for deletion are exactly theirs.
    For the tables still to be compacted nothing is scheduled yet and the planned id is fresh. -/
structure MidInv (cidOf : TName ν → Option Nat) (pre post : List (Request ν κ)) (remaining : List (TName ν × Nat))
    (st : FState ν κ) : Prop where
  tabs : ∀ t tm, st.1.mem.tables t = some tm → TableOk t tm (st.1.mem.cat.parts t) (liveFiles st t) pre post
  absent : ∀ t, st.1.mem.tables t = none →
      t ≠ .metaTables ∧ logOf t (pre ++ post) = [] ∧ st.1.mem.cat.parts t = [] ∧ liveFiles st t = []
  pending : ∀ c ∈ remaining, st.2 c.1 = [] ∧ ∀ tm cid, st.1.mem.tables c.1 = some tm → cidOf c.1 = some cid →
      (∀ p ∈ tm.parts, p.id < cid) ∧ cid < tm.nextId
  lossy : st.1.lossy = false

theorem MidInv.query {cidOf : TName ν → Option Nat} {pre post : List (Request ν κ)} {rem} {st : FState ν κ}
    (hm : MidInv cidOf pre post rem st) (hlc : LogCat (pre ++ post)) (n : ν) (s : List (CName ν))
    (h : queryColumnNames st.1.mem.tables n = .ok s) : NamesRight (pre ++ post) n s := by
  obtain ⟨tmc, htmc⟩ := queryColumnNames_ok_some _ n s h
  obtain ⟨L, hL1, hL2, hL3⟩ := hlc.cols n
  have hc := (hm.tabs _ tmc htmc).content
  have := queryColumnNames_eq htmc hc hL1 h
  subst this
  exact hL3

theorem MidInv.weaken {cidOf : TName ν → Option Nat} {pre post : List (Request ν κ)} {c rest} {st : FState ν κ}
    (hm : MidInv cidOf pre post (c :: rest) st) : MidInv cidOf pre post rest st :=
  ⟨hm.tabs, hm.absent, fun c' hc' => hm.pending c' (List.mem_cons_of_mem _ hc'), hm.lossy⟩

theorem compactOne_mid {P : Params ν κ} {fi : FlushIn ν} {cidOf : TName ν → Option Nat} {pre post : List (Request ν κ)}
    {c : TName ν × Nat} {rest : List (TName ν × Nat)} {st st' : FState ν κ}
    (hre : ∀ bs, P.reencode bs = bs) (hkc : ∀ t, fi.keysCompact t ≠ []) (hlc : LogCat (pre ++ post))
    (hm : MidInv cidOf pre post (c :: rest) st) (hnd : c.1 ∉ rest.map (·.1))
    (h : compactOne P fi cidOf st c = .ok st') : MidInv cidOf pre post rest st' := by
  unfold compactOne at h
  simp only at h
  split at h
  · rename_i tm cid htm hcid
    split at h
    · cases h
    · rename_i T1 names hcn
      obtain ⟨hdel0, hpend⟩ := hm.pending c (List.mem_cons_self ..)
      obtain ⟨hlt, hcidlt⟩ := hpend tm cid htm hcid
      have hlive : liveFiles st c.1 = st.1.disk.parts c.1 := by
        simp [liveFiles, hdel0]
      have hok0 := hm.tabs c.1 tm htm
      rw [hlive] at hok0
      obtain ⟨tm1', htm1', hsd, hok1, hoth, hcover⟩ := compactNames_spec htm hok0 (fun n s hq => hm.query hlc n s hq) hcn
      split at h
      · cases h
      · rename_i tm1 htm1
        rw [htm1'] at htm1; cases htm1
        split at h
        · cases h; exact hm.weaken
        · cases h
        · rename_i first rest' oldRows holds hall
          rw [holds] at hall
          split at h
          · cases h
          · rename_i hlen
            cases h
            have hrows : P.reencode (oldRows.map (project names)) = oldRows ∧ coveredBy names oldRows = true ∧
                rowsLen oldRows = ((first :: rest').map (·.len)).sum := by
              have hparts : tm1'.parts = tm.parts := hsd.2.2.1
              have hsplit : tm1'.parts = tm1'.parts.take c.2 ++ (first :: rest') := by rw [← holds, List.take_append_drop]
              have hrowsAll : ∀ p ∈ (first :: rest'), ∃ r, p.rows = some r := fun p hp => by
                obtain ⟨r, h1, _⟩ := hok1.parts.rows p (by rw [hsplit]; exact List.mem_append_right _ hp); exact ⟨r, h1⟩
              have holdRows : oldRows = partRows (first :: rest') := by
                have := allRows_ok (first :: rest') hrowsAll
                rw [hall] at this; exact Option.some.inj this
              have hcov : ∀ c' ∈ namesIn oldRows, c' ∈ names := by
                intro c' hc'
                apply hcover
                rw [logOf_append, namesIn_append]
                apply List.mem_append_left
                rw [← hok1.flushed, hsplit]
                exact namesIn_partRows_sub _ _ c' (by rw [← holdRows]; exact hc')
              have e := map_project_id names oldRows hcov
              rw [e, hre] at hlen
              rw [e, hre]
              refine ⟨rfl, coveredBy_true names oldRows hcov, ?_⟩
              simp only [ne_eq, Decidable.not_not] at hlen
              rw [holds] at hlen
              exact hlen
            obtain ⟨hr1, hr2, hr3⟩ := hrows
            have hlt1 : ∀ p ∈ tm1'.parts, p.id < cid := by rw [hsd.2.2.1]; exact hlt
            have hcid1 : cid < tm1'.nextId := by rw [hsd.2.2.2.1]; exact hcidlt
            obtain ⟨hslice, _, _⟩ := compact_slice (names := names) hok1 holds hall hcover hlt1 hcid1 (hkc c.1) hr3
            simp only [hr1, holds]
            have hne_of_rest : ∀ c' ∈ rest, c'.1 ≠ c.1 := by
              intro c' hc' e
              exact hnd (by rw [← e]; exact List.mem_map_of_mem (f := (·.1)) hc')
            constructor
            · intro t tm2 htm2
              by_cases e : t = c.1
              · subst e
                simp only [setTable, if_true] at htm2
                cases htm2
                simp only [liveFiles, if_true, hdel0, List.nil_append]
                exact hslice
              · simp only [setTable, e, if_false] at htm2
                rw [hoth t e] at htm2
                have := hm.tabs t tm2 htm2
                simpa [liveFiles, e] using this
            · intro t ht
              have e : t ≠ c.1 := by
                intro e; subst e
                simp [setTable] at ht
              simp only [setTable, e, if_false] at ht
              rw [hoth t e] at ht
              have := hm.absent t ht
              simpa [liveFiles, e] using this
            · intro c' hc'
              have e := hne_of_rest c' hc'
              obtain ⟨h1, h2⟩ := hm.pending c' (List.mem_cons_of_mem _ hc')
              refine ⟨by simp [e, h1], ?_⟩
              intro tm2 cid2 htm2 hcid2
              simp only [setTable, e, if_false] at htm2
              rw [hoth c'.1 e] at htm2
              exact h2 tm2 cid2 htm2 hcid2
            · simp [hm.lossy, hr2]
  · cases h; exact hm.weaken

theorem compactFold_mid {P : Params ν κ} {fi : FlushIn ν} {cidOf : TName ν → Option Nat} {pre post : List (Request ν κ)}
    (hre : ∀ bs, P.reencode bs = bs) (hkc : ∀ t, fi.keysCompact t ≠ []) (hlc : LogCat (pre ++ post)) :
    ∀ (cs : List (TName ν × Nat)) (st st' : FState ν κ), (cs.map (·.1)).Nodup → MidInv cidOf pre post cs st →
      foldE (compactOne P fi cidOf) cs st = .ok st' → MidInv cidOf pre post [] st' := by
  intro cs
  induction cs with
  | nil => intro st st' _ hm h; simp [foldE] at h; subst h; exact hm
  | cons c cs ih =>
    intro st st' hnd hm h
    simp only [foldE] at h
    simp only [List.map_cons, List.nodup_cons] at hnd
    split at h
    · rename_i st1 h1
      exact ih st1 st' hnd.2 (compactOne_mid hre hkc hlc hm hnd.1 h1) h
    · cases h

-- ------------------------------------------------------------------------------------------------ the whole flush

theorem liveFiles_nil (w : World ν κ) (t : TName ν) : liveFiles (w, fun _ => []) t = w.disk.parts t := by
  unfold liveFiles
  rw [List.filter_eq_self]
  intro f _; rfl

/-- State of the world between the freeze block of a flush and the end of its batching; ingestion may have run since
    the freeze.  `midF` = the log segments captured by the freeze (ids `lo..hi`, their rows are in the FROZEN buffers),
    `postF` = the segments written since (ids `≥ hi`, rows in the OPEN buffers; the accounted size counts only them).
    Everything else is as if the freeze had not happened (`unfreeze`). -/
structure StageA (w : World ν κ) (lo hi : Nat) (pre : List (Request ν κ)) (midF postF : List (WalFile ν κ)) : Prop where
  dur : DurableAt (unfreeze w) pre
  split : w.disk.wal = midF ++ postF
  midIds : midF.map (·.id) = List.range' lo (hi - lo)
  lo_eq : w.mem.cat.earliest = lo
  lo_le : lo ≤ hi
  hi_le : hi ≤ w.mem.cat.nextWal
  frozen : ∀ t tm, w.mem.tables t = some tm → tm.frozen = logOf t (midF.map (·.req))
  size : w.mem.walSize = (postF.map (·.bytes)).sum

theorem unfreezeT_freezeTable (tm : TableMem ν κ) (h : tm.frozen = []) : unfreezeT (freezeTable tm) = tm := by
  cases tm
  simp only [unfreezeT, freezeTable] at *
  subst h
  simp

theorem unfreeze_freeze {w : World ν κ} {pre} (hd : DurableAt w pre) : unfreeze (freeze w) = w := by
  have ht : (fun t => ((w.mem.tables t).map freezeTable).map unfreezeT) = w.mem.tables := by
    funext t
    cases hw : w.mem.tables t with
    | none => rfl
    | some tm => simp [unfreezeT_freezeTable tm (hd.tabs t tm hw).frozen]
  have hs : (w.disk.wal.map (·.bytes)).sum = w.mem.walSize := hd.wal.size.symm
  cases w with
  | mk mem disk log lossy =>
    cases mem with
    | mk tables cat walSize =>
      simp only [unfreeze, freeze] at *
      rw [ht, hs]

/-- The freeze block of `wal_flush`. -/
theorem StageA.begin {w : World ν κ} {pre} (hd : DurableAt w pre) :
    StageA (freeze w) w.mem.cat.earliest w.mem.cat.nextWal pre w.disk.wal [] := by
  constructor
  · rw [unfreeze_freeze hd]; exact hd
  · simp [freeze]
  · exact hd.wal.ids
  · rfl
  · exact hd.wal.le
  · exact Nat.le_refl _
  · intro t tm' htm'
    simp only [freeze] at htm'
    cases hw : w.mem.tables t with
    | none => rw [hw] at htm'; cases htm'
    | some tm =>
      rw [hw] at htm'
      simp only [Option.map_some, Option.some.injEq] at htm'
      subst htm'
      exact (hd.tabs t tm hw).buffered
  · simp [freeze]

theorem StageA.log {w : World ν κ} {lo hi pre midF postF} (ha : StageA w lo hi pre midF postF) :
    w.log = (pre ++ midF.map (·.req)) ++ postF.map (·.req) := by
  have := ha.dur.log
  simp only [unfreeze] at this
  rw [this, ha.split, List.map_append, List.append_assoc]

theorem StageA.postIds {w : World ν κ} {lo hi pre midF postF} (ha : StageA w lo hi pre midF postF) :
    postF.map (·.id) = List.range' hi (w.mem.cat.nextWal - hi) := by
  have h := ha.dur.wal.ids
  simp only [walIds, unfreeze] at h
  rw [ha.split, List.map_append, ha.midIds, ha.lo_eq] at h
  have hle := ha.lo_le
  have hhi := ha.hi_le
  have e : w.mem.cat.nextWal - lo = (hi - lo) + (w.mem.cat.nextWal - hi) := by omega
  rw [e, range'_split] at h
  have e2 : lo + (hi - lo) = hi := by omega
  rw [e2] at h
  exact List.append_cancel_left h

theorem stage1_mid {w : World ν κ} {lo hi pre midF postF} (fi : FlushIn ν) (ha : StageA w lo hi pre midF postF) (hfi : FlushWF fi) :
    MidInv (fun t => (w.mem.tables t).bind (fun tm => (flushTableBuffer (fi.keysNew t) (fi.choice t) tm).2))
      (pre ++ midF.map (·.req)) (postF.map (·.req)) fi.compactions (batchAndPersist fi w, fun _ => []) := by
  have hwalreq : (unfreeze w).disk.wal.map (·.req) = midF.map (·.req) ++ postF.map (·.req) := by
    simp only [unfreeze]; rw [ha.split, List.map_append]
  have hT : ∀ t tm, w.mem.tables t = some tm →
      TableOk t (unfreezeT tm) (w.mem.cat.parts t) (w.disk.parts t) pre (midF.map (·.req) ++ postF.map (·.req)) := by
    intro t tm hw
    have := ha.dur.tabs t (unfreezeT tm) (by simp [unfreeze, hw])
    rw [hwalreq] at this
    exact this
  have hAbs : ∀ t, w.mem.tables t = none →
      t ≠ .metaTables ∧ logOf t ((pre ++ midF.map (·.req)) ++ postF.map (·.req)) = [] ∧ w.mem.cat.parts t = [] ∧ w.disk.parts t = [] := by
    intro t hw
    obtain ⟨h1, h2, h3, h4⟩ := ha.dur.absent t (by simp [unfreeze, hw])
    refine ⟨h1, ?_, h3, h4⟩
    rw [← ha.log]; exact h2
  constructor
  · intro t tm2 htm2
    simp only [batchAndPersist] at htm2
    cases hw : w.mem.tables t with
    | none => rw [hw] at htm2; simp at htm2
    | some tm =>
      rw [hw] at htm2
      simp only [Option.map_some, Option.some.injEq] at htm2
      subst htm2
      have h1 := (stage1_ok (fi.keysNew t) (fi.choice t) (hT t tm hw) (ha.frozen t tm hw) (hfi.keysNew t)).1
      have e1 : (batchAndPersist fi w).mem.cat.parts t = stage1Cat (fi.keysNew t) tm (w.mem.cat.parts t) := by
        simp only [batchAndPersist, hw, Option.bind_some, stage1Cat]
        cases newPart? (fi.keysNew t) tm <;> rfl
      have e2 : liveFiles (batchAndPersist fi w, fun _ => []) t = stage1Files (fi.keysNew t) tm (w.disk.parts t) := by
        rw [liveFiles_nil]
        simp only [batchAndPersist, hw, Option.bind_some, stage1Files]
        cases newPart? (fi.keysNew t) tm <;> rfl
      rw [e1, e2]; exact h1
  · intro t ht
    simp only [batchAndPersist] at ht
    have hw : w.mem.tables t = none := by
      cases hw : w.mem.tables t with
      | none => rfl
      | some tm => rw [hw] at ht; simp at ht
    obtain ⟨h1, h2, h3, h4⟩ := hAbs t hw
    refine ⟨h1, h2, ?_, ?_⟩
    · simp only [batchAndPersist, hw, Option.bind_none]; exact h3
    · rw [liveFiles_nil]
      simp only [batchAndPersist, hw, Option.bind_none, h4]
  · intro c hc
    refine ⟨rfl, ?_⟩
    intro tm2 cid htm2 hcid
    simp only [batchAndPersist] at htm2
    cases hw : w.mem.tables c.1 with
    | none => rw [hw] at htm2; simp at htm2
    | some tm =>
      rw [hw] at htm2 hcid
      simp only [Option.map_some, Option.some.injEq, Option.bind_some] at htm2 hcid
      subst htm2
      exact (stage1_ok (fi.keysNew c.1) (fi.choice c.1) (hT c.1 tm hw) (ha.frozen c.1 tm hw) (hfi.keysNew c.1)).2 cid hcid
  · have := ha.dur.lossy
    simpa [batchAndPersist, unfreeze] using this

/-- `delete_wal_segments(lo..hi)` removes exactly the captured segments. -/
theorem filter_split_window (midF postF : List (WalFile ν κ)) (lo hi : Nat)
    (hm : ∀ f ∈ midF, lo ≤ f.id ∧ f.id < hi) (hp : ∀ f ∈ postF, hi ≤ f.id) :
    (midF ++ postF).filter (fun f => !(decide (lo ≤ f.id) && decide (f.id < hi))) = postF := by
  rw [List.filter_append, filter_range_window midF lo hi hm, List.nil_append, List.filter_eq_self]
  intro f hf
  have := hp f hf
  simp; omega

/-- The rest of `wal_flush` after the freeze block, applied to a state in which ingestion may have run since the
    freeze: batching + persist_partitions + compactions (`flushBatchW`), then persist_metastore(hi),
    delete_orphaned_partitions, delete_wal_segments(lo..hi).  Afterwards the invariant holds again with the captured
    segments moved into partitions; the segments written since the freeze are still on disk. -/
theorem StageA.batch {P : Params ν κ} {w w3 : World ν κ} {toDel : TName ν → List (Nat × String)} {fi : FlushIn ν}
    {lo hi pre midF postF}
    (hre : ∀ bs, P.reencode bs = bs) (hfi : FlushWF fi) (ha : StageA w lo hi pre midF postF)
    (h : flushBatchW P w fi = .ok (w3, toDel)) :
    DurableAt (deleteWal (deleteOrphans (persistMeta w3 hi) toDel) lo hi) (pre ++ midF.map (·.req)) ∧
    (deleteWal (deleteOrphans (persistMeta w3 hi) toDel) lo hi).disk.wal = postF ∧
    w3.log = w.log ∧ w3.mem.cat.nextWal = w.mem.cat.nextWal ∧ w3.mem.walSize = w.mem.walSize ∧ w3.disk.wal = w.disk.wal := by
  unfold flushBatchW at h
  simp only at h
  have hsl := foldE_compact_sameLog P fi _ _ _ _ h
  obtain ⟨s1, s2, s3, s4, s5, s6⟩ := hsl
  simp only [batchAndPersist] at s1 s2 s3 s4 s5 s6
  have hlc : LogCat ((pre ++ midF.map (·.req)) ++ postF.map (·.req)) := by
    rw [← ha.log]
    have := ha.dur.logcat.whole
    simpa [unfreeze] using this
  have hm := compactFold_mid hre hfi.keysCompact hlc fi.compactions _ _ hfi.once (stage1_mid fi ha hfi) h
  have hmid : ∀ f ∈ midF, lo ≤ f.id ∧ f.id < hi := by
    intro f hf
    have := mem_ids_of_range ha.midIds f hf
    have := ha.lo_le
    omega
  have hpost : ∀ f ∈ postF, hi ≤ f.id := fun f hf => (mem_ids_of_range ha.postIds f hf).1
  have hwal : (deleteWal (deleteOrphans (persistMeta w3 hi) toDel) lo hi).disk.wal = postF := by
    simp only [deleteWal, deleteOrphans, persistMeta, s3, ha.split]
    exact filter_split_window midF postF lo hi hmid hpost
  have hlog : (deleteWal (deleteOrphans (persistMeta w3 hi) toDel) lo hi).log = w.log := by
    simpa [deleteWal, deleteOrphans, persistMeta] using s6
  refine ⟨⟨?_, ?_, ?_, ?_, ?_, ?_, ?_⟩, hwal, s6, s2, s5, s3⟩
  · constructor
    · have := ha.hi_le
      simp [deleteWal, deleteOrphans, persistMeta, s2]; exact this
    · simp only [walIds, hwal, ha.postIds]
      simp [deleteWal, deleteOrphans, persistMeta, s2]
    · simp [deleteWal, deleteOrphans, persistMeta]
    · rw [hwal]; simp [deleteWal, deleteOrphans, persistMeta, s5, ha.size]
  · simpa [deleteWal, deleteOrphans, persistMeta] using hm.lossy
  · simp [deleteWal, deleteOrphans, persistMeta]
  · rw [hwal, hlog, ha.log]
  · intro t tm htm
    rw [hwal]
    have := hm.tabs t tm (by simpa [deleteWal, deleteOrphans, persistMeta] using htm)
    simpa [deleteWal, deleteOrphans, persistMeta, liveFiles] using this
  · intro t ht
    obtain ⟨h1, h2, h3, h4⟩ := hm.absent t (by simpa [deleteWal, deleteOrphans, persistMeta] using ht)
    refine ⟨h1, ?_, ?_, ?_⟩
    · rw [hlog, ha.log]; exact h2
    · simpa [deleteWal, deleteOrphans, persistMeta] using h3
    · simpa [deleteWal, deleteOrphans, persistMeta, liveFiles] using h4
  · rw [hlog]
    have := ha.dur.logcat
    simpa [unfreeze] using this

/-- `wal_flush` (no ingestion in between) preserves the invariant; afterwards the whole log is in partitions (`pre = log`). -/
theorem DurableAt.flush {P : Params ν κ} {w w' : World ν κ} {fi : FlushIn ν} {pre}
    (hre : ∀ bs, P.reencode bs = bs) (hfi : FlushWF fi) (hd : DurableAt w pre) (h : flush P w fi = .ok w') :
    DurableAt w' w.log ∧ w'.log = w.log ∧ w'.disk.wal = [] ∧ w'.disk.metaFile = some ⟨w'.mem.cat.earliest, w'.mem.cat.parts⟩ := by
  rw [flush_eq_steps] at h
  split at h
  · cases h
  · rename_i w3 toDel hb
    cases h
    obtain ⟨hd', hwal, hlog, _, _, _⟩ := (StageA.begin hd).batch hre hfi hb
    refine ⟨?_, ?_, hwal, ?_⟩
    · rw [hd.log]; exact hd'
    · simpa [deleteWal, deleteOrphans, persistMeta, freeze] using hlog
    · simp [deleteWal, deleteOrphans, persistMeta]

theorem durable_flush (P : Params ν κ) (w w' : World ν κ) (fi : FlushIn ν)
    (hre : ∀ bs, P.reencode bs = bs) (hfi : FlushWF fi) (hd : Durable w) (h : flush P w fi = .ok w') : Durable w' := by
  obtain ⟨pre, hd⟩ := hd
  exact ⟨w.log, (hd.flush hre hfi h).1⟩

end LM.Store
