import LocustModel.Disk.Routing
/- Helper lemmas for C15: hex rendering, file names, table-name sanitising. -/
namespace LM.Routing

/-! ### hex -/

theorem hexDigit_inj {a b : Nat} (ha : a < 16) (hb : b < 16) (h : hexDigit a = hexDigit b) : a = b := by
  unfold hexDigit at h
  split at h <;> split at h <;> omega

/-- Characters that `sanitize_table_name` lets through: `[a-z0-9_.-]`. -/
def allowed (c : Nat) : Prop := (97 ≤ c ∧ c ≤ 122) ∨ (48 ≤ c ∧ c ≤ 57) ∨ c = 95 ∨ c = 45 ∨ c = 46
instance (c : Nat) : Decidable (allowed c) := by unfold allowed; exact inferInstance

/-- `[0-9a-f]`. -/
def isHex (c : Nat) : Prop := (48 ≤ c ∧ c ≤ 57) ∨ (97 ≤ c ∧ c ≤ 102)

theorem hexDigit_isHex {a : Nat} (ha : a < 16) : isHex (hexDigit a) := by
  unfold hexDigit isHex; split <;> omega

theorem isHex_allowed {c : Nat} (h : isHex c) : allowed c := by
  unfold isHex at h; unfold allowed; omega

theorem hexName_cons (b : UInt8) (d : List UInt8) :
    hexName (b :: d) = hexDigit (b.toNat / 16) :: hexDigit (b.toNat % 16) :: hexName d := by
  simp [hexName]

theorem hexName_length (d : List UInt8) : (hexName d).length = 2 * d.length := by
  induction d with
  | nil => rfl
  | cons b d ih => rw [hexName_cons]; simp [ih]; omega

theorem hexName_isHex (d : List UInt8) : ∀ c ∈ hexName d, isHex c := by
  induction d with
  | nil => simp [hexName]
  | cons b d ih =>
    rw [hexName_cons]
    have hb : b.toNat < 256 := b.toNat_lt
    intro c hc
    simp only [List.mem_cons] at hc
    rcases hc with rfl | rfl | hc
    · exact hexDigit_isHex (by omega)
    · exact hexDigit_isHex (by omega)
    · exact ih c hc

theorem hexName_inj (d d' : List UInt8) (h : hexName d = hexName d') : d = d' := by
  induction d generalizing d' with
  | nil =>
    cases d' with
    | nil => rfl
    | cons b d' => rw [hexName_cons] at h; simp [hexName] at h
  | cons b d ih =>
    cases d' with
    | nil => rw [hexName_cons] at h; simp [hexName] at h
    | cons b' d' =>
      rw [hexName_cons, hexName_cons] at h
      simp only [List.cons.injEq] at h
      obtain ⟨h1, h2, h3⟩ := h
      have hb : b.toNat < 256 := b.toNat_lt
      have hb' : b'.toNat < 256 := b'.toNat_lt
      have e1 := hexDigit_inj (by omega) (by omega) h1
      have e2 := hexDigit_inj (by omega) (by omega) h2
      have : b.toNat = b'.toNat := by omega
      rw [UInt8.toNat_inj.1 this, ih d' h3]

/-! ### decimal ids and partition file names -/

def decVal (ds : List Nat) : Nat := ds.foldl (fun a d => a * 10 + (d - 48)) 0

theorem foldl_dec_append (a : Nat) (l1 l2 : List Nat) :
    (l1 ++ l2).foldl (fun a d => a * 10 + (d - 48)) a =
      l2.foldl (fun a d => a * 10 + (d - 48)) (l1.foldl (fun a d => a * 10 + (d - 48)) a) := by
  simp [List.foldl_append]

theorem decVal_decDigits (n : Nat) : decVal (decDigits n) = n := by
  induction n using Nat.strongRecOn with
  | _ n ih =>
    rw [decDigits]
    split
    · simp [decVal]
    · rename_i h
      have := ih (n / 10) (by omega)
      unfold decVal at this ⊢
      rw [foldl_dec_append, this]
      simp; omega

def isDigit (c : Nat) : Prop := 48 ≤ c ∧ c ≤ 57

theorem decDigits_isDigit (n : Nat) : ∀ c ∈ decDigits n, isDigit c := by
  induction n using Nat.strongRecOn with
  | _ n ih =>
    rw [decDigits]
    split
    · intro c hc; simp at hc; subst hc; unfold isDigit; omega
    · intro c hc
      rcases List.mem_append.1 hc with hc | hc
      · exact ih (n / 10) (by omega) c hc
      · simp at hc; subst hc; unfold isDigit; omega

theorem pad5_isDigit (ds : List Nat) (h : ∀ c ∈ ds, isDigit c) : ∀ c ∈ pad5 ds, isDigit c := by
  intro c hc
  unfold pad5 at hc
  rcases List.mem_append.1 hc with hc | hc
  · rw [List.mem_replicate] at hc; rw [hc.2]; unfold isDigit; omega
  · exact h c hc

theorem foldl_zeros (n : Nat) : (List.replicate n 48).foldl (fun a d => a * 10 + (d - 48)) 0 = 0 := by
  induction n with
  | zero => rfl
  | succ n ih => simp [List.replicate_succ, ih]

theorem decVal_pad5 (ds : List Nat) : decVal (pad5 ds) = decVal ds := by
  unfold decVal pad5
  rw [foldl_dec_append, foldl_zeros]

/-- `{:05}` is injective on ids. -/
theorem pad5_decDigits_inj (a b : Nat) (h : pad5 (decDigits a) = pad5 (decDigits b)) : a = b := by
  have := congrArg decVal h
  rwa [decVal_pad5, decVal_pad5, decVal_decDigits, decVal_decDigits] at this

/-- Splitting at the first `_` is unambiguous when the prefix consists of digits. -/
theorem split_first_underscore (ds ds' r r' : List Nat)
    (h1 : ∀ c ∈ ds, isDigit c) (h2 : ∀ c ∈ ds', isDigit c)
    (h : ds ++ 95 :: r = ds' ++ 95 :: r') : ds = ds' ∧ r = r' := by
  induction ds generalizing ds' with
  | nil =>
    cases ds' with
    | nil => simpa using h
    | cons d ds' =>
      simp at h
      have := h2 d (by simp)
      unfold isDigit at this; omega
  | cons d ds ih =>
    cases ds' with
    | nil =>
      simp at h
      have := h1 d (by simp)
      unfold isDigit at this; omega
    | cons d' ds' =>
      simp only [List.cons_append, List.cons.injEq] at h
      obtain ⟨hd, hrest⟩ := h
      obtain ⟨e1, e2⟩ := ih ds' (fun c hc => h1 c (List.mem_cons_of_mem _ hc))
        (fun c hc => h2 c (List.mem_cons_of_mem _ hc)) hrest
      exact ⟨by rw [hd, e1], e2⟩

theorem partitionFilename_inj (id id' : Nat) (k k' : Name)
    (h : partitionFilename id k = partitionFilename id' k') : id = id' ∧ k = k' := by
  unfold partitionFilename at h
  simp only [List.append_assoc, List.cons_append, List.nil_append] at h
  obtain ⟨e1, e2⟩ := split_first_underscore _ _ _ _
    (pad5_isDigit _ (decDigits_isDigit id)) (pad5_isDigit _ (decDigits_isDigit id')) h
  exact ⟨pad5_decDigits_inj _ _ e1, List.append_cancel_right e2⟩

/-! ### sanitising -/

theorem lowerRetain_allowed (c : Nat) : ∀ x ∈ lowerRetain c, allowed x := by
  unfold lowerRetain allowed
  intro x hx
  split at hx
  · simp at hx; omega
  · split at hx
    · simp at hx; omega
    · split at hx
      · simp at hx; omega
      · split at hx
        · simp at hx; omega
        · simp at hx

theorem trimStart_mem (n : Name) : ∀ x ∈ trimStart n, x ∈ n := by
  induction n with
  | nil => simp [trimStart]
  | cons c cs ih =>
    simp only [trimStart]
    split
    · intro x hx; exact List.mem_cons_of_mem _ (ih x hx)
    · intro x hx; exact hx

theorem trimStart_head (n : Name) : ∀ x, (trimStart n).head? = some x → x ≠ 45 ∧ x ≠ 46 := by
  induction n with
  | nil => simp [trimStart]
  | cons c cs ih =>
    simp only [trimStart]
    split
    · exact ih
    · intro x hx; simp at hx; subst hx; omega

/-- Truncation yields a prefix, whatever the two literals are. -/
theorem truncName_prefix (n : Name) : ∃ k, truncName n = n.take k := by
  unfold truncName
  split
  · exact ⟨_, rfl⟩
  · exact ⟨n.length, by simp⟩

theorem cleanName_allowed (t : Name) : ∀ x ∈ cleanName t, allowed x := by
  intro x hx
  unfold cleanName at hx
  obtain ⟨k, hk⟩ := truncName_prefix (trimStart (t.flatMap lowerRetain))
  rw [hk] at hx
  have h1 := List.mem_of_mem_take hx
  have h2 := trimStart_mem _ x h1
  rw [List.mem_flatMap] at h2
  obtain ⟨c, _, hc⟩ := h2
  exact lowerRetain_allowed c x hc

theorem truncName_length (n : Name) :
    (truncName n).length ≤ max LM.Gen.RoutingConsts.tableNameTruncAbove LM.Gen.RoutingConsts.tableNameTruncTo := by
  unfold truncName
  split
  · simp only [List.length_take]; omega
  · omega

/-- Depends on the generated literals: with `> 189` / `[..189]` the cleaned name has at most 189 characters. -/
theorem cleanName_length (t : Name) : (cleanName t).length ≤ 189 := by
  have h := truncName_length (trimStart (t.flatMap lowerRetain))
  have hc : max LM.Gen.RoutingConsts.tableNameTruncAbove LM.Gen.RoutingConsts.tableNameTruncTo = 189 := by decide
  rw [hc] at h
  exact h

theorem cleanName_head (t : Name) : ∀ x, (cleanName t).head? = some x → x ≠ 45 ∧ x ≠ 46 := by
  intro x hx
  unfold cleanName at hx
  obtain ⟨k, hk⟩ := truncName_prefix (trimStart (t.flatMap lowerRetain))
  rw [hk] at hx
  apply trimStart_head (t.flatMap lowerRetain) x
  cases h : trimStart (t.flatMap lowerRetain) with
  | nil => rw [h] at hx; simp at hx
  | cons a as =>
    rw [h] at hx
    cases k with
    | zero => simp at hx
    | succ k => simpa using hx

theorem allowed_ascii {c : Nat} (h : allowed c) : utf8Len c = 1 := by
  unfold allowed at h; unfold utf8Len; split <;> omega

theorem byteLen_allowed (n : Name) (h : ∀ x ∈ n, allowed x) : byteLen n = n.length := by
  induction n with
  | nil => rfl
  | cons c cs ih =>
    unfold byteLen at ih ⊢
    simp only [List.map_cons, List.sum_cons, List.length_cons]
    rw [ih (fun x hx => h x (List.mem_cons_of_mem _ hx)), allowed_ascii (h c (by simp))]
    omega

theorem byteLen_append (a b : Name) : byteLen (a ++ b) = byteLen a + byteLen b := by
  unfold byteLen; simp [List.map_append, List.sum_append]

theorem byteLen_digits (n : Name) (h : ∀ c ∈ n, isDigit c) : byteLen n = n.length :=
  byteLen_allowed n (fun x hx => by have := h x hx; unfold isDigit at this; unfold allowed; omega)

/-- Number of decimal digits: `n < 10^k` (k ≥ 1) has at most `k` digits. -/
theorem decDigits_length_le : ∀ (k : Nat) (n : Nat), n < 10 ^ (k + 1) → (decDigits n).length ≤ k + 1
  | 0, n, h => by
    rw [decDigits]; simp at h
    simp [h]
  | k + 1, n, h => by
    rw [decDigits]
    by_cases hn : n < 10
    · simp [hn]
    · simp only [hn, if_false, List.length_append, List.length_singleton]
      have : n / 10 < 10 ^ (k + 1) := by
        rw [Nat.div_lt_iff_lt_mul (by decide)]
        calc n < 10 ^ (k + 1 + 1) := h
          _ = 10 ^ (k + 1) * 10 := by rw [Nat.pow_succ]
      have := decDigits_length_le k (n / 10) this
      omega

theorem pad5_length_le (ds : List Nat) : (pad5 ds).length ≤ max 5 ds.length := by
  unfold pad5; simp only [List.length_append, List.length_replicate]; omega

end LM.Routing
