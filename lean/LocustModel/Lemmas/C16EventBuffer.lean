import LocustModel.Wire.EventBuffer
/-
  Lemmas for C16 (event buffer): logical cells of sparse / short dense columns, the abstraction
  function of `ColumnData`, the one-step simulation of `push` by the specification fold, and the
  per-column projection of the table-level row API.
-/
namespace LM.Wire.EventBuffer
open LM

/-! ### sparse cells -/

theorem lookup_enumFrom : ∀ (d : List α) (k i : Nat),
    (enumFrom k d).lookup i = if k ≤ i then d[i - k]? else none
  | [], k, i => by simp [enumFrom]
  | x :: xs, k, i => by
    simp only [enumFrom, List.lookup_cons, lookup_enumFrom xs (k + 1) i]
    by_cases h : i = k
    · subst h; simp
    · have hb : (i == k) = false := by simpa using h
      simp only [hb]
      by_cases h2 : k + 1 ≤ i
      · have h3 : k ≤ i := by omega
        have h4 : i - k = (i - (k + 1)) + 1 := by omega
        simp [h2, h3, h4]
      · have h3 : ¬ k ≤ i := by omega
        simp [h2, h3]

theorem lookup_none_of_lt {d : List (Nat × α)} {n : Nat} (h : ∀ p ∈ d, p.1 < n) : d.lookup n = none := by
  induction d with
  | nil => rfl
  | cons p ps ih =>
    obtain ⟨i, v⟩ := p
    have hi : i < n := h (i, v) (by simp)
    have hb : (n == i) = false := by simpa using (by omega : n ≠ i)
    simp only [List.lookup_cons, hb]
    exact ih (fun p hp => h p (by simp [hp]))

/-- (S1) appending an entry for the new last row appends its cell. -/
theorem sparseCells_push (f : α → Val) {d : List (Nat × α)} {n : Nat} (v : α) (h : ∀ p ∈ d, p.1 < n) :
    sparseCells (n + 1) (d ++ [(n, v)]) f = sparseCells n d f ++ [f v] := by
  simp only [sparseCells, List.range_succ, List.map_append, List.map_cons, List.map_nil]
  congr 1
  · apply List.map_congr_left
    intro i hi
    have hi' : i < n := by simpa using hi
    have hb : (i == n) = false := by simpa using (by omega : i ≠ n)
    simp [List.lookup_append, List.lookup_cons, hb]
  · simp [List.lookup_append, lookup_none_of_lt h]

/-- (S2) a further row without an entry is NULL. -/
theorem sparseCells_succ (f : α → Val) {d : List (Nat × α)} {n : Nat} (h : ∀ p ∈ d, p.1 < n) :
    sparseCells (n + 1) d f = sparseCells n d f ++ [.null] := by
  simp [sparseCells, List.range_succ, lookup_none_of_lt h]

/-- (S3) NULL padding of a short dense column: `(rows, enumerate(data))` shows `data` followed by NULLs. -/
theorem sparseCells_enum (f : α → Val) (d : List α) : ∀ (n : Nat), d.length ≤ n →
    sparseCells n (enumFrom 0 d) f = d.map f ++ List.replicate (n - d.length) .null := by
  intro n hn
  apply List.ext_getElem?
  intro i
  simp only [sparseCells, lookup_enumFrom, Nat.zero_le, if_true, Nat.sub_zero, List.getElem?_map,
    List.getElem?_append, List.length_map, List.getElem?_replicate]
  by_cases h1 : i < d.length
  · have h2 : i < n := by omega
    simp [h1, h2]
  · have h3 : d[i]? = none := by simp; omega
    by_cases h2 : i < n
    · have h4 : i - d.length < n - d.length := by omega
      simp [h1, h2, h3, h4]
    · have h4 : ¬ i - d.length < n - d.length := by omega
      simp [h1, h2, h4]

/-- (S4) converting the values of a sparse column. -/
theorem sparseCells_map (f : β → Val) (g : α → β) (d : List (Nat × α)) (n : Nat) :
    sparseCells n (d.map fun p => (p.1, g p.2)) f = sparseCells n d (fun x => f (g x)) := by
  have hl : ∀ i, (d.map fun p => (p.1, g p.2)).lookup i = (d.lookup i).map g := by
    intro i
    induction d with
    | nil => rfl
    | cons p ps ih => obtain ⟨j, v⟩ := p; simp only [List.map_cons, List.lookup_cons, ih]; split <;> rfl
  simp only [sparseCells, hl]
  apply List.map_congr_left
  intro i _
  cases d.lookup i <;> rfl

/-! ### abstraction function and well-formedness of numeric column data -/

/-- Logical cells represented by column data in a table of `n` rows. -/
def abs : ColumnData → Nat → List Val
  | .empty, n => List.replicate n .null
  | .dense d, n => d.map .float ++ List.replicate (n - d.length) .null
  | .sparse d, n => sparseCells n d .float
  | .i64 d, n => d.map .int ++ List.replicate (n - d.length) .null
  | .sparseI64 d, n => sparseCells n d .int
  | .str d, _ => d.map .str
  | .mixed d, _ => d

/-- Representation invariant of the numeric states (and `Empty`) after `n` rows. -/
def numWf : ColumnData → Nat → Prop
  | .empty, _ => True
  | .dense d, n => d.length ≤ n
  | .sparse d, n => ∀ p ∈ d, p.1 < n
  | .i64 d, n => d.length ≤ n
  | .sparseI64 d, n => ∀ p ∈ d, p.1 < n
  | .str _, _ => False
  | .mixed _, _ => False

def kindFloat : ColumnData → Bool
  | .dense _ => true
  | .sparse _ => true
  | _ => false

theorem mem_enumFrom_lt : ∀ (d : List α) (k : Nat) (p : Nat × α), p ∈ enumFrom k d → p.1 < k + d.length
  | [], _, _, h => by simp [enumFrom] at h
  | x :: xs, k, p, h => by
    simp only [enumFrom, List.mem_cons] at h
    rcases h with rfl | h
    · simp
    · have := mem_enumFrom_lt xs (k + 1) p h
      simp only [List.length_cons]; omega

/-- The server-side column built from well-formed numeric data shows exactly the abstract cells. -/
theorem abs_eq {d : ColumnData} {n : Nat} (h : numWf d n) :
    ∃ ic, fromColumnData d n = .ok ic ∧ ic.cells = abs d n := by
  cases d with
  | empty => exact ⟨_, rfl, rfl⟩
  | dense data =>
    simp only [numWf] at h
    by_cases hl : data.length < n
    · exact ⟨.nullableFloat n (enumFrom 0 data), by simp [fromColumnData, hl],
        by simp [InputColumn.cells, abs, sparseCells_enum _ _ _ h]⟩
    · have : n - data.length = 0 := by omega
      exact ⟨.float data, by simp [fromColumnData, hl], by simp [InputColumn.cells, abs, this]⟩
  | sparse data => exact ⟨_, rfl, rfl⟩
  | i64 data =>
    simp only [numWf] at h
    by_cases hl : data.length < n
    · exact ⟨.nullableInt n (enumFrom 0 data), by simp [fromColumnData, hl],
        by simp [InputColumn.cells, abs, sparseCells_enum _ _ _ h]⟩
    · have : n - data.length = 0 := by omega
      exact ⟨.int data, by simp [fromColumnData, hl], by simp [InputColumn.cells, abs, this]⟩
  | sparseI64 data => exact ⟨_, rfl, rfl⟩
  | str data => exact absurd h (by simp [numWf])
  | mixed data => exact absurd h (by simp [numWf])

/-! ### the specification as a fold, and its closed form -/

/-- One row of the specification: state = (a float was seen, cells so far). -/
def specStep (s : Bool × List Val) (v : Val) : Bool × List Val :=
  match v with
  | .float _ => (true, s.2.map promote ++ [v])
  | .int _ => (s.1, s.2 ++ [if s.1 then promote v else v])
  | _ => (s.1, s.2 ++ [v])

theorem promote_idem (v : Val) : promote (promote v) = promote v := by cases v <;> rfl

theorem specFold_closed : ∀ (vs : List Val) (fl : Bool) (cs : List Val),
    (vs.foldl specStep (fl, cs)).2 =
      (if vs.any Val.isFloat then cs.map promote else cs) ++
      (if fl || vs.any Val.isFloat then vs.map promote else vs)
  | [], fl, cs => by simp
  | v :: vs, fl, cs => by
    rw [List.foldl_cons]
    cases v with
    | float b =>
      simp only [specStep]
      rw [specFold_closed vs true _]
      have hp : promote (.float b) = .float b := rfl
      by_cases h : vs.any Val.isFloat <;>
        simp [h, Val.isFloat, hp, promote_idem, List.map_append, Function.comp_def]
    | int i =>
      simp only [specStep]
      rw [specFold_closed vs fl _]
      cases fl <;> by_cases h : vs.any Val.isFloat <;>
        simp [h, Val.isFloat, promote, List.map_append]
    | null =>
      simp only [specStep]
      rw [specFold_closed vs fl _]
      cases fl <;> by_cases h : vs.any Val.isFloat <;>
        simp [h, Val.isFloat, promote, List.map_append]
    | str s =>
      simp only [specStep]
      rw [specFold_closed vs fl _]
      cases fl <;> by_cases h : vs.any Val.isFloat <;>
        simp [h, Val.isFloat, promote, List.map_append]

theorem specFold_eq_specCells (vs : List Val) : (vs.foldl specStep (false, [])).2 = specCells vs := by
  rw [specFold_closed]; simp [specCells]

/-! ### one-step simulation of `push` by the specification -/

theorem sparseCells_nil (f : α → Val) (n : Nat) : sparseCells n ([] : List (Nat × α)) f = List.replicate n .null := by
  induction n with
  | zero => rfl
  | succ n ih =>
    have : sparseCells (n + 1) ([] : List (Nat × α)) f = sparseCells n [] f ++ [.null] :=
      sparseCells_succ f (by simp)
    rw [this, ih, List.replicate_succ']

theorem numWf_succ {d : ColumnData} {n : Nat} (h : numWf d n) : numWf d (n + 1) := by
  cases d <;> simp only [numWf] at * <;> first | omega | trivial | (intro p hp; have := h p hp; omega)

/-- A row that does not touch the data shows NULL. -/
theorem abs_succ {d : ColumnData} {n : Nat} (h : numWf d n) : abs d (n + 1) = abs d n ++ [.null] := by
  cases d with
  | empty => simp [abs, List.replicate_succ']
  | dense data =>
    simp only [numWf] at h
    have : n + 1 - data.length = (n - data.length) + 1 := by omega
    simp [abs, this, List.replicate_succ']
  | sparse data => exact sparseCells_succ _ h
  | i64 data =>
    simp only [numWf] at h
    have : n + 1 - data.length = (n - data.length) + 1 := by omega
    simp [abs, this, List.replicate_succ']
  | sparseI64 data => exact sparseCells_succ _ h
  | str data => exact absurd h (by simp [numWf])
  | mixed data => exact absurd h (by simp [numWf])

theorem sparseCells_float_promote (d : List (Nat × Nat)) (n : Nat) :
    (sparseCells n d .float).map promote = sparseCells n d .float := by
  simp only [sparseCells, List.map_map]
  apply List.map_congr_left
  intro i _
  simp only [Function.comp]
  cases d.lookup i <;> rfl

theorem sparseCells_int_promote (d : List (Nat × Int)) (n : Nat) :
    (sparseCells n d .int).map promote = sparseCells n d (fun x => .float (i64AsF64 x)) := by
  simp only [sparseCells, List.map_map]
  apply List.map_congr_left
  intro i _
  simp only [Function.comp]
  cases d.lookup i <;> rfl

/-- Cells of a float-kind (or empty) column are unchanged by the int→float coercion. -/
theorem abs_promote_float {d : ColumnData} (n : Nat) (h : kindFloat d = true ∨ d = .empty) :
    (abs d n).map promote = abs d n := by
  cases d with
  | empty => simp [abs, promote]
  | dense data => simp [abs, promote, Function.comp_def]
  | sparse data => exact sparseCells_float_promote data n
  | i64 data => simp [kindFloat] at h
  | sparseI64 data => simp [kindFloat] at h
  | str data => simp [kindFloat] at h
  | mixed data => simp [kindFloat] at h

/-- The `(Dense, Float)` arm appends one float cell (staying dense or turning sparse). -/
theorem pushDenseFloat_abs (data : List Nat) (v n : Nat) (h : data.length ≤ n) :
    numWf (pushDenseFloat data v n) (n + 1) ∧ kindFloat (pushDenseFloat data v n) = true ∧
    abs (pushDenseFloat data v n) (n + 1) = abs (.dense data) n ++ [.float v] := by
  unfold pushDenseFloat
  by_cases hl : data.length = n
  · subst hl
    simp [numWf, kindFloat, abs]
  · have hk : ∀ p ∈ enumFrom 0 data, p.1 < n := fun p hp => by
      have := mem_enumFrom_lt data 0 p hp; omega
    refine ⟨?_, ?_, ?_⟩
    · simp only [hl, if_false, numWf, List.mem_append, List.mem_singleton]
      rintro p (hp | rfl)
      · have := hk p hp; omega
      · simp
    · simp [hl, kindFloat]
    · simp only [hl, if_false, abs]
      rw [sparseCells_push _ v hk, sparseCells_enum _ _ _ h]

theorem pushDenseInt_abs (data : List Int) (v : Int) (n : Nat) (h : data.length ≤ n) :
    let d' := if data.length = n then ColumnData.i64 (data ++ [v]) else .sparseI64 (enumFrom 0 data ++ [(n, v)])
    numWf d' (n + 1) ∧ kindFloat d' = false ∧ abs d' (n + 1) = abs (.i64 data) n ++ [.int v] := by
  by_cases hl : data.length = n
  · subst hl
    simp [numWf, kindFloat, abs]
  · have hk : ∀ p ∈ enumFrom 0 data, p.1 < n := fun p hp => by
      have := mem_enumFrom_lt data 0 p hp; omega
    refine ⟨?_, ?_, ?_⟩
    · simp only [hl, if_false, numWf, List.mem_append, List.mem_singleton]
      rintro p (hp | rfl)
      · have := hk p hp; omega
      · simp
    · simp [hl, kindFloat]
    · simp only [hl, if_false, abs]
      rw [sparseCells_push _ v hk, sparseCells_enum _ _ _ h]

theorem sparse_push_wf {d : List (Nat × α)} {n : Nat} (v : α) (h : ∀ p ∈ d, p.1 < n) :
    ∀ p ∈ d ++ [(n, v)], p.1 < n + 1 := by
  intro p hp
  simp only [List.mem_append, List.mem_singleton] at hp
  rcases hp with hp | rfl
  · have := h p hp; omega
  · simp

/-- One row: `push` succeeds on numeric values, keeps the invariant, and the represented cells move
    exactly as the specification fold prescribes. -/
theorem push_sim {d : ColumnData} {n : Nat} (v : Val) (hwf : numWf d n) (hv : v.isStr = false) :
    ∃ d', push d v n = .ok d' ∧ numWf d' (n + 1) ∧
      (kindFloat d', abs d' (n + 1)) = specStep (kindFloat d, abs d n) v := by
  cases v with
  | str s => simp [Val.isStr] at hv
  | null =>
    refine ⟨d, by cases d <;> rfl, numWf_succ hwf, ?_⟩
    simp [specStep, abs_succ hwf]
  | int i =>
    cases d with
    | empty =>
      by_cases h0 : n = 0
      · subst h0; exact ⟨.i64 [i], by simp [push], by simp [numWf], by simp [specStep, kindFloat, abs]⟩
      · refine ⟨.sparseI64 [(n, i)], by simp [push, h0], by simp [numWf], ?_⟩
        have := sparseCells_push (d := []) Val.int (n := n) i (by simp)
        simp only [List.nil_append] at this
        simp [specStep, kindFloat, abs, this, sparseCells_nil]
    | dense data =>
      obtain ⟨h1, h2, h3⟩ := pushDenseFloat_abs data (i64AsF64 i) n hwf
      exact ⟨_, by simp [push], h1, by rw [h2, h3]; simp [specStep, kindFloat, promote]⟩
    | sparse data =>
      refine ⟨.sparse (data ++ [(n, i64AsF64 i)]), by simp [push], sparse_push_wf _ hwf, ?_⟩
      simp [specStep, kindFloat, abs, sparseCells_push _ _ hwf, promote]
    | i64 data =>
      obtain ⟨h1, h2, h3⟩ := pushDenseInt_abs data i n hwf
      exact ⟨_, by simp [push], h1, by rw [h2, h3]; simp [specStep, kindFloat]⟩
    | sparseI64 data =>
      refine ⟨.sparseI64 (data ++ [(n, i)]), by simp [push], sparse_push_wf _ hwf, ?_⟩
      simp [specStep, kindFloat, abs, sparseCells_push _ _ hwf]
    | str data => exact absurd hwf (by simp [numWf])
    | mixed data => exact absurd hwf (by simp [numWf])
  | float b =>
    cases d with
    | empty =>
      by_cases h0 : n = 0
      · subst h0; exact ⟨.dense [b], by simp [push], by simp [numWf], by simp [specStep, kindFloat, abs]⟩
      · refine ⟨.sparse [(n, b)], by simp [push, h0], by simp [numWf], ?_⟩
        have := sparseCells_push (d := []) Val.float (n := n) b (by simp)
        simp only [List.nil_append] at this
        simp [specStep, kindFloat, abs, this, sparseCells_nil, promote]
    | dense data =>
      obtain ⟨h1, h2, h3⟩ := pushDenseFloat_abs data b n hwf
      refine ⟨_, by simp [push], h1, ?_⟩
      simp only [specStep, h2, h3, abs_promote_float (d := .dense data) n (Or.inl rfl)]
    | sparse data =>
      refine ⟨.sparse (data ++ [(n, b)]), by simp [push], sparse_push_wf _ hwf, ?_⟩
      simp only [specStep, kindFloat, abs, sparseCells_push _ _ hwf, sparseCells_float_promote]
    | i64 data =>
      have hlen : (data.map i64AsF64).length ≤ n := by simpa [numWf] using hwf
      obtain ⟨h1, h2, h3⟩ := pushDenseFloat_abs (data.map i64AsF64) b n hlen
      refine ⟨_, by simp [push], h1, ?_⟩
      rw [h2, h3]
      simp [specStep, abs, promote, Function.comp_def]
    | sparseI64 data =>
      have hwf' : ∀ p ∈ data.map (fun p => (p.1, i64AsF64 p.2)), p.1 < n := by
        intro p hp
        simp only [List.mem_map] at hp
        obtain ⟨q, hq, rfl⟩ := hp
        exact hwf q hq
      refine ⟨.sparse (data.map (fun p => (p.1, i64AsF64 p.2)) ++ [(n, b)]), by simp [push],
        sparse_push_wf _ hwf', ?_⟩
      simp only [specStep, kindFloat, abs, sparseCells_push _ _ hwf', sparseCells_map,
        sparseCells_int_promote]
    | str data => exact absurd hwf (by simp [numWf])
    | mixed data => exact absurd hwf (by simp [numWf])

/-- All rows of a numeric column. -/
theorem pushAll_num : ∀ (vs : List Val) (d : ColumnData) (n : Nat), numWf d n →
    (∀ v ∈ vs, v.isStr = false) →
    ∃ d', pushAll d n vs = .ok d' ∧ numWf d' (n + vs.length) ∧
      abs d' (n + vs.length) = (vs.foldl specStep (kindFloat d, abs d n)).2
  | [], d, n, hwf, _ => ⟨d, rfl, hwf, rfl⟩
  | v :: vs, d, n, hwf, hv => by
    obtain ⟨d1, e1, w1, s1⟩ := push_sim v hwf (hv v (by simp))
    obtain ⟨d2, e2, w2, s2⟩ := pushAll_num vs d1 (n + 1) w1 (fun x hx => hv x (by simp [hx]))
    have hlen : n + (v :: vs).length = n + 1 + vs.length := by simp only [List.length_cons]; omega
    refine ⟨d2, by simp [pushAll, e1, e2], hlen ▸ w2, ?_⟩
    rw [hlen, s2, List.foldl_cons, ← s1]

/-- All rows of a string column (every row supplies a string). -/
theorem pushAll_str : ∀ (vs : List Val) (data : List String) (n : Nat), data.length = n →
    (∀ v ∈ vs, v.isStr = true) →
    ∃ data', pushAll (.str data) n vs = .ok (.str data') ∧ data'.length = n + vs.length ∧
      data'.map Val.str = data.map Val.str ++ vs
  | [], data, n, hl, _ => ⟨data, rfl, by simpa using hl, by simp⟩
  | v :: vs, data, n, hl, hv => by
    cases v with
    | str s =>
      obtain ⟨data', e, l, c⟩ := pushAll_str vs (data ++ [s]) (n + 1) (by simp [hl])
        (fun x hx => hv x (by simp [hx]))
      refine ⟨data', by simp [pushAll, push, hl, e], by simp only [List.length_cons]; omega, ?_⟩
      simp [c]
    | null => exact absurd (hv .null (by simp)) (by simp [Val.isStr])
    | int i => exact absurd (hv (.int i) (by simp)) (by simp [Val.isStr])
    | float b => exact absurd (hv (.float b) (by simp)) (by simp [Val.isStr])

/-- Column-level round trip: in the supported domain the pushes succeed and the server-side column
    shows exactly the specified cells. -/
theorem column_cells (vs : List Val) (h : Supported vs) :
    ∃ d ic, pushAll .empty 0 vs = .ok d ∧ fromColumnData d vs.length = .ok ic ∧ ic.cells = specCells vs := by
  have hnum : (∀ v ∈ vs, v.isStr = false) →
      ∃ d ic, pushAll .empty 0 vs = .ok d ∧ fromColumnData d vs.length = .ok ic ∧ ic.cells = specCells vs := by
    intro hv
    obtain ⟨d, e, w, a⟩ := pushAll_num vs .empty 0 (by simp [numWf]) hv
    simp only [Nat.zero_add] at w a
    obtain ⟨ic, e2, c⟩ := abs_eq w
    refine ⟨d, ic, e, e2, ?_⟩
    rw [c, a]
    exact specFold_eq_specCells vs
  rcases h with hs | hn
  · cases vs with
    | nil => exact hnum (by simp)
    | cons v vs =>
      cases v with
      | str s =>
        obtain ⟨data', e, l, c⟩ := pushAll_str vs [s] 1 rfl (fun x hx => hs x (by simp [hx]))
        have hnf : (Val.str s :: vs).any Val.isFloat = false := by
          simp only [List.any_eq_false]
          intro x hx
          have := hs x hx
          cases x <;> simp_all [Val.isStr, Val.isFloat]
        refine ⟨.str data', .str data', by simp [pushAll, push, e], ?_, ?_⟩
        · have : data'.length = (Val.str s :: vs).length := by simp only [List.length_cons]; omega
          simp [fromColumnData, this]
        · simp [InputColumn.cells, specCells, hnf, c]
      | null => exact absurd (hs .null (by simp)) (by simp [Val.isStr])
      | int i => exact absurd (hs (.int i) (by simp)) (by simp [Val.isStr])
      | float b => exact absurd (hs (.float b) (by simp)) (by simp [Val.isStr])
  · exact hnum hn

/-! ### table level: every column evolves independently -/

/-- Column `c` of the map (`Empty` when absent, as `entry(c).or_default()` would create it). -/
def getCol (cols : List (String × ColumnData)) (c : String) : ColumnData := (cols.lookup c).getD .empty

theorem push_null (d : ColumnData) (len : Nat) : push d .null len = .ok d := by cases d <;> rfl

theorem upsert_spec (name : String) (v : Val) (len : Nat) : ∀ (cols : List (String × ColumnData)) (d' : ColumnData),
    push (getCol cols name) v len = .ok d' →
    ∃ cols', upsert name v len cols = .ok cols' ∧ getCol cols' name = d' ∧
      (∀ c, c ≠ name → getCol cols' c = getCol cols c) ∧
      (∀ c, (cols'.lookup c).isSome = ((cols.lookup c).isSome || c == name))
  | [], d', h => by
    simp only [getCol, List.lookup_nil, Option.getD_none] at h
    refine ⟨[(name, d')], by simp [upsert, h], by simp [getCol, List.lookup_cons], ?_, ?_⟩
    · intro c hc
      have : (c == name) = false := by simpa using hc
      simp [getCol, List.lookup_cons, this]
    · intro c
      by_cases hc : c = name
      · subst hc; simp [List.lookup_cons]
      · have : (c == name) = false := by simpa using hc
        simp [List.lookup_cons, this]
  | (k, d) :: rest, d', h => by
    by_cases hk : k = name
    · subst hk
      simp only [getCol, List.lookup_cons, beq_self_eq_true, Option.getD_some] at h
      refine ⟨(k, d') :: rest, by simp [upsert, h], by simp [getCol, List.lookup_cons], ?_, ?_⟩
      · intro c hc
        have : (c == k) = false := by simpa using hc
        simp [getCol, List.lookup_cons, this]
      · intro c
        by_cases hc : c = k
        · subst hc; simp [List.lookup_cons]
        · have : (c == k) = false := by simpa using hc
          simp [List.lookup_cons, this]
    · have hb : (name == k) = false := by simpa using (Ne.symm hk)
      have h' : push (getCol rest name) v len = .ok d' := by
        simpa [getCol, List.lookup_cons, hb] using h
      obtain ⟨r, e, g1, g2, g3⟩ := upsert_spec name v len rest d' h'
      refine ⟨(k, d) :: r, by simp [upsert, hk, e], ?_, ?_, ?_⟩
      · simpa [getCol, List.lookup_cons, hb] using g1
      · intro c hc
        by_cases hck : c = k
        · subst hck; simp [getCol, List.lookup_cons]
        · have : (c == k) = false := by simpa using hck
          have := g2 c hc
          simpa [getCol, List.lookup_cons, ‹(c == k) = false›] using this
      · intro c
        by_cases hck : c = k
        · subst hck; simp [List.lookup_cons]
        · have : (c == k) = false := by simpa using hck
          simpa [List.lookup_cons, this] using g3 c

theorem rowVal_cons_self (name : String) (v : Val) (rest : List (String × Val)) :
    rowVal name ((name, v) :: rest) = v := by simp [rowVal, List.lookup_cons]

theorem rowVal_cons_ne {c name : String} (h : c ≠ name) (v : Val) (rest : List (String × Val)) :
    rowVal c ((name, v) :: rest) = rowVal c rest := by
  have : (c == name) = false := by simpa using h
  simp [rowVal, List.lookup_cons, this]

theorem rowVal_absent {c : String} {row : List (String × Val)} (h : c ∉ row.map (·.1)) : rowVal c row = .null := by
  induction row with
  | nil => rfl
  | cons e rest ih =>
    obtain ⟨k, v⟩ := e
    simp only [List.map_cons, List.mem_cons, not_or] at h
    rw [rowVal_cons_ne h.1]; exact ih h.2

/-- One row (distinct column names): every column `c` receives exactly `push (rowVal c row)`. -/
theorem pushEntries_spec (len : Nat) : ∀ (row : List (String × Val)) (cols : List (String × ColumnData)),
    (row.map (·.1)).Nodup →
    (∀ c, ∃ d', push (getCol cols c) (rowVal c row) len = .ok d') →
    ∃ cols', pushEntries len row cols = .ok cols' ∧
      (∀ c, push (getCol cols c) (rowVal c row) len = .ok (getCol cols' c)) ∧
      (∀ c, (cols'.lookup c).isSome = ((cols.lookup c).isSome || row.any (fun e => e.1 == c)))
  | [], cols, _, _ => ⟨cols, rfl, fun c => by simp [rowVal, push_null], fun c => by simp⟩
  | (name, v) :: rest, cols, hnd, hok => by
    simp only [List.map_cons, List.nodup_cons] at hnd
    obtain ⟨hnot, hnd'⟩ := hnd
    obtain ⟨d1, hd1⟩ := hok name
    rw [rowVal_cons_self] at hd1
    obtain ⟨cols1, e1, g1, g2, g3⟩ := upsert_spec name v len cols d1 hd1
    have hok1 : ∀ c, ∃ d', push (getCol cols1 c) (rowVal c rest) len = .ok d' := by
      intro c
      by_cases hc : c = name
      · subst hc; rw [rowVal_absent hnot]; exact ⟨_, push_null _ _⟩
      · obtain ⟨d', hd'⟩ := hok c
        rw [rowVal_cons_ne hc] at hd'
        exact ⟨d', by rw [g2 c hc]; exact hd'⟩
    obtain ⟨cols', e2, p2, p3⟩ := pushEntries_spec len rest cols1 hnd' hok1
    refine ⟨cols', by simp [pushEntries, e1, e2], ?_, ?_⟩
    · intro c
      by_cases hc : c = name
      · subst hc
        have := p2 c
        rw [rowVal_absent hnot, push_null] at this
        rw [rowVal_cons_self, hd1, ← g1]
        exact this
      · rw [rowVal_cons_ne hc, ← g2 c hc]; exact p2 c
    · intro c
      rw [p3 c, g3 c]
      by_cases hc : c = name
      · subst hc; simp
      · have h1 : (c == name) = false := by simpa using hc
        have h2 : (name == c) = false := by simpa using (Ne.symm hc)
        simp [h1, h2]

theorem effRow_nodup {row : List (String × Val)} (clock : Nat) (h : (row.map (·.1)).Nodup) :
    ((effRow row clock).map (·.1)).Nodup := by
  unfold effRow
  split
  · exact h
  · rename_i hts
    simp only [List.map_append, List.map_cons, List.map_nil]
    apply List.nodup_append.mpr
    refine ⟨h, by simp, ?_⟩
    intro a ha b hb
    simp only [List.mem_singleton] at hb
    subst hb
    intro hab
    subst hab
    simp only [List.mem_map] at ha
    obtain ⟨e, he, hk⟩ := ha
    exact hts (by simp only [List.any_eq_true]; exact ⟨e, he, by simp [hk]⟩)

/-- Values column `c` receives over a sequence of (row, clock) pairs. -/
def colVals (c : String) (rows : List (List (String × Val) × Nat)) : List Val :=
  rows.map fun rc => rowVal c (effRow rc.1 rc.2)

/-- All rows: every column of the table is the per-column fold `pushAll` of its own values. -/
theorem pushRows_spec : ∀ (rows : List (List (String × Val) × Nat)) (t : Table),
    (∀ rc ∈ rows, (rc.1.map (·.1)).Nodup) →
    (∀ c, ∃ d', pushAll (getCol t.cols c) t.len (colVals c rows) = .ok d') →
    ∃ t', pushRows t rows = .ok t' ∧ t'.len = t.len + rows.length ∧
      (∀ c, pushAll (getCol t.cols c) t.len (colVals c rows) = .ok (getCol t'.cols c)) ∧
      (∀ c, (t'.cols.lookup c).isSome =
        ((t.cols.lookup c).isSome || rows.any fun rc => (effRow rc.1 rc.2).any (fun e => e.1 == c)))
  | [], t, _, _ => ⟨t, rfl, by simp, fun c => by simp [colVals, pushAll], fun c => by simp⟩
  | (row, clock) :: rest, t, hnd, hok => by
    have hstep : ∀ c, ∃ d1, push (getCol t.cols c) (rowVal c (effRow row clock)) t.len = .ok d1 ∧
        ∃ d', pushAll d1 (t.len + 1) (colVals c rest) = .ok d' := by
      intro c
      obtain ⟨d', hd'⟩ := hok c
      simp only [colVals, List.map_cons, pushAll] at hd'
      cases hp : push (getCol t.cols c) (rowVal c (effRow row clock)) t.len with
      | error f => rw [hp] at hd'; cases hd'
      | ok d1 => rw [hp] at hd'; exact ⟨d1, rfl, d', hd'⟩
    obtain ⟨cols1, e1, p1, k1⟩ := pushEntries_spec t.len (effRow row clock) t.cols
      (effRow_nodup clock (hnd (row, clock) (by simp)))
      (fun c => let ⟨d1, h1, _⟩ := hstep c; ⟨d1, h1⟩)
    have hok1 : ∀ c, ∃ d', pushAll (getCol cols1 c) (t.len + 1) (colVals c rest) = .ok d' := by
      intro c
      obtain ⟨d1, h1, d', h2⟩ := hstep c
      have : getCol cols1 c = d1 := by
        have := p1 c; rw [h1] at this; cases this; rfl
      exact ⟨d', by rw [this]; exact h2⟩
    obtain ⟨t', e2, l2, p2, k2⟩ := pushRows_spec rest { len := t.len + 1, cols := cols1 }
      (fun rc hrc => hnd rc (by simp [hrc])) hok1
    refine ⟨t', by simp [pushRows, pushRow, e1, e2], by simp only [List.length_cons] at *; omega, ?_, ?_⟩
    · intro c
      simp only [colVals, List.map_cons, pushAll, p1 c]
      exact p2 c
    · intro c
      rw [k2 c]
      simp only [k1 c, List.any_cons, Bool.or_assoc]

theorem find_eq_lookup (d : List (Nat × α)) (i : Nat) : (d.find? (·.1 == i)).map (·.2) = d.lookup i := by
  induction d with
  | nil => rfl
  | cons p ps ih =>
    obtain ⟨j, v⟩ := p
    simp only [List.find?_cons, List.lookup_cons]
    by_cases h : j = i
    · subst h; simp
    · have h1 : (j == i) = false := by simpa using h
      have h2 : (i == j) = false := by simpa using (Ne.symm h)
      simp only [h1, h2]; exact ih

theorem wire_sparse_cells (f : α → Val) (d : List (Nat × α)) (rows : Nat) :
    ((List.range rows).map fun i => match d.find? (·.1 == i) with | some p => f p.2 | none => .null)
      = sparseCells rows d f := by
  simp only [sparseCells]
  apply List.map_congr_left
  intro i _
  rw [← find_eq_lookup]
  cases d.find? (·.1 == i) <;> rfl

/-- Wire schema: a well-formed column decodes on the server to the cells the client put in. -/
theorem wire_cells {rows : Nat} {d : ColumnData} {cs : List Val} (h : wireCells rows d = some cs) :
    ∃ ic, fromColumnData d rows = .ok ic ∧ ic.cells = cs := by
  cases d with
  | empty => simp only [wireCells, Option.some.injEq] at h; exact ⟨.null rows, rfl, h⟩
  | dense data =>
    simp only [wireCells] at h
    split at h
    · rename_i hl
      simp only [Option.some.injEq] at h
      obtain ⟨ic, e, c⟩ := abs_eq (d := .dense data) (n := rows) hl
      exact ⟨ic, e, by rw [c, ← h]; rfl⟩
    · cases h
  | i64 data =>
    simp only [wireCells] at h
    split at h
    · rename_i hl
      simp only [Option.some.injEq] at h
      obtain ⟨ic, e, c⟩ := abs_eq (d := .i64 data) (n := rows) hl
      exact ⟨ic, e, by rw [c, ← h]; rfl⟩
    · cases h
  | sparse data =>
    simp only [wireCells] at h
    split at h
    · simp only [Option.some.injEq] at h
      refine ⟨.nullableFloat rows data, rfl, ?_⟩
      rw [← h]
      simp only [InputColumn.cells, sparseCells]
      apply List.map_congr_left
      intro i _
      rw [← find_eq_lookup]
      cases data.find? (·.1 == i) <;> rfl
    · cases h
  | sparseI64 data =>
    simp only [wireCells] at h
    split at h
    · simp only [Option.some.injEq] at h
      refine ⟨.nullableInt rows data, rfl, ?_⟩
      rw [← h]
      simp only [InputColumn.cells, sparseCells]
      apply List.map_congr_left
      intro i _
      rw [← find_eq_lookup]
      cases data.find? (·.1 == i) <;> rfl
    · cases h
  | str data =>
    simp only [wireCells] at h
    split at h
    · rename_i hl
      simp only [Option.some.injEq] at h
      exact ⟨.str data, by simp [fromColumnData, hl], h⟩
    · cases h
  | mixed data =>
    simp only [wireCells] at h
    split at h
    · simp only [Option.some.injEq] at h
      exact ⟨.mixed data, rfl, h⟩
    · cases h

/-! ### Client buffer: tables are independent -/

/-- `entry(table).or_default()` view of the buffer. -/
def getTable (b : Buffer) (tname : String) : Table := (b.lookup tname).getD Table.new

/-- Rows logged for table `tname`, in order. -/
def rowsOf (tname : String) (evs : List Event) : List (List (String × Val) × Nat) :=
  (evs.filter fun e => e.1 == tname).map (·.2)

theorem logEvent_spec (tname : String) (row : List (String × Val)) (clock : Nat) :
    ∀ (b : Buffer) (t' : Table), pushRow (getTable b tname) row clock = .ok t' →
    ∃ b', logEvent b tname row clock = .ok b' ∧ getTable b' tname = t' ∧
      (∀ u, u ≠ tname → getTable b' u = getTable b u) ∧
      (∀ u, (b'.lookup u).isSome = ((b.lookup u).isSome || u == tname))
  | [], t', h => by
    simp only [getTable, List.lookup_nil, Option.getD_none] at h
    refine ⟨[(tname, t')], by simp [logEvent, h], by simp [getTable, List.lookup_cons], ?_, ?_⟩
    · intro u hu
      have : (u == tname) = false := by simpa using hu
      simp [getTable, List.lookup_cons, this]
    · intro u
      by_cases hu : u = tname
      · subst hu; simp [List.lookup_cons]
      · have : (u == tname) = false := by simpa using hu
        simp [List.lookup_cons, this]
  | (k, t) :: rest, t', h => by
    by_cases hk : k = tname
    · subst hk
      simp only [getTable, List.lookup_cons, beq_self_eq_true, Option.getD_some] at h
      refine ⟨(k, t') :: rest, by simp [logEvent, h], by simp [getTable, List.lookup_cons], ?_, ?_⟩
      · intro u hu
        have : (u == k) = false := by simpa using hu
        simp [getTable, List.lookup_cons, this]
      · intro u
        by_cases hu : u = k
        · subst hu; simp [List.lookup_cons]
        · have : (u == k) = false := by simpa using hu
          simp [List.lookup_cons, this]
    · have hb : (tname == k) = false := by simpa using (Ne.symm hk)
      have h' : pushRow (getTable rest tname) row clock = .ok t' := by
        simpa [getTable, List.lookup_cons, hb] using h
      obtain ⟨r, e, g1, g2, g3⟩ := logEvent_spec tname row clock rest t' h'
      refine ⟨(k, t) :: r, by simp [logEvent, hk, e], ?_, ?_, ?_⟩
      · simpa [getTable, List.lookup_cons, hb] using g1
      · intro u hu
        by_cases huk : u = k
        · subst huk; simp [getTable, List.lookup_cons]
        · have hf : (u == k) = false := by simpa using huk
          have := g2 u hu
          simpa [getTable, List.lookup_cons, hf] using this
      · intro u
        by_cases huk : u = k
        · subst huk; simp [List.lookup_cons]
        · have hf : (u == k) = false := by simpa using huk
          simpa [List.lookup_cons, hf] using g3 u

theorem rowsOf_cons_self (tname : String) (row : List (String × Val)) (clock : Nat) (rest : List Event) :
    rowsOf tname ((tname, row, clock) :: rest) = (row, clock) :: rowsOf tname rest := by
  simp [rowsOf, List.filter_cons]

theorem rowsOf_cons_ne {u tname : String} (h : u ≠ tname) (row : List (String × Val)) (clock : Nat)
    (rest : List Event) : rowsOf u ((tname, row, clock) :: rest) = rowsOf u rest := by
  have : (tname == u) = false := by simpa using (Ne.symm h)
  simp [rowsOf, List.filter_cons, this]

/-- All events: every table of the buffer is `pushRows` of the rows logged for it — tables do not interfere —
    and a table exists in the buffer iff it was there before or some event names it. -/
theorem logAll_spec : ∀ (evs : List Event) (b : Buffer),
    (∀ u, ∃ t', pushRows (getTable b u) (rowsOf u evs) = .ok t') →
    ∃ b', logAll b evs = .ok b' ∧
      (∀ u, pushRows (getTable b u) (rowsOf u evs) = .ok (getTable b' u)) ∧
      (∀ u, (b'.lookup u).isSome = ((b.lookup u).isSome || evs.any fun e => e.1 == u))
  | [], b, _ => ⟨b, rfl, fun u => by simp [rowsOf, pushRows], fun u => by simp⟩
  | (tname, row, clock) :: rest, b, hok => by
    obtain ⟨tfin, hfin⟩ := hok tname
    rw [rowsOf_cons_self] at hfin
    simp only [pushRows] at hfin
    cases hp : pushRow (getTable b tname) row clock with
    | error f => rw [hp] at hfin; cases hfin
    | ok t1 =>
      rw [hp] at hfin
      obtain ⟨b1, e1, g1, g2, g3⟩ := logEvent_spec tname row clock b t1 hp
      have hok1 : ∀ u, ∃ t', pushRows (getTable b1 u) (rowsOf u rest) = .ok t' := by
        intro u
        by_cases hu : u = tname
        · subst hu; rw [g1]; exact ⟨tfin, hfin⟩
        · obtain ⟨t', ht'⟩ := hok u
          rw [rowsOf_cons_ne hu] at ht'
          exact ⟨t', by rw [g2 u hu]; exact ht'⟩
      obtain ⟨b', e2, p2, k2⟩ := logAll_spec rest b1 hok1
      refine ⟨b', by simp [logAll, e1, e2], ?_, ?_⟩
      · intro u
        by_cases hu : u = tname
        · subst hu
          rw [rowsOf_cons_self]
          simp only [pushRows, hp]
          have := p2 u
          rw [g1] at this
          exact this
        · rw [rowsOf_cons_ne hu, ← g2 u hu]; exact p2 u
      · intro u
        rw [k2 u, g3 u]
        by_cases hu : u = tname
        · subst hu; simp
        · have h1 : (u == tname) = false := by simpa using hu
          have h2 : (tname == u) = false := by simpa using (Ne.symm hu)
          simp [h1, h2]

/-- Messages of a session in which every tick's POST succeeds: split the logged events at the ticks. -/
def batches : List Event → List Step → List (List Event)
  | cur, [] => [cur]
  | cur, .log e :: rest => batches (cur ++ [e]) rest
  | cur, .tick :: rest => cur :: batches [] rest

theorem logAll_append : ∀ (a c : List Event) (b : Buffer),
    logAll b (a ++ c) = match logAll b a with | .error f => .error f | .ok b' => logAll b' c
  | [], c, b => by simp [logAll]
  | (tname, row, clock) :: a, c, b => by
    simp only [List.cons_append, logAll]
    cases logEvent b tname row clock with
    | error f => rfl
    | ok b1 => exact logAll_append a c b1

/-- What a session must send: one request per non-empty batch between ticks (each built from an empty
    buffer), the last batch stays in the buffer. -/
def sessionSpec : List (List Event) → Except Fault (List Buffer × Buffer)
  | [] => .ok ([], [])
  | [last] =>
    match logAll [] last with
    | .error f => .error f
    | .ok b => .ok ([], b)
  | cur :: next :: rest =>
    match logAll [] cur with
    | .error f => .error f
    | .ok b =>
      match sessionSpec (next :: rest) with
      | .error f => .error f
      | .ok (msgs, fin) => .ok (if b.isEmpty then msgs else b :: msgs, fin)

theorem batches_cons (cur : List Event) (steps : List Step) : ∃ x xs, batches cur steps = x :: xs := by
  induction steps generalizing cur with
  | nil => exact ⟨cur, [], rfl⟩
  | cons st rest ih =>
    cases st with
    | log e => exact ih (cur ++ [e])
    | tick => exact ⟨cur, _, rfl⟩

theorem batches_head_prefix (cur : List Event) (steps : List Step) :
    ∃ ext xs, batches cur steps = (cur ++ ext) :: xs := by
  induction steps generalizing cur with
  | nil => exact ⟨[], [], by simp [batches]⟩
  | cons st rest ih =>
    cases st with
    | log e =>
      obtain ⟨ext, xs, h⟩ := ih (cur ++ [e])
      exact ⟨e :: ext, xs, by simp [batches, h]⟩
    | tick => exact ⟨[], batches [] rest, by simp [batches]⟩

theorem sessionSpec_error {x : List Event} {f : Fault} (h : logAll [] x = .error f) (xs : List (List Event)) :
    sessionSpec (x :: xs) = .error f := by
  cases xs with
  | nil => simp [sessionSpec, h]
  | cons y ys => simp [sessionSpec, h]

theorem logAll_error_append {b : Buffer} {a : List Event} {f : Fault} (h : logAll b a = .error f)
    (c : List Event) : logAll b (a ++ c) = .error f := by
  rw [logAll_append, h]

/-- The session loop sends exactly the specified requests: events are neither lost, duplicated nor moved
    across a flush boundary, and every request is built from an empty buffer. -/
theorem session_spec : ∀ (steps : List Step) (cur : List Event) (b : Buffer),
    logAll [] cur = .ok b → session b steps = sessionSpec (batches cur steps)
  | [], cur, b, h => by simp [session, batches, sessionSpec, h]
  | .log (tname, row, clock) :: rest, cur, b, h => by
    simp only [session, batches]
    have happ : logAll [] (cur ++ [(tname, row, clock)]) =
        match logEvent b tname row clock with | .error f => .error f | .ok b' => .ok b' := by
      rw [logAll_append, h]
      simp only [logAll]
      cases logEvent b tname row clock <;> rfl
    cases he : logEvent b tname row clock with
    | error f =>
      rw [he] at happ
      obtain ⟨ext, xs, hb⟩ := batches_head_prefix (cur ++ [(tname, row, clock)]) rest
      rw [hb]
      exact (sessionSpec_error (logAll_error_append happ ext) xs).symm
    | ok b' =>
      rw [he] at happ
      exact session_spec rest _ b' happ
  | .tick :: rest, cur, b, h => by
    obtain ⟨x, xs, hb⟩ := batches_cons [] rest
    have ih := session_spec rest [] [] rfl
    simp only [session, batches, createRequestData]
    rw [hb] at ih ⊢
    cases b with
    | nil =>
      simp only [List.isEmpty_nil, if_true, sessionSpec, h]
      rw [ih]
      cases sessionSpec (x :: xs) with
      | error f => rfl
      | ok r => simp
    | cons p ps =>
      simp only [List.isEmpty_cons, sessionSpec, h, Bool.false_eq_true, if_false]
      rw [ih]
      cases sessionSpec (x :: xs) with
      | error f => rfl
      | ok r => simp

end LM.Wire.EventBuffer
