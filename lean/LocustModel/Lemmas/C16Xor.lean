import LocustModel.Wire.XorFloat
/-
  Lemmas for C16 (XOR float coder): (a) bit-stream laws, (b) leading/trailing-zero facts and the
  shift identity behind a window, (c) the one-step lemma relating encoder and decoder state,
  (d) induction over the value list, (e) bytes ↔ bits.
-/
namespace LM.Wire.XorFloat
open LM

/-! ### (a) bit stream -/

theorem toNat_mod_two_beq (v : Nat) : (v % 2 == 1).toNat = v % 2 := by
  rcases Nat.mod_two_eq_zero_or_one v with h | h <;> simp [h]

/-- Reading `n` bits back from `write_int(v, n)` yields `v mod 2^n` and leaves the rest untouched. -/
theorem readInt_writeInt : ∀ (n v : Nat) (rest : List Bool),
    readInt n (writeInt v n ++ rest) = some (v % 2 ^ n, rest)
  | 0, v, rest => by simp [readInt, writeInt, Nat.mod_one]
  | n + 1, v, rest => by
    simp only [writeInt, List.cons_append, readInt, readInt_writeInt n (v / 2) rest, toNat_mod_two_beq]
    have : v % 2 ^ (n + 1) = v % 2 + 2 * (v / 2 % 2 ^ n) := by
      rw [Nat.pow_succ, Nat.mul_comm, Nat.mod_mul]
    rw [this]

theorem readInt_writeInt_lt {n v : Nat} (h : v < 2 ^ n) (rest : List Bool) :
    readInt n (writeInt v n ++ rest) = some (v, rest) := by
  rw [readInt_writeInt, Nat.mod_eq_of_lt h]

theorem writeInt_zero : ∀ n, writeInt 0 n = List.replicate n false
  | 0 => rfl
  | n + 1 => by simp [writeInt, writeInt_zero n, List.replicate_succ]

/-- Up to `n` bits written as one number come back as the same bits, zero padded. -/
theorem writeInt_bitsVal : ∀ (l : List Bool) (n : Nat), l.length ≤ n →
    writeInt (bitsVal l) n = l ++ List.replicate (n - l.length) false
  | [], n, _ => by simp [bitsVal, writeInt_zero]
  | b :: t, 0, h => by simp at h
  | b :: t, n + 1, h => by
    have hlen : t.length ≤ n := by simpa using h
    have h1 : (b.toNat + 2 * bitsVal t) % 2 = b.toNat := by cases b <;> simp <;> omega
    have h2 : (b.toNat + 2 * bitsVal t) / 2 = bitsVal t := by cases b <;> simp <;> omega
    have h3 : (b.toNat == 1) = b := by cases b <;> rfl
    have hsub : n + 1 - (t.length + 1) = n - t.length := by omega
    simp only [bitsVal, writeInt, h1, h2, h3, writeInt_bitsVal t n hlen, List.length_cons, List.cons_append, hsub]

/-- The reader sees the written bits followed by the zero padding of the last byte. -/
theorem unpack_pack : ∀ (k : Nat) (bs : List Bool), bs.length ≤ k →
    ∃ pad, unpackBits (packBits bs) = bs ++ pad
  | 0, bs, h => by
    have : bs = [] := List.length_eq_zero_iff.mp (by omega)
    subst this
    exact ⟨[], by rw [packBits]; simp [unpackBits]⟩
  | k + 1, bs, h => by
    by_cases he : bs = []
    · subst he; exact ⟨[], by rw [packBits]; simp [unpackBits]⟩
    · rw [packBits]
      simp only [he, dite_false, unpackBits, List.flatMap_cons]
      have hdrop : (bs.drop 8).length ≤ k := by
        cases bs with
        | nil => exact absurd rfl he
        | cons b t => simp only [List.length_drop, List.length_cons] at *; omega
      obtain ⟨pad, hp⟩ := unpack_pack k (bs.drop 8) hdrop
      simp only [unpackBits] at hp
      rw [hp, writeInt_bitsVal (bs.take 8) 8 (by simp [List.length_take]; omega)]
      refine ⟨List.replicate (8 - (bs.take 8).length) false ++ pad, ?_⟩
      by_cases h8 : 8 ≤ bs.length
      · have : (bs.take 8).length = 8 := by simp [List.length_take]; omega
        simp only [this, Nat.sub_self, List.replicate_zero, List.append_nil, List.nil_append]
        rw [← List.append_assoc, List.take_append_drop]
      · have ht : bs.take 8 = bs := List.take_of_length_le (by omega)
        have hd : bs.drop 8 = [] := List.drop_eq_nil_of_le (by omega)
        simp only [ht, hd, List.nil_append] at *
        simp [List.append_assoc]

/-! ### (b) zeros and windows -/

theorem ctzAux_spec : ∀ (k x : Nat), x ≠ 0 → x < 2 ^ k → 2 ^ ctzAux k x ∣ x ∧ ctzAux k x < k
  | 0, x, h0, hlt => by simp at hlt; omega
  | k + 1, x, h0, hlt => by
    simp only [ctzAux]
    split
    · exact ⟨by simp, by omega⟩
    · rename_i hodd
      have hx2 : x / 2 ≠ 0 := by omega
      have hlt2 : x / 2 < 2 ^ k := by rw [Nat.pow_succ] at hlt; omega
      obtain ⟨hd, hl⟩ := ctzAux_spec k (x / 2) hx2 hlt2
      refine ⟨?_, by omega⟩
      obtain ⟨c, hc⟩ := hd
      refine ⟨c, ?_⟩
      have hx : x = 2 * (x / 2) := by omega
      rw [Nat.add_comm, Nat.pow_succ, Nat.mul_assoc, Nat.mul_comm 2 c, ← Nat.mul_assoc, ← hc]
      omega

/-- `2^trailing_zeros` divides a non-zero u64, and `trailing_zeros ≤ 63`. -/
theorem ctz64_spec {x : Nat} (h0 : x ≠ 0) (hlt : x < U64) : 2 ^ ctz64 x ∣ x ∧ ctz64 x < 64 := by
  simp only [ctz64, h0, if_false]
  exact ctzAux_spec 64 x h0 (by simpa [U64] using hlt)

/-- A u64 fits below its (capped) leading zeros. -/
theorem lt_of_le_clz {x l : Nat} (hlt : x < U64) (hl : l ≤ min (clz64 x) 31) : x < 2 ^ (64 - l) := by
  by_cases h0 : x = 0
  · subst h0; exact Nat.two_pow_pos _
  · have hlog : x.log2 < 64 := (Nat.log2_lt h0).mpr (by simpa [U64] using hlt)
    simp only [clz64, h0, if_false] at hl
    have h1 : x.log2 + 1 ≤ 64 - l := by omega
    exact Nat.lt_of_lt_of_le Nat.lt_log2_self (Nat.pow_le_pow_right (by decide) h1)

/-- Leading (capped) plus trailing zeros of a non-zero u64 leave at least one significant bit. -/
theorem clz_add_ctz {x : Nat} (h0 : x ≠ 0) (hlt : x < U64) : min (clz64 x) 31 + ctz64 x ≤ 63 := by
  obtain ⟨hd, _⟩ := ctz64_spec h0 hlt
  have hle : 2 ^ ctz64 x ≤ x := Nat.le_of_dvd (by omega) hd
  have : ctz64 x ≤ x.log2 := (Nat.le_log2 h0).mpr hle
  have hlog : x.log2 < 64 := (Nat.log2_lt h0).mpr (by simpa [U64] using hlt)
  simp only [clz64, h0, if_false]
  omega

/-- What a window transmits is enough: with `2^t ∣ x` and `x < 2^(t+s)`, shifting out `t` zeros, keeping
    `s` bits and shifting back restores `x`. -/
theorem window_restore {x t s : Nat} (hd : 2 ^ t ∣ x) (hlt : x < 2 ^ (t + s)) (h64 : x < U64) :
    (((x >>> t) % 2 ^ s) <<< t) % U64 = x := by
  rw [Nat.shiftRight_eq_div_pow, Nat.shiftLeft_eq]
  have hq : x / 2 ^ t < 2 ^ s := by
    apply Nat.div_lt_of_lt_mul
    rw [← Nat.pow_add]; exact hlt
  rw [Nat.mod_eq_of_lt hq, Nat.div_mul_cancel hd, Nat.mod_eq_of_lt h64]

theorem dvd_of_le_ctz {x t : Nat} (h0 : x ≠ 0) (hlt : x < U64) (ht : t ≤ ctz64 x) : 2 ^ t ∣ x :=
  Nat.dvd_trans (Nat.pow_dvd_pow 2 ht) (ctz64_spec h0 hlt).1

theorem xor_eq_zero {a b : Nat} (h : a ^^^ b = 0) : a = b := by
  have : a ^^^ (a ^^^ b) = b := by rw [← Nat.xor_assoc, Nat.xor_self, Nat.zero_xor]
  rw [h, Nat.xor_zero] at this
  exact this

/-! ### (c) decoder on the three control-bit cases -/

/-- Control bit `0`: the previous value again. -/
theorem decStep_same (dst : DecSt) (rest : List Bool) :
    decStep dst (writeInt 0 1 ++ rest) = .ok (dst.last, dst, rest) := by
  simp [decStep, writeInt, readInt]

/-- Control bits `1 0`: `sig` bits inside the previous window. -/
theorem decStep_reuse (dst : DecSt) (x : Nat) (rest : List Bool) (htz : dst.tz < 64) :
    decStep dst (writeInt 1 2 ++ writeInt x dst.sig ++ rest) =
      .ok (dst.last ^^^ (((x % 2 ^ dst.sig) <<< dst.tz) % U64),
           { last := dst.last ^^^ (((x % 2 ^ dst.sig) <<< dst.tz) % U64), tz := dst.tz, sig := dst.sig }, rest) := by
  have h64 : ¬ 64 ≤ dst.tz := by omega
  simp [decStep, writeInt, readInt, List.append_assoc, readInt_writeInt, h64]

/-- Control bits `1 1`: a new window (5 bits leading zeros, 6 bits significant-bit count minus one). -/
theorem decStep_new (dst : DecSt) (lz sig x : Nat) (rest : List Bool)
    (hlz : lz < 32) (hsig1 : 1 ≤ sig) (hsum : lz + sig ≤ 64) :
    decStep dst (writeInt 3 2 ++ writeInt lz 5 ++ writeInt (sig - 1) 6 ++ writeInt x sig ++ rest) =
      .ok (dst.last ^^^ (((x % 2 ^ sig) <<< (64 - lz - sig)) % U64),
           { last := dst.last ^^^ (((x % 2 ^ sig) <<< (64 - lz - sig)) % U64), tz := 64 - lz - sig, sig := sig }, rest) := by
  have h1 : lz % 2 ^ 5 = lz := Nat.mod_eq_of_lt (by simpa using hlz)
  have h2 : (sig - 1) % 2 ^ 6 = sig - 1 := Nat.mod_eq_of_lt (by simp; omega)
  have h3 : sig - 1 + 1 = sig := by omega
  have h4 : ¬ 64 < lz + sig := by omega
  have h5 : ¬ 64 ≤ 64 - lz - sig := by omega
  have hw : writeInt 3 2 = [true, true] := by decide
  simp only [hw, List.append_assoc, List.cons_append, List.nil_append, decStep]
  simp only [readInt, Bool.toNat_true, Nat.mul_zero, Nat.add_zero]
  simp [readInt_writeInt, h1, h2, h3, h4, h5]

theorem U64_eq : U64 = 2 ^ 64 := by decide

/-! ### (c') one step of encoder and decoder together -/

/-- State relation between encoder (after writing a value) and decoder (after reading it): the window is
    shared (or still the initial sentinel `65`), the regret counter stays below `maxRegret + 63`, and the
    decoder's last value agrees with the encoder's last value on the masked bits. -/
def Rel (maxRegret mask : Nat) (st : EncSt) (dst : DecSt) : Prop :=
  (st.lz = 65 ∨ (st.lz ≤ 31 ∧ st.lz + st.tz ≤ 63 ∧ st.sig = 64 - st.lz - st.tz ∧ dst.tz = st.tz ∧ dst.sig = st.sig)) ∧
  st.regret < maxRegret + 63 ∧ st.last < U64 ∧ dst.last < U64 ∧ dst.last &&& mask = st.last &&& mask

theorem masked_value {dl sl f mask : Nat} (h : dl &&& mask = sl &&& mask) :
    (dl ^^^ ((f ^^^ sl) &&& mask)) &&& mask = f &&& mask := by
  rw [Nat.and_xor_distrib_right, Nat.and_assoc, Nat.and_self, h, Nat.and_xor_distrib_right,
    Nat.xor_comm (f &&& mask), ← Nat.xor_assoc, Nat.xor_self, Nat.zero_xor]

/-- One value: the encoder does not fault, and the decoder, started in a related state on the bits just
    written (followed by anything), yields a value that agrees with the input on the masked bits,
    consumes exactly those bits and ends in a related state. -/
theorem step_ok (maxRegret mask : Nat) (hmr : maxRegret + 63 ≤ U32) (hmask : mask < U64)
    (st : EncSt) (dst : DecSt) (hR : Rel maxRegret mask st dst) (f : Nat) (hf : f < U64) :
    ∃ bits st' dst', encStep maxRegret mask st f = .ok (bits, st') ∧
      (∀ rest, decStep dst (bits ++ rest) = .ok (dst'.last, dst', rest)) ∧
      Rel maxRegret mask st' dst' ∧ dst'.last &&& mask = f &&& mask := by
  obtain ⟨hwin, hreg, hsl, hdl, hlast⟩ := hR
  have hx64 : (f ^^^ st.last) &&& mask < U64 := by
    rw [U64_eq] at hmask ⊢; exact Nat.and_lt_two_pow _ hmask
  by_cases hx0 : (f ^^^ st.last) &&& mask = 0
  · -- identical (masked) value: one 0 bit
    have hfm : f &&& mask = st.last &&& mask := by
      rw [Nat.and_xor_distrib_right] at hx0; exact xor_eq_zero hx0
    refine ⟨writeInt 0 1, { st with last := f }, dst, ?_, fun rest => decStep_same dst rest, ?_, ?_⟩
    · simp [encStep, hx0, ctz64]
    · exact ⟨hwin, hreg, hf, hdl, by rw [hlast, hfm]⟩
    · rw [hlast, hfm]
  · -- a non-zero xor
    obtain ⟨hdvd, htz64⟩ := ctz64_spec hx0 hx64
    have hsum := clz_add_ctz hx0 hx64
    have hlz31 : min (clz64 ((f ^^^ st.last) &&& mask)) 31 ≤ 31 := Nat.min_le_right _ _
    have hval : ∀ d : Nat, (d ^^^ ((f ^^^ st.last) &&& mask)) < U64 ∨ True := fun _ => Or.inr trivial
    have hne64 : ¬ ctz64 ((f ^^^ st.last) &&& mask) = 64 := by omega
    have hnov : ¬ 64 < min (clz64 ((f ^^^ st.last) &&& mask)) 31 + ctz64 ((f ^^^ st.last) &&& mask) := by omega
    -- abbreviations
    generalize hxdef : (f ^^^ st.last) &&& mask = x at *
    generalize hlzdef : min (clz64 x) 31 = lz at *
    generalize htzdef : ctz64 x = tz at *
    have hdl' : dst.last ^^^ x < U64 := by
      rw [U64_eq] at hdl hx64 ⊢; exact Nat.xor_lt_two_pow hdl hx64
    have hmasked : (dst.last ^^^ x) &&& mask = f &&& mask := by
      rw [← hxdef]; exact masked_value hlast
    by_cases hcond : lz ≥ st.lz ∧ tz ≥ st.tz ∧ (st.regret < maxRegret ∨ 64 - lz - tz = st.sig)
    · -- window re-use
      obtain ⟨hc1, hc2, hc3⟩ := hcond
      have hw : st.lz ≤ 31 ∧ st.lz + st.tz ≤ 63 ∧ st.sig = 64 - st.lz - st.tz ∧ dst.tz = st.tz ∧ dst.sig = st.sig := by
        rcases hwin with h65 | hw
        · omega
        · exact hw
      obtain ⟨hw1, hw2, hw3, hw4, hw5⟩ := hw
      have hn1 : ¬ 64 ≤ st.tz := by omega
      have hn2 : ¬ st.sig < 64 - lz - tz := by omega
      have hn3 : ¬ U32 ≤ st.regret + (st.sig - (64 - lz - tz)) := by
        rcases hc3 with h | h
        · omega
        · rw [h]; omega
      have hrestore : (((x >>> st.tz) % 2 ^ st.sig) <<< st.tz) % U64 = x := by
        apply window_restore (Nat.dvd_trans (Nat.pow_dvd_pow 2 hc2) (htzdef ▸ hdvd)) _ hx64
        have : st.tz + st.sig = 64 - st.lz := by omega
        rw [this]
        exact lt_of_le_clz hx64 (by rw [hlzdef]; exact hc1)
      refine ⟨writeInt 1 2 ++ writeInt (x >>> st.tz) st.sig,
        { st with last := f, regret := st.regret + (st.sig - (64 - lz - tz)) },
        { last := dst.last ^^^ x, tz := dst.tz, sig := dst.sig }, ?_, ?_, ?_, hmasked⟩
      · simp only [encStep, hxdef, hlzdef, htzdef, hne64, if_false, hnov, hc1, hc2, hc3, and_self, if_true, hn1, hn2, hn3]
      · intro rest
        have := decStep_reuse dst (x >>> st.tz) rest (by omega)
        rw [hw5, hw4, hrestore] at this
        rw [← hw5] at this
        simpa [hw4, hw5] using this
      · refine ⟨Or.inr ⟨hw1, hw2, hw3, hw4, hw5⟩, ?_, hf, hdl', ?_⟩
        · show st.regret + (st.sig - (64 - lz - tz)) < maxRegret + 63
          rcases hc3 with h | h
          · omega
          · rw [h]; omega
        · show (dst.last ^^^ x) &&& mask = f &&& mask
          exact hmasked
    · -- new window
      have hsig1 : 1 ≤ 64 - lz - tz := by omega
      have hrestore : (((x >>> tz) % 2 ^ (64 - lz - tz)) <<< tz) % U64 = x := by
        apply window_restore (htzdef ▸ hdvd) _ hx64
        have : tz + (64 - lz - tz) = 64 - lz := by omega
        rw [this]
        exact lt_of_le_clz hx64 (by rw [hlzdef]; exact Nat.le_refl _)
      have htzback : 64 - lz - (64 - lz - tz) = tz := by omega
      refine ⟨writeInt 3 2 ++ writeInt lz 5 ++ writeInt (64 - lz - tz - 1) 6 ++ writeInt (x >>> tz) (64 - lz - tz),
        { last := f, lz := lz, tz := tz, sig := 64 - lz - tz, regret := 0 },
        { last := dst.last ^^^ x, tz := tz, sig := 64 - lz - tz }, ?_, ?_, ?_, hmasked⟩
      · simp only [encStep, hxdef, hlzdef, htzdef, hne64, if_false, hnov, hcond]
      · intro rest
        have := decStep_new dst lz (64 - lz - tz) (x >>> tz) rest (by omega) hsig1 (by omega)
        rw [htzback, hrestore] at this
        exact this
      · refine ⟨Or.inr ⟨?_, ?_, rfl, rfl, rfl⟩, ?_, hf, hdl', hmasked⟩
        · show lz ≤ 31; omega
        · show lz + tz ≤ 63; omega
        · show 0 < maxRegret + 63; omega

/-! ### (d) all values, header, bytes -/


theorem loop_ok (maxRegret mask : Nat) (hmr : maxRegret + 63 ≤ U32) (hmask : mask < U64) :
    ∀ (fs : List Nat) (st : EncSt) (dst : DecSt), Rel maxRegret mask st dst → (∀ f ∈ fs, f < U64) →
    ∃ bits ys, encLoop maxRegret mask st fs = .ok bits ∧
      (∀ rest, decLoop fs.length dst (bits ++ rest) = .ok ys) ∧ Pointwise (Keeps mask) ys fs
  | [], st, dst, _, _ => ⟨[], [], rfl, fun _ => rfl, Pointwise.nil⟩
  | f :: fs, st, dst, hR, hfs => by
    obtain ⟨bits1, st', dst', e1, d1, hR', hk⟩ := step_ok maxRegret mask hmr hmask st dst hR f (hfs f (by simp))
    obtain ⟨bits2, ys, e2, d2, hall⟩ := loop_ok maxRegret mask hmr hmask fs st' dst' hR'
      (fun g hg => hfs g (by simp [hg]))
    refine ⟨bits1 ++ bits2, dst'.last :: ys, by simp [encLoop, e1, e2], ?_, ?_⟩
    · intro rest
      simp only [List.length_cons, decLoop, List.append_assoc, d1 (bits2 ++ rest), d2 rest]
    · exact Pointwise.cons ⟨hk, hR'.2.2.2.1⟩ hall

theorem maskOf_lt (m : Option Nat) : maskOf m < U64 := by
  cases m with
  | none => simp [maskOf, U64]
  | some m =>
    have : 0 < 2 ^ (52 - m) := Nat.two_pow_pos _
    simp only [maskOf, U64] at *
    omega

/-- serialize → deserialize of the float stream on the model, bytes included: for every list of u64
    patterns (length representable as u64), every `max_regret` that cannot overflow the u32 regret counter
    and every admissible mantissa setting, `encode` does not panic and `decode` of its bytes succeeds with
    values that agree with the input on the masked bits. -/
theorem encode_decode (xs : List Nat) (hxs : ∀ x ∈ xs, x < U64) (hlen : xs.length < U64)
    (maxRegret : Nat) (hmr : maxRegret + 63 ≤ U32) (m : Option Nat) (hm : mantissaTooLarge m = false) :
    ∃ bytes ys, encode xs maxRegret m = .ok bytes ∧ decode bytes = .ok ys ∧
      Pointwise (Keeps (maskOf m)) ys xs := by
  cases xs with
  | nil =>
    obtain ⟨pad, hp⟩ := unpack_pack _ (writeInt 0 64) (Nat.le_refl _)
    refine ⟨packBits (writeInt 0 64), [], by simp [encode, encodeBits], ?_, Pointwise.nil⟩
    rw [decode, hp]
    simp only [decodeBits, readInt_writeInt, Nat.zero_mod]
  | cons first rest =>
    have hfirst : first < U64 := hxs first (by simp)
    have hR : Rel maxRegret (maskOf m) { last := first, lz := 65, tz := 65, sig := 0, regret := 0 }
        { last := first, tz := 65, sig := 0 } :=
      ⟨Or.inl rfl, by show 0 < maxRegret + 63; omega, hfirst, hfirst, rfl⟩
    obtain ⟨bits, ys, e, d, hall⟩ := loop_ok maxRegret (maskOf m) hmr (maskOf_lt m) rest _ _ hR
      (fun g hg => hxs g (by simp [hg]))
    obtain ⟨pad, hp⟩ := unpack_pack _
      (writeInt (first :: rest).length 64 ++ writeInt first 64 ++ bits) (Nat.le_refl _)
    refine ⟨packBits (writeInt (first :: rest).length 64 ++ writeInt first 64 ++ bits), first :: ys,
      by simp [encode, encodeBits, hm, e], ?_, ?_⟩
    · have hl : (first :: rest).length % 2 ^ 64 = rest.length + 1 := by
        rw [U64_eq] at hlen; exact Nat.mod_eq_of_lt hlen
      have hf : first % 2 ^ 64 = first := by rw [U64_eq] at hfirst; exact Nat.mod_eq_of_lt hfirst
      rw [decode, hp]
      simp only [decodeBits, List.append_assoc, readInt_writeInt, hl, hf, Nat.add_sub_cancel, d pad]
    · refine Pointwise.cons ⟨rfl, hfirst⟩ hall

theorem and_allOnes {y : Nat} (h : y < U64) : y &&& (U64 - 1) = y := by
  have : U64 - 1 = 2 ^ 64 - 1 := by decide
  rw [this, Nat.and_two_pow_sub_one_eq_mod, Nat.mod_eq_of_lt (by rw [← U64_eq]; exact h)]

theorem keeps_allOnes_eq {ys xs : List Nat} (hx : ∀ x ∈ xs, x < U64)
    (h : Pointwise (Keeps (U64 - 1)) ys xs) : ys = xs := by
  induction h with
  | nil => rfl
  | @cons y x ys xs hk _ ih =>
    have hxx : x < U64 := hx x (by simp)
    have hyx : y = x := by
      have := hk.1; rw [and_allOnes hk.2, and_allOnes hxx] at this; exact this
    rw [hyx, ih (fun z hz => hx z (by simp [hz]))]

/-- The mask of a mantissa setting selects exactly sign, exponent and the `m` leading mantissa bits:
    bit positions `52 - m … 63`. -/
theorem maskOf_testBit (m : Nat) (hm : m ≤ 52) (j : Nat) :
    (maskOf (some m)).testBit j = decide (52 - m ≤ j ∧ j < 64) := by
  have hk : 52 - m ≤ 64 := by omega
  have : maskOf (some m) = (2 ^ (64 - (52 - m)) - 1) * 2 ^ (52 - m) := by
    rw [Nat.sub_mul, ← Nat.pow_add, Nat.one_mul, Nat.sub_add_cancel hk]; rfl
  rw [this, Nat.testBit_mul_two_pow, Nat.testBit_two_pow_sub_one]
  by_cases h1 : 52 - m ≤ j <;> by_cases h2 : j < 64 <;> simp [h1, h2] <;> omega

/-- Agreement under the mask = agreement of every kept bit. -/
theorem keeps_testBit {m y x : Nat} (hm : m ≤ 52) (h : Keeps (maskOf (some m)) y x) (j : Nat)
    (h1 : 52 - m ≤ j) (h2 : j < 64) : y.testBit j = x.testBit j := by
  have := congrArg (fun z => Nat.testBit z j) h.1
  simp only [Nat.testBit_and, maskOf_testBit m hm, h1, h2, and_self, decide_true, Bool.and_true] at this
  exact this

end LM.Wire.XorFloat
