import LocustModel.Codec.ColumnBuffer
import LocustModel.Lemmas.C01Ops
import LocustModel.Lemmas.C01Ints
import LocustModel.Lemmas.C01Strings
import LocustModel.Lemmas.C01Present
/-
  The refinement proof for one column: every sequence of pushes on a `ColumnBuffer`, followed by
  `finalize`, optional compression and the decode program, returns the cells of `specColumn`.
  (helper lemmas for C01; core only)
-/
namespace LM.Codec
open LM LM.Bitmap

/-! ### domain of the theorem -/

/-- Rust std formatting never produces 16 MiB of text (needed because every string stored in an
    `IndexedPackedStrings` must be shorter than 2^24 bytes, source TODO(34)). -/
structure ConvOk (cv : Conv) : Prop where
  showInt : ∀ i, (cv.showInt i).length < 2 ^ 24
  showFloat : ∀ f, (cv.showFloat f).length < 2 ^ 24

/-- lz4 / pco: the compressed section is an opaque byte section and decompression inverts compression. -/
structure CompOk (cp : Compressor) : Prop where
  comp : ∀ s, ∃ p o, cp.enc s = .comp p o
  inv : ∀ s, cp.dec (cp.enc s) = s

def RawOk : RawVal → Prop
  | .int i => inI64 i
  | .str s => s.length < 2 ^ 24
  | _ => True

/-- integers are i64 values, strings are shorter than 2^24 bytes. -/
def OpOk : Op → Prop
  | .ints xs => ∀ x ∈ xs, inI64 x
  | .strs ss => ∀ s ∈ ss, s.length < 2 ^ 24
  | _ => True

/-! ### compression is transparent -/

theorem compress_decode (cp : Compressor) (hcp : CompOk cp) (use : Bool) (c : Column) (h : NoPush0 c.ops) :
    decode cp.dec (compress cp use c) = decode cp.dec c := by
  cases use with
  | false => simp [compress]
  | true =>
    cases hs : c.sections with
    | nil => simp [compress, hs]
    | cons s0 rest =>
      obtain ⟨p, o, hpo⟩ := hcp.comp s0
      have hinv := hcp.inv s0
      rw [hpo] at hinv
      simp only [compress, hs, decode, runOps, step, hpo, ofSection, bind_ok, hinv]
      rw [runOps_section0 cp.dec (.comp p o) s0 rest c.ops _ h]

/-! ### slots: what the typed buffer holds for every row -/

def isNonNull : Cell → Bool
  | .null => false
  | _ => true

def flagsOf (cells : List Cell) : List Bool := cells.map isNonNull

/-- the string a Mixed-buffer entry becomes in `MixedColBuffer::finalize`. -/
def mixedBytes (cv : Conv) : RawVal → Bytes
  | .str s => s
  | .int i => cv.showInt i
  | .float f => cv.showFloat f
  | .null => []

theorem mixedStrings_eq (cv : Conv) (d : List RawVal) : mixedStrings cv d = d.map (mixedBytes cv) := by
  induction d with
  | nil => rfl
  | cons v r ih => cases v <;> simp [mixedStrings, mixedBytes, ih]

/-- typed buffer ↔ (type the specification has reached, slot values). -/
inductive BufRel (cv : Conv) : TBuf → SpecTy → List Cell → Prop
  | empty (slots : List Cell) : BufRel cv .empty .none slots
  | int (xs : List Int) (h : ∀ x ∈ xs, inI64 x) : BufRel cv (.int (IntBuf.pushAll {} xs)) .int (xs.map .int)
  | float (d : List Nat) : BufRel cv (.float d) .float (d.map .float)
  | str (ss : List Bytes) (h : ∀ s ∈ ss, s.length < 2 ^ 24) :
      BufRel cv (.str (StrBuf.pushAll {} ss)) .str (ss.map .str)
  | mixed (d : List RawVal) (h : ∀ v ∈ d, RawOk v) :
      BufRel cv (.mixed d) .str (d.map fun v => .str (mixedBytes cv v))

theorem IntBuf.pushAll_append (b : IntBuf) (a c : List Int) : (b.pushAll a).pushAll c = b.pushAll (a ++ c) := by
  simp [IntBuf.pushAll, List.foldl_append]

theorem flagsOf_append (a b : List Cell) : flagsOf (a ++ b) = flagsOf a ++ flagsOf b := by
  simp [flagsOf]

theorem flagsOf_replicate_null (n : Nat) : flagsOf (List.replicate n .null) = List.replicate n false := by
  simp [flagsOf, isNonNull]

theorem flagsOf_map_nonnull {α : Type} (f : α → Cell) (l : List α) (hf : ∀ a, isNonNull (f a) = true) :
    flagsOf (l.map f) = List.replicate l.length true := by
  induction l with
  | nil => rfl
  | cons a t ih => simp only [flagsOf, List.map_cons, List.map_map] at ih ⊢; simp [hf, List.replicate_succ, ih]

theorem flagsOf_map_conv (f : Cell → Cell) (hf : ∀ c, isNonNull (f c) = isNonNull c) (cells : List Cell) :
    flagsOf (cells.map f) = flagsOf cells := by
  induction cells with
  | nil => rfl
  | cons c cs ih => simp only [flagsOf, List.map_cons, List.map_map] at ih ⊢; simp [hf, ih]

theorem isNonNull_toFloatCell (cv : Conv) (c : Cell) : isNonNull (toFloatCell cv c) = isNonNull c := by
  cases c <;> rfl

theorem isNonNull_toStrCell (cv : Conv) (c : Cell) : isNonNull (toStrCell cv c) = isNonNull c := by
  cases c <;> rfl

/-- all flags false: the cells are all NULL. -/
theorem cells_all_null (cells : List Cell) (h : ∀ f ∈ flagsOf cells, f = false) :
    cells = List.replicate cells.length .null := by
  induction cells with
  | nil => rfl
  | cons c cs ih =>
    have hc : isNonNull c = false := h _ (by simp [flagsOf])
    have : c = .null := by cases c <;> simp_all [isNonNull]
    rw [this, List.length_cons, List.replicate_succ]
    congr 1
    exact ih (fun f hf => h f (by simp only [flagsOf, List.map_cons, List.mem_cons] at hf ⊢; exact Or.inr hf))

theorem cells_all_nonnull (cells : List Cell) (h : ∀ f ∈ flagsOf cells, f = true) : ∀ c ∈ cells, c ≠ .null := by
  intro c hc hn
  have := h (isNonNull c) (by simp only [flagsOf, List.mem_map]; exact ⟨c, hc, rfl⟩)
  rw [hn] at this
  simp [isNonNull] at this

/-- the flags of the specification's cells grow by exactly the flags of the op. -/
theorem flags_specStep (cv : Conv) (st : SpecTy) (cells : List Cell) (op : Op) :
    flagsOf (specStep cv (st, cells) op).2 = flagsOf cells ++ op.flags := by
  have hF := flagsOf_map_conv (toFloatCell cv) (isNonNull_toFloatCell cv) cells
  have hS := flagsOf_map_conv (toStrCell cv) (isNonNull_toStrCell cv) cells
  cases op with
  | nulls n => simp [specStep, flagsOf_append, flagsOf_replicate_null, Op.flags]
  | ints xs =>
    cases st <;>
      simp only [specStep, flagsOf_append, Op.flags] <;> congr 1 <;>
      exact flagsOf_map_nonnull _ xs (fun _ => rfl)
  | floats fs =>
    cases st <;>
      simp only [specStep, flagsOf_append, Op.flags, hF] <;> congr 1 <;>
      exact flagsOf_map_nonnull _ fs (fun _ => rfl)
  | strs ss =>
    simp only [specStep, flagsOf_append, Op.flags, hS]; congr 1
    exact flagsOf_map_nonnull _ ss (fun _ => rfl)

/-! ### one push keeps buffer and specification related -/

theorem agree_map_int (xs : List Int) (f : Int → Cell) : Agree (xs.map f) (xs.map f) := Agree.refl _

/-- `i as f64` on the slots of an integer buffer. -/
theorem agree_toFloat (cv : Conv) {cells : List Cell} {xs : List Int} (h : Agree cells (xs.map .int)) :
    Agree (cells.map (toFloatCell cv)) ((xs.map cv.i2f).map .float) := by
  have := Agree.map (toFloatCell cv) (toFloatCell cv) rfl (fun _ _ => rfl) h
  simpa [List.map_map, Function.comp_def, toFloatCell] using this

theorem agree_intToStr (cv : Conv) {cells : List Cell} {xs : List Int} (h : Agree cells (xs.map .int)) :
    Agree (cells.map (toStrCell cv))
      ((xs.map fun i => RawVal.str (cv.showInt i)).map fun v => Cell.str (mixedBytes cv v)) := by
  have := Agree.map (toStrCell cv) (toStrCell cv) rfl (fun _ _ => rfl) h
  simpa [List.map_map, Function.comp_def, toStrCell, mixedBytes] using this

theorem agree_floatToStr (cv : Conv) {cells : List Cell} {d : List Nat} (h : Agree cells (d.map .float)) :
    Agree (cells.map (toStrCell cv))
      ((d.map fun f => RawVal.str (cv.showFloat f)).map fun v => Cell.str (mixedBytes cv v)) := by
  have := Agree.map (toStrCell cv) (toStrCell cv) rfl (fun _ _ => rfl) h
  simpa [List.map_map, Function.comp_def, toStrCell, mixedBytes] using this

/-- string cells are unchanged by `toStrCell`; the slots of a string / Mixed buffer are strings. -/
theorem agree_strToStr (cv : Conv) {cells : List Cell} {ss : List Bytes} (h : Agree cells (ss.map .str)) :
    Agree (cells.map (toStrCell cv)) (ss.map .str) := by
  have := Agree.map (toStrCell cv) (toStrCell cv) rfl (fun _ _ => rfl) h
  simpa [List.map_map, Function.comp_def, toStrCell] using this

theorem agree_mixedToStr (cv : Conv) {cells : List Cell} {d : List RawVal}
    (h : Agree cells (d.map fun v => Cell.str (mixedBytes cv v))) :
    Agree (cells.map (toStrCell cv)) (d.map fun v => Cell.str (mixedBytes cv v)) := by
  have := Agree.map (toStrCell cv) (toStrCell cv) rfl (fun _ _ => rfl) h
  simpa [List.map_map, Function.comp_def, toStrCell] using this

theorem strsToMixed_pushAll (ss : List Bytes) (h : ∀ s ∈ ss, s.length < 2 ^ 24) :
    strsToMixed (StrBuf.pushAll {} ss) = .ok (ss.map RawVal.str) := by
  simp [strsToMixed, (StrBuf.iter_pushAll ss h).1]

theorem rawOk_strs (ss : List Bytes) (h : ∀ s ∈ ss, s.length < 2 ^ 24) : ∀ v ∈ ss.map RawVal.str, RawOk v := by
  intro v hv; obtain ⟨s, hs, rfl⟩ := List.mem_map.mp hv; exact h s hs

theorem rawOk_ints (xs : List Int) (h : ∀ x ∈ xs, inI64 x) : ∀ v ∈ xs.map RawVal.int, RawOk v := by
  intro v hv; obtain ⟨s, hs, rfl⟩ := List.mem_map.mp hv; exact h s hs

theorem rawOk_floats (fs : List Nat) : ∀ v ∈ fs.map RawVal.float, RawOk v := by
  intro v hv; obtain ⟨s, _, rfl⟩ := List.mem_map.mp hv; trivial

theorem rawOk_append {a b : List RawVal} (ha : ∀ v ∈ a, RawOk v) (hb : ∀ v ∈ b, RawOk v) :
    ∀ v ∈ a ++ b, RawOk v := by
  intro v hv; rcases List.mem_append.mp hv with h | h
  · exact ha v h
  · exact hb v h

/-- the `TypedBuffer::Empty` prologue succeeds (no bitmap exists yet) and keeps buffer / length. -/
theorem initIfNonEmpty_empty {cb : ColBuf} {fl : List Bool} (hinv : cb.Inv fl) (he : cb.buffer = .empty) :
    ∃ cb0, cb.initIfNonEmpty = .ok cb0 ∧ cb0.length = cb.length := by
  obtain ⟨hp, _⟩ := hinv.empty he
  by_cases hl : cb.length > 0
  · exact ⟨{ cb with present := some (initAllNull cb.length) },
      by simp [ColBuf.initIfNonEmpty, hl, ColBuf.initPresent, hp, he], rfl⟩
  · exact ⟨cb, by simp [ColBuf.initIfNonEmpty, hl], rfl⟩

theorem mem_append_of {α : Type} {P : α → Prop} {a b : List α} (ha : ∀ x ∈ a, P x) (hb : ∀ x ∈ b, P x) :
    ∀ x ∈ a ++ b, P x := by
  intro x hx; rcases List.mem_append.mp hx with h | h
  · exact ha x h
  · exact hb x h

theorem mem_replicate_of {α : Type} {P : α → Prop} (n : Nat) (a : α) (h : P a) : ∀ x ∈ List.replicate n a, P x := by
  intro x hx; rw [(List.mem_replicate.mp hx).2]; exact h

theorem bufRel_apply (cv : Conv) (hcv : ConvOk cv) {cb : ColBuf} {st : SpecTy} {slots cells : List Cell}
    (hb : BufRel cv cb.buffer st slots) (hag : Agree cells slots) (hinv : cb.Inv (flagsOf cells))
    (op : Op) (hop : OpOk op) :
    ∃ cb' slots', cb.apply cv op = .ok cb' ∧
      BufRel cv cb'.buffer (specStep cv (st, cells) op).1 slots' ∧
      Agree (specStep cv (st, cells) op).2 slots' := by
  have hlen : cb.length = cells.length := by simpa [flagsOf] using hinv.len
  have i0 : inI64 0 := by decide
  have s0 : ([] : Bytes).length < 2 ^ 24 := by decide
  generalize hbuf : cb.buffer = buf at hb
  cases hb with
  | empty slots =>
    -- nothing but NULLs so far
    have hnull := cells_all_null cells (hinv.empty hbuf).2
    obtain ⟨cb0, h0, hl0⟩ := initIfNonEmpty_empty hinv hbuf
    have hl : cb0.length = cells.length := by rw [hl0, hlen]
    cases op with
    | nulls n =>
      refine ⟨cb.pushNulls n, cells ++ List.replicate n .null, rfl, ?_, Agree.refl _⟩
      simp only [ColBuf.pushNulls, hbuf, specStep]
      exact BufRel.empty _
    | ints xs =>
      have e : cb.apply cv (.ints xs) =
          .ok (cb0.finishPush (.int (IntBuf.pushAll {} (List.replicate cb0.length 0 ++ xs))) none xs.length) := by
        simp only [ColBuf.apply, ColBuf.pushInts, hbuf, h0, bind_ok, pure_eq_ok, IntBuf.pushAll_append]
      refine ⟨_, (List.replicate cb0.length 0 ++ xs).map .int, e,
        BufRel.int _ (mem_append_of (mem_replicate_of _ _ i0) hop), ?_⟩
      simp only [specStep, List.map_append]
      refine Agree.append ?_ (Agree.refl _)
      rw [hnull]; exact Agree.nulls _ _ (by simp [hl])
    | floats fs =>
      have e : cb.apply cv (.floats fs) =
          .ok (cb0.finishPush (.float (List.replicate cb0.length 0 ++ fs)) none fs.length) := by
        simp only [ColBuf.apply, ColBuf.pushFloats, hbuf, h0, bind_ok, pure_eq_ok]
      refine ⟨_, (List.replicate cb0.length 0 ++ fs).map .float, e, BufRel.float _, ?_⟩
      simp only [specStep, List.map_append]
      refine Agree.append ?_ (Agree.refl _)
      rw [hnull]; exact Agree.nulls _ _ (by simp [hl])
    | strs ss =>
      have e : cb.apply cv (.strs ss) =
          .ok (cb0.finishPush (.str (StrBuf.pushAll {} (List.replicate cb0.length [] ++ ss))) none ss.length) := by
        simp only [ColBuf.apply, ColBuf.pushStrings, hbuf, h0, bind_ok, pure_eq_ok, StrBuf.pushAll_append]
      refine ⟨_, (List.replicate cb0.length [] ++ ss).map .str, e,
        BufRel.str _ (mem_append_of (mem_replicate_of _ _ s0) hop), ?_⟩
      simp only [specStep, List.map_append]
      refine Agree.append ?_ (Agree.refl _)
      have hn2 := cells_all_null (cells.map (toStrCell cv)) (by
        rw [flagsOf_map_conv _ (isNonNull_toStrCell cv)]; exact (hinv.empty hbuf).2)
      rw [hn2]; exact Agree.nulls _ _ (by simp [hl])
  | int xs hx =>
    have hdata : (IntBuf.pushAll {} xs).data = xs := by
      have := (IntBuf.pushAll_spec {} IntBuf.inv_default xs hx).2; simpa using this
    cases op with
    | nulls n =>
      have e : cb.apply cv (.nulls n) = .ok (cb.pushNulls n) := rfl
      refine ⟨_, (xs ++ List.replicate n 0).map .int, e, ?_, ?_⟩
      · simp only [ColBuf.pushNulls, hbuf, specStep, IntBuf.pushAll_append]
        exact BufRel.int _ (mem_append_of hx (mem_replicate_of _ _ i0))
      · simp only [specStep, List.map_append]
        exact Agree.append hag (Agree.nulls _ _ (by simp))
    | ints ys =>
      have e : cb.apply cv (.ints ys) =
          .ok (cb.finishPush (.int (IntBuf.pushAll {} (xs ++ ys))) none ys.length) := by
        simp only [ColBuf.apply, ColBuf.pushInts, hbuf, IntBuf.pushAll_append]
      refine ⟨_, (xs ++ ys).map .int, e, BufRel.int _ (mem_append_of hx hop), ?_⟩
      simp only [specStep, List.map_append]
      exact Agree.append hag (Agree.refl _)
    | floats fs =>
      have e : cb.apply cv (.floats fs) =
          .ok (cb.finishPush (.float (xs.map cv.i2f ++ fs)) none fs.length) := by
        simp only [ColBuf.apply, ColBuf.pushFloats, hbuf, hdata]
      refine ⟨_, (xs.map cv.i2f ++ fs).map .float, e, BufRel.float _, ?_⟩
      simp only [specStep, List.map_append]
      exact Agree.append (agree_toFloat cv hag) (Agree.refl _)
    | strs ss =>
      have e : cb.apply cv (.strs ss) =
          .ok (cb.finishPush (.mixed ((xs.map fun i => RawVal.str (cv.showInt i)) ++ ss.map .str)) none ss.length) := by
        simp only [ColBuf.apply, ColBuf.pushStrings, hbuf, hdata]
      refine ⟨_, _, e, BufRel.mixed _ (rawOk_append (by
          intro v hv; obtain ⟨i, _, rfl⟩ := List.mem_map.mp hv; exact hcv.showInt i) (rawOk_strs ss hop)), ?_⟩
      simp only [specStep, List.map_append]
      refine Agree.append (agree_intToStr cv hag) ?_
      simp only [List.map_map, Function.comp_def, mixedBytes]; exact Agree.refl _
  | float d =>
    cases op with
    | nulls n =>
      have e : cb.apply cv (.nulls n) = .ok (cb.pushNulls n) := rfl
      refine ⟨_, (d ++ List.replicate n 0).map .float, e, ?_, ?_⟩
      · simp only [ColBuf.pushNulls, hbuf, specStep]
        exact BufRel.float _
      · simp only [specStep, List.map_append]
        exact Agree.append hag (Agree.nulls _ _ (by simp))
    | ints ys =>
      have e : cb.apply cv (.ints ys) =
          .ok (cb.finishPush (.float (d ++ ys.map cv.i2f)) none ys.length) := by
        simp only [ColBuf.apply, ColBuf.pushInts, hbuf]
      refine ⟨_, (d ++ ys.map cv.i2f).map .float, e, BufRel.float _, ?_⟩
      simp only [specStep, List.map_append, List.map_map, Function.comp_def]
      exact Agree.append hag (Agree.refl _)
    | floats fs =>
      have e : cb.apply cv (.floats fs) = .ok (cb.finishPush (.float (d ++ fs)) none fs.length) := by
        simp only [ColBuf.apply, ColBuf.pushFloats, hbuf]
      refine ⟨_, (d ++ fs).map .float, e, BufRel.float _, ?_⟩
      simp only [specStep, List.map_append]
      exact Agree.append hag (Agree.refl _)
    | strs ss =>
      have e : cb.apply cv (.strs ss) =
          .ok (cb.finishPush (.mixed ((d.map fun f => RawVal.str (cv.showFloat f)) ++ ss.map .str)) none ss.length) := by
        simp only [ColBuf.apply, ColBuf.pushStrings, hbuf]
      refine ⟨_, _, e, BufRel.mixed _ (rawOk_append (by
          intro v hv; obtain ⟨i, _, rfl⟩ := List.mem_map.mp hv; exact hcv.showFloat i) (rawOk_strs ss hop)), ?_⟩
      simp only [specStep, List.map_append]
      refine Agree.append (agree_floatToStr cv hag) ?_
      simp only [List.map_map, Function.comp_def, mixedBytes]; exact Agree.refl _
  | str ss hs =>
    have hmix := strsToMixed_pushAll ss hs
    cases op with
    | nulls n =>
      have e : cb.apply cv (.nulls n) = .ok (cb.pushNulls n) := rfl
      refine ⟨_, (ss ++ List.replicate n []).map .str, e, ?_, ?_⟩
      · simp only [ColBuf.pushNulls, hbuf, specStep, StrBuf.pushAll_append]
        exact BufRel.str _ (mem_append_of hs (mem_replicate_of _ _ s0))
      · simp only [specStep, List.map_append]
        exact Agree.append hag (Agree.nulls _ _ (by simp))
    | ints ys =>
      have e : cb.apply cv (.ints ys) =
          .ok (cb.finishPush (.mixed (ss.map RawVal.str ++ ys.map .int)) none ys.length) := by
        simp only [ColBuf.apply, ColBuf.pushInts, hbuf, hmix, bind_ok, pure_eq_ok]
      refine ⟨_, _, e, BufRel.mixed _ (rawOk_append (rawOk_strs ss hs) (rawOk_ints ys hop)), ?_⟩
      simp only [specStep, List.map_append, List.map_map, Function.comp_def, mixedBytes]
      exact Agree.append hag (Agree.refl _)
    | floats fs =>
      have e : cb.apply cv (.floats fs) =
          .ok (cb.finishPush (.mixed (ss.map RawVal.str ++ fs.map .float)) none fs.length) := by
        simp only [ColBuf.apply, ColBuf.pushFloats, hbuf, hmix, bind_ok, pure_eq_ok]
      refine ⟨_, _, e, BufRel.mixed _ (rawOk_append (rawOk_strs ss hs) (rawOk_floats fs)), ?_⟩
      simp only [specStep, List.map_append, List.map_map, Function.comp_def, mixedBytes]
      exact Agree.append hag (Agree.refl _)
    | strs ts =>
      have e : cb.apply cv (.strs ts) =
          .ok (cb.finishPush (.str (StrBuf.pushAll {} (ss ++ ts))) none ts.length) := by
        simp only [ColBuf.apply, ColBuf.pushStrings, hbuf, StrBuf.pushAll_append]
      refine ⟨_, (ss ++ ts).map .str, e, BufRel.str _ (mem_append_of hs hop), ?_⟩
      simp only [specStep, List.map_append]
      exact Agree.append (agree_strToStr cv hag) (Agree.refl _)
  | mixed d hd =>
    cases op with
    | nulls n =>
      have e : cb.apply cv (.nulls n) = .ok (cb.pushNulls n) := rfl
      refine ⟨_, (d ++ List.replicate n RawVal.null).map fun v => Cell.str (mixedBytes cv v), e, ?_, ?_⟩
      · simp only [ColBuf.pushNulls, hbuf, specStep]
        exact BufRel.mixed _ (rawOk_append hd (mem_replicate_of (P := RawOk) n RawVal.null trivial))
      · simp only [specStep, List.map_append]
        exact Agree.append hag (Agree.nulls _ _ (by simp))
    | ints ys =>
      have e : cb.apply cv (.ints ys) = .ok (cb.finishPush (.mixed (d ++ ys.map .int)) none ys.length) := by
        simp only [ColBuf.apply, ColBuf.pushInts, hbuf]
      refine ⟨_, _, e, BufRel.mixed _ (rawOk_append hd (rawOk_ints ys hop)), ?_⟩
      simp only [specStep, List.map_append, List.map_map, Function.comp_def, mixedBytes]
      exact Agree.append hag (Agree.refl _)
    | floats fs =>
      have e : cb.apply cv (.floats fs) = .ok (cb.finishPush (.mixed (d ++ fs.map .float)) none fs.length) := by
        simp only [ColBuf.apply, ColBuf.pushFloats, hbuf]
      refine ⟨_, _, e, BufRel.mixed _ (rawOk_append hd (rawOk_floats fs)), ?_⟩
      simp only [specStep, List.map_append, List.map_map, Function.comp_def, mixedBytes]
      exact Agree.append hag (Agree.refl _)
    | strs ts =>
      have e : cb.apply cv (.strs ts) = .ok (cb.finishPush (.mixed (d ++ ts.map .str)) none ts.length) := by
        simp only [ColBuf.apply, ColBuf.pushStrings, hbuf]
      refine ⟨_, _, e, BufRel.mixed _ (rawOk_append hd (rawOk_strs ts hop)), ?_⟩
      simp only [specStep, List.map_append, List.map_map, Function.comp_def, mixedBytes]
      exact Agree.append (agree_mixedToStr cv hag) (Agree.refl _)

/-- The simulation relation between a `ColumnBuffer` and the specification state. -/
structure Rel (cv : Conv) (cb : ColBuf) (st : SpecTy) (cells : List Cell) : Prop where
  slots : ∃ slots, BufRel cv cb.buffer st slots ∧ Agree cells slots
  inv : cb.Inv (flagsOf cells)

theorem rel_default (cv : Conv) : Rel cv {} .none [] :=
  ⟨⟨[], BufRel.empty _, trivial⟩, ColBuf.inv_default⟩

theorem rel_apply (cv : Conv) (hcv : ConvOk cv) {cb : ColBuf} {st : SpecTy} {cells : List Cell}
    (h : Rel cv cb st cells) (op : Op) (hop : OpOk op) :
    ∃ cb', cb.apply cv op = .ok cb' ∧
      Rel cv cb' (specStep cv (st, cells) op).1 (specStep cv (st, cells) op).2 := by
  obtain ⟨slots, hb, hag⟩ := h.slots
  obtain ⟨cb', slots', h1, h2, h3⟩ := bufRel_apply cv hcv hb hag h.inv op hop
  refine ⟨cb', h1, ⟨slots', h2, h3⟩, ?_⟩
  rw [flags_specStep]
  exact ColBuf.inv_apply cv h.inv op h1

theorem rel_applyAll (cv : Conv) (hcv : ConvOk cv) {cb : ColBuf} {st : SpecTy} {cells : List Cell}
    (h : Rel cv cb st cells) (ops : List Op) (hops : ∀ op ∈ ops, OpOk op) :
    ∃ cb', cb.applyAll cv ops = .ok cb' ∧
      Rel cv cb' (ops.foldl (specStep cv) (st, cells)).1 (ops.foldl (specStep cv) (st, cells)).2 := by
  induction ops generalizing cb st cells with
  | nil => exact ⟨cb, rfl, h⟩
  | cons op ops ih =>
    obtain ⟨cb1, h1, hr1⟩ := rel_apply cv hcv h op (hops op List.mem_cons_self)
    obtain ⟨cb', h2, hr2⟩ := ih hr1 (fun o ho => hops o (List.mem_cons_of_mem _ ho))
    exact ⟨cb', by simp only [ColBuf.applyAll, h1, bind_ok, h2], by simpa [List.foldl_cons] using hr2⟩

/-! ### finalize + decode returns the cells -/

theorem flagAt_flagsOf (cells : List Cell) (j : Nat) (hj : j < cells.length) :
    flagAt (flagsOf cells) j = decide (cells[j] ≠ .null) := by
  unfold flagAt flagsOf
  rw [List.getD_eq_getElem?_getD, List.getElem?_map, List.getElem?_eq_getElem hj]
  cases cells[j] <;> simp [isNonNull]

/-- what the client sees of a decoded buffer whose data are the slots and whose bitmap is the buffer's. -/
theorem cellsOf_rel {cb : ColBuf} {cells slots : List Cell} (hinv : cb.Inv (flagsOf cells))
    (hne : cb.buffer ≠ .empty) (hag : Agree cells slots) (data : Data) (hd : dataCells data = slots) :
    cellsOf ⟨data, cb.present⟩ = cells := by
  have ht := hinv.typed hne
  unfold cellsOf
  cases hp : cb.present with
  | none =>
    rw [hp] at ht
    simp only [hd]
    exact hag.eq_of_nonnull (cells_all_nonnull cells ht)
  | some bm =>
    rw [hp] at ht
    simp only [hd]
    exact maskFrom_agree bm 0 cells slots hag (fun j hj => by
      rw [Nat.zero_add, ht.2 j, flagAt_flagsOf cells j hj])

/-- `FloatColumn::new_boxed` overwrites exactly the slots whose bit is clear. -/
theorem maskFrom_fillNulls (bm : List Nat) (last i : Nat) (d : List Nat) :
    maskFrom bm i ((fillNulls bm last i d).map .float) = maskFrom bm i (d.map .float) := by
  induction d generalizing last i with
  | nil => rfl
  | cons v vs ih =>
    simp only [fillNulls]
    split
    · rename_i h; simp [maskFrom, h, ih]
    · rename_i h; simp [maskFrom, h, ih]

theorem fillNulls_length (bm : List Nat) (last i : Nat) (d : List Nat) :
    (fillNulls bm last i d).length = d.length := by
  induction d generalizing last i with
  | nil => rfl
  | cons v vs ih => simp only [fillNulls]; split <;> simp [ih]

theorem floatColumn_decode (dec : Section → Section) (d : List Nat) (present : Option (List Nat)) :
    (∃ d', decode dec (floatColumn d present) = .ok ⟨.f64 d', present⟩ ∧
      cellsOf ⟨.f64 d', present⟩ = cellsOf ⟨.f64 d, present⟩) ∧
    (floatColumn d present).len = d.length ∧ NoPush0 (floatColumn d present).ops := by
  cases present with
  | none => exact ⟨⟨d, by simp [floatColumn, decode, runOps, ofSection], rfl⟩, rfl, by simp [floatColumn, NoPush0]⟩
  | some p =>
    refine ⟨⟨fillNulls p 0 0 d, by simp [floatColumn, decode, runOps, step, ofSection], ?_⟩, rfl,
      by simp [floatColumn, NoPush0]⟩
    simp only [cellsOf, dataCells]
    exact maskFrom_fillNulls p 0 0 d

theorem rel_finalize_raw (cv : Conv) (hcv : ConvOk cv) (dec : Section → Section)
    {cb : ColBuf} {st : SpecTy} {cells : List Cell} (h : Rel cv cb st cells) (hne : cells ≠ []) :
    ∃ col, cb.finalize cv = .ok col ∧ col.len = cells.length ∧ NoPush0 col.ops ∧
      decodeCells dec col = .ok cells := by
  obtain ⟨slots, hb, hag⟩ := h.slots
  have hinv := h.inv
  have hlen : cb.length = cells.length := by simpa [flagsOf] using hinv.len
  have hsl := hag.length
  generalize hbuf : cb.buffer = buf at hb
  have key : ∀ (col : Column) (data : Data), NoPush0 col.ops → decode dec col = .ok ⟨data, cb.present⟩ →
      cellsOf ⟨data, cb.present⟩ = cells → NoPush0 col.ops ∧ decodeCells dec col = .ok cells := by
    intro col data hnp hdec hc
    exact ⟨hnp, by simp only [decodeCells, hdec, hc]⟩
  cases hb with
  | empty slots =>
    have hnull := cells_all_null cells (hinv.empty hbuf).2
    have hp := (hinv.empty hbuf).1
    refine ⟨nullColumn cb.length, by simp [ColBuf.finalize, hbuf], by simp [nullColumn, hlen], ?_⟩
    refine key _ (.null cb.length) (by simp [nullColumn, NoPush0])
      (by simp [nullColumn, decode, runOps, ofSection, hp]) ?_
    simp only [hp, cellsOf, dataCells, hlen]; exact hnull.symm
  | int xs hx =>
    have hxne : xs ≠ [] := by
      intro hxs; rw [hxs] at hsl; exact hne (List.eq_nil_of_length_eq_zero (by simpa using hsl.symm))
    obtain ⟨c, h1, h2, h3, h4⟩ := intBuf_roundtrip dec xs cb.present hxne hx
    refine ⟨c, by simp [ColBuf.finalize, hbuf, h1], by rw [h3]; simpa using hsl, ?_⟩
    exact key c _ h4 h2 (cellsOf_rel hinv (by rw [hbuf]; simp) hag _ rfl)
  | float d =>
    obtain ⟨⟨d', hd1, hd2⟩, hl, hnp⟩ := floatColumn_decode dec d cb.present
    refine ⟨floatColumn d cb.present, by simp [ColBuf.finalize, hbuf], by rw [hl]; simpa using hsl, ?_⟩
    exact key _ _ hnp hd1 (by rw [hd2]; exact cellsOf_rel hinv (by rw [hbuf]; simp) hag _ rfl)
  | str ss hs =>
    obtain ⟨c, h1, h2, h3, h4⟩ := strBuf_finalize_decode dec ss cb.present hs
    refine ⟨c, by simp [ColBuf.finalize, hbuf, h1], by rw [h3]; simpa using hsl, ?_⟩
    exact key c _ h4 h2 (cellsOf_rel hinv (by rw [hbuf]; simp) hag _ rfl)
  | mixed d hd =>
    have hlens : ∀ s ∈ d.map (mixedBytes cv), s.length < 2 ^ 24 := by
      intro s hs
      obtain ⟨v, hv, rfl⟩ := List.mem_map.mp hs
      have := hd v hv
      cases v with
      | int i => exact hcv.showInt i
      | float f => exact hcv.showFloat f
      | str s => exact this
      | null => simp [mixedBytes]
    obtain ⟨c, h1, h2, h3, h4⟩ := strBuf_finalize_decode dec (d.map (mixedBytes cv)) cb.present hlens
    refine ⟨c, by simp [ColBuf.finalize, hbuf, mixedStrings_eq, h1], by rw [h3]; simpa using hsl, ?_⟩
    exact key c _ h4 h2 (cellsOf_rel hinv (by rw [hbuf]; simp) hag _ (by simp [dataCells, List.map_map, Function.comp_def]))

theorem rel_finalize (cv : Conv) (hcv : ConvOk cv) (cp : Compressor) (hcp : CompOk cp) (use : Bool)
    {cb : ColBuf} {st : SpecTy} {cells : List Cell} (h : Rel cv cb st cells) (hne : cells ≠ []) :
    ∃ col, cb.finalize cv = .ok col ∧ col.len = cells.length ∧
      decodeCells cp.dec (compress cp use col) = .ok cells := by
  obtain ⟨col, h1, h2, h3, h4⟩ := rel_finalize_raw cv hcv cp.dec h hne
  refine ⟨col, h1, h2, ?_⟩
  simp only [decodeCells, compress_decode cp hcp use col h3] at h4 ⊢
  exact h4

/-! ### the hypotheses `CompOk` / `ConvOk` are satisfiable (used by the non-vacuity examples) -/

def zig (x : Int) : Nat := if x ≥ 0 then (2 * x).toNat else (-2 * x - 1).toNat
def zag (n : Nat) : Int := if n % 2 = 0 then (n / 2 : Nat) else -((n / 2 : Nat) : Int) - 1

theorem zag_zig (x : Int) : zag (zig x) = x := by
  unfold zag zig
  split <;> split <;> omega

def widthCode : Width → Nat | .u8 => 0 | .u16 => 1 | .u32 => 2 | .u64 => 3
def codeWidth : Nat → Width | 0 => .u8 | 1 => .u16 | 2 => .u32 | _ => .u64

/-- a toy lossless "compressor": serialises any section into an opaque byte section. -/
def demoEnc : Section → Section
  | .nat w d => .comp (0 :: widthCode w :: d) 0
  | .i64 d => .comp (1 :: d.map zig) 0
  | .f64 d => .comp (2 :: d) 0
  | .null n => .comp [3, n] 0
  | .bitvec d => .comp (4 :: d) 0
  | .comp p o => .comp (5 :: o :: p) 0

def demoDec : Section → Section
  | .comp (0 :: w :: d) _ => .nat (codeWidth w) d
  | .comp (1 :: d) _ => .i64 (d.map zag)
  | .comp (2 :: d) _ => .f64 d
  | .comp [3, n] _ => .null n
  | .comp (4 :: d) _ => .bitvec d
  | .comp (5 :: o :: p) _ => .comp p o
  | s => s

def demoComp : Compressor := ⟨demoEnc, demoDec⟩

theorem demoComp_ok : CompOk demoComp := by
  constructor
  · intro s; cases s <;> exact ⟨_, _, rfl⟩
  · intro s
    cases s with
    | nat w d => cases w <;> rfl
    | i64 d =>
      simp only [demoComp, demoEnc, demoDec, List.map_map]
      congr 1
      induction d with
      | nil => rfl
      | cons x xs ih => simp [zag_zig, ih]
    | _ => rfl

/-- decimal-free toy formatting (any function with short output satisfies `ConvOk`). -/
def demoConv : Conv := ⟨fun i => i.toNat, fun i => [UInt8.ofNat (i % 256).toNat], fun f => [UInt8.ofNat (f % 256), 46]⟩

theorem demoConv_ok : ConvOk demoConv := ⟨fun _ => by simp [demoConv], fun _ => by simp [demoConv]⟩

end LM.Codec
