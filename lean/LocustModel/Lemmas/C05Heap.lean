import LocustModel.Lemmas.C05Sort
import LocustModel.Query.Order
/-
  C05, top-n: `heap_replace` keeps the heap property (worst key at the root) and exchanges exactly the
  entry at `node` for the new one.
-/
namespace LM.OrderSpec
open LM LM.Order

variable {α : Type}

theorem lt_imp_le {le : α → α → Bool} (h : TotalPre le) {a b : α} (hab : lt le a b = true) : le a b = true := by
  simp [lt] at hab
  rcases h.total a b with h1 | h1
  · exact h1
  · rw [hab] at h1; exact absurd h1 (by simp)

theorem not_lt_imp_le {le : α → α → Bool} {a b : α} (hab : lt le a b = false) : le b a = true := by
  simpa [lt] using hab

theorem le_refl' {le : α → α → Bool} (h : TotalPre le) (a : α) : le a a = true := by
  rcases h.total a a with h1 | h1 <;> exact h1

/-! ### exchanging two positions is a permutation -/

theorem cons_set_perm {γ : Type} : ∀ (L : List γ) (k : Nat) (a b : γ), L[k]? = some b → (b :: L.set k a).Perm (a :: L)
  | [], _, _, _, h => by simp at h
  | d :: L, 0, a, b, h => by
    simp at h; subst h
    simpa using List.Perm.swap a d L
  | d :: L, k + 1, a, b, h => by
    simp at h
    have ih := cons_set_perm L k a b h
    simp only [List.set_cons_succ]
    exact (List.Perm.swap d b _).trans ((List.Perm.cons d ih).trans (List.Perm.swap a d L))

theorem set_set_perm {γ : Type} : ∀ (L : List γ) (i j : Nat) (a b : γ), i < j → L[j]? = some b →
    ((L.set i b).set j a).Perm (L.set i a)
  | [], _, _, _, _, _, h => by simp at h
  | c :: L, 0, j + 1, a, b, _, h => by
    simp at h
    simpa using cons_set_perm L j a b h
  | c :: L, i + 1, j + 1, a, b, hij, h => by
    simp at h
    simpa using List.Perm.cons c (set_set_perm L i j a b (by omega) h)
  | _ :: _, _, 0, _, _, hij, _ => by omega

/-! ### heap property -/

/-- Worst key at the root: every entry may come before its parent. -/
def IsHeap (le : α → α → Bool) (h : List (α × Nat)) : Prop :=
  ∀ (i : Nat) (p q : α × Nat), 0 < i → h[i]? = some p → h[(i - 1) / 2]? = some q → le p.1 q.1 = true

theorem isHeap_root_max {le : α → α → Bool} (hle : TotalPre le) {h : List (α × Nat)} (hh : IsHeap le h)
    (r : α × Nat) (hr : h[0]? = some r) : ∀ (i : Nat) (p : α × Nat), h[i]? = some p → le p.1 r.1 = true := by
  intro i
  induction i using Nat.strongRecOn with
  | _ i ih =>
    intro p hp
    by_cases hi : i = 0
    · subst hi; rw [hr] at hp; cases hp; exact le_refl' hle _
    · have hlt : i < h.length := by
        rcases Nat.lt_or_ge i h.length with h1 | h1
        · exact h1
        · rw [List.getElem?_eq_none h1] at hp; simp at hp
      have hpar : (i - 1) / 2 < h.length := by omega
      obtain ⟨q, hq⟩ : ∃ q, h[(i - 1) / 2]? = some q := ⟨h[(i - 1) / 2], List.getElem?_eq_getElem hpar⟩
      exact hle.trans _ _ _ (hh i p q (by omega) hp hq) (ih ((i - 1) / 2) (by omega) q hq)

theorem getElem?_set' {γ : Type} (l : List γ) (i j : Nat) (a : γ) (hi : i < l.length) :
    (l.set i a)[j]? = if i = j then some a else l[j]? := by
  rw [List.getElem?_set]; split <;> simp_all

/-- Sift-down: the result is a heap and holds the entries of `h` with the one at `node` exchanged for `x`. -/
theorem heapReplace_spec {le : α → α → Bool} (hle : TotalPre le) :
    ∀ (fuel : Nat) (h : List (α × Nat)) (x : α × Nat) (node : Nat),
      h.length ≤ fuel + node → node < h.length → IsHeap le h →
      (∀ q, 0 < node → h[(node - 1) / 2]? = some q → le x.1 q.1 = true) →
      IsHeap le (heapReplace le fuel h x node) ∧ (heapReplace le fuel h x node).Perm (h.set node x)
  | 0, h, x, node, hf, hn, _, _ => by omega
  | fuel + 1, h, x, node, hf, hn, hh, hpar => by
    -- the terminal case, shared by three branches: both children (if any) may come before x
    have terminal : (∀ kl, h[2 * node + 1]? = some kl → le kl.1 x.1 = true) →
        (∀ kr, h[2 * node + 2]? = some kr → le kr.1 x.1 = true) →
        IsHeap le (h.set node x) ∧ (h.set node x).Perm (h.set node x) := by
      intro hl hr
      refine ⟨?_, List.Perm.refl _⟩
      intro i p q hi hp hq
      rw [getElem?_set' h node i x hn] at hp
      rw [getElem?_set' h node ((i - 1) / 2) x hn] at hq
      by_cases h1 : node = i
      · subst h1
        have h2 : ¬ node = (node - 1) / 2 := by omega
        rw [if_pos rfl] at hp
        rw [if_neg h2] at hq
        cases hp
        exact hpar q hi hq
      · by_cases h2 : node = (i - 1) / 2
        · rw [if_neg h1] at hp
          rw [if_pos h2] at hq
          cases hq
          have : i = 2 * node + 1 ∨ i = 2 * node + 2 := by omega
          rcases this with rfl | rfl
          · exact hl p hp
          · exact hr p hp
        · rw [if_neg h1] at hp
          rw [if_neg h2] at hq
          exact hh i p q hi hp hq
    -- promoting a child `k` at position `c ∈ {lc, rc}` into the hole keeps the heap (with the stale copy at `c`)
    have promote : ∀ (c : Nat) (k : α × Nat), (c = 2 * node + 1 ∨ c = 2 * node + 2) → h[c]? = some k →
        (∀ k', h[2 * node + 1]? = some k' → le k'.1 k.1 = true) →
        (∀ k', h[2 * node + 2]? = some k' → le k'.1 k.1 = true) → IsHeap le (h.set node k) := by
      intro c k hc hk hl hr
      intro i p q hi hp hq
      rw [getElem?_set' h node i k hn] at hp
      rw [getElem?_set' h node ((i - 1) / 2) k hn] at hq
      by_cases h1 : node = i
      · subst h1
        have h2 : ¬ node = (node - 1) / 2 := by omega
        rw [if_pos rfl] at hp
        rw [if_neg h2] at hq
        cases hp
        -- k ≤ h[node] ≤ parent
        have hnode : h[node]? = some h[node] := List.getElem?_eq_getElem hn
        have h3 : le k.1 (h[node]).1 = true := by
          rcases hc with rfl | rfl
          · exact hh (2 * node + 1) k h[node] (by omega) hk (by
              have : (2 * node + 1 - 1) / 2 = node := by omega
              rw [this]; exact hnode)
          · exact hh (2 * node + 2) k h[node] (by omega) hk (by
              have : (2 * node + 2 - 1) / 2 = node := by omega
              rw [this]; exact hnode)
        exact hle.trans _ _ _ h3 (hh node h[node] q hi hnode hq)
      · by_cases h2 : node = (i - 1) / 2
        · rw [if_neg h1] at hp
          rw [if_pos h2] at hq
          cases hq
          have : i = 2 * node + 1 ∨ i = 2 * node + 2 := by omega
          rcases this with rfl | rfl
          · exact hl p hp
          · exact hr p hp
        · rw [if_neg h1] at hp
          rw [if_neg h2] at hq
          exact hh i p q hi hp hq
    simp only [heapReplace]
    cases hlc : h[2 * node + 1]? with
    | none =>
      simp only
      have hrc : h[2 * node + 2]? = none := by
        rw [List.getElem?_eq_none_iff] at hlc ⊢; omega
      exact terminal (by simp [hlc]) (by simp [hrc])
    | some kl =>
      simp only
      have hlclt : 2 * node + 1 < h.length := by
        rcases Nat.lt_or_ge (2 * node + 1) h.length with h1 | h1
        · exact h1
        · rw [List.getElem?_eq_none h1] at hlc; simp at hlc
      cases hrc : h[2 * node + 2]? with
      | none =>
        simp only [Bool.and_true]
        cases hx : lt le x.1 kl.1
        · simp only [Bool.false_eq_true, if_false]
          exact terminal (fun k hk => by rw [hlc] at hk; cases hk; exact not_lt_imp_le hx) (by simp [hrc])
        · simp only [if_true]
          have hheap' := promote (2 * node + 1) kl (Or.inl rfl) hlc
            (fun k' hk' => by rw [hlc] at hk'; cases hk'; exact le_refl' hle _) (by simp [hrc])
          have ih := heapReplace_spec hle fuel (h.set node kl) x (2 * node + 1) (by simp; omega) (by simp; omega) hheap'
            (fun q _ hq => by
              have : (2 * node + 1 - 1) / 2 = node := by omega
              rw [this, getElem?_set' h node node kl hn] at hq
              simp at hq; subst hq; exact lt_imp_le hle hx)
          refine ⟨ih.1, ih.2.trans ?_⟩
          exact set_set_perm h node (2 * node + 1) x kl (by omega) hlc
      | some kr =>
        simp only
        cases hx : lt le x.1 kl.1 && lt le kr.1 kl.1
        · simp only [Bool.false_eq_true, if_false]
          cases hxr : lt le x.1 kr.1
          · simp only [Bool.false_eq_true, if_false]
            -- neither child is promoted: both may come before x
            have hkr : le kr.1 x.1 = true := not_lt_imp_le hxr
            refine terminal (fun k hk => ?_) (fun k hk => by rw [hrc] at hk; cases hk; exact hkr)
            rw [hlc] at hk; cases hk
            cases h1 : lt le x.1 kl.1
            · exact not_lt_imp_le h1
            · simp [h1] at hx
              exact hle.trans _ _ _ (not_lt_imp_le hx) hkr
          · simp only [if_true]
            -- promote the right child: the left one may come before it
            have hklkr : le kl.1 kr.1 = true := by
              cases h1 : lt le x.1 kl.1
              · exact hle.trans _ _ _ (not_lt_imp_le h1) (lt_imp_le hle hxr)
              · simp [h1] at hx; exact not_lt_imp_le hx
            have hheap' := promote (2 * node + 2) kr (Or.inr rfl) hrc
              (fun k' hk' => by rw [hlc] at hk'; cases hk'; exact hklkr)
              (fun k' hk' => by rw [hrc] at hk'; cases hk'; exact le_refl' hle _)
            have hrclt : 2 * node + 2 < h.length := by
              rcases Nat.lt_or_ge (2 * node + 2) h.length with h1 | h1
              · exact h1
              · rw [List.getElem?_eq_none h1] at hrc; simp at hrc
            have ih := heapReplace_spec hle fuel (h.set node kr) x (2 * node + 2) (by simp; omega) (by simp; omega) hheap'
              (fun q _ hq => by
                have : (2 * node + 2 - 1) / 2 = node := by omega
                rw [this, getElem?_set' h node node kr hn] at hq
                simp at hq; subst hq; exact lt_imp_le hle hxr)
            refine ⟨ih.1, ih.2.trans ?_⟩
            exact set_set_perm h node (2 * node + 2) x kr (by omega) hrc
        · simp only [if_true]
          simp at hx
          -- promote the left child: the right one may come before it
          have hheap' := promote (2 * node + 1) kl (Or.inl rfl) hlc
            (fun k' hk' => by rw [hlc] at hk'; cases hk'; exact le_refl' hle _)
            (fun k' hk' => by rw [hrc] at hk'; cases hk'; exact lt_imp_le hle hx.2)
          have ih := heapReplace_spec hle fuel (h.set node kl) x (2 * node + 1) (by simp; omega) (by simp; omega) hheap'
            (fun q _ hq => by
              have : (2 * node + 1 - 1) / 2 = node := by omega
              rw [this, getElem?_set' h node node kl hn] at hq
              simp at hq; subst hq; exact lt_imp_le hle hx.1)
          refine ⟨ih.1, ih.2.trans ?_⟩
          exact set_set_perm h node (2 * node + 1) x kl (by omega) hlc

end LM.OrderSpec
