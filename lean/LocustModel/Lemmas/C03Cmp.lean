import LocustModel.Query.Filter
import LocustModel.Lemmas.C03Order
/-
  Helper lemmas for C03: comparisons on encoded data agree with comparisons on decoded data
  (proof bodies of C03_enc_cmp_int / C03_enc_cmp_str; restated in Thm/C03.lean).
-/
namespace LM.C03L
open LM LM.Sql LM.Filter

/-! ### Comparisons on encoded data -/

/-- What the engine computes for `a op b` on two integers after the registry lowered the function to
    `less_than` / `less_than_equals` / `equals` / `not_equals` with possibly swapped operands. -/
def cmpVia (op : CmpOp) (a b : Int) : Bool :=
  match lower op with
  | (x, false) => xInt x a b
  | (x, true) => xInt x b a

/-- The registry's lowering (GT = less_than(rhs, lhs), GTE = less_than_equals(rhs, lhs)) implements all six operators. -/
theorem lower_int (op : CmpOp) (a b : Int) : cmpVia op a b = cmpInt op a b := by
  cases op <;> simp [cmpVia, lower, xInt, cmpInt]

theorem sat_cases (x : Int) : (x > I64_MAX ∧ satI64 x = I64_MAX) ∨ (x < I64_MIN ∧ satI64 x = I64_MIN)
    ∨ (I64_MIN ≤ x ∧ x ≤ I64_MAX ∧ satI64 x = x) := by
  unfold satI64 I64_MAX I64_MIN
  by_cases h1 : x > 9223372036854775807
  · simp [h1]
  · by_cases h2 : x < -9223372036854775808
    · simp [h1, h2]
    · simp [h1, h2]; omega

/-- Offset-encoded integer columns (`Add(t, o)`, stored value `e = v - o`, `t` ∈ u8/u16/u32 so `e` lies strictly
    inside i64): for EVERY constant `c` — inside, at the edges of, outside the column's range, or so far away that
    `c - o` is not an i64 — `encode_int` does not fault, and comparing the stored value with the encoded constant
    gives the same answer as comparing the decoded value with the constant, for all six operators and both
    operand orders. -/
theorem enc_cmp_int (op : CmpOp) (t : ET) (o v c : Int)
    (hv : I64_MIN < v - o ∧ v - o < I64_MAX) :
    encodeInt [.add t o] c = .ok (satI64 (c - o))
    ∧ cmpVia op (v - o) (satI64 (c - o)) = cmpInt op v c
    ∧ cmpVia op (satI64 (c - o)) (v - o) = cmpInt op c v := by
  refine ⟨rfl, ?_, ?_⟩
  all_goals
    unfold I64_MIN I64_MAX at hv
    rcases sat_cases (c - o) with ⟨h, e⟩ | ⟨h, e⟩ | ⟨h1, h2, e⟩ <;> rw [e] <;> simp only [I64_MIN, I64_MAX] at * <;>
      cases op <;> simp [cmpVia, lower, xInt, cmpInt] <;> (try rw [Bool.eq_iff_iff]) <;> (try simp) <;> omega

example : cmpVia .lt ((3 : Int) - (-5)) (satI64 (9223372036854775807 - (-5))) = cmpInt .lt 3 9223372036854775807 :=
  (enc_cmp_int .lt .u8 (-5) 3 9223372036854775807 (by unfold I64_MIN I64_MAX; omega)).2.1

/-- Cast-encoded integer columns (`ToI64(t)`): the constant is used as is. -/
theorem enc_cmp_int_cast (t : ET) (c : Int) : encodeInt [.toI64 t] c = .ok c := rfl

/-- The stored values of a narrow offset column satisfy the hypothesis of `C03_enc_cmp_int`. -/
theorem narrow_inside_i64 (e : Int) (h : inU 8 e ∨ inU 16 e ∨ inU 32 e) : I64_MIN < e ∧ e < I64_MAX := by
  simp [inU] at h; unfold I64_MIN I64_MAX
  omega

/-- Dictionary-encoded string columns (sorted dictionary `d`, stored value = position of the string): for every
    constant `c` — an entry of the dictionary, or absent and lying before the first / between two / after the last
    entry — comparing the stored index with `InverseDictLookup(c, rounding(op, side))` gives the same answer as
    comparing the strings, for all six operators and both operand orders. -/
theorem enc_cmp_str (op : CmpOp) (d : List Bytes) (hs : SortedDict d) (s c : Bytes) (hm : s ∈ d) :
    cmpVia op (dictIndex d (.str s)) (inverseDictLookup d (dictConstRounding op false) c) = cmpBytes op s c
    ∧ cmpVia op (inverseDictLookup d (dictConstRounding op true) c) (dictIndex d (.str s)) = cmpBytes op c s := by
  rw [dictIndex_eq s d hm]
  by_cases hc : c ∈ d
  · rw [lookup_mem c _ d hc, lookup_mem c _ d hc]
    have h1 := lt_iff_pos_lt_pos c s d hs hm hc
    have h2 := lt_iff_pos_lt_pos s c d hs hc hm
    have h3 : s = c ↔ pos s d = pos c d := ⟨fun e => by rw [e], pos_inj c s d hm hc⟩
    have e1 : bytesLt s c = decide (pos s d < pos c d) := by
      cases hb : bytesLt s c <;> simp_all
    have e2 : bytesLt c s = decide (pos c d < pos s d) := by
      cases hb : bytesLt c s <;> simp_all
    have e3 : (s == c) = decide (pos s d = pos c d) := by
      by_cases h : s = c <;> simp_all
    have e3' : (c == s) = decide (pos s d = pos c d) := by
      by_cases h : s = c
      · simp_all
      · have : ¬ c = s := fun e => h e.symm
        simp_all
    refine ⟨?_, ?_⟩ <;> cases op <;>
      simp only [cmpVia, lower, xInt, cmpBytes, bne, e1, e2, e3, e3'] <;>
      rw [Bool.eq_iff_iff] <;> simp <;> omega
  · have hne : s ≠ c := fun e => hc (e ▸ hm)
    have hne' : c ≠ s := fun e => hne e.symm
    have h1 := lt_iff_pos_lt_cnt c s d hs hm
    have e1 : bytesLt s c = decide (pos s d < cntLt c d) := by
      cases hb : bytesLt s c <;> simp_all
    have e2 : bytesLt c s = decide (cntLt c d ≤ pos s d) := by
      cases hb : bytesLt s c
      · have h' := bytesLt_of_not s c hne hb
        rw [hb] at e1
        have : ¬ pos s d < cntLt c d := by simpa using e1.symm
        rw [h']; simp; omega
      · have h' := bytesLt_asymm s c hb
        rw [hb] at e1
        have : pos s d < cntLt c d := by simpa using e1.symm
        rw [h']; simp; omega
    have e3 : (s == c) = false := by simp [hne]
    have e3' : (c == s) = false := by simp [hne']
    refine ⟨?_, ?_⟩ <;> cases op <;> simp only [dictConstRounding] <;> rw [lookup_not_mem c _ d hc] <;>
      simp only [cmpVia, lower, xInt, cmpBytes, bne, e1, e2, e3, e3'] <;>
      rw [Bool.eq_iff_iff] <;> simp <;> omega

example : cmpVia .lt (dictIndex [[98], [100], [102]] (.str [98]))
    (inverseDictLookup [[98], [100], [102]] (dictConstRounding .lt false) [99]) = cmpBytes .lt [98] [99] :=
  (enc_cmp_str .lt [[98], [100], [102]] (by simp [SortedDict, bytesLt]) [98] [99] (by simp)).1



end LM.C03L
