import LocustModel.Lemmas.C05Heap
import LocustModel.Lemmas.C05Tree
/-
  C05, top-n: the indices returned by `TopN` are the first `n` rows of a sorted arrangement of the partition,
  for every `sort_unstable_by` that returns a sorted permutation.  Heap invariant by induction over the stream.
-/
namespace LM.OrderSpec
open LM LM.Order

variable {α : Type}

/-- State of the selection after `p` rows of `xs`. -/
structure TopInv (le : α → α → Bool) (xs : List α) (p : Nat) (h : List (α × Nat)) : Prop where
  nodup : (h.map (·.2)).Nodup
  bound : ∀ q ∈ h, q.2 < p
  key : ∀ q ∈ h, ∃ y, xs[q.2]? = some y ∧ eqv le q.1 y = true
  dropped : ∀ j y, j < p → j ∉ h.map (·.2) → xs[j]? = some y → ∀ q ∈ h, le q.1 y = true

theorem topNFeed_inv {le : α → α → Bool} (hle : TotalPre le) (xs : List α) :
    ∀ (ys : List α) (p : Nat) (h : List (α × Nat)), xs.drop p = ys → TopInv le xs p h → IsHeap le h →
      TopInv le xs (p + ys.length) (topNFeed le ys p h) ∧ (topNFeed le ys p h).length = h.length
  | [], p, h, _, hinv, _ => by simpa [topNFeed] using hinv
  | x :: ys, p, h, hdrop, hinv, hheap => by
    have hxp : xs[p]? = some x := by
      have := congrArg (fun l => l[0]?) hdrop
      simpa using this
    have hdrop' : xs.drop (p + 1) = ys := by
      have := congrArg List.tail hdrop
      simpa [List.drop_drop, Nat.add_comm] using this
    have hlen : p + (x :: ys).length = (p + 1) + ys.length := by simp; omega
    rw [hlen]
    simp only [topNFeed]
    cases hhd : h.head? with
    | none =>
      have hnil : h = [] := by cases h <;> simp_all
      subst hnil
      simp only
      have : TopInv le xs (p + 1) [] := ⟨by simp, by simp, by simp, by simp⟩
      exact topNFeed_inv hle xs ys (p + 1) [] hdrop' this (by intro i p q _ hp; simp at hp)
    | some k0 =>
      obtain ⟨t, rfl⟩ : ∃ t, h = k0 :: t := by
        cases h with
        | nil => simp at hhd
        | cons a t => simp at hhd; exact ⟨t, by rw [hhd]⟩
      simp only
      have hrootmax : ∀ q ∈ k0 :: t, le q.1 k0.1 = true := by
        intro q hq
        obtain ⟨i, hi, hqi⟩ := List.getElem_of_mem hq
        exact isHeap_root_max hle hheap k0 (by simp) i q (by rw [List.getElem?_eq_getElem hi, hqi])
      cases hx : lt le x k0.1
      · -- the row is not better than the worst kept row: dropped
        simp only [Bool.false_eq_true, if_false]
        have hk0x : le k0.1 x = true := not_lt_imp_le hx
        have hinv' : TopInv le xs (p + 1) (k0 :: t) := by
          refine ⟨hinv.nodup, fun q hq => Nat.lt_succ_of_lt (hinv.bound q hq), hinv.key, ?_⟩
          intro j y hj hjn hy q hq
          by_cases hjp : j = p
          · subst hjp; rw [hxp] at hy; cases hy
            exact hle.trans _ _ _ (hrootmax q hq) hk0x
          · exact hinv.dropped j y (by omega) hjn hy q hq
        exact topNFeed_inv hle xs ys (p + 1) (k0 :: t) hdrop' hinv' hheap
      · -- the row replaces the root
        simp only [if_true]
        have hspec := heapReplace_spec hle (k0 :: t).length (k0 :: t) (x, p) 0 (by simp) (by simp) hheap
          (fun q h0 _ => by omega)
        generalize heapReplace le (k0 :: t).length (k0 :: t) (x, p) 0 = h' at hspec ⊢
        have hperm : h'.Perm ((x, p) :: t) := by simpa using hspec.2
        have hxk0 : le x k0.1 = true := lt_imp_le hle hx
        have hmem : ∀ q, q ∈ h' ↔ q = (x, p) ∨ q ∈ t := by
          intro q; rw [hperm.mem_iff]; simp
        have hpmap : (h'.map (·.2)).Perm (p :: t.map (·.2)) := by simpa using hperm.map (·.2)
        have hnd := hinv.nodup
        simp only [List.map_cons, List.nodup_cons] at hnd
        have hinv' : TopInv le xs (p + 1) h' := by
          refine ⟨?_, ?_, ?_, ?_⟩
          · rw [hpmap.nodup_iff, List.nodup_cons]
            refine ⟨?_, hnd.2⟩
            intro hp
            obtain ⟨q, hq, hq2⟩ := List.mem_map.mp hp
            have := hinv.bound q (by simp [hq])
            omega
          · intro q hq
            rcases (hmem q).mp hq with rfl | hq
            · simp
            · exact Nat.lt_succ_of_lt (hinv.bound q (by simp [hq]))
          · intro q hq
            rcases (hmem q).mp hq with rfl | hq
            · exact ⟨x, hxp, eqv_refl hle x⟩
            · exact hinv.key q (by simp [hq])
          · intro j y hj hjn hy q hq
            have hjn' : j ≠ p ∧ j ∉ t.map (·.2) := by
              rw [hpmap.mem_iff] at hjn; simpa using hjn
            -- kept rows may come before the old root
            have hqk0 : le q.1 k0.1 = true := by
              rcases (hmem q).mp hq with rfl | hq
              · exact hxk0
              · exact hrootmax q (by simp [hq])
            by_cases hjk : j = k0.2
            · -- the evicted root
              obtain ⟨y', hy', he⟩ := hinv.key k0 (by simp)
              rw [← hjk, hy] at hy'; cases hy'
              simp [eqv] at he
              exact hle.trans _ _ _ hqk0 he.1
            · have hjold : j ∉ (k0 :: t).map (·.2) := by
                intro hmem'
                simp only [List.map_cons, List.mem_cons] at hmem'
                rcases hmem' with h1 | h1
                · exact hjk h1
                · exact hjn'.2 h1
              have := hinv.dropped j y (by omega) hjold hy k0 (by simp)
              exact hle.trans _ _ _ hqk0 this
        have hrec := topNFeed_inv hle xs ys (p + 1) h' hdrop' hinv' hspec.1
        refine ⟨hrec.1, ?_⟩
        rw [hrec.2, hperm.length_eq]; simp

end LM.OrderSpec

namespace LM.OrderSpec
open LM LM.Order

variable {α : Type}

theorem ge_totalPre {le : α → α → Bool} (h : TotalPre le) : TotalPre (fun a b => le b a) :=
  ⟨fun a b => (h.total a b).symm, fun a b c h1 h2 => h.trans c b a h2 h1⟩

theorem atIdx_totalPre {le : α → α → Bool} (h : TotalPre le) (keys : List α) : TotalPre (atIdx le keys) := by
  constructor
  · intro i j
    simp only [atIdx]
    cases keys[i]? <;> cases keys[j]? <;> simp
    exact h.total _ _
  · intro i j k
    simp only [atIdx]
    cases keys[i]? <;> cases keys[j]? <;> cases keys[k]? <;> simp
    exact h.trans _ _ _

theorem range_map_getD (l : List α) (d : α) : (List.range l.length).map (fun i => l.getD i d) = l := by
  apply List.ext_getElem?
  intro i
  rw [List.getElem?_map]
  by_cases hi : i < l.length
  · rw [List.getElem?_range hi]
    simp [List.getD, List.getElem?_eq_getElem hi]
  · rw [List.getElem?_eq_none (by simpa using hi), List.getElem?_eq_none (by omega)]
    rfl

theorem filterMap_getElem?_eq_map (l : List α) (d : α) : ∀ (L : List Nat), (∀ i ∈ L, i < l.length) →
    L.filterMap (fun i => l[i]?) = L.map (fun i => l.getD i d)
  | [], _ => rfl
  | i :: L, h => by
    have hi : i < l.length := h i (by simp)
    simp only [List.filterMap_cons, List.map_cons, List.getElem?_eq_getElem hi]
    rw [filterMap_getElem?_eq_map l d L (fun j hj => h j (by simp [hj]))]
    simp [List.getD, List.getElem?_eq_getElem hi]

theorem filterMap_range (l : List α) : (List.range l.length).filterMap (fun i => l[i]?) = l := by
  cases l with
  | nil => rfl
  | cons d t =>
    rw [filterMap_getElem?_eq_map (d :: t) d _ (fun i hi => List.mem_range.mp hi)]
    exact range_map_getD (d :: t) d

theorem f2_zip {γ δ : Type} {R : γ → γ → Prop} (f : δ → γ) : ∀ (K : List γ) (V : List δ), F2 R K (V.map f) →
    ∀ kv ∈ K.zip V, R kv.1 (f kv.2)
  | [], _, _, kv, h => by simp at h
  | _ :: _, [], _, kv, h => by simp at h
  | k :: K, v :: V, hF, kv, h => by
    simp only [List.map_cons] at hF
    cases hF with
    | cons h1 h2 =>
      simp only [List.zip_cons_cons, List.mem_cons] at h
      rcases h with rfl | h
      · exact h1
      · exact f2_zip f K V h2 kv h

theorem eqv_ge {le : α → α → Bool} (a b : α) : eqv (fun x y => le y x) a b = eqv le a b := by
  simp [eqv, Bool.and_comm]

/-- The buffer after the fill phase when it is full: sorted worst-first, which is a heap. -/
theorem topN_init_full {le : α → α → Bool} (hle : TotalPre le)
    (xs : List α) (n : Nat) (hn : (xs.take n).length = n) (K : List α) (V : List Nat)
    (hKp : K.Perm (xs.take n)) (hKs : Sorted (fun a b => le b a) K)
    (hVp : V.Perm (List.range (xs.take n).length)) (hVs : Sorted (atIdx (fun a b => le b a) (xs.take n)) V) :
    TopInv le xs n (K.zip V) ∧ IsHeap le (K.zip V) ∧ (K.zip V).length = n := by
  have hge := ge_totalPre hle
  let ge : α → α → Bool := fun a b => le b a
  have hKlen : K.length = n := by rw [hKp.length_eq, hn]
  have hVlen : V.length = n := by rw [hVp.length_eq, List.length_range, hn]
  have hVmem : ∀ v ∈ V, v < n := by
    intro v hv; have := hVp.mem_iff.mp hv; rw [List.mem_range, hn] at this; exact this
  have hmap : (K.zip V).map (·.2) = V := List.map_snd_zip (l₁ := K) (l₂ := V) (by omega)
  have hlen0 : (K.zip V).length = n := by simp [List.length_zip, hKlen, hVlen]
  refine ⟨⟨?_, ?_, ?_, ?_⟩, ?_, hlen0⟩
  · rw [hmap, hVp.nodup_iff]; exact List.nodup_range
  · intro q hq
    exact hVmem q.2 (List.of_mem_zip (a := q.1) (b := q.2) hq).2
  · -- keys[i] ties with the row at indices[i]
    intro q hq
    cases hfirst : xs.take n with
    | nil =>
      rw [hfirst] at hn; simp at hn; subst hn
      have : K = [] := List.eq_nil_of_length_eq_zero hKlen
      subst this; simp at hq
    | cons d t =>
      let f : Nat → α := fun v => (xs.take n).getD v d
      have hWp : (V.map f).Perm (xs.take n) := by
        have := hVp.map f
        rwa [range_map_getD] at this
      have hfv : ∀ v, v < n → (xs.take n)[v]? = some (f v) := by
        intro v hv
        have : v < (xs.take n).length := by omega
        simp [f, List.getD, List.getElem?_eq_getElem this]
      have hWs : Sorted ge (V.map f) := by
        unfold Sorted
        rw [List.pairwise_map]
        refine List.Pairwise.imp_of_mem ?_ hVs
        intro a b ha hb hab
        simp only [atIdx, hfv a (hVmem a ha), hfv b (hVmem b hb)] at hab
        exact hab
      have hF := sorted_perm_forall2 hge hKs hWs (hKp.trans hWp.symm)
      have := f2_zip f K V hF q hq
      refine ⟨f q.2, ?_, ?_⟩
      · have hq2 := hVmem q.2 (List.of_mem_zip (a := q.1) (b := q.2) hq).2
        rw [← hfv q.2 hq2, List.getElem?_take]; simp [hq2]
      · rw [← eqv_ge]; exact this
  · intro j y hj hjn
    rw [hmap] at hjn
    exact absurd (hVp.mem_iff.mpr (by rw [List.mem_range, hn]; exact hj)) hjn
  · intro i p q hi hp hq
    have hp' := (List.getElem?_zip_eq_some.mp hp).1
    have hq' := (List.getElem?_zip_eq_some.mp hq).1
    have hilt : i < K.length := by
      rcases Nat.lt_or_ge i K.length with h1 | h1
      · exact h1
      · rw [List.getElem?_eq_none h1] at hp'; simp at hp'
    have hplt : (i - 1) / 2 < K.length := by omega
    rw [List.getElem?_eq_getElem hilt] at hp'
    rw [List.getElem?_eq_getElem hplt] at hq'
    have e1 : K[i] = p.1 := Option.some.inj hp'
    have e2 : K[(i - 1) / 2] = q.1 := Option.some.inj hq'
    have := (List.pairwise_iff_getElem.mp hKs) ((i - 1) / 2) i hplt hilt (by omega)
    rw [e1, e2] at this
    exact this

end LM.OrderSpec

namespace LM.OrderSpec
open LM LM.Order

variable {α : Type}

/-- The buffer when the partition has fewer than `n` rows: all rows, in input order. -/
theorem topN_init_short {le : α → α → Bool} (hle : TotalPre le) (xs : List α) :
    TopInv le xs xs.length (xs.zip (List.range xs.length)) := by
  have hmap : (xs.zip (List.range xs.length)).map (·.2) = List.range xs.length :=
    List.map_snd_zip (l₁ := xs) (l₂ := List.range xs.length) (by simp)
  refine ⟨by rw [hmap]; exact List.nodup_range, ?_, ?_, ?_⟩
  · intro q hq
    exact List.mem_range.mp (List.of_mem_zip (a := q.1) (b := q.2) hq).2
  · intro q hq
    obtain ⟨i, hi, hqi⟩ := List.getElem_of_mem hq
    have h1 : (xs.zip (List.range xs.length))[i]? = some q := by rw [List.getElem?_eq_getElem hi, hqi]
    have h2 := List.getElem?_zip_eq_some.mp h1
    have hil : i < xs.length := by simp [List.length_zip] at hi; exact hi
    rw [List.getElem?_range hil] at h2
    have : q.2 = i := (Option.some.inj h2.2).symm
    exact ⟨q.1, by rw [this]; exact h2.1, eqv_refl hle _⟩
  · intro j y hj hjn
    rw [hmap] at hjn
    exact absurd (List.mem_range.mpr hj) hjn

theorem length_filterMap_of_isSome {γ δ : Type} (f : γ → Option δ) : ∀ (L : List γ), (∀ i ∈ L, (f i).isSome = true) →
    (L.filterMap f).length = L.length
  | [], _ => rfl
  | a :: L, h => by
    have ha := h a (by simp)
    cases hfa : f a with
    | none => simp [hfa] at ha
    | some b =>
      simp only [List.filterMap_cons, hfa, List.length_cons]
      rw [length_filterMap_of_isSome f L (fun i hi => h i (by simp [hi]))]

theorem filterMap_getElem?_map {γ δ : Type} (h : List γ) (f : γ → δ) :
    (List.range h.length).filterMap (fun i => h[i]?.map f) = h.map f := by
  have := filterMap_range (h.map f)
  simp only [List.length_map, List.getElem?_map] at this
  exact this

/-- A duplicate-free list of indices below `L` and its complement make up `0..L`. -/
theorem nodup_append_compl (O : List Nat) (L : Nat) (hnd : O.Nodup) (hb : ∀ o ∈ O, o < L) :
    (O ++ (List.range L).filter (fun j => !O.contains j)).Perm (List.range L) := by
  rw [List.perm_iff_count]
  intro a
  rw [List.count_append]
  by_cases ha : a ∈ O
  · have h1 : List.count a O = 1 := by rw [hnd.count]; simp [ha]
    have h2 : List.count a ((List.range L).filter (fun j => !O.contains j)) = 0 := by
      rw [List.count_eq_zero]; intro hm
      have := (List.mem_filter.mp hm).2
      simp [ha] at this
    have h3 : List.count a (List.range L) = 1 := by
      rw [List.nodup_range.count]; simp [hb a ha]
    omega
  · have h1 : List.count a O = 0 := List.count_eq_zero.mpr ha
    have h2 : List.count a ((List.range L).filter (fun j => !O.contains j)) = List.count a (List.range L) :=
      List.count_filter (by simp [ha])
    omega

/-- `finalize` on a state that satisfies the invariant for the whole partition. -/
theorem topN_finalize {le : α → α → Bool} (hle : TotalPre le) (xs : List α) (n : Nat) (h : List (α × Nat))
    (hinv : TopInv le xs xs.length h) (hlen : h.length = min n xs.length) (order : List Nat)
    (hop : order.Perm (List.range h.length)) (hos : Sorted (atIdx le (h.map (·.1))) order) :
    PrefixOf le n xs ((order.filterMap fun i => h[i]?.map (·.2)).filterMap fun i => xs[i]?) := by
  generalize hO : (order.filterMap fun i => h[i]?.map (·.2)) = O
  have hOp : O.Perm (h.map (·.2)) := by
    rw [← hO, ← filterMap_getElem?_map h (·.2)]
    exact hop.filterMap _
  have hOnd : O.Nodup := hOp.nodup_iff.mpr hinv.nodup
  have hOb : ∀ o ∈ O, o < xs.length := by
    intro o ho
    obtain ⟨q, hq, rfl⟩ := List.mem_map.mp (hOp.mem_iff.mp ho)
    exact hinv.bound q hq
  let C := (List.range xs.length).filter (fun j => !O.contains j)
  let sel := O.filterMap fun i => xs[i]?
  let rest := C.filterMap fun i => xs[i]?
  have hperm : (sel ++ rest).Perm xs := by
    have h1 := (nodup_append_compl O xs.length hOnd hOb).filterMap (fun i => xs[i]?)
    rw [List.filterMap_append, filterMap_range] at h1
    exact h1
  have hsellen : sel.length = O.length :=
    length_filterMap_of_isSome _ O (fun i hi => by simp [List.getElem?_eq_getElem (hOb i hi)])
  have hOlen : O.length = min n xs.length := by rw [hOp.length_eq, List.length_map, hlen]
  -- rows of the selection, through the heap entries
  have hselmem : ∀ y ∈ sel, ∃ q ∈ h, xs[q.2]? = some y ∧ eqv le q.1 y = true := by
    intro y hy
    obtain ⟨o, ho, hoy⟩ := List.mem_filterMap.mp hy
    obtain ⟨q, hq, rfl⟩ := List.mem_map.mp (hOp.mem_iff.mp ho)
    obtain ⟨y', hy', he⟩ := hinv.key q hq
    rw [hoy] at hy'; cases hy'
    exact ⟨q, hq, hoy, he⟩
  have hsorted_sel : Sorted le sel := by
    show Sorted le (O.filterMap fun i => xs[i]?)
    rw [← hO, List.filterMap_filterMap]
    unfold Sorted
    rw [List.pairwise_filterMap]
    refine List.Pairwise.imp ?_ hos
    intro a a' haa b hb b' hb'
    -- unpack both entries
    cases hha : h[a]? with
    | none => simp [hha] at hb
    | some q =>
      cases hha' : h[a']? with
      | none => simp [hha'] at hb'
      | some q' =>
        simp [hha] at hb; simp [hha'] at hb'
        have hq : q ∈ h := List.mem_of_getElem? hha
        have hq' : q' ∈ h := List.mem_of_getElem? hha'
        obtain ⟨y, hy, he⟩ := hinv.key q hq
        obtain ⟨y', hy', he'⟩ := hinv.key q' hq'
        rw [hb] at hy; cases hy
        rw [hb'] at hy'; cases hy'
        simp only [atIdx, List.getElem?_map, hha, hha', Option.map_some] at haa
        simp [eqv] at he he'
        exact hle.trans _ _ _ he.2 (hle.trans _ _ _ haa he'.1)
  have hcross : ∀ y ∈ sel, ∀ z ∈ isort le rest, le y z = true := by
    intro y hy z hz
    obtain ⟨q, hq, _, he⟩ := hselmem y hy
    have hz' : z ∈ rest := (isort_perm le rest).mem_iff.mp hz
    obtain ⟨j, hj, hjz⟩ := List.mem_filterMap.mp hz'
    have hj' := List.mem_filter.mp hj
    have hjO : j ∉ O := by simpa using hj'.2
    have hjh : j ∉ h.map (·.2) := fun hm => hjO (hOp.mem_iff.mpr hm)
    have := hinv.dropped j z (List.mem_range.mp hj'.1) hjh hjz q hq
    simp [eqv] at he
    exact hle.trans _ _ _ he.2 this
  have hs : Sorted le (sel ++ isort le rest) :=
    sorted_append.mpr ⟨hsorted_sel, isort_sorted hle rest, hcross⟩
  have hp : (sel ++ isort le rest).Perm xs :=
    (List.Perm.append_left sel (isort_perm le rest)).trans hperm
  by_cases hn : n ≤ xs.length
  · refine ⟨sel ++ isort le rest, n, Nat.le_refl _, hp, hs, ?_⟩
    have : sel.length = n := by omega
    exact (List.take_left' this).symm
  · refine ⟨sel ++ isort le rest, n + xs.length, by omega, hp, hs, ?_⟩
    have hrest : isort le rest = [] := by
      apply List.eq_nil_of_length_eq_zero
      have := hp.length_eq
      simp only [List.length_append] at this
      omega
    rw [hrest, List.append_nil, List.take_of_length_le (by omega)]

/-- `topn_smallest`: the rows selected by `TopN` are the first `n` rows of a sorted arrangement of the partition. -/
theorem topN_prefix (usort : USort) (hlaw : USortLaw usort) {le : α → α → Bool} (hle : TotalPre le)
    (n : Nat) (xs : List α) : PrefixOf le n xs ((topN usort le n xs).filterMap fun i => xs[i]?) := by
  have hge := ge_totalPre hle
  unfold topN
  simp only
  by_cases hfull : (xs.take n).length = n
  · rw [if_pos hfull]
    have hn : n ≤ xs.length := by simp [List.length_take] at hfull; omega
    obtain ⟨hinv0, hheap0, hlen0⟩ := topN_init_full hle xs n hfull _ _
      (hlaw.perm _ (xs.take n)) (hlaw.sorted _ hge (xs.take n))
      (hlaw.perm _ (List.range (xs.take n).length)) (hlaw.sorted _ (atIdx_totalPre hge _) _)
    obtain ⟨hinv, hlen⟩ := topNFeed_inv hle xs (xs.drop n) n _ rfl hinv0 hheap0
    have hL : n + (xs.drop n).length = xs.length := by simp [List.length_drop]; omega
    rw [hL] at hinv
    exact topN_finalize hle xs n _ hinv (by rw [hlen, hlen0]; omega) _
      (hlaw.perm _ _) (hlaw.sorted _ (atIdx_totalPre hle _) _)
  · rw [if_neg hfull]
    have hn : xs.length < n := by simp [List.length_take] at hfull; omega
    have htake : xs.take n = xs := List.take_of_length_le (by omega)
    have hdrop : xs.drop n = [] := List.drop_of_length_le (by omega)
    rw [htake, hdrop]
    simp only [topNFeed]
    have hinv := topN_init_short hle xs
    exact topN_finalize hle xs n _ hinv (by simp [List.length_zip]; omega) _
      (hlaw.perm _ _) (hlaw.sorted _ (atIdx_totalPre hle _) _)

end LM.OrderSpec
