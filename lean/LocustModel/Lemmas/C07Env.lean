import LocustModel.Lemmas.C07Reenc
import LocustModel.Lemmas.C01Strings
/-
  C07: the hypothesis `BuildOk` is satisfiable — a small column builder (all-NULL ↦ `Column::null`, ints / floats ↦
  the nullable i64 / f64 image, strings ↦ the nullable packed-string image) meets it for ALL single-typed cell lists.
  Used by the non-vacuity examples of `Thm/C07.lean`.  (That the REAL builders meet it is C01's theorem `C01_column`
  together with `D2.builder_img`.)
-/
namespace LM.C07M
open LM LM.Codec LM.D2 LM.Rebuild LM.Bitmap

/-- the present bitmap of a cell list: bit `i + idx` set iff cell `idx` is not NULL -/
def bitsFrom (i : Nat) : List Cell → List Nat → List Nat
  | [], bm => bm
  | c :: cs, bm => bitsFrom (i + 1) cs (if c = .null then bm else setBit bm i)

theorem isSet_bitsFrom_lt (cs : List Cell) : ∀ (i : Nat) (bm : List Nat) (j : Nat), j < i →
    isSet (bitsFrom i cs bm) j = isSet bm j := by
  induction cs with
  | nil => intros; rfl
  | cons c cs ih =>
    intro i bm j hj
    simp only [bitsFrom]
    rw [ih (i + 1) _ j (by omega)]
    split
    · rfl
    · rw [isSet_setBit]
      have : ¬ j = i := by omega
      simp [this]

theorem maskFrom_bitsFrom (cs : List Cell) : ∀ (i : Nat) (bm : List Nat) (data : List Cell),
    (∀ j, i ≤ j → isSet bm j = false) → data.length = cs.length →
    (∀ idx (h1 : idx < cs.length) (h2 : idx < data.length), cs[idx] ≠ .null → data[idx] = cs[idx]) →
    maskFrom (bitsFrom i cs bm) i data = cs := by
  induction cs with
  | nil =>
    intro i bm data _ hl _
    have : data = [] := List.eq_nil_of_length_eq_zero hl
    subst this; rfl
  | cons c cs ih =>
    intro i bm data hbm hl hd
    cases data with
    | nil => simp at hl
    | cons d ds =>
      have hbit := isSet_bitsFrom_lt cs (i + 1) (if c = .null then bm else setBit bm i) i (by omega)
      simp only [bitsFrom, maskFrom, hbit]
      have htail : maskFrom (bitsFrom (i + 1) cs (if c = .null then bm else setBit bm i)) (i + 1) ds = cs := by
        apply ih
        · intro j hj
          split
          · exact hbm j (by omega)
          · rw [isSet_setBit, hbm j (by omega)]
            have : ¬ j = i := by omega
            simp [this]
        · simpa using hl
        · intro idx h1 h2 hne
          have := hd (idx + 1) (by simp; omega) (by simp; omega) (by simpa using hne)
          simpa using this
      rw [htail]
      by_cases hc : c = .null
      · simp [hc, hbm i (Nat.le_refl i)]
      · have h0 := hd 0 (by simp) (by simp) (by simpa using hc)
        simp only [List.getElem_cons_zero] at h0
        simp [hc, isSet_setBit, h0]

def firstKind : List Cell → Option Kind
  | [] => none
  | c :: cs => match cellKind c with
    | some k => some k
    | none => firstKind cs

def intOr0 : Cell → Int | .int i => i | _ => 0
def fltOr0 : Cell → Nat | .float f => f | _ => 0
def strOrE : Cell → List Nat | .str s => ofBytes s | _ => []

/-- a small builder: every typed column is stored nullable, strings packed -/
def demoBuild (cs : List Cell) : Col :=
  match firstKind cs with
  | none => nullCol cs.length
  | some .int => ⟨cs.length, [.push 1, .nullable], [.i64 (cs.map intOr0), .bitvec (bitsFrom 0 cs [])]⟩
  | some .float => ⟨cs.length, [.push 1, .nullable], [.f64 (cs.map fltOr0), .bitvec (bitsFrom 0 cs [])]⟩
  | some _ => ⟨cs.length, [.unpack, .push 1, .nullable],
                [.nat .u8 (packAll (cs.map strOrE)), .bitvec (bitsFrom 0 cs [])]⟩

def demoEnv : Env := { dec := fun s => s, build := demoBuild }

theorem firstKind_none {cs : List Cell} (h : firstKind cs = none) : cs = List.replicate cs.length .null := by
  induction cs with
  | nil => rfl
  | cons c cs ih =>
    cases c <;> simp [firstKind, cellKind] at h
    simp only [List.length_cons, List.replicate_succ]
    rw [← ih h]

theorem firstKind_some {k k' : Kind} {cs : List Cell} (hu : Uniform k cs) (h : firstKind cs = some k') : k' = k := by
  induction cs with
  | nil => simp [firstKind] at h
  | cons c cs ih =>
    have hc := hu c (by simp)
    cases hck : cellKind c with
    | none =>
      simp only [firstKind, hck] at h
      exact ih (fun x hx => hu x (by simp [hx])) h
    | some k2 =>
      simp only [firstKind, hck, Option.some.injEq] at h
      rw [hck] at hc
      cases hc with
      | inl h' => cases h'
      | inr h' => cases h'; exact h.symm

theorem empty_bits (j : Nat) : isSet ([] : List Nat) j = false := by simp [isSet]

/-- `demoBuild` images are uncompressed: they are builder images for every library `dec` -/
theorem demoBuild_ok (dec : Section → Section) (k : Kind) (cs : List Cell) (hk : TypedK k) (hu : Uniform k cs) :
    ∃ v, Img dec (demoBuild cs) v ∧ cellsOf v = cs ∧ (valKind v = none ∨ valKind v = some k) := by
  cases hf : firstKind cs with
  | none =>
    have hcs := firstKind_none hf
    refine ⟨⟨.null cs.length, none⟩, ?_, ?_, Or.inl rfl⟩
    · simp only [demoBuild, hf, nullCol]; exact .plain (.null _ _)
    · simp only [cellsOf, dataCells]; exact hcs.symm
  | some k' =>
    have hkk : k' = k := firstKind_some hu hf
    subst hkk
    have hbits : ∀ (data : List Cell), data.length = cs.length →
        (∀ idx (h1 : idx < cs.length) (h2 : idx < data.length), cs[idx] ≠ .null → data[idx] = cs[idx]) →
        maskFrom (bitsFrom 0 cs []) 0 data = cs :=
      fun data hl hd => maskFrom_bitsFrom cs 0 [] data (fun j _ => empty_bits j) hl hd
    have hcell : ∀ idx (h1 : idx < cs.length), cellKind cs[idx] = none ∨ cellKind cs[idx] = some k' :=
      fun idx h1 => hu _ (List.getElem_mem h1)
    rcases hk with h | h | h <;> subst h
    · refine ⟨⟨.i64 (cs.map intOr0), some (bitsFrom 0 cs [])⟩, ?_, ?_, Or.inr rfl⟩
      · simp only [demoBuild, hf]; exact .plain (.i64N _ _ _)
      · simp only [cellsOf, dataCells]
        apply hbits
        · simp
        · intro idx h1 h2 hne
          simp only [List.getElem_map]
          have := hcell idx h1
          cases hc : cs[idx] <;> simp [hc, cellKind, intOr0] at this hne ⊢
    · refine ⟨⟨.f64 (cs.map fltOr0), some (bitsFrom 0 cs [])⟩, ?_, ?_, Or.inr rfl⟩
      · simp only [demoBuild, hf]; exact .plain (.f64N _ _ _)
      · simp only [cellsOf, dataCells]
        apply hbits
        · simp
        · intro idx h1 h2 hne
          simp only [List.getElem_map]
          have := hcell idx h1
          cases hc : cs[idx] <;> simp [hc, cellKind, fltOr0] at this hne ⊢
    · refine ⟨⟨.str ((cs.map strOrE).map toBytes), some (bitsFrom 0 cs [])⟩, ?_, ?_, Or.inr rfl⟩
      · simp only [demoBuild, hf]
        exact .plain (.packedN _ _ _ _ (unpackAll_packAll _))
      · simp only [cellsOf, dataCells]
        apply hbits
        · simp
        · intro idx h1 h2 hne
          simp only [List.getElem_map]
          have := hcell idx h1
          cases hc : cs[idx] <;> simp [hc, cellKind, strOrE, toBytes_ofBytes] at this hne ⊢

theorem demoEnv_ok : BuildOk demoEnv := fun k cs hk hu => demoBuild_ok (fun s => s) k cs hk hu

/-! ### decidable versions of the hypotheses on concrete histories (for `by decide` in examples) -/

def uniformB (k : Kind) (cs : List Cell) : Bool := cs.all fun c => cellKind c == none || cellKind c == some k

theorem uniform_of_B {k : Kind} {cs : List Cell} (h : uniformB k cs = true) : Uniform k cs := by
  intro c hc
  have := List.all_eq_true.mp h c hc
  simpa using this

theorem lookup_mem {α : Type} {n : Name} {l : List (Name × α)} {a : α} (h : lookup n l = some a) : (n, a) ∈ l := by
  induction l with
  | nil => simp [lookup] at h
  | cons x xs ih =>
    obtain ⟨m, b⟩ := x
    simp only [lookup] at h
    by_cases hm : m = n
    · simp only [hm, if_true, Option.some.injEq] at h; subst h; subst hm; simp
    · simp only [hm, if_false] at h; simp [ih h]

def batchOkB (b : Batch) : Bool := b.cols.all fun p => p.2.length == b.len
def batchTypedB (ty : Name → Kind) (b : Batch) : Bool := b.cols.all fun p => uniformB (ty p.1) p.2

theorem batchOk_of_B {b : Batch} (h : batchOkB b = true) : BatchOk b := by
  intro n cs hl
  have := List.all_eq_true.mp h (n, cs) (lookup_mem hl)
  simpa using this

theorem batchTyped_of_B {ty : Name → Kind} {b : Batch} (h : batchTypedB ty b = true) : BatchTyped ty b := by
  intro n cs hl
  exact uniform_of_B (List.all_eq_true.mp h (n, cs) (lookup_mem hl))

def stepOkB (ty : Name → Kind) : Step → Bool
  | .ingest b => batchOkB b && batchTypedB ty b
  | _ => true

theorem stepsOk_of_B {ty : Name → Kind} {steps : List Step} (h : steps.all (stepOkB ty) = true) :
    ∀ s ∈ steps, StepOk ty s := by
  intro s hs
  have := List.all_eq_true.mp h s hs
  cases s with
  | ingest b =>
    simp only [stepOkB, Bool.and_eq_true] at this
    exact ⟨batchOk_of_B this.1, batchTyped_of_B this.2⟩
  | _ => trivial

def lenOkB (xs : ReencIn) : Bool := xs.all fun x => match x.2 with | some cs => cs.length == x.1 | none => true
def xsTypedB (k : Kind) (xs : ReencIn) : Bool := xs.all fun x => match x.2 with | some cs => uniformB k cs | none => true

theorem lenOk_of_B {xs : ReencIn} (h : lenOkB xs = true) : LenOk xs := by
  intro x hx cs hcs
  have := List.all_eq_true.mp h x hx
  simpa [hcs] using this

theorem xsTyped_of_B {k : Kind} (hk : TypedK k) {xs : ReencIn} (h : xsTypedB k xs = true) : XsTyped xs := by
  refine ⟨k, hk, ?_⟩
  intro x hx cs hcs
  have := List.all_eq_true.mp h x hx
  simp only [hcs] at this
  exact uniform_of_B this

end LM.C07M
