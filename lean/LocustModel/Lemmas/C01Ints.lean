import LocustModel.Codec.Ints
import LocustModel.Lemmas.C01Ops
/-
  Helper lemmas for the integer part of C01 (core only, no Mathlib).
-/
namespace LM.Codec
open LM

theorem inI64_def (x : Int) : inI64 x ↔ (-9223372036854775808 ≤ x ∧ x ≤ 9223372036854775807) := by
  unfold inI64 I64_MIN I64_MAX; exact Iff.rfl

/-! ### encode / Add -/

theorem encodeInts_ok (bits : Nat) (off : Int) (vs : List Int)
    (h : ∀ v ∈ vs, inI64 (v - off) ∧ 0 ≤ v - off ∧ v - off < 2 ^ bits) :
    ∃ enc, encodeInts bits off vs = .ok enc ∧ enc.map Int.ofNat = vs.map (· - off) ∧ enc.length = vs.length := by
  induction vs with
  | nil => exact ⟨[], rfl, rfl, rfl⟩
  | cons v vs ih =>
    obtain ⟨enc, he, hm, hl⟩ := ih (fun x hx => h x (List.mem_cons_of_mem _ hx))
    obtain ⟨h1, h2, h3⟩ := h v List.mem_cons_self
    refine ⟨(v - off).toNat :: enc, ?_, ?_, ?_⟩
    · simp [encodeInts, subI64, h1, h3, he]; omega
    · simp only [List.map_cons, hm, Int.ofNat_eq_natCast, Int.toNat_of_nonneg h2]
    · simp [hl]

theorem addAll_sub (off : Int) (vs : List Int) (h : ∀ v ∈ vs, inI64 v) :
    addAll off (vs.map (· - off)) = .ok vs := by
  induction vs with
  | nil => rfl
  | cons v vs ih =>
    have hv := h v List.mem_cons_self
    have : v - off + off = v := by omega
    simp [addAll, addI64, this, hv, ih (fun x hx => h x (List.mem_cons_of_mem _ hx))]

/-! ### delta -/

/-- consecutive differences fit i64 (what `*curr -= previous` needs). -/
def DeltaOk : List Int → Prop
  | a :: b :: t => inI64 (b - a) ∧ DeltaOk (b :: t)
  | _ => True

instance : (xs : List Int) → Decidable (DeltaOk xs)
  | [] => isTrue trivial
  | [_] => isTrue trivial
  | a :: b :: t =>
    have := instDecidableDeltaOk (b :: t)
    if h : inI64 (b - a) ∧ DeltaOk (b :: t) then isTrue h else isFalse h

theorem deltaPass_ok (prev : Int) (rest : List Int) (h : DeltaOk (prev :: rest)) :
    ∃ ds, deltaPass prev rest = .ok ds ∧ ds.length = rest.length := by
  induction rest generalizing prev with
  | nil => exact ⟨[], rfl, rfl⟩
  | cons c rest ih =>
    obtain ⟨h1, h2⟩ := h
    obtain ⟨ds, hd, hl⟩ := ih c h2
    exact ⟨(c - prev) :: ds, by simp [deltaPass, subI64, h1, hd], by simp [hl]⟩

theorem deltaPass_fault (prev : Int) (rest : List Int) (h : ¬ DeltaOk (prev :: rest)) :
    deltaPass prev rest = .error .overflow := by
  induction rest generalizing prev with
  | nil => exact absurd trivial h
  | cons c rest ih =>
    by_cases h1 : inI64 (c - prev)
    · have h2 : ¬ DeltaOk (c :: rest) := fun hh => h ⟨h1, hh⟩
      simp [deltaPass, subI64, h1, ih c h2]
    · simp [deltaPass, subI64, h1]

/-- decoding the deltas restores the values (no overflow: the partial sums are the original values). -/
theorem deltaDecode_deltaPass (prev : Int) (rest ds : List Int) (hp : deltaPass prev rest = .ok ds)
    (hr : ∀ v ∈ rest, inI64 v) : deltaDecode prev ds = .ok rest := by
  induction rest generalizing prev ds with
  | nil => simp [deltaPass] at hp; subst hp; rfl
  | cons c rest ih =>
    by_cases hin : inI64 (c - prev)
    · cases hd : deltaPass c rest with
      | error e => simp [deltaPass, subI64, hin, hd] at hp
      | ok ds' =>
        simp [deltaPass, subI64, hin, hd] at hp
        subst hp
        have hc := hr c List.mem_cons_self
        have : c - prev + prev = c := by omega
        simp [deltaDecode, addI64, this, hc, ih c ds' hd (fun x hx => hr x (List.mem_cons_of_mem _ hx))]
    · simp [deltaPass, subI64, hin] at hp

theorem deltaPass_inI64 (prev : Int) (rest ds : List Int) (hp : deltaPass prev rest = .ok ds) :
    ∀ d ∈ ds, inI64 d := by
  induction rest generalizing prev ds with
  | nil => simp [deltaPass] at hp; subst hp; simp
  | cons c rest ih =>
    by_cases hin : inI64 (c - prev)
    · cases hd : deltaPass c rest with
      | error e => simp [deltaPass, subI64, hin, hd] at hp
      | ok ds' =>
        simp [deltaPass, subI64, hin, hd] at hp
        subst hp
        intro d hdm
        rcases List.mem_cons.mp hdm with h | h
        · subst h; exact hin
        · exact ih c ds' hd d h
    · simp [deltaPass, subI64, hin] at hp

theorem deltaRange_spec (mn mx : Int) (ds : List Int) (h : mn ≤ mx) :
    let r := deltaRange mn mx ds
    r.1 ≤ mn ∧ mx ≤ r.2 ∧ (∀ d ∈ ds, r.1 ≤ d ∧ d ≤ r.2) ∧
      (r.1 = mn ∨ r.1 ∈ ds) ∧ (r.2 = mx ∨ r.2 ∈ ds) := by
  induction ds generalizing mn mx with
  | nil => simp [deltaRange]
  | cons d ds ih =>
    simp only [deltaRange]
    have hmn : (if mn > d then d else mn) ≤ mn ∧ (if mn > d then d else mn) ≤ d ∧
        ((if mn > d then d else mn) = mn ∨ (if mn > d then d else mn) = d) := by split <;> omega
    have hmx : mx ≤ (if mx < d then d else mx) ∧ d ≤ (if mx < d then d else mx) ∧
        ((if mx < d then d else mx) = mx ∨ (if mx < d then d else mx) = d) := by split <;> omega
    generalize (if mn > d then d else mn) = mn' at hmn
    generalize (if mx < d then d else mx) = mx' at hmx
    obtain ⟨h1, h2, h3, h4, h5⟩ := ih mn' mx' (by omega)
    refine ⟨by omega, by omega, ?_, ?_, ?_⟩
    · intro x hx
      rcases List.mem_cons.mp hx with hxd | hxd
      · subst hxd; omega
      · exact h3 x hxd
    · rcases h4 with h4 | h4
      · rcases hmn.2.2 with h6 | h6
        · left; omega
        · right; rw [h4, h6]; exact List.mem_cons_self
      · right; exact List.mem_cons_of_mem _ h4
    · rcases h5 with h5 | h5
      · rcases hmx.2.2 with h6 | h6
        · left; omega
        · right; rw [h5, h6]; exact List.mem_cons_self
      · right; exact List.mem_cons_of_mem _ h5

/-! ### decode of the columns `create_col` / the i64 arm build -/

/-- what every integer codec shape computes from the (possibly delta-coded) stored values. -/
def finish (delta : Bool) (values : List Int) (null : Option (List Nat)) : Except Fault SVal :=
  if delta then
    match deltaDecode 0 values with
    | .ok r => .ok ⟨.i64 r, null⟩
    | .error e => .error e
  else .ok ⟨.i64 values, null⟩

theorem createCol_decode (dec : Section → Section) (t : Width) (values : List Int) (off : Int)
    (delta : Bool) (null : Option (List Nat))
    (hv : ∀ v ∈ values, inI64 v)
    (hr : ∀ v ∈ values, inI64 (v - off) ∧ 0 ≤ v - off ∧ v - off < 2 ^ t.bits) :
    ∃ c, createCol t values off delta null = .ok c ∧ decode dec c = finish delta values null ∧
      c.len = values.length ∧ NoPush0 c.ops := by
  obtain ⟨enc, he, hm, hl⟩ := encodeInts_ok t.bits off values hr
  refine ⟨intColumn t enc off delta null, by simp [createCol, he], ?_, by simp [intColumn, hl], ?_⟩
  rotate_left
  · cases null <;> cases delta <;> by_cases h0 : off = 0 <;>
      simp [NoPush0, intColumn, intCodec, h0]
  have hadd := addAll_sub off values hv
  by_cases h0 : off = 0
  · subst h0
    have hm' : enc.map Int.ofNat = values := by simpa using hm
    cases null <;> cases delta <;>
      simp [decode, runOps, step, intColumn, intCodec, ofSection, natsOf, finish, hm'] <;>
      cases deltaDecode 0 values <;> simp
  · cases null <;> cases delta <;>
      simp [decode, runOps, step, intColumn, intCodec, ofSection, natsOf, finish, hm, hadd, h0] <;>
      cases deltaDecode 0 values <;> simp

theorem i64Col_decode (dec : Section → Section) (values : List Int) (delta : Bool) (null : Option (List Nat)) :
    decode dec (i64Col values delta null) = finish delta values null ∧
      (i64Col values delta null).len = values.length ∧ NoPush0 (i64Col values delta null).ops := by
  cases null <;> cases delta <;>
    simp [decode, runOps, step, i64Col, ofSection, natsOf, finish, NoPush0] <;>
    cases deltaDecode 0 values <;> simp

/-! ### `interval` and the ladder -/

theorem interval_ok (mn mx : Int) (hmn : inI64 mn) (hmx : inI64 mx) (hle : mn ≤ mx) :
    interval mn mx = .ok (mx - mn).toNat := by
  rw [inI64_def] at hmn hmx
  unfold interval
  by_cases h : mn < 0 ∧ mx ≥ 0
  · have h1 : mx.toNat + (-mn).toNat ≤ U64_MAX := by unfold U64_MAX; omega
    have h2 : mx.toNat + (-mn).toNat = (mx - mn).toNat := by omega
    rw [h2] at h1
    simp only [h, and_self, if_true, h1, h2]
  · have h1 : inI64 (mx - mn) := by rw [inI64_def]; omega
    have h2 : interval.wrap64u (mx - mn) = (mx - mn).toNat := by
      unfold interval.wrap64u
      rw [inI64_def] at h1
      rw [Int.emod_eq_of_lt (by omega) (by omega)]
    simp [h, subI64, h1, h2]

theorem ladder_decode (dec : Section → Section) (values : List Int) (mn mx : Int) (delta : Bool)
    (null : Option (List Nat))
    (hv : ∀ v ∈ values, inI64 v) (hb : ∀ v ∈ values, mn ≤ v ∧ v ≤ mx)
    (hmn : inI64 mn) (hmx : inI64 mx) (hle : mn ≤ mx) :
    ∃ c, ladder values mn mx delta null = .ok c ∧ decode dec c = finish delta values null ∧
      c.len = values.length ∧ NoPush0 c.ops := by
  have hiv := interval_ok mn mx hmn hmx hle
  have hvv : ∀ v ∈ values, -9223372036854775808 ≤ v ∧ v ≤ 9223372036854775807 :=
    fun v h => (inI64_def v).mp (hv v h)
  rw [inI64_def] at hmn hmx
  have zero : ∀ (w : Width) (B : Int), (2 : Int) ^ w.bits = B → mn ≥ 0 ∧ mx ≤ B - 1 →
      ∀ v ∈ values, inI64 (v - 0) ∧ 0 ≤ v - 0 ∧ v - 0 < 2 ^ w.bits := by
    intro w B hB hc v hvm
    have := hb v hvm; have := hvv v hvm
    rw [hB, inI64_def]; omega
  have offs : ∀ (w : Width) (B : Int), (2 : Int) ^ w.bits = B → (mx - mn).toNat ≤ (B - 1).toNat → 0 < B ∧ B ≤ 4294967296 →
      ∀ v ∈ values, inI64 (v - mn) ∧ 0 ≤ v - mn ∧ v - mn < 2 ^ w.bits := by
    intro w B hB hc hpos v hvm
    have := hb v hvm; have := hvv v hvm
    rw [hB, inI64_def]; omega
  unfold ladder
  simp only [hiv, bind_ok]
  split
  · exact createCol_decode dec .u8 values 0 delta null hv (zero .u8 256 (by decide) (by omega))
  split
  · exact createCol_decode dec .u8 values mn delta null hv (offs .u8 256 (by decide) (by omega) (by omega))
  split
  · exact createCol_decode dec .u16 values 0 delta null hv (zero .u16 65536 (by decide) (by omega))
  split
  · exact createCol_decode dec .u16 values mn delta null hv (offs .u16 65536 (by decide) (by omega) (by omega))
  split
  · exact createCol_decode dec .u32 values 0 delta null hv (zero .u32 4294967296 (by decide) (by omega))
  split
  · exact createCol_decode dec .u32 values mn delta null hv (offs .u32 4294967296 (by decide) (by omega) (by omega))
  · exact ⟨_, rfl, i64Col_decode dec values delta null⟩

/-! ### `IntColBuffer` statistics -/

structure IntBuf.Inv (b : IntBuf) : Prop where
  bound : ∀ v ∈ b.data, b.min ≤ v ∧ v ≤ b.max
  memMin : b.data ≠ [] → b.min ∈ b.data
  memMax : b.data ≠ [] → b.max ∈ b.data
  empty : b.data = [] → b.min = I64_MAX ∧ b.max = I64_MIN

theorem IntBuf.inv_default : IntBuf.Inv {} := ⟨by simp, by simp, by simp, by simp⟩

theorem IntBuf.inv_push {b : IntBuf} (h : b.Inv) (e : Int) (he : inI64 e) : (b.push e).Inv := by
  obtain ⟨hb, hmn, hmx, hemp⟩ := h
  rw [inI64_def] at he
  by_cases hd : b.data = []
  · obtain ⟨e1, e2⟩ := hemp hd
    unfold I64_MAX at e1; unfold I64_MIN at e2
    have c1 : e ≤ b.min := by omega
    have c2 : b.max ≤ e := by omega
    refine ⟨?_, ?_, ?_, ?_⟩ <;> simp [IntBuf.push, hd, c1, c2]
  · have h1 := hb _ (hmn hd)
    have h2 := hb _ (hmx hd)
    refine ⟨?_, ?_, ?_, by simp [IntBuf.push]⟩
    · intro v hv
      simp only [IntBuf.push, List.mem_append, List.mem_singleton] at hv ⊢
      rcases hv with hv | hv
      · have := hb v hv; split <;> split <;> omega
      · subst hv; split <;> split <;> omega
    · intro _
      simp only [IntBuf.push, List.mem_append, List.mem_singleton]
      split
      · right; rfl
      · left; exact hmn hd
    · intro _
      simp only [IntBuf.push, List.mem_append, List.mem_singleton]
      split
      · right; rfl
      · left; exact hmx hd

theorem IntBuf.data_push (b : IntBuf) (e : Int) : (b.push e).data = b.data ++ [e] := rfl

theorem IntBuf.pushAll_spec (b : IntBuf) (h : b.Inv) (es : List Int) (hes : ∀ e ∈ es, inI64 e) :
    (b.pushAll es).Inv ∧ (b.pushAll es).data = b.data ++ es := by
  induction es generalizing b with
  | nil => simp [IntBuf.pushAll, h]
  | cons e es ih =>
    have := ih (b.push e) (IntBuf.inv_push h e (hes e List.mem_cons_self))
      (fun x hx => hes x (List.mem_cons_of_mem _ hx))
    simp only [IntBuf.pushAll, List.foldl_cons] at this ⊢
    rw [IntBuf.data_push] at this
    simpa using this

/-- number of strictly increasing consecutive steps. -/
def posSteps : List Int → Nat
  | a :: b :: t => (if b > a then 1 else 0) + posSteps (b :: t)
  | _ => 0

theorem posSteps_append (l : List Int) (e : Int) :
    posSteps (l ++ [e]) = posSteps l + (if l ≠ [] ∧ e > l.getLastD 0 then 1 else 0) := by
  induction l with
  | nil => simp [posSteps]
  | cons a t ih =>
    cases t with
    | nil => simp [posSteps]
    | cons b t =>
      simp only [List.cons_append, posSteps] at ih ⊢
      rw [ih]
      simp [List.getLastD]
      omega

structure IntBuf.Inv2 (b : IntBuf) : Prop where
  incr : b.increasing ≤ 1 + posSteps b.data
  incr0 : b.data = [] → b.increasing = 0
  last : b.data ≠ [] → b.last = b.data.getLastD 0

theorem IntBuf.inv2_default : IntBuf.Inv2 {} := ⟨by simp, by simp, by simp⟩

theorem IntBuf.inv2_push {b : IntBuf} (h : b.Inv2) (e : Int) : (b.push e).Inv2 := by
  obtain ⟨h1, h2, h3⟩ := h
  refine ⟨?_, by simp [IntBuf.push], by simp [IntBuf.push]⟩
  simp only [IntBuf.push, posSteps_append]
  by_cases hd : b.data = []
  · have := h2 hd
    simp [hd, this, posSteps]; split <;> omega
  · have hl := h3 hd
    rw [← hl]
    simp only [hd, ne_eq, not_false_eq_true, true_and]
    split <;> omega

theorem IntBuf.pushAll_inv2 (b : IntBuf) (h : b.Inv2) (es : List Int) : (b.pushAll es).Inv2 := by
  induction es generalizing b with
  | nil => simpa [IntBuf.pushAll] using h
  | cons e es ih =>
    have := ih (b.push e) (IntBuf.inv2_push h e)
    simpa [IntBuf.pushAll] using this

theorem deltaPass_pos (prev : Int) (rest ds : List Int) (hp : deltaPass prev rest = .ok ds)
    (h : 1 ≤ posSteps (prev :: rest)) : ∃ d ∈ ds, d > 0 := by
  induction rest generalizing prev ds with
  | nil => simp [posSteps] at h
  | cons c rest ih =>
    by_cases hin : inI64 (c - prev)
    · cases hd : deltaPass c rest with
      | error e => simp [deltaPass, subI64, hin, hd] at hp
      | ok ds' =>
        simp [deltaPass, subI64, hin, hd] at hp
        subst hp
        by_cases hc : c > prev
        · exact ⟨c - prev, List.mem_cons_self, by omega⟩
        · simp only [posSteps, hc, if_false, Nat.zero_add] at h
          obtain ⟨d, hdm, hpos⟩ := ih c ds' hd h
          exact ⟨d, List.mem_cons_of_mem _ hdm, hpos⟩
    · simp [deltaPass, subI64, hin] at hp

/-! ### `allow_delta_encode` means every stored difference fits i64 -/

theorem deltaOk_append (l : List Int) (e : Int) :
    DeltaOk (l ++ [e]) ↔ DeltaOk l ∧ (l ≠ [] → inI64 (e - l.getLastD 0)) := by
  induction l with
  | nil => simp [DeltaOk]
  | cons a t ih =>
    cases t with
    | nil => simp [DeltaOk]
    | cons b t =>
      simp only [List.cons_append, DeltaOk] at ih ⊢
      rw [ih]
      simp [List.getLastD, and_assoc]

structure IntBuf.Inv3 (b : IntBuf) : Prop where
  delta : b.allowDelta = true → DeltaOk b.data

theorem IntBuf.inv3_default : IntBuf.Inv3 {} := ⟨fun _ => trivial⟩

theorem IntBuf.inv3_push {b : IntBuf} (h2 : b.Inv2) (h : b.Inv3) (e : Int) : (b.push e).Inv3 := by
  refine ⟨fun ha => ?_⟩
  simp only [IntBuf.push] at ha ⊢
  rw [deltaOk_append]
  by_cases hc : b.data ≠ [] ∧ ¬ inI64 (e - b.last)
  · simp [hc] at ha
  · simp only [hc, if_false] at ha
    refine ⟨h.delta ha, fun hd => ?_⟩
    rw [← h2.last hd]
    exact Classical.byContradiction fun hn => hc ⟨hd, hn⟩

theorem IntBuf.pushAll_inv3 (b : IntBuf) (h2 : b.Inv2) (h : b.Inv3) (es : List Int) : (b.pushAll es).Inv3 := by
  induction es generalizing b with
  | nil => simpa [IntBuf.pushAll] using h
  | cons e es ih =>
    have := ih (b.push e) (IntBuf.inv2_push h2 e) (IntBuf.inv3_push h2 h e)
    simpa [IntBuf.pushAll] using this

/-! ### `IntColBuffer::finalize` followed by decode -/

/-- Any buffer whose statistics are consistent with its data (`Inv`, `Inv3`) finalizes without a fault and
    decodes to its data. -/
theorem intBuf_finalize_decode (dec : Section → Section) (b : IntBuf) (null : Option (List Nat))
    (hne : b.data ≠ []) (hv : ∀ x ∈ b.data, inI64 x) (hinv : b.Inv) (hinv3 : b.Inv3) :
    ∃ c, b.finalize null = .ok c ∧ decode dec c = .ok ⟨.i64 b.data, null⟩ ∧ c.len = b.data.length ∧
      NoPush0 c.ops := by
  unfold IntBuf.finalize
  cases hde : b.deltaEncode with
  | false =>
    have hmn := hinv.memMin hne
    have hmx := hinv.memMax hne
    obtain ⟨c, h1, h2, h3, h4⟩ := ladder_decode dec b.data b.min b.max false null hv
      (fun v hvm => hinv.bound v hvm) (hv _ hmn) (hv _ hmx) ((hinv.bound _ hmn).2)
    refine ⟨c, ?_, by simpa [finish] using h2, h3, h4⟩
    unfold newBoxed
    split
    · contradiction
    · exact h1
  | true =>
    have hok0 : DeltaOk b.data := by
      have : b.allowDelta = true := by
        simp only [IntBuf.deltaEncode, Bool.and_eq_true] at hde; exact hde.1
      exact hinv3.delta this
    cases hxs : b.data with
    | nil => exact absurd hxs hne
    | cons first rest =>
      rw [hxs] at hv hok0
      have hok : DeltaOk (first :: rest) := hok0
      obtain ⟨ds, hds, hlen⟩ := deltaPass_ok first rest hok
      have hfirst := hv first List.mem_cons_self
      have hrest : ∀ v ∈ rest, inI64 v := fun v h => hv v (List.mem_cons_of_mem _ h)
      have hdsI := deltaPass_inI64 first rest ds hds
      obtain ⟨r1, r2, r3, r4, r5⟩ := deltaRange_spec first first ds (Int.le_refl _)
      generalize hr : deltaRange first first ds = r at *
      obtain ⟨mn, mx⟩ := r
      simp only at r1 r2 r3 r4 r5
      have hvals : ∀ v ∈ first :: ds, inI64 v := by
        intro v hvm
        rcases List.mem_cons.mp hvm with h | h
        · subst h; exact hfirst
        · exact hdsI v h
      have hbnd : ∀ v ∈ first :: ds, mn ≤ v ∧ v ≤ mx := by
        intro v hvm
        rcases List.mem_cons.mp hvm with h | h
        · subst h; exact ⟨r1, r2⟩
        · exact r3 v h
      have hmnI : inI64 mn := by
        rcases r4 with h | h
        · rw [h]; exact hfirst
        · exact hdsI _ h
      have hmxI : inI64 mx := by
        rcases r5 with h | h
        · rw [h]; exact hfirst
        · exact hdsI _ h
      obtain ⟨col, h1, h2, h3, h4⟩ := ladder_decode dec (first :: ds) mn mx true null hvals hbnd hmnI hmxI
        (by omega)
      refine ⟨col, ?_, ?_, by simpa [hlen] using h3, h4⟩
      · simp only [newBoxed, hds, bind_ok, hr]
        exact h1
      · rw [h2]
        have h0 : first + 0 = first := by omega
        simp [finish, deltaDecode, addI64, h0, hfirst, deltaDecode_deltaPass first rest ds hds hrest]

theorem intBuf_roundtrip (dec : Section → Section) (xs : List Int) (null : Option (List Nat))
    (hne : xs ≠ []) (hv : ∀ x ∈ xs, inI64 x) :
    ∃ c, (IntBuf.pushAll {} xs).finalize null = .ok c ∧ decode dec c = .ok ⟨.i64 xs, null⟩ ∧
      c.len = xs.length ∧ NoPush0 c.ops := by
  obtain ⟨hinv, hdata⟩ := IntBuf.pushAll_spec {} IntBuf.inv_default xs hv
  have hinv3 := IntBuf.pushAll_inv3 {} IntBuf.inv2_default IntBuf.inv3_default xs
  simp only [List.nil_append] at hdata
  have := intBuf_finalize_decode dec (IntBuf.pushAll {} xs) null (by rw [hdata]; exact hne)
    (by rw [hdata]; exact hv) hinv hinv3
  rwa [hdata] at this

end LM.Codec
