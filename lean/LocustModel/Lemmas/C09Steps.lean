import LocustModel.Lemmas.C09Dur
/-
  C09 helper lemmas, part 4: every prefix of the effect trace of an ingestion / a flush / a recovery leaves a durable
  state; which one, and when it switches.
-/
namespace LM.Crash

theorem storeEffs_split (b : Base) (f : File) : storeEffs b f = [.mkdir b, .create b, .write b f, .sync b] ++ [.rename b] := rfl

theorem not_soft_rename (b : Base) : (Eff.rename b).soft = false := rfl

/-! ### ingestion -/

/-- The single store of an ingestion: before the rename the durable state is the old one, after it the new one. -/
theorem Dur.wal_phase {fs : FS} {log : List Req} {m : Mem} (h : Dur fs log m) (r : Req) {pre : List Eff}
    (hpre : pre <+: storeEffs (.wal m.nextWal) (.wal m.nextWal r)) :
    (Eff.rename (.wal m.nextWal) ∉ pre ∧ Dur (applyEffs fs pre) log m) ∨
    (pre = storeEffs (.wal m.nextWal) (.wal m.nextWal r) ∧ Eff.rename (.wal m.nextWal) ∈ pre ∧
      Dur (applyEffs fs pre) (log ++ [r]) (ingestPlan m r).2) := by
  rcases store_prefix_cases hpre with rfl | hsoft
  · right
    refine ⟨rfl, by simp [storeEffs], ?_⟩
    rw [storeEffs_split, applyEffs_append]
    have h4 : Dur (applyEffs fs [.mkdir (.wal m.nextWal), .create (.wal m.nextWal), .write (.wal m.nextWal) (.wal m.nextWal r), .sync (.wal m.nextWal)]) log m :=
      h.safe_effs _ (fun e he => Safe.of_soft (by simp at he; rcases he with h | h | h | h <;> subst h <;> rfl))
    exact h4.commit_wal r (applyEffs_store4_tmp fs _ _)
  · left
    refine ⟨fun hm => ?_, h.safe_effs pre (fun e he => Safe.of_soft (hsoft e he))⟩
    have := hsoft _ hm
    simp [Eff.soft] at this

theorem PhasesTrace.single {ph : Phase} {tr : List Eff} (h : PhasesTrace [ph] tr) : PoolTrace ph.tasks tr := by
  obtain ⟨a, b, ha, hb, rfl⟩ := h
  simp only [PhasesTrace] at hb
  subst hb
  simpa using ha

theorem ingest_trace {m : Mem} {r : Req} {tr : List Eff} (h : PhasesTrace (ingestPlan m r).1 tr) :
    tr = storeEffs (.wal m.nextWal) (.wal m.nextWal r) := by
  have := PhasesTrace.single h
  exact PoolTrace.single this

/-! ### flush -/

/-- The store of the new catalogue, given that every partition file it references is in place. -/
theorem Dur.catalogue_phase {fs : FS} {log : List Req} {m : Mem} (h : Dur fs log m) (ps' : List MPart)
    (hhas : Has fs ps') (hkeys : (bases ps').Nodup) (hcontent : ∀ t, pcontent ps' t = m.content t) :
    (∀ pre, pre <+: storeEffs .catalogue (.catalogue m.nextWal (ps'.map (·.pm))) →
        Dur (applyEffs fs pre) log m ∨ Dur (applyEffs fs pre) log ⟨m.nextWal, m.nextWal, ps', []⟩) ∧
    Dur (applyEffs fs (storeEffs .catalogue (.catalogue m.nextWal (ps'.map (·.pm))))) log ⟨m.nextWal, m.nextWal, ps', []⟩ := by
  have hfull : Dur (applyEffs fs (storeEffs .catalogue (.catalogue m.nextWal (ps'.map (·.pm))))) log ⟨m.nextWal, m.nextWal, ps', []⟩ := by
    rw [storeEffs_split, applyEffs_append]
    have hs : ∀ e ∈ [Eff.mkdir .catalogue, .create .catalogue, .write .catalogue (.catalogue m.nextWal (ps'.map (·.pm))), .sync .catalogue],
        e.soft = true := by
      intro e he; simp at he; rcases he with h | h | h | h <;> subst h <;> rfl
    have h4 := h.safe_effs _ (fun e he => Safe.of_soft (hs e he))
    have hh4 := hhas.steps _ (fun e he => Or.inl (hs e he))
    exact h4.commit_catalogue ps' (applyEffs_store4_tmp fs _ _) hh4 hkeys hcontent
  refine ⟨?_, hfull⟩
  intro pre hpre
  rcases store_prefix_cases hpre with rfl | hsoft
  · exact Or.inr hfull
  · exact Or.inl (h.safe_effs pre (fun e he => Safe.of_soft (hsoft e he)))

theorem safe_partTask {m : Mem} {p : MPart} (hp : partBase p ∉ bases m.parts) : ∀ e ∈ (partTask p).effs, Safe m e := by
  intro e he
  simp only [partTask, storeTask, storeEffs, List.mem_cons, List.not_mem_nil, or_false] at he
  rcases he with h | h | h | h | h <;> subst h <;> simp only [Safe]
  exact ⟨⟨p.pm.table, p.pm.id, rfl⟩, hp⟩

theorem partTask_base (p : MPart) : ∀ e ∈ (partTask p).effs, e.base = partBase p :=
  storeEffs_base _ _

theorem safe_removeTask {m : Mem} {p : Path} (hp : Safe m (.remove p)) : ∀ e ∈ (removeTask p).effs, Safe m e := by
  intro e he
  simp only [removeTask, removeEffs, List.mem_cons, List.not_mem_nil, or_false] at he
  rcases he with h | h <;> subst h
  · simp [Safe]
  · exact hp

/-- **Flush**: after every prefix of every trace of a flush (with any compaction decision the plan accepts) the durable
    state is the one before the flush or the one after it, with the same log; after the whole trace it is the new one. -/
theorem Dur.flush {fs : FS} {log : List Req} {m : Mem} (h : Dur fs log m) {comp : List (Tbl × List Nat)}
    {phs : List Phase} {m' : Mem} (hp : flushPlan m comp = some (phs, m')) {tr : List Eff} (htr : PhasesTrace phs tr) :
    (∀ pre, pre <+: tr → Dur (applyEffs fs pre) log m ∨ Dur (applyEffs fs pre) log m') ∧ Dur (applyEffs fs tr) log m' := by
  simp only [flushPlan] at hp
  split at hp
  · cases hp
  · rename_i news olds parts2 hca
    simp only [Option.some.injEq, Prod.mk.injEq] at hp
    obtain ⟨rfl, rfl⟩ := hp
    obtain ⟨a1, r1, ht1, htr, rfl⟩ := htr
    obtain ⟨a2, r2, ht2, htr, rfl⟩ := htr
    obtain ⟨a3, r3, ht3, htr, rfl⟩ := htr
    obtain ⟨a4, r4, ht4, htr, rfl⟩ := htr
    obtain ⟨a5, r5, ht5, htr, rfl⟩ := htr
    simp only [PhasesTrace] at htr
    subst htr
    have ha3 := PoolTrace.single ht3
    simp only [storeTask] at ha3
    subst ha3
    -- the plan
    have S := compactAll_spec comp hca
    have F1 : ∀ p ∈ batchParts m.parts m.pending, partBase p ∉ bases m.parts :=
      fun p hp => fresh_not_mem_bases (batchParts_fresh _ _ p hp)
    have F2 := batchParts_nodup m.parts m.pending
    have F3 : (bases (m.parts ++ batchParts m.parts m.pending)).Nodup := by
      simp only [bases, List.map_append]
      rw [List.nodup_append]
      refine ⟨h.keys, F2, ?_⟩
      intro a ha b hb hab
      subst hab
      obtain ⟨p, hp, rfl⟩ := List.mem_map.1 hb
      exact F1 p hp ha
    have F4 : ∀ n ∈ news, partBase n ∉ bases m.parts ∧ partBase n ∉ bases (batchParts m.parts m.pending) := by
      intro n hn
      have := fresh_not_mem_bases (S.fresh n hn)
      simp only [bases, List.map_append, List.mem_append, not_or] at this
      exact this
    have F5 := S.keys F3
    have Fc : ∀ t, pcontent parts2 t = m.content t := by
      intro t
      rw [S.content, pcontent_append, batchParts_content, Mem.content_eq]
    -- phase by phase, whole phases first
    have S1 : ∀ t ∈ (batchParts m.parts m.pending).map partTask, ∀ e ∈ t.effs, Safe m e := by
      intro t ht; obtain ⟨p, hp, rfl⟩ := List.mem_map.1 ht; exact safe_partTask (F1 p hp)
    have S2 : ∀ t ∈ news.map partTask, ∀ e ∈ t.effs, Safe m e := by
      intro t ht; obtain ⟨p, hp, rfl⟩ := List.mem_map.1 ht; exact safe_partTask (F4 p hp).1
    have D1 := h.pool S1 ht1 (List.prefix_refl a1)
    have H1 := Has.of_pool fs F2 ht1
    have D2 := D1.pool S2 ht2 (List.prefix_refl a2)
    have H2n := Has.of_pool (applyEffs fs a1) S.newsNodup ht2
    have H2p : Has (applyEffs (applyEffs fs a1) a2) (batchParts m.parts m.pending) := by
      refine H1.steps a2 (fun e he => Or.inr ?_)
      obtain ⟨t, ht, he'⟩ := ht2.mem e he
      obtain ⟨p, hp, rfl⟩ := List.mem_map.1 ht
      rw [partTask_base p e he']
      exact (F4 p hp).2
    have Hall : Has (applyEffs (applyEffs fs a1) a2) parts2 := by
      intro p hp
      rcases S.mem p hp with hm | hm
      · rcases List.mem_append.1 hm with hm | hm
        · exact D2.parts p hm
        · exact H2p p hm
      · exact H2n p hm
    obtain ⟨P3, D3⟩ := D2.catalogue_phase parts2 Hall F5 Fc
    have S4 : ∀ t ∈ olds.map (fun p => removeTask (finP (partBase p))), ∀ e ∈ t.effs,
        Safe ⟨m.nextWal, m.nextWal, parts2, []⟩ e := by
      intro t ht; obtain ⟨p, hp, rfl⟩ := List.mem_map.1 ht
      refine safe_removeTask ?_
      simp only [Safe]
      right; right
      exact ⟨⟨p.pm.table, p.pm.id, rfl⟩, S.oldsGone p hp⟩
    have S5 : ∀ t ∈ (List.range' m.cursor (m.nextWal - m.cursor)).map (fun k => removeTask (finP (.wal k))), ∀ e ∈ t.effs,
        Safe ⟨m.nextWal, m.nextWal, parts2, []⟩ e := by
      intro t ht; obtain ⟨k, hk, rfl⟩ := List.mem_map.1 ht
      refine safe_removeTask ?_
      simp only [Safe]
      right; left
      refine ⟨k, rfl, ?_⟩
      have := List.mem_range'.1 hk
      obtain ⟨i, hi, rfl⟩ := this
      omega
    have D4 := D3.pool S4 ht4 (List.prefix_refl a4)
    have D5 := D4.pool S5 ht5 (List.prefix_refl a5)
    refine ⟨?_, ?_⟩
    · intro pre hpre
      rcases prefix_append_cases hpre with h1 | ⟨pre2, rfl, hq2⟩
      · exact Or.inl (h.pool S1 ht1 h1)
      rw [applyEffs_append]
      rcases prefix_append_cases hq2 with h2 | ⟨pre3, rfl, hq3⟩
      · exact Or.inl (D1.pool S2 ht2 h2)
      rw [applyEffs_append]
      rcases prefix_append_cases hq3 with h3 | ⟨pre4, rfl, hq4⟩
      · exact P3 pre3 h3
      rw [applyEffs_append]
      rcases prefix_append_cases hq4 with h4 | ⟨pre5, rfl, hq5⟩
      · exact Or.inr (D3.pool S4 ht4 h4)
      rw [applyEffs_append]
      simp only [List.append_nil] at hq5
      exact Or.inr (D4.pool S5 ht5 hq5)
    · simp only [List.append_nil, applyEffs_append]
      exact D5

/-! ### recovery -/

/-- The deletions of a recovery are safe for the state it recovered. -/
theorem Dur.recover_safe {fs : FS} {log : List Req} {m : Mem} (_h : Dur fs log m) {ls dels : List Path}
    (hd : ∀ p, p ∈ dels ↔ p ∈ ls ∧ (p.tmp = true ∨ ∃ k, p = finP (.wal k) ∧ k < m.cursor)) :
    ∀ t ∈ (recoverPhase dels).tasks, ∀ e ∈ t.effs, Safe m e := by
  intro t ht
  simp only [recoverPhase] at ht
  obtain ⟨p, hp, rfl⟩ := List.mem_map.1 ht
  refine safe_removeTask ?_
  simp only [Safe]
  rcases ((hd p).1 hp).2 with h1 | ⟨k, rfl, hk⟩
  · exact Or.inl h1
  · exact Or.inr (Or.inl ⟨k, rfl, hk⟩)

/-- The empty directory durably holds the empty database. -/
theorem Dur.init : Dur FS.empty [] Mem.fresh := by
  refine ⟨Or.inr ⟨rfl, rfl, rfl⟩, ?_, ?_, rfl, ?_, fun _ _ => rfl, fun k hk => ?_, fun _ => rfl⟩
  · intro p hp; cases hp
  · simp [bases, Mem.fresh]
  · intro i hi; simp [Mem.fresh] at hi
  · simp [Mem.fresh] at hk

end LM.Crash
