import LocustModel.Codec.ColumnBuffer
import LocustModel.Lemmas.C01Column
import LocustModel.Lemmas.C07Decode
/-
  C07 helper lemmas: the column builders of `Codec/*` (C01's mirrors of `IntegerColumn::new_boxed` / `create_col`,
  `FloatColumn::new_boxed`, `fast_build_string_column`, `Column::null`, `ColumnBuffer::finalize`,
  `Column::lz4_or_pco_encode`) only produce column images in `D2.Img`.

  `Shape` is the purely structural part of `ImgBase` (codec op list × section types; no condition on contents);
  a shaped image from which the query path reads `v` is an `ImgBase … v`.
-/
namespace LM.D2
open LM LM.Codec

inductive Shape : Col → Prop where
  | intCast (n) (w : Width) (hw : intWidth w) (d : List Nat) : Shape ⟨n, [.toI64 w], [.nat w d]⟩
  | intAdd (n) (w : Width) (hw : intWidth w) (x : Int) (d : List Nat) : Shape ⟨n, [.add w x], [.nat w d]⟩
  | intDelta (n) (w : Width) (hw : intWidth w) (d : List Nat) : Shape ⟨n, [.delta (.w w)], [.nat w d]⟩
  | intAddDelta (n) (w : Width) (hw : intWidth w) (x : Int) (d : List Nat) :
      Shape ⟨n, [.add w x, .delta .i64], [.nat w d]⟩
  | intCastN (n) (w : Width) (hw : intWidth w) (d bm : List Nat) :
      Shape ⟨n, [.push 1, .nullable, .toI64 w], [.nat w d, .bitvec bm]⟩
  | intAddN (n) (w : Width) (hw : intWidth w) (x : Int) (d bm : List Nat) :
      Shape ⟨n, [.push 1, .nullable, .add w x], [.nat w d, .bitvec bm]⟩
  | intDeltaN (n) (w : Width) (hw : intWidth w) (d bm : List Nat) :
      Shape ⟨n, [.delta (.w w), .push 1, .nullable], [.nat w d, .bitvec bm]⟩
  | intAddDeltaN (n) (w : Width) (hw : intWidth w) (x : Int) (d bm : List Nat) :
      Shape ⟨n, [.add w x, .delta .i64, .push 1, .nullable], [.nat w d, .bitvec bm]⟩
  | i64Plain (n) (d : List Int) : Shape ⟨n, [], [.i64 d]⟩
  | i64Delta (n) (d : List Int) : Shape ⟨n, [.delta .i64], [.i64 d]⟩
  | i64N (n) (d : List Int) (bm : List Nat) : Shape ⟨n, [.push 1, .nullable], [.i64 d, .bitvec bm]⟩
  | i64DeltaN (n) (d : List Int) (bm : List Nat) : Shape ⟨n, [.delta .i64, .push 1, .nullable], [.i64 d, .bitvec bm]⟩
  | f64Plain (n) (d : List Nat) : Shape ⟨n, [], [.f64 d]⟩
  | f64N (n) (d bm : List Nat) : Shape ⟨n, [.push 1, .nullable], [.f64 d, .bitvec bm]⟩
  | dict (n) (w : Width) (hw : intWidth w) (ix ranges data : List Nat) :
      Shape ⟨n, [.push 1, .push 2, .dict w], [.nat w ix, .nat .u64 ranges, .nat .u8 data]⟩
  | dictN (n) (w : Width) (hw : intWidth w) (ix ranges data bm : List Nat) :
      Shape ⟨n, [.push 3, .nullable, .push 1, .push 2, .dict w],
                [.nat w ix, .nat .u64 ranges, .nat .u8 data, .bitvec bm]⟩
  | packed (n) (d : List Nat) : Shape ⟨n, [.unpack], [.nat .u8 d]⟩
  | packedN (n) (d bm : List Nat) : Shape ⟨n, [.unpack, .push 1, .nullable], [.nat .u8 d, .bitvec bm]⟩
  | hex (n) (u : Bool) (total : Nat) (d : List Nat) : Shape ⟨n, [.unhex u total], [.nat .u8 d]⟩
  | hexN (n) (u : Bool) (total : Nat) (d bm : List Nat) :
      Shape ⟨n, [.unhex u total, .push 1, .nullable], [.nat .u8 d, .bitvec bm]⟩
  | null (n k : Nat) : Shape ⟨n, [], [.null k]⟩

theorem shape_of_imgBase {c : Col} {v : SVal} (h : ImgBase c v) : Shape c := by
  cases h <;> constructor <;> assumption

theorem map_ofNat_eq (d : List Nat) : List.map Int.ofNat d = natsToInts d := rfl

/-- A shaped image from which the query path reads `v` is a builder image with value `v`. -/
theorem imgBase_of_shape {dec : Section → Section} {c : Col} {v : SVal} (hs : Shape c)
    (hv : decodeQ dec c = .ok v) : ImgBase c v := by
  cases hs with
  | intCast n w hw d =>
    simp [decodeQ, Codec.decode, Col.toQ, Op.toQ, runOps, step, ofSection, natsOf, map_ofNat_eq] at hv
    subst hv; exact .intCast n w hw d
  | intAdd n w hw x d =>
    cases hr : addAll x (natsToInts d) with
    | error e => simp [decodeQ, Codec.decode, Col.toQ, Op.toQ, runOps, step, ofSection, natsOf, map_ofNat_eq, hr] at hv
    | ok r =>
      simp [decodeQ, Codec.decode, Col.toQ, Op.toQ, runOps, step, ofSection, natsOf, map_ofNat_eq, hr] at hv
      subst hv; exact .intAdd n w hw x d r hr
  | intDelta n w hw d =>
    cases hr : deltaDecode 0 (natsToInts d) with
    | error e => simp [decodeQ, Codec.decode, Col.toQ, Op.toQ, runOps, step, ofSection, natsOf, map_ofNat_eq, hr] at hv
    | ok r =>
      simp [decodeQ, Codec.decode, Col.toQ, Op.toQ, runOps, step, ofSection, natsOf, map_ofNat_eq, hr] at hv
      subst hv; exact .intDelta n w hw d r hr
  | intAddDelta n w hw x d =>
    cases hr1 : addAll x (natsToInts d) with
    | error e => simp [decodeQ, Codec.decode, Col.toQ, Op.toQ, runOps, step, ofSection, natsOf, map_ofNat_eq, hr1] at hv
    | ok r1 =>
      cases hr : deltaDecode 0 r1 with
      | error e => simp [decodeQ, Codec.decode, Col.toQ, Op.toQ, runOps, step, ofSection, natsOf, map_ofNat_eq, hr1, hr] at hv
      | ok r =>
        simp [decodeQ, Codec.decode, Col.toQ, Op.toQ, runOps, step, ofSection, natsOf, map_ofNat_eq, hr1, hr] at hv
        subst hv; exact .intAddDelta n w hw x d r1 r hr1 hr
  | intCastN n w hw d bm =>
    simp [decodeQ, Codec.decode, Col.toQ, Op.toQ, runOps, step, ofSection, natsOf, map_ofNat_eq] at hv
    subst hv; exact .intCastN n w hw d bm
  | intAddN n w hw x d bm =>
    cases hr : addAll x (natsToInts d) with
    | error e => simp [decodeQ, Codec.decode, Col.toQ, Op.toQ, runOps, step, ofSection, natsOf, map_ofNat_eq, hr] at hv
    | ok r =>
      simp [decodeQ, Codec.decode, Col.toQ, Op.toQ, runOps, step, ofSection, natsOf, map_ofNat_eq, hr] at hv
      subst hv; exact .intAddN n w hw x d bm r hr
  | intDeltaN n w hw d bm =>
    cases hr : deltaDecode 0 (natsToInts d) with
    | error e => simp [decodeQ, Codec.decode, Col.toQ, Op.toQ, runOps, step, ofSection, natsOf, map_ofNat_eq, hr] at hv
    | ok r =>
      simp [decodeQ, Codec.decode, Col.toQ, Op.toQ, runOps, step, ofSection, natsOf, map_ofNat_eq, hr] at hv
      subst hv; exact .intDeltaN n w hw d bm r hr
  | intAddDeltaN n w hw x d bm =>
    cases hr1 : addAll x (natsToInts d) with
    | error e => simp [decodeQ, Codec.decode, Col.toQ, Op.toQ, runOps, step, ofSection, natsOf, map_ofNat_eq, hr1] at hv
    | ok r1 =>
      cases hr : deltaDecode 0 r1 with
      | error e => simp [decodeQ, Codec.decode, Col.toQ, Op.toQ, runOps, step, ofSection, natsOf, map_ofNat_eq, hr1, hr] at hv
      | ok r =>
        simp [decodeQ, Codec.decode, Col.toQ, Op.toQ, runOps, step, ofSection, natsOf, map_ofNat_eq, hr1, hr] at hv
        subst hv; exact .intAddDeltaN n w hw x d bm r1 r hr1 hr
  | i64Plain n d =>
    simp [decodeQ, Codec.decode, Col.toQ, runOps, ofSection] at hv
    subst hv; exact .i64Plain n d
  | i64Delta n d =>
    cases hr : deltaDecode 0 d with
    | error e => simp [decodeQ, Codec.decode, Col.toQ, Op.toQ, runOps, step, ofSection, natsOf, hr] at hv
    | ok r =>
      simp [decodeQ, Codec.decode, Col.toQ, Op.toQ, runOps, step, ofSection, natsOf, hr] at hv
      subst hv; exact .i64Delta n d r hr
  | i64N n d bm =>
    simp [decodeQ, Codec.decode, Col.toQ, Op.toQ, runOps, step, ofSection] at hv
    subst hv; exact .i64N n d bm
  | i64DeltaN n d bm =>
    cases hr : deltaDecode 0 d with
    | error e => simp [decodeQ, Codec.decode, Col.toQ, Op.toQ, runOps, step, ofSection, natsOf, hr] at hv
    | ok r =>
      simp [decodeQ, Codec.decode, Col.toQ, Op.toQ, runOps, step, ofSection, natsOf, hr] at hv
      subst hv; exact .i64DeltaN n d r bm hr
  | f64Plain n d =>
    simp [decodeQ, Codec.decode, Col.toQ, runOps, ofSection] at hv
    subst hv; exact .f64Plain n d
  | f64N n d bm =>
    simp [decodeQ, Codec.decode, Col.toQ, Op.toQ, runOps, step, ofSection] at hv
    subst hv; exact .f64N n d bm
  | dict n w hw ix ranges data =>
    cases hr : dictLookup ranges data ix with
    | error e => simp [decodeQ, Codec.decode, Col.toQ, Op.toQ, runOps, step, ofSection, hr] at hv
    | ok r =>
      simp [decodeQ, Codec.decode, Col.toQ, Op.toQ, runOps, step, ofSection, hr] at hv
      subst hv; exact .dict n w hw ix ranges data r hr
  | dictN n w hw ix ranges data bm =>
    cases hr : dictLookup ranges data ix with
    | error e => simp [decodeQ, Codec.decode, Col.toQ, Op.toQ, runOps, step, ofSection, hr] at hv
    | ok r =>
      simp [decodeQ, Codec.decode, Col.toQ, Op.toQ, runOps, step, ofSection, hr] at hv
      subst hv; exact .dictN n w hw ix ranges data bm r hr
  | packed n d =>
    cases hr : unpackAll d with
    | error e => simp [decodeQ, Codec.decode, Col.toQ, Op.toQ, runOps, step, ofSection, hr] at hv
    | ok r =>
      simp [decodeQ, Codec.decode, Col.toQ, Op.toQ, runOps, step, ofSection, hr] at hv
      subst hv; exact .packed n d r hr
  | packedN n d bm =>
    cases hr : unpackAll d with
    | error e => simp [decodeQ, Codec.decode, Col.toQ, Op.toQ, runOps, step, ofSection, hr] at hv
    | ok r =>
      simp [decodeQ, Codec.decode, Col.toQ, Op.toQ, runOps, step, ofSection, hr] at hv
      subst hv; exact .packedN n d bm r hr
  | hex n u total d =>
    cases hr1 : unpackAll d with
    | error e => simp [decodeQ, Codec.decode, Col.toQ, Op.toQ, runOps, step, ofSection, hr1] at hv
    | ok es =>
      cases hr : unhexAll u total 0 es with
      | error e => simp [decodeQ, Codec.decode, Col.toQ, Op.toQ, runOps, step, ofSection, hr1, hr] at hv
      | ok r =>
        simp [decodeQ, Codec.decode, Col.toQ, Op.toQ, runOps, step, ofSection, hr1, hr] at hv
        subst hv; exact .hex n u total d es r hr1 hr
  | hexN n u total d bm =>
    cases hr1 : unpackAll d with
    | error e => simp [decodeQ, Codec.decode, Col.toQ, Op.toQ, runOps, step, ofSection, hr1] at hv
    | ok es =>
      cases hr : unhexAll u total 0 es with
      | error e => simp [decodeQ, Codec.decode, Col.toQ, Op.toQ, runOps, step, ofSection, hr1, hr] at hv
      | ok r =>
        simp [decodeQ, Codec.decode, Col.toQ, Op.toQ, runOps, step, ofSection, hr1, hr] at hv
        subst hv; exact .hexN n u total d bm es r hr1 hr
  | null n k =>
    simp [decodeQ, Codec.decode, Col.toQ, runOps, ofSection] at hv
    subst hv; exact .null n k

/-! ### the builders of `Codec/*` produce shaped images -/

/-- `q` is (the query-path view of) a shaped column image -/
def Shaped (q : Column) : Prop := ∃ c : Col, c.toQ = q ∧ Shape c

theorem shape_no_push0 {c : Col} (h : Shape c) : ∀ op ∈ c.ops, op ≠ .push 0 := by
  cases h <;> simp

theorem shape_secs {c : Col} (h : Shape c) : ∃ s0 rest, c.secs = s0 :: rest := by
  cases h <;> exact ⟨_, _, rfl⟩

theorem intColumn_shaped (t : Width) (ht : intWidth t) (enc : List Nat) (offset : Int) (delta : Bool)
    (null : Option (List Nat)) : Shaped (intColumn t enc offset delta null) := by
  cases null with
  | none =>
    cases delta <;> by_cases h0 : offset = 0
    · exact ⟨⟨enc.length, [.toI64 t], [.nat t enc]⟩, by simp [Col.toQ, Op.toQ, intColumn, intCodec, h0], .intCast _ t ht enc⟩
    · exact ⟨⟨enc.length, [.add t offset], [.nat t enc]⟩, by simp [Col.toQ, Op.toQ, intColumn, intCodec, h0], .intAdd _ t ht offset enc⟩
    · exact ⟨⟨enc.length, [.delta (.w t)], [.nat t enc]⟩, by simp [Col.toQ, Op.toQ, intColumn, intCodec, h0], .intDelta _ t ht enc⟩
    · exact ⟨⟨enc.length, [.add t offset, .delta .i64], [.nat t enc]⟩, by simp [Col.toQ, Op.toQ, intColumn, intCodec, h0], .intAddDelta _ t ht offset enc⟩
  | some bm =>
    cases delta <;> by_cases h0 : offset = 0
    · exact ⟨⟨enc.length, [.push 1, .nullable, .toI64 t], [.nat t enc, .bitvec bm]⟩, by simp [Col.toQ, Op.toQ, intColumn, intCodec, h0], .intCastN _ t ht enc bm⟩
    · exact ⟨⟨enc.length, [.push 1, .nullable, .add t offset], [.nat t enc, .bitvec bm]⟩, by simp [Col.toQ, Op.toQ, intColumn, intCodec, h0], .intAddN _ t ht offset enc bm⟩
    · exact ⟨⟨enc.length, [.delta (.w t), .push 1, .nullable], [.nat t enc, .bitvec bm]⟩, by simp [Col.toQ, Op.toQ, intColumn, intCodec, h0], .intDeltaN _ t ht enc bm⟩
    · exact ⟨⟨enc.length, [.add t offset, .delta .i64, .push 1, .nullable], [.nat t enc, .bitvec bm]⟩, by simp [Col.toQ, Op.toQ, intColumn, intCodec, h0], .intAddDeltaN _ t ht offset enc bm⟩

theorem createCol_shaped {t : Width} (ht : intWidth t) {values : List Int} {offset : Int} {delta : Bool}
    {null : Option (List Nat)} {q : Column} (h : createCol t values offset delta null = .ok q) : Shaped q := by
  unfold createCol at h
  cases he : encodeInts t.bits offset values with
  | error e => simp [he] at h
  | ok enc =>
    simp [he] at h
    subst h
    exact intColumn_shaped t ht enc offset delta null

theorem i64Col_shaped (values : List Int) (delta : Bool) (null : Option (List Nat)) :
    Shaped (i64Col values delta null) := by
  cases null with
  | none =>
    cases delta
    · exact ⟨⟨values.length, [], [.i64 values]⟩, by simp [Col.toQ, i64Col], .i64Plain _ values⟩
    · exact ⟨⟨values.length, [.delta .i64], [.i64 values]⟩, by simp [Col.toQ, Op.toQ, i64Col], .i64Delta _ values⟩
  | some bm =>
    cases delta
    · exact ⟨⟨values.length, [.push 1, .nullable], [.i64 values, .bitvec bm]⟩, by simp [Col.toQ, Op.toQ, i64Col], .i64N _ values bm⟩
    · exact ⟨⟨values.length, [.delta .i64, .push 1, .nullable], [.i64 values, .bitvec bm]⟩, by simp [Col.toQ, Op.toQ, i64Col], .i64DeltaN _ values bm⟩

theorem ladder_shaped {values : List Int} {mn mx : Int} {delta : Bool} {null : Option (List Nat)} {q : Column}
    (h : ladder values mn mx delta null = .ok q) : Shaped q := by
  unfold ladder at h
  cases hi : interval mn mx with
  | error e => simp [hi] at h
  | ok iv =>
    simp only [hi, Codec.bind_ok] at h
    split at h
    · exact createCol_shaped (by decide) h
    split at h
    · exact createCol_shaped (by decide) h
    split at h
    · exact createCol_shaped (by decide) h
    split at h
    · exact createCol_shaped (by decide) h
    split at h
    · exact createCol_shaped (by decide) h
    split at h
    · exact createCol_shaped (by decide) h
    simp at h
    subst h
    exact i64Col_shaped values delta null

theorem newBoxed_shaped {values : List Int} {mn mx : Int} {delta : Bool} {null : Option (List Nat)} {q : Column}
    (h : newBoxed values mn mx delta null = .ok q) : Shaped q := by
  unfold newBoxed at h
  split at h
  · rename_i first rest
    cases hd : deltaPass first rest with
    | error e => simp [hd] at h
    | ok ds =>
      simp only [hd, Codec.bind_ok] at h
      exact ladder_shaped h
  · exact ladder_shaped h

theorem intWidth_dictWidth (n : Nat) : intWidth (dictWidth n) := by
  unfold dictWidth
  split
  · trivial
  · split <;> trivial

theorem packedColumn_shaped_unpack (len : Nat) (d : List Nat) (present : Option (List Nat)) :
    Shaped (packedColumn len stringPackCodec (.nat .u8 d) present) := by
  cases present with
  | none => exact ⟨⟨len, [.unpack], [.nat .u8 d]⟩, by simp [Col.toQ, Op.toQ, packedColumn, stringPackCodec], .packed _ d⟩
  | some bm =>
    exact ⟨⟨len, [.unpack, .push 1, .nullable], [.nat .u8 d, .bitvec bm]⟩,
      by simp [Col.toQ, Op.toQ, packedColumn, stringPackCodec], .packedN _ d bm⟩

theorem packedColumn_shaped_hex (len : Nat) (u : Bool) (total : Nat) (d : List Nat) (present : Option (List Nat)) :
    Shaped (packedColumn len [.unhex u total] (.nat .u8 d) present) := by
  cases present with
  | none => exact ⟨⟨len, [.unhex u total], [.nat .u8 d]⟩, by simp [Col.toQ, Op.toQ, packedColumn], .hex _ u total d⟩
  | some bm =>
    exact ⟨⟨len, [.unhex u total, .push 1, .nullable], [.nat .u8 d, .bitvec bm]⟩,
      by simp [Col.toQ, Op.toQ, packedColumn], .hexN _ u total d bm⟩

theorem fastBuild_shaped (strings : List Bytes) (len : Nat) (lhex uhex : Bool) (totalBytes : Nat)
    (present : Option (List Nat)) : Shaped (fastBuild strings len lhex uhex totalBytes present) := by
  unfold fastBuild
  split
  · split
    · exact packedColumn_shaped_hex _ _ _ _ _
    · exact packedColumn_shaped_unpack _ _ _
  · have hw := intWidth_dictWidth (sortedUniq strings).length
    cases present with
    | none =>
      exact ⟨⟨len, [.push 1, .push 2, .dict (dictWidth (sortedUniq strings).length)],
          [.nat (dictWidth (sortedUniq strings).length) (strings.map fun s => (sortedUniq strings).idxOf s),
           .nat .u64 ((sortedUniq strings).foldl IPS.push {}).data,
           .nat .u8 ((sortedUniq strings).foldl IPS.push {}).store]⟩,
        by simp [Col.toQ, Op.toQ, dictCodec], .dict _ _ hw _ _ _⟩
    | some bm =>
      exact ⟨⟨len, [.push 3, .nullable, .push 1, .push 2, .dict (dictWidth (sortedUniq strings).length)],
          [.nat (dictWidth (sortedUniq strings).length) (strings.map fun s => (sortedUniq strings).idxOf s),
           .nat .u64 ((sortedUniq strings).foldl IPS.push {}).data,
           .nat .u8 ((sortedUniq strings).foldl IPS.push {}).store, .bitvec bm]⟩,
        by simp [Col.toQ, Op.toQ, dictCodec], .dictN _ _ hw _ _ _ bm⟩

theorem strFinalize_shaped {b : StrBuf} {present : Option (List Nat)} {q : Column}
    (h : b.finalize present = .ok q) : Shaped q := by
  unfold StrBuf.finalize at h
  cases hi : b.values.iter with
  | error e => simp [hi] at h
  | ok strings =>
    simp [hi] at h
    subst h
    exact fastBuild_shaped _ _ _ _ _ _

theorem floatColumn_shaped (values : List Nat) (null : Option (List Nat)) : Shaped (floatColumn values null) := by
  cases null with
  | none => exact ⟨⟨values.length, [], [.f64 values]⟩, by simp [Col.toQ, floatColumn], .f64Plain _ values⟩
  | some bm =>
    exact ⟨⟨values.length, [.push 1, .nullable], [.f64 (fillNulls bm 0 0 values), .bitvec bm]⟩,
      by simp [Col.toQ, Op.toQ, floatColumn], .f64N _ _ bm⟩

/-- every column `ColumnBuffer::finalize` can return (before `lz4_or_pco_encode`) is a shaped image -/
theorem finalize_shaped {cv : Conv} {cb : ColBuf} {q : Column} (h : cb.finalize cv = .ok q) : Shaped q := by
  unfold ColBuf.finalize at h
  split at h
  · simp at h; subst h
    exact ⟨⟨cb.length, [], [.null cb.length]⟩, by simp [Col.toQ, nullColumn], .null _ _⟩
  · exact newBoxed_shaped h
  · simp at h; subst h; exact floatColumn_shaped _ _
  · exact strFinalize_shaped h
  · exact strFinalize_shaped h

/-- **Builders ⊆ Img.**  Whatever `ColumnBuffer::finalize` + `lz4_or_pco_encode` leave behind, if the query path reads
    `v` from it then it is a builder image `Img` with value `v`.  Assumptions on the compression library: it turns a
    typed section into a compressed section (`henc`), its round trip is the identity (`hlaw`); `Null` sections are
    never compressed (`huse`: `DataSection::lz4_encode` / `pco_encode` return them unchanged with ratio 1.0). -/
theorem builder_img (cv : Conv) (cp : Compressor) (use : Bool) (cb : ColBuf) (q : Column) (v : SVal)
    (hq : cb.finalize cv = .ok q)
    (henc : ∀ s, secET s ≠ none → ∃ p tag, cp.enc s = .comp p tag)
    (hlaw : ∀ s, cp.dec (cp.enc s) = s)
    (huse : use = true → ∀ s0 rest, q.sections = s0 :: rest → secET s0 ≠ none)
    (hv : Codec.decode cp.dec (compress cp use q) = .ok v) :
    ∃ c : Col, c.toQ = compress cp use q ∧ Img cp.dec c v := by
  obtain ⟨c0, hc0, hs0⟩ := finalize_shaped hq
  cases use with
  | false =>
    have hcq : compress cp false q = q := by simp [compress]
    rw [hcq] at hv ⊢
    refine ⟨c0, hc0, .plain (imgBase_of_shape (dec := cp.dec) hs0 ?_)⟩
    simp only [decodeQ, hc0]; exact hv
  | true =>
    obtain ⟨s0, rest, hsecs⟩ := shape_secs hs0
    have hqs : q.sections = s0 :: rest := by rw [← hc0]; simpa [Col.toQ] using hsecs
    have hne := huse rfl s0 rest hqs
    obtain ⟨p, tag, hpt⟩ := henc s0 hne
    cases ht : secET s0 with
    | none => exact absurd ht hne
    | some t =>
      have hcq : compress cp true q = { q with ops := .decomp :: q.ops, sections := .comp p tag :: rest } := by
        simp [compress, hqs, hpt]
      have hdec : cp.dec (.comp p tag) = s0 := by rw [← hpt]; exact hlaw s0
      obtain ⟨len, ops, secs⟩ := c0
      simp only at hsecs
      subst hsecs
      have htoq : (⟨len, .lz4 t 0 :: ops, .comp p tag :: rest⟩ : Col).toQ = compress cp true q := by
        rw [hcq, ← hc0]; simp [Col.toQ, Op.toQ]
      refine ⟨⟨len, .lz4 t 0 :: ops, .comp p tag :: rest⟩, htoq, ?_⟩
      have hv' : decodeQ cp.dec ⟨len, .lz4 t 0 :: ops, .comp p tag :: rest⟩ = .ok v := by
        simp only [decodeQ, htoq]; exact hv
      rw [decodeQ_comp (shape_no_push0 hs0) (.lz4 t 0) rfl p tag hdec] at hv'
      exact .lz4 (imgBase_of_shape hs0 hv') t ht 0 p tag hdec

/-! ### C01's refinement theorem, read as "the real builders satisfy `BuildOk`" (pointwise) -/

theorem shape_sec0 {c : Col} (h : Shape c) :
    (∃ n k, c = ⟨n, [], [.null k]⟩) ∨ (∃ s0 rest t, c.secs = s0 :: rest ∧ secET s0 = some t) := by
  cases h with
  | null n k => exact Or.inl ⟨n, k, rfl⟩
  | intCast n w hw d => cases w <;> exact Or.inr ⟨_, _, _, rfl, rfl⟩
  | intAdd n w hw x d => cases w <;> exact Or.inr ⟨_, _, _, rfl, rfl⟩
  | intDelta n w hw d => cases w <;> exact Or.inr ⟨_, _, _, rfl, rfl⟩
  | intAddDelta n w hw x d => cases w <;> exact Or.inr ⟨_, _, _, rfl, rfl⟩
  | intCastN n w hw d bm => cases w <;> exact Or.inr ⟨_, _, _, rfl, rfl⟩
  | intAddN n w hw x d bm => cases w <;> exact Or.inr ⟨_, _, _, rfl, rfl⟩
  | intDeltaN n w hw d bm => cases w <;> exact Or.inr ⟨_, _, _, rfl, rfl⟩
  | intAddDeltaN n w hw x d bm => cases w <;> exact Or.inr ⟨_, _, _, rfl, rfl⟩
  | dict n w hw ix ranges data => cases w <;> exact Or.inr ⟨_, _, _, rfl, rfl⟩
  | dictN n w hw ix ranges data bm => cases w <;> exact Or.inr ⟨_, _, _, rfl, rfl⟩
  | _ => exact Or.inr ⟨_, _, _, rfl, rfl⟩

/-- For EVERY sequence of pushes ingestion can issue on one `ColumnBuffer` (C01's domain: i64 values, strings shorter
    than 2^24 bytes, at least one row), with or without compression of section 0 (never of an all-NULL column):
    the stored image is a builder image `Img`, the query path reads C01's specification cells from it — and so does
    the free `decode` used by compaction. -/
theorem builder_reads_back (cv : Conv) (hcv : ConvOk cv) (cp : Compressor) (hcp : CompOk cp) (use : Bool)
    (ops : List Codec.Op) (hops : ∀ op ∈ ops, OpOk op) (hrows : specColumn cv ops ≠ [])
    (huse : use = true → ∃ cell ∈ specColumn cv ops, cell ≠ .null) :
    ∃ cb q c v, ColBuf.applyAll cv {} ops = .ok cb ∧ cb.finalize cv = .ok q ∧ c.toQ = compress cp use q ∧
      Img cp.dec c v ∧ cellsOf v = specColumn cv ops ∧ decode2 cp.dec c = .ok v := by
  obtain ⟨cb, h1, hrel⟩ := rel_applyAll cv hcv (rel_default cv) ops hops
  obtain ⟨q, h2, _, h3⟩ := rel_finalize cv hcv cp hcp use hrel hrows
  have hspec : (ops.foldl (specStep cv) (.none, [])).2 = specColumn cv ops := rfl
  rw [hspec] at h3
  -- the value the query path reads
  cases hd : Codec.decode cp.dec (compress cp use q) with
  | error e => simp [decodeCells, hd] at h3
  | ok v =>
    have hcells : cellsOf v = specColumn cv ops := by simpa [decodeCells, hd] using h3
    have huse' : use = true → ∀ s0 rest, q.sections = s0 :: rest → secET s0 ≠ none := by
      intro hu s0 rest hsec
      obtain ⟨c0, hc0, hs0⟩ := finalize_shaped h2
      cases shape_sec0 hs0 with
      | inr h =>
        obtain ⟨s0', rest', t, hsecs, ht⟩ := h
        have : q.sections = s0' :: rest' := by rw [← hc0]; simpa [Col.toQ] using hsecs
        rw [this] at hsec
        cases hsec
        rw [ht]; simp
      | inl h =>
        -- `Column::null`: every cell is NULL, contradicting `huse`
        obtain ⟨n, k, rfl⟩ := h
        obtain ⟨p, o, hpo⟩ := hcp.comp (.null k)
        have hinv := hcp.inv (.null k)
        rw [hpo] at hinv
        have hq : q = ⟨n, [], [.null k]⟩ := by rw [← hc0]; rfl
        subst hu
        rw [hq] at hd
        simp [compress, Codec.decode, runOps, step, hpo, ofSection, hinv] at hd
        subst hd
        obtain ⟨cell, hmem, hne⟩ := huse rfl
        rw [← hcells] at hmem
        simp [cellsOf, dataCells] at hmem
        exact absurd hmem.2 hne
    obtain ⟨c, hc1, hc2⟩ := builder_img cv cp use cb q v h2 (fun s _ => hcp.comp s) hcp.inv huse' hd
    exact ⟨cb, q, c, v, h1, h2, hc1, hc2, hcells, decode2_img hc2⟩

end LM.D2
