import LocustModel.Codec.Rebuild
import LocustModel.Lemmas.C07Rebuild
/-
  C07 helper lemmas: the REPRESENTATION of the null bitmap of a `ColumnBuffer`.

  `BitVecMut::set` grows the byte vector on demand and `push_present` / `push_nulls` only ever SET bits, so the stored
  bitmap of a buffer of `len` rows
    * is never longer than `ceil(len / 8)` bytes,
    * may be SHORTER by any number of bytes: rows that end in NULLs covering whole bytes (a nullable image with a
      trailing NULL run, `push_nulls`, `init_present` of an `Empty` buffer = `vec![0; len / 8]`) leave no byte behind;
      `BitVec::is_set` reads a missing byte as 0 = NULL,
    * has no bit at or beyond `len`.
  `push_present` therefore must address row `length + i` by its absolute bit index (`set(all_present, length + i)`);
  the position where the byte vector happens to end says nothing about `length`, also when `length` is a multiple of 8.
-/
namespace LM.Rebuild
open LM LM.Codec LM.Bitmap

/-- representation invariant of the bitmap `p` of a buffer with `len` rows ("grown on demand") -/
structure BmWF (len : Nat) (p : List Nat) : Prop where
  bytes : Bytes p
  short : p.length ≤ (len + 7) / 8
  noStray : ∀ j, len ≤ j → isSet p j = false

theorem isSet_beyond (p : List Nat) (j : Nat) (h : p.length ≤ j / 8) : isSet p j = false := by
  unfold isSet
  rw [List.getElem?_eq_none h]

/-- a bitmap that is short enough has no stray bit (used for concrete examples) -/
theorem BmWF.of_short {len : Nat} {p : List Nat} (hb : Bytes p) (hs : p.length * 8 ≤ len) : BmWF len p :=
  ⟨hb, by omega, fun j hj => isSet_beyond p j (by omega)⟩

theorem length_copyBits (all np : List Nat) (L i n : Nat) :
    (copyBits all np L i n).length ≤ max all.length ((L + i + n + 7) / 8) := by
  induction n generalizing all i with
  | zero => simp only [copyBits]; omega
  | succ n ih =>
    simp only [copyBits]
    by_cases hs : isSet np i = true
    · rw [if_pos hs]
      have h := ih (setBit all (L + i)) (i + 1)
      rw [length_setBit] at h
      omega
    · rw [if_neg hs]
      have h := ih all (i + 1)
      omega

theorem length_copyBits_ge (all np : List Nat) (L i n : Nat) :
    all.length ≤ (copyBits all np L i n).length := by
  induction n generalizing all i with
  | zero => simp [copyBits]
  | succ n ih =>
    simp only [copyBits]
    by_cases hs : isSet np i = true
    · rw [if_pos hs]
      have h := ih (setBit all (L + i)) (i + 1)
      rw [length_setBit] at h
      omega
    · rw [if_neg hs]
      exact ih all (i + 1)

theorem bytes_copyBits {all : List Nat} (h : Bytes all) (np : List Nat) (L i n : Nat) :
    Bytes (copyBits all np L i n) := by
  induction n generalizing all i with
  | zero => exact h
  | succ n ih =>
    simp only [copyBits]
    split
    · exact ih (bytes_setBit h _) (i + 1)
    · exact ih h (i + 1)

theorem length_initAllPresent (L : Nat) : (initAllPresent L).length = (L + 7) / 8 := by
  unfold initAllPresent
  rw [length_setRange]
  simp only [List.length_replicate]
  split <;> omega

theorem length_initOnNull (L : Nat) : (initOnNull L).length = (L + 7) / 8 := by
  unfold initOnNull
  rw [length_setRange]
  simp only [List.length_replicate]
  split <;> omega

theorem bmwf_initAllPresent (L : Nat) : BmWF L (initAllPresent L) :=
  ⟨bytes_initAllPresent L, by rw [length_initAllPresent]; omega,
   fun j hj => by rw [isSet_initAllPresent]; simp; omega⟩

theorem bmwf_initOnNull (L : Nat) : BmWF L (initOnNull L) :=
  ⟨bytes_initOnNull L, by rw [length_initOnNull]; omega,
   fun j hj => by rw [isSet_initOnNull]; simp; omega⟩

theorem bmwf_initAllNull (L : Nat) : BmWF L (initAllNull L) :=
  ⟨bytes_initAllNull L, by simp [initAllNull]; omega, fun j _ => isSet_initAllNull L j⟩

/-- growing the row count keeps the invariant (this is `push_nulls` on a buffer that has a bitmap: nothing is written) -/
theorem BmWF.mono {len len' : Nat} {p : List Nat} (h : BmWF len p) (hle : len ≤ len') : BmWF len' p :=
  ⟨h.bytes, by have := h.short; omega, fun j hj => h.noStray j (by omega)⟩

/-- `push_present` on an existing bitmap (`newBits`: copy the supplied map bit by bit, or set every new row), for EVERY
    accumulated length `L` and EVERY stored bitmap — in particular one that is shorter than `L / 8` bytes. -/
theorem bmwf_newBits {L : Nat} {p : List Nat} (h : BmWF L p) (newp : Option (List Nat)) (n : Nat) :
    BmWF (L + n) (newBits p newp L n) ∧
    (∀ j, j < L → isSet (newBits p newp L n) j = isSet p j) ∧
    (∀ j, j < n → isSet (newBits p newp L n) (L + j) = newBit newp j) := by
  refine ⟨⟨?_, ?_, ?_⟩, ?_, ?_⟩
  · cases newp with
    | none => exact bytes_setRange h.bytes _ _
    | some np => exact bytes_copyBits h.bytes _ _ _ _
  · have hs := h.short
    cases newp with
    | none =>
      simp only [newBits]; rw [length_setRange]
      split <;> omega
    | some np =>
      have := length_copyBits p np L 0 n
      simp only [newBits]; omega
  · intro j hj
    have h1 : ¬ (L ≤ j ∧ j < L + n) := by omega
    rw [isSet_newBits, h.noStray j (by omega)]; simp [h1]
  · intro j hj
    have h1 : ¬ (L ≤ j ∧ j < L + n) := by omega
    rw [isSet_newBits]; simp [h1]
  · intro j hj
    have h1 : (L ≤ L + j ∧ L + j < L + n) := by omega
    have e : L + j - L = j := by omega
    rw [isSet_newBits, h.noStray (L + j) (by omega), e]; simp [h1]

/-- `push_present` as a whole (`pushPresent`: bitmap absent / present x null map supplied / not supplied). -/
theorem pushPresent_bmwf (present newp : Option (List Nat)) (L n : Nat)
    (hwf : ∀ p, present = some p → BmWF L p) :
    match pushPresent present newp L n with
    | none => present = none ∧ newp = none
    | some q =>
      BmWF (L + n) q ∧
      (∀ j, j < L → isSet q j = match present with | some p => isSet p j | none => true) ∧
      (∀ j, j < n → isSet q (L + j) = newBit newp j) := by
  cases present with
  | some p =>
    rw [pushPresent_some]
    exact bmwf_newBits (hwf p rfl) newp n
  | none =>
    cases newp with
    | none => exact ⟨rfl, rfl⟩
    | some np =>
      have h := bmwf_newBits (bmwf_initAllPresent L) (some np) n
      have e : pushPresent none (some np) L n = some (newBits (initAllPresent L) (some np) L n) := rfl
      rw [e]
      refine ⟨h.1, fun j hj => ?_, h.2.2⟩
      rw [h.2.1 j hj, isSet_initAllPresent]; simp [hj]

/-! ### the invariant along the compaction loop -/

/-- the bitmap part of the buffer invariant: whenever the buffer has a bitmap it satisfies `BmWF` for the buffer's length -/
def PWF (b : Buf) : Prop := ∀ p, b.present = some p → BmWF b.length p

theorem pwf_default : PWF ({} : Buf) := fun p h => by cases h

theorem pushTyped_pwf (k : Kind) (b : Buf) (hp : PWF b) (vals : List Cell) (newp : Option (List Nat)) (b' : Buf)
    (h : pushTyped k b vals newp = .ok b') : PWF b' := by
  unfold pushTyped at h
  split at h
  · -- `Empty` buffer
    split at h
    · cases h
    · cases h
      intro q hq
      simp only at hq
      split at hq
      · -- rows so far are NULL: `init_present` = `vec![0; length / 8]`
        rw [pushPresent_some] at hq
        cases hq
        exact (bmwf_newBits (bmwf_initAllNull b.length) newp vals.length).1
      · have := pushPresent_bmwf b.present newp b.length vals.length hp
        rw [hq] at this
        exact this.1
  · split at h
    · cases h
      intro q hq
      simp only at hq
      have := pushPresent_bmwf b.present newp b.length vals.length hp
      rw [hq] at this
      exact this.1
    · cases h
      intro q hq
      simp only at hq
      exact (hp q hq).mono (Nat.le_add_right _ _)

theorem pushNulls_pwf (b : Buf) (hp : PWF b) (n : Nat) : PWF (pushNulls b n) := by
  have hlen : (pushNulls b n).length = b.length + n := by unfold pushNulls; split <;> rfl
  intro q hq
  rw [hlen]
  by_cases he : b.kind = .empty ∨ b.kind = .other
  · have hpres : (pushNulls b n).present = b.present := by
      unfold pushNulls; rcases he with he | he <;> simp [he]
    rw [hpres] at hq
    exact (hp q hq).mono (by omega)
  · -- a typed buffer: the bitmap is created lazily (`vec![0xff; length / 8]` + the remaining rows), nothing is written for the NULLs
    cases hb : b.present with
    | none =>
      have hpres : (pushNulls b n).present = some (initOnNull b.length) := by
        unfold pushNulls; cases hk : b.kind <;> simp_all
      rw [hpres] at hq; cases hq
      exact (bmwf_initOnNull b.length).mono (by omega)
    | some p =>
      have hpres : (pushNulls b n).present = some p := by
        unfold pushNulls; cases hk : b.kind <;> simp_all
      rw [hpres] at hq; cases hq
      exact (hp _ hb).mono (by omega)

theorem pushDecoded_pwf (b : Buf) (hp : PWF b) (v : SVal) (b' : Buf) (h : pushDecoded b v = .ok b') : PWF b' := by
  unfold pushDecoded at h
  split at h
  · exact pushTyped_pwf _ b hp _ _ b' h
  · exact pushTyped_pwf _ b hp _ _ b' h
  · exact pushTyped_pwf _ b hp _ _ b' h
  · cases h; exact pushNulls_pwf b hp _
  · cases h

theorem pushAll_pwf (vs : List SVal) : ∀ (b : Buf), PWF b → ∀ b', pushAll b vs = .ok b' → PWF b' := by
  induction vs with
  | nil => intro b hp b' h; cases h; exact hp
  | cons v vs ih =>
    intro b hp b' h
    simp only [pushAll] at h
    split at h
    · cases h
    · rename_i b1 h1
      exact ih b1 (pushDecoded_pwf b hp v b1 h1) b' h

end LM.Rebuild
