import LocustModel.Query.Merge
import LocustModel.Query.OrderFused
import LocustModel.Lemmas.C05Sort
/-
  C05 helper lemmas: the i64 comparator of the unit hooks is a total preorder; range facts about `floatKey`.
-/
namespace LM.C05
open LM LM.Sql LM.Merge LM.OrderSpec LM.OrderFused

/-- The comparator's order on i64 keys as a relation: `a` may precede `b`. -/
def le (desc : Bool) (a b : Int) : Prop := if desc then a ≥ b else a ≤ b

theorem cmpEq_iff (desc : Bool) (a b : Int) : cmpEq desc a b = true ↔ le desc a b := by
  cases desc <;> simp [cmpEq, le]

theorem cmpEq_totalPre (desc : Bool) : TotalPre (cmpEq desc) := by
  constructor
  · intro a b; cases desc <;> simp [cmpEq] <;> omega
  · intro a b c; cases desc <;> simp [cmpEq] <;> omega

theorem floatKey_le (b : Nat) : floatKey b ≤ 9223372036854775808 := by
  unfold floatKey; simp only
  split
  · omega
  · split <;> omega

theorem floatKey_lt_of_not_nan (b : Nat) (h : isNaNVal (.float b) = false) : floatKey b < 9223372036854775808 := by
  have := floatKey_le b
  simp [isNaNVal] at h; omega

theorem floatKey_null : floatKey F64_NULL_BITS = 9223372036854775808 := by decide

theorem decide_le_eq_not_lt (a b : Int) : decide (a ≤ b) = !decide (b < a) := by
  by_cases h : a ≤ b
  · have h2 : ¬ b < a := by omega
    simp [h, h2]
  · have h2 : b < a := by omega
    simp [h, h2]


end LM.C05
