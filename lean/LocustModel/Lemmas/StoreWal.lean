import LocustModel.Store.Machine
import LocustModel.Store.Spec
/-
  Log / cursor arithmetic of the storage machine (C08, C18): invariant `WalInv`
     ids of the segments on disk = [earliest, nextWal)   (in order, each once),
     cursor stored in the catalogue file = earliest        (0 when there is no catalogue file),
     accounted log size = sum of the sizes of the segments on disk,
  and its preservation by ingest, flush (persist_metastore(unflushed.end) ; delete_wal_segments(unflushed))
  and restart (delete ids < cursor, register the rest).
-/
namespace LM.Store
set_option linter.unusedSectionVars false
set_option linter.unusedSimpArgs false

variable {ν κ : Type} [DecidableEq ν]

def walIds (d : Disk ν κ) : List Nat := d.wal.map (·.id)

structure WalInv (w : World ν κ) : Prop where
  le : w.mem.cat.earliest ≤ w.mem.cat.nextWal
  ids : walIds w.disk = List.range' w.mem.cat.earliest (w.mem.cat.nextWal - w.mem.cat.earliest)
  cursor : (w.disk.metaFile.map (·.cursor)).getD 0 = w.mem.cat.earliest
  size : w.mem.walSize = (w.disk.wal.map (·.bytes)).sum

/-- The fields of the world that compaction never touches. -/
def SameLog (w w' : World ν κ) : Prop :=
  w'.mem.cat.earliest = w.mem.cat.earliest ∧ w'.mem.cat.nextWal = w.mem.cat.nextWal ∧
  w'.disk.wal = w.disk.wal ∧ w'.disk.metaFile = w.disk.metaFile ∧ w'.mem.walSize = w.mem.walSize ∧ w'.log = w.log

theorem SameLog.refl (w : World ν κ) : SameLog w w := ⟨rfl, rfl, rfl, rfl, rfl, rfl⟩

theorem SameLog.trans {a b c : World ν κ} (h1 : SameLog a b) (h2 : SameLog b c) : SameLog a c := by
  obtain ⟨a1, a2, a3, a4, a5, a6⟩ := h1
  obtain ⟨b1, b2, b3, b4, b5, b6⟩ := h2
  exact ⟨b1.trans a1, b2.trans a2, b3.trans a3, b4.trans a4, b5.trans a5, b6.trans a6⟩

theorem compactOne_sameLog (P : Params ν κ) (fi : FlushIn ν) (cidOf : TName ν → Option Nat)
    (st st' : World ν κ × (TName ν → List (Nat × String))) (c : TName ν × Nat)
    (h : compactOne P fi cidOf st c = .ok st') : SameLog st.1 st'.1 := by
  unfold compactOne at h
  simp only at h
  split at h
  · split at h
    · cases h
    · split at h
      · cases h
      · split at h
        · cases h; exact SameLog.refl _
        · cases h
        · split at h
          · cases h
          · cases h; exact ⟨rfl, rfl, rfl, rfl, rfl, rfl⟩
  · cases h; exact SameLog.refl _

theorem foldE_compact_sameLog (P : Params ν κ) (fi : FlushIn ν) (cidOf : TName ν → Option Nat)
    (cs : List (TName ν × Nat)) :
    ∀ (st st' : World ν κ × (TName ν → List (Nat × String))),
      foldE (compactOne P fi cidOf) cs st = .ok st' → SameLog st.1 st'.1 := by
  induction cs with
  | nil => intro st st' h; simp [foldE] at h; subst h; exact SameLog.refl _
  | cons c cs ih =>
    intro st st' h
    simp only [foldE] at h
    split at h
    · rename_i s1 h1
      exact (compactOne_sameLog P fi cidOf st s1 c h1).trans (ih s1 st' h)
    · cases h

-- ------------------------------------------------------------------------------------------------ list facts

theorem range'_snoc (a k : Nat) : List.range' a (k + 1) = List.range' a k ++ [a + k] := by
  have := @List.range'_concat 1 a k
  simpa using this

theorem range'_split (a m n : Nat) : List.range' a (m + n) = List.range' a m ++ List.range' (a + m) n := by
  induction m generalizing a with
  | zero => simp
  | succ m ih =>
    have e : m + 1 + n = (m + n) + 1 := by omega
    rw [e, List.range'_succ, List.range'_succ, ih (a + 1), List.cons_append]
    have e2 : a + 1 + m = a + (m + 1) := by omega
    rw [e2]

theorem filter_range_window (l : List (WalFile ν κ)) (lo hi : Nat)
    (h : ∀ f ∈ l, lo ≤ f.id ∧ f.id < hi) :
    l.filter (fun f => !(decide (lo ≤ f.id) && decide (f.id < hi))) = [] := by
  rw [List.filter_eq_nil_iff]
  intro f hf
  have := h f hf
  simp [this.1, this.2]

theorem mem_ids_of_range {l : List (WalFile ν κ)} {a k : Nat}
    (h : l.map (·.id) = List.range' a k) : ∀ f ∈ l, a ≤ f.id ∧ f.id < a + k := by
  intro f hf
  have : f.id ∈ l.map (·.id) := List.mem_map_of_mem hf
  rw [h] at this
  exact List.mem_range'_1.mp this

theorem filter_ge_all (l : List (WalFile ν κ)) (c : Nat) (h : ∀ f ∈ l, c ≤ f.id) :
    l.filter (fun f => !(decide (f.id < c))) = l := by
  rw [List.filter_eq_self]
  intro f hf
  have := h f hf
  simp; omega

theorem foldl_max_range (l : List (WalFile ν κ)) :
    ∀ (a k : Nat), l.map (·.id) = List.range' a k →
      l.foldl (fun n f => max n (f.id + 1)) a = a + k := by
  induction l with
  | nil => intro a k h; cases k with
    | zero => simp
    | succ k => simp [List.range'] at h
  | cons f fs ih =>
    intro a k h
    cases k with
    | zero => simp [List.range'] at h
    | succ k =>
      simp only [List.map_cons, List.range', List.cons.injEq] at h
      obtain ⟨h1, h2⟩ := h
      simp only [List.foldl_cons]
      have hm : max a (f.id + 1) = a + 1 := by omega
      rw [hm, ih (a + 1) k h2]
      omega

-- ------------------------------------------------------------------------------------------------ steps

theorem walInv_init (P : Params ν κ) : WalInv (initWorld P) := by
  constructor <;> simp [initWorld, emptyDisk, walIds]

theorem walInv_ingest (P : Params ν κ) (w w' : World ν κ) (r : Request ν κ) (bytes : Nat)
    (hinv : WalInv w) (h : ingest P w r bytes = .ok w') : WalInv w' := by
  unfold ingest at h
  split at h
  · cases h
  · rename_i acc _
    simp only at h
    split at h
    · cases h
    · rename_i T' _
      cases h
      obtain ⟨hle, hids, hcur, hsize⟩ := hinv
      constructor
      · simp; omega
      · simp only [walIds, List.map_append, List.map_cons, List.map_nil]
        have : w.mem.cat.nextWal + 1 - w.mem.cat.earliest = (w.mem.cat.nextWal - w.mem.cat.earliest) + 1 := by omega
        rw [this, range'_snoc]
        simp only [walIds] at hids
        rw [hids]
        congr 2
        omega
      · simpa using hcur
      · simp [hsize, List.sum_append]

/-- Shape of the world after a successful flush, in terms of the world `w3` reached after the compactions. -/
theorem flush_shape (P : Params ν κ) (w w' : World ν κ) (fi : FlushIn ν) (h : flush P w fi = .ok w') :
    ∃ (w3 : World ν κ) (toDel : TName ν → List (Nat × String)),
      SameLog (batchAndPersist fi (freeze w)) w3 ∧
      w' = deleteWal (deleteOrphans (persistMeta w3 w.mem.cat.nextWal) toDel) w.mem.cat.earliest w.mem.cat.nextWal := by
  unfold flush at h
  simp only at h
  split at h
  · cases h
  · rename_i w3 toDel hfold
    cases h
    exact ⟨w3, toDel, foldE_compact_sameLog P fi _ _ _ _ hfold, rfl⟩

theorem walInv_flush (P : Params ν κ) (w w' : World ν κ) (fi : FlushIn ν)
    (hinv : WalInv w) (h : flush P w fi = .ok w') :
    WalInv w' ∧ w'.disk.wal = [] ∧ w'.mem.walSize = 0 ∧ w'.mem.cat.earliest = w.mem.cat.nextWal ∧
    w'.mem.cat.nextWal = w.mem.cat.nextWal := by
  obtain ⟨w3, toDel, hs, rfl⟩ := flush_shape P w w' fi h
  obtain ⟨s1, s2, s3, s4, s5, _⟩ := hs
  obtain ⟨hle, hids, hcur, hsize⟩ := hinv
  simp only [batchAndPersist, freeze] at s1 s2 s3 s4 s5
  have hwal : (deleteWal (deleteOrphans (persistMeta w3 w.mem.cat.nextWal) toDel) w.mem.cat.earliest w.mem.cat.nextWal).disk.wal = [] := by
    simp only [deleteWal, deleteOrphans, persistMeta, s3]
    apply filter_range_window
    intro f hf
    have := mem_ids_of_range hids f hf
    omega
  refine ⟨?_, hwal, ?_, ?_, ?_⟩
  · constructor
    · simp [deleteWal, deleteOrphans, persistMeta, s2]
    · simp only [walIds, hwal]
      simp [deleteWal, deleteOrphans, persistMeta, s2]
    · simp [deleteWal, deleteOrphans, persistMeta]
    · rw [hwal]; simp [deleteWal, deleteOrphans, persistMeta, s5]
  · simp [deleteWal, deleteOrphans, persistMeta, s5]
  · simp [deleteWal, deleteOrphans, persistMeta]
  · simp [deleteWal, deleteOrphans, persistMeta, s2]

theorem walInv_recover (P : Params ν κ) (w w' : World ν κ) (order : Nat → Request ν κ → Request ν κ)
    (hinv : WalInv w) (h : recover P w.disk w.log w.lossy order = .ok w') :
    WalInv w' ∧ w'.disk.wal = w.disk.wal ∧ w'.mem.cat.earliest = w.mem.cat.earliest ∧
    w'.mem.cat.nextWal = w.mem.cat.nextWal ∧ w'.mem.walSize = w.mem.walSize := by
  obtain ⟨hle, hids, hcur, hsize⟩ := hinv
  have hcur' : (w.disk.metaFile.getD ⟨0, fun _ => []⟩).cursor = w.mem.cat.earliest := by
    cases hm : w.disk.metaFile with
    | none => simp [hm] at hcur ⊢; exact hcur
    | some mf => simp [hm] at hcur ⊢; exact hcur
  have hkept : w.disk.wal.filter (fun f => !(decide (f.id < (w.disk.metaFile.getD ⟨0, fun _ => []⟩).cursor))) = w.disk.wal := by
    apply filter_ge_all
    intro f hf
    have := mem_ids_of_range hids f hf
    omega
  unfold recover at h
  simp only [hkept] at h
  split at h
  · cases h
  · cases h
    have hnext : List.foldl (fun n (f : WalFile ν κ) => max n (f.id + 1)) (w.disk.metaFile.getD ⟨0, fun _ => []⟩).cursor w.disk.wal
        = w.mem.cat.nextWal := by
      rw [hcur', foldl_max_range w.disk.wal w.mem.cat.earliest _ hids]; omega
    have hnext' : List.foldl (fun n (f : WalFile ν κ) => max n (f.id + 1)) w.mem.cat.earliest w.disk.wal
        = w.mem.cat.nextWal := by rw [hcur'] at hnext; exact hnext
    refine ⟨?_, rfl, hcur', hnext, ?_⟩
    · constructor
      · simp only [hcur', hnext']; exact hle
      · simp only [hcur', hnext', walIds]; exact hids
      · simp only [hcur']
        cases hm : w.disk.metaFile with
        | none => simp [hm] at hcur ⊢; exact hcur
        | some mf => simp [hm] at hcur ⊢; exact hcur
      · rfl
    · exact hsize.symm

theorem walInv_step (P : Params ν κ) (w w' : World ν κ) (op : Op ν κ)
    (hinv : WalInv w) (h : step P w op = .ok w') : WalInv w' := by
  cases op with
  | ingest r bytes => exact walInv_ingest P w w' r bytes hinv h
  | flush fi => exact (walInv_flush P w w' fi hinv h).1
  | restart order => exact (walInv_recover P w w' order hinv h).1

theorem foldE_inv {σ α : Type} (f : σ → α → Except Fault σ) (I : σ → Prop)
    (hstep : ∀ s a s', I s → f s a = .ok s' → I s') :
    ∀ (l : List α) (s s' : σ), I s → foldE f l s = .ok s' → I s' := by
  intro l
  induction l with
  | nil => intro s s' hi h; simp [foldE] at h; subst h; exact hi
  | cons a as ih =>
    intro s s' hi h
    simp only [foldE] at h
    split at h
    · rename_i s1 h1; exact ih s1 s' (hstep s a s1 hi h1) h
    · cases h

theorem walInv_run (P : Params ν κ) (ops : List (Op ν κ)) (w : World ν κ)
    (h : run P ops (initWorld P) = .ok w) : WalInv w :=
  foldE_inv (step P) WalInv (fun s a s' hi hs => walInv_step P s s' a hi hs) ops _ _ (walInv_init P) h

end LM.Store
