import LocustModel.Query.GroupSpec
/-
  C04 helper lemmas about the SPECIFICATION: what `groupRows` (hence `specGroupBy`) means.
-/
namespace LM.C04L
open LM LM.Sql LM.GroupSpec

theorem addToGroup_keys (k : List Val) (r : Row) (G : Groups) : (addToGroup k r G).map (·.1) = G.map (·.1) := by
  induction G with
  | nil => rfl
  | cons e t ih =>
    obtain ⟨k', rs⟩ := e
    by_cases h : k = k' <;> simp [addToGroup, h, ih]

theorem mem_addToGroup (k : List Val) (r : Row) (G : Groups) (hn : (G.map (·.1)).Nodup) (g : List Val × List Row) :
    g ∈ addToGroup k r G ↔ (g ∈ G ∧ g.1 ≠ k) ∨ (∃ rs, (k, rs) ∈ G ∧ g = (k, rs ++ [r])) := by
  induction G with
  | nil => simp [addToGroup]
  | cons e t ih =>
    obtain ⟨k', rs⟩ := e
    simp only [List.map_cons, List.nodup_cons] at hn
    obtain ⟨hk', hnt⟩ := hn
    by_cases h : k = k'
    · subst h
      simp only [addToGroup, if_true, List.mem_cons]
      constructor
      · rintro (rfl | hg)
        · exact Or.inr ⟨rs, Or.inl rfl, rfl⟩
        · refine Or.inl ⟨Or.inr hg, ?_⟩
          intro he
          apply hk'
          simp only [List.mem_map]
          exact ⟨g, hg, he⟩
      · rintro (⟨hg | hg, hne⟩ | ⟨rs', hm | hm, rfl⟩)
        · subst hg; simp at hne
        · exact Or.inr hg
        · simp at hm; subst hm; exact Or.inl rfl
        · exfalso; apply hk'; simp only [List.mem_map]; exact ⟨(k, rs'), hm, rfl⟩
    · simp only [addToGroup, h, if_false, List.mem_cons, ih hnt]
      constructor
      · rintro (rfl | ⟨hg, hne⟩ | ⟨rs', hm, rfl⟩)
        · exact Or.inl ⟨Or.inl rfl, fun he => h he.symm⟩
        · exact Or.inl ⟨Or.inr hg, hne⟩
        · exact Or.inr ⟨rs', Or.inr hm, rfl⟩
      · rintro (⟨hg | hg, hne⟩ | ⟨rs', hm | hm, rfl⟩)
        · exact Or.inl hg
        · exact Or.inr (Or.inl ⟨hg, hne⟩)
        · simp at hm; exact absurd hm.1 h
        · exact Or.inr (Or.inr ⟨rs', hm, rfl⟩)

theorem mem_insertNew (k : List Val) (r : Row) (G : Groups) (g : List Val × List Row) :
    g ∈ insertNew k r G ↔ g = (k, [r]) ∨ g ∈ G := by
  induction G with
  | nil => simp [insertNew]
  | cons e t ih =>
    obtain ⟨k', rs⟩ := e
    by_cases h : tupleLt k k' = true
    · simp [insertNew, h]
    · simp only [insertNew, h, Bool.false_eq_true, if_false, List.mem_cons]
      rw [ih]
      constructor
      · rintro (h1 | h1 | h1)
        · exact Or.inr (Or.inl h1)
        · exact Or.inl h1
        · exact Or.inr (Or.inr h1)
      · rintro (h1 | h1 | h1)
        · exact Or.inr (Or.inl h1)
        · exact Or.inl h1
        · exact Or.inr (Or.inr h1)

theorem insertNew_keys_perm (k : List Val) (r : Row) (G : Groups) :
    ((insertNew k r G).map (·.1)).Perm (k :: G.map (·.1)) := by
  induction G with
  | nil => simp [insertNew]
  | cons e t ih =>
    obtain ⟨k', rs⟩ := e
    by_cases h : tupleLt k k' = true
    · simp [insertNew, h]
    · simp only [insertNew, h, List.map_cons]
      exact (List.Perm.cons k' ih).trans (List.Perm.swap k k' _)

/-- the invariant of `groupRows` after the rows `P` -/
def GInv (keys : List Nat) (G : Groups) (P : List Row) : Prop :=
  (G.map (·.1)).Nodup ∧ (∀ r ∈ P, keyOf keys r ∈ G.map (·.1)) ∧
  ∀ g ∈ G, g.2 = P.filter (fun r => keyOf keys r = g.1) ∧ g.2 ≠ []

theorem ginv_step (keys : List Nat) (G : Groups) (P : List Row) (r : Row) (h : GInv keys G P) :
    GInv keys (insertGroup (keyOf keys r) r G) (P ++ [r]) := by
  obtain ⟨hn, hc, hg⟩ := h
  unfold insertGroup
  cases hany : G.any (fun e => e.1 = keyOf keys r)
  rotate_left
  · simp only [if_true]
    have hmem : keyOf keys r ∈ G.map (·.1) := by
      simp only [List.any_eq_true, decide_eq_true_eq] at hany
      obtain ⟨e, he, hek⟩ := hany
      simp only [List.mem_map]; exact ⟨e, he, hek⟩
    refine ⟨by rw [addToGroup_keys]; exact hn, ?_, ?_⟩
    · intro r' hr'
      rw [addToGroup_keys]
      simp at hr'
      rcases hr' with hr' | rfl
      · exact hc r' hr'
      · exact hmem
    · intro g hgm
      rw [mem_addToGroup _ _ _ hn] at hgm
      rcases hgm with ⟨hgG, hne⟩ | ⟨rs, hm, rfl⟩
      · have := hg g hgG
        have hne' : ¬ keyOf keys r = g.1 := fun e => hne e.symm
        simp [List.filter_append, hne', this.1.symm, this.2]
      · have := hg _ hm
        simp only at this
        simp [List.filter_append, this.1.symm]
  · simp only [Bool.false_eq_true, if_false]
    have hnm : keyOf keys r ∉ G.map (·.1) := by
      intro hm
      simp only [List.mem_map] at hm
      obtain ⟨e, he, hek⟩ := hm
      have : G.any (fun e => e.1 = keyOf keys r) = true := by
        simp only [List.any_eq_true, decide_eq_true_eq]
        exact ⟨e, he, hek⟩
      rw [hany] at this
      cases this
    have hperm := insertNew_keys_perm (keyOf keys r) r G
    refine ⟨(List.Perm.nodup_iff hperm).mpr (List.nodup_cons.mpr ⟨hnm, hn⟩), ?_, ?_⟩
    · intro r' hr'
      rw [List.Perm.mem_iff hperm]
      simp at hr'
      rcases hr' with hr' | rfl
      · exact List.mem_cons_of_mem _ (hc r' hr')
      · exact List.mem_cons_self
    · intro g hgm
      rw [mem_insertNew] at hgm
      rcases hgm with rfl | hgG
      · have hP : P.filter (fun r' => keyOf keys r' = keyOf keys r) = [] := by
          rw [List.filter_eq_nil_iff]
          intro r' hr' he
          simp at he
          exact hnm (he ▸ hc r' hr')
        simp [List.filter_append, hP]
      · have := hg g hgG
        have hne' : ¬ keyOf keys r = g.1 := by
          intro e
          apply hnm
          simp only [List.mem_map]
          exact ⟨g, hgG, e.symm⟩
        simp [List.filter_append, hne', this.1.symm, this.2]

theorem ginv_foldl (keys : List Nat) (rows : List Row) (G : Groups) (P : List Row) (h : GInv keys G P) :
    GInv keys (rows.foldl (fun acc r => insertGroup (keyOf keys r) r acc) G) (P ++ rows) := by
  induction rows generalizing G P with
  | nil => simpa using h
  | cons r t ih =>
    simp only [List.foldl_cons]
    have := ih _ _ (ginv_step keys G P r h)
    simpa using this

theorem groupRows_inv (keys : List Nat) (rows : List Row) : GInv keys (groupRows keys rows) rows := by
  have := ginv_foldl keys rows [] [] ⟨by simp, by simp, by simp⟩
  simpa [groupRows] using this
end LM.C04L
