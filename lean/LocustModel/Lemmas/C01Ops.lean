import LocustModel.Codec.Ops
/-
  Helper lemmas about the decode program itself (`runOps`): composition, independence from section 0,
  masking by the present bitmap.  Core only.
-/
namespace LM.Codec
open LM LM.Bitmap

/-- running a concatenated program = running the first part, then the second on the resulting stack
    (this is what makes ANY split of a codec — in particular the `ensure_property` split — sound). -/
theorem runOps_append (dec : Section → Section) (secs : List Section) (a b : List CodecOp) (st : List SVal) :
    runOps dec secs (a ++ b) st = (runOps dec secs a st >>= fun st' => runOps dec secs b st') := by
  induction a generalizing st with
  | nil => simp [runOps]
  | cons op a ih =>
    simp only [List.cons_append, runOps]
    cases step dec secs op st with
    | error e => simp
    | ok st' => simp [ih]

/-- no op of the program reads section 0 again (`PushDataSection(0)` is never emitted by the builders). -/
def NoPush0 (ops : List CodecOp) : Prop := ∀ op ∈ ops, op ≠ .push 0

instance (ops : List CodecOp) : Decidable (NoPush0 ops) := by unfold NoPush0; exact inferInstance

theorem step_section0 (dec : Section → Section) (s0 s0' : Section) (rest : List Section) (op : CodecOp)
    (st : List SVal) (h : op ≠ .push 0) :
    step dec (s0 :: rest) op st = step dec (s0' :: rest) op st := by
  cases op with
  | push i =>
    cases i with
    | zero => exact absurd rfl h
    | succ i => simp [step]
  | _ => rcases st with _ | ⟨a, _ | ⟨b, _ | ⟨c, st⟩⟩⟩ <;> rfl

theorem runOps_section0 (dec : Section → Section) (s0 s0' : Section) (rest : List Section)
    (ops : List CodecOp) (st : List SVal) (h : NoPush0 ops) :
    runOps dec (s0 :: rest) ops st = runOps dec (s0' :: rest) ops st := by
  induction ops generalizing st with
  | nil => rfl
  | cons op ops ih =>
    simp only [runOps]
    rw [step_section0 dec s0 s0' rest op st (h op List.mem_cons_self)]
    cases step dec (s0' :: rest) op st with
    | error e => rfl
    | ok st' => simp [ih st' (fun o ho => h o (List.mem_cons_of_mem _ ho))]

/-! ### cells and the present bitmap -/

/-- `slots` agree with `cells` wherever the cell is not NULL (NULL slots hold an arbitrary placeholder). -/
def Agree : List Cell → List Cell → Prop
  | [], [] => True
  | c :: cs, s :: ss => (c = .null ∨ c = s) ∧ Agree cs ss
  | _, _ => False

theorem Agree.length {cells slots : List Cell} (h : Agree cells slots) : slots.length = cells.length := by
  induction cells generalizing slots with
  | nil => cases slots <;> simp_all [Agree]
  | cons c cs ih =>
    cases slots with
    | nil => simp [Agree] at h
    | cons s ss => simp [ih h.2]

theorem Agree.refl (cells : List Cell) : Agree cells cells := by
  induction cells with
  | nil => trivial
  | cons c cs ih => exact ⟨Or.inr rfl, ih⟩

theorem Agree.append {c1 s1 c2 s2 : List Cell} (h1 : Agree c1 s1) (h2 : Agree c2 s2) :
    Agree (c1 ++ c2) (s1 ++ s2) := by
  induction c1 generalizing s1 with
  | nil => cases s1 <;> simp_all [Agree]
  | cons c cs ih =>
    cases s1 with
    | nil => simp [Agree] at h1
    | cons s ss => exact ⟨h1.1, ih h1.2⟩

/-- NULL cells agree with any placeholders. -/
theorem Agree.nulls (n : Nat) (slots : List Cell) (h : slots.length = n) :
    Agree (List.replicate n .null) slots := by
  induction n generalizing slots with
  | zero => cases slots <;> simp_all [Agree]
  | succ n ih =>
    cases slots with
    | nil => simp at h
    | cons s ss => exact ⟨Or.inl rfl, ih ss (by simpa using h)⟩

/-- a conversion that keeps NULL cells NULL and is applied to cells and slots alike. -/
theorem Agree.map {cells slots : List Cell} (f g : Cell → Cell) (hf : f .null = .null)
    (hfg : ∀ c, c ≠ .null → f c = g c) (h : Agree cells slots) : Agree (cells.map f) (slots.map g) := by
  induction cells generalizing slots with
  | nil => cases slots <;> simp_all [Agree]
  | cons c cs ih =>
    cases slots with
    | nil => simp [Agree] at h
    | cons s ss =>
      refine ⟨?_, ih h.2⟩
      rcases h.1 with h1 | h1
      · left; rw [h1, hf]
      · by_cases hn : c = .null
        · left; rw [hn, hf]
        · right; rw [hfg c hn, h1]

/-- no NULL cell: the slots ARE the cells. -/
theorem Agree.eq_of_nonnull {cells slots : List Cell} (h : Agree cells slots) (hn : ∀ c ∈ cells, c ≠ .null) :
    slots = cells := by
  induction cells generalizing slots with
  | nil => cases slots <;> simp_all [Agree]
  | cons c cs ih =>
    cases slots with
    | nil => simp [Agree] at h
    | cons s ss =>
      rcases h.1 with h1 | h1
      · exact absurd h1 (hn c List.mem_cons_self)
      · rw [ih h.2 (fun x hx => hn x (List.mem_cons_of_mem _ hx)), h1]

/-- masking the slots with a bitmap that has bit `i + j` set exactly for the non-NULL cells `j`
    gives back the cells. -/
theorem maskFrom_agree (bm : List Nat) (i : Nat) (cells slots : List Cell) (h : Agree cells slots)
    (hb : ∀ j (hj : j < cells.length), isSet bm (i + j) = decide (cells[j] ≠ .null)) :
    maskFrom bm i slots = cells := by
  induction cells generalizing slots i with
  | nil => cases slots <;> simp_all [Agree, maskFrom]
  | cons c cs ih =>
    cases slots with
    | nil => simp [Agree] at h
    | cons s ss =>
      have h0 := hb 0 (by simp)
      simp only [Nat.add_zero, List.getElem_cons_zero] at h0
      have hrec := ih (i + 1) ss h.2 (fun j hj => by
        have := hb (j + 1) (by simpa using hj)
        simpa [Nat.add_assoc, Nat.add_comm 1 j] using this)
      simp only [maskFrom, hrec, h0]
      rcases h.1 with h1 | h1
      · simp [h1]
      · by_cases hn : c = .null
        · simp [hn]
        · subst h1; simp [hn]

end LM.Codec
