import LocustModel.Conc.SchedDb
import LocustModel.Lemmas.C11Sched
import LocustModel.Lemmas.C11Progress
import LocustModel.Lemmas.C11Value
/-
  C11 helper lemmas at the level of client requests: the flush thread, and the invariant `Good` that every round of
  `Db.round` preserves when the caller-side sections do not fault.
-/
namespace LM.Sched

/-! ### fan-in and flush -/

theorem recvLoop_true_isSome (k r : Nat) (evs : List Bool) : (recvLoop true k r evs).isSome = true := by
  fun_induction recvLoop true k r evs <;> simp_all

theorem recvLoop_all_sent (dropTx : Bool) (k r : Nat) (evs : List Bool) (hlen : r + evs.length = k)
    (hall : ∀ e ∈ evs, e = true) : recvLoop dropTx k r evs = some k := by
  induction evs generalizing r with
  | nil => simp at hlen; simp [recvLoop, hlen]
  | cons e evs ih =>
    have he : e = true := hall e (by simp)
    subst he
    have hne : r ≠ k := by simp at hlen; omega
    simp only [recvLoop, hne, if_false]
    exact ih (r + 1) (by simp at hlen; omega) (fun x hx => hall x (by simp [hx]))

theorem recvLoop_le (dropTx : Bool) (k r : Nat) (evs : List Bool) (hr : r ≤ k) (x : Nat)
    (h : recvLoop dropTx k r evs = some x) : x ≤ k := by
  fun_induction recvLoop dropTx k r evs <;> simp_all <;> omega

theorem sent_all_of_nofault (b : List Out) (h : ∀ x ∈ b, x ≠ .fault) : ∀ e ∈ b.map (· != .fault), e = true := by
  intro e he
  simp at he
  obtain ⟨x, hx, rfl⟩ := he
  simpa using h x hx

theorem walFlush_nofault (cfg : Cfg) (b : List Out) (tb : Out) (c : List Out)
    (hb : ∀ x ∈ b, x ≠ .fault) (htb : tb ≠ .fault) (hc : ∀ x ∈ c, x ≠ .fault) : walFlush cfg b tb c = .ok := by
  unfold walFlush
  rw [recvLoop_all_sent cfg.dropTx b.length 0 _ (by simp) (sent_all_of_nofault b hb)]
  simp [htb]
  rw [recvLoop_all_sent cfg.dropTx c.length 0 _ (by simp) (sent_all_of_nofault c hc)]

theorem walFlush_current (b : List Out) (tb : Out) (c : List Out) :
    walFlush .current b tb c ≠ .hang ∧ (walFlush .current b tb c = .failed → .fault ∈ b ∨ tb = .fault) := by
  unfold walFlush
  have h1 := recvLoop_true_isSome b.length 0 (b.map (· != .fault))
  have h2 := recvLoop_true_isSome c.length 0 (c.map (· != .fault))
  simp only [Cfg.current]
  cases hb : recvLoop true b.length 0 (b.map (· != .fault)) with
  | none => rw [hb] at h1; cases h1
  | some r =>
    simp only []
    split
    · rename_i hlt
      refine ⟨by simp, fun _ => ?_⟩
      left
      apply Classical.byContradiction
      intro hnf
      have := recvLoop_all_sent true b.length 0 _ (by simp) (sent_all_of_nofault b (fun x hx e => hnf (e ▸ hx)))
      rw [this] at hb; cases hb; omega
    · split
      · rename_i htb; exact ⟨by simp, fun _ => Or.inr htb⟩
      · cases hc : recvLoop true c.length 0 (c.map (· != .fault)) with
        | none => rw [hc] at h2; cases h2
        | some r2 => simp

theorem forceFlush_current (s : FlushSt) (hs : s.alive = true ∧ s.stuck = false) (b : List Out) (tb : Out) (c : List Out) :
    let r := forceFlush .current [] s b tb c
    r.1.alive = true ∧ r.1.stuck = false ∧ r.2.1 = [] ∧ r.2.2 ≠ .hang ∧ r.2.2 ≠ .panic ∧
    (r.2.2 = .failed → .fault ∈ b ∨ tb = .fault) := by
  obtain ⟨ha, hst⟩ := hs
  have hw := walFlush_current b tb (if s.failedFlag = true then [] else c)
  simp only [forceFlush, flushIter, ha, hst]
  simp
  cases hres : walFlush .current b tb (if s.failedFlag = true then [] else c) with
  | ok => simp [ha, hst]
  | hang => exact absurd hres hw.1
  | failed => simp [Cfg.current, ha, hst]; exact hw.2 hres

theorem forceFlush_nofault (cfg : Cfg) (s : FlushSt) (hs : s.alive = true ∧ s.stuck = false) (b : List Out) (tb : Out) (c : List Out)
    (hb : ∀ x ∈ b, x ≠ .fault) (htb : tb ≠ .fault) (hc : ∀ x ∈ c, x ≠ .fault) :
    forceFlush cfg [] s b tb c = (s, [], .ok) := by
  obtain ⟨ha, hst⟩ := hs
  have hc' : ∀ x ∈ (if s.failedFlag = true then [] else c), x ≠ .fault := by
    split
    · simp
    · exact hc
  simp only [forceFlush, flushIter, ha, hst]
  simp [walFlush_nofault cfg b tb _ hb htb hc']
  exact ⟨ha, hst⟩

theorem recvLoop_count (dropTx : Bool) (k : Nat) (evs : List Bool) (r x : Nat) (hr : r + evs.length ≤ k)
    (h : recvLoop dropTx k r evs = some x) : x = r + evs.count true := by
  induction evs generalizing r with
  | nil => simp [recvLoop] at h; split at h <;> simp_all
  | cons e evs ih =>
    cases e with
    | true =>
      have hne : r ≠ k := by simp at hr; omega
      simp only [recvLoop, hne, if_false] at h
      have := ih (r + 1) (by simp at hr; omega) h
      simp; omega
    | false =>
      have hne : r ≠ k := by simp at hr; omega
      simp only [recvLoop, hne, if_false] at h
      have := ih r (by simp at hr; omega) h
      simpa using this

theorem count_sent (jobs : List Out) : (jobs.map (· != .fault)).count true = jobs.length ↔ ∀ j ∈ jobs, j ≠ .fault := by
  induction jobs with
  | nil => simp
  | cons j js ih =>
    have hle := List.count_le_length (a := true) (l := js.map (· != .fault))
    simp only [List.length_map] at hle
    cases j with
    | done =>
      have e : (Out.done != Out.fault) = true := by decide
      simp only [List.map_cons, e, List.count_cons_self, List.length_cons, List.mem_cons, forall_eq_or_imp]
      simp [← ih]
    | err =>
      have e : (Out.err != Out.fault) = true := by decide
      simp only [List.map_cons, e, List.count_cons_self, List.length_cons, List.mem_cons, forall_eq_or_imp]
      simp [← ih]
    | fault =>
      have e : (Out.fault != Out.fault) = false := by decide
      simp only [List.map_cons, e, List.length_cons, List.mem_cons, forall_eq_or_imp]
      simp
      omega

theorem recover_current (jobs : List Out) :
    (recover .current jobs).isSome = true ∧ (recover .current jobs = some true ↔ ∀ j ∈ jobs, j ≠ .fault) := by
  unfold recover
  have h1 := recvLoop_true_isSome jobs.length 0 (jobs.map (· != .fault))
  simp only [Cfg.current]
  cases hb : recvLoop true jobs.length 0 (jobs.map (· != .fault)) with
  | none => rw [hb] at h1; cases h1
  | some r =>
    have := recvLoop_count true jobs.length _ 0 r (by simp) hb
    simp only [Nat.zero_add] at this
    refine ⟨rfl, ?_⟩
    simp only [Option.some.injEq, decide_eq_true_eq]
    rw [this]
    exact count_sent jobs

theorem recover_legacy (jobs : List Out) (h : .fault ∈ jobs) : recover .legacy jobs = none := by
  have aux : ∀ (evs : List Bool) (r : Nat), r + evs.count true < jobs.length → recvLoop false jobs.length r evs = none := by
    intro evs
    induction evs with
    | nil => intro r h; have : r ≠ jobs.length := by simp at h; omega
             simp [recvLoop, this]
    | cons e evs ih =>
      intro r h
      cases e with
      | true =>
        have hne : r ≠ jobs.length := by simp at h; omega
        simp only [recvLoop, hne, if_false]
        exact ih (r + 1) (by simp at h; omega)
      | false =>
        have hne : r ≠ jobs.length := by simp at h; omega
        simp only [recvLoop, hne, if_false]
        exact ih r (by simpa using h)
  have hlt : (jobs.map (· != .fault)).count true < jobs.length := by
    have hle := List.count_le_length (a := true) (l := jobs.map (· != .fault))
    simp only [List.length_map] at hle
    have hne : (jobs.map (· != .fault)).count true ≠ jobs.length := by
      intro heq
      exact ((count_sent jobs).mp heq) _ h rfl
    omega
  unfold recover
  simp only [Cfg.legacy]
  rw [aux _ 0 (by simpa using hlt)]

/-! ### rounds -/

/-- the state between requests when nothing went wrong -/
def Good (d : Db) : Prop :=
  Inv d.pool ∧ d.pool.total = d.n ∧ d.pool.dead = 0 ∧ d.pool.busy = [] ∧ d.pool.queue = [] ∧
  d.fl.alive = true ∧ d.fl.stuck = false ∧ d.poisoned = []

theorem good_init (n : Nat) : Good (Db.init n) := by
  refine ⟨init_inv n, ?_, rfl, rfl, rfl, rfl, rfl, rfl⟩
  simp [Db.init, Pool.init, Pool.total]

theorem good_workers {d : Db} (h : Good d) : d.pool.workers = d.n := by
  obtain ⟨_, h2, h3, h4, _⟩ := h
  simp [Pool.total, Pool.workers, h3, h4] at *; omega

theorem callTask_good (d : Db) (hn : 1 ≤ d.n) (h : Good d) (bodies : List Out) (final : Out) :
    Good (callTask .current d bodies final).1 ∧ (callTask .current d bodies final).1.n = d.n ∧
    (callTask .current d bodies final).2 ≠ .hang ∧ (callTask .current d bodies final).2 ≠ .panic ∧
    (callTask .current d bodies final).2 ≠ .failed := by
  obtain ⟨hinv, htot, hdead, hbusy, hqueue, hfa, hfs, hpo⟩ := h
  have hinv1 := submit_inv d.pool bodies final hinv
  obtain ⟨g1, g2, g3, g4, g5⟩ := drain_spec .current (measure (submit d.pool bodies final)) (submit d.pool bodies final) hinv1 (Nat.le_refl _)
  have g3' := g3 rfl
  rw [submit_total] at g2
  rw [submit_dead] at g3'
  -- abbreviations
  generalize hp2 : drain .current (measure (submit d.pool bodies final)) (submit d.pool bodies final) = p2 at *
  have hb2 : p2.busy = [] := g5.2
  have hidle : p2.idle = d.n := by simp [Pool.total, hb2, hbusy] at g2 htot; omega
  have hq2 : p2.queue = [] := by
    rcases g5.1 with h0 | h0
    · omega
    · exact h0
  have hans := answered_of_quiescent p2 g1 hq2 hb2
  have hlen : d.pool.tasks.length < p2.tasks.length := by rw [g4]; simp [submit]
  have hget : p2.tasks[d.pool.tasks.length]? = some p2.tasks[d.pool.tasks.length] := List.getElem?_eq_getElem hlen
  have hrep := hans _ (List.getElem_mem hlen)
  have hgood : Good { d with pool := p2 } := ⟨g1, by simpa using g2.trans htot, by simpa [hdead] using g3', hb2, hq2, hfa, hfs, hpo⟩
  simp only [callTask, hp2, hget]
  refine ⟨hgood, by trivial, ?_, ?_, ?_⟩ <;>
  · cases hr : p2.tasks[d.pool.tasks.length].reply with
    | none => rw [hr] at hrep; cases hrep
    | some r => cases r <;> simp

theorem drain_valinv (cfg : Cfg) (fuel : Nat) (p : Pool) (id : Nat) (h : ValInv p id) : ValInv (drain cfg fuel p) id := by
  induction fuel generalizing p with
  | zero => exact h
  | succ fuel ih =>
    unfold drain
    split
    · exact ih _ (await_valinv p id h)
    · split
      · exact ih _ (part_valinv cfg p 0 id h)
      · exact h

/-- a request none of whose bodies fails gets its value -/
theorem callTask_value (d : Db) (hn : 1 ≤ d.n) (h : Good d) (bodies : List Out) (hb : ∀ x ∈ bodies, x = .done) :
    (callTask .current d bodies .done).2 = .ok := by
  obtain ⟨hinv, htot, hdead, hbusy, hqueue, hfa, hfs, hpo⟩ := h
  have hinv1 := submit_inv d.pool bodies .done hinv
  obtain ⟨g1, g2, g3, g4, g5⟩ := drain_spec .current (measure (submit d.pool bodies .done)) (submit d.pool bodies .done) hinv1 (Nat.le_refl _)
  have hv := drain_valinv .current (measure (submit d.pool bodies .done)) _ _ (submit_new_valinv d.pool hinv.1 bodies hb)
  have g3' := g3 rfl
  rw [submit_total] at g2
  rw [submit_dead] at g3'
  generalize hp2 : drain .current (measure (submit d.pool bodies .done)) (submit d.pool bodies .done) = p2 at *
  have hb2 : p2.busy = [] := g5.2
  have hidle : p2.idle = d.n := by simp [Pool.total, hb2, hbusy] at g2 htot; omega
  have hq2 : p2.queue = [] := by
    rcases g5.1 with h0 | h0
    · omega
    · exact h0
  have hans := answered_of_quiescent p2 g1 hq2 hb2
  obtain ⟨t, ht, hrep⟩ := valinv_reply p2 _ hv
  have hsome := hans t (List.mem_of_getElem? ht)
  simp only [callTask, hp2, ht]
  rcases hrep with hrep | hrep
  · simp [hrep]
  · rw [hrep] at hsome; cases hsome

/-- what the theorem `C11_requests` asserts about one round -/
def RoundOk (n : Nat) (r : Req) (out : Ret) (o : Obs) : Prop :=
  out ≠ .hang ∧ out ≠ .panic ∧
  (out = .failed → ∃ k1 f1 k2 f2 tf, r = .flush k1 f1 k2 f2 tf ∧ (f1 ≠ 0 ∨ tf ≠ 0)) ∧
  (∀ b, r = .query b → (∀ x ∈ b, x = .done) → out = .ok) ∧
  o.workers = n ∧ o.flush = .ok ∧ o.canary = .ok

def RoundsOk (n : Nat) (d : Db) : List Req → Prop
  | [] => True
  | r :: rs => RoundOk n r (d.round .current r).2.1 (d.round .current r).2.2 ∧ RoundsOk n (d.round .current r).1 rs

theorem mem_jobs_fault (k f : Nat) (h : Out.fault ∈ jobs k f) : f ≠ 0 := by
  intro hf
  subst hf
  simp [jobs] at h

theorem flush_good (d : Db) (h : Good d) (k1 f1 k2 f2 tf : Nat) :
    Good (d.request .current (.flush k1 f1 k2 f2 tf)).1 ∧ (d.request .current (.flush k1 f1 k2 f2 tf)).1.n = d.n ∧
    (d.request .current (.flush k1 f1 k2 f2 tf)).2 ≠ .hang ∧ (d.request .current (.flush k1 f1 k2 f2 tf)).2 ≠ .panic ∧
    ((d.request .current (.flush k1 f1 k2 f2 tf)).2 = .failed → f1 ≠ 0 ∨ tf ≠ 0) ∧
    (f1 = 0 → tf = 0 → (d.request .current (.flush k1 f1 k2 f2 tf)).2 = .ok ∨ (d.request .current (.flush k1 f1 k2 f2 tf)).2 = .ok) := by
  obtain ⟨hinv, htot, hdead, hbusy, hqueue, hfa, hfs, hpo⟩ := h
  have hf := forceFlush_current d.fl ⟨hfa, hfs⟩ (jobs k1 f1) (if tf = 0 then .done else .fault) (jobs k2 f2)
  simp only [Db.request, hpo]
  rcases hff : forceFlush .current [] d.fl (jobs k1 f1) (if tf = 0 then Out.done else Out.fault) (jobs k2 f2) with ⟨fl, po, out⟩
  rw [hff] at hf
  simp only at hf
  obtain ⟨h1, h2, h3, h4, h5, h6⟩ := hf
  refine ⟨⟨hinv, htot, hdead, hbusy, hqueue, h1, h2, h3⟩, by trivial, ?_, ?_, ?_, ?_⟩
  · cases out <;> simp_all
  · cases out <;> simp_all
  · intro hfail
    have : out = .failed := by cases out <;> simp_all
    rcases h6 this with h | h
    · left; exact mem_jobs_fault _ _ h
    · right; intro h0; simp [h0] at h
  · intro hf1 htf
    left
    cases out with
    | ok => rfl
    | hang => simp at h4
    | panic => simp at h5
    | failed =>
      rcases h6 rfl with h | h
      · exact absurd hf1 (mem_jobs_fault _ _ h)
      · simp [htf] at h

theorem request_good (d : Db) (hn : 1 ≤ d.n) (h : Good d) (r : Req) (hr : r.CallerOk) :
    Good (d.request .current r).1 ∧ (d.request .current r).1.n = d.n ∧
    (d.request .current r).2 ≠ .hang ∧ (d.request .current r).2 ≠ .panic ∧
    ((d.request .current r).2 = .failed → ∃ k1 f1 k2 f2 tf, r = .flush k1 f1 k2 f2 tf ∧ (f1 ≠ 0 ∨ tf ≠ 0)) ∧
    (∀ b, r = .query b → (∀ x ∈ b, x = .done) → (d.request .current r).2 = .ok) := by
  have hpo : d.poisoned = [] := h.2.2.2.2.2.2.2
  cases r with
  | query bodies =>
    have := callTask_good d hn h bodies .done
    have hv := fun hb => callTask_value d hn h bodies hb
    simp only [Db.request, hpo]
    exact ⟨this.1, this.2.1, this.2.2.1, this.2.2.2.1, fun hf => absurd hf this.2.2.2.2,
      fun b hbq hb => by cases hbq; exact hv hb⟩
  | queryErr kind => exact ⟨h, rfl, by simp [Db.request], by simp [Db.request], by simp [Db.request], fun b hb => by cases hb⟩
  | natural parts m c =>
    have hc : c = 0 := hr
    have := callTask_good d hn h (jobs parts m) .done
    simp only [Db.request, hpo, hc]
    exact ⟨this.1, this.2.1, this.2.2.1, this.2.2.2.1, fun hf => absurd hf this.2.2.2.2, fun b hb => by cases hb⟩
  | queryPhase bodies final kind =>
    have := callTask_good d hn h bodies final
    simp only [Db.request, hpo]
    refine ⟨this.1, this.2.1, ?_, ?_, fun hf => ?_, fun b hb => by cases hb⟩
    · have h3 := this.2.2.1
      revert h3; cases (callTask .current d bodies final).2 <;> simp [Ret.retag] <;> (try split) <;> simp
    · have h3 := this.2.2.2.1
      revert h3; cases (callTask .current d bodies final).2 <;> simp [Ret.retag] <;> (try split) <;> simp
    · exfalso
      have h3 := this.2.2.2.2
      revert h3 hf; cases (callTask .current d bodies final).2 <;> simp [Ret.retag] <;> (try split) <;> simp
  | fnTask b =>
    have := callTask_good d hn h [b] .done
    simp only [Db.request]
    exact ⟨this.1, this.2.1, this.2.2.1, this.2.2.2.1, fun hf => absurd hf this.2.2.2.2, fun b hb => by cases hb⟩
  | stats =>
    have := callTask_good d hn h [.done] .done
    simp only [Db.request, hpo]
    exact ⟨this.1, this.2.1, this.2.2.1, this.2.2.2.1, fun hf => absurd hf this.2.2.2.2, fun b hb => by cases hb⟩
  | memTree =>
    have := callTask_good d hn h [.done] .done
    simp only [Db.request, hpo]
    exact ⟨this.1, this.2.1, this.2.2.1, this.2.2.2.1, fun hf => absurd hf this.2.2.2.2, fun b hb => by cases hb⟩
  | ingest => simp only [Db.request, hpo]; exact ⟨h, rfl, by simp, by simp, by simp, fun b hb => by cases hb⟩
  | flush k1 f1 k2 f2 tf =>
    have := flush_good d h k1 f1 k2 f2 tf
    exact ⟨this.1, this.2.1, this.2.2.1, this.2.2.2.1, fun hf => ⟨k1, f1, k2, f2, tf, rfl, this.2.2.2.2.1 hf⟩, fun b hb => by cases hb⟩
  | callerFault l => exact absurd hr (by simp [Req.CallerOk])

theorem round_good (d : Db) (hn : 1 ≤ d.n) (h : Good d) (r : Req) (hr : r.CallerOk) :
    Good (d.round .current r).1 ∧ (d.round .current r).1.n = d.n ∧
    RoundOk d.n r (d.round .current r).2.1 (d.round .current r).2.2 := by
  obtain ⟨g1, g2, g3, g4, g5, g6⟩ := request_good d hn h r hr
  have hw := good_workers g1
  have f := flush_good (d.request .current r).1 g1 1 0 0 0 0
  obtain ⟨f1, f2, f3, f4, f5, f6⟩ := f
  have c := callTask_good ((d.request .current r).1.request .current (.flush 1 0 0 0 0)).1 (by rw [f2, g2]; exact hn) f1 [.done] .done
  obtain ⟨c1, c2, c3, c4, c5⟩ := c
  have cv := callTask_value ((d.request .current r).1.request .current (.flush 1 0 0 0 0)).1 (by rw [f2, g2]; exact hn) f1 [.done] (by simp)
  have hflok : ((d.request .current r).1.request .current (.flush 1 0 0 0 0)).2 = .ok := by
    rcases f6 rfl rfl with h | h <;> exact h
  simp only [Db.round, Db.observe]
  refine ⟨c1, by rw [c2, f2, g2], g3, g4, g5, g6, by rw [hw, g2], hflok, cv⟩

theorem rounds_ok (n : Nat) (hn : 1 ≤ n) (rs : List Req) (d : Db) (h : Good d ∧ d.n = n) (hr : ∀ r ∈ rs, r.CallerOk) :
    RoundsOk n d rs := by
  induction rs generalizing d with
  | nil => trivial
  | cons r rs ih =>
    obtain ⟨hg, hdn⟩ := h
    have := round_good d (by omega) hg r (hr r (by simp))
    refine ⟨by rw [← hdn]; exact this.2.2, ih _ ⟨this.1, by rw [this.2.1, hdn]⟩ (fun x hx => hr x (by simp [hx]))⟩

theorem rounds_good (n : Nat) (hn : 1 ≤ n) (rs : List Req) (d : Db) (h : Good d ∧ d.n = n) (hr : ∀ r ∈ rs, r.CallerOk) :
    Good (Db.rounds .current d rs) := by
  induction rs generalizing d with
  | nil => exact h.1
  | cons r rs ih =>
    obtain ⟨hg, hdn⟩ := h
    have := round_good d (by omega) hg r (hr r (by simp))
    exact ih _ ⟨this.1, by rw [this.2.1, hdn]⟩ (fun x hx => hr x (by simp [hx]))

/-! ### poisoning alone (no assumption on the number of workers) -/

def Clean (d : Db) : Prop := d.poisoned = [] ∧ d.fl.alive = true ∧ d.fl.stuck = false

theorem callTask_clean (cfg : Cfg) (d : Db) (b : List Out) (f : Out) (h : Clean d) : Clean (callTask cfg d b f).1 := by
  simpa [callTask, Clean] using h

theorem request_clean (d : Db) (h : Clean d) (r : Req) (hr : r.CallerOk) : Clean (d.request .current r).1 := by
  obtain ⟨hpo, hfa, hfs⟩ := h
  cases r with
  | query bodies => simp only [Db.request, hpo]; exact callTask_clean _ _ _ _ ⟨hpo, hfa, hfs⟩
  | queryErr kind => exact ⟨hpo, hfa, hfs⟩
  | natural parts m c =>
    have hc : c = 0 := hr
    simp only [Db.request, hpo, hc]; exact callTask_clean _ _ _ _ ⟨hpo, hfa, hfs⟩
  | queryPhase bodies final kind => simp only [Db.request, hpo]; exact callTask_clean _ _ _ _ ⟨hpo, hfa, hfs⟩
  | fnTask b => exact callTask_clean _ _ _ _ ⟨hpo, hfa, hfs⟩
  | stats => exact callTask_clean _ _ _ _ ⟨hpo, hfa, hfs⟩
  | memTree => exact callTask_clean _ _ _ _ ⟨hpo, hfa, hfs⟩
  | ingest => simp only [Db.request, hpo]; exact ⟨hpo, hfa, hfs⟩
  | flush k1 f1 k2 f2 tf =>
    have hf := forceFlush_current d.fl ⟨hfa, hfs⟩ (jobs k1 f1) (if tf = 0 then .done else .fault) (jobs k2 f2)
    simp only [Db.request, hpo]
    rcases hff : forceFlush .current [] d.fl (jobs k1 f1) (if tf = 0 then Out.done else Out.fault) (jobs k2 f2) with ⟨fl, po, out⟩
    rw [hff] at hf
    exact ⟨hf.2.2.1, hf.1, hf.2.1⟩
  | callerFault l => exact absurd hr (by simp [Req.CallerOk])

theorem round_clean (d : Db) (h : Clean d) (r : Req) (hr : r.CallerOk) : Clean (d.round .current r).1 := by
  have h1 := request_clean d h r hr
  have h2 := request_clean _ h1 (.flush 1 0 0 0 0) (by simp [Req.CallerOk])
  exact callTask_clean _ _ _ _ h2

theorem rounds_clean (rs : List Req) (d : Db) (h : Clean d) (hr : ∀ r ∈ rs, r.CallerOk) :
    Clean (Db.rounds .current d rs) := by
  induction rs generalizing d with
  | nil => exact h
  | cons r rs ih => exact ih _ (round_clean d h r (hr r (by simp))) (fun x hx => hr x (by simp [hx]))

/-- the relation proved about every round is at least what the executable specification (`specRound`, used by the
    driver to judge the real database) demands -/
theorem roundOk_spec (n : Nat) (r : Req) (out : Ret) (o : Obs) (h : RoundOk n r out o) : specRound n r out o = none := by
  obtain ⟨h1, h2, h3, _, h5, h6, h7⟩ := h
  unfold specRound
  simp only [h1, h2, h5, h6, h7]
  by_cases hf : out = .failed
  · obtain ⟨k1, f1, k2, f2, tf, rfl, hft⟩ := h3 hf
    subst hf
    rcases hft with hft | hft <;> simp [hft]
  · simp [hf]

end LM.Sched
