import LocustModel.Conc.Sched
/-
  Helper lemmas for C11: thread accounting and the no-fault invariant of the worker pool model.
-/
namespace LM.Sched

/-- every worker thread that was ever started: idle, busy or dead -/
def Pool.total (p : Pool) : Nat := p.idle + p.busy.length + p.dead

theorem busy_lt {p : Pool} {i : Nat} {x : Nat × Nat} (h : p.busy[i]? = some x) : i < p.busy.length := by
  have := List.getElem?_eq_some_iff.mp h
  exact this.1

theorem finish_total (cfg : Cfg) (p : Pool) (i id : Nat) (t : Task) (f : Bool) (hi : i < p.busy.length) :
    (finish cfg p i id t f).total = p.total := by
  unfold finish Pool.total
  split <;> simp [List.length_eraseIdx, hi] <;> omega

theorem finish_dead (cfg : Cfg) (p : Pool) (i id : Nat) (t : Task) (f : Bool) :
    (finish cfg p i id t f).dead = if f && !cfg.catchTask then p.dead + 1 else p.dead := by
  unfold finish
  split <;> simp_all

theorem await_total (p : Pool) : (await p).total = p.total := by
  unfold await Pool.total
  split
  · rfl
  · split <;> simp <;> omega

theorem await_dead (p : Pool) : (await p).dead = p.dead := by
  unfold await
  split
  · rfl
  · split <;> simp

theorem submit_total (p : Pool) (b : List Out) (f : Out) : (submit p b f).total = p.total := by
  simp [submit, Pool.total]

theorem submit_dead (p : Pool) (b : List Out) (f : Out) : (submit p b f).dead = p.dead := by
  simp [submit]

theorem part_total (cfg : Cfg) (p : Pool) (i : Nat) : (part cfg p i).total = p.total := by
  unfold part
  split
  · rfl
  · rename_i id c hb
    have hi := busy_lt hb
    split
    · rfl
    · simp only []
      split
      · exact finish_total _ _ _ _ _ _ hi
      · split
        · exact finish_total _ _ _ _ _ _ hi
        · simp [Pool.total]
      · split
        · exact finish_total _ _ _ _ _ _ hi
        · split <;> exact finish_total _ _ _ _ _ _ hi
      · exact finish_total _ _ _ _ _ _ hi

theorem step_total (cfg : Cfg) (p : Pool) (a : Act) : (step cfg p a).total = p.total := by
  cases a <;> simp [step, submit_total, await_total, part_total]

theorem run_total (cfg : Cfg) (as : List Act) (p : Pool) : (run cfg p as).total = p.total := by
  induction as generalizing p with
  | nil => rfl
  | cons a as ih => simp [run, List.foldl] at *; rw [ih, step_total]

/-- with `catch_unwind` in `worker_loop` no step ends a worker thread -/
theorem part_dead_catch (cfg : Cfg) (h : cfg.catchTask = true) (p : Pool) (i : Nat) : (part cfg p i).dead = p.dead := by
  unfold part
  split
  · rfl
  · split
    · rfl
    · simp only []
      split
      · simp [finish_dead, h]
      · split
        · simp [finish_dead, h]
        · simp
      · split
        · simp [finish_dead, h]
        · split <;> simp [finish_dead, h]
      · simp [finish_dead, h]

theorem step_dead_catch (cfg : Cfg) (h : cfg.catchTask = true) (p : Pool) (a : Act) : (step cfg p a).dead = p.dead := by
  cases a <;> simp [step, submit_dead, await_dead, part_dead_catch, h]

theorem run_dead_catch (cfg : Cfg) (h : cfg.catchTask = true) (as : List Act) (p : Pool) : (run cfg p as).dead = p.dead := by
  induction as generalizing p with
  | nil => rfl
  | cons a as ih => simp [run, List.foldl] at *; rw [ih, step_dead_catch cfg h]

/-! ### tasks that never fault (the hypothesis under which the old code kept its workers) -/

def TasksNoFault (ts : List Task) : Prop := ∀ t ∈ ts, t.NoFault

theorem tasksNoFault_set {ts : List Task} {id : Nat} {t : Task} (h : TasksNoFault ts) (ht : t.NoFault) :
    TasksNoFault (setTask ts id t) := by
  intro x hx
  rcases List.mem_or_eq_of_mem_set hx with hx | rfl
  · exact h x hx
  · exact ht

theorem orphan_nofault {t : Task} (h : t.NoFault) : t.orphan.NoFault := by
  simpa [Task.NoFault, Task.orphan] using h

theorem tasksNoFault_release {ts : List Task} (b q : List (Nat × Nat)) (id : Nat) (h : TasksNoFault ts) :
    TasksNoFault (release ts b q id) := by
  unfold release
  split
  · exact h
  · split
    · exact h
    · rename_i t ht
      exact tasksNoFault_set h (orphan_nofault (h t (List.mem_of_getElem? ht)))

theorem popLoop_nofault (busy : List (Nat × Nat)) (ts : List Task) (q : List (Nat × Nat)) (h : TasksNoFault ts) :
    TasksNoFault (popLoop busy ts q).2.2 := by
  fun_induction popLoop busy ts q with
  | case1 ts => exact h
  | case2 ts id par q hn ih => exact ih h
  | case3 ts id par q t ht hc ih => exact ih (tasksNoFault_release busy q id h)
  | case4 ts id par q t ht hc hp => exact h
  | case5 ts id par q t ht hc hp => exact h

theorem await_nofault (p : Pool) (h : TasksNoFault p.tasks) : TasksNoFault (await p).tasks := by
  unfold await
  split
  · exact h
  · have := popLoop_nofault p.busy p.tasks p.queue h
    split <;> rename_i heq <;> simp [heq] at this <;> exact this

theorem finish_tasks (cfg : Cfg) (p : Pool) (i id : Nat) (t : Task) (f : Bool) :
    (finish cfg p i id t f).tasks = release (setTask p.tasks id t) (p.busy.eraseIdx i) p.queue id := by
  unfold finish; split <;> rfl

theorem finish_nofault (cfg : Cfg) (p : Pool) (i id : Nat) (t : Task) (f : Bool) (h : TasksNoFault p.tasks) (ht : t.NoFault) :
    TasksNoFault (finish cfg p i id t f).tasks := by
  rw [finish_tasks]
  exact tasksNoFault_release _ _ _ (tasksNoFault_set h ht)

theorem pushResults_nofault (t : Task) (c : Nat) (h : t.NoFault) :
    (pushResults t c).1.NoFault ∧ (pushResults t c).2 = false := by
  obtain ⟨hb, hf, hp⟩ := h
  unfold pushResults
  split
  · exact ⟨⟨hb, hf, hp⟩, hp⟩
  · split
    · rename_i h1; rw [hp] at h1; cases h1
    · split
      · exact ⟨⟨hb, hf, hp⟩, rfl⟩
      · simp only []
        split
        · split
          · exact ⟨⟨hb, hf, hp⟩, rfl⟩
          · exact ⟨⟨hb, hf, hp⟩, rfl⟩
          · rename_i h1; exact absurd h1 hf
        · exact ⟨⟨hb, hf, hp⟩, rfl⟩

theorem part_nofault (cfg : Cfg) (p : Pool) (i : Nat) (h : TasksNoFault p.tasks) :
    (part cfg p i).dead = p.dead ∧ TasksNoFault (part cfg p i).tasks := by
  unfold part
  split
  · exact ⟨rfl, h⟩
  · rename_i id c hbi
    split
    · exact ⟨rfl, h⟩
    · rename_i t0 ht0
      have hnf : t0.NoFault := h t0 (List.mem_of_getElem? ht0)
      have hnf1 : ({ t0 with next := t0.next + 1 } : Task).NoFault := hnf
      simp only []
      split
      · have := pushResults_nofault { t0 with next := t0.next + 1 } c hnf1
        refine ⟨?_, finish_nofault _ _ _ _ _ _ h this.1⟩
        rw [finish_dead, this.2]; simp
      · split
        · exact ⟨by simp [finish_dead], finish_nofault _ _ _ _ _ _ h hnf1⟩
        · exact ⟨rfl, tasksNoFault_set h hnf1⟩
      · split
        · rename_i hp; rw [hnf.2.2] at hp; cases hp
        · split
          · exact ⟨by simp [finish_dead], finish_nofault _ _ _ _ _ _ h hnf1⟩
          · refine ⟨by simp [finish_dead], finish_nofault _ _ _ _ _ _ h ?_⟩
            simpa [Task.NoFault, Task.send] using hnf
      · rename_i hk
        have := hnf.1 _ (List.mem_of_getElem? hk)
        exact absurd rfl this

theorem step_nofault (cfg : Cfg) (p : Pool) (a : Act) (h : TasksNoFault p.tasks) (ha : a.NoFault) :
    (step cfg p a).dead = p.dead ∧ TasksNoFault (step cfg p a).tasks := by
  cases a with
  | submit b f =>
    refine ⟨submit_dead p b f, ?_⟩
    intro t ht
    simp [step, submit] at ht
    rcases ht with ht | rfl
    · exact h t ht
    · exact ⟨ha.1, ha.2, rfl⟩
  | await => exact ⟨await_dead p, await_nofault p h⟩
  | part i => exact part_nofault cfg p i h

theorem run_dead_nofault (cfg : Cfg) (as : List Act) (p : Pool) (h : TasksNoFault p.tasks) (ha : ∀ a ∈ as, a.NoFault) :
    (run cfg p as).dead = p.dead := by
  induction as generalizing p with
  | nil => rfl
  | cons a as ih =>
    have hs := step_nofault cfg p a h (ha a (by simp))
    have := ih (step cfg p a) hs.2 (fun x hx => ha x (by simp [hx]))
    simp [run, List.foldl] at *
    rw [this, hs.1]

/-! ### a pool without workers -/

theorem step_dead_pool (cfg : Cfg) (p : Pool) (a : Act) (hi : p.idle = 0) (hb : p.busy = []) :
    (step cfg p a).idle = 0 ∧ (step cfg p a).busy = [] ∧
    ∀ (id : Nat) (t : Task), p.tasks[id]? = some t → (step cfg p a).tasks[id]? = some t := by
  cases a with
  | submit b f =>
    refine ⟨by simp [step, submit, hi], by simp [step, submit, hb], ?_⟩
    intro id t ht
    have hid : id < p.tasks.length := (List.getElem?_eq_some_iff.mp ht).1
    simp [step, submit, List.getElem?_append_left hid, ht]
  | await => simp [step, await, hi, hb]
  | part i => simp [step, part, hb, hi]

theorem run_dead_pool (cfg : Cfg) (as : List Act) (p : Pool) (hi : p.idle = 0) (hb : p.busy = []) :
    (run cfg p as).idle = 0 ∧ (run cfg p as).busy = [] ∧
    ∀ (id : Nat) (t : Task), p.tasks[id]? = some t → (run cfg p as).tasks[id]? = some t := by
  induction as generalizing p with
  | nil => exact ⟨hi, hb, fun _ _ h => h⟩
  | cons a as ih =>
    obtain ⟨h1, h2, h3⟩ := step_dead_pool cfg p a hi hb
    obtain ⟨g1, g2, g3⟩ := ih (step cfg p a) h1 h2
    exact ⟨g1, g2, fun id t ht => g3 id t (h3 id t ht)⟩

end LM.Sched
