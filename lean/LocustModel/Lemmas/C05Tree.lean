import LocustModel.Lemmas.C05Stable
/-
  C05: lifting the two-way limited merge to any merge tree, the final slice, the plain (no ORDER BY) path.
-/
namespace LM.OrderSpec
open LM LM.Order

variable {β : Type}

/-- `res` is the first `k ≥ N` rows of some sorted arrangement of `A`
    (what every partial result is, with `N` the combined limit). -/
def PrefixOf (le : β → β → Bool) (N : Nat) (A res : List β) : Prop :=
  ∃ (s : List β) (k : Nat), N ≤ k ∧ s.Perm A ∧ Sorted le s ∧ res = s.take k

theorem prefixOf_isort {le : β → β → Bool} (h : TotalPre le) (N : Nat) (A : List β) :
    PrefixOf le N A (isort le A) :=
  ⟨isort le A, N + (isort le A).length, by omega, isort_perm le A, isort_sorted h A,
   (List.take_of_length_le (by omega)).symm⟩

theorem prefixOf_merge {le : β → β → Bool} (h : TotalPre le) (N : Nat) {A B a b : List β}
    (ha : PrefixOf le N A a) (hb : PrefixOf le N B b) :
    PrefixOf le N (A ++ B) ((mergeAll le a b).take N) := by
  obtain ⟨sa, ka, hka, hpa, hsa, rfl⟩ := ha
  obtain ⟨sb, kb, hkb, hpb, hsb, rfl⟩ := hb
  refine ⟨mergeAll le sa sb, N, Nat.le_refl _, ?_, mergeAll_sorted h sa sb hsa hsb, ?_⟩
  · exact (mergeAll_perm le sa sb).trans (List.Perm.append hpa hpb)
  · exact take_mergeAll_take le N sa sb ka kb hka hkb

theorem lexOf_single (c : β → β → Bool) : lexOf [c] = c := by
  funext a b; simp only [lexOf]; cases c a b <;> cases c b a <;> simp

theorem combineSorted1_eq (le : β → β → Bool) (l r : List β) (n : Nat) :
    combineSorted1 le l r n = some ((mergeAll le l r).take n) := by
  unfold combineSorted1
  rw [mergeKeep_merge, merge_fst_eq_take]

/-- Any bracketing of the pairwise combination yields the first `N` rows of a sorted arrangement of
    all rows — provided every leaf does and the combination step is the limited stable merge. -/
theorem evalTree_prefix (usort : USort) (cmps : List (β → β → Bool)) (constant : Bool) (N M : Nat)
    (hne : cmps ≠ []) (hle : TotalPre (lexOf cmps))
    (hleaf : ∀ partLen rows, PrefixOf (lexOf cmps) N rows (partRun usort cmps constant N partLen rows))
    (hcomb : ∀ a b, Sorted (lexOf cmps) a → Sorted (lexOf cmps) b → a.length + b.length ≤ M →
      combineSorted cmps a b N = some ((mergeAll (lexOf cmps) a b).take N)) :
    ∀ t : PTree β, t.rows.length ≤ M →
      ∃ res, evalTree usort cmps constant N t = some res ∧ PrefixOf (lexOf cmps) N t.rows res
  | .leaf partLen rows, _ => ⟨_, rfl, hleaf partLen rows⟩
  | .node l r, hM => by
    simp only [PTree.rows, List.length_append] at hM
    obtain ⟨a, ha, hpa⟩ := evalTree_prefix usort cmps constant N M hne hle hleaf hcomb l (by omega)
    obtain ⟨b, hb, hpb⟩ := evalTree_prefix usort cmps constant N M hne hle hleaf hcomb r (by omega)
    refine ⟨(mergeAll (lexOf cmps) a b).take N, ?_, prefixOf_merge hle N hpa hpb⟩
    have hemp : cmps.isEmpty = false := by cases cmps <;> simp_all
    have hsa : Sorted (lexOf cmps) a := by
      obtain ⟨s, k, _, _, hs, rfl⟩ := hpa; exact Sorted.sublist (List.take_sublist _ _) hs
    have hsb : Sorted (lexOf cmps) b := by
      obtain ⟨s, k, _, _, hs, rfl⟩ := hpb; exact Sorted.sublist (List.take_sublist _ _) hs
    have hla : a.length ≤ l.rows.length := by
      obtain ⟨s, k, _, hp, _, rfl⟩ := hpa; rw [← hp.length_eq, List.length_take]; omega
    have hlb : b.length ≤ r.rows.length := by
      obtain ⟨s, k, _, hp, _, rfl⟩ := hpb; rw [← hp.length_eq, List.length_take]; omega
    simp [evalTree, ha, hb, hemp, hcomb a b hsa hsb (by omega)]

/-! ### final slice -/

/-- `convert_to_output_format` (after the fix) is total and returns rows offset+1 .. offset+limit. -/
theorem slice_eq (full : List β) (limit offset : Nat) : slice full limit offset = (full.drop offset).take limit := by
  unfold slice
  by_cases h : offset ≤ full.length
  · have h1 : min offset full.length = offset := by omega
    simp only [h1]
    rw [List.take_eq_take_iff]
    simp [List.length_drop]
  · have h1 : min offset full.length = full.length := by omega
    simp only [h1]
    rw [List.drop_of_length_le (l := full) (i := offset) (by omega), List.drop_of_length_le (Nat.le_refl _)]
    simp

theorem slice_length (full : List β) (limit offset : Nat) :
    (slice full limit offset).length = min limit (full.length - offset) := by
  rw [slice_eq, List.length_take, List.length_drop]

theorem take_drop_take (s : List β) (limit offset k : Nat) (hk : limit + offset ≤ k ∨ s.length ≤ k) :
    ((s.take k).drop offset).take limit = (s.drop offset).take limit := by
  rcases hk with hk | hk
  · rw [List.drop_take, List.take_take]
    congr 1; omega
  · rw [List.take_of_length_le hk]

theorem prefixOf_slice {le : β → β → Bool} (limit offset : Nat) {A full : List β}
    (hA : A.length ≤ U64_MAX) (hp : PrefixOf le (combinedLimit limit offset) A full) :
    OrderSpec le A (slice full limit offset) limit offset := by
  obtain ⟨s, k, hk, hperm, hsorted, rfl⟩ := hp
  refine ⟨s, hperm, hsorted, ?_⟩
  rw [slice_eq]
  apply take_drop_take
  unfold combinedLimit at hk
  have := hperm.length_eq
  by_cases h : limit + offset ≤ U64_MAX
  · left; omega
  · right; omega

/-! ### no ORDER BY -/

theorem combinePlain_take (N : Nat) (A B : List β) (ka kb : Nat) (hka : N ≤ ka) (hkb : N ≤ kb) :
    ∃ k, N ≤ k ∧ combinePlain (A.take ka) (B.take kb) N = (A ++ B).take k := by
  unfold combinePlain
  by_cases h : (A.take ka).length ≥ N
  · rw [if_pos h]
    refine ⟨(A.take ka).length, h, ?_⟩
    rw [List.take_append_of_le_length (by simp [List.length_take]; omega)]
    rw [List.length_take]
    exact (List.take_eq_take_iff.mpr (by omega))
  · rw [if_neg h]
    have hlen : A.length < N := by simp [List.length_take] at h; omega
    have hA : A.take ka = A := List.take_of_length_le (by omega)
    refine ⟨N, Nat.le_refl _, ?_⟩
    rw [hA, List.take_take, List.take_append]
    have : A.take N = A := List.take_of_length_le (by omega)
    rw [this]
    congr 2; omega

theorem evalTree_plain (usort : USort) (constant : Bool) (N : Nat) :
    ∀ t : PTree β, ∃ k, N ≤ k ∧ evalTree usort ([] : List (β → β → Bool)) constant N t = some (t.rows.take k)
  | .leaf partLen rows => ⟨N + rows.length, by omega, by
      simp only [evalTree, partRun, PTree.rows]
      rw [List.take_of_length_le (by omega)]⟩
  | .node l r => by
    obtain ⟨ka, hka, ha⟩ := evalTree_plain usort constant N l
    obtain ⟨kb, hkb, hb⟩ := evalTree_plain usort constant N r
    obtain ⟨k, hk, he⟩ := combinePlain_take N l.rows r.rows ka kb hka hkb
    exact ⟨k, hk, by simp [evalTree, ha, hb, he, PTree.rows]⟩

end LM.OrderSpec
