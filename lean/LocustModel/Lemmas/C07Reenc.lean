import LocustModel.Lemmas.C07Machine
/-
  C07 helper lemmas: the REAL column rebuild of `InnerLocustDB::compact` (`C07M.reencOf env`: stored image →
  free `decode` → `push_*` → `finalize` → what a query reads) is the identity on cells.
-/
namespace LM.C07M
open LM LM.Codec LM.D2 LM.Rebuild

theorem typedK_ne {k : Kind} (h : TypedK k) : k ≠ .empty ∧ k ≠ .other := by
  rcases h with h | h | h <;> subst h <;> exact ⟨by decide, by decide⟩

/-- what the free `decode` returns for the image of one merged partition -/
theorem decode2_imageOf (env : Env) (hb : BuildOk env) (k : Kind) (hk : TypedK k) (x : Nat × Option (List Cell))
    (hlen : ∀ cs, x.2 = some cs → cs.length = x.1) (hu : ∀ cs, x.2 = some cs → Uniform k cs) :
    ∃ v, decode2 env.dec (imageOf env x) = .ok v ∧ cellsOf v = orNulls x.1 x.2 ∧
      (valKind v = none ∨ valKind v = some k) ∧ (cellsOf v).length = x.1 := by
  obtain ⟨len, o⟩ := x
  cases o with
  | none =>
    refine ⟨⟨.null len, none⟩, ?_, ?_, Or.inl rfl, ?_⟩
    · exact decode2_img (.plain (.null len len))
    · simp [cellsOf, dataCells, orNulls]
    · simp [cellsOf, dataCells]
  | some cs =>
    obtain ⟨v, himg, hcells, hkind⟩ := hb k cs hk (hu cs rfl)
    refine ⟨v, decode2_img himg, by simpa [orNulls] using hcells, hkind, ?_⟩
    rw [hcells]; exact hlen cs rfl

theorem pushParts_spec (env : Env) (hb : BuildOk env) (k : Kind) (hk : TypedK k) (xs : ReencIn) :
    ∀ (b : Buf), WF b → (b.kind = .empty ∨ b.kind = k) → LenOk xs →
      (∀ x ∈ xs, ∀ cs, x.2 = some cs → Uniform k cs) →
    ∃ b', pushParts env b xs = .ok b' ∧ WF b' ∧ b'.length = b.length + (xs.map (·.1)).sum ∧
      b'.cells = b.cells ++ xs.flatMap (fun x => orNulls x.1 x.2) ∧ (b'.kind = .empty ∨ b'.kind = k) := by
  obtain ⟨hk1, hk2⟩ := typedK_ne hk
  induction xs with
  | nil => intro b hwf hbk _ _; exact ⟨b, rfl, hwf, by simp, by simp, hbk⟩
  | cons x xs ih =>
    intro b hwf hbk hlen hu
    obtain ⟨v, hd, hc, hvk, hl⟩ := decode2_imageOf env hb k hk x (fun cs h => hlen x (by simp) cs h)
      (fun cs h => hu x (by simp) cs h)
    obtain ⟨b1, h1, h2, h3, h4, h5⟩ := pushDecoded_spec k hk1 hk2 b hwf hbk v hvk
    obtain ⟨b', g1, g2, g3, g4, g5⟩ := ih b1 h2 h5 (fun y hy => hlen y (by simp [hy])) (fun y hy => hu y (by simp [hy]))
    refine ⟨b', by simp [pushParts, hd, h1, g1], g2, ?_, ?_, g5⟩
    · rw [g3, h3, hl]; simp; omega
    · rw [g4, h4, hc]; simp

/-- **the rebuild is the identity on cells**: for every list of merged partitions (any number, any lengths, column
    present / absent / all-NULL in any of them) whose cells are single-typed, the rebuilt column reads as the
    concatenation, NULLs preserved. -/
theorem reencOf_reId (env : Env) (hb : BuildOk env) : ReId (reencOf env) := by
  intro xs hlen ⟨k, hk, hu⟩
  obtain ⟨b, h1, _, h3, h4, _⟩ := pushParts_spec env hb k hk xs {} wf_default (Or.inl rfl) hlen hu
  have hcells : b.cells = xs.flatMap (fun x => orNulls x.1 x.2) := by
    rw [h4]; simp [Buf.cells]
  have hun : Uniform k b.cells := by
    rw [hcells]
    apply uniform_flatMap
    intro x hx
    exact uniform_orNulls x.1 x.2 (fun cs hcs => hu x hx cs hcs)
  obtain ⟨v, himg, hv, _⟩ := hb k b.cells hk hun
  have hlen' : b.length = (xs.map (·.1)).sum := by rw [h3]; simp
  have hq := decodeQ_img himg
  rw [hcells] at hq hv
  simp only [reencOf, h1, hlen', if_true, colCells, hcells, hq, hv, idReenc]

end LM.C07M
