import LocustModel.Lemmas.C09Reach
/-
  C09: a concrete history used by the non-vacuity `example`s of Thm/C09.lean — three ingestions (the second into two
  tables), two flushes, then a flush that compacts; the sequential schedule; a crash prefix inside the compaction's store.
-/
namespace LM.Crash

def exPhases (m : Mem) (op : Op) : List Phase := match op.plan m with | some (p, _, _) => p | none => []
def exMem (m : Mem) (op : Op) : Mem := match op.plan m with | some (_, m', _) => m' | none => m
def exNew (m : Mem) (op : Op) : List Req := match op.plan m with | some (_, _, n) => n | none => []
/-- the sequential schedule of the operation -/
def exTrace (m : Mem) (op : Op) : List Eff := (exPhases m op).flatMap (fun ph => ph.tasks.flatMap (·.effs))

/-- every operation of the list is accepted by its plan -/
def exOk : Mem → List Op → Bool
  | _, [] => true
  | m, op :: ops => (op.plan m).isSome && exOk (exMem m op) ops

def exLog : Mem → List Op → List Req → List Req
  | _, [], log => log
  | m, op :: ops, log => exLog (exMem m op) ops (log ++ exNew m op)

theorem ex_plan {m : Mem} {op : Op} (h : (op.plan m).isSome = true) :
    op.plan m = some (exPhases m op, exMem m op, exNew m op) := by
  simp only [exPhases, exMem, exNew]
  cases hp : op.plan m with
  | none => simp [hp] at h
  | some x => rfl

theorem ex_trace {m : Mem} {op : Op} : PhasesTrace (exPhases m op) (exTrace m op) := PhasesTrace.seq _

/-- Running a list of accepted operations to completion (sequential schedule, no crash) is a history. -/
theorem ex_reach : ∀ (ops : List Op) {fs : FS} {m : Mem} {log : List Req}, Reach ⟨fs, some m, log⟩ → exOk m ops = true →
    ∃ fs', Reach ⟨fs', some (ops.foldl exMem m), exLog m ops log⟩
  | [], fs, _, _, h, _ => ⟨fs, h⟩
  | op :: ops, _, _, _, h, hok => by
      simp only [exOk, Bool.and_eq_true] at hok
      exact ex_reach ops (Reach.done h (ex_plan hok.1) ex_trace) hok.2

/-- Opening the empty directory. -/
theorem ex_open : ∃ fs, Reach ⟨fs, some Mem.fresh, []⟩ := by
  obtain ⟨dels, hr, _⟩ := Dur.init.recover listing_empty
  exact ⟨_, Reach.opened Reach.init listing_empty hr (PoolTrace.seq _)⟩

def exOps : List Op :=
  [.ingest ⟨[⟨"t", ["1", "2"]⟩]⟩, .flush [], .ingest ⟨[⟨"t", ["3"]⟩, ⟨"u", ["4"]⟩]⟩, .flush [], .ingest ⟨[⟨"t", ["5"]⟩]⟩]

/-- the flush that merges all partitions of `t` (ids 0, 1 and the one it creates itself, 2) into partition 3 -/
def exLast : Op := .flush [("t", [0, 1, 2])]
/-- an ingestion into two tables -/
def exLastIngest : Op := .ingest ⟨[⟨"t", ["6"]⟩, ⟨"u", ["7", "8"]⟩]⟩

def exMemAfter : Mem := exOps.foldl exMem Mem.fresh
def exLogAfter : List Req := exLog Mem.fresh exOps []

theorem ex_history : ∃ fs, Reach ⟨fs, some exMemAfter, exLogAfter⟩ := by
  obtain ⟨fs0, h0⟩ := ex_open
  exact ex_reach exOps h0 (by decide)

end LM.Crash
