import LocustModel.Query.Group
/-
  C04 helper lemmas: exact bit widths and the bit-packed composite grouping key
  (query_plan.rs try_bitpacking / BitShiftLeftAdd / BitUnpackOperator).
-/
namespace LM.C04L
open LM LM.Group

theorem lt_two_pow_bitLen (fuel n : Nat) (h : n < 2 ^ fuel) : n < 2 ^ bitLen fuel n := by
  induction fuel generalizing n with
  | zero => simp at h; subst h; simp [bitLen]
  | succ f ih =>
    unfold bitLen
    by_cases hn : n = 0
    · simp [hn]
    · simp only [hn, if_false]
      have : n / 2 < 2 ^ f := by
        have : 2 ^ (f+1) = 2 * 2 ^ f := by rw [Nat.pow_succ]; omega
        omega
      have := ih (n / 2) this
      have h2 : 2 ^ (1 + bitLen f (n / 2)) = 2 * 2 ^ bitLen f (n / 2) := by
        rw [Nat.add_comm, Nat.pow_succ]; omega
      omega

/-- `bits(max)` bits hold every value of 0..=max (for any i64 `max`). -/
theorem lt_two_pow_bits (m v : Int) (hv0 : 0 ≤ v) (hvm : v ≤ m) (hm : m ≤ I64_MAX) : v < 2 ^ bits m := by
  unfold bits
  by_cases h : m ≤ 0
  · simp [h]; omega
  · simp only [h, if_false]
    have hm' : m.toNat < 2 ^ 64 := by unfold I64_MAX at hm; omega
    have := lt_two_pow_bitLen 64 m.toNat hm'
    have h3 : (v.toNat : Int) = v := Int.toNat_of_nonneg hv0
    have h4 : v.toNat ≤ m.toNat := by omega
    have h5 : v.toNat < 2 ^ bitLen 64 m.toNat := by omega
    have : ((v.toNat : Nat) : Int) < ((2 ^ bitLen 64 m.toNat : Nat) : Int) := by exact_mod_cast h5
    rw [h3] at this
    simpa using this

/-- nested form of a packed key: (width, value) from the least significant column -/
def nest : List (Nat × Int) → Int
  | [] => 0
  | (w, v) :: rest => v + nest rest * 2 ^ w

/-- the shifts of the planned columns are the running sums of the widths -/
def Consec : Nat → List PackCol → Prop
  | _, [] => True
  | s, c :: cs => c.shift = s ∧ Consec (s + c.width) cs

def wv : List PackCol → List Int → List (Nat × Int)
  | c :: cs, v :: vs => (c.width, v) :: wv cs vs
  | _, _ => []

theorem packKey_eq (cols : List PackCol) (vals : List Int) (s : Nat) (acc : Int) (h : Consec s cols) :
    packKey cols vals acc = acc + nest (wv cols vals) * 2 ^ s := by
  induction cols generalizing vals s acc with
  | nil => simp [packKey, wv, nest]
  | cons c cs ih =>
    cases vals with
    | nil => simp [packKey, wv, nest]
    | cons v vs =>
      obtain ⟨h1, h2⟩ := h
      simp only [packKey, wv, nest]
      rw [ih vs (s + c.width) _ h2, h1, Int.pow_add]
      grind

theorem planPack_consec (metas : List (Option (Int × Int) × Bool)) (t : Nat) (cols : List PackCol)
    (h : planPack metas t = some cols) : Consec t cols ∧ ∀ c ∈ cols, c.width = bits c.adjustedMax := by
  induction metas generalizing t cols with
  | nil => simp [planPack] at h; subst h; simp [Consec]
  | cons m ms ih =>
    obtain ⟨range, nullable⟩ := m
    simp only [planPack] at h
    split at h
    · simp at h
    · rename_i mn so no am hc
      split at h
      · simp at h
      · split at h
        · simp at h
        · rename_i cols' hp
          simp at h
          subst h
          have := ih _ _ hp
          simp [Consec, this.1]
          exact this.2

/-- values fit their columns -/
def Fits : List PackCol → List Int → Prop
  | c :: cs, v :: vs => (0 ≤ v ∧ v < 2 ^ c.width) ∧ Fits cs vs
  | [], [] => True
  | _, _ => False

theorem nest_nonneg (cols : List PackCol) (vals : List Int) (h : Fits cols vals) : 0 ≤ nest (wv cols vals) := by
  induction cols generalizing vals with
  | nil => cases vals <;> simp [wv, nest]
  | cons c cs ih =>
    cases vals with
    | nil => simp [wv, nest]
    | cons v vs =>
      obtain ⟨⟨h0, _⟩, h2⟩ := h
      have := ih vs h2
      have hp : (0:Int) < 2 ^ c.width := Int.pow_pos (by omega)
      simp only [wv, nest]
      have : 0 ≤ nest (wv cs vs) * 2 ^ c.width := Int.mul_nonneg this (by omega)
      omega

theorem unpack_all (cols : List PackCol) (vals : List Int) (s : Nat) (X : Int)
    (hc : Consec s cols) (hf : Fits cols vals) (hX0 : 0 ≤ X) (hX : X < 2 ^ s) :
    cols.map (fun c => bitUnpack1 c.shift c.width (X + nest (wv cols vals) * 2 ^ s)) = vals := by
  induction cols generalizing vals s X with
  | nil => cases vals <;> simp_all [Fits]
  | cons c cs ih =>
    cases vals with
    | nil => simp [Fits] at hf
    | cons v vs =>
      obtain ⟨hs, hc'⟩ := hc
      obtain ⟨⟨hv0, hv⟩, hf'⟩ := hf
      have hps : (0:Int) < 2 ^ s := Int.pow_pos (by omega)
      have hpw : (0:Int) < 2 ^ c.width := Int.pow_pos (by omega)
      simp only [List.map_cons, wv, nest]
      have hdiv : (X + (v + nest (wv cs vs) * 2 ^ c.width) * 2 ^ s) / 2 ^ s = v + nest (wv cs vs) * 2 ^ c.width := by
        rw [Int.add_mul_ediv_right _ _ (by omega), Int.ediv_eq_zero_of_lt hX0 hX]; simp
      have hhead : bitUnpack1 c.shift c.width (X + (v + nest (wv cs vs) * 2 ^ c.width) * 2 ^ s) = v := by
        unfold bitUnpack1
        rw [hs, hdiv]
        simp
        exact Int.emod_eq_of_lt hv0 hv
      have hre : X + (v + nest (wv cs vs) * 2 ^ c.width) * 2 ^ s
          = (X + v * 2 ^ s) + nest (wv cs vs) * 2 ^ (s + c.width) := by
        rw [Int.pow_add]; grind
      have hX'0 : 0 ≤ X + v * 2 ^ s := by
        have : 0 ≤ v * 2 ^ s := Int.mul_nonneg hv0 (by omega)
        omega
      have hX' : X + v * 2 ^ s < 2 ^ (s + c.width) := by
        have h1 : v * 2 ^ s ≤ (2 ^ c.width - 1) * 2 ^ s := Int.mul_le_mul_of_nonneg_right (by omega) (by omega)
        have h2 : ((2:Int) ^ c.width - 1) * (2:Int) ^ s = (2:Int) ^ (s + c.width) - (2:Int) ^ s := by
          rw [Int.pow_add]; grind
        omega
      rw [hhead, hre, ih vs (s + c.width) (X + v * 2 ^ s) hc' hf' hX'0 hX']

/-- every value lies in the range the planner derived for its column -/
def WithinMax : List PackCol → List Int → Prop
  | c :: cs, v :: vs => (0 ≤ v ∧ v ≤ c.adjustedMax) ∧ WithinMax cs vs
  | [], [] => True
  | _, _ => False

theorem fits_of_withinMax (cols : List PackCol) (vals : List Int) (h : WithinMax cols vals)
    (hw : ∀ c ∈ cols, c.width = bits c.adjustedMax) (hm : ∀ c ∈ cols, c.adjustedMax ≤ I64_MAX) : Fits cols vals := by
  induction cols generalizing vals with
  | nil => cases vals <;> simp_all [WithinMax, Fits]
  | cons c cs ih =>
    cases vals with
    | nil => simp [WithinMax] at h
    | cons v vs =>
      obtain ⟨⟨h0, h1⟩, h2⟩ := h
      refine ⟨⟨h0, ?_⟩, ih vs h2 (fun c' hc' => hw c' (by simp [hc'])) (fun c' hc' => hm c' (by simp [hc']))⟩
      rw [hw c (by simp)]
      exact lt_two_pow_bits _ _ h0 h1 (hm c (by simp))

/-- FuseIntNulls then UnfuseIntNulls is the identity when every shifted value is positive (NULL ↦ 0 is free). -/
theorem fuse_unfuse (off : Int) (xs : List (Option Int))
    (h : ∀ v, some v ∈ xs → 1 ≤ v + off ∧ inI64 (v + off) ∧ inI64 v) :
    ∃ ys, fuseIntNulls off xs = .ok ys ∧ unfuseIntNulls off ys = .ok xs := by
  induction xs with
  | nil => exact ⟨[], rfl, rfl⟩
  | cons x t ih =>
    obtain ⟨ys, h1, h2⟩ := ih (fun v hv => h v (by simp [hv]))
    cases x with
    | none =>
      refine ⟨0 :: ys, by simp [fuseIntNulls, h1, Except.map], by simp [unfuseIntNulls, h2, Except.map]⟩
    | some v =>
      obtain ⟨hpos, hin, hv⟩ := h v (by simp)
      refine ⟨(v + off) :: ys, ?_, ?_⟩
      · simp [fuseIntNulls, addI64, hin, h1, bind, Except.bind, pure, Except.pure]
      · have hne : ¬ v + off = 0 := by omega
        simp [unfuseIntNulls, hne, subI64, hv, h2, bind, Except.bind, pure, Except.pure]

end LM.C04L
