import LocustModel.Query.Filter
import LocustModel.Lemmas.C03Order
import LocustModel.Lemmas.C03Cmp
/-
  Helper lemmas for `C03_where`: the invariant that ties a compiled plan node of the implementation model to the
  specification's row-at-a-time evaluation, and its preservation by NOT / AND / OR / IS NULL / comparison nodes.
-/
namespace LM.C03W
open LM LM.Sql LM.Filter LM.C03L

/-! ### list helpers -/

theorem zipWith_map_map {α β γ δ : Type} (f : β → γ → δ) (g : α → β) (h : α → γ) (l : List α) :
    List.zipWith f (l.map g) (l.map h) = l.map (fun x => f (g x) (h x)) := by
  induction l with
  | nil => rfl
  | cons x xs ih => simp [ih]

theorem replicate_length_eq_map {α β : Type} (l : List α) (c : β) : List.replicate l.length c = l.map (fun _ => c) := by
  induction l with
  | nil => rfl
  | cons x xs ih => simp [List.replicate_succ, ih]

/-! ### the invariant -/

/-- The specification's value of `e` on row `r` is a truth value (TRUE / FALSE / NULL, never an error) and it is
    TRUE exactly when `t` is. -/
def Truth (i2f : Int → Nat) (e : Expr) (r : Row) (t : Bool) : Prop :=
  (t = true ∧ eval i2f e r = boolVal true) ∨ (t = false ∧ (eval i2f e r = boolVal false ∨ eval i2f e r = .val .null))

theorem truth_of_exact (i2f : Int → Nat) (e : Expr) (r : Row) (b : Bool) (h : eval i2f e r = boolVal b) : Truth i2f e r b := by
  cases b
  · exact Or.inr ⟨rfl, Or.inl h⟩
  · exact Or.inl ⟨rfl, h⟩

/-- A compiled node `out` of the model denotes the predicate `e` over the partition's rows. -/
inductive Inv (i2f : Int → Nat) (rows : List Row) (e : Expr) (out : Out) : Prop where
  /-- non-nullable boolean buffer: cell = value, exactly (no NULL possible) -/
  | exact (b : Row → Bool) (hp : out.poison = false) (ht : out.ty.decoded = .boolean)
      (hd : out.data = .bits (rows.map b)) (hn : out.present = none)
      (hv : ∀ r ∈ rows, eval i2f e r = boolVal (b r))
  /-- nullable boolean buffer: TRUE cells (present and set) are exactly the rows where the predicate is TRUE -/
  | nullable (b p : Row → Bool) (hp : out.poison = false) (ht : out.ty.decoded = .boolean)
      (hd : out.data = .bits (rows.map b)) (hn : out.present = some (rows.map p))
      (hv : ∀ r ∈ rows, Truth i2f e r (b r && p r))
  /-- Null-typed node (null vector): the predicate is TRUE on no row -/
  | nullTyped (hp : out.poison = false) (ht : out.ty.decoded = .null)
      (hv : ∀ r ∈ rows, Truth i2f e r false)

/-- The row-level "is TRUE" function of a node satisfying the invariant. -/
theorem Inv.truth {i2f : Int → Nat} {rows : List Row} {e : Expr} {out : Out} (h : Inv i2f rows e out) :
    ∃ t : Row → Bool, ∀ r ∈ rows, Truth i2f e r (t r) := by
  cases h with
  | exact b _ _ _ _ hv => exact ⟨b, fun r hr => truth_of_exact i2f e r (b r) (hv r hr)⟩
  | nullable b p _ _ _ _ hv => exact ⟨fun r => b r && p r, hv⟩
  | nullTyped _ _ hv => exact ⟨fun _ => false, hv⟩

/-! ### Kleene connectives on truth values -/

theorem truth_and (i2f : Int → Nat) (l r : Expr) (row : Row) (tl tr : Bool)
    (hl : Truth i2f l row tl) (hr : Truth i2f r row tr) : Truth i2f (.and l r) row (tl && tr) := by
  unfold Truth at *
  simp only [eval]
  rcases hl with ⟨h1, e1⟩ | ⟨h1, e1 | e1⟩ <;> rcases hr with ⟨h2, e2⟩ | ⟨h2, e2 | e2⟩ <;>
    subst h1 <;> subst h2 <;> rw [e1, e2] <;> simp [bind2, evalAnd, boolVal]

theorem truth_or (i2f : Int → Nat) (l r : Expr) (row : Row) (tl tr : Bool)
    (hl : Truth i2f l row tl) (hr : Truth i2f r row tr) : Truth i2f (.or l r) row (tl || tr) := by
  unfold Truth at *
  simp only [eval]
  rcases hl with ⟨h1, e1⟩ | ⟨h1, e1 | e1⟩ <;> rcases hr with ⟨h2, e2⟩ | ⟨h2, e2 | e2⟩ <;>
    subst h1 <;> subst h2 <;> rw [e1, e2] <;> simp [bind2, evalOr, boolVal]

theorem exact_and (i2f : Int → Nat) (l r : Expr) (row : Row) (a b : Bool)
    (hl : eval i2f l row = boolVal a) (hr : eval i2f r row = boolVal b) : eval i2f (.and l r) row = boolVal (a && b) := by
  simp only [eval, hl, hr]; cases a <;> cases b <;> simp [bind2, evalAnd, boolVal]

theorem exact_or (i2f : Int → Nat) (l r : Expr) (row : Row) (a b : Bool)
    (hl : eval i2f l row = boolVal a) (hr : eval i2f r row = boolVal b) : eval i2f (.or l r) row = boolVal (a || b) := by
  simp only [eval, hl, hr]; cases a <;> cases b <;> simp [bind2, evalOr, boolVal]

theorem exact_not (i2f : Int → Nat) (e : Expr) (row : Row) (a : Bool)
    (h : eval i2f e row = boolVal a) : eval i2f (.not e) row = boolVal (!a) := by
  simp only [eval, h]; cases a <;> simp [evalNot, boolVal]

/-! ### NOT -/

theorem inv_not (i2f : Int → Nat) (rows : List Row) (e : Expr) (a out : Out)
    (ha : Inv i2f rows e a) (h : notNode a = .ok out) : Inv i2f rows (.not e) out := by
  unfold notNode at h
  cases ha with
  | exact b hp ht hd hn hv =>
    simp [ht, hn] at h
    subst h
    refine Inv.exact (fun r => !b r) hp ht ?_ rfl ?_
    · simp [hd, bitsOf, List.map_map]
    · intro r hr; exact exact_not i2f e r (b r) (hv r hr)
  | nullable b p hp ht hd hn hv => simp [ht, hn] at h
  | nullTyped hp ht hv => simp [ht] at h

/-! ### AND / OR -/

theorem zip_map_map {α β γ : Type} (f : α → β) (g : α → γ) (l : List α) :
    (l.map f).zip (l.map g) = l.map (fun x => (f x, g x)) := by
  induction l with
  | nil => rfl
  | cons x xs ih => simp [ih]

/-- A boolean node satisfying the invariant, in uniform (data, presence) form: `p` is constantly true for a
    non-nullable buffer. -/
theorem Inv.boolForm {i2f : Int → Nat} {rows : List Row} {e : Expr} {out : Out} (h : Inv i2f rows e out)
    (hb : out.ty.decoded = .boolean) :
    ∃ (b p : Row → Bool), out.poison = false ∧ out.data = .bits (rows.map b)
      ∧ presentList (rows.map b) out.present = rows.map p
      ∧ (out.present = none → ∀ r ∈ rows, eval i2f e r = boolVal (b r))
      ∧ (out.present = none ∨ out.present = some (rows.map p))
      ∧ ∀ r ∈ rows, Truth i2f e r (b r && p r) := by
  cases h with
  | exact b hp ht hd hn hv =>
    refine ⟨b, fun _ => true, hp, hd, by simp [hn, presentList, List.map_map, Function.comp_def], fun _ => hv, Or.inl hn, ?_⟩
    intro r hr; simpa using truth_of_exact i2f e r (b r) (hv r hr)
  | nullable b p hp ht hd hn hv =>
    refine ⟨b, p, hp, hd, ?_, ?_, Or.inr hn, hv⟩
    · simp [hn, presentList]
    · intro h0; rw [hn] at h0; cases h0
  | nullTyped hp ht hv => rw [ht] at hb; cases hb

theorem kleene_and_truth (a pa b pb : Bool) :
    ((a && b) && kleeneKnown false pa a pb b) = ((a && pa) && (b && pb)) := by
  cases a <;> cases pa <;> cases b <;> cases pb <;> rfl

theorem kleene_or_truth (a pa b pb : Bool) :
    ((a || b) && kleeneKnown true pa a pb b) = ((a && pa) || (b && pb)) := by
  cases a <;> cases pa <;> cases b <;> cases pb <;> rfl

/-- AND / OR of two boolean nodes (nullable or not): Kleene logic. -/
theorem inv_bool (i2f : Int → Nat) (rows : List Row) (isOr : Bool) (l r : Expr) (a b out : Out)
    (ha : Inv i2f rows l a) (hb : Inv i2f rows r b)
    (hta : a.ty.decoded = .boolean) (htb : b.ty.decoded = .boolean)
    (h : boolNode isOr a b = .ok out) :
    Inv i2f rows (if isOr then .or l r else .and l r) out := by
  obtain ⟨ba, pa, hpa, hda, hla, hea, hsa, hva⟩ := ha.boolForm hta
  obtain ⟨bb, pb, hpb, hdb, hlb, heb, hsb, hvb⟩ := hb.boolForm htb
  unfold boolNode at h
  simp [hta, htb] at h
  subst h
  have hdata : (if isOr then orBits (bitsOf a.data) (bitsOf b.data) else andBits (bitsOf a.data) (bitsOf b.data))
      = rows.map (fun row => if isOr then (ba row || bb row) else (ba row && bb row)) := by
    cases isOr <;> simp [hda, hdb, bitsOf, orBits, andBits]
  have hknown : kleenePresent isOr (bitsOf a.data) a.present (bitsOf b.data) b.present
      = rows.map (fun row => kleeneKnown isOr (pa row) (ba row) (pb row) (bb row)) := by
    simp only [kleenePresent, hda, hdb, bitsOf, hla, hlb, zip_map_map, zipWith_map_map]
  by_cases hnone : a.present = none ∧ b.present = none
  · -- both operands non-nullable: exact
    refine Inv.exact (fun row => if isOr then (ba row || bb row) else (ba row && bb row)) (by simp [hpa, hpb]) rfl
      (by simp only [hdata]) (by simp [hnone.1, hnone.2]) ?_
    intro row hr
    cases isOr
    · simpa using exact_and i2f l r row _ _ (hea hnone.1 row hr) (heb hnone.2 row hr)
    · simpa using exact_or i2f l r row _ _ (hea hnone.1 row hr) (heb hnone.2 row hr)
  · have hsome : a.present.isSome = true ∨ b.present.isSome = true := by
      cases hpa' : a.present <;> cases hpb' : b.present <;> simp_all
    refine Inv.nullable (fun row => if isOr then (ba row || bb row) else (ba row && bb row))
      (fun row => kleeneKnown isOr (pa row) (ba row) (pb row) (bb row)) (by simp [hpa, hpb]) rfl
      (by simp only [hdata]) (by simp only [hknown]; exact if_pos hsome) ?_
    intro row hr
    cases isOr
    · have := truth_and i2f l r row _ _ (hva row hr) (hvb row hr)
      simp only [Bool.false_eq_true, if_false]
      rw [kleene_and_truth]; exact this
    · have := truth_or i2f l r row _ _ (hva row hr) (hvb row hr)
      simp only [if_true]
      rw [kleene_or_truth]; exact this

/-- Poison flag of any node satisfying the invariant. -/
theorem Inv.noPoison {i2f : Int → Nat} {rows : List Row} {e : Expr} {out : Out} (h : Inv i2f rows e out) :
    out.poison = false := by cases h <;> assumption

/-- A node satisfying the invariant is boolean or Null-typed. -/
theorem Inv.typed {i2f : Int → Nat} {rows : List Row} {e : Expr} {out : Out} (h : Inv i2f rows e out) :
    out.ty.decoded = .boolean ∨ out.ty.decoded = .null := by
  cases h with
  | exact _ _ ht _ _ _ => exact Or.inl ht
  | nullable _ _ _ ht _ _ _ => exact Or.inl ht
  | nullTyped _ ht _ => exact Or.inr ht

theorem Inv.nullTruth {i2f : Int → Nat} {rows : List Row} {e : Expr} {out : Out} (h : Inv i2f rows e out)
    (hn : out.ty.decoded = .null) : ∀ r ∈ rows, Truth i2f e r false := by
  cases h with
  | exact _ _ ht _ _ _ => rw [ht] at hn; cases hn
  | nullable _ _ _ ht _ _ _ => rw [ht] at hn; cases hn
  | nullTyped _ _ hv => exact hv

theorem inv_and (i2f : Int → Nat) (rows : List Row) (l r : Expr) (a b out : Out)
    (ha : Inv i2f rows l a) (hb : Inv i2f rows r b) (h : boolNode false a b = .ok out) :
    Inv i2f rows (.and l r) out := by
  obtain ⟨ta, hta⟩ := ha.truth
  obtain ⟨tb, htb⟩ := hb.truth
  rcases ha.typed with hba | hna
  · rcases hb.typed with hbb | hnb
    · simpa using inv_bool i2f rows false l r a b out ha hb hba hbb h
    · -- x AND NULL : the Null operand
      unfold boolNode at h
      simp [hba, hnb] at h; subst h
      refine Inv.nullTyped (by simp [ha.noPoison, hb.noPoison]) hnb ?_
      intro row hr
      have := truth_and i2f l r row (ta row) false (hta row hr) (hb.nullTruth hnb row hr)
      simpa using this
  · unfold boolNode at h
    simp [hna] at h; subst h
    refine Inv.nullTyped (by simp [ha.noPoison, hb.noPoison]) hna ?_
    intro row hr
    have := truth_and i2f l r row false (tb row) (ha.nullTruth hna row hr) (htb row hr)
    simpa using this

theorem kleene_or_null (b p : Bool) : (b && kleeneKnown true p b false false) = (b && p) := by
  cases b <;> cases p <;> rfl

/-- `NULL OR x` for a boolean `x`. -/
theorem inv_or_null (i2f : Int → Nat) (rows : List Row) (e ex : Expr) (x : Out) (poison : Bool) (hp : poison = false)
    (hx : Inv i2f rows ex x) (hbx : x.ty.decoded = .boolean)
    (hor : ∀ row ∈ rows, ∀ t, Truth i2f ex row t → Truth i2f e row t) :
    Inv i2f rows e { data := x.data, present := some (kleenePresentNull (bitsOf x.data) x.present), ty := boolTy,
                     poison := poison } := by
  obtain ⟨bx, px, hpx, hdx, hlx, hex, hsx, hvx⟩ := hx.boolForm hbx
  refine Inv.nullable bx (fun row => kleeneKnown true (px row) (bx row) false false) hp rfl hdx ?_ ?_
  · simp only [kleenePresentNull, hdx, bitsOf, hlx, zipWith_map_map]
  · intro row hr
    rw [kleene_or_null]
    exact hor row hr _ (hvx row hr)

theorem inv_or (i2f : Int → Nat) (rows : List Row) (l r : Expr) (a b out : Out)
    (ha : Inv i2f rows l a) (hb : Inv i2f rows r b) (h : boolNode true a b = .ok out) :
    Inv i2f rows (.or l r) out := by
  rcases ha.typed with hba | hna
  · rcases hb.typed with hbb | hnb
    · simpa using inv_bool i2f rows true l r a b out ha hb hba hbb h
    · -- x OR NULL
      unfold boolNode at h
      simp [hba, hnb] at h; subst h
      apply inv_or_null i2f rows (.or l r) l a _ (by simp [ha.noPoison, hb.noPoison]) ha hba
      intro row hr t ht
      have := truth_or i2f l r row t false ht (hb.nullTruth hnb row hr)
      simpa using this
  · rcases hb.typed with hbb | hnb
    · -- NULL OR x
      unfold boolNode at h
      simp [hna, hbb] at h; subst h
      apply inv_or_null i2f rows (.or l r) r b _ (by simp [ha.noPoison, hb.noPoison]) hb hbb
      intro row hr t ht
      have := truth_or i2f l r row false t (ha.nullTruth hna row hr) ht
      simpa using this
    · -- NULL OR NULL : the right operand
      unfold boolNode at h
      simp [hna, hnb] at h; subst h
      refine Inv.nullTyped (by simp [ha.noPoison, hb.noPoison]) hnb ?_
      intro row hr
      have := truth_or i2f l r row false false (ha.nullTruth hna row hr) (hb.nullTruth hnb row hr)
      simpa using this

/-! ### columns -/

/-- Cell of logical column `j` on a row. -/
def cellAt (j : Nat) (r : Row) : Val := r.getD j .null

/-- Facts about the buffer `colRef` yields for a stored column, relative to the logical rows. -/
structure IsCol (rows : List Row) (j : Nat) (out : Out) : Prop where
  poison : out.poison = false
  scalar : out.ty.isScalar = false
  notNullVec : out.data ≠ .nullv
  pres : (out.present = none ∧ ∀ r ∈ rows, cellAt j r ≠ .null)
       ∨ out.present = some (rows.map fun r => isPresent (cellAt j r))

/-- How an integer column is stored after the fixed-width stage. -/
inductive IntEnc where
  | plain                       -- identity codec (I64 data, or a delta / compressed column that was decoded first)
  | cast (t : ET)               -- [ToI64(t)]
  | off (t : ET) (o : Int)      -- [Add(t, o)]

def IntEnc.ops : IntEnc → List COp
  | .plain => [] | .cast t => [.toI64 t] | .off t o => [.add t o]

def IntEnc.enc : IntEnc → Val → Int
  | .off _ o, v => encAdd o v
  | _, v => intOf v

/-- The stored value of `i` lies strictly inside i64 (true for every narrow unsigned section type). -/
def IntEnc.WellEnc : IntEnc → Int → Prop
  | .off _ o, i => I64_MIN < i - o ∧ i - o < I64_MAX
  | _, _ => True

structure IntCol (rows : List Row) (j : Nat) (out : Out) (enc : IntEnc) : Prop where
  base : IsCol rows j out
  data : out.data = .ints (rows.map fun r => enc.enc (cellAt j r))
  ops : out.ty.ops = enc.ops
  dec : out.ty.decoded.nonNullable = .integer
  cells : ∀ r ∈ rows, cellAt j r = .null ∨ ∃ i, cellAt j r = .int i
  /-- stored values of an offset column are narrow unsigned integers (in particular strictly inside i64) -/
  wellEnc : ∀ r ∈ rows, ∀ i, cellAt j r = .int i → enc.WellEnc i

theorem findDecl_same (op : CmpOp) (a b t : BT) (ht : t = .integer ∨ t = .float ∨ t = .string)
    (ha : a.nonNullable = t) (hb : b.nonNullable = t) : findDecl op a b = some (.same t) := by
  unfold findDecl registry
  rcases ht with h | h | h <;> subst h <;> simp [ha, hb] <;> decide

def litOutI (c : Int) : Out := { data := .scalarI c, present := none, ty := scalarTy .integer }
def litOutS (c : Bytes) : Out := { data := .scalarS c, present := none, ty := scalarTy .string }
def litOutF (c : Nat) : Out := { data := .scalarF c, present := none, ty := scalarTy .float }

/-! ### comparison nodes: integer column vs constant -/

theorem combinePresent_none_right (p : Option (List Bool)) : combinePresent p none = p := by cases p <;> rfl
theorem combinePresent_none_left (p : Option (List Bool)) : combinePresent none p = p := by cases p <;> rfl

theorem cmpRes_ints_scalar (op : CmpOp) (xs : List Int) (c : Int) :
    cmpRes op (.ints xs) (.scalarI c) = some (xs.map fun v => cmpVia op v c) := by
  cases op <;> simp [cmpRes, lower, cmpData, cmpVia]
theorem cmpRes_scalar_ints (op : CmpOp) (xs : List Int) (c : Int) :
    cmpRes op (.scalarI c) (.ints xs) = some (xs.map fun v => cmpVia op c v) := by
  cases op <;> simp [cmpRes, lower, cmpData, cmpVia]

/-- The encoded constant an integer column is compared with. -/
def IntEnc.encConst : IntEnc → Int → Int
  | .off _ o, c => satI64 (c - o)
  | _, c => c

theorem cmpNode_int_right (fp : FP) (op : CmpOp) (rows : List Row) (j : Nat) (l : Out) (enc : IntEnc) (c : Int)
    (hc : IntCol rows j l enc) :
    cmpNode fp op l (litOutI c) = .ok
        { data := .bits (rows.map fun r => cmpVia op (enc.enc (cellAt j r)) (enc.encConst c)), present := l.present,
          ty := boolTy, poison := false } := by
  obtain ⟨base, data, ops, dec, cells, wellEnc⟩ := hc
  have hfd : findDecl op l.ty.decoded (litOutI c).ty.decoded = some (.same .integer) :=
    findDecl_same op _ _ .integer (Or.inl rfl) dec rfl
  unfold cmpNode
  rw [hfd]
  cases enc <;>
    simp [prepOperands, Decl.invariant, base.scalar, litOutI, scalarTy, Ty.isEncoded, ops, IntEnc.ops, decodeData, data,
      castOperands, cmpExec, cmpRes_ints_scalar, base.poison, combinePresent_none_right, List.map_map, Function.comp_def,
      encodeConst, dec, encodeInt, IntEnc.encConst]

theorem cmpNode_int_left (fp : FP) (op : CmpOp) (rows : List Row) (j : Nat) (r : Out) (enc : IntEnc) (c : Int)
    (hc : IntCol rows j r enc) :
    cmpNode fp op (litOutI c) r = .ok
        { data := .bits (rows.map fun row => cmpVia op (enc.encConst c) (enc.enc (cellAt j row))), present := r.present,
          ty := boolTy, poison := false } := by
  obtain ⟨base, data, ops, dec, cells, wellEnc⟩ := hc
  have hfd : findDecl op (litOutI c).ty.decoded r.ty.decoded = some (.same .integer) :=
    findDecl_same op _ _ .integer (Or.inl rfl) rfl dec
  unfold cmpNode
  rw [hfd]
  cases enc <;>
    simp [prepOperands, Decl.invariant, base.scalar, litOutI, scalarTy, Ty.isEncoded, ops, IntEnc.ops, decodeData, data,
      castOperands, cmpExec, cmpRes_scalar_ints, base.poison, combinePresent_none_left, List.map_map, Function.comp_def,
      encodeConst, dec, encodeInt, IntEnc.encConst]

/-- stored value vs encoded constant = decoded value vs constant (all three encodings, all constants). -/
theorem enc_cmp_cell (op : CmpOp) (enc : IntEnc) (i c : Int)
    (hw : enc.WellEnc i) :
    cmpVia op (enc.enc (.int i)) (enc.encConst c) = cmpInt op i c
    ∧ cmpVia op (enc.encConst c) (enc.enc (.int i)) = cmpInt op c i := by
  cases enc with
  | plain => exact ⟨lower_int op i c, lower_int op c i⟩
  | cast t => exact ⟨lower_int op i c, lower_int op c i⟩
  | off t o =>
    have := enc_cmp_int op t o i c hw
    exact ⟨this.2.1, this.2.2⟩

theorem eval_cmp_col_lit (i2f : Int → Nat) (op : CmpOp) (j : Nat) (k : Val) (r : Row) :
    eval i2f (.cmp op (.col j) (.lit k)) r = evalCmp i2f op (cellAt j r) k := by
  simp [eval, bind2, cellAt]

theorem eval_cmp_lit_col (i2f : Int → Nat) (op : CmpOp) (j : Nat) (k : Val) (r : Row) :
    eval i2f (.cmp op (.lit k) (.col j)) r = evalCmp i2f op k (cellAt j r) := by
  simp [eval, bind2, cellAt]

/-- Invariant for `col op const` / `const op col`, given the row-level agreement on present cells. -/
theorem inv_of_cmp (i2f : Int → Nat) (rows : List Row) (j : Nat) (e : Expr) (col : Out) (b : Row → Bool)
    (hbase : IsCol rows j col)
    (hnull : ∀ r ∈ rows, cellAt j r = .null → eval i2f e r = .val .null)
    (hval : ∀ r ∈ rows, cellAt j r ≠ .null → eval i2f e r = boolVal (b r)) :
    Inv i2f rows e { data := .bits (rows.map b), present := col.present, ty := boolTy, poison := false } := by
  rcases hbase.pres with ⟨hn, hnn⟩ | hp
  · refine Inv.exact b rfl rfl rfl hn ?_
    intro r hr; exact hval r hr (hnn r hr)
  · refine Inv.nullable b (fun r => isPresent (cellAt j r)) rfl rfl rfl hp ?_
    intro r hr
    by_cases hc : cellAt j r = .null
    · have : isPresent (cellAt j r) = false := by rw [hc]; rfl
      rw [this, Bool.and_false]
      exact Or.inr ⟨rfl, Or.inr (hnull r hr hc)⟩
    · have : isPresent (cellAt j r) = true := by
        cases hv : cellAt j r <;> simp_all [isPresent]
      rw [this, Bool.and_true]
      exact truth_of_exact i2f e r (b r) (hval r hr hc)

theorem inv_cmp_int_right (fp : FP) (op : CmpOp) (rows : List Row) (j : Nat) (l : Out) (enc : IntEnc) (c : Int)
    (hc : IntCol rows j l enc) :
    ∃ out, cmpNode fp op l (litOutI c) = .ok out ∧ Inv fp.i2f rows (.cmp op (.col j) (.lit (.int c))) out := by
  refine ⟨_, cmpNode_int_right fp op rows j l enc c hc, ?_⟩
  apply inv_of_cmp fp.i2f rows j _ l _ hc.base
  · intro r _ hnull
    rw [eval_cmp_col_lit, hnull]; rfl
  · intro r hr hnn
    rcases hc.cells r hr with h | ⟨i, hi⟩
    · exact absurd h hnn
    · rw [eval_cmp_col_lit, hi]
      simp only [evalCmp]
      rw [(enc_cmp_cell op enc i c (hc.wellEnc r hr i hi)).1]

theorem inv_cmp_int_left (fp : FP) (op : CmpOp) (rows : List Row) (j : Nat) (r : Out) (enc : IntEnc) (c : Int)
    (hc : IntCol rows j r enc) :
    ∃ out, cmpNode fp op (litOutI c) r = .ok out ∧ Inv fp.i2f rows (.cmp op (.lit (.int c)) (.col j)) out := by
  refine ⟨_, cmpNode_int_left fp op rows j r enc c hc, ?_⟩
  apply inv_of_cmp fp.i2f rows j _ r _ hc.base
  · intro row _ hnull
    rw [eval_cmp_lit_col, hnull]; rfl
  · intro row hr hnn
    rcases hc.cells row hr with h | ⟨i, hi⟩
    · exact absurd h hnn
    · rw [eval_cmp_lit_col, hi]
      simp only [evalCmp]
      rw [(enc_cmp_cell op enc i c (hc.wellEnc row hr i hi)).2]

/-! ### comparison nodes: string column vs constant -/

def cmpViaBytes (op : CmpOp) (a b : Bytes) : Bool :=
  match lower op with
  | (x, false) => xBytes x a b
  | (x, true) => xBytes x b a

theorem lower_bytes (op : CmpOp) (a b : Bytes) : cmpViaBytes op a b = cmpBytes op a b := by
  cases op <;> simp [cmpViaBytes, lower, xBytes, cmpBytes]

theorem cmpRes_strs_scalar (op : CmpOp) (xs : List Bytes) (c : Bytes) :
    cmpRes op (.strs xs) (.scalarS c) = some (xs.map fun v => cmpViaBytes op v c) := by
  cases op <;> simp [cmpRes, lower, cmpData, cmpViaBytes]
theorem cmpRes_scalar_strs (op : CmpOp) (xs : List Bytes) (c : Bytes) :
    cmpRes op (.scalarS c) (.strs xs) = some (xs.map fun v => cmpViaBytes op c v) := by
  cases op <;> simp [cmpRes, lower, cmpData, cmpViaBytes]

/-- How a string column is stored after the fixed-width stage. -/
inductive StrEnc where
  | plain                              -- decoded strings (packed strings are unpacked first)
  | dict (t : ET) (d : List Bytes)     -- [PushDataSection(1), PushDataSection(2), DictLookup(t)], dictionary `d`

def StrEnc.ops : StrEnc → List COp
  | .plain => [] | .dict t _ => [.push 1, .push 2, .dict t]

def StrEnc.data : StrEnc → List Val → Data
  | .plain, cells => .strs (cells.map strOf)
  | .dict _ d, cells => .ints (cells.map (dictIndex d))

def StrEnc.dictOf : StrEnc → List Bytes
  | .plain => [] | .dict _ d => d

/-- Dictionary columns: the dictionary is strictly sorted and contains every stored string. -/
def StrEnc.WellEnc : StrEnc → Bytes → Prop
  | .plain, _ => True
  | .dict _ d, s => SortedDict d ∧ s ∈ d

structure StrCol (rows : List Row) (j : Nat) (out : Out) (enc : StrEnc) : Prop where
  base : IsCol rows j out
  data : out.data = enc.data (rows.map (cellAt j))
  ops : out.ty.ops = enc.ops
  dictEq : out.ty.dict = enc.dictOf
  dec : out.ty.decoded.nonNullable = .string
  cells : ∀ r ∈ rows, cellAt j r = .null ∨ ∃ s, cellAt j r = .str s
  wellEnc : ∀ r ∈ rows, ∀ s, cellAt j r = .str s → enc.WellEnc s

/-- Row-level result of the engine for `col op c` (b = false) / `c op col` (b = true) on a string column. -/
def StrEnc.cmpCell (enc : StrEnc) (op : CmpOp) (constLeft : Bool) (v : Val) (c : Bytes) : Bool :=
  match enc, constLeft with
  | .plain, false => cmpViaBytes op (strOf v) c
  | .plain, true => cmpViaBytes op c (strOf v)
  | .dict _ d, false => cmpVia op (dictIndex d v) (inverseDictLookup d (dictConstRounding op false) c)
  | .dict _ d, true => cmpVia op (inverseDictLookup d (dictConstRounding op true) c) (dictIndex d v)

theorem cmpNode_str_right (fp : FP) (op : CmpOp) (rows : List Row) (j : Nat) (l : Out) (enc : StrEnc) (c : Bytes)
    (hc : StrCol rows j l enc) :
    cmpNode fp op l (litOutS c) = .ok
        { data := .bits (rows.map fun r => enc.cmpCell op false (cellAt j r) c), present := l.present,
          ty := boolTy, poison := false } := by
  obtain ⟨base, data, ops, dictEq, dec, cells, wellEnc⟩ := hc
  have hfd : findDecl op l.ty.decoded (litOutS c).ty.decoded = some (.same .string) :=
    findDecl_same op _ _ .string (Or.inr (Or.inr rfl)) dec rfl
  unfold cmpNode
  rw [hfd]
  cases enc <;>
    simp [prepOperands, Decl.invariant, base.scalar, litOutS, scalarTy, Ty.isEncoded, ops, StrEnc.ops, decodeData, data,
      StrEnc.data, castOperands, cmpExec, cmpRes_strs_scalar, cmpRes_ints_scalar, base.poison, combinePresent_none_right,
      List.map_map, Function.comp_def, encodeConst, dec, isDictCodec, dictEq, StrEnc.dictOf, StrEnc.cmpCell]

theorem cmpNode_str_left (fp : FP) (op : CmpOp) (rows : List Row) (j : Nat) (r : Out) (enc : StrEnc) (c : Bytes)
    (hc : StrCol rows j r enc) :
    cmpNode fp op (litOutS c) r = .ok
        { data := .bits (rows.map fun row => enc.cmpCell op true (cellAt j row) c), present := r.present,
          ty := boolTy, poison := false } := by
  obtain ⟨base, data, ops, dictEq, dec, cells, wellEnc⟩ := hc
  have hfd : findDecl op (litOutS c).ty.decoded r.ty.decoded = some (.same .string) :=
    findDecl_same op _ _ .string (Or.inr (Or.inr rfl)) rfl dec
  unfold cmpNode
  rw [hfd]
  cases enc <;>
    simp [prepOperands, Decl.invariant, base.scalar, litOutS, scalarTy, Ty.isEncoded, ops, StrEnc.ops, decodeData, data,
      StrEnc.data, castOperands, cmpExec, cmpRes_scalar_strs, cmpRes_scalar_ints, base.poison, combinePresent_none_left,
      List.map_map, Function.comp_def, encodeConst, dec, isDictCodec, dictEq, StrEnc.dictOf, StrEnc.cmpCell]

theorem str_cmp_cell (op : CmpOp) (enc : StrEnc) (s c : Bytes) (hw : enc.WellEnc s) :
    enc.cmpCell op false (.str s) c = cmpBytes op s c ∧ enc.cmpCell op true (.str s) c = cmpBytes op c s := by
  cases enc with
  | plain => exact ⟨lower_bytes op s c, lower_bytes op c s⟩
  | dict t d => exact enc_cmp_str op d hw.1 s c hw.2

theorem inv_cmp_str_right (fp : FP) (op : CmpOp) (rows : List Row) (j : Nat) (l : Out) (enc : StrEnc) (c : Bytes)
    (hc : StrCol rows j l enc) :
    ∃ out, cmpNode fp op l (litOutS c) = .ok out ∧ Inv fp.i2f rows (.cmp op (.col j) (.lit (.str c))) out := by
  refine ⟨_, cmpNode_str_right fp op rows j l enc c hc, ?_⟩
  apply inv_of_cmp fp.i2f rows j _ l _ hc.base
  · intro r _ hnull
    rw [eval_cmp_col_lit, hnull]; rfl
  · intro r hr hnn
    rcases hc.cells r hr with h | ⟨s, hs⟩
    · exact absurd h hnn
    · rw [eval_cmp_col_lit, hs]
      simp only [evalCmp]
      rw [(str_cmp_cell op enc s c (hc.wellEnc r hr s hs)).1]

theorem inv_cmp_str_left (fp : FP) (op : CmpOp) (rows : List Row) (j : Nat) (r : Out) (enc : StrEnc) (c : Bytes)
    (hc : StrCol rows j r enc) :
    ∃ out, cmpNode fp op (litOutS c) r = .ok out ∧ Inv fp.i2f rows (.cmp op (.lit (.str c)) (.col j)) out := by
  refine ⟨_, cmpNode_str_left fp op rows j r enc c hc, ?_⟩
  apply inv_of_cmp fp.i2f rows j _ r _ hc.base
  · intro row _ hnull
    rw [eval_cmp_lit_col, hnull]; rfl
  · intro row hr hnn
    rcases hc.cells row hr with h | ⟨s, hs⟩
    · exact absurd h hnn
    · rw [eval_cmp_lit_col, hs]
      simp only [evalCmp]
      rw [(str_cmp_cell op enc s c (hc.wellEnc row hr s hs)).2]

/-! ### absent columns, IS NULL -/

/-- The buffer `colRef` yields for a column the partition does not have (NullVec). -/
structure AbsentCol (rows : List Row) (j : Nat) (out : Out) : Prop where
  poison : out.poison = false
  data : out.data = .nullv
  pres : out.present = none
  ty : out.ty = nullTy
  cells : ∀ r ∈ rows, cellAt j r = .null

theorem beq_null_eq (v : Val) : (v == Val.null) = !isPresent v := by
  cases v <;> simp [isPresent] <;> decide

theorem eval_isNull_col (i2f : Int → Nat) (j : Nat) (r : Row) :
    eval i2f (.isNull (.col j)) r = boolVal (!isPresent (cellAt j r)) := by
  simp [eval, cellAt, beq_null_eq]

theorem eval_isNotNull_col (i2f : Int → Nat) (j : Nat) (r : Row) :
    eval i2f (.isNotNull (.col j)) r = boolVal (isPresent (cellAt j r)) := by
  have : ∀ v : Val, (v != Val.null) = isPresent v := by
    intro v; cases v <;> simp [isPresent, bne] <;> decide
  simp [eval, cellAt, this]

theorem isPresent_of_ne (v : Val) (h : v ≠ .null) : isPresent v = true := by
  cases v <;> simp_all [isPresent]

theorem inv_isNull (i2f : Int → Nat) (rows : List Row) (j : Nat) (a : Out) (want : Bool)
    (h : IsCol rows j a ∨ AbsentCol rows j a) :
    ∃ out, isNullNode rows.length want a = .ok out
      ∧ Inv i2f rows (if want then .isNull (.col j) else .isNotNull (.col j)) out := by
  have key : ∀ (b : Row → Bool) (out : Out), out.poison = false → out.ty.decoded = .boolean → out.data = .bits (rows.map b) →
      out.present = none → (∀ r ∈ rows, b r = (if want then !isPresent (cellAt j r) else isPresent (cellAt j r))) →
      Inv i2f rows (if want then .isNull (.col j) else .isNotNull (.col j)) out := by
    intro b out h1 h2 h3 h4 h5
    refine Inv.exact b h1 h2 h3 h4 ?_
    intro r hr
    cases want
    · simp only [Bool.false_eq_true, if_false] at *; rw [eval_isNotNull_col, h5 r hr]
    · simp only [if_true] at *; rw [eval_isNull_col, h5 r hr]
  rcases h with hc | ha
  · rcases hc.pres with ⟨hn, hnn⟩ | hp
    · -- non-nullable stored column: constant vector
      have hd : a.data.isNullVec = false := by
        have := hc.notNullVec
        cases hda : a.data <;> simp_all [Data.isNullVec]
      refine ⟨_, by simp [isNullNode, hn, hd]; rfl, ?_⟩
      apply key (fun _ => if want then false else true)
      · exact hc.poison
      · rfl
      · simp [replicate_length_eq_map]
      · rfl
      · intro r hr
        rw [isPresent_of_ne _ (hnn r hr)]; cases want <;> rfl
    · refine ⟨_, by simp [isNullNode, hp]; rfl, ?_⟩
      apply key (fun r => if want then !isPresent (cellAt j r) else isPresent (cellAt j r))
      · exact hc.poison
      · rfl
      · simp [List.map_map, Function.comp_def]
      · rfl
      · intro r _; rfl
  · refine ⟨_, by simp [isNullNode, ha.pres, ha.data, Data.isNullVec]; rfl, ?_⟩
    apply key (fun _ => if want then true else false)
    · exact ha.poison
    · rfl
    · simp [replicate_length_eq_map]
    · rfl
    · intro r hr
      rw [ha.cells r hr]; cases want <;> rfl

/-! ### comparisons with an absent column -/

theorem findDecl_null_left (op : CmpOp) (t : BT) (ht : t = .integer ∨ t = .float ∨ t = .string) :
    findDecl op .null t = some .fwdLeft := by
  rcases ht with h | h | h <;> subst h <;> cases op <;> decide

theorem findDecl_null_right (op : CmpOp) (t : BT) (ht : t = .integer ∨ t = .float ∨ t = .string) :
    findDecl op t .null = some .fwdRight := by
  rcases ht with h | h | h <;> subst h <;> cases op <;> decide

/-- A non-NULL literal as compiled by `compile`. -/
def litOut : Val → Option Out
  | .int c => some (litOutI c) | .float c => some (litOutF c) | .str c => some (litOutS c) | .null => none

theorem litOut_decoded (k : Val) (o : Out) (h : litOut k = some o) :
    o.ty.decoded = .integer ∨ o.ty.decoded = .float ∨ o.ty.decoded = .string := by
  cases k <;> simp [litOut] at h <;> subst h <;> simp [litOutI, litOutF, litOutS, scalarTy]

theorem inv_cmp_absent_right (fp : FP) (op : CmpOp) (rows : List Row) (j : Nat) (a o : Out) (k : Val)
    (ha : AbsentCol rows j a) (hk : litOut k = some o) :
    ∃ out, cmpNode fp op a o = .ok out ∧ Inv fp.i2f rows (.cmp op (.col j) (.lit k)) out := by
  have hfd : findDecl op a.ty.decoded o.ty.decoded = some .fwdLeft := by
    rw [ha.ty]; exact findDecl_null_left op _ (litOut_decoded k o hk)
  refine ⟨{ a with data := .nullv, ty := nullTy, poison := false }, ?_, ?_⟩
  · unfold cmpNode
    rw [hfd]
    cases k <;> simp [litOut] at hk <;> subst hk <;>
      simp [prepOperands, Decl.invariant, ha.ty, nullTy, decodeData, ha.data, ha.poison, litOutI, litOutF, litOutS, scalarTy]
  · refine Inv.nullTyped rfl rfl ?_
    intro r hr
    refine Or.inr ⟨rfl, Or.inr ?_⟩
    rw [eval_cmp_col_lit, ha.cells r hr]; rfl

theorem inv_cmp_absent_left (fp : FP) (op : CmpOp) (rows : List Row) (j : Nat) (a o : Out) (k : Val)
    (ha : AbsentCol rows j a) (hk : litOut k = some o) :
    ∃ out, cmpNode fp op o a = .ok out ∧ Inv fp.i2f rows (.cmp op (.lit k) (.col j)) out := by
  have hfd : findDecl op o.ty.decoded a.ty.decoded = some .fwdRight := by
    rw [ha.ty]; exact findDecl_null_right op _ (litOut_decoded k o hk)
  refine ⟨{ a with data := .nullv, ty := nullTy, poison := false }, ?_, ?_⟩
  · unfold cmpNode
    rw [hfd]
    cases k <;> simp [litOut] at hk <;> subst hk <;>
      simp [prepOperands, Decl.invariant, ha.ty, nullTy, decodeData, ha.data, ha.poison, litOutI, litOutF, litOutS, scalarTy]
  · refine Inv.nullTyped rfl rfl ?_
    intro r hr
    refine Or.inr ⟨rfl, Or.inr ?_⟩
    rw [eval_cmp_lit_col, ha.cells r hr]
    cases k <;> simp [litOut] at hk <;> rfl

/-! ### filter application -/

/-- Positions of `true` in a list of booleans, numbered from `k`. -/
def idxTrue : List Bool → Nat → List Nat
  | [], _ => []
  | b :: bs, k => if b then k :: idxTrue bs (k + 1) else idxTrue bs (k + 1)

/-- Row-level view of a (possibly nullable) boolean buffer: is the cell TRUE (present and non-zero)? -/
def cellsTrue (bits : List Bool) : Option (List Bool) → List Bool
  | none => bits
  | some p => List.zipWith (· && ·) bits p

theorem filter_apply (bits : List Bool) (present : Option (List Bool)) (k : Nat) :
    keptIdx bits present k = idxTrue (cellsTrue bits present) k := by
  cases present with
  | none =>
    induction bits generalizing k with
    | nil => rfl
    | cons b bs ih => simp only [keptIdx, cellsTrue, idxTrue] at *; split <;> simp_all
  | some p =>
    induction bits generalizing k p with
    | nil => cases p <;> rfl
    | cons b bs ih =>
      cases p with
      | nil => simp [keptIdx, cellsTrue, idxTrue]
      | cons q qs =>
        simp only [keptIdx, cellsTrue, idxTrue, List.zipWith_cons_cons] at *
        split <;> simp_all

theorem idxTrue_all_false {α : Type} (l : List α) (k : Nat) : idxTrue (l.map fun _ => false) k = [] := by
  induction l generalizing k with
  | nil => rfl
  | cons x xs ih => simp [idxTrue, ih]

theorem keep_of_truth (i2f : Int → Nat) (e : Expr) (r : Row) (t : Bool) (h : Truth i2f e r t) :
    keep i2f (some e) r = .ok t := by
  rcases h with ⟨ht, he⟩ | ⟨ht, he | he⟩ <;> subst ht <;> simp [keep, he, boolVal]

theorem filterRows_of_truth (i2f : Int → Nat) (e : Expr) (rows : List Row) (t : Row → Bool)
    (h : ∀ r ∈ rows, Truth i2f e r (t r)) : filterRows i2f (some e) rows = .ok (rows.filter t) := by
  induction rows with
  | nil => rfl
  | cons r rs ih =>
    have hr := keep_of_truth i2f e r (t r) (h r (by simp))
    have hrs := ih (fun x hx => h x (by simp [hx]))
    simp only [filterRows, hr, hrs, List.filter_cons]

/-! ### comparison nodes: float column vs float / integer constant -/

def cmpViaF (op : CmpOp) (a b : Nat) : Bool :=
  match lower op with
  | (x, false) => xFloat x a b
  | (x, true) => xFloat x b a

theorem lower_float (op : CmpOp) (a b : Nat) : cmpViaF op a b = cmpInt op (floatKey a) (floatKey b) := by
  cases op <;> simp [cmpViaF, lower, xFloat, xInt, cmpInt]

theorem cmpRes_floats_scalar (op : CmpOp) (xs : List Nat) (c : Nat) :
    cmpRes op (.floats xs) (.scalarF c) = some (xs.map fun v => cmpViaF op v c) := by
  cases op <;> simp [cmpRes, lower, cmpData, cmpViaF]
theorem cmpRes_scalar_floats (op : CmpOp) (xs : List Nat) (c : Nat) :
    cmpRes op (.scalarF c) (.floats xs) = some (xs.map fun v => cmpViaF op c v) := by
  cases op <;> simp [cmpRes, lower, cmpData, cmpViaF]

/-- A float column (never encoded: compressed sections are decoded by the fixed-width stage). -/
structure FloatCol (rows : List Row) (j : Nat) (out : Out) : Prop where
  base : IsCol rows j out
  data : out.data = .floats (rows.map fun r => floatOf (cellAt j r))
  ops : out.ty.ops = []
  dec : out.ty.decoded.nonNullable = .float
  cells : ∀ r ∈ rows, cellAt j r = .null ∨ ∃ b, cellAt j r = .float b

theorem findDecl_float_int (op : CmpOp) (a : BT) (ha : a.nonNullable = .float) :
    findDecl op a .integer = some .floatInt := by
  have hi : BT.integer.nonNullable = .integer := rfl
  unfold findDecl registry; simp [ha, hi] <;> decide
theorem findDecl_int_float (op : CmpOp) (a : BT) (ha : a.nonNullable = .float) :
    findDecl op .integer a = some .intFloat := by
  have hi : BT.integer.nonNullable = .integer := rfl
  unfold findDecl registry; simp [ha, hi] <;> decide

/-- The float constant a float column is compared with: a float literal, or an integer literal cast with `as f64`. -/
def floatConst (fp : FP) : Val → Option Nat
  | .float b => some b
  | .int i => some (fp.i2f i)
  | _ => none

theorem cmpNode_float_right (fp : FP) (op : CmpOp) (rows : List Row) (j : Nat) (l o : Out) (k : Val) (c : Nat)
    (hc : FloatCol rows j l) (hk : litOut k = some o) (hcst : floatConst fp k = some c) :
    cmpNode fp op l o = .ok
        { data := .bits (rows.map fun r => cmpViaF op (floatOf (cellAt j r)) c), present := l.present,
          ty := boolTy, poison := false } := by
  obtain ⟨base, data, ops, dec, cells⟩ := hc
  cases k with
  | null => simp [litOut] at hk
  | str s => simp [floatConst] at hcst
  | float b =>
    simp [litOut] at hk; subst hk
    simp [floatConst] at hcst; subst hcst
    have hfd : findDecl op l.ty.decoded (litOutF b).ty.decoded = some (.same .float) :=
      findDecl_same op _ _ .float (Or.inr (Or.inl rfl)) dec rfl
    unfold cmpNode
    rw [hfd]
    simp [prepOperands, Decl.invariant, base.scalar, litOutF, scalarTy, Ty.isEncoded, ops, decodeData, data,
      castOperands, cmpExec, cmpRes_floats_scalar, base.poison, combinePresent_none_right, List.map_map, Function.comp_def]
  | int i =>
    simp [litOut] at hk; subst hk
    simp [floatConst] at hcst; subst hcst
    have hfd : findDecl op l.ty.decoded (litOutI i).ty.decoded = some .floatInt :=
      findDecl_float_int op _ dec
    unfold cmpNode
    rw [hfd]
    simp [prepOperands, Decl.invariant, base.scalar, litOutI, scalarTy, Ty.isEncoded, ops, decodeData, data,
      castOperands, castFloat, cmpExec, cmpRes_floats_scalar, base.poison, combinePresent_none_right, List.map_map, Function.comp_def]

theorem cmpNode_float_left (fp : FP) (op : CmpOp) (rows : List Row) (j : Nat) (r o : Out) (k : Val) (c : Nat)
    (hc : FloatCol rows j r) (hk : litOut k = some o) (hcst : floatConst fp k = some c) :
    cmpNode fp op o r = .ok
        { data := .bits (rows.map fun row => cmpViaF op c (floatOf (cellAt j row))), present := r.present,
          ty := boolTy, poison := false } := by
  obtain ⟨base, data, ops, dec, cells⟩ := hc
  cases k with
  | null => simp [litOut] at hk
  | str s => simp [floatConst] at hcst
  | float b =>
    simp [litOut] at hk; subst hk
    simp [floatConst] at hcst; subst hcst
    have hfd : findDecl op (litOutF b).ty.decoded r.ty.decoded = some (.same .float) :=
      findDecl_same op _ _ .float (Or.inr (Or.inl rfl)) rfl dec
    unfold cmpNode
    rw [hfd]
    simp [prepOperands, Decl.invariant, base.scalar, litOutF, scalarTy, Ty.isEncoded, ops, decodeData, data,
      castOperands, cmpExec, cmpRes_scalar_floats, base.poison, combinePresent_none_left, List.map_map, Function.comp_def]
  | int i =>
    simp [litOut] at hk; subst hk
    simp [floatConst] at hcst; subst hcst
    have hfd : findDecl op (litOutI i).ty.decoded r.ty.decoded = some .intFloat :=
      findDecl_int_float op _ dec
    unfold cmpNode
    rw [hfd]
    simp [prepOperands, Decl.invariant, base.scalar, litOutI, scalarTy, Ty.isEncoded, ops, decodeData, data,
      castOperands, castFloat, cmpExec, cmpRes_scalar_floats, base.poison, combinePresent_none_left, List.map_map, Function.comp_def]

theorem evalCmp_float_const (fp : FP) (op : CmpOp) (b : Nat) (k : Val) (c : Nat) (h : floatConst fp k = some c) :
    evalCmp fp.i2f op (.float b) k = boolVal (cmpInt op (floatKey b) (floatKey c))
    ∧ evalCmp fp.i2f op k (.float b) = boolVal (cmpInt op (floatKey c) (floatKey b)) := by
  cases k <;> simp [floatConst] at h <;> subst h <;> simp [evalCmp]

theorem inv_cmp_float_right (fp : FP) (op : CmpOp) (rows : List Row) (j : Nat) (l o : Out) (k : Val) (c : Nat)
    (hc : FloatCol rows j l) (hk : litOut k = some o) (hcst : floatConst fp k = some c) :
    ∃ out, cmpNode fp op l o = .ok out ∧ Inv fp.i2f rows (.cmp op (.col j) (.lit k)) out := by
  refine ⟨_, cmpNode_float_right fp op rows j l o k c hc hk hcst, ?_⟩
  apply inv_of_cmp fp.i2f rows j _ l _ hc.base
  · intro r _ hnull
    rw [eval_cmp_col_lit, hnull]; rfl
  · intro r hr hnn
    rcases hc.cells r hr with h | ⟨b, hb⟩
    · exact absurd h hnn
    · rw [eval_cmp_col_lit, hb, (evalCmp_float_const fp op b k c hcst).1]
      simp only [floatOf, lower_float]

theorem inv_cmp_float_left (fp : FP) (op : CmpOp) (rows : List Row) (j : Nat) (r o : Out) (k : Val) (c : Nat)
    (hc : FloatCol rows j r) (hk : litOut k = some o) (hcst : floatConst fp k = some c) :
    ∃ out, cmpNode fp op o r = .ok out ∧ Inv fp.i2f rows (.cmp op (.lit k) (.col j)) out := by
  refine ⟨_, cmpNode_float_left fp op rows j r o k c hc hk hcst, ?_⟩
  apply inv_of_cmp fp.i2f rows j _ r _ hc.base
  · intro row _ hnull
    rw [eval_cmp_lit_col, hnull]
    cases k <;> simp [litOut] at hk <;> rfl
  · intro row hr hnn
    rcases hc.cells row hr with h | ⟨b, hb⟩
    · exact absurd h hnn
    · rw [eval_cmp_lit_col, hb, (evalCmp_float_const fp op b k c hcst).2]
      simp only [floatOf, lower_float]

/-! ### comparison nodes: column vs column (both operands decoded) -/

theorem eval_cmp_col_col (i2f : Int → Nat) (op : CmpOp) (j1 j2 : Nat) (r : Row) :
    eval i2f (.cmp op (.col j1) (.col j2)) r = evalCmp i2f op (cellAt j1 r) (cellAt j2 r) := by
  simp [eval, bind2, cellAt]

theorem evalCmp_null_left (i2f : Int → Nat) (op : CmpOp) (v : Val) : evalCmp i2f op .null v = .val .null := by
  cases v <;> rfl
theorem evalCmp_null_right (i2f : Int → Nat) (op : CmpOp) (v : Val) : evalCmp i2f op v .null = .val .null := by
  cases v <;> rfl

/-- Invariant for `col1 op col2`, given the row-level agreement where both cells are present. -/
theorem inv_of_cmp2 (i2f : Int → Nat) (rows : List Row) (j1 j2 : Nat) (op : CmpOp) (c1 c2 : Out) (b : Row → Bool)
    (h1 : IsCol rows j1 c1) (h2 : IsCol rows j2 c2)
    (hval : ∀ r ∈ rows, cellAt j1 r ≠ .null → cellAt j2 r ≠ .null →
      evalCmp i2f op (cellAt j1 r) (cellAt j2 r) = boolVal (b r)) :
    Inv i2f rows (.cmp op (.col j1) (.col j2))
      { data := .bits (rows.map b), present := combinePresent c1.present c2.present, ty := boolTy, poison := false } := by
  have hrow : ∀ r ∈ rows, Truth i2f (.cmp op (.col j1) (.col j2)) r (b r && (isPresent (cellAt j1 r) && isPresent (cellAt j2 r))) := by
    intro r hr
    by_cases n1 : cellAt j1 r = .null
    · have : isPresent (cellAt j1 r) = false := by rw [n1]; rfl
      rw [this]; simp only [Bool.false_and, Bool.and_false]
      exact Or.inr ⟨rfl, Or.inr (by rw [eval_cmp_col_col, n1, evalCmp_null_left])⟩
    · by_cases n2 : cellAt j2 r = .null
      · have : isPresent (cellAt j2 r) = false := by rw [n2]; rfl
        rw [this]; simp only [Bool.and_false]
        exact Or.inr ⟨rfl, Or.inr (by rw [eval_cmp_col_col, n2, evalCmp_null_right])⟩
      · rw [isPresent_of_ne _ n1, isPresent_of_ne _ n2]; simp only [Bool.and_true]
        exact truth_of_exact i2f _ r (b r) (by rw [eval_cmp_col_col]; exact hval r hr n1 n2)
  rcases h1.pres with ⟨hn1, hnn1⟩ | hp1 <;> rcases h2.pres with ⟨hn2, hnn2⟩ | hp2
  · refine Inv.exact b rfl rfl rfl (by simp [hn1, hn2, combinePresent]) ?_
    intro r hr; rw [eval_cmp_col_col]; exact hval r hr (hnn1 r hr) (hnn2 r hr)
  · refine Inv.nullable b (fun r => isPresent (cellAt j2 r)) rfl rfl rfl (by simp [hn1, hp2, combinePresent]) ?_
    intro r hr
    have := hrow r hr
    rwa [isPresent_of_ne _ (hnn1 r hr), Bool.true_and] at this
  · refine Inv.nullable b (fun r => isPresent (cellAt j1 r)) rfl rfl rfl (by simp [hp1, hn2, combinePresent]) ?_
    intro r hr
    have := hrow r hr
    rwa [isPresent_of_ne _ (hnn2 r hr), Bool.and_true] at this
  · refine Inv.nullable b (fun r => isPresent (cellAt j1 r) && isPresent (cellAt j2 r)) rfl rfl rfl
      (by simp [hp1, hp2, combinePresent, zipWith_map_map]) hrow

/-- Decoded value of an integer cell (`Codec::decode` of the remaining ops applied to the stored value). -/
def IntEnc.dec : IntEnc → Val → Int
  | .off _ o, v => encAdd o v + o
  | _, v => intOf v

theorem IntEnc.dec_int (enc : IntEnc) (i : Int) : enc.dec (.int i) = i := by
  cases enc <;> simp [IntEnc.dec, intOf, encAdd]

theorem decodeData_int (rows : List Row) (j : Nat) (out : Out) (enc : IntEnc) (hc : IntCol rows j out enc) :
    decodeData out.ty out.data = some (.ints (rows.map fun r => enc.dec (cellAt j r))) := by
  cases enc <;> simp [decodeData, hc.ops, hc.data, IntEnc.ops, IntEnc.enc, IntEnc.dec, List.map_map, Function.comp_def]

theorem cmpRes_ints_ints (op : CmpOp) (xs ys : List Int) :
    cmpRes op (.ints xs) (.ints ys) = some (List.zipWith (fun u v => cmpVia op u v) xs ys) := by
  cases op <;> simp [cmpRes, lower, cmpData, cmpVia]
  all_goals
    induction xs generalizing ys with
    | nil => simp
    | cons x xs ih => cases ys <;> simp [ih]

theorem inv_cmp_int_colcol (fp : FP) (op : CmpOp) (rows : List Row) (j1 j2 : Nat) (l r : Out) (e1 e2 : IntEnc)
    (h1 : IntCol rows j1 l e1) (h2 : IntCol rows j2 r e2) :
    ∃ out, cmpNode fp op l r = .ok out ∧ Inv fp.i2f rows (.cmp op (.col j1) (.col j2)) out := by
  have hfd : findDecl op l.ty.decoded r.ty.decoded = some (.same .integer) :=
    findDecl_same op _ _ .integer (Or.inl rfl) h1.dec h2.dec
  refine ⟨{ data := .bits (rows.map fun row => cmpVia op (e1.dec (cellAt j1 row)) (e2.dec (cellAt j2 row))),
            present := combinePresent l.present r.present, ty := boolTy, poison := false }, ?_, ?_⟩
  · unfold cmpNode
    rw [hfd]
    simp [prepOperands, Decl.invariant, h1.base.scalar, h2.base.scalar, decodeData_int rows j1 l e1 h1,
      decodeData_int rows j2 r e2 h2, castOperands, cmpExec, cmpRes_ints_ints, zipWith_map_map, h1.base.poison, h2.base.poison]
  · apply inv_of_cmp2 fp.i2f rows j1 j2 op l r _ h1.base h2.base
    intro row hr n1 n2
    rcases h1.cells row hr with h | ⟨a, ha⟩
    · exact absurd h n1
    · rcases h2.cells row hr with h | ⟨b, hb⟩
      · exact absurd h n2
      · rw [ha, hb, IntEnc.dec_int, IntEnc.dec_int, lower_int]; rfl

/-- Decoded value of a string cell (`DictLookup` of the stored index). -/
def StrEnc.dec : StrEnc → Val → Bytes
  | .plain, v => strOf v
  | .dict _ d, v => d.getD (dictIndex d v).toNat []

theorem getD_pos (s : Bytes) (d : List Bytes) (h : s ∈ d) : d.getD (pos s d) [] = s := by
  induction d with
  | nil => cases h
  | cons x xs ih =>
    simp only [pos]
    by_cases hx : x = s
    · simp [hx]
    · have hs : s ∈ xs := by
        cases h with
        | head => exact absurd rfl hx
        | tail _ h => exact h
      have := ih hs
      simp only [List.getD_eq_getElem?_getD] at this
      simp [hx, this]

theorem StrEnc.dec_str (enc : StrEnc) (s : Bytes) (hw : enc.WellEnc s) : enc.dec (.str s) = s := by
  cases enc with
  | plain => rfl
  | dict t d =>
    simp only [StrEnc.dec, dictIndex_eq s d hw.2, Int.toNat_natCast]
    exact getD_pos s d hw.2

theorem decodeData_str (rows : List Row) (j : Nat) (out : Out) (enc : StrEnc) (hc : StrCol rows j out enc) :
    decodeData out.ty out.data = some (.strs (rows.map fun r => enc.dec (cellAt j r))) := by
  cases enc <;> simp [decodeData, hc.ops, hc.data, hc.dictEq, StrEnc.ops, StrEnc.data, StrEnc.dec, StrEnc.dictOf,
    List.map_map, Function.comp_def]

theorem cmpRes_strs_strs (op : CmpOp) (xs ys : List Bytes) :
    cmpRes op (.strs xs) (.strs ys) = some (List.zipWith (fun u v => cmpViaBytes op u v) xs ys) := by
  cases op <;> simp [cmpRes, lower, cmpData, cmpViaBytes]
  all_goals
    induction xs generalizing ys with
    | nil => simp
    | cons x xs ih => cases ys <;> simp [ih]

theorem inv_cmp_str_colcol (fp : FP) (op : CmpOp) (rows : List Row) (j1 j2 : Nat) (l r : Out) (e1 e2 : StrEnc)
    (h1 : StrCol rows j1 l e1) (h2 : StrCol rows j2 r e2) :
    ∃ out, cmpNode fp op l r = .ok out ∧ Inv fp.i2f rows (.cmp op (.col j1) (.col j2)) out := by
  have hfd : findDecl op l.ty.decoded r.ty.decoded = some (.same .string) :=
    findDecl_same op _ _ .string (Or.inr (Or.inr rfl)) h1.dec h2.dec
  refine ⟨{ data := .bits (rows.map fun row => cmpViaBytes op (e1.dec (cellAt j1 row)) (e2.dec (cellAt j2 row))),
            present := combinePresent l.present r.present, ty := boolTy, poison := false }, ?_, ?_⟩
  · unfold cmpNode
    rw [hfd]
    simp [prepOperands, Decl.invariant, h1.base.scalar, h2.base.scalar, decodeData_str rows j1 l e1 h1,
      decodeData_str rows j2 r e2 h2, castOperands, cmpExec, cmpRes_strs_strs, h1.base.poison, h2.base.poison]
  · apply inv_of_cmp2 fp.i2f rows j1 j2 op l r _ h1.base h2.base
    intro row hr n1 n2
    rcases h1.cells row hr with h | ⟨a, ha⟩
    · exact absurd h n1
    · rcases h2.cells row hr with h | ⟨b, hb⟩
      · exact absurd h n2
      · rw [ha, hb, StrEnc.dec_str e1 a (h1.wellEnc row hr a ha), StrEnc.dec_str e2 b (h2.wellEnc row hr b hb), lower_bytes]; rfl

/-! ### the supported fragment and the assembled invariant -/

/-- Atomic predicates covered by `C03_where`, relative to the partition's column images. -/
inductive Atom (fp : FP) (part : Part) (rows : List Row) : Expr → Prop where
  | intRight (op : CmpOp) (j : Nat) (c : Int) (l : Out) (enc : IntEnc) :
      colRef part j = .ok l → IntCol rows j l enc → Atom fp part rows (.cmp op (.col j) (.lit (.int c)))
  | intLeft (op : CmpOp) (j : Nat) (c : Int) (l : Out) (enc : IntEnc) :
      colRef part j = .ok l → IntCol rows j l enc → Atom fp part rows (.cmp op (.lit (.int c)) (.col j))
  | strRight (op : CmpOp) (j : Nat) (c : Bytes) (l : Out) (enc : StrEnc) :
      colRef part j = .ok l → StrCol rows j l enc → Atom fp part rows (.cmp op (.col j) (.lit (.str c)))
  | strLeft (op : CmpOp) (j : Nat) (c : Bytes) (l : Out) (enc : StrEnc) :
      colRef part j = .ok l → StrCol rows j l enc → Atom fp part rows (.cmp op (.lit (.str c)) (.col j))
  | floatRight (op : CmpOp) (j : Nat) (k : Val) (c : Nat) (l o : Out) :
      colRef part j = .ok l → FloatCol rows j l → litOut k = some o → floatConst fp k = some c →
      Atom fp part rows (.cmp op (.col j) (.lit k))
  | floatLeft (op : CmpOp) (j : Nat) (k : Val) (c : Nat) (l o : Out) :
      colRef part j = .ok l → FloatCol rows j l → litOut k = some o → floatConst fp k = some c →
      Atom fp part rows (.cmp op (.lit k) (.col j))
  | intColCol (op : CmpOp) (j1 j2 : Nat) (l r : Out) (e1 e2 : IntEnc) :
      colRef part j1 = .ok l → colRef part j2 = .ok r → IntCol rows j1 l e1 → IntCol rows j2 r e2 →
      Atom fp part rows (.cmp op (.col j1) (.col j2))
  | strColCol (op : CmpOp) (j1 j2 : Nat) (l r : Out) (e1 e2 : StrEnc) :
      colRef part j1 = .ok l → colRef part j2 = .ok r → StrCol rows j1 l e1 → StrCol rows j2 r e2 →
      Atom fp part rows (.cmp op (.col j1) (.col j2))
  | absentRight (op : CmpOp) (j : Nat) (k : Val) (a o : Out) :
      colRef part j = .ok a → AbsentCol rows j a → litOut k = some o → Atom fp part rows (.cmp op (.col j) (.lit k))
  | absentLeft (op : CmpOp) (j : Nat) (k : Val) (a o : Out) :
      colRef part j = .ok a → AbsentCol rows j a → litOut k = some o → Atom fp part rows (.cmp op (.lit k) (.col j))
  | isNull (j : Nat) (a : Out) :
      colRef part j = .ok a → (IsCol rows j a ∨ AbsentCol rows j a) → Atom fp part rows (.isNull (.col j))
  | isNotNull (j : Nat) (a : Out) :
      colRef part j = .ok a → (IsCol rows j a ∨ AbsentCol rows j a) → Atom fp part rows (.isNotNull (.col j))

/-- The fragment of predicates for which the engine's filter is proved equal to the specification's:
    atoms as above, AND / OR / NOT without restriction (NOT of a nullable operand is rejected by the engine itself with an
    error value). -/
inductive Frag (fp : FP) (part : Part) (rows : List Row) : Expr → Prop where
  | atom (e : Expr) : Atom fp part rows e → Frag fp part rows e
  | and (l r : Expr) : Frag fp part rows l → Frag fp part rows r → Frag fp part rows (.and l r)
  | or (l r : Expr) : Frag fp part rows l → Frag fp part rows r → Frag fp part rows (.or l r)
  | not (e : Expr) : Frag fp part rows e → Frag fp part rows (.not e)

theorem compile_lit (fp : FP) (part : Part) (k : Val) (o : Out) (h : litOut k = some o) :
    compile fp part (.lit k) = .ok o := by
  cases k <;> simp [litOut] at h <;> subst h <;> rfl

theorem inv_atom (fp : FP) (part : Part) (rows : List Row) (hlen : part.len = rows.length) (e : Expr)
    (ha : Atom fp part rows e) (out : Out) (h : compile fp part e = .ok out) : Inv fp.i2f rows e out := by
  cases ha with
  | intRight op j c l enc hl hc =>
    obtain ⟨o, ho, hinv⟩ := inv_cmp_int_right fp op rows j l enc c hc
    have : compile fp part (.cmp op (.col j) (.lit (.int c))) = cmpNode fp op l (litOutI c) := by
      simp [compile, hl]; rfl
    rw [this, ho] at h; cases h; exact hinv
  | intLeft op j c l enc hl hc =>
    obtain ⟨o, ho, hinv⟩ := inv_cmp_int_left fp op rows j l enc c hc
    have : compile fp part (.cmp op (.lit (.int c)) (.col j)) = cmpNode fp op (litOutI c) l := by
      simp [compile, hl]; rfl
    rw [this, ho] at h; cases h; exact hinv
  | strRight op j c l enc hl hc =>
    obtain ⟨o, ho, hinv⟩ := inv_cmp_str_right fp op rows j l enc c hc
    have : compile fp part (.cmp op (.col j) (.lit (.str c))) = cmpNode fp op l (litOutS c) := by
      simp [compile, hl]; rfl
    rw [this, ho] at h; cases h; exact hinv
  | strLeft op j c l enc hl hc =>
    obtain ⟨o, ho, hinv⟩ := inv_cmp_str_left fp op rows j l enc c hc
    have : compile fp part (.cmp op (.lit (.str c)) (.col j)) = cmpNode fp op (litOutS c) l := by
      simp [compile, hl]; rfl
    rw [this, ho] at h; cases h; exact hinv
  | floatRight op j k c l o hl hc hk hcst =>
    obtain ⟨o', ho, hinv⟩ := inv_cmp_float_right fp op rows j l o k c hc hk hcst
    have : compile fp part (.cmp op (.col j) (.lit k)) = cmpNode fp op l o := by
      simp [compile, hl, compile_lit fp part k o hk]
    rw [this, ho] at h; cases h; exact hinv
  | floatLeft op j k c l o hl hc hk hcst =>
    obtain ⟨o', ho, hinv⟩ := inv_cmp_float_left fp op rows j l o k c hc hk hcst
    have : compile fp part (.cmp op (.lit k) (.col j)) = cmpNode fp op o l := by
      simp [compile, hl, compile_lit fp part k o hk]
    rw [this, ho] at h; cases h; exact hinv
  | intColCol op j1 j2 l r e1 e2 hl hr h1 h2 =>
    obtain ⟨o', ho, hinv⟩ := inv_cmp_int_colcol fp op rows j1 j2 l r e1 e2 h1 h2
    have : compile fp part (.cmp op (.col j1) (.col j2)) = cmpNode fp op l r := by
      simp [compile, hl, hr]
    rw [this, ho] at h; cases h; exact hinv
  | strColCol op j1 j2 l r e1 e2 hl hr h1 h2 =>
    obtain ⟨o', ho, hinv⟩ := inv_cmp_str_colcol fp op rows j1 j2 l r e1 e2 h1 h2
    have : compile fp part (.cmp op (.col j1) (.col j2)) = cmpNode fp op l r := by
      simp [compile, hl, hr]
    rw [this, ho] at h; cases h; exact hinv
  | absentRight op j k a o hl hc hk =>
    obtain ⟨o', ho, hinv⟩ := inv_cmp_absent_right fp op rows j a o k hc hk
    have : compile fp part (.cmp op (.col j) (.lit k)) = cmpNode fp op a o := by
      simp [compile, hl, compile_lit fp part k o hk]
    rw [this, ho] at h; cases h; exact hinv
  | absentLeft op j k a o hl hc hk =>
    obtain ⟨o', ho, hinv⟩ := inv_cmp_absent_left fp op rows j a o k hc hk
    have : compile fp part (.cmp op (.lit k) (.col j)) = cmpNode fp op o a := by
      simp [compile, hl, compile_lit fp part k o hk]
    rw [this, ho] at h; cases h; exact hinv
  | isNull j a hl hc =>
    obtain ⟨o, ho, hinv⟩ := inv_isNull fp.i2f rows j a true hc
    have : compile fp part (.isNull (.col j)) = isNullNode rows.length true a := by
      simp [compile, hl, hlen]
    rw [this, ho] at h; cases h; simpa using hinv
  | isNotNull j a hl hc =>
    obtain ⟨o, ho, hinv⟩ := inv_isNull fp.i2f rows j a false hc
    have : compile fp part (.isNotNull (.col j)) = isNullNode rows.length false a := by
      simp [compile, hl, hlen]
    rw [this, ho] at h; cases h; simpa using hinv

theorem inv_frag (fp : FP) (part : Part) (rows : List Row) (hlen : part.len = rows.length) (e : Expr)
    (hf : Frag fp part rows e) : ∀ out, compile fp part e = .ok out → Inv fp.i2f rows e out := by
  induction hf with
  | atom e ha => exact inv_atom fp part rows hlen e ha
  | and l r _ _ ihl ihr =>
    intro out h
    simp only [compile] at h
    split at h
    · cases h
    · rename_i a ha
      split at h
      · cases h
      · rename_i b hb
        exact inv_and fp.i2f rows l r a b out (ihl a ha) (ihr b hb) h
  | or l r _ _ ihl ihr =>
    intro out h
    simp only [compile] at h
    split at h
    · cases h
    · rename_i a ha
      split at h
      · cases h
      · rename_i b hb
        exact inv_or fp.i2f rows l r a b out (ihl a ha) (ihr b hb) h
  | not e _ ih =>
    intro out h
    simp only [compile] at h
    split at h
    · cases h
    · rename_i a ha
      exact inv_not fp.i2f rows e a out (ih a ha) h

/-- `implFilter` = positions of the rows the specification keeps. -/
theorem where_of_frag (fp : FP) (part : Part) (rows : List Row) (hlen : part.len = rows.length) (e : Expr)
    (hf : Frag fp part rows e) (idx : List Nat) (h : implFilter fp part e = .ok idx) :
    ∃ keep : Row → Bool, idx = idxTrue (rows.map keep) 0 ∧ filterRows fp.i2f (some e) rows = .ok (rows.filter keep) := by
  unfold implFilter at h
  split at h
  · cases h
  · rename_i out hout
    have hinv := inv_frag fp part rows hlen e hf out hout
    cases hinv with
    | exact b hp ht hd hn hv =>
      simp [whereFilter, hp, ht, hd, hn] at h
      refine ⟨b, ?_, filterRows_of_truth fp.i2f e rows b (fun r hr => truth_of_exact _ _ _ _ (hv r hr))⟩
      rw [← h, filter_apply]; rfl
    | nullable b p hp ht hd hn hv =>
      simp [whereFilter, hp, ht, hd, hn] at h
      refine ⟨fun r => b r && p r, ?_, filterRows_of_truth fp.i2f e rows _ hv⟩
      rw [← h, filter_apply]; simp [cellsTrue, zipWith_map_map]
    | nullTyped hp ht hv =>
      simp [whereFilter, hp, ht] at h
      refine ⟨fun _ => false, ?_, filterRows_of_truth fp.i2f e rows _ hv⟩
      rw [h, idxTrue_all_false]

/-! ### no panic inside the fragment -/

theorem atom_compiles (fp : FP) (part : Part) (rows : List Row) (hlen : part.len = rows.length) (e : Expr)
    (ha : Atom fp part rows e) : ∃ out, compile fp part e = .ok out := by
  cases ha with
  | intRight op j c l enc hl hc =>
    obtain ⟨o, ho, _⟩ := inv_cmp_int_right fp op rows j l enc c hc
    exact ⟨o, by simp [compile, hl]; exact ho⟩
  | intLeft op j c l enc hl hc =>
    obtain ⟨o, ho, _⟩ := inv_cmp_int_left fp op rows j l enc c hc
    exact ⟨o, by simp [compile, hl]; exact ho⟩
  | strRight op j c l enc hl hc =>
    obtain ⟨o, ho, _⟩ := inv_cmp_str_right fp op rows j l enc c hc
    exact ⟨o, by simp [compile, hl]; exact ho⟩
  | strLeft op j c l enc hl hc =>
    obtain ⟨o, ho, _⟩ := inv_cmp_str_left fp op rows j l enc c hc
    exact ⟨o, by simp [compile, hl]; exact ho⟩
  | floatRight op j k c l o hl hc hk hcst =>
    obtain ⟨o', ho, _⟩ := inv_cmp_float_right fp op rows j l o k c hc hk hcst
    exact ⟨o', by simp [compile, hl, compile_lit fp part k o hk]; exact ho⟩
  | floatLeft op j k c l o hl hc hk hcst =>
    obtain ⟨o', ho, _⟩ := inv_cmp_float_left fp op rows j l o k c hc hk hcst
    exact ⟨o', by simp [compile, hl, compile_lit fp part k o hk]; exact ho⟩
  | intColCol op j1 j2 l r e1 e2 hl hr h1 h2 =>
    obtain ⟨o', ho, _⟩ := inv_cmp_int_colcol fp op rows j1 j2 l r e1 e2 h1 h2
    exact ⟨o', by simp [compile, hl, hr]; exact ho⟩
  | strColCol op j1 j2 l r e1 e2 hl hr h1 h2 =>
    obtain ⟨o', ho, _⟩ := inv_cmp_str_colcol fp op rows j1 j2 l r e1 e2 h1 h2
    exact ⟨o', by simp [compile, hl, hr]; exact ho⟩
  | absentRight op j k a o hl hc hk =>
    obtain ⟨o', ho, _⟩ := inv_cmp_absent_right fp op rows j a o k hc hk
    exact ⟨o', by simp [compile, hl, compile_lit fp part k o hk]; exact ho⟩
  | absentLeft op j k a o hl hc hk =>
    obtain ⟨o', ho, _⟩ := inv_cmp_absent_left fp op rows j a o k hc hk
    exact ⟨o', by simp [compile, hl, compile_lit fp part k o hk]; exact ho⟩
  | isNull j a hl hc =>
    obtain ⟨o, ho, _⟩ := inv_isNull fp.i2f rows j a true hc
    exact ⟨o, by simp [compile, hl, hlen]; exact ho⟩
  | isNotNull j a hl hc =>
    obtain ⟨o, ho, _⟩ := inv_isNull fp.i2f rows j a false hc
    exact ⟨o, by simp [compile, hl, hlen]; exact ho⟩

theorem boolNode_no_panic (isOr : Bool) (a b : Out) : boolNode isOr a b ≠ .error .panic := by
  unfold boolNode
  repeat' split
  all_goals first | (simp; done) | (simp; split <;> simp)

theorem notNode_no_panic (a : Out) : notNode a ≠ .error .panic := by
  unfold notNode
  repeat' split
  all_goals simp

/-- Compiling a predicate of the fragment never panics (it yields a plan, or an error value). -/
theorem compile_no_panic (fp : FP) (part : Part) (rows : List Row) (hlen : part.len = rows.length) (e : Expr)
    (hf : Frag fp part rows e) : compile fp part e ≠ .error .panic := by
  induction hf with
  | atom e ha =>
    obtain ⟨o, ho⟩ := atom_compiles fp part rows hlen e ha
    rw [ho]; simp
  | and l r _ _ ihl ihr =>
    simp only [compile]
    split
    · rename_i e' he; intro h; cases h; exact ihl he
    · split
      · rename_i e' he; intro h; cases h; exact ihr he
      · exact boolNode_no_panic false _ _
  | or l r _ _ ihl ihr =>
    simp only [compile]
    split
    · rename_i e' he; intro h; cases h; exact ihl he
    · split
      · rename_i e' he; intro h; cases h; exact ihr he
      · exact boolNode_no_panic true _ _
  | not e _ ih =>
    simp only [compile]
    split
    · rename_i e' he; intro h; cases h; exact ih he
    · exact notNode_no_panic _

/-- Inside the fragment the engine model never panics. -/
theorem frag_no_panic (fp : FP) (part : Part) (rows : List Row) (hlen : part.len = rows.length) (e : Expr)
    (hf : Frag fp part rows e) : implFilter fp part e ≠ .error .panic := by
  intro h
  unfold implFilter at h
  split at h
  · rename_i err herr; cases h; exact absurd herr (compile_no_panic fp part rows hlen e hf)
  · rename_i out hout
    have hinv := inv_frag fp part rows hlen e hf out hout
    split at h
    · rename_i err hw
      cases h
      cases hinv with
      | exact b hp ht hd hn hv => simp [whereFilter, ht, hd] at hw
      | nullable b p hp ht hd hn hv => simp [whereFilter, ht, hd] at hw
      | nullTyped hp ht hv => simp [whereFilter, ht] at hw
    · split at h <;> cases h

end LM.C03W
