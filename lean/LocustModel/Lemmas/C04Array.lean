import LocustModel.Query.Group
/-
  C04 helper lemmas: array aggregation (Aggregate / AggregateNullable / CheckedAggregate + Exists +
  NonzeroIndices + Compact) computes, for every raw grouping key below the cardinality bound, exactly the fold
  of the aggregator over the inputs of the rows carrying that key.
-/
namespace LM.C04L
open LM LM.Group

/-- inputs of the rows whose grouping key is `k`, in row order -/
def groupVals {α : Type} (k : Nat) (rows : List (Nat × α)) : List α := (rows.filter (·.1 = k)).map (·.2)

theorem accumulate_spec (f : Int → Int → Int) (rows : List (Nat × Int)) (acc : List Int)
    (h : ∀ p ∈ rows, p.1 < acc.length) :
    ∃ acc', accumulate f acc rows = some acc' ∧ acc'.length = acc.length ∧
      ∀ k (hk : k < acc.length) (hk' : k < acc'.length), acc'[k] = (groupVals k rows).foldl f acc[k] := by
  induction rows generalizing acc with
  | nil => exact ⟨acc, by simp [accumulate], rfl, by intro k hk hk'; simp [groupVals]⟩
  | cons p rest ih =>
    obtain ⟨g, n⟩ := p
    have hg : g < acc.length := h (g, n) (by simp)
    have hrest : ∀ p ∈ rest, p.1 < (acc.set g (f acc[g] n)).length := by
      intro p hp; simp; exact h p (by simp [hp])
    obtain ⟨acc', h1, h2, h3⟩ := ih (acc.set g (f acc[g] n)) hrest
    refine ⟨acc', by simp [accumulate, hg, h1], by simpa using h2, ?_⟩
    intro k hk hk'
    have := h3 k (by simpa using hk) hk'
    rw [this]
    by_cases hkg : g = k
    · subst hkg
      simp [groupVals]
    · have : ¬ (g = k) := hkg
      simp [groupVals, this, List.getElem_set_ne hkg]

theorem existsOp_spec (keys : List Nat) (ex : List Nat) (h : ∀ g ∈ keys, g < ex.length) :
    ∃ ex', existsOp ex keys = some ex' ∧ ex'.length = ex.length ∧
      ∀ k (hk : k < ex.length) (hk' : k < ex'.length), ex'[k] = if k ∈ keys then 1 else ex[k] := by
  induction keys generalizing ex with
  | nil => exact ⟨ex, by simp [existsOp], rfl, by intro k hk hk'; simp⟩
  | cons g rest ih =>
    have hg : g < ex.length := h g (by simp)
    have hrest : ∀ p ∈ rest, p < (ex.set g 1).length := by
      intro p hp; simp; exact h p (by simp [hp])
    obtain ⟨ex', h1, h2, h3⟩ := ih (ex.set g 1) hrest
    refine ⟨ex', by simp [existsOp, hg, h1], by simpa using h2, ?_⟩
    intro k hk hk'
    have := h3 k (by simpa using hk) hk'
    rw [this]
    by_cases hkg : g = k
    · subst hkg; simp
    · by_cases hkr : k ∈ rest
      · simp [hkr]
      · have : ¬ k = g := fun h => hkg h.symm
        simp [hkr, this, List.getElem_set_ne hkg]

theorem compact_map {α : Type} (L : List Nat) (A : Nat → α) (S : Nat → Nat) :
    compact (L.map A) (L.map S) = (L.filter (fun k => S k > 0)).map A := by
  induction L with
  | nil => simp [compact]
  | cons x xs ih =>
    by_cases h : S x > 0 <;> simp [compact, h, ih]

theorem nonzero_map (i n : Nat) (S : Nat → Nat) :
    nonzeroIndicesFrom i ((List.range' i n).map S) = (List.range' i n).filter (fun k => S k > 0) := by
  induction n generalizing i with
  | zero => simp [nonzeroIndicesFrom]
  | succ n ih =>
    simp only [List.range'_succ, List.map_cons, nonzeroIndicesFrom]
    by_cases h : S i > 0 <;> simp [h, ih (i + 1)]

/-- a list is the table of its entries -/
theorem eq_map_range {α : Type} (xs : List α) (n : Nat) (A : Nat → α) (hl : xs.length = n)
    (h : ∀ k (hk : k < xs.length), xs[k] = A k) : xs = (List.range n).map A := by
  apply List.ext_getElem
  · simp [hl]
  · intro k h1 h2
    simp [h k h1]

/-- The generic array pipeline: for keys ≤ `m`, the compacted accumulators are, in ascending key order and
    one entry per key that occurs, the fold of `f` from `u` over the inputs of that key. -/
theorem array_pipeline (f : Int → Int → Int) (u : Int) (m : Nat) (rows : List (Nat × Int))
    (h : ∀ p ∈ rows, p.1 ≤ m) :
    ∃ acc sel, accumulate f (freshAcc m u) rows = some acc ∧
      existsOp (List.replicate (m + 1) 0) (rows.map (·.1)) = some sel ∧
      nonzeroIndices sel = (List.range (m + 1)).filter (fun k => k ∈ rows.map (·.1)) ∧
      compact acc sel = ((List.range (m + 1)).filter (fun k => k ∈ rows.map (·.1))).map
        (fun k => (groupVals k rows).foldl f u) := by
  have h1 : ∀ p ∈ rows, p.1 < (freshAcc m u).length := by
    intro p hp; have := h p hp; simp [freshAcc]; omega
  obtain ⟨acc, ha1, ha2, ha3⟩ := accumulate_spec f rows (freshAcc m u) h1
  have h2 : ∀ g ∈ rows.map (·.1), g < (List.replicate (m + 1) 0).length := by
    intro g hg
    simp at hg
    obtain ⟨b, hb⟩ := hg
    have := h (g, b) hb
    simp; omega
  obtain ⟨sel, hs1, hs2, hs3⟩ := existsOp_spec (rows.map (·.1)) (List.replicate (m + 1) 0) h2
  have hacc : acc = (List.range (m + 1)).map (fun k => (groupVals k rows).foldl f u) := by
    apply eq_map_range _ _ _ (by simpa [freshAcc] using ha2)
    intro k hk
    have hk2 : k < (freshAcc m u).length := by rw [← ha2]; exact hk
    rw [ha3 k hk2 hk]
    simp [freshAcc]
  have hsel : sel = (List.range (m + 1)).map (fun k => if k ∈ rows.map (·.1) then 1 else 0) := by
    apply eq_map_range _ _ _ (by simpa using hs2)
    intro k hk
    have hk2 : k < (List.replicate (m + 1) 0).length := by rw [← hs2]; exact hk
    rw [hs3 k hk2 hk]
    simp
  refine ⟨acc, sel, ha1, hs1, ?_, ?_⟩
  · rw [hsel]
    unfold nonzeroIndices
    have := nonzero_map 0 (m + 1) (fun k => if k ∈ rows.map (·.1) then 1 else 0)
    rw [List.range_eq_range']
    rw [this]
    congr 1
    funext k
    by_cases hk : k ∈ rows.map (·.1) <;> simp [hk]
  · rw [hacc, hsel, compact_map]
    congr 1
    congr 1
    funext k
    by_cases hk : k ∈ rows.map (·.1) <;> simp [hk]

/-! ### CheckedAggregate<SumI64> -/

theorem ovfAdd_exact (a n : Int) (h : (ovfAdd a n).2 = false) : (ovfAdd a n).1 = a + n := by
  unfold ovfAdd at *
  simp at h
  simp [wrap64_id h]

/-- If no overflow was flagged, the accumulators hold the exact sums. -/
theorem accumulateChecked_spec (rows : List (Nat × Int)) (acc : List Int) (ovf : Bool)
    (h : ∀ p ∈ rows, p.1 < acc.length) :
    ∃ acc' ovf', accumulateChecked (acc, ovf) rows = some (acc', ovf') ∧ acc'.length = acc.length ∧
      (ovf' = false → ovf = false ∧
        ∀ k (hk : k < acc.length) (hk' : k < acc'.length), acc'[k] = (groupVals k rows).foldl (· + ·) acc[k]) := by
  induction rows generalizing acc ovf with
  | nil => exact ⟨acc, ovf, by simp [accumulateChecked], rfl, by intro h; exact ⟨h, by intro k hk hk'; simp [groupVals]⟩⟩
  | cons p rest ih =>
    obtain ⟨g, n⟩ := p
    have hg : g < acc.length := h (g, n) (by simp)
    have hrest : ∀ p ∈ rest, p.1 < (acc.set g (ovfAdd acc[g] n).1).length := by
      intro p hp; simp; exact h p (by simp [hp])
    obtain ⟨acc', ovf', h1, h2, h3⟩ := ih (acc.set g (ovfAdd acc[g] n).1) (ovf || (ovfAdd acc[g] n).2) hrest
    refine ⟨acc', ovf', by simp [accumulateChecked, hg, h1], by simpa using h2, ?_⟩
    intro hov
    obtain ⟨h4, h5⟩ := h3 hov
    simp at h4
    refine ⟨h4.1, ?_⟩
    intro k hk hk'
    have := h5 k (by simpa using hk) hk'
    rw [this]
    have hex := ovfAdd_exact acc[g] n h4.2
    by_cases hkg : g = k
    · subst hkg
      simp [groupVals, hex]
    · have : ¬ (g = k) := hkg
      simp [groupVals, this, List.getElem_set_ne hkg]

/-! ### AggregateNullable -/

/-- present inputs of key `k` -/
def presentVals (k : Nat) (rows : List (Nat × Option Int)) : List Int := (groupVals k rows).filterMap id

theorem accumulateNullable_spec (f : Int → Int → Int) (rows : List (Nat × Option Int)) (acc : List Int)
    (pres : List Bool) (hl : pres.length = acc.length) (h : ∀ p ∈ rows, p.1 < acc.length) :
    ∃ acc' pres', accumulateNullable f (acc, pres) rows = some (acc', pres') ∧ acc'.length = acc.length ∧
      pres'.length = acc.length ∧
      ∀ k (hk : k < acc.length) (hk' : k < acc'.length) (hp : k < pres.length) (hp' : k < pres'.length),
        acc'[k] = (presentVals k rows).foldl f acc[k] ∧
        pres'[k] = (pres[k] || !(presentVals k rows).isEmpty) := by
  induction rows generalizing acc pres with
  | nil =>
    exact ⟨acc, pres, by simp [accumulateNullable], rfl, hl, by
      intro k hk hk' hp hp'; simp [presentVals, groupVals]⟩
  | cons p rest ih =>
    obtain ⟨g, n⟩ := p
    have hg : g < acc.length := h (g, n) (by simp)
    cases n with
    | none =>
      have hrest : ∀ p ∈ rest, p.1 < acc.length := fun p hp => h p (by simp [hp])
      obtain ⟨acc', pres', h1, h2, h2', h3⟩ := ih acc pres hl hrest
      refine ⟨acc', pres', by simp [accumulateNullable, h1], h2, h2', ?_⟩
      intro k hk hk' hp hp'
      have hh := h3 k hk hk' hp hp'
      by_cases hkg : g = k
      · subst hkg; simpa [presentVals, groupVals] using hh
      · have hne : ¬ (g = k) := hkg
        simpa [presentVals, groupVals, hne] using hh
    | some n =>
      have hrest : ∀ p ∈ rest, p.1 < (acc.set g (f acc[g] n)).length := by
        intro p hp; simp; exact h p (by simp [hp])
      obtain ⟨acc', pres', h1, h2, h2', h3⟩ :=
        ih (acc.set g (f acc[g] n)) (pres.set g true) (by simp [hl]) hrest
      refine ⟨acc', pres', by simp [accumulateNullable, hg, h1], by simpa using h2, by simpa using h2', ?_⟩
      intro k hk hk' hp hp'
      have := h3 k (by simpa using hk) hk' (by simpa using hp) hp'
      rw [this.1, this.2]
      by_cases hkg : g = k
      · subst hkg
        simp [presentVals, groupVals]
      · have : ¬ (g = k) := hkg
        simp [presentVals, groupVals, this, List.getElem_set_ne hkg]

end LM.C04L
