import LocustModel.Query.Filter
/-
  Helper lemmas for C03: byte-lexicographic order is a strict total order; in a strictly sorted dictionary the
  entries smaller than a constant form a prefix; what `inverseDictLookup` returns.
-/
namespace LM.C03L
open LM LM.Sql LM.Filter

theorem u8_lt_irrefl (a : UInt8) : ¬ a < a := by
  simp

theorem u8_trichotomy (a b : UInt8) (h1 : ¬ a < b) (h2 : ¬ b < a) : a = b := by
  have h1' : ¬ a.toNat < b.toNat := by rwa [← UInt8.lt_iff_toNat_lt]
  have h2' : ¬ b.toNat < a.toNat := by rwa [← UInt8.lt_iff_toNat_lt]
  apply UInt8.toNat_inj.mp; omega

theorem u8_lt_asymm (a b : UInt8) (h : a < b) : ¬ b < a := by
  rw [UInt8.lt_iff_toNat_lt] at *; omega

theorem u8_lt_trans (a b c : UInt8) (h1 : a < b) (h2 : b < c) : a < c := by
  rw [UInt8.lt_iff_toNat_lt] at *; omega

theorem bytesLt_irrefl (a : Bytes) : bytesLt a a = false := by
  induction a with
  | nil => rfl
  | cons x xs ih => simp [bytesLt, ih]

theorem bytesLt_asymm (a b : Bytes) (h : bytesLt a b = true) : bytesLt b a = false := by
  induction a generalizing b with
  | nil => cases b <;> simp_all [bytesLt]
  | cons x xs ih =>
    cases b with
    | nil => simp_all [bytesLt]
    | cons y ys =>
      simp only [bytesLt] at h ⊢
      by_cases hxy : x < y
      · have := u8_lt_asymm x y hxy; simp [this, hxy]
      · by_cases hyx : y < x
        · simp [hxy, hyx] at h
        · simp [hxy, hyx] at h ⊢; exact ih ys h

theorem bytesLt_total (a b : Bytes) (h : a ≠ b) : bytesLt a b = true ∨ bytesLt b a = true := by
  induction a generalizing b with
  | nil => cases b <;> simp_all [bytesLt]
  | cons x xs ih =>
    cases b with
    | nil => simp [bytesLt]
    | cons y ys =>
      simp only [bytesLt]
      by_cases hxy : x < y
      · simp [hxy]
      · by_cases hyx : y < x
        · simp [hxy, hyx]
        · have hEq := u8_trichotomy x y hxy hyx
          subst hEq
          simp [hxy]
          apply ih
          intro hc; apply h; rw [hc]

theorem bytesLt_trans (a b c : Bytes) (h1 : bytesLt a b = true) (h2 : bytesLt b c = true) : bytesLt a c = true := by
  induction a generalizing b c with
  | nil =>
    cases b with
    | nil => simp [bytesLt] at h1
    | cons y ys => cases c <;> simp_all [bytesLt]
  | cons x xs ih =>
    cases b with
    | nil => simp [bytesLt] at h1
    | cons y ys =>
      cases c with
      | nil => simp [bytesLt] at h2
      | cons z zs =>
        simp only [bytesLt] at h1 h2 ⊢
        by_cases hxy : x < y
        · by_cases hyz : y < z
          · simp [u8_lt_trans x y z hxy hyz]
          · by_cases hzy : z < y
            · simp [hyz, hzy] at h2
            · have := u8_trichotomy y z hyz hzy; subst this; simp [hxy]
        · by_cases hyx : y < x
          · simp [hxy, hyx] at h1
          · have hEq := u8_trichotomy x y hxy hyx
            subst hEq
            simp [hxy] at h1
            by_cases hxz : x < z
            · simp [hxz]
            · by_cases hzx : z < x
              · simp [hxz, hzx] at h2
              · simp [hxz, hzx] at h2 ⊢; exact ih ys zs h1 h2

/-- not (a < b) and a ≠ b gives b < a. -/
theorem bytesLt_of_not (a b : Bytes) (hne : a ≠ b) (h : bytesLt a b = false) : bytesLt b a = true := by
  rcases bytesLt_total a b hne with h' | h'
  · rw [h] at h'; cases h'
  · exact h'

/-- A dictionary as built by `fast_build_string_column`: strictly increasing in byte order. -/
def SortedDict (d : List Bytes) : Prop := d.Pairwise (fun a b => bytesLt a b = true)

/-- Number of dictionary entries smaller than `c` (the insertion point of `c` in a sorted dictionary). -/
def cntLt (c : Bytes) : List Bytes → Nat
  | [] => 0
  | d :: ds => (if bytesLt d c then 1 else 0) + cntLt c ds

/-- Position of `s` in the dictionary (length if absent). -/
def pos (s : Bytes) : List Bytes → Nat
  | [] => 0
  | d :: ds => if d = s then 0 else pos s ds + 1

theorem dictIndexAux_eq (s : Bytes) (d : List Bytes) (i : Nat) (h : s ∈ d) :
    dictIndexAux s d i = ((i + pos s d : Nat) : Int) := by
  induction d generalizing i with
  | nil => cases h
  | cons x xs ih =>
    simp only [dictIndexAux, pos]
    by_cases hx : x = s
    · simp [hx]
    · simp only [hx, if_false]
      have hs : s ∈ xs := by
        cases h with
        | head => exact absurd rfl hx
        | tail _ h => exact h
      rw [ih (i + 1) hs]; congr 1; omega

theorem dictIndex_eq (s : Bytes) (d : List Bytes) (h : s ∈ d) : dictIndex d (.str s) = (pos s d : Int) := by
  simp [dictIndex, dictIndexAux_eq s d 0 h]

theorem lookupAux_mem (c : Bytes) (rnd : Rounding) (d : List Bytes) (i sm : Nat) (h : c ∈ d) :
    inverseDictLookupAux c rnd d i sm = ((i + pos c d : Nat) : Int) := by
  induction d generalizing i sm with
  | nil => cases h
  | cons x xs ih =>
    simp only [inverseDictLookupAux, pos]
    by_cases hx : x = c
    · simp [hx]
    · simp only [hx, if_false]
      have hs : c ∈ xs := by
        cases h with
        | head => exact absurd rfl hx
        | tail _ h => exact h
      rw [ih (i + 1) _ hs]; congr 1; omega

theorem lookupAux_not_mem (c : Bytes) (rnd : Rounding) (d : List Bytes) (i sm : Nat) (h : c ∉ d) :
    inverseDictLookupAux c rnd d i sm =
      match rnd with | .exact => -1 | .down => ((sm + cntLt c d : Nat) : Int) - 1 | .up => ((sm + cntLt c d : Nat) : Int) := by
  induction d generalizing i sm with
  | nil => cases rnd <;> simp [inverseDictLookupAux, cntLt]
  | cons x xs ih =>
    have hx : x ≠ c := fun e => h (by simp [e])
    have hxs : c ∉ xs := fun e => h (by simp [e])
    simp only [inverseDictLookupAux, hx, if_false, cntLt]
    rw [ih (i + 1) _ hxs]
    by_cases hl : bytesLt x c = true
    · simp only [hl, if_true]; cases rnd <;> simp <;> omega
    · simp only [hl]; cases rnd <;> simp

theorem lookup_mem (c : Bytes) (rnd : Rounding) (d : List Bytes) (h : c ∈ d) :
    inverseDictLookup d rnd c = (pos c d : Int) := by
  simp [inverseDictLookup, lookupAux_mem c rnd d 0 0 h]

theorem lookup_not_mem (c : Bytes) (rnd : Rounding) (d : List Bytes) (h : c ∉ d) :
    inverseDictLookup d rnd c =
      match rnd with | .exact => -1 | .down => (cntLt c d : Int) - 1 | .up => (cntLt c d : Int) := by
  simp [inverseDictLookup, lookupAux_not_mem c rnd d 0 0 h]

/-- In a sorted dictionary, if nothing of the tail … : an entry smaller than `c` forces every earlier entry to be smaller. -/
theorem cntLt_zero_of_head (c x : Bytes) (xs : List Bytes) (hs : SortedDict (x :: xs)) (hx : bytesLt x c = false) (_hne : x ≠ c ∨ True) :
    cntLt c xs = 0 := by
  induction xs with
  | nil => rfl
  | cons y ys ih =>
    have hp := List.pairwise_cons.mp hs
    have hxy : bytesLt x y = true := hp.1 y (by simp)
    have hy : bytesLt y c = false := by
      cases hyc : bytesLt y c with
      | false => rfl
      | true => rw [bytesLt_trans x y c hxy hyc] at hx; cases hx
    simp only [cntLt, hy]
    have hs' : SortedDict (x :: ys) := by
      refine List.pairwise_cons.mpr ⟨fun z hz => hp.1 z (by simp [hz]), ?_⟩
      exact (List.pairwise_cons.mp hp.2).2
    simpa using ih hs'

/-- Sorted dictionary: the entry at position `pos s` is smaller than `c` iff its position is below the insertion point. -/
theorem lt_iff_pos_lt_cnt (c s : Bytes) (d : List Bytes) (hs : SortedDict d) (hm : s ∈ d) :
    bytesLt s c = true ↔ pos s d < cntLt c d := by
  induction d with
  | nil => cases hm
  | cons x xs ih =>
    have hp := List.pairwise_cons.mp hs
    simp only [pos, cntLt]
    by_cases hx : x = s
    · subst hx
      simp only [if_true]
      by_cases hl : bytesLt x c = true
      · simp [hl]; omega
      · have hl' : bytesLt x c = false := by simpa using hl
        have := cntLt_zero_of_head c x xs hs hl' (Or.inr trivial)
        simp [hl', this]
    · have hsx : s ∈ xs := by
        cases hm with
        | head => exact absurd rfl hx
        | tail _ h => exact h
      simp only [hx, if_false]
      have ih' := ih hp.2 hsx
      by_cases hl : bytesLt x c = true
      · simp only [hl, if_true]; rw [ih']; omega
      · have hl' : bytesLt x c = false := by simpa using hl
        have hz := cntLt_zero_of_head c x xs hs hl' (Or.inr trivial)
        have hxs : bytesLt x s = true := hp.1 s hsx
        have : bytesLt s c = false := by
          cases hsc : bytesLt s c with
          | false => rfl
          | true => rw [bytesLt_trans x s c hxs hsc] at hl'; cases hl'
        simp [hl', hz, this]

/-- Sorted dictionary: positions order like the strings. -/
theorem lt_iff_pos_lt_pos (c s : Bytes) (d : List Bytes) (hs : SortedDict d) (hm : s ∈ d) (hc : c ∈ d) :
    bytesLt s c = true ↔ pos s d < pos c d := by
  induction d with
  | nil => cases hm
  | cons x xs ih =>
    have hp := List.pairwise_cons.mp hs
    simp only [pos]
    by_cases hxs : x = s
    · by_cases hxc : x = c
      · subst hxs; subst hxc; simp [bytesLt_irrefl]
      · subst hxs
        have hcx : c ∈ xs := by
          cases hc with
          | head => exact absurd rfl hxc
          | tail _ h => exact h
        simp [hxc, hp.1 c hcx]
    · have hsx : s ∈ xs := by
        cases hm with
        | head => exact absurd rfl hxs
        | tail _ h => exact h
      by_cases hxc : x = c
      · subst hxc
        have : bytesLt x s = true := hp.1 s hsx
        simp [hxs, bytesLt_asymm x s this]
      · have hcx : c ∈ xs := by
          cases hc with
          | head => exact absurd rfl hxc
          | tail _ h => exact h
        simp only [hxs, hxc, if_false]
        rw [ih hp.2 hsx hcx]; omega

theorem pos_inj (c s : Bytes) (d : List Bytes) (hm : s ∈ d) (hc : c ∈ d) (h : pos s d = pos c d) : s = c := by
  induction d with
  | nil => cases hm
  | cons x xs ih =>
    simp only [pos] at h
    by_cases hxs : x = s
    · by_cases hxc : x = c
      · rw [← hxs, ← hxc]
      · rw [if_pos hxs, if_neg hxc] at h; omega
    · by_cases hxc : x = c
      · rw [if_neg hxs, if_pos hxc] at h; omega
      · simp only [hxs, hxc, if_false] at h
        have hsx : s ∈ xs := by
          cases hm with
          | head => exact absurd rfl hxs
          | tail _ h => exact h
        have hcx : c ∈ xs := by
          cases hc with
          | head => exact absurd rfl hxc
          | tail _ h => exact h
        exact ih hsx hcx (by omega)

end LM.C03L
