import LocustModel.Lemmas.C03Where
/-
  Non-vacuity example for `C03_where` (and witness partition of `C03_where_refuted`).
-/
namespace LM.C03W
open LM LM.Sql LM.Filter LM.C03L

namespace Ex
/-! Non-vacuity: a 3-row partition with `id` (plain i64) and a nullable offset-encoded column
    (`[PushDataSection(1), Nullable, Add(U8, -5)]`, cells 3, NULL, 100), predicate `c1 < i64::MAX AND NOT (id = 1)`. -/
def img0 : ColImg := { secs := [.i64], ops := [], dict := [] }
def img1 : ColImg := { secs := [.u8, .bitvec], ops := [.push 1, .nullable, .add .u8 (-5)], dict := [] }
def part : Part :=
  { len := 3, cols := [ (.img img0, [.int 0, .int 1, .int 2]), (.img img1, [.int 3, .null, .int 100]) ] }
def rows : List Row := [[.int 0, .int 3], [.int 1, .null], [.int 2, .int 100]]
def fp : FP := { i2f := fun _ => 0, encF := fun b _ => b }
def ty0 : Ty := { decoded := .integer, ops := [], isScalar := false }
def ty1 : Ty := { decoded := .ninteger, ops := [.add .u8 (-5)], isScalar := false }
def col0 : Out := { data := .ints [0, 1, 2], present := none, ty := ty0 }
def col1 : Out := { data := .ints [8, 0, 105], present := some [true, false, true], ty := ty1 }
def pred : Expr := .and (.cmp .lt (.col 1) (.lit (.int 9223372036854775807))) (.not (.cmp .eq (.col 0) (.lit (.int 1))))

theorem ref0 : colRef part 0 = .ok col0 := by
  simp [colRef, part, img0, outputType, castToBasic, hasProperty, hasPropertyAux,
    stage1Data, BT.isNullableVariant, BT.nonNullable, intOf, col0, ty0]
theorem ref1 : colRef part 1 = .ok col1 := by
  simp [colRef, part, img1, outputType, outputTypeStep, castToBasic, hasProperty, hasPropertyAux, ensureProperty,
    ensurePropertyAux, popN, COp.elementwise, COp.argCount, stage1Data, BT.isNullableVariant, encAdd, isPresent, col1, ty1]

theorem intCol0 : IntCol rows 0 col0 .plain := by
  refine ⟨⟨rfl, rfl, by simp [col0], Or.inl ⟨rfl, ?_⟩⟩, ?_, rfl, rfl, ?_, ?_⟩
  · simp [rows, cellAt]
  · simp [col0, rows, cellAt, IntEnc.enc, intOf]
  · simp [rows, cellAt]
  · intro r _ i _; trivial
theorem intCol1 : IntCol rows 1 col1 (.off .u8 (-5)) := by
  refine ⟨⟨rfl, rfl, by simp [col1], Or.inr ?_⟩, ?_, rfl, rfl, ?_, ?_⟩
  · simp [col1, rows, cellAt, isPresent]
  · simp [col1, rows, cellAt, IntEnc.enc, encAdd]
  · simp [rows, cellAt]
  · simp [rows, cellAt, IntEnc.WellEnc, I64_MIN, I64_MAX]

theorem frag : Frag fp part rows pred :=
  Frag.and _ _ (Frag.atom _ (Atom.intRight .lt 1 _ col1 _ ref1 intCol1))
    (Frag.not _ (Frag.atom _ (Atom.intRight .eq 0 1 col0 _ ref0 intCol0)))

theorem impl : implFilter fp part pred = .ok [0, 2] := by
  simp only [implFilter, compile, pred, ref0, ref1]
  rfl
end Ex

theorem idxTrue_length (rows : List Row) (keep : Row → Bool) (k : Nat) :
    (idxTrue (rows.map keep) k).length = (rows.filter keep).length := by
  induction rows generalizing k with
  | nil => rfl
  | cons r rs ih => simp only [List.map_cons, idxTrue, List.filter_cons]; cases keep r <;> simp [ih]


namespace Ex2
/-! Witness partition of the former finding C03-shared-str-const-panic (fixed in /repo 186ef0c): `c1` dictionary-coded (a, b), `c2` packed strings
    (q0, q1); predicate `c2 = 'a' AND c1 <> 'a'` (the literal 'a' is consumed by InverseDictLookup and by a streaming
    comparison). -/
def img0 : ColImg := { secs := [.i64], ops := [], dict := [] }
def img1 : ColImg := { secs := [.u8, .u64, .u8], ops := [.push 1, .push 2, .dict .u8], dict := [[97], [98]] }
def img2 : ColImg := { secs := [.u8], ops := [.unpack], dict := [] }
def part : Part :=
  { len := 2, cols := [ (.img img0, [.int 0, .int 1]), (.img img1, [.str [97], .str [98]]), (.img img2, [.str [113, 48], .str [113, 49]]) ] }
def rows : List Row := [[.int 0, .str [97], .str [113, 48]], [.int 1, .str [98], .str [113, 49]]]
def fp : FP := { i2f := fun _ => 0, encF := fun b _ => b }
def ty1 : Ty := { decoded := .string, ops := [.push 1, .push 2, .dict .u8], dict := [[97], [98]], isScalar := false }
def ty2 : Ty := { decoded := .string, ops := [], isScalar := false }
def col1 : Out := { data := .ints [0, 1], present := none, ty := ty1 }
def col2 : Out := { data := .strs [[113, 48], [113, 49]], present := none, ty := ty2 }
def pred : Expr := .and (.cmp .eq (.col 2) (.lit (.str [97]))) (.cmp .ne (.col 1) (.lit (.str [97])))

theorem ref1 : colRef part 1 = .ok col1 := by
  simp [colRef, part, img1, outputType, outputTypeStep, castToBasic, hasProperty, hasPropertyAux, popN,
    COp.elementwise, COp.argCount, stage1Data, BT.isNullableVariant, dictIndex, dictIndexAux, col1, ty1]
theorem ref2 : colRef part 2 = .ok col2 := by
  simp [colRef, part, img2, outputType, outputTypeStep, castToBasic, hasProperty, hasPropertyAux, ensureProperty,
    ensurePropertyAux, popN, COp.elementwise, COp.argCount, stage1Data, BT.isNullableVariant, BT.nonNullable, strOf, col2, ty2]

theorem strCol1 : StrCol rows 1 col1 (.dict .u8 [[97], [98]]) := by
  refine ⟨⟨rfl, rfl, by simp [col1], Or.inl ⟨rfl, ?_⟩⟩, ?_, rfl, rfl, rfl, ?_, ?_⟩
  · simp [rows, cellAt]
  · simp [col1, rows, cellAt, StrEnc.data, dictIndex, dictIndexAux]
  · simp [rows, cellAt]
  · simp [rows, cellAt, StrEnc.WellEnc, SortedDict, bytesLt]
theorem strCol2 : StrCol rows 2 col2 .plain := by
  refine ⟨⟨rfl, rfl, by simp [col2], Or.inl ⟨rfl, ?_⟩⟩, ?_, rfl, rfl, rfl, ?_, ?_⟩
  · simp [rows, cellAt]
  · simp [col2, rows, cellAt, StrEnc.data, strOf]
  · simp [rows, cellAt]
  · intro r _ s _; trivial

theorem frag : Frag fp part rows pred :=
  Frag.and _ _ (Frag.atom _ (Atom.strRight .eq 2 [97] col2 _ ref2 strCol2))
    (Frag.atom _ (Atom.strRight .ne 1 [97] col1 _ ref1 strCol1))

theorem impl : implFilter fp part pred = .ok [] := by
  simp only [implFilter, compile, pred, ref1, ref2]
  rfl
end Ex2

end LM.C03W
