import LocustModel.Query.QueryTask
/-
  Helper lemmas for C12: the invariant of the query-task transition system.
-/
namespace LM.Norm.Task
open LM

theorem total_mid (f : Worker → Nat) (l r : List Worker) (w : Worker) :
    total f (l ++ w :: r) = total f l + f w + total f r := by
  simp [total, List.sum_append]; omega

theorem noDead_swap {l r : List Worker} {w w' : Worker} (h : NoDead (l ++ w' :: r)) (hw : w ≠ .dead) :
    NoDead (l ++ w :: r) := by
  intro x hx
  rcases List.mem_append.mp hx with hx | hx
  · exact h x (List.mem_append_left _ hx)
  · rcases List.mem_cons.mp hx with rfl | hx
    · exact hw
    · exact h x (List.mem_append_right _ (List.mem_cons_of_mem _ hx))

theorem not_noDead_dead (l r : List Worker) : ¬ NoDead (l ++ Worker.dead :: r) := by
  intro h; exact h .dead (List.mem_append_right _ List.mem_cons_self) rfl

theorem mem_swap {l r : List Worker} {w w' x : Worker} (hx : x ∈ l ++ w' :: r) :
    x = w' ∨ x ∈ l ++ w :: r := by
  rcases List.mem_append.mp hx with hx | hx
  · right; exact List.mem_append_left _ hx
  · rcases List.mem_cons.mp hx with rfl | hx
    · left; rfl
    · right; exact List.mem_append_right _ (List.mem_cons_of_mem _ hx)

theorem mem_mid (l r : List Worker) (w : Worker) : w ∈ l ++ w :: r :=
  List.mem_append_right _ List.mem_cons_self

/-- Invariant of every reachable state. -/
structure Inv (s : St) : Prop where
  /-- at most one value ever goes into the channel -/
  deliv : s.sh.delivered = if s.sh.senderPresent then 0 else 1
  /-- `completed` is only set together with a send -/
  compl : s.sh.completed = true → s.sh.senderPresent = false
  /-- no partitions: the early answer was sent by `QueryTask::new` -/
  empty : s.sh.parts = 0 → s.sh.senderPresent = false
  /-- every partition is unclaimed, being processed, held locally, or counted in `completed_batches` -/
  acct : NoDead s.ws → s.sh.completed = false →
    s.sh.completedBatches + total Worker.held s.ws + total Worker.inProcess s.ws
      + (s.sh.parts - s.sh.batchIndex) = s.sh.parts
  /-- the push that brings `completed_batches` to `partitions.len()` completes the task -/
  below : NoDead s.ws → s.sh.completed = false → s.sh.parts = 0 ∨ s.sh.completedBatches < s.sh.parts
  /-- a worker only leaves the loop when no partition is left (or the task is completed) -/
  past : ∀ w ∈ s.ws, (w = .done ∨ ∃ h, w = .pushing h) → s.sh.completed = true ∨ s.sh.parts ≤ s.sh.batchIndex

theorem Inv.init (parts workers : Nat) : Inv (init parts workers) := by
  unfold Task.init
  by_cases hp : parts = 0
  · subst hp
    refine ⟨by simp [send], by simp [send], by simp [send], ?_, ?_, ?_⟩
    · intro _ _
      have : ∀ n, total Worker.held (List.replicate n (Worker.looping 0)) = 0 ∧
                   total Worker.inProcess (List.replicate n (Worker.looping 0)) = 0 := by
        intro n; induction n with
        | zero => simp [total]
        | succ n ih => simp [total, List.replicate_succ, Worker.held, Worker.inProcess] at *
      simp [send, this workers]
    · intro _ _; left; simp [send]
    · intro w hw hh
      have := List.eq_of_mem_replicate hw
      subst this
      rcases hh with hh | ⟨h, hh⟩ <;> cases hh
  · refine ⟨by simp [hp], by simp [hp], by simp [hp], ?_, ?_, ?_⟩
    · intro _ _
      have : ∀ n, total Worker.held (List.replicate n (Worker.looping 0)) = 0 ∧
                   total Worker.inProcess (List.replicate n (Worker.looping 0)) = 0 := by
        intro n; induction n with
        | zero => simp [total]
        | succ n ih => simp [total, List.replicate_succ, Worker.held, Worker.inProcess] at *
      simp [hp, this workers]
    · intro _ _; right; simp [hp]; omega
    · intro w hw hh
      have := List.eq_of_mem_replicate hw
      subst this
      rcases hh with hh | ⟨h, hh⟩ <;> cases hh

/-- `send` leaves the channel used. -/
theorem send_sender (s : Shared) : (send s).senderPresent = false := by
  unfold send; split <;> simp_all

theorem send_inv (s : Shared) (h : s.delivered = if s.senderPresent then 0 else 1) :
    (send s).delivered = if (send s).senderPresent then 0 else 1 := by
  unfold send; split <;> simp_all

theorem Inv.step {s t : St} (hi : Inv s) (hs : Step s t) : Inv t := by
  obtain ⟨hd, hc, he, ha, hb, hp⟩ := hi
  cases hs with
  | claim sh l r h hlt =>
    have hnd : NoDead (l ++ Worker.processing h :: r) → NoDead (l ++ Worker.looping h :: r) :=
      fun x => noDead_swap x (by simp)
    refine ⟨hd, hc, he, ?_, ?_, ?_⟩
    · intro h1 h2
      have := ha (hnd h1) h2
      simp [total_mid, Worker.held, Worker.inProcess] at this ⊢
      omega
    · intro h1 h2; exact hb (hnd h1) h2
    · intro w hw hh
      rcases mem_swap (w := Worker.looping h) hw with rfl | hw
      · rcases hh with hh | ⟨_, hh⟩ <;> cases hh
      · rcases hp w hw hh with hx | hx
        · left; exact hx
        · right; simp at hx ⊢; omega
  | exhausted sh l r h hge =>
    have hnd : NoDead (l ++ Worker.pushing h :: r) → NoDead (l ++ Worker.looping h :: r) :=
      fun x => noDead_swap x (by simp)
    refine ⟨hd, hc, he, ?_, ?_, ?_⟩
    · intro h1 h2
      have := ha (hnd h1) h2
      simp [total_mid, Worker.held, Worker.inProcess] at this ⊢
      omega
    · intro h1 h2; exact hb (hnd h1) h2
    · intro w hw hh
      right; simp; omega
  | processed sh l r h =>
    have hnd : NoDead (l ++ Worker.checking (h + 1) :: r) → NoDead (l ++ Worker.processing h :: r) :=
      fun x => noDead_swap x (by simp)
    refine ⟨hd, hc, he, ?_, ?_, ?_⟩
    · intro h1 h2
      have := ha (hnd h1) h2
      simp [total_mid, Worker.held, Worker.inProcess] at this ⊢
      omega
    · intro h1 h2; exact hb (hnd h1) h2
    · intro w hw hh
      rcases mem_swap (w := Worker.processing h) hw with rfl | hw
      · rcases hh with hh | ⟨_, hh⟩ <;> cases hh
      · exact hp w hw hh
  | failLate sh l r h hpz hcz =>
    refine ⟨hd, hc, he, ?_, ?_, ?_⟩
    · intro _ h2; simp [hcz] at h2
    · intro _ h2; simp [hcz] at h2
    · intro w hw hh; left; exact hcz
  | failFirst sh l r h hpz hcz =>
    refine ⟨?_, ?_, ?_, ?_, ?_, ?_⟩
    · exact send_inv _ (by simpa using hd)
    · intro _; simp only [failNoLock]; exact send_sender _
    · intro _; simp only [failNoLock]; exact send_sender _
    · intro _ h2; simp [failNoLock, send] at h2; split at h2 <;> simp at h2
    · intro _ h2; simp [failNoLock, send] at h2; split at h2 <;> simp at h2
    · intro w hw hh; left; simp [failNoLock, send]; split <;> rfl
  | failPoisoned sh l r h hpz =>
    refine ⟨hd, hc, he, ?_, ?_, ?_⟩
    · intro h1; exact absurd h1 (not_noDead_dead l r)
    · intro h1; exact absurd h1 (not_noDead_dead l r)
    · intro w hw hh
      rcases mem_swap (w := Worker.processing h) hw with rfl | hw
      · rcases hh with hh | ⟨_, hh⟩ <;> cases hh
      · exact hp w hw hh
  | processPanic sh l r h =>
    refine ⟨hd, hc, he, ?_, ?_, ?_⟩
    · intro h1; exact absurd h1 (not_noDead_dead l r)
    · intro h1; exact absurd h1 (not_noDead_dead l r)
    · intro w hw hh
      rcases mem_swap (w := Worker.processing h) hw with rfl | hw
      · rcases hh with hh | ⟨_, hh⟩ <;> cases hh
      · exact hp w hw hh
  | checkCompleted sh l r h hcz =>
    refine ⟨hd, hc, he, ?_, ?_, ?_⟩
    · intro _ h2; simp [hcz] at h2
    · intro _ h2; simp [hcz] at h2
    · intro w hw hh; left; exact hcz
  | checkContinue sh l r h hcz =>
    have hnd : NoDead (l ++ Worker.looping h :: r) → NoDead (l ++ Worker.checking h :: r) :=
      fun x => noDead_swap x (by simp)
    refine ⟨hd, hc, he, ?_, ?_, ?_⟩
    · intro h1 h2
      have := ha (hnd h1) h2
      simp [total_mid, Worker.held, Worker.inProcess] at this ⊢
      omega
    · intro h1 h2; exact hb (hnd h1) h2
    · intro w hw hh
      rcases mem_swap (w := Worker.checking h) hw with rfl | hw
      · rcases hh with hh | ⟨_, hh⟩ <;> cases hh
      · exact hp w hw hh
  | pushLate sh l r h k hk hpz hcz =>
    refine ⟨hd, hc, he, ?_, ?_, ?_⟩
    · intro _ h2; simp [hcz] at h2
    · intro _ h2; simp [hcz] at h2
    · intro w hw hh; left; exact hcz
  | pushPartial sh l r h k hk hpz hcz hne =>
    have hnd : NoDead (l ++ Worker.pushing (h - k) :: r) → NoDead (l ++ Worker.pushing h :: r) :=
      fun x => noDead_swap x (by simp)
    have hpast := hp (Worker.pushing h) (mem_mid l r _) (Or.inr ⟨h, rfl⟩)
    refine ⟨hd, hc, he, ?_, ?_, ?_⟩
    · intro h1 h2
      have := ha (hnd h1) h2
      simp [total_mid, Worker.held, Worker.inProcess] at this ⊢
      omega
    · intro h1 h2
      have := ha (hnd h1) h2
      simp [total_mid, Worker.held, Worker.inProcess] at this ⊢
      omega
    · intro w hw hh
      rcases mem_swap (w := Worker.pushing h) hw with rfl | hw
      · simpa using hpast
      · simpa using hp w hw hh
  | pushFinalOk sh l r h k hk hpz hcz heq =>
    refine ⟨?_, ?_, ?_, ?_, ?_, ?_⟩
    · exact send_inv _ (by simpa using hd)
    · intro _; exact send_sender _
    · intro _; exact send_sender _
    · intro _ h2; simp at h2
    · intro _ h2; simp at h2
    · intro w hw hh; left; rfl
  | pushFinalErr sh l r h k hk hpz hcz heq =>
    refine ⟨?_, ?_, ?_, ?_, ?_, ?_⟩
    · exact send_inv _ (by simpa using hd)
    · intro _; simp only [failNoLock]; exact send_sender _
    · intro _; simp only [failNoLock]; exact send_sender _
    · intro _ h2; simp [failNoLock, send] at h2; split at h2 <;> simp at h2
    · intro _ h2; simp [failNoLock, send] at h2; split at h2 <;> simp at h2
    · intro w hw hh; left; simp [failNoLock, send]; split <;> rfl
  | pushFinalPanic sh l r h k hk hpz hcz heq =>
    have hpast := hp (Worker.pushing h) (mem_mid l r _) (Or.inr ⟨h, rfl⟩)
    refine ⟨hd, hc, he, ?_, ?_, ?_⟩
    · intro h1; exact absurd h1 (not_noDead_dead l r)
    · intro h1; exact absurd h1 (not_noDead_dead l r)
    · intro w hw hh
      rcases mem_swap (w := Worker.pushing h) hw with rfl | hw
      · rcases hh with hh | ⟨_, hh⟩ <;> cases hh
      · simpa using hp w hw hh
  | pushPoisoned sh l r h hpz =>
    refine ⟨hd, hc, he, ?_, ?_, ?_⟩
    · intro h1; exact absurd h1 (not_noDead_dead l r)
    · intro h1; exact absurd h1 (not_noDead_dead l r)
    · intro w hw hh
      rcases mem_swap (w := Worker.pushing h) hw with rfl | hw
      · rcases hh with hh | ⟨_, hh⟩ <;> cases hh
      · exact hp w hw hh
  | finish sh l r hpz =>
    have hnd : NoDead (l ++ Worker.done :: r) → NoDead (l ++ Worker.pushing 0 :: r) :=
      fun x => noDead_swap x (by simp)
    have hpast := hp (Worker.pushing 0) (mem_mid l r _) (Or.inr ⟨0, rfl⟩)
    refine ⟨hd, hc, he, ?_, ?_, ?_⟩
    · intro h1 h2
      have := ha (hnd h1) h2
      simp [total_mid, Worker.held, Worker.inProcess] at this ⊢
      omega
    · intro h1 h2; exact hb (hnd h1) h2
    · intro w hw hh
      rcases mem_swap (w := Worker.pushing 0) hw with rfl | hw
      · exact hpast
      · exact hp w hw hh

theorem Inv.reach {s t : St} (hi : Inv s) (hr : Reach s t) : Inv t := by
  induction hr with
  | refl => exact hi
  | step _ hs ih => exact ih.step hs

theorem step_length {s t : St} (h : Step s t) : t.ws.length = s.ws.length := by
  cases h <;> simp

theorem reach_length {s t : St} (h : Reach s t) : t.ws.length = s.ws.length := by
  induction h with
  | refl => rfl
  | step _ hs ih => rw [step_length hs, ih]

theorem total_done (f : Worker → Nat) (hf : f .done = 0) (ws : List Worker) (h : ∀ w ∈ ws, w = .done) :
    total f ws = 0 := by
  induction ws with
  | nil => rfl
  | cons w ws ih =>
    have hw := h w List.mem_cons_self
    subst hw
    have := ih (fun x hx => h x (List.mem_cons_of_mem _ hx))
    simp [total] at this ⊢
    omega

end LM.Norm.Task
