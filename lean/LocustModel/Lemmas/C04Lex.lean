import LocustModel.Lemmas.C04Merge
import LocustModel.Query.GroupMerge
/-
  C04 helper lemmas for several grouping columns: the canonical MergeOp script `specOps`, its block decomposition
  and order invariance, merge_deduplicate / merge_deduplicate_partitioned produce it, merge_drop replays it.
-/
namespace LM.C04L
open LM LM.Merge LM.GroupMerge

/-- The canonical MergeOp script of two strictly ascending key lists: smaller key first; a key on both sides is
    taken from the left and merged from the right. -/
def specOps : List Int → List Int → List MergeOp
  | [], kr => kr.map fun _ => .takeRight
  | kl, [] => kl.map fun _ => .takeLeft
  | k1 :: kl, k2 :: kr =>
      if k1 < k2 then .takeLeft :: specOps kl (k2 :: kr)
      else if k2 < k1 then .takeRight :: specOps (k1 :: kl) kr
      else .takeLeft :: .mergeRight :: specOps kl kr

theorem specOps_cons_lt (k0 : Int) (kl kr : List Int) (hlt : ∀ y ∈ kr, k0 < y) :
    specOps (k0 :: kl) kr = .takeLeft :: specOps kl kr := by
  cases kr with
  | nil => cases kl <;> simp [specOps]
  | cons b r => have : k0 < b := hlt b (by simp); simp [specOps, this]

theorem ops_pending (last : Option Int) (kl kr : List Int) :
    ∀ (k0 : Int), last = some k0 → StrictAsc kl → StrictAsc kr →
      (∀ y ∈ kl, k0 < y) → (∀ y ∈ kr, k0 ≤ y) →
      .takeLeft :: (mergeDedup false last kl kr).2 = specOps (k0 :: kl) kr := by
  fun_induction mergeDedup false last kl kr with
  | case1 x l => intro k0 _ _ _ _ _; simp [specOps]
  | case2 b r =>
    intro k0 hk _ hr _ _
    have hk : k0 = b := by simp at hk; exact hk.symm
    subst hk
    have h1 : ¬ k0 < k0 := by omega
    simp [specOps, h1]
  | case3 last b r h =>
    intro k0 hk _ hr _ hle
    subst hk
    have hne : k0 ≠ b := by intro hh; subst hh; simp at h
    have hlt : k0 < b := by have := hle b (by simp); omega
    simp [specOps, hlt]
  | case4 a l b r m o hm ih =>
    intro k0 hk hl hr hlt hle
    have hk : k0 = b := by simp at hk; exact hk.symm
    subst hk
    have hr' : StrictAsc r := (List.pairwise_cons.mp hr).2
    have hbr : ∀ y ∈ r, k0 < y := (List.pairwise_cons.mp hr).1
    have h1 : ¬ k0 < k0 := by omega
    have ih' := ih k0 rfl hl hr' hlt (fun y hy => by have := hbr y hy; omega)
    simp only [hm] at ih'
    simp only [specOps, h1, if_false]
    rw [specOps_cons_lt k0 (a :: l) r hbr] at ih'
    simp at ih'
    simp [ih']
  | case5 last a l b r h hcmp m o hm ih =>
    intro k0 hk hl hr hlt hle
    subst hk
    have hne : k0 ≠ b := by intro hh; subst hh; simp at h
    have hlt0 : k0 < b := by have := hle b (by simp); omega
    have hab : a ≤ b := by simpa [cmpEq] using hcmp
    have hl' : StrictAsc l := (List.pairwise_cons.mp hl).2
    have hal : ∀ y ∈ l, a < y := (List.pairwise_cons.mp hl).1
    have hbr : ∀ y ∈ r, b < y := (List.pairwise_cons.mp hr).1
    have ih' := ih a rfl hl' hr hal (fun y hy => by
      rcases List.mem_cons.mp hy with h1 | h1
      · subst h1; exact hab
      · have := hbr y h1; omega)
    simp only [hm] at ih'
    rw [specOps_cons_lt k0 (a :: l) (b :: r) (fun y hy => by
      rcases List.mem_cons.mp hy with h1 | h1
      · subst h1; exact hlt0
      · have := hbr y h1; omega)]
    simp [hm, ih']
  | case6 last a l b r h hcmp m o hm ih =>
    intro k0 hk hl hr hlt hle
    subst hk
    have hne : k0 ≠ b := by intro hh; subst hh; simp at h
    have hlt0 : k0 < b := by have := hle b (by simp); omega
    have hba : b < a := by
      have : ¬ a ≤ b := by simpa [cmpEq] using hcmp
      omega
    have hr' : StrictAsc r := (List.pairwise_cons.mp hr).2
    have hal : ∀ y ∈ l, a < y := (List.pairwise_cons.mp hl).1
    have hbr : ∀ y ∈ r, b < y := (List.pairwise_cons.mp hr).1
    have ih' := ih b rfl hl hr' (fun y hy => by
        rcases List.mem_cons.mp hy with h1 | h1
        · subst h1; exact hba
        · have := hal y h1; omega)
      (fun y hy => by have := hbr y hy; omega)
    simp only [hm] at ih'
    rw [specOps_cons_lt b (a :: l) r hbr] at ih'
    have h1 : ¬ a < b := by omega
    simp only [specOps, hlt0, if_true, h1, if_false, hba]
    simp at ih'
    simp [ih']

/-- merge_deduplicate's script for strictly ascending inputs is the canonical one -/
theorem dedup_ops (kl kr : List Int) (hl : StrictAsc kl) (hr : StrictAsc kr) :
    (mergeDedup false none kl kr).2 = specOps kl kr := by
  cases kl with
  | nil => cases kr <;> simp [mergeDedup, specOps]
  | cons a l =>
    cases kr with
    | nil => simp [mergeDedup, specOps]
    | cons b r =>
      have hal : ∀ y ∈ l, a < y := (List.pairwise_cons.mp hl).1
      have hbr : ∀ y ∈ r, b < y := (List.pairwise_cons.mp hr).1
      have hl' : StrictAsc l := (List.pairwise_cons.mp hl).2
      have hr' : StrictAsc r := (List.pairwise_cons.mp hr).2
      by_cases hab : a ≤ b
      · have hc : cmpEq false a b = true := by simp [cmpEq, hab]
        have := ops_pending (some a) l (b :: r) a rfl hl' hr hal (fun y hy => by
          rcases List.mem_cons.mp hy with h1 | h1
          · subst h1; exact hab
          · have := hbr y h1; omega)
        simp only [mergeDedup, hc]
        simp
        rw [this]
      · have hc : ¬ cmpEq false a b = true := by simp [cmpEq, hab]
        have hba : b < a := by omega
        have := ops_pending (some b) (a :: l) r b rfl hl hr' (fun y hy => by
          rcases List.mem_cons.mp hy with h1 | h1
          · subst h1; exact hba
          · have := hal y h1; omega) (fun y hy => by have := hbr y hy; omega)
        simp only [mergeDedup, hc]
        simp
        rw [specOps_cons_lt b (a :: l) r hbr] at this
        have h1 : ¬ a < b := by omega
        simp [specOps, h1, hba]
        simpa using this


theorem specOps_nil_right (A : List Int) : specOps A [] = A.map fun _ => MergeOp.takeLeft := by
  cases A <;> simp [specOps]
theorem specKeys_nil_right (A : List Int) : specKeys A [] = A := by
  cases A <;> simp [specKeys]

/-- **Block decomposition.** If every key of the first blocks is below every key of the second blocks, the canonical
    script (and the union of keys) of the concatenations is the concatenation of the blocks' scripts. -/
theorem specOps_append (A1 B1 A2 B2 : List Int)
    (h12 : ∀ x, (x ∈ A1 ∨ x ∈ B1) → ∀ y, (y ∈ A2 ∨ y ∈ B2) → x < y) :
    specOps (A1 ++ A2) (B1 ++ B2) = specOps A1 B1 ++ specOps A2 B2 ∧
    specKeys (A1 ++ A2) (B1 ++ B2) = specKeys A1 B1 ++ specKeys A2 B2 := by
  fun_induction specOps A1 B1 with
  | case1 kr =>
    -- A1 = []
    induction kr with
    | nil => simp [specOps, specKeys]
    | cons b t ih =>
      have hb : ∀ y, (y ∈ A2 ∨ y ∈ B2) → b < y := fun y hy => h12 b (Or.inr (by simp)) y hy
      have ih' := ih (fun x hx y hy => h12 x (by rcases hx with hx | hx; exact Or.inl hx; exact Or.inr (by simp [hx])) y hy)
      cases A2 with
      | nil => simp [specOps, specKeys]
      | cons a2 A2' =>
        have : b < a2 := hb a2 (Or.inl (by simp))
        have h1 : ¬ a2 < b := by omega
        simp only [List.nil_append, List.cons_append] at ih' ⊢
        simp [specOps, specKeys, h1, this, ih'.1, ih'.2]
  | case2 kl hne =>
    -- B1 = [], A1 = kl ≠ []
    induction kl with
    | nil => simp at hne
    | cons a t ih =>
      have ha : ∀ y, (y ∈ A2 ∨ y ∈ B2) → a < y := fun y hy => h12 a (Or.inl (by simp)) y hy
      cases B2 with
      | nil => simp [specOps, specKeys, specOps_nil_right, specKeys_nil_right]
      | cons b2 B2' =>
        have : a < b2 := ha b2 (Or.inr (by simp))
        cases t with
        | nil => simp [specOps, specKeys, this]
        | cons a' t' =>
          have ih' := ih (by simp) (fun x hx y hy => h12 x (by rcases hx with hx | hx; exact Or.inl (by simp [hx]); exact Or.inr hx) y hy)
          simp only [List.nil_append, List.cons_append] at ih' ⊢
          simp [specOps, specKeys, this, ih'.1, ih'.2]
  | case3 k1 kl k2 kr hlt ih =>
    have ih' := ih (fun x hx y hy => h12 x (by rcases hx with hx | hx; exact Or.inl (by simp [hx]); exact Or.inr hx) y hy)
    simp only [List.cons_append] at ih' ⊢
    simp [specOps, specKeys, hlt, ih'.1, ih'.2]
  | case4 k1 kl k2 kr hnlt hlt ih =>
    have ih' := ih (fun x hx y hy => h12 x (by rcases hx with hx | hx; exact Or.inl hx; exact Or.inr (by simp [hx])) y hy)
    simp only [List.cons_append] at ih' ⊢
    simp [specOps, specKeys, hnlt, hlt, ih'.1, ih'.2]
  | case5 k1 kl k2 kr hnlt hnlt2 ih =>
    have ih' := ih (fun x hx y hy => h12 x (by rcases hx with hx | hx; exact Or.inl (by simp [hx]); exact Or.inr (by simp [hx])) y hy)
    simp only [List.cons_append] at ih' ⊢
    simp [specOps, specKeys, hnlt, hnlt2, ih'.1, ih'.2]

/-- the scripts only depend on the order of the keys -/
theorem specOps_map (f : Int → Int) (hf : ∀ x y, x < y ↔ f x < f y) (l r : List Int) :
    specOps (l.map f) (r.map f) = specOps l r ∧ specKeys (l.map f) (r.map f) = (specKeys l r).map f := by
  fun_induction specOps l r with
  | case1 kr => simp [specOps, specKeys]
  | case2 kl hne => cases kl <;> simp_all [specOps, specKeys]
  | case3 k1 kl k2 kr hlt ih =>
    simp only [List.map_cons] at ih ⊢
    simp [specOps, specKeys, hlt, (hf k1 k2).mp hlt, ih.1, ih.2]
  | case4 k1 kl k2 kr hnlt hlt ih =>
    have h1 : ¬ f k1 < f k2 := fun h => hnlt ((hf k1 k2).mpr h)
    simp only [List.map_cons] at ih ⊢
    simp [specOps, specKeys, hnlt, hlt, h1, (hf k2 k1).mp hlt, ih.1, ih.2]
  | case5 k1 kl k2 kr hnlt hnlt2 ih =>
    have h1 : ¬ f k1 < f k2 := fun h => hnlt ((hf k1 k2).mpr h)
    have h2 : ¬ f k2 < f k1 := fun h => hnlt2 ((hf k2 k1).mpr h)
    simp only [List.map_cons] at ih ⊢
    simp [specOps, specKeys, hnlt, hnlt2, h1, h2, ih.1, ih.2]


theorem specKeys_nil_left (B : List Int) : specKeys [] B = B := by simp [specKeys]
theorem specOps_nil_left (B : List Int) : specOps [] B = B.map fun _ => MergeOp.takeRight := by simp [specOps]

/-- one group of merge_deduplicate_partitioned with a pending (already emitted) key -/
theorem mdpGroup_pending (fuel : Nat) :
    ∀ (k0 : Int) (lg rg : List Int), StrictAsc lg → StrictAsc rg → (∀ y ∈ lg, k0 < y) → (∀ y ∈ rg, k0 ≤ y) →
      lg.length + rg.length ≤ fuel →
      k0 :: (mdpGroup fuel (some k0) lg rg).1 = specKeys (k0 :: lg) rg ∧
      MergeOp.takeLeft :: (mdpGroup fuel (some k0) lg rg).2 = specOps (k0 :: lg) rg := by
  induction fuel with
  | zero =>
    intro k0 lg rg _ _ _ _ hf
    have h1 : lg = [] := by cases lg <;> simp_all
    have h2 : rg = [] := by cases rg <;> simp_all
    subst h1; subst h2
    simp [mdpGroup, specKeys, specOps]
  | succ f ih =>
    intro k0 lg rg hl hr hlt hle hf
    cases rg with
    | nil =>
      cases lg with
      | nil => simp [mdpGroup, specKeys, specOps]
      | cons a l' =>
        have hl' : StrictAsc l' := (List.pairwise_cons.mp hl).2
        have hal : ∀ y ∈ l', a < y := (List.pairwise_cons.mp hl).1
        have := ih a l' [] hl' (by simp [StrictAsc]) hal (by simp) (by simp at hf ⊢; omega)
        simp only [mdpGroup]
        simp only [specKeys_nil_right, specOps_nil_right] at this ⊢
        simp at this
        simp [this.1, this.2]
    | cons b r' =>
      have hr' : StrictAsc r' := (List.pairwise_cons.mp hr).2
      have hbr : ∀ y ∈ r', b < y := (List.pairwise_cons.mp hr).1
      have hk0b : k0 ≤ b := hle b (by simp)
      by_cases hkb : k0 = b
      · -- MergeRight
        subst hkb
        have := ih k0 lg r' hl hr' hlt (fun y hy => by have := hbr y hy; omega) (by simp at hf ⊢; omega)
        rw [specKeys_cons_lt k0 lg r' hbr, specOps_cons_lt k0 lg r' hbr] at this
        have h1 : ¬ k0 < k0 := by omega
        cases lg with
        | nil =>
          simp only [mdpGroup, if_true]
          simp at this
          simp [specKeys, specOps, h1, this.1, this.2]
        | cons a l' =>
          simp only [mdpGroup, if_true]
          simp at this
          simp [specKeys, specOps, h1, this.1, this.2]
      · have hlt0 : k0 < b := by omega
        have hne : ¬ (some k0 = some b) := by simp; exact hkb
        cases lg with
        | nil =>
          have := ih b [] r' (by simp [StrictAsc]) hr' (by simp) (fun y hy => by have := hbr y hy; omega)
            (by simp at hf ⊢; omega)
          rw [specKeys_cons_lt b [] r' hbr, specOps_cons_lt b [] r' hbr] at this
          simp only [mdpGroup, hne, if_false]
          simp only [specKeys_nil_left, specOps_nil_left] at this
          simp at this
          simp [specKeys, specOps, hlt0, this.1, this.2]
        | cons a l' =>
          have hl' : StrictAsc l' := (List.pairwise_cons.mp hl).2
          have hal : ∀ y ∈ l', a < y := (List.pairwise_cons.mp hl).1
          have hk0a : k0 < a := hlt a (by simp)
          by_cases hab : a ≤ b
          · have hc : cmpEq false a b = true := by simp [cmpEq, hab]
            have := ih a l' (b :: r') hl' hr hal (fun y hy => by
              rcases List.mem_cons.mp hy with h1 | h1
              · subst h1; exact hab
              · have := hbr y h1; omega) (by simp at hf ⊢; omega)
            simp only [mdpGroup, hne, if_false, hc, if_true]
            rw [specKeys_cons_lt k0 (a :: l') (b :: r') (fun y hy => by
                rcases List.mem_cons.mp hy with h1 | h1
                · subst h1; exact hlt0
                · have := hbr y h1; omega),
              specOps_cons_lt k0 (a :: l') (b :: r') (fun y hy => by
                rcases List.mem_cons.mp hy with h1 | h1
                · subst h1; exact hlt0
                · have := hbr y h1; omega)]
            simp [this.1, this.2]
          · have hc : ¬ cmpEq false a b = true := by simp [cmpEq, hab]
            have hba : b < a := by omega
            have := ih b (a :: l') r' hl hr' (fun y hy => by
              rcases List.mem_cons.mp hy with h1 | h1
              · subst h1; exact hba
              · have := hal y h1; omega) (fun y hy => by have := hbr y hy; omega) (by simp at hf ⊢; omega)
            rw [specKeys_cons_lt b (a :: l') r' hbr, specOps_cons_lt b (a :: l') r' hbr] at this
            simp only [mdpGroup, hne, if_false, hc]
            have h1 : ¬ a < b := by omega
            rw [specKeys_cons_lt k0 (a :: l') (b :: r') (fun y hy => by
                rcases List.mem_cons.mp hy with h1 | h1
                · subst h1; exact hlt0
                · have := hbr y h1; omega),
              specOps_cons_lt k0 (a :: l') (b :: r') (fun y hy => by
                rcases List.mem_cons.mp hy with h1 | h1
                · subst h1; exact hlt0
                · have := hbr y h1; omega)]
            simp at this
            simp [specKeys, specOps, h1, hba, this.1, this.2]


/-- one group of merge_deduplicate_partitioned = canonical union and script of the group's (strictly ascending) slices -/
theorem mdpGroup_spec (fuel : Nat) (lg rg : List Int) (hl : StrictAsc lg) (hr : StrictAsc rg)
    (hf : lg.length + rg.length ≤ fuel) :
    mdpGroup fuel none lg rg = (specKeys lg rg, specOps lg rg) := by
  cases fuel with
  | zero =>
    have h1 : lg = [] := by cases lg <;> simp_all
    have h2 : rg = [] := by cases rg <;> simp_all
    subst h1; subst h2
    simp [mdpGroup, specKeys, specOps]
  | succ f =>
    cases rg with
    | nil =>
      cases lg with
      | nil => simp [mdpGroup, specKeys, specOps]
      | cons a l' =>
        have hl' : StrictAsc l' := (List.pairwise_cons.mp hl).2
        have hal : ∀ y ∈ l', a < y := (List.pairwise_cons.mp hl).1
        have := mdpGroup_pending f a l' [] hl' (by simp [StrictAsc]) hal (by simp) (by simp at hf ⊢; omega)
        simp only [specKeys_nil_right, specOps_nil_right] at this ⊢
        simp at this
        simp [mdpGroup, this.1, this.2]
    | cons b r' =>
      have hr' : StrictAsc r' := (List.pairwise_cons.mp hr).2
      have hbr : ∀ y ∈ r', b < y := (List.pairwise_cons.mp hr).1
      cases lg with
      | nil =>
        have := mdpGroup_pending f b [] r' (by simp [StrictAsc]) hr' (by simp) (fun y hy => by have := hbr y hy; omega)
          (by simp at hf ⊢; omega)
        rw [specKeys_cons_lt b [] r' hbr, specOps_cons_lt b [] r' hbr] at this
        simp only [specKeys_nil_left, specOps_nil_left] at this ⊢
        simp at this
        simp [mdpGroup, this.1, this.2]
      | cons a l' =>
        have hl' : StrictAsc l' := (List.pairwise_cons.mp hl).2
        have hal : ∀ y ∈ l', a < y := (List.pairwise_cons.mp hl).1
        by_cases hab : a ≤ b
        · have hc : cmpEq false a b = true := by simp [cmpEq, hab]
          have := mdpGroup_pending f a l' (b :: r') hl' hr hal (fun y hy => by
            rcases List.mem_cons.mp hy with h1 | h1
            · subst h1; exact hab
            · have := hbr y h1; omega) (by simp at hf ⊢; omega)
          simp only [mdpGroup, hc]
          simp at this ⊢
          rw [← this.1, ← this.2]
          exact ⟨rfl, rfl⟩
        · have hc : ¬ cmpEq false a b = true := by simp [cmpEq, hab]
          have hba : b < a := by omega
          have := mdpGroup_pending f b (a :: l') r' hl hr' (fun y hy => by
            rcases List.mem_cons.mp hy with h1 | h1
            · subst h1; exact hba
            · have := hal y h1; omega) (fun y hy => by have := hbr y hy; omega) (by simp at hf ⊢; omega)
          rw [specKeys_cons_lt b (a :: l') r' hbr, specOps_cons_lt b (a :: l') r' hbr] at this
          have h1 : ¬ a < b := by omega
          simp only [mdpGroup, hc]
          simp at this ⊢
          simp [specKeys, specOps, h1, hba, this.1, this.2]

/-- replaying the canonical script on companion columns that are functions of the keys yields the function of the union -/
theorem mergeDrop_specOps {α : Type} (g : Int → α) (kl kr : List Int) :
    mergeDrop (specOps kl kr) (kl.map g) (kr.map g) = some ((specKeys kl kr).map g) := by
  fun_induction specOps kl kr with
  | case1 kr =>
    simp only [List.map_nil, specKeys_nil_left]
    have e : (kr.map fun _ => MergeOp.takeRight) = ((kr.map g).map fun _ => MergeOp.takeRight) := by
      simp [List.map_map, Function.comp_def]
    rw [e]
    exact mergeDrop_right_tail ([] : List α) (kr.map g)
  | case2 kl hne =>
    simp only [List.map_nil, specKeys_nil_right]
    have e : (kl.map fun _ => MergeOp.takeLeft) = ((kl.map g).map fun _ => MergeOp.takeLeft) := by
      simp [List.map_map, Function.comp_def]
    rw [e]
    exact mergeDrop_left_tail (kl.map g) ([] : List α)
  | case3 k1 kl k2 kr hlt ih =>
    simp only [List.map_cons] at ih ⊢
    simp [mergeDrop, specKeys, hlt, ih]
  | case4 k1 kl k2 kr hnlt hlt ih =>
    simp only [List.map_cons] at ih ⊢
    simp [mergeDrop, specKeys, hnlt, hlt, ih]
  | case5 k1 kl k2 kr hnlt hnlt2 ih =>
    simp only [List.map_cons] at ih ⊢
    simp [mergeDrop, specKeys, hnlt, hnlt2, ih]
end LM.C04L
