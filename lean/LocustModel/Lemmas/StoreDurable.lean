import LocustModel.Store.Machine
import LocustModel.Store.Spec
import LocustModel.Lemmas.StoreWal
/-
  Invariant `Durable` of the storage machine (DESIGN.md Appendix B), part 1: definitions, list facts, and what the
  invariant gives directly (content of every table = its share of the log; directory = files of the catalogue).

  Per table `t` (slice = in-memory table, catalogue entry list, files on disk), for a split `log = pre ++ post`
  where `post` = the requests of the log segments on disk:
     rows(partitions, by offset) = logOf t pre      buffer = logOf t post      frozen = []
     catalogue entries = the partitions' metadata (same order)     files = the partitions' files (same order)
     ids distinct and below nextId, ranges tile [0, nextOff), every partition readable and non-empty, keys non-empty
     column-name set (once initialised) = names in logOf t log   (user tables; ⊇ for catalogue tables)
  Global: log-level facts `LogCat` (the catalogue rows travelling in the log list every table / column exactly once),
  `WalInv`, in-memory catalogue = catalogue file, `lossy = false`.
-/
namespace LM.Store
set_option linter.unusedSectionVars false
set_option linter.unusedSimpArgs false
set_option linter.unusedVariables false

variable {ν κ : Type} [DecidableEq ν]

-- ------------------------------------------------------------------------------------------------ definitions

/-- Rows held by a list of partitions (in list order). -/
def partRows (ps : List (MemPart ν κ)) : List (Batch ν κ) := ps.flatMap (fun p => p.rows.getD [])

/-- Ranges `[offset, offset+len)` of the partitions tile `[a, e)` in list order. -/
def tiles : List (MemPart ν κ) → Nat → Nat → Prop
  | [], a, e => a = e
  | p :: ps, a, e => p.offset = a ∧ tiles ps (a + p.len) e

structure PartsOk (ps : List (MemPart ν κ)) (nextId nextOff : Nat) : Prop where
  rows : ∀ p ∈ ps, ∃ r, p.rows = some r ∧ r ≠ []
  keys : ∀ p ∈ ps, p.keys ≠ []
  nodup : (ps.map (·.id)).Nodup
  idlt : ∀ p ∈ ps, p.id < nextId
  tile : tiles ps 0 nextOff
  lens : ∀ p ∈ ps, ∀ r, p.rows = some r → p.len = rowsLen r

/-- Well-formed request: a `HashMap<table, TableBuffer>` (each table once), each buffer a `HashMap<column, _>`. -/
def ReqWF (r : Request ν κ) : Prop :=
  (r.map (·.1)).Nodup ∧ ∀ sh ∈ r, sh.2.names.Nodup

/-- Names listed by a catalogue batch. -/
def listedIn (c : CName ν) (bs : List (Batch ν κ)) : List (Cell ν κ) := readColumn c bs

/-- Log-level facts about the catalogue rows that travel with the data. -/
structure LogCat (log : List (Request ν κ)) : Prop where
  wf : ∀ r ∈ log, (r.map (·.1)).Nodup
  shareOk : ∀ r ∈ log, ∀ sh ∈ r, sh.2.nrows ≠ 0 ∧ sh.2.cols ≠ []
  shapeCols : ∀ r ∈ log, ∀ n b, (TName.metaCols n, b) ∈ r → b.names = [CName.columnName]
  shapeTabs : ∀ r ∈ log, ∀ b, (TName.metaTables, b) ∈ r → b.names = [CName.timestamp, CName.name]
  within : ∀ r ∈ log, ∀ n mb, (TName.metaCols n, mb) ∈ r →
      ∃ b, (TName.user n, b) ∈ r ∧ ∃ L : List (CName ν), colCells .columnName mb = L.map Cell.cname ∧ ∀ c ∈ L, c ∈ b.names
  pair : ∀ n, logOf (TName.user n) log = [] ↔ logOf (TName.metaCols n) log = []
  cols : ∀ n, ∃ L : List (CName ν), readColumn .columnName (logOf (.metaCols n) log) = L.map Cell.cname ∧ L.Nodup ∧
      ∀ c, c ∈ L ↔ c ∈ namesIn (logOf (.user n) log)
  tabs : ∃ L : List (TName ν), readColumn .name (logOf .metaTables log) = L.map Cell.tname ∧ L.Nodup ∧
      ∀ t, t ∈ L ↔ (t ≠ .metaTables ∧ logOf t log ≠ [])

/-- `LogCat` of every prefix of the log (each prefix was the whole log once; restart replays from a prefix). -/
def LogCatAll (log : List (Request ν κ)) : Prop := ∀ l1 l2, log = l1 ++ l2 → LogCat l1

theorem LogCatAll.whole {log : List (Request ν κ)} (h : LogCatAll log) : LogCat log := h log [] (by simp)

theorem LogCatAll.pre {l1 l2 : List (Request ν κ)} (h : LogCatAll (l1 ++ l2)) : LogCatAll l1 :=
  fun a b e => h a (b ++ l2) (by rw [e]; simp)

/-- The per-table clause of the invariant. -/
structure TableOk (t : TName ν) (tm : TableMem ν κ) (cat : List PartMeta) (files : List (PartFile ν κ))
    (pre post : List (Request ν κ)) : Prop where
  frozen : tm.frozen = []
  parts : PartsOk tm.parts tm.nextId tm.nextOff
  cat : cat = tm.parts.map MemPart.toMeta
  files : files = tm.parts.flatMap filesOf
  flushed : partRows tm.parts = logOf t pre
  buffered : tm.buffer = logOf t post
  nonempty : logOf t (pre ++ post) ≠ [] ∨ t = .metaTables
  namesUser : ∀ n, t = .user n → ∀ s, tm.colNames = some s → ∀ c, c ∈ s ↔ c ∈ namesIn (logOf t (pre ++ post))
  namesCat : (∀ n, t ≠ .user n) → ∃ s, tm.colNames = some s ∧ ∀ c ∈ namesIn (logOf t (pre ++ post)), c ∈ s

structure DurableAt (w : World ν κ) (pre : List (Request ν κ)) : Prop where
  wal : WalInv w
  lossy : w.lossy = false
  metaEq : w.mem.cat.parts = (w.disk.metaFile.getD ⟨0, fun _ => []⟩).parts
  log : w.log = pre ++ w.disk.wal.map (·.req)
  tabs : ∀ t tm, w.mem.tables t = some tm →
      TableOk t tm (w.mem.cat.parts t) (w.disk.parts t) pre (w.disk.wal.map (·.req))
  absent : ∀ t, w.mem.tables t = none → t ≠ .metaTables ∧ logOf t w.log = [] ∧ w.mem.cat.parts t = [] ∧ w.disk.parts t = []
  logcat : LogCatAll w.log

def Durable (w : World ν κ) : Prop := ∃ pre, DurableAt w pre

-- ------------------------------------------------------------------------------------------------ list facts

theorem logOf_append (t : TName ν) (l1 l2 : List (Request ν κ)) : logOf t (l1 ++ l2) = logOf t l1 ++ logOf t l2 := by
  simp [logOf]

theorem logOf_nil (t : TName ν) : logOf t ([] : List (Request ν κ)) = [] := rfl

theorem logOf_singleton (t : TName ν) (r : Request ν κ) : logOf t [r] = shareOf t r := by
  simp [logOf]

theorem shareOf_append (t : TName ν) (r1 r2 : Request ν κ) : shareOf t (r1 ++ r2) = shareOf t r1 ++ shareOf t r2 := by
  simp [shareOf]

theorem namesIn_append (a b : List (Batch ν κ)) : namesIn (a ++ b) = namesIn a ++ namesIn b := by
  simp [namesIn]

theorem readColumn_append (c : CName ν) (a b : List (Batch ν κ)) : readColumn c (a ++ b) = readColumn c a ++ readColumn c b := by
  simp [readColumn]

theorem partRows_append (a b : List (MemPart ν κ)) : partRows (a ++ b) = partRows a ++ partRows b := by
  simp [partRows]

theorem tiles_append (l1 l2 : List (MemPart ν κ)) : ∀ (a e : Nat),
    tiles (l1 ++ l2) a e ↔ ∃ m, tiles l1 a m ∧ tiles l2 m e := by
  induction l1 with
  | nil => intro a e; simp [tiles]
  | cons p ps ih =>
    intro a e
    simp only [List.cons_append, tiles, ih]
    constructor
    · rintro ⟨h1, m, h2, h3⟩; exact ⟨m, ⟨h1, h2⟩, h3⟩
    · rintro ⟨m, ⟨h1, h2⟩, h3⟩; exact ⟨h1, m, h2, h3⟩

theorem tiles_end (l : List (MemPart ν κ)) : ∀ (a e : Nat), tiles l a e → e = a + (l.map (·.len)).sum := by
  induction l with
  | nil => intro a e h; simp [tiles] at h; simp [h]
  | cons p ps ih =>
    intro a e h
    simp only [tiles] at h
    have := ih _ _ h.2
    simp only [List.map_cons, List.sum_cons]; omega

theorem tiles_offset_le (l : List (MemPart ν κ)) : ∀ (a e : Nat), tiles l a e → ∀ p ∈ l, a ≤ p.offset ∧ p.offset ≤ e := by
  induction l with
  | nil => intro a e _ p hp; cases hp
  | cons q qs ih =>
    intro a e h p hp
    simp only [tiles] at h
    have hend := tiles_end qs _ _ h.2
    rcases List.mem_cons.mp hp with rfl | hp'
    · omega
    · have := ih _ _ h.2 p hp'; omega

theorem insertByOffset_end {α : Type} (off : α → Nat) (p : α) (qs : List α) (h : ∀ q ∈ qs, off q ≤ off p) :
    insertByOffset off p qs = qs ++ [p] := by
  induction qs with
  | nil => rfl
  | cons q qs ih =>
    have hq : ¬ off p < off q := by have := h q (List.mem_cons_self ..); omega
    simp only [insertByOffset, hq, if_false, List.cons_append]
    rw [ih (fun x hx => h x (List.mem_cons_of_mem _ hx))]

theorem partsRows_ok (ps : List (MemPart ν κ)) : ∀ (a e : Nat), tiles ps a e → (∀ p ∈ ps, ∃ r, p.rows = some r) →
    partsRows ps a = .ok (partRows ps) := by
  induction ps with
  | nil => intro a e _ _; rfl
  | cons p ps ih =>
    intro a e h hr
    simp only [tiles] at h
    obtain ⟨r, hr1⟩ := hr p (List.mem_cons_self ..)
    have := ih _ _ h.2 (fun q hq => hr q (List.mem_cons_of_mem _ hq))
    simp [partsRows, h.1, hr1, this, partRows]

theorem allRows_ok (ps : List (MemPart ν κ)) : (∀ p ∈ ps, ∃ r, p.rows = some r) → allRows ps = some (partRows ps) := by
  induction ps with
  | nil => intro _; rfl
  | cons p ps ih =>
    intro hr
    obtain ⟨r, hr1⟩ := hr p (List.mem_cons_self ..)
    have := ih (fun q hq => hr q (List.mem_cons_of_mem _ hq))
    simp [allRows, hr1, this, partRows]

/-- What a query sees of a table that satisfies the per-table clause. -/
theorem tableBatches_ok (tm : TableMem ν κ) (h : PartsOk tm.parts tm.nextId tm.nextOff) :
    tableBatches tm = .ok (partRows tm.parts ++ tm.frozen ++ tm.buffer) := by
  have := partsRows_ok tm.parts 0 _ h.tile (fun p hp => by obtain ⟨r, h1, _⟩ := h.rows p hp; exact ⟨r, h1⟩)
  simp [tableBatches, this]

theorem TableOk.content {t : TName ν} {tm : TableMem ν κ} {cat files pre post}
    (h : TableOk t tm cat files pre post) : tableBatches tm = .ok (logOf t (pre ++ post)) := by
  rw [tableBatches_ok tm h.parts, h.frozen, h.flushed, h.buffered, logOf_append]; simp

/-- Content of every table of a durable world = its share of the log. -/
theorem DurableAt.content {w : World ν κ} {pre} (h : DurableAt w pre) (t : TName ν) :
    content w t = .ok (logOf t w.log) := by
  unfold LM.Store.content
  cases ht : w.mem.tables t with
  | none => simp [(h.absent t ht).2.1]
  | some tm => simp only; rw [(h.tabs t tm ht).content, h.log]

end LM.Store
