import LocustModel.Codec.Rebuild
/-
  C07 helper lemmas: which rows of a rebuilt `ColumnBuffer` are NULL (`Rebuild.pushTyped` / `pushNulls` /
  `pushDecoded`), for all push sequences, all lengths, all bitmaps.
-/
namespace LM.Rebuild
open LM LM.Codec LM.Bitmap

/-! ### `maskFrom` -/

theorem maskFrom_length (bm : List Nat) (i : Nat) (cs : List Cell) : (maskFrom bm i cs).length = cs.length := by
  induction cs generalizing i with
  | nil => rfl
  | cons c cs ih => simp [maskFrom, ih]

theorem maskFrom_append (bm : List Nat) (i : Nat) (a b : List Cell) :
    maskFrom bm i (a ++ b) = maskFrom bm i a ++ maskFrom bm (i + a.length) b := by
  induction a generalizing i with
  | nil => simp [maskFrom]
  | cons c cs ih =>
    simp only [List.cons_append, maskFrom, ih, List.length_cons]
    have : i + 1 + cs.length = i + (cs.length + 1) := by omega
    rw [this]

theorem maskFrom_rel (bm bm' : List Nat) (i i' : Nat) (cs : List Cell)
    (h : ∀ j, j < cs.length → isSet bm (i + j) = isSet bm' (i' + j)) :
    maskFrom bm i cs = maskFrom bm' i' cs := by
  induction cs generalizing i i' with
  | nil => rfl
  | cons c cs ih =>
    have h0 := h 0 (by simp)
    simp only [Nat.add_zero] at h0
    simp only [maskFrom, h0]
    congr 1
    apply ih
    intro j hj
    have := h (j + 1) (by simp; omega)
    have e1 : i + (j + 1) = i + 1 + j := by omega
    have e2 : i' + (j + 1) = i' + 1 + j := by omega
    rw [e1, e2] at this
    exact this

theorem maskFrom_all (bm : List Nat) (i : Nat) (cs : List Cell)
    (h : ∀ j, j < cs.length → isSet bm (i + j) = true) : maskFrom bm i cs = cs := by
  induction cs generalizing i with
  | nil => rfl
  | cons c cs ih =>
    have h0 := h 0 (by simp)
    simp only [Nat.add_zero] at h0
    simp only [maskFrom, h0, if_true]
    congr 1
    apply ih
    intro j hj
    have := h (j + 1) (by simp; omega)
    have e1 : i + (j + 1) = i + 1 + j := by omega
    rw [e1] at this
    exact this

theorem maskFrom_none (bm : List Nat) (i : Nat) (cs : List Cell)
    (h : ∀ j, j < cs.length → isSet bm (i + j) = false) : maskFrom bm i cs = List.replicate cs.length .null := by
  induction cs generalizing i with
  | nil => rfl
  | cons c cs ih =>
    have h0 := h 0 (by simp)
    simp only [Nat.add_zero] at h0
    simp only [maskFrom, h0, List.length_cons, List.replicate_succ]
    congr 1
    apply ih
    intro j hj
    have := h (j + 1) (by simp; omega)
    have e1 : i + (j + 1) = i + 1 + j := by omega
    rw [e1] at this
    exact this

/-! ### buffer invariant -/

/-- `Empty` buffers carry only a length; typed buffers have one value per row; a bitmap never has a bit at or
    beyond `length` (later pushes only SET bits, so a stray bit would un-NULL a future row). -/
structure WF (b : Buf) : Prop where
  notOther : b.kind ≠ .other
  emptyData : b.kind = .empty → b.data = [] ∧ b.present = none
  dataLen : b.kind ≠ .empty → b.data.length = b.length
  noStray : ∀ p, b.present = some p → ∀ j, b.length ≤ j → isSet p j = false

theorem wf_default : WF ({} : Buf) :=
  ⟨by decide, fun _ => ⟨rfl, rfl⟩, fun h => absurd rfl h, fun p h => by cases h⟩

/-- cells contributed by one push: the values, masked by the supplied null map if there is one -/
def pushedCells (vals : List Cell) : Option (List Nat) → List Cell
  | none => vals
  | some np => maskFrom np 0 vals

/-- the bitmap after `push_present` on an existing bitmap `base` -/
def newBits (base : List Nat) (newp : Option (List Nat)) (L n : Nat) : List Nat :=
  match newp with
  | some np => copyBits base np L 0 n
  | none => setRange base L n

/-- is pushed row `j` present? -/
def newBit (newp : Option (List Nat)) (j : Nat) : Bool :=
  match newp with
  | some np => isSet np j
  | none => true

theorem pushPresent_some (base : List Nat) (newp : Option (List Nat)) (L n : Nat) :
    pushPresent (some base) newp L n = some (newBits base newp L n) := by
  cases newp <;> rfl

theorem isSet_newBits (base : List Nat) (newp : Option (List Nat)) (L n j : Nat) :
    isSet (newBits base newp L n) j = (decide (L ≤ j ∧ j < L + n) && newBit newp (j - L) || isSet base j) := by
  cases newp <;> simp [newBits, newBit, isSet_copyBits, isSet_setRange]

theorem pushedCells_eq (vals : List Cell) (newp : Option (List Nat)) (bm : List Nat) (i : Nat)
    (h : ∀ j, j < vals.length → isSet bm (i + j) = newBit newp j) : maskFrom bm i vals = pushedCells vals newp := by
  cases newp with
  | none => exact maskFrom_all bm i vals (fun j hj => by simpa [newBit] using h j hj)
  | some np =>
    simp only [pushedCells]
    apply maskFrom_rel
    intro j hj
    simpa [newBit] using h j hj

theorem cells_typed (b : Buf) (he : b.kind ≠ .empty) :
    b.cells = match b.present with | none => b.data | some bm => maskFrom bm 0 b.data := by
  unfold Buf.cells
  cases hb : b.kind
  · exact absurd hb he
  all_goals rfl

theorem pushTyped_spec (k : Kind) (hk1 : k ≠ .empty) (hk2 : k ≠ .other) (b : Buf) (hwf : WF b)
    (hc : b.kind = .empty ∨ b.kind = k) (vals : List Cell) (newp : Option (List Nat)) :
    ∃ b', pushTyped k b vals newp = .ok b' ∧ WF b' ∧ b'.length = b.length + vals.length ∧
      b'.cells = b.cells ++ pushedCells vals newp ∧ b'.kind = k := by
  by_cases he : b.kind = .empty
  · -- first typed push into an `Empty` buffer
    obtain ⟨hd, hp⟩ := hwf.emptyData he
    have hbc : b.cells = List.replicate b.length .null := by simp [Buf.cells, he]
    by_cases hL : b.length > 0
    · -- NULL rows so far: `init_present` (all clear), padding values, then the new rows with their bits
      refine ⟨{ kind := k, data := List.replicate b.length (zeroOf k) ++ vals, length := b.length + vals.length,
                present := some (newBits (initAllNull b.length) newp b.length vals.length) }, ?_, ?_, rfl, ?_, rfl⟩
      · simp [pushTyped, he, hp, hL, pushPresent_some]
      · refine ⟨hk2, fun h => absurd h hk1, fun _ => by simp, ?_⟩
        intro p hpe j hj
        cases hpe
        have : ¬ (b.length ≤ j ∧ j < b.length + vals.length) := by simp at hj; omega
        simp [isSet_newBits, isSet_initAllNull, this]
      · rw [cells_typed _ hk1, hbc]
        simp only [maskFrom_append, List.length_replicate]
        congr 1
        · rw [maskFrom_none]
          · simp
          · intro j hj
            simp only [List.length_replicate] at hj
            have h1 : decide (b.length ≤ 0 + j ∧ 0 + j < b.length + vals.length) = false := by
              simp only [decide_eq_false_iff_not]; omega
            rw [isSet_newBits, h1, isSet_initAllNull]; rfl
        · apply pushedCells_eq
          intro j hj
          have h1 : decide (b.length ≤ 0 + b.length + j ∧ 0 + b.length + j < b.length + vals.length) = true := by
            simp only [decide_eq_true_eq]; omega
          have e : 0 + b.length + j - b.length = j := by omega
          rw [isSet_newBits, h1, e, isSet_initAllNull]; simp
    · -- no rows yet: no bitmap unless a null map is supplied (then `push_present` creates it)
      have hL0 : b.length = 0 := by omega
      cases newp with
      | none =>
        refine ⟨{ kind := k, data := vals, length := b.length + vals.length, present := none }, ?_, ?_, rfl, ?_, rfl⟩
        · simp [pushTyped, he, hp, hL0, pushPresent]
        · exact ⟨hk2, fun h => absurd h hk1, fun _ => by simp [hL0], fun p h => by cases h⟩
        · rw [cells_typed _ hk1, hbc]; simp [hL0, pushedCells]
      | some np =>
        refine ⟨{ kind := k, data := vals, length := b.length + vals.length,
                  present := some (newBits (initAllPresent b.length) (some np) b.length vals.length) }, ?_, ?_, rfl, ?_, rfl⟩
        · simp [pushTyped, he, hp, hL0, pushPresent, newBits]
        · refine ⟨hk2, fun h => absurd h hk1, fun _ => by simp [hL0], ?_⟩
          intro p hpe j hj
          cases hpe
          have h1 : ¬ (b.length ≤ j ∧ j < b.length + vals.length) := by simp at hj; omega
          have h2 : ¬ j < b.length := by simp at hj; omega
          simp [isSet_newBits, isSet_initAllPresent, h1, h2]
        · rw [cells_typed _ hk1, hbc]
          simp only [hL0, List.replicate_zero, List.nil_append]
          apply pushedCells_eq
          intro j hj
          have h1 : decide (0 ≤ 0 + j ∧ 0 + j < 0 + vals.length) = true := by
            simp only [decide_eq_true_eq]; omega
          rw [isSet_newBits, h1, isSet_initAllPresent]; simp
  · -- same-kind push into a typed buffer
    have hkk : b.kind = k := by cases hc with | inl h => exact absurd h he | inr h => exact h
    have hdl := hwf.dataLen he
    cases hpres : b.present with
    | none =>
      cases newp with
      | none =>
        refine ⟨{ b with data := b.data ++ vals, length := b.length + vals.length, present := none }, ?_, ?_, rfl, ?_, hkk⟩
        · simp [pushTyped, hkk, hk1, hpres, pushPresent]
        · exact ⟨hwf.notOther, fun h => absurd h he, fun _ => by simp [hdl], fun p h => by cases h⟩
        · have h1 := cells_typed b he
          have h2 := cells_typed { b with data := b.data ++ vals, length := b.length + vals.length, present := none } he
          rw [h2, h1, hpres]; simp [pushedCells]
      | some np =>
        -- first null map for this buffer: `init_present` marks the rows so far as present
        refine ⟨{ b with data := b.data ++ vals, length := b.length + vals.length,
                         present := some (newBits (initAllPresent b.length) (some np) b.length vals.length) },
                ?_, ?_, rfl, ?_, hkk⟩
        · simp [pushTyped, hkk, hk1, hpres, pushPresent, newBits]
        · refine ⟨hwf.notOther, fun h => absurd h he, fun _ => by simp [hdl], ?_⟩
          intro q hq j hj
          cases hq
          have h1 : ¬ (b.length ≤ j ∧ j < b.length + vals.length) := by simp at hj; omega
          have h2 : ¬ j < b.length := by simp at hj; omega
          simp [isSet_newBits, isSet_initAllPresent, h1, h2]
        · have h1 := cells_typed b he
          have h2 := cells_typed { b with data := b.data ++ vals, length := b.length + vals.length,
                                          present := some (newBits (initAllPresent b.length) (some np) b.length vals.length) } he
          rw [h2, h1, hpres]
          simp only [maskFrom_append]
          congr 1
          · apply maskFrom_all
            intro j hj
            have hjl : j < b.length := by omega
            rw [isSet_newBits, isSet_initAllPresent]; simp [hjl]
          · rw [hdl]
            apply pushedCells_eq
            intro j hj
            have h1 : decide (b.length ≤ 0 + b.length + j ∧ 0 + b.length + j < b.length + vals.length) = true := by
              simp only [decide_eq_true_eq]; omega
            have e : 0 + b.length + j - b.length = j := by omega
            have h2 : decide (0 + b.length + j < b.length) = false := by
              simp only [decide_eq_false_iff_not]; omega
            rw [isSet_newBits, h1, e, isSet_initAllPresent, h2]; simp
    | some p =>
      have hstray := hwf.noStray p hpres
      refine ⟨{ b with data := b.data ++ vals, length := b.length + vals.length,
                       present := some (newBits p newp b.length vals.length) }, ?_, ?_, rfl, ?_, hkk⟩
      · simp [pushTyped, hkk, hk1, hpres, pushPresent_some]
      · refine ⟨hwf.notOther, fun h => absurd h he, fun _ => by simp [hdl], ?_⟩
        intro q hq j hj
        cases hq
        have h1 : ¬ (b.length ≤ j ∧ j < b.length + vals.length) := by simp at hj; omega
        have h2 : isSet p j = false := hstray j (by simp at hj; omega)
        simp [isSet_newBits, h1, h2]
      · have h1 := cells_typed b he
        have h2 := cells_typed { b with data := b.data ++ vals, length := b.length + vals.length,
                                        present := some (newBits p newp b.length vals.length) } he
        rw [h2, h1, hpres]
        simp only [maskFrom_append]
        congr 1
        · apply maskFrom_rel
          intro j hj
          have h1 : decide (b.length ≤ 0 + j ∧ 0 + j < b.length + vals.length) = false := by
            simp only [decide_eq_false_iff_not]; omega
          rw [isSet_newBits, h1]; simp
        · rw [hdl]
          apply pushedCells_eq
          intro j hj
          have h1 : decide (b.length ≤ 0 + b.length + j ∧ 0 + b.length + j < b.length + vals.length) = true := by
            simp only [decide_eq_true_eq]; omega
          have e : 0 + b.length + j - b.length = j := by omega
          have hs : isSet p (0 + b.length + j) = false := hstray _ (by omega)
          rw [isSet_newBits, h1, e, hs]; simp

theorem pushNulls_spec (b : Buf) (hwf : WF b) (n : Nat) :
    WF (pushNulls b n) ∧ (pushNulls b n).length = b.length + n ∧
      (pushNulls b n).cells = b.cells ++ List.replicate n .null ∧ (pushNulls b n).kind = b.kind := by
  by_cases he : b.kind = .empty
  · obtain ⟨hd, hp⟩ := hwf.emptyData he
    have : pushNulls b n = { b with length := b.length + n } := by simp [pushNulls, he]
    rw [this]
    refine ⟨⟨hwf.notOther, fun _ => ⟨hd, hp⟩, fun h => absurd he h, fun p h => by simp [hp] at h⟩, rfl, ?_, rfl⟩
    simp [Buf.cells, he, List.replicate_append_replicate]
  · have hno := hwf.notOther
    have hdl := hwf.dataLen he
    let p' : List Nat := match b.present with | none => initOnNull b.length | some p => p
    have hpn : pushNulls b n = { b with present := some p', data := b.data ++ List.replicate n (zeroOf b.kind),
                                          length := b.length + n } := by
      cases hb : b.kind <;> simp_all [pushNulls, p'] <;> cases b.present <;> rfl
    have hbits : ∀ j, isSet p' j = (match b.present with | none => decide (j < b.length) | some p => isSet p j) := by
      intro j
      cases hp : b.present <;> simp [p', hp, isSet_initOnNull]
    rw [hpn]
    refine ⟨⟨hno, fun h => absurd h he, fun _ => by simp [hdl], ?_⟩, rfl, ?_, rfl⟩
    · intro q hq j hj
      cases hq
      rw [hbits]
      cases hp : b.present with
      | none => simp at hj ⊢; omega
      | some p => exact hwf.noStray p hp j (by simp at hj; omega)
    · have hcells' : Buf.cells { b with present := some p', data := b.data ++ List.replicate n (zeroOf b.kind),
                                         length := b.length + n }
          = maskFrom p' 0 (b.data ++ List.replicate n (zeroOf b.kind)) := by
        cases hb : b.kind <;> simp_all [Buf.cells]
      rw [hcells', maskFrom_append]
      congr 1
      · cases hp : b.present with
        | none =>
          have : Buf.cells b = b.data := by cases hb : b.kind <;> simp_all [Buf.cells]
          rw [this]
          apply maskFrom_all
          intro j hj
          rw [hbits, hp]; simp; omega
        | some p =>
          have : Buf.cells b = maskFrom p 0 b.data := by cases hb : b.kind <;> simp_all [Buf.cells]
          rw [this]
          apply maskFrom_rel
          intro j hj
          rw [hbits, hp]
      · rw [maskFrom_none]
        · simp
        · intro j hj
          rw [hbits, hdl]
          cases hp : b.present with
          | none => simp
          | some p => exact hwf.noStray p hp _ (by omega)

/-! ### the compaction loop -/

theorem cellsOf_length (v : SVal) : (cellsOf v).length = (dataCells v.data).length := by
  unfold cellsOf
  cases v.present <;> simp [maskFrom_length]

theorem pushDecoded_spec (k : Kind) (hk1 : k ≠ .empty) (hk2 : k ≠ .other) (b : Buf) (hwf : WF b)
    (hbk : b.kind = .empty ∨ b.kind = k) (v : SVal) (hv : valKind v = none ∨ valKind v = some k) :
    ∃ b', pushDecoded b v = .ok b' ∧ WF b' ∧ b'.length = b.length + (cellsOf v).length ∧
      b'.cells = b.cells ++ cellsOf v ∧ (b'.kind = .empty ∨ b'.kind = k) := by
  obtain ⟨data, present⟩ := v
  cases data with
  | i64 d =>
    have hk : k = .int := by
      cases hv with
      | inl h => simp [valKind] at h
      | inr h => simp [valKind] at h; exact h.symm
    subst hk
    obtain ⟨b', h1, h2, h3, h4, h5⟩ := pushTyped_spec .int hk1 hk2 b hwf hbk (d.map .int) present
    refine ⟨b', by simpa [pushDecoded] using h1, h2, ?_, ?_, Or.inr h5⟩
    · rw [h3, cellsOf_length]; simp [dataCells]
    · rw [h4]; cases present <;> simp [pushedCells, cellsOf, dataCells]
  | f64 d =>
    have hk : k = .float := by
      cases hv with
      | inl h => simp [valKind] at h
      | inr h => simp [valKind] at h; exact h.symm
    subst hk
    obtain ⟨b', h1, h2, h3, h4, h5⟩ := pushTyped_spec .float hk1 hk2 b hwf hbk (d.map .float) present
    refine ⟨b', by simpa [pushDecoded] using h1, h2, ?_, ?_, Or.inr h5⟩
    · rw [h3, cellsOf_length]; simp [dataCells]
    · rw [h4]; cases present <;> simp [pushedCells, cellsOf, dataCells]
  | str d =>
    have hk : k = .str := by
      cases hv with
      | inl h => simp [valKind] at h
      | inr h => simp [valKind] at h; exact h.symm
    subst hk
    obtain ⟨b', h1, h2, h3, h4, h5⟩ := pushTyped_spec .str hk1 hk2 b hwf hbk (d.map .str) present
    refine ⟨b', by simpa [pushDecoded] using h1, h2, ?_, ?_, Or.inr h5⟩
    · rw [h3, cellsOf_length]; simp [dataCells]
    · rw [h4]; cases present <;> simp [pushedCells, cellsOf, dataCells]
  | null n =>
    cases present with
    | some p =>
      cases hv with
      | inl h => simp [valKind] at h
      | inr h => simp [valKind] at h; exact absurd h.symm hk2
    | none =>
      obtain ⟨h2, h3, h4, h5⟩ := pushNulls_spec b hwf n
      refine ⟨pushNulls b n, rfl, h2, ?_, ?_, by rw [h5]; exact hbk⟩
      · rw [h3]; simp [cellsOf, dataCells]
      · rw [h4]; simp [cellsOf, dataCells]
  | nat w d =>
    cases hv with
    | inl h => simp [valKind] at h
    | inr h => simp [valKind] at h; exact absurd h.symm hk2
  | bits d =>
    cases hv with
    | inl h => simp [valKind] at h
    | inr h => simp [valKind] at h; exact absurd h.symm hk2
  | raw s =>
    cases hv with
    | inl h => simp [valKind] at h
    | inr h => simp [valKind] at h; exact absurd h.symm hk2

/-- The rebuilt buffer of a single-typed column reads as the concatenation of the decoded values' cells.
    All sequences, lengths, bitmaps. -/
theorem pushAll_spec (k : Kind) (hk1 : k ≠ .empty) (hk2 : k ≠ .other) (vs : List SVal) :
    ∀ (b : Buf), WF b → (b.kind = .empty ∨ b.kind = k) → homog k vs = true →
    ∃ b', pushAll b vs = .ok b' ∧ WF b' ∧ b'.length = b.length + ((vs.map fun v => (cellsOf v).length).sum) ∧
      b'.cells = b.cells ++ vs.flatMap cellsOf := by
  induction vs with
  | nil => intro b hwf _ _; exact ⟨b, rfl, hwf, by simp, by simp⟩
  | cons v vs ih =>
    intro b hwf hbk hh
    have hv : valKind v = none ∨ valKind v = some k := by
      simp only [homog, List.all_cons, Bool.and_eq_true, Bool.or_eq_true, beq_iff_eq] at hh
      exact hh.1
    have hh' : homog k vs = true := by
      simp only [homog, List.all_cons, Bool.and_eq_true] at hh
      exact hh.2
    obtain ⟨b1, h1, h2, h3, h4, h5⟩ := pushDecoded_spec k hk1 hk2 b hwf hbk v hv
    obtain ⟨b', g1, g2, g3, g4⟩ := ih b1 h2 h5 hh'
    refine ⟨b', by simp [pushAll, h1, g1], g2, ?_, ?_⟩
    · rw [g3, h3]; simp; omega
    · rw [g4, h4]; simp

end LM.Rebuild
