import LocustModel.Query.Normalize
/-
  Helper lemmas for C12: the syntax-tree converter never panics.
-/
namespace LM.Norm
open LM

/-- Every number literal in the expression has a text Rust's float parser accepts (sqlparser's
    tokenizer only produces such texts; this is the one assumption about sqlparser the totality
    theorem needs). -/
def AExpr.NumsOk : AExpr → Prop
  | .binary _ l r => l.NumsOk ∧ r.NumsOk
  | .unary _ e => e.NumsOk
  | .value (.number _ f) => f.isSome = true
  | .value _ => True
  | .ident _ => True
  | .nested e => e.NumsOk
  | .func0 _ => True
  | .func1 _ a => a.NumsOk
  | .func2 _ a b => a.NumsOk ∧ b.NumsOk
  | .funcN _ => True
  | .isNull e => e.NumsOk
  | .isNotNull e => e.NumsOk
  | .like _ e p _ => e.NumsOk ∧ p.NumsOk
  | .floor e => e.NumsOk
  | .other => True

def SelItem.NumsOk : SelItem → Prop
  | .unnamed e _ => e.NumsOk
  | .aliased e _ => e.NumsOk
  | _ => True

def AQuery.NumsOk (q : AQuery) : Prop :=
  (match q.body with
   | .select s => (∀ it ∈ s.projection, it.NumsOk) ∧ (∀ e, s.selection = some e → e.NumsOk)
   | .other => True) ∧
  (match q.orderBy with
   | .exprs es => ∀ p ∈ es, p.1.NumsOk
   | _ => True)

def Statement.NumsOk : Statement → Prop
  | .query q => q.NumsOk
  | .other => True

def Parsed.NumsOk : Parsed → Prop
  | .stmts ss => ∀ s ∈ ss, s.NumsOk
  | _ => True

theorem mapBinaryOperator_noFault (op : BinOp) : (mapBinaryOperator op).NoFault := by
  cases op <;> trivial

theorem mapUnaryOperator_noFault (op : UnOp) : (mapUnaryOperator op).NoFault := by
  cases op <;> trivial

theorem getRawVal_noFault (l : Lit) (h : (AExpr.value l).NumsOk) : (getRawVal l).NoFault := by
  cases l with
  | number text f =>
    simp only [getRawVal]
    split
    · trivial
    · cases f with
      | none => simp [AExpr.NumsOk] at h
      | some b => trivial
  | sqString s => trivial
  | null => trivial
  | other => trivial

theorem fnArityError_noFault (name : String) : (fnArityError name).NoFault := by
  unfold fnArityError; split <;> trivial

/-- Closes goals of the form `(do let x ← a; …; pure _).NoFault` given the facts for the pieces. -/
theorem noFault_bind_pure {α β : Type} {x : Res α} (g : α → β) (hx : x.NoFault) :
    (x >>= fun a => pure (g a)).NoFault :=
  Res.noFault_bind hx (fun _ _ => trivial)

theorem noFault_bind2_pure {α β γ : Type} {x : Res α} {y : Res β} (g : α → β → γ)
    (hx : x.NoFault) (hy : y.NoFault) :
    (x >>= fun a => y >>= fun b => pure (g a b)).NoFault :=
  Res.noFault_bind hx (fun _ _ => Res.noFault_bind hy (fun _ _ => trivial))

theorem convertExpr_noFault (e : AExpr) (h : e.NumsOk) : (convertExpr e).NoFault := by
  induction e with
  | binary op l r ihl ihr =>
    simp only [convertExpr]
    exact Res.noFault_bind (mapBinaryOperator_noFault op) fun _ _ =>
      noFault_bind2_pure _ (ihl h.1) (ihr h.2)
  | unary op e ih =>
    simp only [convertExpr]
    exact Res.noFault_bind (mapUnaryOperator_noFault op) fun _ _ => noFault_bind_pure _ (ih h)
  | value l =>
    simp only [convertExpr]
    exact noFault_bind_pure _ (getRawVal_noFault l h)
  | ident v => trivial
  | nested e ih => simp only [convertExpr]; exact ih h
  | func0 name => simp only [convertExpr]; exact fnArityError_noFault name
  | funcN name => simp only [convertExpr]; exact fnArityError_noFault name
  | func1 name a ih =>
    simp only [convertExpr]
    have ha := ih h
    split
    · exact noFault_bind_pure _ ha
    · exact noFault_bind_pure _ ha
    · exact noFault_bind_pure _ ha
    · exact noFault_bind_pure _ ha
    · exact noFault_bind2_pure _ ha ha
    · exact noFault_bind_pure _ ha
    · exact noFault_bind_pure _ ha
    · trivial
    · trivial
  | func2 name a b iha ihb =>
    simp only [convertExpr]
    split
    · exact noFault_bind2_pure _ (iha h.1) (ihb h.2)
    · trivial
    · trivial
  | isNull e ih => simp only [convertExpr]; exact noFault_bind_pure _ (ih h)
  | isNotNull e ih => simp only [convertExpr]; exact noFault_bind_pure _ (ih h)
  | like negated e p escape ihe ihp =>
    simp only [convertExpr]
    split
    · trivial
    · exact noFault_bind2_pure _ (ihe h.1) (ihp h.2)
  | floor e ih => simp only [convertExpr]; exact noFault_bind_pure _ (ih h)
  | other => trivial

theorem convertItem_noFault (it : SelItem) (h : it.NumsOk) : (convertItem it).NoFault := by
  cases it with
  | unnamed e d => exact noFault_bind_pure _ (convertExpr_noFault e h)
  | aliased e a => exact noFault_bind_pure _ (convertExpr_noFault e h)
  | wildcard => trivial
  | other => trivial

theorem getProjection_noFault (items : List SelItem) (h : ∀ it ∈ items, it.NumsOk) :
    (getProjection items).NoFault := by
  induction items with
  | nil => trivial
  | cons it rest ih =>
    have hit : it.NumsOk := h it (List.mem_cons_self)
    have hrest := ih (fun x hx => h x (List.mem_cons_of_mem _ hx))
    simp only [getProjection]
    exact Res.noFault_bind (convertItem_noFault it hit) fun _ _ => noFault_bind_pure _ hrest

theorem getFilter_noFault (sel : Option AExpr) (h : ∀ e, sel = some e → e.NumsOk) : (getFilter sel).NoFault := by
  cases sel with
  | none => trivial
  | some e => exact convertExpr_noFault e (h e rfl)

theorem getOrderByList_noFault (es : List (AExpr × Option Bool)) (h : ∀ p ∈ es, p.1.NumsOk) :
    (getOrderByList es).NoFault := by
  induction es with
  | nil => trivial
  | cons p rest ih =>
    obtain ⟨e, asc⟩ := p
    simp only [getOrderByList]
    exact noFault_bind2_pure _ (convertExpr_noFault e (h (e, asc) List.mem_cons_self))
      (ih (fun x hx => h x (List.mem_cons_of_mem _ hx)))

theorem getLimit_noFault (l : Option AExpr) : (getLimit l).NoFault := by
  unfold getLimit; split
  · split <;> trivial
  · trivial
  · trivial

theorem getOffset_noFault (l : Option AExpr) : (getOffset l).NoFault := by
  unfold getOffset; split
  · trivial
  · split <;> trivial
  · trivial

theorem getTableName_noFault (r : Option TableFactor) : (getTableName r).NoFault := by
  unfold getTableName; split <;> trivial

theorem getQueryComponents_noFault (q : AQuery) : (getQueryComponents q).NoFault := by
  unfold getQueryComponents
  split
  · trivial
  · dsimp only
    repeat' split
    all_goals trivial

theorem getQueryComponents_fields (q : AQuery) (c : Components) (h : getQueryComponents q = .ok c) :
    ∃ s, q.body = .select s ∧ c.projection = s.projection ∧ c.selection = s.selection ∧
      c.orderBy = (match q.orderBy with | .exprs es => some es | _ => none) := by
  unfold getQueryComponents at h
  split at h
  · cases h
  · rename_i s hs
    dsimp only at h
    repeat' split at h
    all_goals (cases h)
    all_goals (refine ⟨s, hs, rfl, rfl, ?_⟩; simp [*])

theorem getProjection_length (items : List SelItem) (cis : List ColumnInfo) (h : getProjection items = .ok cis) :
    cis.length = items.length := by
  induction items generalizing cis with
  | nil => simp [getProjection] at h; subst h; rfl
  | cons it rest ih =>
    simp only [getProjection] at h
    cases hit : convertItem it with
    | err e => rw [hit] at h; simp at h
    | fault f => rw [hit] at h; simp at h
    | ok ci =>
      rw [hit] at h
      simp only [Res.ok_bind] at h
      cases hr : getProjection rest with
      | err e => rw [hr] at h; simp at h
      | fault f => rw [hr] at h; simp at h
      | ok cs =>
        rw [hr] at h
        simp at h
        subst h
        simp [ih cs hr]

/-- The select list of the parsed query is the converted projection of the statement. -/
theorem parseQuery_select (q : AQuery) (qq : Query) (h : parseQuery (.stmts [.query q]) = .ok qq) :
    ∃ c, getQueryComponents q = .ok c ∧ getProjection c.projection = .ok qq.select := by
  simp only [parseQuery, List.length_singleton, Nat.lt_irrefl, if_false, List.getLast?_singleton] at h
  cases hc : getQueryComponents q with
  | err e => rw [hc] at h; simp at h
  | fault f => rw [hc] at h; simp at h
  | ok c =>
    rw [hc] at h
    simp only [Res.ok_bind] at h
    cases hp : getProjection c.projection with
    | err e => rw [hp] at h; simp at h
    | fault f => rw [hp] at h; simp at h
    | ok cis =>
      rw [hp] at h
      simp only [Res.ok_bind] at h
      refine ⟨c, rfl, ?_⟩
      cases ht : getTableName c.relation with
      | err e => rw [ht] at h; simp at h
      | fault f => rw [ht] at h; simp at h
      | ok tbl =>
        rw [ht] at h
        simp only [Res.ok_bind] at h
        cases hf : getFilter c.selection with
        | err e => rw [hf] at h; simp at h
        | fault f => rw [hf] at h; simp at h
        | ok flt =>
          rw [hf] at h
          simp only [Res.ok_bind] at h
          cases ho : getOrderBy c.orderBy with
          | err e => rw [ho] at h; simp at h
          | fault f => rw [ho] at h; simp at h
          | ok ob =>
            rw [ho] at h
            simp only [Res.ok_bind] at h
            cases hl : getLimit c.limit with
            | err e => rw [hl] at h; simp at h
            | fault f => rw [hl] at h; simp at h
            | ok l =>
              rw [hl] at h
              simp only [Res.ok_bind] at h
              cases hoff : getOffset c.offset with
              | err e => rw [hoff] at h; simp at h
              | fault f => rw [hoff] at h; simp at h
              | ok o =>
                rw [hoff] at h
                simp at h
                subst h
                exact hp

end LM.Norm
