import LocustModel.Query.Normalize
/-
  Helper lemmas for C12: the syntax-tree converter never panics.
-/
namespace LM.Norm
open LM

/-- Every number literal in the expression has a text Rust's float parser accepts (sqlparser's
    tokenizer only produces such texts; this is the one assumption about sqlparser the totality
    theorem needs). -/
def AExpr.NumsOk : AExpr → Prop
  | .binary _ l r => l.NumsOk ∧ r.NumsOk
  | .unary _ e => e.NumsOk
  | .value (.number _ f) => f.isSome = true
  | .value _ => True
  | .ident _ => True
  | .nested e => e.NumsOk
  | .func0 _ => True
  | .func1 _ a => a.NumsOk
  | .func2 _ a b => a.NumsOk ∧ b.NumsOk
  | .funcN _ => True
  | .isNull e => e.NumsOk
  | .isNotNull e => e.NumsOk
  | .like _ e p _ => e.NumsOk ∧ p.NumsOk
  | .floor e => e.NumsOk
  | .other => True

def SelItem.NumsOk : SelItem → Prop
  | .unnamed e _ => e.NumsOk
  | .aliased e _ => e.NumsOk
  | _ => True

def AQuery.NumsOk (q : AQuery) : Prop :=
  (match q.body with
   | .select s => (∀ it ∈ s.projection, it.NumsOk) ∧ (∀ e, s.selection = some e → e.NumsOk)
   | .other => True) ∧
  (match q.orderBy with
   | .exprs es => ∀ p ∈ es, p.1.NumsOk
   | _ => True)

def Statement.NumsOk : Statement → Prop
  | .query q => q.NumsOk
  | .other => True

def Parsed.NumsOk : Parsed → Prop
  | .stmts ss => ∀ s ∈ ss, s.NumsOk
  | _ => True

theorem mapBinaryOperator_noFault (op : BinOp) : (mapBinaryOperator op).NoFault := by
  cases op <;> trivial

theorem mapUnaryOperator_noFault (op : UnOp) : (mapUnaryOperator op).NoFault := by
  cases op <;> trivial

theorem getRawVal_noFault (l : Lit) (h : (AExpr.value l).NumsOk) : (getRawVal l).NoFault := by
  cases l with
  | number text f =>
    simp only [getRawVal]
    split
    · trivial
    · cases f with
      | none => simp [AExpr.NumsOk] at h
      | some b => trivial
  | sqString s => trivial
  | null => trivial
  | other => trivial

theorem fnArityError_noFault (name : String) : (fnArityError name).NoFault := by
  unfold fnArityError; split <;> trivial

/-- Closes goals of the form `(do let x ← a; …; pure _).NoFault` given the facts for the pieces. -/
theorem noFault_bind_pure {α β : Type} {x : Res α} (g : α → β) (hx : x.NoFault) :
    (x >>= fun a => pure (g a)).NoFault :=
  Res.noFault_bind hx (fun _ _ => trivial)

theorem noFault_bind2_pure {α β γ : Type} {x : Res α} {y : Res β} (g : α → β → γ)
    (hx : x.NoFault) (hy : y.NoFault) :
    (x >>= fun a => y >>= fun b => pure (g a b)).NoFault :=
  Res.noFault_bind hx (fun _ _ => Res.noFault_bind hy (fun _ _ => trivial))

theorem convertExpr_noFault (e : AExpr) (h : e.NumsOk) : (convertExpr e).NoFault := by
  induction e with
  | binary op l r ihl ihr =>
    simp only [convertExpr]
    exact Res.noFault_bind (mapBinaryOperator_noFault op) fun _ _ =>
      noFault_bind2_pure _ (ihl h.1) (ihr h.2)
  | unary op e ih =>
    simp only [convertExpr]
    exact Res.noFault_bind (mapUnaryOperator_noFault op) fun _ _ => noFault_bind_pure _ (ih h)
  | value l =>
    simp only [convertExpr]
    exact noFault_bind_pure _ (getRawVal_noFault l h)
  | ident v => trivial
  | nested e ih => simp only [convertExpr]; exact ih h
  | func0 name => simp only [convertExpr]; exact fnArityError_noFault name
  | funcN name => simp only [convertExpr]; exact fnArityError_noFault name
  | func1 name a ih =>
    simp only [convertExpr]
    have ha := ih h
    split
    · exact noFault_bind_pure _ ha
    · exact noFault_bind_pure _ ha
    · exact noFault_bind_pure _ ha
    · exact noFault_bind_pure _ ha
    · exact noFault_bind2_pure _ ha ha
    · exact noFault_bind_pure _ ha
    · exact noFault_bind_pure _ ha
    · trivial
    · trivial
  | func2 name a b iha ihb =>
    simp only [convertExpr]
    split
    · exact noFault_bind2_pure _ (iha h.1) (ihb h.2)
    · trivial
    · trivial
  | isNull e ih => simp only [convertExpr]; exact noFault_bind_pure _ (ih h)
  | isNotNull e ih => simp only [convertExpr]; exact noFault_bind_pure _ (ih h)
  | like negated e p escape ihe ihp =>
    simp only [convertExpr]
    split
    · trivial
    · exact noFault_bind2_pure _ (ihe h.1) (ihp h.2)
  | floor e ih => simp only [convertExpr]; exact noFault_bind_pure _ (ih h)
  | other => trivial

theorem getProjection_noFault (items : List SelItem) (h : ∀ it ∈ items, it.NumsOk) :
    (getProjection items).NoFault := by
  induction items with
  | nil => trivial
  | cons it rest ih =>
    have hit : it.NumsOk := h it (List.mem_cons_self)
    have hrest := ih (fun x hx => h x (List.mem_cons_of_mem _ hx))
    cases it with
    | unnamed e d =>
      simp only [getProjection]
      exact Res.noFault_bind (convertExpr_noFault e hit) fun _ _ =>
        Res.noFault_bind (by trivial) fun _ _ => noFault_bind_pure _ hrest
    | aliased e a =>
      simp only [getProjection]
      exact Res.noFault_bind (convertExpr_noFault e hit) fun _ _ =>
        Res.noFault_bind (by trivial) fun _ _ => noFault_bind_pure _ hrest
    | wildcard =>
      simp only [getProjection]
      exact Res.noFault_bind (by trivial) fun _ _ => noFault_bind_pure _ hrest
    | other =>
      simp only [getProjection]
      exact Res.noFault_bind (by trivial) fun _ _ => noFault_bind_pure _ hrest

theorem getOrderByList_noFault (es : List (AExpr × Option Bool)) (h : ∀ p ∈ es, p.1.NumsOk) :
    (getOrderByList es).NoFault := by
  induction es with
  | nil => trivial
  | cons p rest ih =>
    obtain ⟨e, asc⟩ := p
    simp only [getOrderByList]
    exact noFault_bind2_pure _ (convertExpr_noFault e (h (e, asc) List.mem_cons_self))
      (ih (fun x hx => h x (List.mem_cons_of_mem _ hx)))

theorem getLimit_noFault (l : Option AExpr) : (getLimit l).NoFault := by
  unfold getLimit; split
  · split <;> trivial
  · trivial
  · trivial

theorem getOffset_noFault (l : Option AExpr) : (getOffset l).NoFault := by
  unfold getOffset; split
  · trivial
  · split <;> trivial
  · trivial

theorem getTableName_noFault (r : Option TableFactor) : (getTableName r).NoFault := by
  unfold getTableName; split <;> trivial

theorem getQueryComponents_noFault (q : AQuery) : (getQueryComponents q).NoFault := by
  unfold getQueryComponents
  split
  · trivial
  · dsimp only
    repeat' split
    all_goals trivial

theorem getQueryComponents_fields (q : AQuery) (c : Components) (h : getQueryComponents q = .ok c) :
    ∃ s, q.body = .select s ∧ c.projection = s.projection ∧ c.selection = s.selection ∧
      c.orderBy = (match q.orderBy with | .exprs es => some es | _ => none) := by
  unfold getQueryComponents at h
  split at h
  · cases h
  · rename_i s hs
    dsimp only at h
    repeat' split at h
    all_goals (cases h)
    all_goals (refine ⟨s, hs, rfl, rfl, ?_⟩; simp [*])

end LM.Norm
